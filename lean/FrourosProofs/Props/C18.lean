/-
  C18 — incremental statistics (Mean, EWMA, CircularMean), circular queues (CircularQueue, AccuracyQueue)
  and the prequential error, as modelled in `FrourosModel/Stats.lean`.

  Arithmetic facts are proved at `α = ℝ`; queue facts for an arbitrary element type (no `Num` at all),
  counter/constant facts for an arbitrary carrier.  Structural helper lemmas about the queues live in
  `FrourosProofs/Lemmas/CircQueue.lean` and `FrourosProofs/Lemmas/AccQueue.lean`.
-/
import FrourosProofs.RealNum
import FrourosProofs.Lemmas.AccQueue

namespace Frouros.C18
open Frouros

/-! ## 1. Incremental mean -/

/-- control-flow part, every carrier: the counter is the number of updates -/
theorem mean_n {α : Type} [Num α] (xs : List α) : (xs.foldl Mean.update Mean.init).n = xs.length := by
  induction xs using List.reverseRecOn with
  | nil => rfl
  | append_singleton xs x ih => simp [List.foldl_append, Mean.update, ih]

/-- invariant `mean * n = Σ xs` (true also for the empty stream: `0 * 0 = 0`) -/
theorem mean_mul_n (xs : List ℝ) :
    (xs.foldl Mean.update Mean.init).mean * (xs.length : ℝ) = xs.sum := by
  induction xs using List.reverseRecOn with
  | nil => simp [Mean.init]
  | append_singleton xs x ih =>
    have hn := mean_n xs
    simp only [List.foldl_append, List.foldl_cons, List.foldl_nil, Mean.update, hn, RealNum.ofNat_eq,
      List.length_append, List.length_cons, List.length_nil, List.sum_append, List.sum_cons, List.sum_nil,
      Nat.cast_add, Nat.cast_one, zero_add, add_zero]
    have hpos : ((xs.length : ℝ) + 1) ≠ 0 := by positivity
    rw [← ih]
    field_simp
    ring

theorem mean_eq (xs : List ℝ) :
    (xs.foldl Mean.update Mean.init).n = xs.length ∧
    (xs ≠ [] → (xs.foldl Mean.update Mean.init).mean = xs.sum / (xs.length : ℝ)) := by
  refine ⟨mean_n xs, fun hne => ?_⟩
  have hpos : (xs.length : ℝ) ≠ 0 := by
    have : 0 < xs.length := List.length_pos_iff.mpr hne
    positivity
  rw [← mean_mul_n xs]
  field_simp

example : ([1, 2, 6] : List ℝ).foldl Mean.update Mean.init = ⟨3, 3⟩ := by
  simp [Mean.update, Mean.init]; norm_num


/-! ## 2. EWMA -/

/-- `update` never touches the two constants -/
theorem ewma_consts {α : Type} [Num α] (a : α) (xs : List α) :
    (xs.foldl EWMA.update (EWMA.init a)).alpha = a ∧
    (xs.foldl EWMA.update (EWMA.init a)).oneMinus = Num.one - a := by
  induction xs using List.reverseRecOn with
  | nil => exact ⟨rfl, rfl⟩
  | append_singleton xs x ih => simpa [List.foldl_append, EWMA.update] using ih

/-- the weighted sum `Σ_{i<t} a (1-a)^(t-1-i) xs[i]` (`t = xs.length`) -/
noncomputable def ewmaSpec (a : ℝ) (xs : List ℝ) : ℝ :=
  ∑ i : Fin xs.length, a * (1 - a) ^ (xs.length - 1 - i.val) * xs[i]

/-- the same sum over `Finset.range`, convenient for induction (indices are always in range) -/
theorem ewmaSpec_range (a : ℝ) (xs : List ℝ) :
    ewmaSpec a xs = ∑ i ∈ Finset.range xs.length, a * (1 - a) ^ (xs.length - 1 - i) * xs.getD i 0 := by
  unfold ewmaSpec
  rw [Finset.sum_range]
  refine Finset.sum_congr rfl fun i _ => ?_
  simp [List.getD_eq_getElem?_getD]

theorem ewmaSpec_nil (a : ℝ) : ewmaSpec a [] = 0 := by simp [ewmaSpec]

/-- recursive characterisation of the specification -/
theorem ewmaSpec_append (a : ℝ) (xs : List ℝ) (x : ℝ) :
    ewmaSpec a (xs ++ [x]) = a * x + (1 - a) * ewmaSpec a xs := by
  rw [ewmaSpec_range, ewmaSpec_range]
  simp only [List.length_append, List.length_cons, List.length_nil, zero_add, Nat.add_sub_cancel]
  rw [Finset.sum_range_succ, Finset.mul_sum, add_comm]
  congr 1
  · simp [List.getD_eq_getElem?_getD]
  · refine Finset.sum_congr rfl fun i hi => ?_
    have hi' : i < xs.length := Finset.mem_range.mp hi
    have h1 : xs.length - i = (xs.length - 1 - i) + 1 := by omega
    have h2 : (xs ++ [x]).getD i 0 = xs.getD i 0 := by
      simp [List.getD_eq_getElem?_getD, List.getElem?_append_left hi']
    rw [h1, h2, pow_succ]
    ring

theorem ewma_closed_form (a : ℝ) (xs : List ℝ) :
    (xs.foldl EWMA.update (EWMA.init a)).mean
      = ∑ i : Fin xs.length, a * (1 - a) ^ (xs.length - 1 - i.val) * xs[i] := by
  change _ = ewmaSpec a xs
  induction xs using List.reverseRecOn with
  | nil => simp [ewmaSpec_nil, EWMA.init]
  | append_singleton xs x ih =>
    obtain ⟨h1, h2⟩ := ewma_consts a xs
    rw [ewmaSpec_append, ← ih]
    simp [List.foldl_append, EWMA.update, h1, h2]

example : ([4, 8] : List ℝ).foldl EWMA.update (EWMA.init (1/2)) = ⟨1/2, 1/2, 5⟩ := by
  simp [EWMA.update, EWMA.init]; norm_num

/-! ## 3. Prequential (fading-factor) error -/

/-- the state after feeding the errors `es` (results discarded) -/
def preqRun {α : Type} [Num α] (a : α) (es : List α) : Preq α :=
  es.foldl (fun s e => (s.call e).2) (Preq.init a)

/-- `Σ_{i<t} a^(t-1-i) * es[i]`  (`= Σ_{i=1..t} a^(t-i) e_i` with 1-based indices) -/
noncomputable def fadeSum (a : ℝ) (es : List ℝ) : ℝ :=
  ∑ i : Fin es.length, a ^ (es.length - 1 - i.val) * es[i]
/-- `Σ_{i<t} a^(t-1-i)` -/
noncomputable def fadeCnt (a : ℝ) (t : Nat) : ℝ := ∑ i : Fin t, a ^ (t - 1 - i.val)

theorem fadeSum_append (a : ℝ) (es : List ℝ) (e : ℝ) : fadeSum a (es ++ [e]) = fadeSum a es * a + e := by
  have key : ∀ l : List ℝ, fadeSum a l = ∑ i ∈ Finset.range l.length, a ^ (l.length - 1 - i) * l.getD i 0 := by
    intro l
    unfold fadeSum
    rw [Finset.sum_range]
    refine Finset.sum_congr rfl fun i _ => ?_
    simp [List.getD_eq_getElem?_getD]
  rw [key, key]
  simp only [List.length_append, List.length_cons, List.length_nil, zero_add, Nat.add_sub_cancel]
  rw [Finset.sum_range_succ, Finset.sum_mul]
  congr 1
  · refine Finset.sum_congr rfl fun i hi => ?_
    have hi' : i < es.length := Finset.mem_range.mp hi
    have h1 : es.length - i = (es.length - 1 - i) + 1 := by omega
    have h2 : (es ++ [e]).getD i 0 = es.getD i 0 := by
      simp [List.getD_eq_getElem?_getD, List.getElem?_append_left hi']
    rw [h1, h2, pow_succ]
    ring
  · simp [List.getD_eq_getElem?_getD]

theorem fadeCnt_succ (a : ℝ) (t : Nat) : fadeCnt a (t + 1) = fadeCnt a t * a + 1 := by
  unfold fadeCnt
  rw [← Finset.sum_range (fun i => a ^ (t + 1 - 1 - i)), ← Finset.sum_range (fun i => a ^ (t - 1 - i)),
    Finset.sum_range_succ, Finset.sum_mul]
  congr 1
  · refine Finset.sum_congr rfl fun i hi => ?_
    have hi' : i < t := Finset.mem_range.mp hi
    have h1 : t + 1 - 1 - i = (t - 1 - i) + 1 := by omega
    rw [h1, pow_succ]
  · simp

theorem fadeCnt_pos {a : ℝ} (ha : 0 ≤ a) (t : Nat) : 0 < fadeCnt a (t + 1) := by
  induction t with
  | zero => simp [fadeCnt]
  | succ t ih => rw [fadeCnt_succ]; positivity

theorem preqRun_append {α : Type} [Num α] (a : α) (es : List α) (e : α) :
    preqRun a (es ++ [e]) = ((preqRun a es).call e).2 := by
  simp [preqRun, List.foldl_append]

/-- state invariant, for every real `a` -/
theorem preqRun_state (a : ℝ) (es : List ℝ) :
    (preqRun a es).alpha = a ∧ (preqRun a es).cumErr = fadeSum a es ∧
    (preqRun a es).cumInst = fadeCnt a es.length := by
  induction es using List.reverseRecOn with
  | nil => simp [preqRun, Preq.init, fadeSum, fadeCnt]
  | append_singleton es e ih =>
    obtain ⟨h1, h2, h3⟩ := ih
    rw [preqRun_append]
    simp [Preq.call, h1, h2, h3, fadeSum_append, fadeCnt_succ]

/-- The value returned by the `t`-th call (`t = es.length + 1 ≥ 1`, last error `e`) is the fading average
`(Σ_i a^(t-i) e_i) / (Σ_i a^(t-i))`, and its denominator is positive.
Hypothesis: only `0 ≤ a` is needed (the constructor's contract `0 < a ≤ 1` implies it; `a ≤ 1` plays no role).  The
equation alone holds for every real `a` (`prequential_closed_form_eq`), but for `a < 0` the denominator can vanish
(`prequential_negative_alpha_witness`) and the quotient is then Lean's junk value `x / 0 = 0`, so positivity is
part of the statement. -/
theorem prequential_closed_form (a : ℝ) (ha : 0 ≤ a) (es : List ℝ) (e : ℝ) :
    0 < fadeCnt a (es.length + 1) ∧
    ((preqRun a es).call e).1 = fadeSum a (es ++ [e]) / fadeCnt a (es.length + 1) := by
  obtain ⟨h1, h2, h3⟩ := preqRun_state a es
  refine ⟨fadeCnt_pos ha _, ?_⟩
  simp [Preq.call, h1, h2, h3, fadeSum_append, fadeCnt_succ]

/-- the instance under the constructor's contract `0 < alpha ≤ 1` -/
example (a : ℝ) (ha : 0 < a) (_ : a ≤ 1) (es : List ℝ) (e : ℝ) :
    0 < fadeCnt a (es.length + 1) ∧
    ((preqRun a es).call e).1 = fadeSum a (es ++ [e]) / fadeCnt a (es.length + 1) :=
  prequential_closed_form a ha.le es e

/-- numerator and denominator separately, no hypothesis on `a` -/
theorem prequential_closed_form_eq (a : ℝ) (es : List ℝ) (e : ℝ) :
    ((preqRun a es).call e).1 = fadeSum a (es ++ [e]) / fadeCnt a (es.length + 1) := by
  obtain ⟨h1, h2, h3⟩ := preqRun_state a es
  simp [Preq.call, h1, h2, h3, fadeSum_append, fadeCnt_succ]

/-- for a negative fading factor the denominator can be zero (second call with `a = -1`) -/
theorem prequential_negative_alpha_witness : fadeCnt (-1) 2 = 0 := by
  simp [fadeCnt, Fin.sum_univ_two]

/-- errors in `[0,1]` give a prequential error in `[0,1]` (for `0 ≤ a`) -/
theorem prequential_mem_unit (a : ℝ) (ha : 0 ≤ a) (es : List ℝ) (e : ℝ)
    (hb : ∀ x ∈ es ++ [e], 0 ≤ x ∧ x ≤ 1) :
    0 ≤ ((preqRun a es).call e).1 ∧ ((preqRun a es).call e).1 ≤ 1 := by
  have key : ∀ l : List ℝ, (∀ x ∈ l, 0 ≤ x ∧ x ≤ 1) → 0 ≤ fadeSum a l ∧ fadeSum a l ≤ fadeCnt a l.length := by
    intro l
    induction l using List.reverseRecOn with
    | nil => intro _; simp [fadeSum, fadeCnt]
    | append_singleton l x ih =>
      intro hl
      obtain ⟨i1, i2⟩ := ih fun y hy => hl y (List.mem_append_left _ hy)
      obtain ⟨x0, x1⟩ := hl x (by simp)
      rw [fadeSum_append, List.length_append, List.length_singleton, fadeCnt_succ]
      constructor
      · positivity
      · nlinarith
  obtain ⟨hpos, heq⟩ := prequential_closed_form a ha es e
  obtain ⟨k1, k2⟩ := key (es ++ [e]) hb
  rw [List.length_append, List.length_singleton] at k2
  rw [heq]
  exact ⟨div_nonneg k1 hpos.le, (div_le_one hpos).mpr k2⟩

/-- with `a = 1` (no fading) the result is the plain error rate -/
theorem prequential_alpha_one (es : List ℝ) (e : ℝ) :
    ((preqRun 1 es).call e).1 = (es ++ [e]).sum / ((es.length : ℝ) + 1) := by
  have hs : ∀ l : List ℝ, fadeSum 1 l = l.sum := by
    intro l
    induction l using List.reverseRecOn with
    | nil => simp [fadeSum]
    | append_singleton l x ih => rw [fadeSum_append, ih]; simp
  have hc : ∀ t : Nat, fadeCnt 1 t = t := by
    intro t; simp [fadeCnt]
  rw [prequential_closed_form_eq, hs, hc]
  simp

example : ((preqRun (1/2 : ℝ) [1, 0]).call 1).1 = 5 / 7 := by
  simp [preqRun, Preq.call, Preq.init]; norm_num


/-! ## 4. Circular queue: representation invariant and refinement to a bounded FIFO

`CQ.WF` (in `Lemmas/CircQueue.lean`): `0 < maxLen`, `buf.length = maxLen`, `count ≤ maxLen`, `first < maxLen`,
`count > 0 → last = some ((first + count - 1) % maxLen)` and `count = 0 → nextLast = first` (this covers both
`last = none` after `init`/`clear` and the stale `last` left by dequeuing down to empty).
The abstraction function is `CQ.toList` (contents oldest first, a `List (Option β)`). -/
section Queue
variable {β : Type}
open CQ

/-- well-formedness holds initially … -/
theorem cq_wf_init {n : Nat} (hn : 0 < n) : WF (CQ.init n : CQ β) := init_WF hn
/-- … and is preserved by every operation that returns `.ok` (`maxLen` is never changed) -/
theorem cq_wf_enqueue {q q' : CQ β} {v : β} {e : Option β} (h : WF q) (he : q.enqueue v = .ok (e, q')) :
    WF q' ∧ q'.maxLen = q.maxLen := by
  obtain ⟨e1, q1, h1, h2, h3, _⟩ := enqueue_spec h v
  rw [h1] at he
  obtain ⟨-, rfl⟩ : e1 = e ∧ q1 = q' := by simpa using he
  exact ⟨h2, h3⟩
theorem cq_wf_dequeue {q q' : CQ β} {e : Option β} (h : WF q) (he : q.dequeue = .ok (e, q')) :
    WF q' ∧ q'.maxLen = q.maxLen := by
  cases hemp : q.isEmpty
  · obtain ⟨e1, q1, h1, h2, h3, _⟩ := dequeue_nonempty h hemp
    rw [h1] at he
    obtain ⟨-, rfl⟩ : e1 = e ∧ q1 = q' := by simpa using he
    exact ⟨h2, h3⟩
  · rw [dequeue_empty hemp] at he; simp at he
theorem cq_wf_clear {q : CQ β} (h : WF q) : WF q.clear ∧ q.clear.maxLen = q.maxLen := ⟨clear_WF h, rfl⟩
theorem cq_wf_keepLast {q q' : CQ β} (h : WF q) (he : q.keepLast = .ok q') : WF q' ∧ q'.maxLen = q.maxLen := by
  cases hemp : q.isEmpty
  · obtain ⟨q1, h1, h2, h3, _⟩ := keepLast_nonempty h hemp
    rw [h1] at he
    obtain rfl : q1 = q' := by simpa using he
    exact ⟨h2, h3⟩
  · rw [keepLast_empty hemp] at he; simp at he

/-- `enqueue` on a non-full queue: nothing is evicted, the value is appended -/
theorem cq_enqueue_not_full {q : CQ β} (h : WF q) (hf : q.isFull = false) (v : β) :
    ∃ q', q.enqueue v = .ok (none, q') ∧ q'.toList = q.toList ++ [some v] := by
  obtain ⟨q', h1, _, _, h4⟩ := enqueue_not_full h hf v
  exact ⟨q', h1, h4⟩

/-- `enqueue` on a full queue: the oldest entry `(toList q)[0]` is evicted and returned, the value is appended -/
theorem cq_enqueue_full {q : CQ β} (h : WF q) (hf : q.isFull = true) (v : β) :
    ∃ e q', q.enqueue v = .ok (e, q') ∧ q.toList.head? = some e ∧ q'.toList = q.toList.tail ++ [some v] := by
  obtain ⟨e, q', h1, _, _, h4, h5⟩ := enqueue_full h hf v
  exact ⟨e, q', h1, h4, h5⟩

/-- the hypotheses of `cq_enqueue_full` are satisfiable (a full queue of capacity 2 that has already wrapped) -/
example : WF (⟨2, 1, some 0, 2, [some 3, some 2]⟩ : CQ Nat) ∧ (⟨2, 1, some 0, 2, [some 3, some 2]⟩ : CQ Nat).isFull = true :=
  ⟨⟨by decide, by decide, by decide, by decide, by decide, by decide⟩, by decide⟩

/-- `enqueue` never raises on a well-formed queue (`0 < maxLen` is part of `WF`; see `enqueue_init_zero`) -/
theorem cq_enqueue_ne_error {q : CQ β} (h : WF q) (v : β) (e : Err) : q.enqueue v ≠ .error e :=
  enqueue_ne_error h v e

/-- the hypothesis `0 < maxLen` cannot be dropped: a queue of capacity 0 raises `EmptyQueueError` on `enqueue` -/
theorem cq_enqueue_capacity_zero_witness (v : β) : (CQ.init 0 : CQ β).enqueue v = .error .emptyQueue := rfl

theorem cq_dequeue_nonempty {q : CQ β} (h : WF q) (he : q.isEmpty = false) :
    ∃ e q', q.dequeue = .ok (e, q') ∧ q.toList.head? = some e ∧ q'.toList = q.toList.tail := by
  obtain ⟨e, q', h1, _, _, h4, h5⟩ := dequeue_nonempty h he
  exact ⟨e, q', h1, h4, h5⟩

theorem cq_dequeue_empty {q : CQ β} (he : q.isEmpty = true) : q.dequeue = .error .emptyQueue := dequeue_empty he

theorem cq_clear (q : CQ β) : q.clear.toList = [] := toList_clear q

theorem cq_keepLast_nonempty {q : CQ β} (h : WF q) (he : q.isEmpty = false) :
    ∃ q', q.keepLast = .ok q' ∧ ∃ hne : q.toList ≠ [], q'.toList = [q.toList.getLast hne] := by
  obtain ⟨q', h1, _, _, h4⟩ := keepLast_nonempty h he
  exact ⟨q', h1, h4⟩

theorem cq_keepLast_empty {q : CQ β} (he : q.isEmpty = true) : q.keepLast = .error .emptyQueue := keepLast_empty he

/-- size observers (no hypothesis needed) -/
theorem cq_size (q : CQ β) :
    q.count = q.toList.length ∧ (q.isEmpty = true ↔ q.toList = []) ∧ (q.isFull = true ↔ q.toList.length = q.maxLen) :=
  ⟨count_eq_length q, isEmpty_iff q, isFull_iff q⟩

/-- every queue reachable from `init n` (`0 < n`) by operations returning `.ok` is well-formed, has capacity `n`,
holds at most `n` entries and exposes only real values (`some _`) -/
theorem cq_reachable {n : Nat} (hn : 0 < n) {q : CQ β} (hr : CQ.Reach n q) :
    WF q ∧ q.maxLen = n ∧ q.toList.length ≤ n ∧ ∃ l : List β, q.toList = l.map some := by
  obtain ⟨h1, h2, h3⟩ := hr.good hn
  exact ⟨h1, h2, h2 ▸ h1.length_le, h3⟩

/-- After enqueuing `xs` one by one into `init n` the queue holds the last `n` values, oldest first; and when it
is full, the raw backing list (what `np.array(queue)` iterates over) is a rotation — hence a permutation — of them. -/
theorem full_exposes_last {n : Nat} (hn : 0 < n) (xs : List β) :
    ∃ q, enqueueAll (CQ.init n) xs = .ok q ∧ WF q ∧
      q.toList = (xs.drop (xs.length - n)).map some ∧
      (q.isFull = true → q.toList = q.raw.rotate q.first ∧ q.raw.Perm q.toList) := by
  obtain ⟨q, h1, h2, _, h4⟩ := enqueueAll_spec (init_WF hn : WF (CQ.init n : CQ β)) xs
  refine ⟨q, h1, h2, ?_, fun hf => ⟨toList_full_eq_rotate h2 hf, raw_perm_toList_of_full h2 hf⟩⟩
  rw [h4]
  simp [CQ.init, toList, lastN, List.map_drop]

example : enqueueAll (CQ.init 2) [1, 2, 3] = .ok (⟨2, 1, some 0, 2, [some 3, some 2]⟩ : CQ Nat) := by decide
example : (⟨2, 1, some 0, 2, [some 3, some 2]⟩ : CQ Nat).toList = [some 2, some 3] := by decide

/-- `WF` alone does not make the exposed entries values: a stale/`None` slot can sit inside the logical window of a
hand-made well-formed queue — reachability from `init` (`cq_reachable`) is what excludes it. -/
example : WF (⟨1, 0, some 0, 1, [none]⟩ : CQ Nat) ∧ (⟨1, 0, some 0, 1, [none]⟩ : CQ Nat).toList = [none] :=
  ⟨⟨by decide, by decide, by decide, by decide, by decide, by decide⟩, by decide⟩

/-- the "full" hypothesis of `full_exposes_last` cannot be dropped: `dequeue` does not erase the slot, so the raw
backing list of a non-full queue shows stale values and `None` paddings that are not in the queue. -/
theorem raw_not_perm_when_not_full_witness :
    ∃ q : CQ Nat, CQ.Reach 2 q ∧ q.toList = [] ∧ q.raw = [some 7, none] :=
  ⟨⟨0, 1, some 0, 2, [some 7, none]⟩,
    .dequeue (e := some 7) (.enqueue (v := 7) (e := none) (q := CQ.init 2) (q' := ⟨1, 0, some 0, 2, [some 7, none]⟩)
      .init rfl) rfl, rfl, rfl⟩

/-! ### the refinement as one simulation theorem -/

/-- the public operations -/
inductive QOp (β : Type) where
  | enq (v : β) | deq | clear | keepLast

/-- implementation step: output (evicted / dequeued element, `none` otherwise) and new queue -/
def implStep (q : CQ β) : QOp β → Except Err (Option β × CQ β)
  | .enq v => q.enqueue v
  | .deq => q.dequeue
  | .clear => .ok (none, q.clear)
  | .keepLast => match q.keepLast with | .error e => .error e | .ok q' => .ok (none, q')

/-- specification: a FIFO on lists bounded by `n` that evicts its oldest entry when full -/
def specStep (n : Nat) (l : List β) : QOp β → Except Err (Option β × List β)
  | .enq v => if l.length = n then .ok (l.head?, l.tail ++ [v]) else .ok (none, l ++ [v])
  | .deq => match l with | [] => .error .emptyQueue | x :: t => .ok (some x, t)
  | .clear => .ok (none, [])
  | .keepLast => match l.getLast? with | none => .error .emptyQueue | some x => .ok (none, [x])

/-- Simulation: from related states (`WF q`, `toList q = l.map some`) every operation gives the same error, or
the same output and related states again. -/
theorem cq_refines_fifo {q : CQ β} {l : List β} (h : WF q) (habs : q.toList = l.map some) (op : QOp β) :
    (∀ err, implStep q op = .error err ↔ specStep q.maxLen l op = .error err) ∧
    (∀ o q', implStep q op = .ok (o, q') →
      WF q' ∧ q'.maxLen = q.maxLen ∧ ∃ l', specStep q.maxLen l op = .ok (o, l') ∧ q'.toList = l'.map some) := by
  have hlen : l.length = q.count := by rw [count_eq_length, habs, List.length_map]
  cases op with
  | enq v =>
    cases hf : q.isFull
    · obtain ⟨q1, h1, h2, h3, h4⟩ := enqueue_not_full h hf v
      have hne : l.length ≠ q.maxLen := by
        simp only [isFull, beq_eq_false_iff_ne, ne_eq] at hf; omega
      refine ⟨fun err => by simp [implStep, specStep, h1, hne], fun o q' he => ?_⟩
      simp only [implStep, h1, Except.ok.injEq, Prod.mk.injEq] at he
      obtain ⟨rfl, rfl⟩ := he
      exact ⟨h2, h3, l ++ [v], by simp [specStep, hne], by simp [h4, habs]⟩
    · obtain ⟨e, q1, h1, h2, h3, h4, h5⟩ := enqueue_full h hf v
      have heq : l.length = q.maxLen := by
        have : q.count = q.maxLen := by simpa [isFull] using hf
        omega
      refine ⟨fun err => by simp [implStep, specStep, h1, heq], fun o q' he => ?_⟩
      simp only [implStep, h1, Except.ok.injEq, Prod.mk.injEq] at he
      obtain ⟨rfl, rfl⟩ := he
      have he' : e = l.head? := by
        rw [habs, List.head?_map] at h4
        cases hh : l.head? with
        | none => simp [hh] at h4
        | some x => simp [hh] at h4 ⊢; exact h4.symm
      exact ⟨h2, h3, l.tail ++ [v], by simp [specStep, heq, he'], by simp [h5, habs, List.map_tail]⟩
  | deq =>
    cases hemp : q.isEmpty
    · obtain ⟨e, q1, h1, h2, h3, h4, h5⟩ := dequeue_nonempty h hemp
      have hc := count_pos_of_not_empty hemp
      cases l with
      | nil => simp at hlen; omega
      | cons x t =>
        have he' : e = some x := by simpa [habs] using h4.symm
        refine ⟨fun err => by simp [implStep, specStep, h1], fun o q' he => ?_⟩
        simp only [implStep, h1, Except.ok.injEq, Prod.mk.injEq] at he
        obtain ⟨rfl, rfl⟩ := he
        exact ⟨h2, h3, t, by simp [specStep, he'], by simp [h5, habs]⟩
    · have hnil : l = [] := by
        have := (isEmpty_iff q).mp hemp
        rw [habs] at this; simpa using this
      subst hnil
      refine ⟨fun err => by simp [implStep, specStep, dequeue_empty hemp], fun o q' he => ?_⟩
      simp [implStep, dequeue_empty hemp] at he
  | clear =>
    refine ⟨fun err => by simp [implStep, specStep], fun o q' he => ?_⟩
    simp only [implStep, Except.ok.injEq, Prod.mk.injEq] at he
    obtain ⟨rfl, rfl⟩ := he
    exact ⟨clear_WF h, rfl, [], by simp [specStep], by simp [toList_clear]⟩
  | keepLast =>
    cases hemp : q.isEmpty
    · obtain ⟨q1, h1, h2, h3, hne, h5⟩ := keepLast_nonempty h hemp
      have hne' : l ≠ [] := by rintro rfl; simp [habs] at hne
      have hgl : l.getLast? = some (l.getLast hne') := List.getLast?_eq_getLast_of_ne_nil hne'
      refine ⟨fun err => by simp [implStep, specStep, h1, hgl], fun o q' he => ?_⟩
      simp only [implStep, h1, Except.ok.injEq, Prod.mk.injEq] at he
      obtain ⟨rfl, rfl⟩ := he
      exact ⟨h2, h3, [l.getLast hne'], by simp [specStep, hgl], by rw [h5]; simp [habs, List.getLast_map]⟩
    · have hnil : l = [] := by
        have := (isEmpty_iff q).mp hemp
        rw [habs] at this; simpa using this
      subst hnil
      refine ⟨fun err => by simp [implStep, specStep, keepLast_empty hemp], fun o q' he => ?_⟩
      simp [implStep, keepLast_empty hemp] at he

/-- run a whole history, collecting the outputs -/
def implRun : CQ β → List (QOp β) → Except Err (List (Option β) × CQ β)
  | q, [] => .ok ([], q)
  | q, op :: ops => match implStep q op with
    | .error e => .error e
    | .ok (o, q') => match implRun q' ops with
      | .error e => .error e
      | .ok (os, q'') => .ok (o :: os, q'')
def specRun (n : Nat) : List β → List (QOp β) → Except Err (List (Option β) × List β)
  | l, [] => .ok ([], l)
  | l, op :: ops => match specStep n l op with
    | .error e => .error e
    | .ok (o, l') => match specRun n l' ops with
      | .error e => .error e
      | .ok (os, l'') => .ok (o :: os, l'')

/-- Unbounded histories: started from `init n` (`0 < n`), the circular queue and the bounded FIFO on lists produce
the same outputs and the same error (if any), and end in related states. -/
theorem cq_refines_fifo_run {q : CQ β} {l : List β} (h : WF q) (habs : q.toList = l.map some) (ops : List (QOp β)) :
    (∀ err, implRun q ops = .error err ↔ specRun q.maxLen l ops = .error err) ∧
    (∀ os q', implRun q ops = .ok (os, q') →
      WF q' ∧ ∃ l', specRun q.maxLen l ops = .ok (os, l') ∧ q'.toList = l'.map some) := by
  induction ops generalizing q l with
  | nil =>
    refine ⟨fun err => by simp [implRun, specRun], fun os q' he => ?_⟩
    simp only [implRun, Except.ok.injEq, Prod.mk.injEq] at he
    obtain ⟨rfl, rfl⟩ := he
    exact ⟨h, l, rfl, habs⟩
  | cons op ops ih =>
    obtain ⟨e1, e2⟩ := cq_refines_fifo h habs op
    cases hi : implStep q op with
    | error err =>
      have hs := (e1 err).mp hi
      refine ⟨fun err' => by simp [implRun, specRun, hi, hs], fun os q' he => ?_⟩
      simp [implRun, hi] at he
    | ok p =>
      obtain ⟨o, q1⟩ := p
      obtain ⟨w1, m1, l1, s1, a1⟩ := e2 o q1 hi
      obtain ⟨i1, i2⟩ := ih w1 a1
      rw [m1] at i1 i2
      cases hr : implRun q1 ops with
      | error err =>
        have hs := (i1 err).mp hr
        refine ⟨fun err' => by simp [implRun, specRun, hi, s1, hr, hs], fun os q' he => ?_⟩
        simp [implRun, hi, hr] at he
      | ok p2 =>
        obtain ⟨os1, q2⟩ := p2
        obtain ⟨w2, l2, s2, a2⟩ := i2 os1 q2 hr
        refine ⟨fun err' => by simp [implRun, specRun, hi, s1, hr, s2], fun os q' he => ?_⟩
        simp only [implRun, hi, hr, Except.ok.injEq, Prod.mk.injEq] at he
        obtain ⟨rfl, rfl⟩ := he
        exact ⟨w2, l2, by simp [specRun, s1, s2], a2⟩

/-- the instance everybody uses: histories started from the freshly constructed queue -/
theorem cq_refines_fifo_from_init {n : Nat} (hn : 0 < n) (ops : List (QOp β)) :
    (∀ err, implRun (CQ.init n : CQ β) ops = .error err ↔ specRun n [] ops = .error err) ∧
    (∀ os q', implRun (CQ.init n : CQ β) ops = .ok (os, q') →
      WF q' ∧ ∃ l', specRun n [] ops = .ok (os, l') ∧ q'.toList = l'.map some) :=
  cq_refines_fifo_run (init_WF hn) (by simp [CQ.init, toList]) ops

example : implRun (CQ.init 2) [.enq 1, .enq 2, .enq 3, .deq, .keepLast] =
    .ok ([none, none, some 1, some 2, none], (⟨1, 0, some 0, 2, [some 3, some 2]⟩ : CQ Nat)) := by decide
end Queue

/-! ## 5. Accuracy queue -/

/-- For every accuracy queue built from `AccQ.init n` (`0 < n`) by `enqueue`/`dequeue`/`clear`/`keepLast` calls that
return `.ok`: `numTrue` is the number of `True` entries, `numFalse` (an `Int` in the model, `count - numTrue`) is the
number of `False` entries and in particular non-negative. -/
theorem accuracy_counts {n : Nat} (hn : 0 < n) {a : AccQ} (hr : AccQ.Reach n a) :
    a.numTrue = (a.q.toList.filter (· == some true)).length ∧
    a.numFalse = ((a.q.toList.filter (· == some false)).length : Int) ∧
    0 ≤ a.numFalse := by
  obtain ⟨g, _⟩ := hr.good hn
  have h1 : a.numTrue = (a.q.toList.filter (· == some true)).length := g.numTrue_eq
  have h2 : a.numFalse = ((a.q.toList.filter (· == some false)).length : Int) := by
    obtain ⟨l, hl⟩ := g.allSome
    have h3 := AccQ.length_eq_countTrue_add_countFalse l
    rw [← hl, ← CQ.count_eq_length] at h3
    unfold AccQ.numFalse
    rw [h1, h3]
    unfold AccQ.countTrue AccQ.countFalse
    omega
  exact ⟨h1, h2, by rw [h2]; exact Int.natCast_nonneg _⟩

example : AccQ.Reach 2 (⟨⟨2, 1, some 0, 2, [some true, some false]⟩, 1⟩ : AccQ) :=
  .enqueue (v := true) (a := ⟨⟨2, 0, some 1, 2, [some true, some false]⟩, 1⟩)
    (.enqueue (v := false) (a := ⟨⟨1, 0, some 0, 2, [some true, none]⟩, 1⟩)
      (.enqueue (v := true) .init rfl) rfl) rfl


/-! ## 6. Circular (sliding-window) mean -/

/-- feed a whole list, one value at a time, propagating errors -/
def circMeanRun {α : Type} [Num α] : CircMean α → List α → Except Err (CircMean α)
  | s, [] => .ok s
  | s, v :: vs => match s.update v with
    | .error e => .error e
    | .ok s' => circMeanRun s' vs

/-- invariant linking the state to the window `W` (oldest first) -/
structure CMInv (s : CircMean ℝ) (W : List ℝ) : Prop where
  wf : CQ.WF s.q
  abs : s.q.toList = W.map some
  n_eq : s.n = W.length
  mean_eq : s.mean * (W.length : ℝ) = W.sum

theorem circMean_init {size : Nat} (h : 0 < size) : CMInv (CircMean.init size) [] :=
  ⟨CQ.init_WF h, by simp [CircMean.init, CQ.init, CQ.toList], rfl, by simp⟩

open CQ in
theorem circMean_step {s : CircMean ℝ} {W : List ℝ} (h : CMInv s W) (v : ℝ) :
    ∃ s', s.update v = .ok s' ∧ s'.q.maxLen = s.q.maxLen ∧ CMInv s' (lastN s.q.maxLen (W ++ [v])) := by
  have hcnt : s.q.count = W.length := by rw [count_eq_length, h.abs, List.length_map]
  cases hf : s.q.isFull
  · obtain ⟨q', h1, h2, h3, h4⟩ := enqueue_not_full h.wf hf v
    have hlt : W.length < s.q.maxLen := by
      have := h.wf.cnt
      simp only [isFull, beq_eq_false_iff_ne, ne_eq] at hf; omega
    have hW : lastN s.q.maxLen (W ++ [v]) = W ++ [v] := lastN_of_le (by simp; omega)
    have habs : q'.toList = (W ++ [v]).map some := by simp [h4, h.abs]
    have hc' : q'.count = W.length + 1 := by rw [count_eq_length, habs]; simp
    refine ⟨⟨s.mean + (v - s.mean) / Num.ofNat q'.count, q'.count, q'⟩, by simp only [CircMean.update, h1], h3, ?_⟩
    rw [hW]
    refine ⟨h2, habs, by simp [hc'], ?_⟩
    have hpos : ((W.length : ℝ) + 1) ≠ 0 := by positivity
    have hm := h.mean_eq
    simp only [hc', RealNum.ofNat_eq, List.length_append, List.length_cons, List.length_nil, List.sum_append,
      List.sum_cons, List.sum_nil, Nat.cast_add, Nat.cast_one, zero_add, add_zero]
    rw [← hm]
    field_simp
    ring
  · obtain ⟨e, q', h1, h2, h3, h4, h5⟩ := enqueue_full h.wf hf v
    have hlen : W.length = s.q.maxLen := by rw [← hcnt]; simpa [isFull] using hf
    have hm0 := h.wf.pos
    cases W with
    | nil => simp at hlen; omega
    | cons w W' =>
      have he : e = some w := by simpa [h.abs] using h4.symm
      subst he
      have hW : lastN s.q.maxLen ((w :: W') ++ [v]) = W' ++ [v] := by
        simp [lastN, ← hlen]
      have habs : q'.toList = (W' ++ [v]).map some := by simp [h5, h.abs]
      have hc' : q'.count = W'.length + 1 := by rw [count_eq_length, habs]; simp
      refine ⟨⟨s.mean + (v - w) / Num.ofNat q'.count, q'.count, q'⟩, by simp only [CircMean.update, h1], h3, ?_⟩
      rw [hW]
      refine ⟨h2, habs, by simp [hc'], ?_⟩
      have hpos : ((W'.length : ℝ) + 1) ≠ 0 := by positivity
      have hm := h.mean_eq
      simp only [hc', RealNum.ofNat_eq, List.length_append, List.length_cons, List.length_nil, List.sum_append,
        List.sum_cons, List.sum_nil, Nat.cast_add, Nat.cast_one, zero_add, add_zero] at hm ⊢
      field_simp
      linarith

open CQ in
theorem circMean_run {s : CircMean ℝ} {W : List ℝ} (h : CMInv s W) (xs : List ℝ) :
    ∃ s', circMeanRun s xs = .ok s' ∧ s'.q.maxLen = s.q.maxLen ∧ CMInv s' (lastN s.q.maxLen (W ++ xs)) := by
  induction xs generalizing s W with
  | nil =>
    refine ⟨s, rfl, rfl, ?_⟩
    have : W.length ≤ s.q.maxLen := by
      have := h.wf.length_le; rwa [h.abs, List.length_map] at this
    rwa [List.append_nil, lastN_of_le this]
  | cons v vs ih =>
    obtain ⟨s1, h1, h2, h3⟩ := circMean_step h v
    obtain ⟨s', g1, g2, g3⟩ := ih h3
    refine ⟨s', by simp [circMeanRun, h1, g1], g2.trans h2, ?_⟩
    rw [h2, lastN_append_lastN] at g3
    simpa using g3

/-- After `update` on `xs` (non-empty) from `CircMean.init size`, `0 < size`: no error is raised, `n = min size t`
and `mean` is the arithmetic mean of the last `min size t` values (`t = xs.length`). -/
theorem circular_mean_eq {size : Nat} (hsize : 0 < size) (xs : List ℝ) (hne : xs ≠ []) :
    ∃ s, circMeanRun (CircMean.init size) xs = .ok s ∧ s.n = min size xs.length ∧
      s.mean = (xs.drop (xs.length - size)).sum / ((min size xs.length : Nat) : ℝ) := by
  obtain ⟨s, h1, _, h3⟩ := circMean_run (circMean_init hsize) xs
  have hl : (CQ.lastN size xs).length = min size xs.length := CQ.length_lastN size xs
  have h3' : CMInv s (CQ.lastN size xs) := by simpa [CircMean.init, CQ.init] using h3
  refine ⟨s, h1, by rw [h3'.n_eq, hl], ?_⟩
  have hpos : 0 < min size xs.length := by
    have : 0 < xs.length := List.length_pos_iff.mpr hne
    omega
  have hm := h3'.mean_eq
  rw [hl] at hm
  have hne0 : ((min size xs.length : Nat) : ℝ) ≠ 0 := by positivity
  change s.mean = (CQ.lastN size xs).sum / _
  rw [← hm]
  field_simp

example : ∃ s, circMeanRun (CircMean.init 2) ([1, 2, 6] : List ℝ) = .ok s ∧ s.mean = 4 := by
  obtain ⟨s, h1, _, h3⟩ := circular_mean_eq (size := 2) (by norm_num) ([1, 2, 6] : List ℝ) (by simp)
  exact ⟨s, h1, by rw [h3]; norm_num⟩

end Frouros.C18

section Axioms
open Frouros.C18
#print axioms mean_n
#print axioms mean_eq
#print axioms ewma_consts
#print axioms ewma_closed_form
#print axioms prequential_closed_form
#print axioms prequential_closed_form_eq
#print axioms prequential_negative_alpha_witness
#print axioms prequential_mem_unit
#print axioms prequential_alpha_one
#print axioms cq_wf_init
#print axioms cq_wf_enqueue
#print axioms cq_wf_dequeue
#print axioms cq_wf_clear
#print axioms cq_wf_keepLast
#print axioms cq_enqueue_not_full
#print axioms cq_enqueue_full
#print axioms cq_enqueue_ne_error
#print axioms cq_enqueue_capacity_zero_witness
#print axioms cq_dequeue_nonempty
#print axioms cq_dequeue_empty
#print axioms cq_clear
#print axioms cq_keepLast_nonempty
#print axioms cq_keepLast_empty
#print axioms cq_size
#print axioms cq_reachable
#print axioms full_exposes_last
#print axioms raw_not_perm_when_not_full_witness
#print axioms cq_refines_fifo
#print axioms cq_refines_fifo_run
#print axioms cq_refines_fifo_from_init
#print axioms accuracy_counts
#print axioms circular_mean_eq
end Axioms
