/-
  C07u — CLOSED FORM, MONOTONICITY and BINARY64 INSTANCE for the statistic part of the `C07s` error analysis
  (CUSUM / Page-Hinkley / geometric moving average under the IEEE-valid standard model).

  `C07s` proves the forward error bound `|toR g_t − g_t^ℝ| ≤ sumErr u eta M c t` and the verdict transfer under the
  no-overflow condition `Safe = MeanSafe ∧ SumSafe`, but leaves `sumErr` / `SumSafe` as a recursion / a finite list of
  inequalities (its UNPROVED block).  This file is pure real algebra about THE SAME definitions `C07s.sumErr`,
  `C07s.SumSafe`, `C07s.Safe` (nothing is redefined), plus the corollaries that plug the results into the transfer
  theorems of `C07s`.

  Notation (kind-dependent constants of the real configuration `cR`, all defined below):
    `kA cR` = factor by which a step multiplies the old statistic (`1` for cusum, `|alpha|` for Page-Hinkley and gma),
    `kB cR` = factor on the mean error (`|1 − alpha|` for gma, `1` otherwise),
    `kD cR` = `|delta|` (cusum, Page-Hinkley), `0` (gma, which ignores `delta`),
    `kS M cR` = a-priori increment of the real statistic per step: `2M + |delta|` (cusum, Page-Hinkley),
                `|1 − alpha|·2M` (gma);   `gBound M cR t ≤ t · kS M cR` whenever `kA cR ≤ 1` (`gBound_le`).
    `closedB u eta M cR t = t(t+1)/2 · (u·(7·kB·M + 3·kS) + kB·eta) + t·(u·kS + 2·eta)`   — THE closed form.
  Binary64 constants are REAL numbers: `u = 1/2^53`, `eta = 1/2^1075`, `Omega ≥ 2^1023` (e.g. `(2 − 1/2^52)·2^1023`).

  WHAT IS PROVED
  1. Monotonicity (for `0 ≤ u, eta, M`):
       `meanErr_mono_t`, `sumErr_mono_t`        : both recursions are monotone in `t` (every kind, every `alpha`);
       `meanErr_mono_params`, `sumErr_mono_params` : monotone in `u`, `eta`, `M` simultaneously;
       `gBound_mono_t`, `gBound_mono_M`;  `sumMag_mono_all`;
       `SumSafe.anti_params`, `MeanSafe.anti_params`, `Safe.anti_params`: the no-overflow conditions are antitone in
       `u, eta, M` and monotone in `Omega` (a check made for pessimistic constants is valid for smaller ones).
     `sumErr_not_mono_alpha_witness`: `sumErr` is NOT monotone in `alpha` (it depends on `|alpha|` and `|1 − alpha|`):
       for gma, `alpha = 0` gives a larger bound than `alpha = 1/2`.
  2. Closed forms (`kA cR ≤ 1`, i.e. `|alpha| ≤ 1` for Page-Hinkley / gma; no condition for cusum):
       `sumErr_le_pow` (no smallness hypothesis beyond `(1+u)^3 ≤ 2`): for `k ≤ T`
          `sumErr k ≤ (1+u)^(3k) · ( k(k+1)/2 · ((1+u)^(T+4)·kB·((7+6u+2u²)·M·u + eta) + ((1+u)^3−1)·kS)
                                      + k·(u·(1+u)^3·kS + 2·eta·(1+u)) )`;
       `sumErr_closed_eps`:  `(1+u)^(4t+4) ≤ 1+ε`, `ε ≤ 1`  ⟹  `sumErr t ≤ (1+ε)² · closedB t`;
       `sumErr_closed`:      `8·(t+1)·u ≤ 1`  ⟹  `sumErr t ≤ (1 + 8(t+1)u)² · closedB t`  (`≤ 4·closedB t`:
                             `sumErr_closed_four`);
       `sumErr_binary64_scale`: `u = 2^-53`, `eta = 2^-1075`, `t ≤ 2^20`  ⟹  `sumErr t ≤ (1 + 2^-27)·closedB t`.
     Shape: `t²/2 · u · (7·kB·M + 3·kS)  +  t²/2 · kB · eta  +  O(t)·(u·kS + eta)` — quadratic in `t` because the
     a-priori bound `gBound` on the real statistic and the mean error both grow linearly and are summed.  The constant
     `7` is inherited from `C07s.meanErr_closed` (to first order `meanErr ≈ u·M·(t+13)/2`, so `7` is not optimal);
     the `3` is exact for cusum (three roundings of the old statistic per step).
  3. No overflow in closed form:
       `sumSafe_of_closed`: ONE inequality `sumMag … (t·kS) ((1+ε)²·closedB t) ((1+ε)²·t·(7Mu+eta)) ≤ Omega`
          implies `SumSafe`;  `safe_of_closed`: with `C07s.meanSafe_of_closed`'s inequality it implies `Safe`;
       `sumMag_le_crude`: `sumMag ≤ 4G + 4D + 34M + 17E + 2·kD + 4` (for `u, eta ≤ 1`, `kA ≤ 1`);
       `sumSafe_binary64`, `safe_binary64`: at `u = 2^-53`, `eta = 2^-1075`, any `Omega ≥ 2^1023` (in particular the
          largest double `(2 − 2^-52)·2^1023`: `omega64_ge`), for every `M ≤ 2^990`, `|delta| ≤ 2^990` (cusum, PH),
          `|alpha| ≤ 1` (PH, gma) and every `t ≤ 2^20`: `SumSafe` and `Safe` HOLD.
  4. Transfer with the closed form on the COMPUTED statistic:
       `drift_transfer_closed` (any constants, `Safe` still a hypothesis),
       `drift_transfer_binary64` (binary64 constants; `Safe` DISCHARGED; hypotheses: finite inputs/constants,
          `|x_i| ≤ M ≤ 2^990`, length `≤ 2^20`, `kA ≤ 1`, `kD ≤ 2^990`, and
          `(2 + 2^-25)·closedB < |toR g_t − lambda|` once the warm-up is over),
       `drift_transfer_history_binary64`, `drift_transfer_history_all_binary64`: the same after any history with
          resets / for the whole verdict sequence.
       `closedB_example`, `cusum_binary64_example` and the `example`s of §7: cusum, `M = 1`, `|delta| ≤ 1`,
          `t ≤ 1000`: `closedB < 9·10^-10`, `sumErr < 10^-9`, so a computed statistic farther than `2·10^-9` from
          `lambda` has the verdict of exact arithmetic.  The last `example` of §7 checks ALL hypotheses of
          `drift_transfer_binary64` on the rounding carrier `Biased (2^-53)` (non-vacuity).
       `gBound_le_needs_kA_witness`: `kA ≤ 1` cannot be dropped from `gBound_le`.

  NOT ACHIEVED / LIMITS
    * The closed forms need `kA cR ≤ 1`.  For `|alpha| > 1` (Page-Hinkley / gma) the recursion grows geometrically in
      `|alpha|` and no polynomial bound exists; not treated.
    * Constants are not optimal (`7` from `meanErr_closed`; `kS` is used where cusum only needs `M`-terms).
    * As in `C07s`: nothing here is a theorem about Lean's `Float`; the binary64 numbers are REAL constants.
-/
import Mathlib.Tactic.Ring
import Mathlib.Tactic.FieldSimp
import Mathlib.Tactic.Linarith
import Mathlib.Tactic.NormNum
import Mathlib.Tactic.Positivity
import Mathlib.Tactic.GCongr
import FrourosProofs.Props.C07s

namespace Frouros.C07u
open Frouros CUSUMFam C07 C07s

/-! ## 0. Kind-dependent constants -/

/-- factor multiplying the old statistic in one step -/
noncomputable def kA (cR : Cfg ℝ) : ℝ :=
  match cR.kind with
  | .cusum => 1
  | .pageHinkley => |cR.alpha|
  | .gma => |cR.alpha|

/-- factor multiplying the error of the mean in one step -/
noncomputable def kB (cR : Cfg ℝ) : ℝ :=
  match cR.kind with
  | .cusum => 1
  | .pageHinkley => 1
  | .gma => |1 - cR.alpha|

/-- the `delta` the kind uses -/
noncomputable def kD (cR : Cfg ℝ) : ℝ :=
  match cR.kind with
  | .cusum => |cR.delta|
  | .pageHinkley => |cR.delta|
  | .gma => 0

/-- a-priori increment of the real statistic per step -/
noncomputable def kS (M : ℝ) (cR : Cfg ℝ) : ℝ :=
  match cR.kind with
  | .cusum => 2 * M + |cR.delta|
  | .pageHinkley => 2 * M + |cR.delta|
  | .gma => |1 - cR.alpha| * (2 * M)

/-- **the closed form** for `sumErr` (up to the factor `(1+ε)²`) -/
noncomputable def closedB (u eta M : ℝ) (cR : Cfg ℝ) (t : ℕ) : ℝ :=
  (t : ℝ) * ((t : ℝ) + 1) / 2 * (u * (7 * kB cR * M + 3 * kS M cR) + kB cR * eta)
    + (t : ℝ) * (u * kS M cR + 2 * eta)

theorem kA_nonneg (cR : Cfg ℝ) : 0 ≤ kA cR := by
  rcases cR with ⟨kind, lam, del, al, minN⟩
  cases kind <;> simp only [kA] <;> positivity

theorem kB_nonneg (cR : Cfg ℝ) : 0 ≤ kB cR := by
  rcases cR with ⟨kind, lam, del, al, minN⟩
  cases kind <;> simp only [kB] <;> positivity

theorem kD_nonneg (cR : Cfg ℝ) : 0 ≤ kD cR := by
  rcases cR with ⟨kind, lam, del, al, minN⟩
  cases kind <;> simp only [kD] <;> positivity

theorem kS_nonneg {M : ℝ} (hM : 0 ≤ M) (cR : Cfg ℝ) : 0 ≤ kS M cR := by
  rcases cR with ⟨kind, lam, del, al, minN⟩
  cases kind <;> simp only [kS] <;> positivity

/-- `|alpha| ≤ 1` forces `|1 − alpha| ≤ 2` -/
theorem kB_le_two {cR : Cfg ℝ} (hA : kA cR ≤ 1) : kB cR ≤ 2 := by
  rcases cR with ⟨kind, lam, del, al, minN⟩
  cases kind <;> simp only [kA, kB] at * <;> try norm_num
  have := abs_sub (1 : ℝ) al
  have h1 : |(1 : ℝ)| = 1 := abs_one
  linarith

theorem kS_le {M Q : ℝ} {cR : Cfg ℝ} (hM : 0 ≤ M) (hMQ : M ≤ Q) (hA : kA cR ≤ 1) (hD : kD cR ≤ Q) :
    kS M cR ≤ 4 * Q := by
  have hB := kB_le_two hA
  rcases cR with ⟨kind, lam, del, al, minN⟩
  cases kind <;> simp only [kS, kD, kB] at * <;> nlinarith [abs_nonneg (1 - al)]

theorem kS_mono_M {M M' : ℝ} (h : M ≤ M') (cR : Cfg ℝ) : kS M cR ≤ kS M' cR := by
  rcases cR with ⟨kind, lam, del, al, minN⟩
  cases kind <;> simp only [kS] <;> gcongr

theorem closedB_nonneg {u eta M : ℝ} (hu : 0 ≤ u) (he : 0 ≤ eta) (hM : 0 ≤ M) (cR : Cfg ℝ) (t : ℕ) :
    0 ≤ closedB u eta M cR t := by
  have := kB_nonneg cR
  have := kS_nonneg hM cR
  unfold closedB
  positivity

theorem closedB_mono_t {u eta M : ℝ} (hu : 0 ≤ u) (he : 0 ≤ eta) (hM : 0 ≤ M) (cR : Cfg ℝ) {k t : ℕ} (hk : k ≤ t) :
    closedB u eta M cR k ≤ closedB u eta M cR t := by
  have := kB_nonneg cR
  have := kS_nonneg hM cR
  have hkt : (k : ℝ) ≤ (t : ℝ) := by exact_mod_cast hk
  unfold closedB
  gcongr

/-! ## 1. The a-priori bound `gBound` -/

theorem gStep_eq (M : ℝ) (cR : Cfg ℝ) (G : ℝ) : C07r.gStep M cR G = kA cR * G + kS M cR := by
  rcases cR with ⟨kind, lam, del, al, minN⟩
  cases kind <;> simp only [C07r.gStep, kA, kS] <;> ring

theorem gBound_succ (M : ℝ) (cR : Cfg ℝ) (t : ℕ) :
    C07r.gBound M cR (t + 1) = kA cR * C07r.gBound M cR t + kS M cR := by
  rw [C07r.gBound, gStep_eq]

/-- `gBound` is monotone in `t` (every `alpha`) -/
theorem gBound_le_succ {M : ℝ} (hM : 0 ≤ M) (cR : Cfg ℝ) (t : ℕ) :
    C07r.gBound M cR t ≤ C07r.gBound M cR (t + 1) := by
  induction t with
  | zero => exact C07r.gBound_nonneg hM cR 1
  | succ t ih =>
    have e1 := gBound_succ M cR (t + 1)
    have e2 := gBound_succ M cR t
    have := mul_le_mul_of_nonneg_left ih (kA_nonneg cR)
    linarith

theorem gBound_mono_t {M : ℝ} (hM : 0 ≤ M) (cR : Cfg ℝ) {k t : ℕ} (hk : k ≤ t) :
    C07r.gBound M cR k ≤ C07r.gBound M cR t :=
  monotone_nat_of_le_succ (gBound_le_succ hM cR) hk

/-- `gBound` is monotone in `M` -/
theorem gBound_mono_M {M M' : ℝ} (_hM : 0 ≤ M) (hMM : M ≤ M') (cR : Cfg ℝ) (t : ℕ) :
    C07r.gBound M cR t ≤ C07r.gBound M' cR t := by
  induction t with
  | zero => exact le_refl _
  | succ t ih =>
    rw [gBound_succ, gBound_succ]
    have h1 := mul_le_mul_of_nonneg_left ih (kA_nonneg cR)
    have h2 := kS_mono_M hMM cR
    linarith

/-- **linear closed form of the a-priori bound**: `gBound t ≤ t · kS` when the step does not amplify (`kA ≤ 1`) -/
theorem gBound_le {M : ℝ} (hM : 0 ≤ M) {cR : Cfg ℝ} (hA : kA cR ≤ 1) (t : ℕ) :
    C07r.gBound M cR t ≤ (t : ℝ) * kS M cR := by
  induction t with
  | zero => simp [C07r.gBound]
  | succ t ih =>
    rw [gBound_succ]
    have hG := C07r.gBound_nonneg hM cR t
    have h1 : kA cR * C07r.gBound M cR t ≤ 1 * C07r.gBound M cR t := mul_le_mul_of_nonneg_right hA hG
    push_cast
    linarith

/-! ## 2. Monotonicity of the error recursions -/

/-- the invariant that makes `meanErr` monotone in `t`: abstract one-step form.  `r = 1/(t+1)`, `γ = (1+u)^3 − 1 ≤ 1`,
`e = eta·(1+u)`. -/
theorem mean_inv_step {u e M E t r γ E' : ℝ} (hu : 0 ≤ u) (he : 0 ≤ e) (hM : 0 ≤ M) (hE : 0 ≤ E) (ht : 0 ≤ t)
    (hr : 0 ≤ r) (hrt : r * (t + 1) = 1) (hγ0 : 0 ≤ γ) (hγ1 : γ ≤ 1)
    (hE' : E' = (1 - r) * E + u * (M + E) + γ * ((2 * M + E) * r) + e)
    (hI : (1 - γ) * E ≤ t * (u * E + u * M + e) + 2 * γ * M) :
    E ≤ E' ∧ (1 - γ) * E' ≤ (t + 1) * (u * E' + u * M + e) + 2 * γ * M := by
  have hA : 0 ≤ u * E + u * M + e := by positivity
  have h1 : r * t = 1 - r := by linarith
  have h2 : r * (t * (u * E + u * M + e)) = (1 - r) * (u * E + u * M + e) := by rw [← mul_assoc, h1]
  have h3 := mul_le_mul_of_nonneg_left hI hr
  have hrA : 0 ≤ r * (u * E + u * M + e) := mul_nonneg hr hA
  have hmono : E ≤ E' := by
    rw [hE']
    nlinarith [h3, h2, hrA]
  refine ⟨hmono, ?_⟩
  -- (1-γ)E' ≤ R + A ≤ (t+1)·A' + 2γM
  have hA' : u * E + u * M + e ≤ u * E' + u * M + e := by
    have := mul_le_mul_of_nonneg_left hmono hu
    linarith
  have hstep1 : (t + 1) * (u * E + u * M + e) ≤ (t + 1) * (u * E' + u * M + e) :=
    mul_le_mul_of_nonneg_left hA' (by linarith)
  -- key: (1-γ)E' ≤ t·A + 2γM + A
  have hr1 : r ≤ 1 := by nlinarith [mul_nonneg hr ht]
  have hc : 0 ≤ 1 - (1 - γ) * r := by nlinarith [mul_nonneg hγ0 hr, mul_nonneg (sub_nonneg.mpr hγ1) hr]
  have h4 := mul_le_mul_of_nonneg_left hI hc
  have h5 : 0 ≤ (1 - γ) * ((1 - r) * (u * E + u * M + e)) :=
    mul_nonneg (sub_nonneg.mpr hγ1) (mul_nonneg (sub_nonneg.mpr hr1) hA)
  have h6 : 0 ≤ γ * (u * E + u * M + e) := mul_nonneg hγ0 hA
  have key : (1 - γ) * E' ≤ t * (u * E + u * M + e) + 2 * γ * M + (u * E + u * M + e) := by
    rw [hE']
    have e1 : (1 - γ) * ((1 - r) * E + u * (M + E) + γ * ((2 * M + E) * r) + e)
        = (1 - (1 - γ) * r) * ((1 - γ) * E) + (1 - γ) * (u * E + u * M + e) + (1 - γ) * r * (2 * γ * M) := by ring
    have e2 : (1 - (1 - γ) * r) * (t * (u * E + u * M + e) + 2 * γ * M) + (1 - γ) * r * (2 * γ * M)
        = t * (u * E + u * M + e) + 2 * γ * M - (1 - γ) * (r * (t * (u * E + u * M + e))) := by ring
    rw [e1]
    rw [h2] at e2
    linarith
  linarith

/-- the invariant along the recursion (case `(1+u)^3 ≤ 2`) -/
theorem meanErr_inv {u eta M : ℝ} (hu : 0 ≤ u) (hu3 : (1 + u) ^ 3 ≤ 2) (he : 0 ≤ eta) (hM : 0 ≤ M) (t : ℕ) :
    (1 - ((1 + u) ^ 3 - 1)) * meanErr u eta M t
        ≤ (t : ℝ) * (u * meanErr u eta M t + u * M + eta * (1 + u)) + 2 * ((1 + u) ^ 3 - 1) * M ∧
      meanErr u eta M t ≤ meanErr u eta M (t + 1) := by
  have hγ0 : (0 : ℝ) ≤ (1 + u) ^ 3 - 1 := by
    have : (1 : ℝ) ≤ (1 + u) ^ 3 := one_le_pow₀ (by linarith)
    linarith
  have hγ1 : (1 + u) ^ 3 - 1 ≤ 1 := by linarith
  have hee : 0 ≤ eta * (1 + u) := by positivity
  have stepfact : ∀ t : ℕ, (1 - ((1 + u) ^ 3 - 1)) * meanErr u eta M t
        ≤ (t : ℝ) * (u * meanErr u eta M t + u * M + eta * (1 + u)) + 2 * ((1 + u) ^ 3 - 1) * M →
      meanErr u eta M t ≤ meanErr u eta M (t + 1) ∧
      (1 - ((1 + u) ^ 3 - 1)) * meanErr u eta M (t + 1)
        ≤ ((t : ℝ) + 1) * (u * meanErr u eta M (t + 1) + u * M + eta * (1 + u)) + 2 * ((1 + u) ^ 3 - 1) * M := by
    intro t hI
    have hNpos : (0 : ℝ) < (t : ℝ) + 1 := by positivity
    have hr : (0 : ℝ) ≤ 1 / ((t : ℝ) + 1) := by positivity
    have hrt : 1 / ((t : ℝ) + 1) * ((t : ℝ) + 1) = 1 := by field_simp
    refine mean_inv_step hu hee hM (meanErr_nonneg hu he hM t) (Nat.cast_nonneg t) hr hrt hγ0 hγ1 ?_ hI
    rw [meanErr, meanStepErr, C07r.meanStepErr]
    push_cast
    ring
  induction t with
  | zero =>
    have h0 : (1 - ((1 + u) ^ 3 - 1)) * meanErr u eta M 0
        ≤ ((0 : ℕ) : ℝ) * (u * meanErr u eta M 0 + u * M + eta * (1 + u)) + 2 * ((1 + u) ^ 3 - 1) * M := by
      simp only [meanErr, Nat.cast_zero, mul_zero, zero_mul, zero_add]
      positivity
    exact ⟨h0, (stepfact 0 h0).1⟩
  | succ t ih =>
    have h1 := (stepfact t ih.1).2
    have h1' : (1 - ((1 + u) ^ 3 - 1)) * meanErr u eta M (t + 1)
        ≤ ((t + 1 : ℕ) : ℝ) * (u * meanErr u eta M (t + 1) + u * M + eta * (1 + u))
          + 2 * ((1 + u) ^ 3 - 1) * M := by
      push_cast; exact h1
    exact ⟨h1', (stepfact (t + 1) h1').1⟩

/-- **`meanErr` is monotone in `t`** (one step) -/
theorem meanErr_le_succ {u eta M : ℝ} (hu : 0 ≤ u) (he : 0 ≤ eta) (hM : 0 ≤ M) (t : ℕ) :
    meanErr u eta M t ≤ meanErr u eta M (t + 1) := by
  by_cases hu3 : (1 + u) ^ 3 ≤ 2
  · exact (meanErr_inv hu hu3 he hM t).2
  · -- `(1+u)^3 − 1 > 1`: the coefficient of the old error is already `≥ 1`
    have hγ : 1 ≤ (1 + u) ^ 3 - 1 := by linarith [not_le.mp hu3]
    have hE := meanErr_nonneg hu he hM t
    have hNpos : (0 : ℝ) < ((t + 1 : ℕ) : ℝ) := by positivity
    have hr : (0 : ℝ) ≤ 1 / ((t + 1 : ℕ) : ℝ) := by positivity
    rw [meanErr, meanStepErr, C07r.meanStepErr]
    generalize meanErr u eta M t = E at hE
    generalize (1 + u) ^ 3 - 1 = γ at hγ
    rw [div_eq_mul_one_div (2 * M + E)]
    generalize 1 / ((t + 1 : ℕ) : ℝ) = r at hr
    have h1 : 0 ≤ (γ - 1) * (E * r) := mul_nonneg (by linarith) (mul_nonneg hE hr)
    have h2 : 0 ≤ γ * (2 * M * r) := by positivity
    have h3 : 0 ≤ u * (M + E) := by positivity
    have h4 : 0 ≤ eta * (1 + u) := by positivity
    nlinarith

theorem meanErr_mono_t {u eta M : ℝ} (hu : 0 ≤ u) (he : 0 ≤ eta) (hM : 0 ≤ M) {k t : ℕ} (hk : k ≤ t) :
    meanErr u eta M k ≤ meanErr u eta M t :=
  monotone_nat_of_le_succ (meanErr_le_succ hu he hM) hk

/-- the mean step is monotone in all its real arguments -/
theorem meanStepErr_mono_all {u u' eta eta' M M' E E' : ℝ} {n : ℕ} (hn : 1 ≤ n) (hu : 0 ≤ u) (huu : u ≤ u')
    (he : 0 ≤ eta) (hee : eta ≤ eta') (hM : 0 ≤ M) (hMM : M ≤ M') (hE : 0 ≤ E) (hEE : E ≤ E') :
    meanStepErr u eta M n E ≤ meanStepErr u' eta' M' n E' := by
  have h1 := C07r.one_sub_inv_nonneg n hn
  have hn0 : (0 : ℝ) < (n : ℝ) := by exact_mod_cast hn
  have hγ : (0 : ℝ) ≤ (1 + u) ^ 3 - 1 := by
    have : (1 : ℝ) ≤ (1 + u) ^ 3 := one_le_pow₀ (by linarith)
    linarith
  have hu' : 0 ≤ u' := le_trans hu huu
  have hE' : 0 ≤ E' := le_trans hE hEE
  have hM' : 0 ≤ M' := le_trans hM hMM
  have he' : 0 ≤ eta' := le_trans he hee
  have hγ' : (0 : ℝ) ≤ (1 + u') ^ 3 - 1 := by
    have : (1 : ℝ) ≤ (1 + u') ^ 3 := one_le_pow₀ (by linarith)
    linarith
  unfold meanStepErr C07r.meanStepErr
  gcongr

/-- **`meanErr` is monotone in `u`, `eta`, `M`** -/
theorem meanErr_mono_params {u u' eta eta' M M' : ℝ} (hu : 0 ≤ u) (huu : u ≤ u') (he : 0 ≤ eta) (hee : eta ≤ eta')
    (hM : 0 ≤ M) (hMM : M ≤ M') (t : ℕ) : meanErr u eta M t ≤ meanErr u' eta' M' t := by
  induction t with
  | zero => exact le_refl _
  | succ t ih =>
    rw [meanErr, meanErr]
    exact meanStepErr_mono_all (by omega) hu huu he hee hM hMM (meanErr_nonneg hu he hM t) ih

/-- the statistic step is monotone in all its real arguments -/
theorem sumStepErr_mono_all {u u' eta eta' M M' G G' D D' E E' : ℝ} (cR : Cfg ℝ) (hu : 0 ≤ u) (huu : u ≤ u')
    (he : 0 ≤ eta) (hee : eta ≤ eta') (hM : 0 ≤ M) (hMM : M ≤ M') (hG : 0 ≤ G) (hGG : G ≤ G')
    (hD : 0 ≤ D) (hDD : D ≤ D') (hE : 0 ≤ E) (hEE : E ≤ E') :
    sumStepErr u eta M cR G D E ≤ sumStepErr u' eta' M' cR G' D' E' := by
  have hγ : (0 : ℝ) ≤ (1 + u) ^ 3 - 1 := by
    have : (1 : ℝ) ≤ (1 + u) ^ 3 := one_le_pow₀ (by linarith)
    linarith
  have hu' : 0 ≤ u' := le_trans hu huu
  have hD' : 0 ≤ D' := le_trans hD hDD
  have hE' : 0 ≤ E' := le_trans hE hEE
  have hM' : 0 ≤ M' := le_trans hM hMM
  have hG' : 0 ≤ G' := le_trans hG hGG
  have he' : 0 ≤ eta' := le_trans he hee
  have hγ' : (0 : ℝ) ≤ (1 + u') ^ 3 - 1 := by
    have : (1 : ℝ) ≤ (1 + u') ^ 3 := one_le_pow₀ (by linarith)
    linarith
  rcases cR with ⟨kind, lam, del, al, minN⟩
  cases kind with
  | cusum => simp only [sumStepErr, C07r.sumStepErr, C07r.cusumStepErr, etaCount]; gcongr
  | pageHinkley => simp only [sumStepErr, C07r.sumStepErr, C07r.phStepErr, etaCount]; gcongr
  | gma => simp only [sumStepErr, C07r.sumStepErr, C07r.gmaStepErr, etaCount]; gcongr

/-- **`sumErr` is monotone in `u`, `eta`, `M`** -/
theorem sumErr_mono_params {u u' eta eta' M M' : ℝ} (hu : 0 ≤ u) (huu : u ≤ u') (he : 0 ≤ eta) (hee : eta ≤ eta')
    (hM : 0 ≤ M) (hMM : M ≤ M') (cR : Cfg ℝ) (t : ℕ) : sumErr u eta M cR t ≤ sumErr u' eta' M' cR t := by
  induction t with
  | zero => exact le_refl _
  | succ t ih =>
    rw [sumErr, sumErr]
    exact sumStepErr_mono_all cR hu huu he hee hM hMM (C07r.gBound_nonneg hM cR t) (gBound_mono_M hM hMM cR t)
      (sumErr_nonneg hu he hM cR t) ih (meanErr_nonneg hu he hM _) (meanErr_mono_params hu huu he hee hM hMM _)

/-- **`sumErr` is monotone in `t`** (one step; every kind, every `alpha`) -/
theorem sumErr_le_succ {u eta M : ℝ} (hu : 0 ≤ u) (he : 0 ≤ eta) (hM : 0 ≤ M) (cR : Cfg ℝ) (t : ℕ) :
    sumErr u eta M cR t ≤ sumErr u eta M cR (t + 1) := by
  induction t with
  | zero => exact sumErr_nonneg hu he hM cR 1
  | succ t ih =>
    rw [sumErr, sumErr]
    exact sumStepErr_mono_all cR hu (le_refl _) he (le_refl _) hM (le_refl _) (C07r.gBound_nonneg hM cR t)
      (gBound_le_succ hM cR t) (sumErr_nonneg hu he hM cR t) ih (meanErr_nonneg hu he hM _)
      (meanErr_le_succ hu he hM _)

theorem sumErr_mono_t {u eta M : ℝ} (hu : 0 ≤ u) (he : 0 ≤ eta) (hM : 0 ≤ M) (cR : Cfg ℝ) {k t : ℕ} (hk : k ≤ t) :
    sumErr u eta M cR k ≤ sumErr u eta M cR t :=
  monotone_nat_of_le_succ (sumErr_le_succ hu he hM cR) hk

/-! ## 3. Closed form of `sumErr` -/

/-- `(1+u)^k − 1 ≤ k·u·(1+u)^k` (no smallness hypothesis) -/
theorem pow_sub_one_le {u : ℝ} (hu : 0 ≤ u) (k : ℕ) : (1 + u) ^ k - 1 ≤ (k : ℝ) * u * (1 + u) ^ k := by
  induction k with
  | zero => simp
  | succ k ih =>
    have h1 : (1 : ℝ) ≤ (1 + u) ^ k := one_le_pow₀ (by linarith)
    have e : (1 + u) ^ (k + 1) = (1 + u) * (1 + u) ^ k := pow_succ' _ _
    rw [e]
    push_cast
    generalize (1 + u) ^ k = P at ih h1
    have hk : (0 : ℝ) ≤ (k : ℝ) := Nat.cast_nonneg k
    nlinarith [mul_le_mul_of_nonneg_left ih (by linarith : (0 : ℝ) ≤ 1 + u), mul_nonneg hu (sub_nonneg.mpr h1),
      mul_nonneg (mul_nonneg hu hu) (by linarith : (0 : ℝ) ≤ P)]

/-- `(1+u)^n ≤ 1 + 2·n·u` while `n·u ≤ 1/2` -/
theorem pow_le_of_small {u : ℝ} (hu : 0 ≤ u) (n : ℕ) (h : (n : ℝ) * u ≤ 1 / 2) : (1 + u) ^ n ≤ 1 + 2 * ((n : ℝ) * u) := by
  have hx0 : (0 : ℝ) ≤ (n : ℝ) * u := by positivity
  have hγ := C07r.gamma_bound hu n (by linarith)
  generalize (n : ℝ) * u = x at h hx0 hγ
  have h1x : 0 < 1 - x := by linarith
  have hfrac : x / (1 - x) ≤ 2 * x := by
    rw [div_le_iff₀ h1x]
    nlinarith [mul_nonneg hx0 (by linarith : (0 : ℝ) ≤ 1 - 2 * x)]
  linarith

/-- the running-mean bound in the linear shape `k·(1+u)^k·((7+6u+2u²)·M·u + eta)` -/
theorem meanErr_le_lin {u eta M : ℝ} (hu : 0 ≤ u) (hu3 : (1 + u) ^ 3 ≤ 2) (he : 0 ≤ eta) (hM : 0 ≤ M) (k : ℕ) :
    meanErr u eta M k ≤ (k : ℝ) * (1 + u) ^ k * ((7 + 6 * u + 2 * u ^ 2) * M * u + eta) := by
  have h := meanErr_closed hu hu3 he hM k
  have hp := pow_sub_one_le hu k
  have hK : 0 ≤ (7 + 6 * u + 2 * u ^ 2) * M := by positivity
  have h2 := mul_le_mul_of_nonneg_left hp hK
  generalize (1 + u) ^ k = P at h hp h2 ⊢
  generalize (7 + 6 * u + 2 * u ^ 2) = K at h hK h2 ⊢
  nlinarith

/-- **the unified step inequality** for the three kinds (`kA ≤ 1`):
`D' ≤ (1+u)³·D + (1+u)⁴·kB·E + ((1+u)³−1)·G + ((1+u)⁴−1)·kS + 2·eta·(1+u)` -/
theorem sumStep_le {u eta M G D E : ℝ} {cR : Cfg ℝ} (hu : 0 ≤ u) (he : 0 ≤ eta) (hM : 0 ≤ M) (hA : kA cR ≤ 1)
    (hG : 0 ≤ G) (hD : 0 ≤ D) (hE : 0 ≤ E) :
    sumStepErr u eta M cR G D E ≤ (1 + u) ^ 3 * D + (1 + u) ^ 4 * kB cR * E + ((1 + u) ^ 3 - 1) * G
      + ((1 + u) ^ 4 - 1) * kS M cR + 2 * (eta * (1 + u)) := by
  have h1u : (1 : ℝ) ≤ 1 + u := by linarith
  have hq2 : 1 + u ≤ (1 + u) ^ 2 := by
    have := pow_le_pow_right₀ h1u (by norm_num : 1 ≤ 2)
    simpa using this
  have h23 : (1 + u) ^ 2 ≤ (1 + u) ^ 3 := pow_le_pow_right₀ h1u (by norm_num)
  have h34 : (1 + u) ^ 3 ≤ (1 + u) ^ 4 := pow_le_pow_right₀ h1u (by norm_num)
  have hee : 0 ≤ eta * (1 + u) := by positivity
  rcases cR with ⟨kind, lam, del, al, minN⟩
  cases kind with
  | cusum =>
    simp only [sumStepErr, C07r.sumStepErr, etaCount, kA, kB, kS] at *
    rw [C07r.cusumStepErr_affine]
    have hΔ := abs_nonneg del
    generalize |del| = Δ at hΔ ⊢
    generalize eta * (1 + u) = e at hee ⊢
    generalize (1 + u) ^ 2 = p2 at hq2 h23 ⊢
    generalize (1 + u) ^ 3 = p3 at h23 h34 ⊢
    generalize (1 + u) ^ 4 = p4 at h34 ⊢
    have a1 : 0 ≤ (p4 - p2) * E := mul_nonneg (by linarith) hE
    have a2 : 0 ≤ (p4 - p3) * M := mul_nonneg (by linarith) hM
    have a3 : 0 ≤ (p4 - p2) * M := mul_nonneg (by linarith) hM
    have a4 : 0 ≤ (p4 - 1 - u) * Δ := mul_nonneg (by linarith) hΔ
    nlinarith
  | pageHinkley =>
    simp only [sumStepErr, C07r.sumStepErr, etaCount, kA, kB, kS] at *
    rw [C07r.phStepErr_affine]
    have hΔ := abs_nonneg del
    have ha := abs_nonneg al
    generalize |del| = Δ at hΔ ⊢
    generalize |al| = a at ha hA ⊢
    generalize eta * (1 + u) = e at hee ⊢
    generalize (1 + u) ^ 2 = p2 at hq2 h23 ⊢
    generalize (1 + u) ^ 3 = p3 at h23 h34 ⊢
    generalize (1 + u) ^ 4 = p4 at h34 ⊢
    have hp2 : 0 ≤ p2 := by linarith
    have a1 : 0 ≤ (p3 - p2) * D := mul_nonneg (by linarith) hD
    have a2 : 0 ≤ p2 * (1 - a) * D := mul_nonneg (mul_nonneg hp2 (by linarith)) hD
    have a3 : 0 ≤ (p4 - p3) * E := mul_nonneg (by linarith) hE
    have a4 : 0 ≤ (p3 - p2) * G := mul_nonneg (by linarith) hG
    have a5 : 0 ≤ (p2 - 1) * (1 - a) * G := mul_nonneg (mul_nonneg (by linarith) (by linarith)) hG
    have a6 : 0 ≤ (p4 - p3) * M := mul_nonneg (by linarith) hM
    have a7 : 0 ≤ (p4 - p2) * Δ := mul_nonneg (by linarith) hΔ
    nlinarith
  | gma =>
    simp only [sumStepErr, C07r.sumStepErr, etaCount, kA, kB, kS] at *
    rw [C07r.gmaStepErr_affine]
    have ha := abs_nonneg al
    have hb := abs_nonneg (1 - al)
    generalize |1 - al| = b at hb ⊢
    generalize |al| = a at ha hA ⊢
    generalize eta * (1 + u) = e at hee ⊢
    generalize (1 + u) ^ 2 = p2 at hq2 h23 ⊢
    generalize (1 + u) ^ 3 = p3 at h23 h34 ⊢
    generalize (1 + u) ^ 4 = p4 at h34 ⊢
    have hp2 : 0 ≤ p2 := by linarith
    have a1 : 0 ≤ (p3 - p2) * D := mul_nonneg (by linarith) hD
    have a2 : 0 ≤ p2 * (1 - a) * D := mul_nonneg (mul_nonneg hp2 (by linarith)) hD
    have a4 : 0 ≤ (p3 - p2) * G := mul_nonneg (by linarith) hG
    have a5 : 0 ≤ (p2 - 1) * (1 - a) * G := mul_nonneg (mul_nonneg (by linarith) (by linarith)) hG
    nlinarith

/-- bookkeeping of one induction step of `sumErr_le_pow` -/
theorem closed_step {Dk D' W p3 Pk f F : ℝ} (hW : 1 ≤ W) (hp : 1 ≤ p3) (hf0 : 0 ≤ f)
    (hD : D' ≤ p3 * Dk + f) (ih : Dk ≤ W * Pk) (hf : f ≤ F) :
    D' ≤ p3 * W * (Pk + F) := by
  have h1 : p3 * Dk ≤ p3 * (W * Pk) := mul_le_mul_of_nonneg_left ih (by linarith)
  have hF0 : 0 ≤ F := le_trans hf0 hf
  have hpw : 1 ≤ p3 * W := by nlinarith
  have h2 : F ≤ p3 * W * F := by nlinarith
  nlinarith

/-- **closed form with explicit powers, no smallness hypothesis** (beyond `(1+u)^3 ≤ 2`): for every `k ≤ T`
`sumErr k ≤ (1+u)^(3k)·( k(k+1)/2·((1+u)^(T+4)·kB·((7+6u+2u²)·M·u + eta) + ((1+u)³−1)·kS)
                          + k·(u·(1+u)³·kS + 2·eta·(1+u)) )`. -/
theorem sumErr_le_pow {u eta M : ℝ} {cR : Cfg ℝ} (hu : 0 ≤ u) (hu3 : (1 + u) ^ 3 ≤ 2) (he : 0 ≤ eta) (hM : 0 ≤ M)
    (hA : kA cR ≤ 1) (T : ℕ) : ∀ k ≤ T,
    sumErr u eta M cR k ≤ (1 + u) ^ (3 * k) *
      ((k : ℝ) * ((k : ℝ) + 1) / 2 *
          ((1 + u) ^ (T + 4) * kB cR * ((7 + 6 * u + 2 * u ^ 2) * M * u + eta) + ((1 + u) ^ 3 - 1) * kS M cR)
        + (k : ℝ) * (u * (1 + u) ^ 3 * kS M cR + 2 * (eta * (1 + u)))) := by
  have h1u : (1 : ℝ) ≤ 1 + u := by linarith
  have hβ := kB_nonneg cR
  have hS := kS_nonneg hM cR
  have hγ3 : (0 : ℝ) ≤ (1 + u) ^ 3 - 1 := by
    have : (1 : ℝ) ≤ (1 + u) ^ 3 := one_le_pow₀ h1u
    linarith
  have hγ4 : (0 : ℝ) ≤ (1 + u) ^ 4 - 1 := by
    have : (1 : ℝ) ≤ (1 + u) ^ 4 := one_le_pow₀ h1u
    linarith
  have hc : 0 ≤ (7 + 6 * u + 2 * u ^ 2) * M * u + eta := by positivity
  have hee : 0 ≤ eta * (1 + u) := by positivity
  intro k
  induction k with
  | zero => intro _; simp [sumErr]
  | succ k ih =>
    intro hk
    have ih' := ih (by omega)
    have hG0 := C07r.gBound_nonneg hM cR k
    have hD0 := sumErr_nonneg hu he hM cR k
    have hE0 := meanErr_nonneg hu he hM (k + 1)
    have hstep := sumStep_le (cR := cR) hu he hM hA hG0 hD0 hE0
    have hEk := meanErr_le_lin hu hu3 he hM (k + 1)
    have hGk := gBound_le hM hA k
    have hq : (1 + u) ^ (k + 1) ≤ (1 + u) ^ T := pow_le_pow_right₀ h1u hk
    have hW : (1 : ℝ) ≤ (1 + u) ^ (3 * k) := one_le_pow₀ h1u
    have hp3 : (1 : ℝ) ≤ (1 + u) ^ 3 := one_le_pow₀ h1u
    have hQk : (0 : ℝ) ≤ (1 + u) ^ (k + 1) := by positivity
    have e3 : (1 + u) ^ (3 * (k + 1)) = (1 + u) ^ 3 * (1 + u) ^ (3 * k) := by
      rw [show 3 * (k + 1) = 3 + 3 * k by ring, pow_add]
    have eT : (1 + u) ^ (T + 4) = (1 + u) ^ T * (1 + u) ^ 4 := pow_add _ _ _
    have e43 : (1 + u) ^ 4 = (1 + u) ^ 3 * (1 + u) := pow_succ _ _
    have hp4 : (0 : ℝ) ≤ (1 + u) ^ 4 := by positivity
    rw [sumErr, e3, eT]
    push_cast at hEk ⊢
    have hn : (0 : ℝ) ≤ (k : ℝ) := Nat.cast_nonneg k
    -- the forcing term and its bound
    have hf0 : 0 ≤ (1 + u) ^ 4 * kB cR * meanErr u eta M (k + 1) + ((1 + u) ^ 3 - 1) * C07r.gBound M cR k
        + ((1 + u) ^ 4 - 1) * kS M cR + 2 * (eta * (1 + u)) := by positivity
    have hE2 : meanErr u eta M (k + 1)
        ≤ ((k : ℝ) + 1) * (1 + u) ^ T * ((7 + 6 * u + 2 * u ^ 2) * M * u + eta) := by
      refine le_trans hEk ?_
      have : ((k : ℝ) + 1) * (1 + u) ^ (k + 1) ≤ ((k : ℝ) + 1) * (1 + u) ^ T :=
        mul_le_mul_of_nonneg_left hq (by linarith)
      exact mul_le_mul_of_nonneg_right this hc
    have hE3 := mul_le_mul_of_nonneg_left hE2 (mul_nonneg hp4 hβ)
    have hG3 := mul_le_mul_of_nonneg_left hGk hγ3
    have hf : (1 + u) ^ 4 * kB cR * meanErr u eta M (k + 1) + ((1 + u) ^ 3 - 1) * C07r.gBound M cR k
        + ((1 + u) ^ 4 - 1) * kS M cR + 2 * (eta * (1 + u))
        ≤ ((k : ℝ) + 1) * ((1 + u) ^ T * (1 + u) ^ 4 * kB cR * ((7 + 6 * u + 2 * u ^ 2) * M * u + eta)
              + ((1 + u) ^ 3 - 1) * kS M cR)
            + (u * (1 + u) ^ 3 * kS M cR + 2 * (eta * (1 + u))) := by
      rw [e43] at hE3 ⊢
      generalize (1 + u) ^ 3 = p3 at hE3 hG3 ⊢
      generalize (1 + u) ^ T = QT at hE3 ⊢
      generalize (7 + 6 * u + 2 * u ^ 2) * M * u + eta = c at hE3 ⊢
      generalize meanErr u eta M (k + 1) = E at hE3 ⊢
      generalize C07r.gBound M cR k = G at hG3 ⊢
      generalize kB cR = β at hE3 ⊢
      generalize kS M cR = S at hG3 ⊢
      nlinarith
    have hD' : sumStepErr u eta M cR (C07r.gBound M cR k) (sumErr u eta M cR k) (meanErr u eta M (k + 1))
        ≤ (1 + u) ^ 3 * sumErr u eta M cR k
          + ((1 + u) ^ 4 * kB cR * meanErr u eta M (k + 1) + ((1 + u) ^ 3 - 1) * C07r.gBound M cR k
            + ((1 + u) ^ 4 - 1) * kS M cR + 2 * (eta * (1 + u))) := by linarith
    have hfin := closed_step hW hp3 hf0 hD' ih' hf
    refine le_trans hfin (le_of_eq ?_)
    ring

/-- **closed form, one smallness parameter.**  If `(1+u)^(4t+4) ≤ 1+ε` with `ε ≤ 1`, then
`sumErr t ≤ (1+ε)² · closedB t`,
`closedB t = t(t+1)/2·(u·(7·kB·M + 3·kS) + kB·eta) + t·(u·kS + 2·eta)`. -/
theorem sumErr_closed_eps {u eta M ε : ℝ} {cR : Cfg ℝ} (hu : 0 ≤ u) (he : 0 ≤ eta) (hM : 0 ≤ M) (hA : kA cR ≤ 1)
    (t : ℕ) (hε1 : ε ≤ 1) (hpow : (1 + u) ^ (4 * t + 4) ≤ 1 + ε) :
    sumErr u eta M cR t ≤ (1 + ε) ^ 2 * closedB u eta M cR t := by
  have h1u : (1 : ℝ) ≤ 1 + u := by linarith
  have hβ := kB_nonneg cR
  have hS := kS_nonneg hM cR
  have hbern : 1 + ((4 * t + 4 : ℕ) : ℝ) * u ≤ (1 + u) ^ (4 * t + 4) :=
    one_add_mul_le_pow (by linarith) _
  push_cast at hbern
  have hn : (0 : ℝ) ≤ (t : ℝ) := Nat.cast_nonneg t
  have hu4 : 4 * u ≤ ε := by nlinarith [mul_nonneg hn hu]
  have hε0 : 0 ≤ ε := by linarith
  have hle : ∀ m : ℕ, m ≤ 4 * t + 4 → (1 + u) ^ m ≤ 1 + ε := fun m hm =>
    le_trans (pow_le_pow_right₀ h1u hm) hpow
  have hu3 : (1 + u) ^ 3 ≤ 2 := le_trans (hle 3 (by omega)) (by linarith)
  have main := sumErr_le_pow hu hu3 he hM hA t t le_rfl
  refine le_trans main ?_
  have hW0 : (0 : ℝ) ≤ (1 + u) ^ (3 * t) := by positivity
  have hX1 : (1 + u) ^ (3 * t) * (1 + u) ^ (t + 4) ≤ 1 + ε := by
    rw [← pow_add]; exact hle _ (by omega)
  have hX2 : (1 + u) ^ (3 * t) ≤ 1 + ε := hle _ (by omega)
  have hX3 : (1 + u) ^ (3 * t) * (1 + u) ^ 3 ≤ 1 + ε := by
    rw [← pow_add]; exact hle _ (by omega)
  have hX4 : (1 + u) ^ (3 * t) * (1 + u) ≤ 1 + ε := by
    rw [← pow_succ]; exact hle _ (by omega)
  have hK : 7 + 6 * u + 2 * u ^ 2 ≤ 7 * (1 + ε) := by nlinarith
  have hγ0 : (0 : ℝ) ≤ (1 + u) ^ 3 - 1 := by
    have : (1 : ℝ) ≤ (1 + u) ^ 3 := one_le_pow₀ h1u
    linarith
  have hγ3 : (1 + u) ^ 3 - 1 ≤ 3 * u * (1 + ε) := by
    have hq : u * u ≤ u * (1 / 4) := mul_le_mul_of_nonneg_left (by linarith) hu
    have h3 : 3 * u + u ^ 2 ≤ 3 * ε := by nlinarith
    have h4 := mul_le_mul_of_nonneg_left h3 hu
    nlinarith
  have h1ε : (0 : ℝ) ≤ 1 + ε := by linarith
  -- the four products
  have hMu : 0 ≤ M * u := mul_nonneg hM hu
  have ha : (7 + 6 * u + 2 * u ^ 2) * M * u + eta ≤ (1 + ε) * (7 * M * u + eta) := by
    have := mul_le_mul_of_nonneg_right hK hMu
    nlinarith [mul_nonneg hε0 he]
  have hT1 : (1 + u) ^ (3 * t) * (1 + u) ^ (t + 4) * (kB cR * ((7 + 6 * u + 2 * u ^ 2) * M * u + eta))
      ≤ (1 + ε) * (kB cR * ((1 + ε) * (7 * M * u + eta))) :=
    mul_le_mul hX1 (mul_le_mul_of_nonneg_left ha hβ) (by positivity) h1ε
  have hT2 : (1 + u) ^ (3 * t) * (((1 + u) ^ 3 - 1) * kS M cR) ≤ (1 + ε) * (3 * u * (1 + ε) * kS M cR) :=
    mul_le_mul hX2 (mul_le_mul_of_nonneg_right hγ3 hS) (mul_nonneg hγ0 hS) h1ε
  have hT3 : (1 + u) ^ (3 * t) * (1 + u) ^ 3 * (u * kS M cR) ≤ (1 + ε) * (u * kS M cR) :=
    mul_le_mul_of_nonneg_right hX3 (mul_nonneg hu hS)
  have hT4 : (1 + u) ^ (3 * t) * (1 + u) * eta ≤ (1 + ε) * eta := mul_le_mul_of_nonneg_right hX4 he
  have hT3' : (1 + ε) * (u * kS M cR) ≤ (1 + ε) ^ 2 * (u * kS M cR) := by
    have : 0 ≤ u * kS M cR := mul_nonneg hu hS
    nlinarith [mul_nonneg (mul_nonneg hε0 h1ε) this]
  have hT4' : (1 + ε) * eta ≤ (1 + ε) ^ 2 * eta := by nlinarith [mul_nonneg (mul_nonneg hε0 h1ε) he]
  have hc1 : (0 : ℝ) ≤ (t : ℝ) * ((t : ℝ) + 1) / 2 := by positivity
  have hsum1 := mul_le_mul_of_nonneg_left (add_le_add hT1 hT2) hc1
  have hsum2 := mul_le_mul_of_nonneg_left
    (add_le_add (le_trans hT3 hT3') (mul_le_mul_of_nonneg_left (le_trans hT4 hT4') (by norm_num : (0 : ℝ) ≤ 2))) hn
  unfold closedB
  calc (1 + u) ^ (3 * t) *
        ((t : ℝ) * ((t : ℝ) + 1) / 2 *
            ((1 + u) ^ (t + 4) * kB cR * ((7 + 6 * u + 2 * u ^ 2) * M * u + eta) + ((1 + u) ^ 3 - 1) * kS M cR)
          + (t : ℝ) * (u * (1 + u) ^ 3 * kS M cR + 2 * (eta * (1 + u))))
      = (t : ℝ) * ((t : ℝ) + 1) / 2 *
          ((1 + u) ^ (3 * t) * (1 + u) ^ (t + 4) * (kB cR * ((7 + 6 * u + 2 * u ^ 2) * M * u + eta))
            + (1 + u) ^ (3 * t) * (((1 + u) ^ 3 - 1) * kS M cR))
        + (t : ℝ) * ((1 + u) ^ (3 * t) * (1 + u) ^ 3 * (u * kS M cR)
            + 2 * ((1 + u) ^ (3 * t) * (1 + u) * eta)) := by ring
    _ ≤ (t : ℝ) * ((t : ℝ) + 1) / 2 *
          ((1 + ε) * (kB cR * ((1 + ε) * (7 * M * u + eta))) + (1 + ε) * (3 * u * (1 + ε) * kS M cR))
        + (t : ℝ) * ((1 + ε) ^ 2 * (u * kS M cR) + 2 * ((1 + ε) ^ 2 * eta)) := add_le_add hsum1 hsum2
    _ = (1 + ε) ^ 2 * ((t : ℝ) * ((t : ℝ) + 1) / 2 * (u * (7 * kB cR * M + 3 * kS M cR) + kB cR * eta)
          + (t : ℝ) * (u * kS M cR + 2 * eta)) := by ring

/-- **closed form under the smallness hypothesis `8·(t+1)·u ≤ 1`**:
`sumErr t ≤ (1 + 8(t+1)u)² · closedB t`. -/
theorem sumErr_closed {u eta M : ℝ} {cR : Cfg ℝ} (hu : 0 ≤ u) (he : 0 ≤ eta) (hM : 0 ≤ M) (hA : kA cR ≤ 1)
    (t : ℕ) (hsmall : 8 * ((t : ℝ) + 1) * u ≤ 1) :
    sumErr u eta M cR t ≤ (1 + 8 * ((t : ℝ) + 1) * u) ^ 2 * closedB u eta M cR t := by
  have hp := pow_le_of_small hu (4 * t + 4) (by push_cast; linarith)
  push_cast at hp
  exact sumErr_closed_eps hu he hM hA t hsmall (by linarith)

/-- the same with the constant factor `4` -/
theorem sumErr_closed_four {u eta M : ℝ} {cR : Cfg ℝ} (hu : 0 ≤ u) (he : 0 ≤ eta) (hM : 0 ≤ M) (hA : kA cR ≤ 1)
    (t : ℕ) (hsmall : 8 * ((t : ℝ) + 1) * u ≤ 1) :
    sumErr u eta M cR t ≤ 4 * closedB u eta M cR t := by
  have hp := pow_le_of_small hu (4 * t + 4) (by push_cast; linarith)
  push_cast at hp
  have h := sumErr_closed_eps (ε := 1) hu he hM hA t (le_refl _) (by linarith)
  norm_num at h
  exact h

/-- `(1+2^-53)^(4t+4) ≤ 1 + 2^-29` for `t ≤ 2^20` -/
theorem pow_binary64 (t : ℕ) (ht : t ≤ 2 ^ 20) : (1 + (1 / 2 ^ 53 : ℝ)) ^ (4 * t + 4) ≤ 1 + 1 / 2 ^ 29 := by
  have hu : (0 : ℝ) ≤ 1 / 2 ^ 53 := by positivity
  have htR : (t : ℝ) ≤ 2 ^ 20 := by exact_mod_cast ht
  have hx : ((4 * t + 4 : ℕ) : ℝ) * (1 / 2 ^ 53) ≤ 1 / 2 ^ 30 := by
    push_cast
    calc (4 * (t : ℝ) + 4) * (1 / 2 ^ 53) ≤ (4 * 2 ^ 20 + 4) * (1 / 2 ^ 53) := by gcongr
      _ ≤ 1 / 2 ^ 30 := by norm_num
  have hp := pow_le_of_small hu (4 * t + 4) (le_trans hx (by norm_num))
  have : (1 : ℝ) + 2 * (1 / 2 ^ 30) = 1 + 1 / 2 ^ 29 := by norm_num
  linarith

/-- **the size of the bound at binary64 scale** (`u = 2^-53`, `eta = 2^-1075`, `t ≤ 2^20`):
`sumErr t ≤ (1 + 2^-27)·closedB t`. -/
theorem sumErr_binary64_scale {M : ℝ} {cR : Cfg ℝ} (hM : 0 ≤ M) (hA : kA cR ≤ 1) (t : ℕ) (ht : t ≤ 2 ^ 20) :
    sumErr (1 / 2 ^ 53) (1 / 2 ^ 1075) M cR t ≤ (1 + 1 / 2 ^ 27) * closedB (1 / 2 ^ 53) (1 / 2 ^ 1075) M cR t := by
  have hu : (0 : ℝ) ≤ 1 / 2 ^ 53 := by positivity
  have he : (0 : ℝ) ≤ 1 / 2 ^ 1075 := by positivity
  have h := sumErr_closed_eps (ε := 1 / 2 ^ 29) hu he hM hA t (by norm_num) (pow_binary64 t ht)
  have hB := closedB_nonneg hu he hM cR t
  have hc : (1 + (1 / 2 ^ 29 : ℝ)) ^ 2 ≤ 1 + 1 / 2 ^ 27 := by norm_num
  exact le_trans h (mul_le_mul_of_nonneg_right hc hB)

/-! ## 4. More monotonicity: the magnitude functions and the no-overflow conditions -/

theorem meanMag_mono_all {u u' eta eta' M M' E E' : ℝ} (hu : 0 ≤ u) (huu : u ≤ u') (hee : eta ≤ eta')
    (hM : 0 ≤ M) (hMM : M ≤ M') (hE : 0 ≤ E) (hEE : E ≤ E') :
    meanMag u eta M E ≤ meanMag u' eta' M' E' := by
  have hu' : 0 ≤ u' := le_trans hu huu
  have hE' : 0 ≤ E' := le_trans hE hEE
  have hM' : 0 ≤ M' := le_trans hM hMM
  unfold meanMag
  gcongr

/-- `sumMag` is monotone in all its real arguments -/
theorem sumMag_mono_all {u u' eta eta' M M' G G' D D' E E' : ℝ} (cR : Cfg ℝ) (hu : 0 ≤ u) (huu : u ≤ u')
    (hee : eta ≤ eta') (hM : 0 ≤ M) (hMM : M ≤ M') (hG : 0 ≤ G) (hGG : G ≤ G')
    (hD : 0 ≤ D) (hDD : D ≤ D') (hE : 0 ≤ E) (hEE : E ≤ E') :
    sumMag u eta M cR G D E ≤ sumMag u' eta' M' cR G' D' E' := by
  have hu' : 0 ≤ u' := le_trans hu huu
  have hD' : 0 ≤ D' := le_trans hD hDD
  have hE' : 0 ≤ E' := le_trans hE hEE
  have hM' : 0 ≤ M' := le_trans hM hMM
  have hG' : 0 ≤ G' := le_trans hG hGG
  rcases cR with ⟨kind, lam, del, al, minN⟩
  cases kind with
  | cusum => simp only [sumMag, cusumMag]; gcongr
  | pageHinkley => simp only [sumMag, phMag]; gcongr
  | gma => simp only [sumMag, gmaMag]; gcongr

/-- `MeanSafe` checked for pessimistic constants is valid for smaller ones (and a larger `Omega`) -/
theorem MeanSafe.anti_params {u u' eta eta' Omega Omega' M M' : ℝ} {t : ℕ} (hu : 0 ≤ u) (huu : u ≤ u')
    (he : 0 ≤ eta) (hee : eta ≤ eta') (hM : 0 ≤ M) (hMM : M ≤ M') (hOO : Omega ≤ Omega')
    (h : MeanSafe u' eta' Omega M' t) : MeanSafe u eta Omega' M t := fun k hk =>
  le_trans (le_trans (meanMag_mono_all hu huu hee hM hMM (meanErr_nonneg hu he hM k)
    (meanErr_mono_params hu huu he hee hM hMM k)) (h k hk)) hOO

/-- `SumSafe` checked for pessimistic constants is valid for smaller ones (and a larger `Omega`) -/
theorem SumSafe.anti_params {u u' eta eta' Omega Omega' M M' : ℝ} {cR : Cfg ℝ} {t : ℕ} (hu : 0 ≤ u) (huu : u ≤ u')
    (he : 0 ≤ eta) (hee : eta ≤ eta') (hM : 0 ≤ M) (hMM : M ≤ M') (hOO : Omega ≤ Omega')
    (h : SumSafe u' eta' Omega M' cR t) : SumSafe u eta Omega' M cR t := fun k hk =>
  le_trans (le_trans (sumMag_mono_all cR hu huu hee hM hMM (C07r.gBound_nonneg hM cR k) (gBound_mono_M hM hMM cR k)
    (sumErr_nonneg hu he hM cR k) (sumErr_mono_params hu huu he hee hM hMM cR k)
    (meanErr_nonneg hu he hM (k + 1)) (meanErr_mono_params hu huu he hee hM hMM (k + 1))) (h k hk)) hOO

theorem Safe.anti_params {u u' eta eta' Omega Omega' M M' : ℝ} {cR : Cfg ℝ} {t : ℕ} (hu : 0 ≤ u) (huu : u ≤ u')
    (he : 0 ≤ eta) (hee : eta ≤ eta') (hM : 0 ≤ M) (hMM : M ≤ M') (hOO : Omega ≤ Omega')
    (h : Safe u' eta' Omega M' cR t) : Safe u eta Omega' M cR t :=
  ⟨MeanSafe.anti_params hu huu he hee hM hMM hOO h.1, SumSafe.anti_params hu huu he hee hM hMM hOO h.2⟩

/-! ## 5. No overflow in closed form -/

/-- consequences of the single smallness hypothesis `(1+u)^(4t+4) ≤ 1+ε`, `ε ≤ 1` -/
theorem eps_facts {u eta M ε : ℝ} (hu : 0 ≤ u) (he : 0 ≤ eta) (hM : 0 ≤ M) (t : ℕ) (hε1 : ε ≤ 1)
    (hpow : (1 + u) ^ (4 * t + 4) ≤ 1 + ε) :
    0 ≤ ε ∧ (1 + u) ^ 3 ≤ 2 ∧ (∀ m : ℕ, m ≤ 4 * t + 4 → (1 + u) ^ m ≤ 1 + ε) ∧
      (7 + 6 * u + 2 * u ^ 2) * M * u + eta ≤ (1 + ε) * (7 * M * u + eta) := by
  have h1u : (1 : ℝ) ≤ 1 + u := by linarith
  have hbern : 1 + ((4 * t + 4 : ℕ) : ℝ) * u ≤ (1 + u) ^ (4 * t + 4) :=
    one_add_mul_le_pow (by linarith) _
  push_cast at hbern
  have hn : (0 : ℝ) ≤ (t : ℝ) := Nat.cast_nonneg t
  have hu4 : 4 * u ≤ ε := by nlinarith [mul_nonneg hn hu]
  have hε0 : 0 ≤ ε := by linarith
  have hle : ∀ m : ℕ, m ≤ 4 * t + 4 → (1 + u) ^ m ≤ 1 + ε := fun m hm =>
    le_trans (pow_le_pow_right₀ h1u hm) hpow
  have hu3 : (1 + u) ^ 3 ≤ 2 := le_trans (hle 3 (by omega)) (by linarith)
  have hK : 7 + 6 * u + 2 * u ^ 2 ≤ 7 * (1 + ε) := by nlinarith
  have hMu : 0 ≤ M * u := mul_nonneg hM hu
  have ha : (7 + 6 * u + 2 * u ^ 2) * M * u + eta ≤ (1 + ε) * (7 * M * u + eta) := by
    have := mul_le_mul_of_nonneg_right hK hMu
    nlinarith [mul_nonneg hε0 he]
  exact ⟨hε0, hu3, hle, ha⟩

/-- the running-mean bound in the same shape: `meanErr k ≤ (1+ε)²·t·(7·M·u + eta)` for every `k ≤ t` -/
theorem meanErr_closed_eps {u eta M ε : ℝ} (hu : 0 ≤ u) (he : 0 ≤ eta) (hM : 0 ≤ M) (t : ℕ) (hε1 : ε ≤ 1)
    (hpow : (1 + u) ^ (4 * t + 4) ≤ 1 + ε) {k : ℕ} (hk : k ≤ t) :
    meanErr u eta M k ≤ (1 + ε) ^ 2 * ((t : ℝ) * (7 * M * u + eta)) := by
  obtain ⟨hε0, hu3, hle, ha⟩ := eps_facts hu he hM t hε1 hpow
  have h := meanErr_le_lin hu hu3 he hM k
  have hkt : (k : ℝ) ≤ (t : ℝ) := by exact_mod_cast hk
  have hq := hle k (by omega)
  have hq0 : (0 : ℝ) ≤ (1 + u) ^ k := by positivity
  have hc0 : 0 ≤ (7 + 6 * u + 2 * u ^ 2) * M * u + eta := by positivity
  have hn : (0 : ℝ) ≤ (t : ℝ) := Nat.cast_nonneg t
  have h1ε : (0 : ℝ) ≤ 1 + ε := by linarith
  have h2 : (k : ℝ) * (1 + u) ^ k * ((7 + 6 * u + 2 * u ^ 2) * M * u + eta)
      ≤ (t : ℝ) * (1 + ε) * ((1 + ε) * (7 * M * u + eta)) :=
    mul_le_mul (mul_le_mul hkt hq hq0 hn) ha hc0 (mul_nonneg hn h1ε)
  calc meanErr u eta M k ≤ _ := h
    _ ≤ _ := h2
    _ = (1 + ε) ^ 2 * ((t : ℝ) * (7 * M * u + eta)) := by ring

/-- **`SumSafe` in closed form**: ONE inequality in `u, eta, M, t, Omega` and the configuration implies that no
intermediate result of the statistic can overflow during the first `t` updates. -/
theorem sumSafe_of_closed {u eta Omega M ε : ℝ} {cR : Cfg ℝ} (hu : 0 ≤ u) (he : 0 ≤ eta) (hM : 0 ≤ M)
    (hA : kA cR ≤ 1) (t : ℕ) (hε1 : ε ≤ 1) (hpow : (1 + u) ^ (4 * t + 4) ≤ 1 + ε)
    (h : sumMag u eta M cR ((t : ℝ) * kS M cR) ((1 + ε) ^ 2 * closedB u eta M cR t)
      ((1 + ε) ^ 2 * ((t : ℝ) * (7 * M * u + eta))) ≤ Omega) :
    SumSafe u eta Omega M cR t := by
  have h1u : (1 : ℝ) ≤ 1 + u := by linarith
  have hS := kS_nonneg hM cR
  refine sumSafe_of_bounds cR hu t ?_ ?_ ?_ h
  · intro k hk
    have hkt : (k : ℝ) ≤ (t : ℝ) := by exact_mod_cast le_of_lt hk
    exact le_trans (gBound_le hM hA k) (mul_le_mul_of_nonneg_right hkt hS)
  · intro k hk
    have hpk : (1 + u) ^ (4 * k + 4) ≤ 1 + ε := le_trans (pow_le_pow_right₀ h1u (by omega)) hpow
    refine le_trans (sumErr_closed_eps hu he hM hA k hε1 hpk) ?_
    exact mul_le_mul_of_nonneg_left (closedB_mono_t hu he hM cR (le_of_lt hk)) (by positivity)
  · intro k hk
    exact meanErr_closed_eps hu he hM t hε1 hpow (by omega)

/-- **`Safe` in closed form**: the inequality of `C07s.meanSafe_of_closed` and the one of `sumSafe_of_closed`. -/
theorem safe_of_closed {u eta Omega M ε : ℝ} {cR : Cfg ℝ} (hu : 0 ≤ u) (he : 0 ≤ eta) (hM : 0 ≤ M)
    (hA : kA cR ≤ 1) (t : ℕ) (hε1 : ε ≤ 1) (hpow : (1 + u) ^ (4 * t + 4) ≤ 1 + ε)
    (hmean : meanMag u eta M ((7 + 6 * u + 2 * u ^ 2) * M * ((1 + u) ^ t - 1) + (t : ℝ) * eta * (1 + u) ^ t)
      ≤ Omega)
    (hsum : sumMag u eta M cR ((t : ℝ) * kS M cR) ((1 + ε) ^ 2 * closedB u eta M cR t)
      ((1 + ε) ^ 2 * ((t : ℝ) * (7 * M * u + eta))) ≤ Omega) :
    Safe u eta Omega M cR t :=
  ⟨meanSafe_of_closed hu (eps_facts hu he hM t hε1 hpow).2.1 he hM t hmean,
    sumSafe_of_closed hu he hM hA t hε1 hpow hsum⟩

/-- a crude linear bound on `sumMag` (`u ≤ 1`, `eta ≤ 1`, `kA ≤ 1`) -/
theorem sumMag_le_crude {u eta M G D E : ℝ} {cR : Cfg ℝ} (hu : 0 ≤ u) (hu1 : u ≤ 1) (he1 : eta ≤ 1) (hM : 0 ≤ M)
    (hA : kA cR ≤ 1) (hG : 0 ≤ G) (hD : 0 ≤ D) (hE : 0 ≤ E) :
    sumMag u eta M cR G D E ≤ 4 * G + 4 * D + 34 * M + 17 * E + 2 * kD cR + 4 := by
  refine le_trans (sumMag_mono_all cR hu hu1 he1 hM (le_refl _) hG (le_refl _) hD (le_refl _) hE (le_refl _)) ?_
  have hB := kB_le_two hA
  rcases cR with ⟨kind, lam, del, al, minN⟩
  cases kind with
  | cusum =>
    simp only [sumMag, cusumMag, kD]
    have := abs_nonneg del
    nlinarith
  | pageHinkley =>
    simp only [sumMag, phMag, kD, kA] at *
    have hΔ := abs_nonneg del
    have ha := abs_nonneg al
    have h1 : |al| * (G + D) ≤ 1 * (G + D) := mul_le_mul_of_nonneg_right hA (by linarith)
    nlinarith
  | gma =>
    simp only [sumMag, gmaMag, kD, kA, kB] at *
    have ha := abs_nonneg al
    have hb := abs_nonneg (1 - al)
    have h1 : |al| * (G + D) ≤ 1 * (G + D) := mul_le_mul_of_nonneg_right hA (by linarith)
    have h2 : |1 - al| * (M + (M + E)) ≤ 2 * (M + (M + E)) := mul_le_mul_of_nonneg_right hB (by linarith)
    nlinarith

/-- the closed form at the binary64 constants is below `2^990 + 1` for `M, |delta| ≤ 2^990`, `t ≤ 2^20` (crude) -/
theorem closedB_binary64_crude {M : ℝ} {cR : Cfg ℝ} (hM : 0 ≤ M) (hM' : M ≤ 2 ^ 990) (hA : kA cR ≤ 1)
    (hD : kD cR ≤ 2 ^ 990) (t : ℕ) (ht : t ≤ 2 ^ 20) :
    closedB (1 / 2 ^ 53) (1 / 2 ^ 1075) M cR t ≤ 2 ^ 990 + 1 := by
  have hβ := kB_nonneg cR
  have hβ2 := kB_le_two hA
  have hS0 := kS_nonneg hM cR
  have hS := kS_le hM hM' hA hD
  have htR : (t : ℝ) ≤ 2 ^ 20 := by exact_mod_cast ht
  have ht0 : (0 : ℝ) ≤ (t : ℝ) := Nat.cast_nonneg t
  have hQ : (1 : ℝ) ≤ 2 ^ 990 := one_le_pow₀ (by norm_num)
  have hc1 : (t : ℝ) * ((t : ℝ) + 1) / 2 ≤ 2 ^ 40 := by nlinarith
  unfold closedB
  generalize kB cR = β at hβ hβ2 ⊢
  generalize kS M cR = S at hS0 hS ⊢
  generalize (2 : ℝ) ^ 990 = Q at hM' hS hQ ⊢
  have hc0 : (0 : ℝ) ≤ (t : ℝ) * ((t : ℝ) + 1) / 2 := by positivity
  have hβM : β * M ≤ 2 * Q := by nlinarith
  have hA1 : (1 / 2 ^ 53 : ℝ) * (7 * β * M + 3 * S) + β * (1 / 2 ^ 1075)
      ≤ (1 / 2 ^ 53) * (26 * Q) + 2 * (1 / 2 ^ 1075) := by
    have e1 : (1 / 2 ^ 53 : ℝ) * (7 * β * M + 3 * S) ≤ (1 / 2 ^ 53) * (26 * Q) :=
      mul_le_mul_of_nonneg_left (by nlinarith) (by positivity)
    have e2 : β * (1 / 2 ^ 1075 : ℝ) ≤ 2 * (1 / 2 ^ 1075) := mul_le_mul_of_nonneg_right hβ2 (by positivity)
    generalize (1 : ℝ) / 2 ^ 1075 = e' at e2 ⊢
    linarith
  have hA2 : (1 / 2 ^ 53 : ℝ) * S + 2 * (1 / 2 ^ 1075) ≤ (1 / 2 ^ 53) * (4 * Q) + 2 * (1 / 2 ^ 1075) := by
    have e1 : (1 / 2 ^ 53 : ℝ) * S ≤ (1 / 2 ^ 53) * (4 * Q) := mul_le_mul_of_nonneg_left hS (by positivity)
    generalize (1 : ℝ) / 2 ^ 1075 = e'
    linarith
  have hA10 : (0 : ℝ) ≤ (1 / 2 ^ 53 : ℝ) * (7 * β * M + 3 * S) + β * (1 / 2 ^ 1075) := by positivity
  have hB1 : (0 : ℝ) ≤ (1 / 2 ^ 53) * (4 * Q) + 2 * (1 / 2 ^ 1075) := by positivity
  have hT1 := mul_le_mul hc1 hA1 hA10 (by positivity : (0 : ℝ) ≤ 2 ^ 40)
  have hT2 := mul_le_mul htR hA2 (by positivity) (by positivity : (0 : ℝ) ≤ 2 ^ 20)
  have hnum : (2 : ℝ) ^ 40 * ((1 / 2 ^ 53) * (26 * Q) + 2 * (1 / 2 ^ 1075))
      + 2 ^ 20 * ((1 / 2 ^ 53) * (4 * Q) + 2 * (1 / 2 ^ 1075)) ≤ Q + 1 := by
    have e : (2 : ℝ) ^ 1075 = 2 ^ 1034 * 2 ^ 41 := by rw [← pow_add]
    have hP : (1 : ℝ) ≤ 2 ^ 1034 := one_le_pow₀ (by norm_num)
    rw [e]
    generalize (2 : ℝ) ^ 1034 = P at hP
    have hi : 1 / (P * 2 ^ 41) ≤ 1 / 2 ^ 41 := by
      apply div_le_div_of_nonneg_left (by norm_num) (by positivity)
      nlinarith
    generalize 1 / (P * 2 ^ 41) = e' at hi
    norm_num at hi ⊢
    linarith
  generalize (1 : ℝ) / 2 ^ 1075 = e0 at hT1 hT2 hnum ⊢
  linarith only [hT1, hT2, hnum]

/-- **the statistic cannot overflow at binary64 scale**: with `u = 2^-53`, `eta = 2^-1075`, any `Omega ≥ 2^1023`,
for every `M ≤ 2^990`, `|delta| ≤ 2^990` (cusum, Page-Hinkley), `|alpha| ≤ 1` (Page-Hinkley, gma) and every
`t ≤ 2^20`, `SumSafe` holds. -/
theorem sumSafe_binary64 {M Omega : ℝ} {cR : Cfg ℝ} (hM : 0 ≤ M) (hM' : M ≤ 2 ^ 990) (hA : kA cR ≤ 1)
    (hD : kD cR ≤ 2 ^ 990) (hO : 2 ^ 1023 ≤ Omega) (t : ℕ) (ht : t ≤ 2 ^ 20) :
    SumSafe (1 / 2 ^ 53) (1 / 2 ^ 1075) Omega M cR t := by
  have hu : (0 : ℝ) ≤ 1 / 2 ^ 53 := by positivity
  have he : (0 : ℝ) ≤ 1 / 2 ^ 1075 := by positivity
  have hQ : (1 : ℝ) ≤ 2 ^ 990 := one_le_pow₀ (by norm_num)
  have hS0 := kS_nonneg hM cR
  have hS := kS_le hM hM' hA hD
  have hD0 := kD_nonneg cR
  have htR : (t : ℝ) ≤ 2 ^ 20 := by exact_mod_cast ht
  have hGb : ∀ k < t, C07r.gBound M cR k ≤ 2 ^ 22 * 2 ^ 990 := by
    intro k hk
    have hk0 : (0 : ℝ) ≤ (k : ℝ) := Nat.cast_nonneg k
    have hkR : (k : ℝ) ≤ 2 ^ 20 := le_trans (by exact_mod_cast le_of_lt hk) htR
    have h1 := gBound_le hM hA k
    have h2 : (k : ℝ) * kS M cR ≤ 2 ^ 20 * (4 * 2 ^ 990) := mul_le_mul hkR hS hS0 (by positivity)
    have e : (2 : ℝ) ^ 20 * (4 * 2 ^ 990) = 2 ^ 22 * 2 ^ 990 := by
      generalize (2 : ℝ) ^ 990 = Q
      ring
    exact le_trans h1 (le_trans h2 (le_of_eq e))
  have hDb : ∀ k < t, sumErr (1 / 2 ^ 53) (1 / 2 ^ 1075) M cR k ≤ 2 * (2 ^ 990 + 1) := by
    intro k hk
    have hk' : k ≤ 2 ^ 20 := le_trans (le_of_lt hk) ht
    have h1 := sumErr_binary64_scale hM hA k hk'
    have h2 := closedB_binary64_crude hM hM' hA hD k hk'
    have h3 := closedB_nonneg hu he hM cR k
    have hc : (1 + 1 / 2 ^ 27 : ℝ) ≤ 2 := by norm_num
    have h4 := mul_le_mul_of_nonneg_right hc h3
    generalize (2 : ℝ) ^ 990 = Q at h2 ⊢
    linarith
  have hEb : ∀ k < t, meanErr (1 / 2 ^ 53) (1 / 2 ^ 1075) M (k + 1) ≤ 2 ^ 990 + 1 := by
    intro k hk
    have h1 := meanErr_binary64_scale hM (k + 1) (by omega)
    have h2 : M / 2 ^ 29 ≤ M := div_le_self hM (by norm_num)
    have h3 : (1 : ℝ) / 2 ^ 1054 ≤ 1 := by
      rw [div_le_one (by positivity)]; exact one_le_pow₀ (by norm_num)
    generalize (1 : ℝ) / 2 ^ 1054 = e2 at h1 h3
    generalize (2 : ℝ) ^ 990 = Q at hM' ⊢
    linarith
  refine sumSafe_of_bounds cR hu t hGb hDb hEb ?_
  have hu1 : (1 / 2 ^ 53 : ℝ) ≤ 1 := by norm_num
  have he1 : (1 : ℝ) / 2 ^ 1075 ≤ 1 := by
    rw [div_le_one (by positivity)]; exact one_le_pow₀ (by norm_num)
  refine le_trans (sumMag_le_crude hu hu1 he1 hM hA (by positivity) (by positivity) (by positivity)) ?_
  refine le_trans ?_ hO
  have e : (2 : ℝ) ^ 1023 = 2 ^ 990 * 2 ^ 33 := by rw [← pow_add]
  rw [e]
  generalize (2 : ℝ) ^ 990 = Q at hM' hD hQ ⊢
  norm_num
  linarith

/-- **`Safe` holds at binary64 scale** (`C07s.meanSafe_binary64` and `sumSafe_binary64`) -/
theorem safe_binary64 {M Omega : ℝ} {cR : Cfg ℝ} (hM : 0 ≤ M) (hM' : M ≤ 2 ^ 990) (hA : kA cR ≤ 1)
    (hD : kD cR ≤ 2 ^ 990) (hO : 2 ^ 1023 ≤ Omega) (t : ℕ) (ht : t ≤ 2 ^ 20) :
    Safe (1 / 2 ^ 53) (1 / 2 ^ 1075) Omega M cR t := by
  have h990 : (2 : ℝ) ^ 990 ≤ 2 ^ 1000 := pow_le_pow_right₀ (by norm_num) (by norm_num)
  exact ⟨meanSafe_binary64 hM (le_trans hM' h990) hO t ht, sumSafe_binary64 hM hM' hA hD hO t ht⟩

/-- the largest finite binary64 number, as a real, is `≥ 2^1023` -/
theorem omega64_ge : (2 : ℝ) ^ 1023 ≤ (2 - 1 / 2 ^ 52) * 2 ^ 1023 := by
  have h : (1 : ℝ) ≤ 2 - 1 / 2 ^ 52 := by norm_num
  have hP : (0 : ℝ) ≤ 2 ^ 1023 := by positivity
  generalize (2 : ℝ) ^ 1023 = P at hP ⊢
  nlinarith [mul_nonneg (sub_nonneg.mpr h) hP]

/-! ## 6. Transfer of the verdict with the closed form, margin measured on the COMPUTED statistic -/

section Carrier
variable {α : Type} [Num α] {fin : α → Prop} {toR : α → ℝ}

/-- **drift_transfer_closed** (any constants).  Hypotheses of `C07s.drift_transfer_posteriori`, with the margin
stated against the CLOSED FORM: if, once the warm-up is over, the COMPUTED statistic is farther from `lambda` than
`2·(1+ε)²·closedB`, the verdict of the carrier run is the verdict of the real run. -/
theorem drift_transfer_closed {u eta Omega M ε : ℝ} {Nmax : ℕ} (sm : StdModelIEEE α fin toR u eta Omega Nmax)
    (c : Cfg α) (hc : CfgFin fin c) (xs : List α) (hfin : ∀ x ∈ xs, fin x) (hM : ∀ x ∈ xs, |toR x| ≤ M)
    (hN : xs.length ≤ Nmax) (hsafe : Safe u eta Omega M (C07r.cfgR toR c) xs.length)
    (hA : kA (C07r.cfgR toR c) ≤ 1) (hε1 : ε ≤ 1) (hpow : (1 + u) ^ (4 * xs.length + 4) ≤ 1 + ε)
    (hsep : c.minN ≤ xs.length →
      2 * ((1 + ε) ^ 2 * closedB u eta M (C07r.cfgR toR c) xs.length) < |toR (runL c xs).sum - toR c.lambda|) :
    (runL c xs).drift = (runL (C07r.cfgR toR c) (xs.map toR)).drift := by
  cases xs with
  | nil => rfl
  | cons x xs' =>
    have hM0 : 0 ≤ M := le_trans (abs_nonneg _) (hM x (by simp))
    refine drift_transfer_posteriori sm c hc _ hfin hM hN hsafe ?_
    intro h
    have h1 := hsep h
    have h2 := sumErr_closed_eps sm.u_nonneg sm.eta_nonneg hM0 hA _ hε1 hpow
    linarith

/-- **drift_transfer_binary64.**  At the binary64 constants (`u = 2^-53`, `eta = 2^-1075`, `Omega ≥ 2^1023`), for a
stream of at most `2^20` finite values with `|x_i| ≤ M ≤ 2^990`, finite constants with `|alpha| ≤ 1`
(Page-Hinkley, gma) and `|delta| ≤ 2^990` (cusum, Page-Hinkley): NO overflow hypothesis is left, and if, once the
warm-up is over, the COMPUTED statistic is farther from `lambda` than `(2 + 2^-26)·closedB`, the verdict of the
carrier run equals the verdict of the exact-arithmetic run. -/
theorem drift_transfer_binary64 {Omega M : ℝ} {Nmax : ℕ}
    (sm : StdModelIEEE α fin toR (1 / 2 ^ 53) (1 / 2 ^ 1075) Omega Nmax) (hO : 2 ^ 1023 ≤ Omega)
    (c : Cfg α) (hc : CfgFin fin c) (xs : List α) (hfin : ∀ x ∈ xs, fin x) (hM : ∀ x ∈ xs, |toR x| ≤ M)
    (hMQ : M ≤ 2 ^ 990) (hN : xs.length ≤ Nmax) (hlen : xs.length ≤ 2 ^ 20)
    (hA : kA (C07r.cfgR toR c) ≤ 1) (hD : kD (C07r.cfgR toR c) ≤ 2 ^ 990)
    (hsep : c.minN ≤ xs.length →
      (2 + 1 / 2 ^ 26) * closedB (1 / 2 ^ 53) (1 / 2 ^ 1075) M (C07r.cfgR toR c) xs.length
        < |toR (runL c xs).sum - toR c.lambda|) :
    (runL c xs).drift = (runL (C07r.cfgR toR c) (xs.map toR)).drift := by
  cases xs with
  | nil => rfl
  | cons x xs' =>
    have hM0 : 0 ≤ M := le_trans (abs_nonneg _) (hM x (by simp))
    refine drift_transfer_posteriori sm c hc _ hfin hM hN (safe_binary64 hM0 hMQ hA hD hO _ hlen) ?_
    intro h
    have h1 := hsep h
    have h2 := sumErr_binary64_scale hM0 hA _ hlen
    have e : (2 + 1 / 2 ^ 26 : ℝ) = 2 * (1 + 1 / 2 ^ 27) := by norm_num
    rw [e] at h1
    linarith

/-- the same after ANY history with resets (`t` = number of updates since the last reset) -/
theorem drift_transfer_history_binary64 {Omega M : ℝ} {Nmax : ℕ}
    (sm : StdModelIEEE α fin toR (1 / 2 ^ 53) (1 / 2 ^ 1075) Omega Nmax) (hO : 2 ^ 1023 ≤ Omega)
    (c : Cfg α) (hc : CfgFin fin c) (ops : List (Op α))
    (hfin : ∀ x ∈ sinceReset ops, fin x) (hM : ∀ x ∈ sinceReset ops, |toR x| ≤ M)
    (hMQ : M ≤ 2 ^ 990) (hN : (sinceReset ops).length ≤ Nmax) (hlen : (sinceReset ops).length ≤ 2 ^ 20)
    (hA : kA (C07r.cfgR toR c) ≤ 1) (hD : kD (C07r.cfgR toR c) ≤ 2 ^ 990)
    (hsep : c.minN ≤ (sinceReset ops).length →
      (2 + 1 / 2 ^ 26) * closedB (1 / 2 ^ 53) (1 / 2 ^ 1075) M (C07r.cfgR toR c) (sinceReset ops).length
        < |toR ((CUSUMFam.machine c).run ops).sum - toR c.lambda|) :
    ((CUSUMFam.machine c).run ops).drift
      = ((CUSUMFam.machine (C07r.cfgR toR c)).run (ops.map (C07r.opR toR))).drift := by
  rw [run_history] at hsep
  rw [run_history, run_history, C07r.sinceReset_map]
  exact drift_transfer_binary64 sm hO c hc _ hfin hM hMQ hN hlen hA hD hsep

/-- the whole verdict SEQUENCE of a history: if the checkable hypotheses hold after every prefix, the carrier
detector and the exact-arithmetic detector raise exactly the same alarms at exactly the same places -/
theorem drift_transfer_history_all_binary64 {Omega M : ℝ} {Nmax : ℕ}
    (sm : StdModelIEEE α fin toR (1 / 2 ^ 53) (1 / 2 ^ 1075) Omega Nmax) (hO : 2 ^ 1023 ≤ Omega)
    (c : Cfg α) (hc : CfgFin fin c) (ops : List (Op α))
    (hfin : ∀ k, ∀ x ∈ sinceReset (ops.take k), fin x)
    (hM : ∀ k, ∀ x ∈ sinceReset (ops.take k), |toR x| ≤ M) (hMQ : M ≤ 2 ^ 990)
    (hN : ∀ k, (sinceReset (ops.take k)).length ≤ Nmax)
    (hlen : ∀ k, (sinceReset (ops.take k)).length ≤ 2 ^ 20)
    (hA : kA (C07r.cfgR toR c) ≤ 1) (hD : kD (C07r.cfgR toR c) ≤ 2 ^ 990)
    (hsep : ∀ k, c.minN ≤ (sinceReset (ops.take k)).length →
      (2 + 1 / 2 ^ 26) * closedB (1 / 2 ^ 53) (1 / 2 ^ 1075) M (C07r.cfgR toR c) (sinceReset (ops.take k)).length
        < |toR ((CUSUMFam.machine c).run (ops.take k)).sum - toR c.lambda|) :
    ∀ k, ((CUSUMFam.machine c).run (ops.take k)).drift
      = ((CUSUMFam.machine (C07r.cfgR toR c)).run ((ops.map (C07r.opR toR)).take k)).drift := by
  intro k
  have h := drift_transfer_history_binary64 sm hO c hc (ops.take k) (hfin k) (hM k) hMQ (hN k) (hlen k) hA hD
    (hsep k)
  rw [List.map_take] at h
  exact h

end Carrier

/-! ## 7. The numbers, once -/

/-- cusum, `M = 1`, `|delta| ≤ 1`, `t ≤ 1000`, binary64 constants: the closed form is below `9·10^-10` -/
theorem closedB_example {cR : Cfg ℝ} (hk : cR.kind = .cusum) (hd : |cR.delta| ≤ 1) (t : ℕ) (ht : t ≤ 1000) :
    closedB (1 / 2 ^ 53) (1 / 2 ^ 1075) 1 cR t < 9 / 10 ^ 10 := by
  have hu : (0 : ℝ) ≤ 1 / 2 ^ 53 := by positivity
  have he : (0 : ℝ) ≤ 1 / 2 ^ 1075 := by positivity
  refine lt_of_le_of_lt (closedB_mono_t hu he (by norm_num) cR ht) ?_
  have he' : (1 : ℝ) / 2 ^ 1075 ≤ 1 / 2 ^ 100 :=
    one_div_le_one_div_of_le (by positivity) (pow_le_pow_right₀ (by norm_num) (by norm_num))
  generalize (1 : ℝ) / 2 ^ 1075 = e at he he' ⊢
  rcases cR with ⟨kind, lam, del, al, minN⟩
  simp only at hk hd
  subst hk
  simp only [closedB, kB, kS]
  have hΔ := abs_nonneg del
  generalize |del| = Δ at hd hΔ ⊢
  norm_num at he' ⊢
  linarith

/-- … hence `sumErr ≤ (1+2^-27)·closedB < 10^-9` -/
example {cR : Cfg ℝ} (hk : cR.kind = .cusum) (hd : |cR.delta| ≤ 1) (t : ℕ) (ht : t ≤ 1000) :
    sumErr (1 / 2 ^ 53) (1 / 2 ^ 1075) 1 cR t < 1 / 10 ^ 9 := by
  have hA : kA cR ≤ 1 := by
    rcases cR with ⟨kind, lam, del, al, minN⟩
    simp only at hk; subst hk; simp [kA]
  have h1 := sumErr_binary64_scale (M := 1) (by norm_num) hA t (le_trans ht (by norm_num))
  have h2 := closedB_example hk hd t ht
  have hc : (1 + 1 / 2 ^ 27 : ℝ) ≤ 10 / 9 := by norm_num
  have h0 := closedB_nonneg (u := 1 / 2 ^ 53) (eta := 1 / 2 ^ 1075) (M := 1) (by positivity) (by positivity)
    (by norm_num) cR t
  nlinarith

/-- **the corollary with numbers.**  Any carrier satisfying the IEEE-valid standard model at the binary64 constants
(`Omega` = largest double, `Nmax = 2^53`), a cusum detector with finite constants and `|delta| ≤ 1`, at most `1000`
finite inputs with `|x_i| ≤ 1`: if, once the warm-up is over, the computed statistic is farther than `2·10^-9`
from `lambda`, the verdict is the verdict of exact arithmetic. -/
theorem cusum_binary64_example {α : Type} [Num α] {fin : α → Prop} {toR : α → ℝ}
    (sm : StdModelIEEE α fin toR (1 / 2 ^ 53) (1 / 2 ^ 1075) ((2 - 1 / 2 ^ 52) * 2 ^ 1023) (2 ^ 53))
    (c : Cfg α) (hc : CfgFin fin c) (hk : c.kind = .cusum) (hd : |toR c.delta| ≤ 1)
    (xs : List α) (hfin : ∀ x ∈ xs, fin x) (hM : ∀ x ∈ xs, |toR x| ≤ 1) (hlen : xs.length ≤ 1000)
    (hsep : c.minN ≤ xs.length → 2 / 10 ^ 9 ≤ |toR (runL c xs).sum - toR c.lambda|) :
    (runL c xs).drift = (runL (C07r.cfgR toR c) (xs.map toR)).drift := by
  have hkR : (C07r.cfgR toR c).kind = .cusum := hk
  have hA : kA (C07r.cfgR toR c) ≤ 1 := by
    rcases c with ⟨kind, lam, del, al, minN⟩
    simp only at hk; subst hk; simp [kA, C07r.cfgR]
  have hQ : (1 : ℝ) ≤ 2 ^ 990 := one_le_pow₀ (by norm_num)
  have hD : kD (C07r.cfgR toR c) ≤ 2 ^ 990 := by
    rcases c with ⟨kind, lam, del, al, minN⟩
    simp only at hk; subst hk
    simp only [kD, C07r.cfgR]
    exact le_trans hd hQ
  refine drift_transfer_binary64 sm omega64_ge c hc xs hfin hM hQ (le_trans hlen (by norm_num))
    (le_trans hlen (by norm_num)) hA hD ?_
  intro h
  have h1 := hsep h
  have h2 := closedB_example hkR (by simpa [C07r.cfgR] using hd) xs.length hlen
  have hc2 : (2 + 1 / 2 ^ 26 : ℝ) ≤ 20 / 9 := by norm_num
  have h0 := closedB_nonneg (u := 1 / 2 ^ 53) (eta := 1 / 2 ^ 1075) (M := 1) (by positivity) (by positivity)
    (by norm_num) (C07r.cfgR toR c) xs.length
  have : (2 + 1 / 2 ^ 26) * closedB (1 / 2 ^ 53) (1 / 2 ^ 1075) 1 (C07r.cfgR toR c) xs.length < 2 / 10 ^ 9 := by
    nlinarith
  linarith

/-- the numbers: `(2 + 2^-26) · 9·10^-10 < 2·10^-9` -/
example : (2 + 1 / 2 ^ 26 : ℝ) * (9 / 10 ^ 10) < 2 / 10 ^ 9 := by norm_num

/-- `2^-1075 ≤ 2^-100` (to keep the numerals small) -/
theorem eta64_le : (1 : ℝ) / 2 ^ 1075 ≤ 1 / 2 ^ 100 :=
  one_div_le_one_div_of_le (by positivity) (pow_le_pow_right₀ (by norm_num) (by norm_num))

/-- **non-vacuity of `drift_transfer_binary64` on a carrier that really rounds.**  `Biased (2^-53)` (every operation
off by the factor `1 + 2^-53`) at the binary64 constants with `Omega` = the largest double and `Nmax = 2^53`; cusum,
`lambda = 1`, `delta = 0`, `minN = 2`, stream `0, 0, 3` (`M = 3`).  ALL hypotheses of `drift_transfer_binary64` hold —
the margin on the COMPUTED statistic is obtained from `C07s.run_err`, `sumErr_binary64_scale` and the value
`closedB = 252·u + 12·eta` — and the conclusion is the alarm at `t = 3`. -/
example :
    (runL (⟨.cusum, ⟨1⟩, ⟨0⟩, ⟨0⟩, 2⟩ : Cfg (Biased (1 / 2 ^ 53))) [⟨0⟩, ⟨0⟩, ⟨3⟩]).drift = true := by
  have hO : (0 : ℝ) < (2 - 1 / 2 ^ 52) * 2 ^ 1023 := lt_of_lt_of_le (by positivity) omega64_ge
  have sm : StdModelIEEE (Biased (1 / 2 ^ 53)) (fun _ => True) Biased.val (1 / 2 ^ 53) (1 / 2 ^ 1075)
      ((2 - 1 / 2 ^ 52) * 2 ^ 1023) (2 ^ 53) := stdModelIEEE_biased (by positivity) (by positivity) hO _
  have hc : CfgFin (fun _ => True) (⟨.cusum, ⟨1⟩, ⟨0⟩, ⟨0⟩, 2⟩ : Cfg (Biased (1 / 2 ^ 53))) := ⟨trivial, trivial⟩
  have hM : ∀ x ∈ ([⟨0⟩, ⟨0⟩, ⟨3⟩] : List (Biased (1 / 2 ^ 53))), |x.val| ≤ 3 := by
    intro x hx
    simp only [List.mem_cons, List.not_mem_nil, or_false] at hx
    rcases hx with rfl | rfl | rfl <;> norm_num
  have hcfg : C07r.cfgR Biased.val (⟨.cusum, ⟨1⟩, ⟨0⟩, ⟨0⟩, 2⟩ : Cfg (Biased (1 / 2 ^ 53))) = ⟨.cusum, 1, 0, 0, 2⟩ :=
    rfl
  have hmap : ([⟨0⟩, ⟨0⟩, ⟨3⟩] : List (Biased (1 / 2 ^ 53))).map Biased.val = [0, 0, 3] := rfl
  have hreal : (runL (⟨.cusum, 1, 0, 0, 2⟩ : Cfg ℝ) [0, 0, 3]).sum = 2 := by
    rw [run_sum]; norm_num [specG, specFrom, specStep, amean]
  have hQ : (1 : ℝ) ≤ 2 ^ 990 := one_le_pow₀ (by norm_num)
  have h3Q : (3 : ℝ) ≤ 2 ^ 990 :=
    le_trans (by norm_num : (3 : ℝ) ≤ 2 ^ 2) (pow_le_pow_right₀ (by norm_num) (by norm_num))
  have hA : kA (⟨.cusum, 1, 0, 0, 2⟩ : Cfg ℝ) ≤ 1 := by simp [kA]
  have hD : kD (⟨.cusum, 1, 0, 0, 2⟩ : Cfg ℝ) ≤ 2 ^ 990 := by
    simp only [kD, abs_zero]; exact le_trans zero_le_one hQ
  have hB : closedB (1 / 2 ^ 53) (1 / 2 ^ 1075) 3 (⟨.cusum, 1, 0, 0, 2⟩ : Cfg ℝ) 3 ≤ 1 / 100 := by
    have he' := eta64_le
    have he0 : (0 : ℝ) ≤ 1 / 2 ^ 1075 := by positivity
    generalize (1 : ℝ) / 2 ^ 1075 = e at he' he0 ⊢
    simp only [closedB, kB, kS]
    norm_num at he' ⊢
    linarith
  have hB0 := closedB_nonneg (u := 1 / 2 ^ 53) (eta := 1 / 2 ^ 1075) (M := 3) (by positivity) (by positivity)
    (by norm_num) (⟨.cusum, 1, 0, 0, 2⟩ : Cfg ℝ) 3
  have hsafe : Safe (1 / 2 ^ 53) (1 / 2 ^ 1075) ((2 - 1 / 2 ^ 52) * 2 ^ 1023) 3
      (C07r.cfgR Biased.val (⟨.cusum, ⟨1⟩, ⟨0⟩, ⟨0⟩, 2⟩ : Cfg (Biased (1 / 2 ^ 53))))
      ([⟨0⟩, ⟨0⟩, ⟨3⟩] : List (Biased (1 / 2 ^ 53))).length := by
    rw [hcfg]
    exact safe_binary64 (by norm_num) h3Q hA hD omega64_ge _ (by norm_num)
  have herr := (run_err sm _ hc _ (fun _ _ => trivial) hM (by norm_num) hsafe).2.2.2
  rw [hcfg, hmap, hreal] at herr
  have hscale := sumErr_binary64_scale (M := 3) (by norm_num) hA 3 (by norm_num)
  have hlen : ([⟨0⟩, ⟨0⟩, ⟨3⟩] : List (Biased (1 / 2 ^ 53))).length = 3 := rfl
  rw [hlen] at herr
  rw [drift_transfer_binary64 sm omega64_ge _ hc _ (fun _ _ => trivial) hM h3Q (by norm_num) (by norm_num)
    (by rw [hcfg]; exact hA) (by rw [hcfg]; exact hD), hcfg, hmap]
  · rw [run_drift]; norm_num [specG, specFrom, specStep, amean]
    exact List.cons_ne_nil _ _
  · intro _
    rw [hcfg, hlen]
    show _ < |_ - (1 : ℝ)|
    have hc2 : (1 + 1 / 2 ^ 27 : ℝ) ≤ 2 := by norm_num
    have hc3 : (2 + 1 / 2 ^ 26 : ℝ) ≤ 3 := by norm_num
    have h4 := mul_le_mul_of_nonneg_right hc2 hB0
    have h5 := mul_le_mul_of_nonneg_right hc3 hB0
    have h6 := (abs_le.mp herr).1
    have h7 := le_abs_self
      ((runL (⟨.cusum, ⟨1⟩, ⟨0⟩, ⟨0⟩, 2⟩ : Cfg (Biased (1 / 2 ^ 53))) [⟨0⟩, ⟨0⟩, ⟨3⟩]).sum.val - (1 : ℝ))
    linarith

/-! ## 8. What is NOT monotone -/

/-- **`sumErr` is not monotone in `alpha`** (it depends on `|alpha|` and `|1 − alpha|`): for gma with `u = 1`,
`eta = 0`, `M = 1`, one update, the bound at `alpha = 0` is LARGER than at `alpha = 1/2`, which is SMALLER than
at `alpha = 2`. -/
theorem sumErr_not_mono_alpha_witness :
    sumErr 1 0 1 (⟨.gma, 0, 0, 1 / 2, 0⟩ : Cfg ℝ) 1 < sumErr 1 0 1 (⟨.gma, 0, 0, 0, 0⟩ : Cfg ℝ) 1 ∧
    sumErr 1 0 1 (⟨.gma, 0, 0, 1 / 2, 0⟩ : Cfg ℝ) 1 < sumErr 1 0 1 (⟨.gma, 0, 0, 2, 0⟩ : Cfg ℝ) 1 := by
  constructor <;>
    norm_num [sumErr, sumStepErr, C07r.sumStepErr, C07r.gmaStepErr, C07r.gBound, C07r.gStep, meanErr, meanStepErr,
      C07r.meanStepErr, etaCount]

/-- **the hypothesis `kA ≤ 1` of `gBound_le` (hence of the polynomial closed forms) cannot be dropped**: Page-Hinkley
with `alpha = 2`, `delta = 0`, `M = 1`: `gBound 2 = 6 > 2·kS = 4` (the a-priori bound grows like `|alpha|^t`). -/
theorem gBound_le_needs_kA_witness :
    ¬ C07r.gBound 1 (⟨.pageHinkley, 0, 0, 2, 0⟩ : Cfg ℝ) 2 ≤ ((2 : ℕ) : ℝ) * kS 1 (⟨.pageHinkley, 0, 0, 2, 0⟩ : Cfg ℝ) := by
  norm_num [C07r.gBound, C07r.gStep, kS]

end Frouros.C07u

#print axioms Frouros.C07u.gBound_le
#print axioms Frouros.C07u.gBound_le_needs_kA_witness
#print axioms Frouros.C07u.gBound_mono_t
#print axioms Frouros.C07u.gBound_mono_M
#print axioms Frouros.C07u.meanErr_mono_t
#print axioms Frouros.C07u.meanErr_mono_params
#print axioms Frouros.C07u.sumErr_mono_t
#print axioms Frouros.C07u.sumErr_mono_params
#print axioms Frouros.C07u.sumMag_mono_all
#print axioms Frouros.C07u.MeanSafe.anti_params
#print axioms Frouros.C07u.SumSafe.anti_params
#print axioms Frouros.C07u.Safe.anti_params
#print axioms Frouros.C07u.sumErr_not_mono_alpha_witness
#print axioms Frouros.C07u.sumStep_le
#print axioms Frouros.C07u.meanErr_le_lin
#print axioms Frouros.C07u.sumErr_le_pow
#print axioms Frouros.C07u.sumErr_closed_eps
#print axioms Frouros.C07u.sumErr_closed
#print axioms Frouros.C07u.sumErr_closed_four
#print axioms Frouros.C07u.sumErr_binary64_scale
#print axioms Frouros.C07u.meanErr_closed_eps
#print axioms Frouros.C07u.sumSafe_of_closed
#print axioms Frouros.C07u.safe_of_closed
#print axioms Frouros.C07u.sumMag_le_crude
#print axioms Frouros.C07u.closedB_binary64_crude
#print axioms Frouros.C07u.sumSafe_binary64
#print axioms Frouros.C07u.safe_binary64
#print axioms Frouros.C07u.omega64_ge
#print axioms Frouros.C07u.drift_transfer_closed
#print axioms Frouros.C07u.drift_transfer_binary64
#print axioms Frouros.C07u.drift_transfer_history_binary64
#print axioms Frouros.C07u.drift_transfer_history_all_binary64
#print axioms Frouros.C07u.closedB_example
#print axioms Frouros.C07u.cusum_binary64_example
