/-
  C06b — KSWIN with the model's own KS p-value; STEPD: which properties of `sf` matter.

  A. `KSWIN.step` takes the p-value routine `ksP` as a parameter; the native driver plugs in `KS.pTwoSided`
     (`FrourosModel/KS.lean`: `pExactFloat n m (hTwoSided ref test)`).  Here the parameter is INSTANTIATED:
     * `hTwoSided_self`, `hTwoSided_of_perm` (every carrier): identical samples (or two orderings of one multiset) have
       lattice distance `h = 0`;
     * `pTwoSided_of_perm` (IEEE doubles): then the driver's p-value is exactly `1.0`;
     * `pReal` := the exact fraction `pExactFrac` as a real; `pReal_of_perm` (`= 1`, via `C11.pExactFrac_zero`),
       `pReal_mem_unit`, `pReal_spec` (= proportion of interleavings with KS distance `≥ h`, via `C11.p_exact_dist`),
       `pReal_perm`;
     * `kswin_ks_rule`, `kswin_perm_rule`, `kswin_perm_rule_float`, `kswin_subset_only(_real/_float)`,
       `kswin_const_ks` (C01c's `hks` discharged), `validTape_exists`.
  B. STEPD.  The model only CALLS `sf` and compares the result; it uses NO property of `sf` — except that its `none`
     branch hard-codes `sf(−∞) = 1`.  Hence every C06 theorem holds for an arbitrary `sf` (`C06.stepd_rule` is an `iff`
     with `sf T` on the right, nothing to assume).  What an arbitrary `sf` does NOT give is a direction:
     `stepd_monotone` (needs `Antitone sf`), `stepd_threshold_form` (needs `StrictAnti sf`),
     `stepd_threshold_form_reversed` + `stepd_direction_witness` (an increasing `sf` satisfies every C06 theorem and
     alarms on the SMALLER statistic).  `degenerate_iff_counts`, `degenerate_numerator_neg`, `stepd_degenerate_stream`
     justify the `none ↦ −∞` reading of the degenerate branch.
-/
import FrourosProofs.Props.C06
import FrourosProofs.Props.C11
import FrourosProofs.Props.C01c

namespace Frouros.C06b
open Frouros Frouros.KS Frouros.C06

/-! ## A. The KS p-value of the model plugged into KSWIN -/

section Bridge
variable {α : Type} [Num α]

theorem foldl_max_natAbs_zero (l : List Int) (h : ∀ d ∈ l, d = 0) :
    l.foldl (fun acc d => max acc d.natAbs) 0 = 0 := by
  induction l with
  | nil => rfl
  | cons d ds ih =>
    have hd : d = 0 := h d (by simp)
    subst hd
    simpa using ih (fun d hd => h d (by simp [hd]))

/-- **hTwoSided_self** (every carrier — no assumption on `Num.le`, so literally for IEEE doubles, NaNs included).
Two identical samples have lattice KS distance `h = 0`: every pooled point has the same count in both. -/
theorem hTwoSided_self (l : List α) : hTwoSided l l = 0 := by
  unfold hTwoSided
  apply foldl_max_natAbs_zero
  intro d hd
  unfold devs at hd
  obtain ⟨z, _, rfl⟩ := List.mem_map.mp hd
  simp

/-- **hTwoSided_of_perm** (every carrier).  More generally two orderings of the same multiset have `h = 0`. -/
theorem hTwoSided_of_perm {l l' : List α} (h : l.Perm l') : hTwoSided l l' = 0 := by
  rw [C11.hTwoSided_perm (List.Perm.refl l) h.symm]; exact hTwoSided_self l

end Bridge

/-- **pTwoSided_of_perm** (IEEE doubles, NaN included).  The p-value function the driver plugs into KSWIN returns exactly
`1.0` on two orderings of the same multiset (the `h == 0` shortcut of `pExactFloat`). -/
theorem pTwoSided_of_perm {l l' : List Float} (h : l.Perm l') : pTwoSided l l' = 1.0 := by
  unfold pTwoSided pExactFloat
  rw [hTwoSided_of_perm h]
  rfl

theorem pTwoSided_self (l : List Float) : pTwoSided l l = 1.0 := pTwoSided_of_perm (List.Perm.refl l)


/-- the exact two-sided KS p-value of the model as a real number: the fraction `pExactFrac n m h`, `h = hTwoSided ref test`,
that the driver's `pTwoSided` rounds to a double -/
noncomputable def pReal (ref test : List ℝ) : ℝ :=
  ((pExactFrac ref.length test.length (hTwoSided ref test)).1 : ℝ) /
    ((pExactFrac ref.length test.length (hTwoSided ref test)).2 : ℝ)

/-- **pReal_of_perm** (the bridge asked for: identical samples ⇒ p = 1).  `h = 0` (`hTwoSided_of_perm`), the fraction
`pExactFrac n m 0` has numerator = denominator (`C11.pExactFrac_zero`) and a positive denominator
(`C11.pExactFrac_den_pos`, so `num/den` is a genuine quotient, not `x/0`). -/
theorem pReal_of_perm {l l' : List ℝ} (h : l.Perm l') : pReal l l' = 1 := by
  unfold pReal
  rw [hTwoSided_of_perm h, C11.pExactFrac_zero]
  have := C11.pExactFrac_den_pos l.length l'.length 0
  exact div_self (by exact_mod_cast this.ne')

theorem pReal_self (l : List ℝ) : pReal l l = 1 := pReal_of_perm (List.Perm.refl l)

/-- the model's p-value is a probability -/
theorem pReal_mem_unit (ref test : List ℝ) : 0 ≤ pReal ref test ∧ pReal ref test ≤ 1 := by
  unfold pReal
  have h1 := C11.pExactFrac_den_pos ref.length test.length (hTwoSided ref test)
  have h2 := C11.pExactFrac_num_le_den ref.length test.length (hTwoSided ref test)
  have h1' : (0 : ℝ) < ((pExactFrac ref.length test.length (hTwoSided ref test)).2 : ℝ) := by exact_mod_cast h1
  refine ⟨by positivity, ?_⟩
  rw [div_le_one h1']
  exact_mod_cast h2

/-- **pReal_spec.**  `pReal ref test` is the proportion of the `C(n+m, n)` interleavings of `n` reference and `m` test
observations whose lattice KS distance is at least the observed `h = hTwoSided ref test` (C11's exact null distribution). -/
theorem pReal_spec (ref test : List ℝ) :
    pReal ref test =
      ((C11.paths ref.length test.length).countP
          (fun p => decide (hTwoSided ref test ≤ C11.pathH ref.length test.length p)) : ℝ) /
        (Nat.choose (ref.length + test.length) ref.length : ℝ) := by
  unfold pReal
  rw [C11.p_exact_dist, C11.paths_length]

/-- the p-value depends only on the two multisets -/
theorem pReal_perm {ref ref' test test' : List ℝ} (hr : ref.Perm ref') (ht : test.Perm test') :
    pReal ref test = pReal ref' test' := by
  unfold pReal
  rw [hr.length_eq, ht.length_eq, C11.hTwoSided_perm hr ht]

/-! ### KSWIN with the model's KS p-value -/

/-- **kswin_ks_rule** (ℝ).  `C06.kswin_rule_junkfree` with `ksP` instantiated by the model's KS p-value: at a step with a
full window, for a valid draw, `drift` iff the proportion of interleavings of `numTest + numTest` observations whose KS
distance reaches the observed distance between the drawn sample and the newest `numTest` values is `≤ alpha`. -/
theorem kswin_ks_rule (c : KSWIN.Cfg ℝ) (xs : List (ℝ × List Nat)) (v : ℝ) (tape : List Nat)
    (hfull : c.minN ≤ xs.length + 1) (hk : c.numTest ≤ c.minN)
    (htape : ValidTape c.numTest (older c (xs.map Prod.fst ++ [v])).length tape) :
    ∃ sample : List ℝ,
      sample.map some = tape.map (fun i => (older c (xs.map Prod.fst ++ [v]))[i]?) ∧
      sample.length = c.numTest ∧ (lastN c.numTest (xs.map Prod.fst ++ [v])).length = c.numTest ∧
      ((kfeed pReal c (xs ++ [(v, tape)])).drift = true ↔
        ((C11.paths c.numTest c.numTest).countP
            (fun p => decide (hTwoSided sample (lastN c.numTest (xs.map Prod.fst ++ [v])) ≤
              C11.pathH c.numTest c.numTest p)) : ℝ) /
          (Nat.choose (c.numTest + c.numTest) c.numTest : ℝ) ≤ c.alpha) := by
  obtain ⟨sample, h1, h2, h3⟩ := kswin_rule_junkfree pReal c xs v tape hfull hk htape
  have h4 : (lastN c.numTest (xs.map Prod.fst ++ [v])).length = c.numTest := by
    rw [lastN_length]; simp; omega
  refine ⟨sample, h1, h2, h4, ?_⟩
  rw [h3, RealNum.le_iff, pReal_spec, h2, h4]

/-- **kswin_perm_rule** (ℝ).  If the drawn sample is a reordering of the newest `numTest` values (in particular if the
two are identical, e.g. on a constant or `numTest`-periodic stream) the p-value is `1`, so `drift ⇔ 1 ≤ alpha`: silent for
every `alpha < 1`, and — the known finding, `alpha ≥ 1` is accepted — an alarm otherwise.  (Holds for any tape; under
`ValidTape` the sample consists of genuine window elements, `C06.kswin_sample_genuine`.) -/
theorem kswin_perm_rule (c : KSWIN.Cfg ℝ) (xs : List (ℝ × List Nat)) (v : ℝ) (tape : List Nat)
    (hfull : c.minN ≤ xs.length + 1)
    (hperm : (tape.map (fun i => (older c (xs.map Prod.fst ++ [v])).getD i Num.zero)).Perm
      (newest c (xs.map Prod.fst ++ [v]))) :
    ((kfeed pReal c (xs ++ [(v, tape)])).drift = true ↔ 1 ≤ c.alpha) := by
  rw [kswin_rule pReal c xs v tape hfull, pReal_of_perm hperm, RealNum.le_iff]

/-- **kswin_perm_rule_float** (IEEE doubles, with the p-value function the driver actually plugs in).  Same situation at
`Float`: the decision is literally the double comparison `1.0 ≤ alpha`. -/
theorem kswin_perm_rule_float (c : KSWIN.Cfg Float) (xs : List (Float × List Nat)) (v : Float) (tape : List Nat)
    (hfull : c.minN ≤ xs.length + 1)
    (hperm : (tape.map (fun i => (older c (xs.map Prod.fst ++ [v])).getD i Num.zero)).Perm
      (newest c (xs.map Prod.fst ++ [v]))) :
    (kfeed pTwoSided c (xs ++ [(v, tape)])).drift = Num.le (1.0 : Float) c.alpha := by
  rw [kswin_rule pTwoSided c xs v tape hfull, pTwoSided_of_perm hperm]

/-- **kswin_subset_only** (every carrier).  If the p-value routine is invariant under reordering its first sample
(`hP`; true of `pReal` and of the driver's `pTwoSided`, instantiated below) the verdict depends on the drawn SUBSET only,
not on the order in which `np.random.choice` returned it. -/
theorem kswin_subset_only {α : Type} [Num α] (ksP : List α → List α → α)
    (hP : ∀ a a' b, a.Perm a' → ksP a b = ksP a' b)
    (c : KSWIN.Cfg α) (xs : List (α × List Nat)) (v : α) (tape₁ tape₂ : List Nat)
    (hfull : c.minN ≤ xs.length + 1) (ht : tape₁.Perm tape₂) :
    (kfeed ksP c (xs ++ [(v, tape₁)])).drift = (kfeed ksP c (xs ++ [(v, tape₂)])).drift := by
  rw [kswin_rule ksP c xs v tape₁ hfull, kswin_rule ksP c xs v tape₂ hfull, hP _ _ _ (ht.map _)]

theorem kswin_subset_only_real (c : KSWIN.Cfg ℝ) (xs : List (ℝ × List Nat)) (v : ℝ) (tape₁ tape₂ : List Nat)
    (hfull : c.minN ≤ xs.length + 1) (ht : tape₁.Perm tape₂) :
    (kfeed pReal c (xs ++ [(v, tape₁)])).drift = (kfeed pReal c (xs ++ [(v, tape₂)])).drift :=
  kswin_subset_only pReal (fun _ _ _ h => pReal_perm h (List.Perm.refl _)) c xs v tape₁ tape₂ hfull ht

theorem kswin_subset_only_float (c : KSWIN.Cfg Float) (xs : List (Float × List Nat)) (v : Float) (tape₁ tape₂ : List Nat)
    (hfull : c.minN ≤ xs.length + 1) (ht : tape₁.Perm tape₂) :
    (kfeed pTwoSided c (xs ++ [(v, tape₁)])).drift = (kfeed pTwoSided c (xs ++ [(v, tape₂)])).drift :=
  kswin_subset_only pTwoSided (fun _ _ _ h => C11.pTwoSided_perm h (List.Perm.refl _)) c xs v tape₁ tape₂ hfull ht

/-- **kswin_const_ks** (ℝ): C01c's constant-stream theorem with its hypothesis `hks` DISCHARGED. -/
theorem kswin_const_ks (cfg : KSWIN.Cfg ℝ) (hnt : cfg.numTest ≤ cfg.minN) (x : ℝ) (ha : cfg.alpha < 1)
    (tapes : List (List Nat)) (ht : ∀ t ∈ tapes, C01c.Kswin.TapeOk cfg t) :
    ((tapes.map (fun t => (x, t))).foldl (fun s vt => KSWIN.step pReal cfg s vt.1 vt.2) KSWIN.init).drift = false :=
  C01c.kswin_const pReal cfg hnt x (pReal_self _) ha tapes ht


/-- for every accepted configuration (`1 ≤ numTest`, `2·numTest ≤ minN`) a valid draw exists: the hypotheses of
`kswin_all_reject` / `kswin_none_reject` / `kswin_ks_rule` are never vacuous -/
theorem validTape_exists (numTest minN : Nat) (h2 : 2 * numTest ≤ minN) :
    ValidTape numTest (minN - numTest) (List.range numTest) :=
  ⟨List.length_range, List.nodup_range, fun i hi => by have := List.mem_range.mp hi; omega⟩

/-! ## B. STEPD: which properties of `sf` are used -/
section STEPD

/-- **stepd_monotone** (ℝ, needs `Antitone sf`).  A larger statistic never un-alarms: if a stream with statistic `T`
raises drift, every stream (same configuration, both non-degenerate and past the warm-up) with statistic `T' ≥ T` does. -/
theorem stepd_monotone (sf : ℝ → ℝ) (hsf : Antitone sf) (c : STEPD.Cfg ℝ) (hpos : 0 < c.minN) (bs bs' : List Bool)
    (ht : 2 * c.minN ≤ bs.length) (ht' : 2 * c.minN ≤ bs'.length)
    (hvar : specP bs.length (coOf c.minN bs) (cwOf c.minN bs) * (1 - specP bs.length (coOf c.minN bs) (cwOf c.minN bs)) ≠ 0)
    (hvar' : specP bs'.length (coOf c.minN bs') (cwOf c.minN bs') * (1 - specP bs'.length (coOf c.minN bs') (cwOf c.minN bs')) ≠ 0)
    (hT : specT bs.length c.minN (coOf c.minN bs) (cwOf c.minN bs) ≤ specT bs'.length c.minN (coOf c.minN bs') (cwOf c.minN bs'))
    (hd : (sfeed sf c bs).drift = true) : (sfeed sf c bs').drift = true := by
  rw [(stepd_rule sf c hpos bs ht hvar).1] at hd
  rw [(stepd_rule sf c hpos bs' ht' hvar').1]
  exact lt_of_le_of_lt (hsf hT) hd

/-- **stepd_threshold_form** (ℝ, needs `StrictAnti sf` and that the levels are attained, `sf zD = alpha_d`,
`sf zW = alpha_w` — true of the normal survival function for levels in `(0,1)`).  The rule in critical-value form:
`drift ⇔ T > zD`, `warning ⇔ zW < T ≤ zD` — a ONE-sided test that alarms on LARGE statistics. -/
theorem stepd_threshold_form (sf : ℝ → ℝ) (hsf : StrictAnti sf) (c : STEPD.Cfg ℝ) (hpos : 0 < c.minN) (bs : List Bool)
    (ht : 2 * c.minN ≤ bs.length)
    (hvar : specP bs.length (coOf c.minN bs) (cwOf c.minN bs) * (1 - specP bs.length (coOf c.minN bs) (cwOf c.minN bs)) ≠ 0)
    (zD zW : ℝ) (hzD : sf zD = c.alphaD) (hzW : sf zW = c.alphaW) :
    ((sfeed sf c bs).drift = true ↔ zD < specT bs.length c.minN (coOf c.minN bs) (cwOf c.minN bs)) ∧
    ((sfeed sf c bs).warning = true ↔
      zW < specT bs.length c.minN (coOf c.minN bs) (cwOf c.minN bs) ∧
        specT bs.length c.minN (coOf c.minN bs) (cwOf c.minN bs) ≤ zD) := by
  obtain ⟨hd, hw⟩ := stepd_rule sf c hpos bs ht hvar
  have h1 : (sfeed sf c bs).drift = true ↔ zD < specT bs.length c.minN (coOf c.minN bs) (cwOf c.minN bs) := by
    rw [hd, ← hzD, hsf.lt_iff_gt]
  refine ⟨h1, ?_⟩
  rw [hw, h1, ← hzW, hsf.lt_iff_gt, not_lt]
  exact and_comm

/-- **stepd_threshold_form_reversed** (ℝ).  With a strictly INCREASING `sf` the same model alarms on SMALL statistics:
the direction of the test is carried by the antitonicity of `sf` alone; no C06 theorem (all valid for arbitrary `sf`)
can distinguish the two. -/
theorem stepd_threshold_form_reversed (sf : ℝ → ℝ) (hsf : StrictMono sf) (c : STEPD.Cfg ℝ) (hpos : 0 < c.minN)
    (bs : List Bool) (ht : 2 * c.minN ≤ bs.length)
    (hvar : specP bs.length (coOf c.minN bs) (cwOf c.minN bs) * (1 - specP bs.length (coOf c.minN bs) (cwOf c.minN bs)) ≠ 0)
    (zD : ℝ) (hzD : sf zD = c.alphaD) :
    ((sfeed sf c bs).drift = true ↔ specT bs.length c.minN (coOf c.minN bs) (cwOf c.minN bs) < zD) := by
  rw [(stepd_rule sf c hpos bs ht hvar).1, ← hzD, hsf.lt_iff_lt]

/-! ### the degenerate branch `none ↦ p = 1` -/

/-- **degenerate_iff_counts.**  The pooled variance vanishes iff ALL predictions so far were wrong or ALL were correct. -/
theorem degenerate_iff_counts (t co cw : ℕ) (ht : 0 < t) :
    specP t co cw * (1 - specP t co cw) = 0 ↔ co + cw = 0 ∨ co + cw = t := by
  have htR : (0 : ℝ) < t := by exact_mod_cast ht
  unfold specP
  rw [mul_eq_zero, div_eq_zero_iff, sub_eq_zero, eq_comm (a := (1 : ℝ)), div_eq_one_iff_eq htR.ne']
  constructor
  · rintro ((h | h) | h)
    · left; exact_mod_cast h
    · exact absurd h htR.ne'
    · right; exact_mod_cast h
  · rintro (h | h)
    · left; left; exact_mod_cast h
    · right; exact_mod_cast h

/-- **degenerate_numerator_neg.**  In that case the numerator of the statistic is strictly NEGATIVE (`= −0.5·(1/n_o + 1/n_w)`),
so numpy's division by the zero denominator gives `−inf` (not `nan`/`+inf`): this is what the model's
`statistic = none ↦ p = 1` encodes, and it is the ONE property of `sf` the model relies on: `sf(−∞) = 1`. -/
theorem degenerate_numerator_neg (t nw co cw : ℕ) (hnw : 0 < nw) (ht : 2 * nw ≤ t) (hco : co ≤ t - nw) (hcw : cw ≤ nw)
    (hdeg : co + cw = 0 ∨ co + cw = t) :
    |(co : ℝ) / ((t : ℝ) - nw) - (cw : ℝ) / nw| - 0.5 * specInv t nw < 0 := by
  have hnwR : (0 : ℝ) < nw := by exact_mod_cast hnw
  have h2 : (nw : ℝ) * 2 ≤ t := by exact_mod_cast (by omega : nw * 2 ≤ t)
  have hno : (0 : ℝ) < (t : ℝ) - nw := by linarith
  have hinv : 0 < specInv t nw := by unfold specInv; positivity
  have hz : (co : ℝ) / ((t : ℝ) - nw) - (cw : ℝ) / nw = 0 := by
    rcases hdeg with h | h
    · have h1 : co = 0 := by omega
      have h2 : cw = 0 := by omega
      subst h1 h2; simp
    · have h1 : co = t - nw := by omega
      have h2 : cw = nw := by omega
      have h3 : (co : ℝ) = (t : ℝ) - nw := by rw [h1, Nat.cast_sub (by omega)]
      rw [h3, h2, div_self hno.ne', div_self hnwR.ne', sub_self]
  rw [hz, abs_zero]
  linarith

/-- **stepd_degenerate_stream** (ℝ).  The two facts above on the stream counters of a run past the warm-up. -/
theorem stepd_degenerate_stream (c : STEPD.Cfg ℝ) (hpos : 0 < c.minN) (bs : List Bool) (ht : 2 * c.minN ≤ bs.length) :
    (specP bs.length (coOf c.minN bs) (cwOf c.minN bs) * (1 - specP bs.length (coOf c.minN bs) (cwOf c.minN bs)) = 0 ↔
      bs.count true = 0 ∨ bs.count true = bs.length) ∧
    (bs.count true = 0 ∨ bs.count true = bs.length →
      |(coOf c.minN bs : ℝ) / ((bs.length : ℝ) - c.minN) - (cwOf c.minN bs : ℝ) / c.minN|
        - 0.5 * specInv bs.length c.minN < 0) := by
  have hsum := coOf_add_cwOf c.minN bs
  have hco : coOf c.minN bs ≤ bs.length - c.minN := by
    unfold coOf
    refine le_trans List.count_le_length ?_
    rw [List.length_take]; omega
  have hcw : cwOf c.minN bs ≤ c.minN := by
    unfold cwOf
    refine le_trans List.count_le_length ?_
    rw [lastN_length]; omega
  refine ⟨by rw [degenerate_iff_counts _ _ _ (by omega), hsum], fun h => ?_⟩
  exact degenerate_numerator_neg _ _ _ _ hpos ht hco hcw (by rw [hsum]; exact h)


/-- **stepd_direction_witness** (ℝ).  Concretely, with the increasing `sf = id` (`alpha_d = 1/2`, `min_num_instances = 2`):
the stream `T,F,T,T` (statistic `0`) raises drift while `T,T,F,F` (accuracy drops from 1 to 0, statistic `≥ 1/2`) is silent —
and every theorem of C06 holds for this `sf`. -/
theorem stepd_direction_witness :
    let c : STEPD.Cfg ℝ := ⟨1 / 2, 3 / 4, 2⟩
    specT 4 2 (coOf 2 [true, false, true, true]) (cwOf 2 [true, false, true, true]) <
      specT 4 2 (coOf 2 [true, true, false, false]) (cwOf 2 [true, true, false, false]) ∧
    (sfeed (fun t : ℝ => t) c [true, false, true, true]).drift = true ∧
    (sfeed (fun t : ℝ => t) c [true, true, false, false]).drift = false := by
  intro c
  have e1 : specT 4 2 (coOf 2 [true, false, true, true]) (cwOf 2 [true, false, true, true]) = 0 := by
    simp [specT, specInv, coOf, cwOf, lastN]; norm_num
  have hsq : 0 < Real.sqrt (specP 4 2 0 * (1 - specP 4 2 0) * specInv 4 2) ∧
      Real.sqrt (specP 4 2 0 * (1 - specP 4 2 0) * specInv 4 2) ≤ 1 := by
    have : specP 4 2 0 * (1 - specP 4 2 0) * specInv 4 2 = 1 / 4 := by
      simp [specP, specInv]; norm_num
    rw [this]
    exact ⟨Real.sqrt_pos.mpr (by norm_num), Real.sqrt_le_one.mpr (by norm_num)⟩
  have e2 : 1 / 2 ≤ specT 4 2 (coOf 2 [true, true, false, false]) (cwOf 2 [true, true, false, false]) := by
    have : specT 4 2 (coOf 2 [true, true, false, false]) (cwOf 2 [true, true, false, false])
        = (1 / 2) / Real.sqrt (specP 4 2 0 * (1 - specP 4 2 0) * specInv 4 2) := by
      simp [specT, specInv, coOf, cwOf, lastN]; norm_num
    rw [this, le_div_iff₀ hsq.1]
    linarith [hsq.2]
  refine ⟨by rw [e1]; linarith, ?_, ?_⟩
  · have h := stepd_rule (fun t : ℝ => t) c (by simp [c]) [true, false, true, true] (by simp [c])
      (by simp [specP, coOf, cwOf, lastN, c]; norm_num)
    rw [h.1]
    show specT 4 2 (coOf 2 [true, false, true, true]) (cwOf 2 [true, false, true, true]) < 1 / 2
    rw [e1]; norm_num
  · have h := stepd_rule (fun t : ℝ => t) c (by simp [c]) [true, true, false, false] (by simp [c])
      (by simp [specP, coOf, cwOf, lastN, c]; norm_num)
    rw [← Bool.not_eq_true, h.1]
    show ¬ specT 4 2 (coOf 2 [true, true, false, false]) (cwOf 2 [true, true, false, false]) < 1 / 2
    linarith

end STEPD

/-! ## Non-vacuity -/
section Examples

example : pReal [1, 2, 3] [3, 1, 2] = 1 :=
  pReal_of_perm (List.Perm.trans (List.perm_append_comm (l₁ := [1, 2]) (l₂ := [3])) (List.Perm.refl _))

/-- `kswin_ks_rule`: `minN = 4`, `numTest = 2`, valid tape `[1, 0]` -/
example := kswin_ks_rule ⟨0.05, 4, 2⟩ [(1, []), (2, []), (3, [])] 4 [1, 0] (by simp) (by simp)
  (by simp [ValidTape, older, lastN])

/-- `kswin_perm_rule`: window `1,2,1,2`, the drawn sample `[1,2]` equals the newest two values; `alpha = 0.05 < 1`: silent -/
example : (kfeed pReal ⟨0.05, 4, 2⟩ ([(1, []), (2, []), (1, [])] ++ [(2, [0, 1])])).drift = false := by
  rw [← Bool.not_eq_true, kswin_perm_rule _ _ _ _ (by simp) (by simp [older, newest, lastN])]
  norm_num

/-- `kswin_subset_only_real`: the same subset drawn in another order -/
example : (kfeed pReal ⟨0.05, 4, 2⟩ ([(1, []), (2, []), (3, [])] ++ [(4, [0, 1])])).drift
    = (kfeed pReal ⟨0.05, 4, 2⟩ ([(1, []), (2, []), (3, [])] ++ [(4, [1, 0])])).drift :=
  kswin_subset_only_real _ _ _ _ _ (by simp) (List.Perm.swap 1 0 [])

/-- `validTape_exists` for the default configuration (`min_num_instances = 100`, `num_test_instances = 30`) -/
example : ValidTape 30 (100 - 30) (List.range 30) := validTape_exists 30 100 (by norm_num)

/-- `stepd_threshold_form`: the strictly decreasing `sf t = 1 − t`, levels `0.003`, `0.05` attained at `0.997`, `0.95` -/
example := stepd_threshold_form (fun t : ℝ => 1 - t) (fun _ _ h => sub_lt_sub_left h 1) ⟨0.003, 0.05, 2⟩ (by simp)
  [true, false, true, true] (by simp) (by simp [specP, coOf, cwOf, lastN]; norm_num) 0.997 0.95 (by norm_num) (by norm_num)

/-- `stepd_monotone`: hypotheses satisfiable (same stream twice) -/
example := stepd_monotone (fun t : ℝ => 1 - t) (fun _ _ h => sub_le_sub_left h 1) ⟨0.003, 0.05, 2⟩ (by simp)
  [true, false, true, true] [true, false, true, true] (by simp) (by simp)
  (by simp [specP, coOf, cwOf, lastN]; norm_num) (by simp [specP, coOf, cwOf, lastN]; norm_num) (le_refl _)

/-- `stepd_degenerate_stream`: all predictions correct -/
example : specP 4 (coOf 2 [true, true, true, true]) (cwOf 2 [true, true, true, true])
    * (1 - specP 4 (coOf 2 [true, true, true, true]) (cwOf 2 [true, true, true, true])) = 0 :=
  ((stepd_degenerate_stream (⟨0.003, 0.05, 2⟩ : STEPD.Cfg ℝ) (by simp) [true, true, true, true] (by simp)).1).2
    (Or.inr (by simp))

end Examples

/- NOT PROVED / out of reach here (kept visible):
   * `sf` is never instantiated by the normal survival function `1 − Φ` (no `erf`/Gaussian CDF among the usable imports):
     `StrictAnti sf`, `sf(−∞) = 1`, `0 < sf < 1` and attainment of the levels remain HYPOTHESES of
     `stepd_threshold_form`; the link to `scipy.stats.norm().sf` is the differential harness only.
   * At `Float` the rounded quotient `ratioToFloat num den` of `pExactFloat` for `h > 0` is not characterised (only the
     `h = 0 ↦ 1.0` shortcut is); `kswin_ks_rule` is therefore stated for the exact fraction over ℝ.
   * K6 ("runs from the same seed agree"): the seed/RNG is outside the model (the tape is an input); not addressed. -/

/-! ## Axioms -/
#print axioms hTwoSided_self
#print axioms hTwoSided_of_perm
#print axioms pTwoSided_of_perm
#print axioms pTwoSided_self
#print axioms pReal_of_perm
#print axioms pReal_self
#print axioms pReal_mem_unit
#print axioms pReal_spec
#print axioms pReal_perm
#print axioms kswin_ks_rule
#print axioms kswin_perm_rule
#print axioms kswin_perm_rule_float
#print axioms kswin_subset_only
#print axioms kswin_subset_only_real
#print axioms kswin_subset_only_float
#print axioms kswin_const_ks
#print axioms validTape_exists
#print axioms stepd_monotone
#print axioms stepd_threshold_form
#print axioms stepd_threshold_form_reversed
#print axioms stepd_direction_witness
#print axioms degenerate_iff_counts
#print axioms degenerate_numerator_neg
#print axioms stepd_degenerate_stream

end Frouros.C06b
