/-
  C03 (part b) — EDDM follows its published rule; RDDM relates to DDM.

  EDDM (model `EDDM` in FrourosModel/SPC.lean)
  * any carrier `α`:  `eddm_step_err_stats`, `eddm_step_noerr`, `eddm_step_err_rule` (the decision table of
    one step, as Boolean equations), `flagInv_erun` (flags need `minMis` errors), `eddm_reachable_iff`
    (reachable = run of the values since the last reset);
  * `α = ℝ`:  `eddm_welford` (incremental statistics = closed forms over the list of distances),
    `eddm_rule` (the published rule in terms of those closed forms), `eddm_maxThr_running_max`,
    `eddm_maxThr_ge_one`, `eddm_rule_nodiv`.

  RDDM (models `RDDM`, `DDM`, queue `CQ`) — all for any carrier `α`:
  * `enqueue_spec`, `keepLast_spec` (circular queue refinement for `0 < maxLen`),
  * `rddm_eq_ddm_until_event`, `rddm_suffix`, `rddm_suffix_step`, `rddm_reset_rrun`, `rddm_reachable_iff`,
    and the `α = ℝ` witness `rddm_n_ne_ern_witness`.
-/
import Mathlib.Tactic
import FrourosProofs.RealNum
import FrourosProofs.Machines
namespace Frouros.C03b
open Frouros

/-! ## EDDM -/
section EDDMGeneric
variable {α : Type} [Num α]

/-- state after feeding the values `vs` (oldest first) to a fresh EDDM -/
def erun (c : EDDM.Cfg α) (vs : List α) : EDDM.State α := vs.foldl (EDDM.step c) EDDM.init

theorem erun_snoc (c : EDDM.Cfg α) (vs : List α) (v : α) : erun c (vs ++ [v]) = EDDM.step c (erun c vs) v := by
  simp [erun, List.foldl_append]

/-- the candidate threshold `mean + level * std` computed from a state -/
def thrOf (c : EDDM.Cfg α) (s : EDDM.State α) : α := s.mean + c.level * s.std

/-- Statistics fields after an error step (`v == 1`), any carrier: one Welford step on the
distance `n+1 - lastErr`; independent of the flags / threshold logic. -/
theorem eddm_step_err_stats (c : EDDM.Cfg α) (s : EDDM.State α) (v : α) (hv : Num.beq v (Num.one : α) = true) :
    let s' := EDDM.step c s v
    let d : α := Num.ofNat (s.n + 1 - s.lastErr)
    let mean' := s.mean + (d - s.mean) / Num.ofNat (s.numMis + 1)
    let var' := s.var + (d - mean') * (d - s.mean)
    s'.n = s.n + 1 ∧ s'.numMis = s.numMis + 1 ∧ s'.lastErr = s.n + 1 ∧ s'.oldMean = s.mean ∧
      s'.mean = mean' ∧ s'.var = var' ∧ s'.std = Num.sqrt (var' / Num.ofNat (s.numMis + 1)) := by
  unfold EDDM.step
  simp only [hv, if_true]
  split_ifs <;> simp

/-- A non-error step (`v != 1`) only counts the instance and clears the flags (any carrier). -/
theorem eddm_step_noerr (c : EDDM.Cfg α) (s : EDDM.State α) (v : α) (hv : Num.beq v (Num.one : α) = false) :
    EDDM.step c s v = { s with n := s.n + 1, drift := false, warning := false } := by
  unfold EDDM.step
  simp [hv]

/-- Decision table of an error step (`v == 1`), any carrier.  `T` is the new candidate threshold
`mean + level * std` (with the *updated* statistics). -/
theorem eddm_step_err_rule (c : EDDM.Cfg α) (s : EDDM.State α) (v : α) (hv : Num.beq v (Num.one : α) = true) :
    let s' := EDDM.step c s v
    let T := thrOf c s'
    (¬ c.minMis ≤ s.n + 1 → s'.maxThr = s.maxThr ∧ s'.drift = s.drift ∧ s'.warning = s.warning) ∧
    (c.minMis ≤ s.n + 1 →
      (s.maxThr = none → s'.maxThr = some T ∧ s'.drift = false ∧ s'.warning = false) ∧
      (∀ mx, s.maxThr = some mx → Num.gt T mx = true →
        s'.maxThr = some T ∧ s'.drift = false ∧ s'.warning = false) ∧
      (∀ mx, s.maxThr = some mx → Num.gt T mx = false →
        s'.maxThr = some mx ∧
        (c.minMis ≤ s.numMis + 1 →
          s'.drift = Num.lt (T / mx) c.beta ∧
          s'.warning = (!(Num.lt (T / mx) c.beta) && Num.lt (T / mx) c.alpha)) ∧
        (¬ c.minMis ≤ s.numMis + 1 → s'.drift = s.drift ∧ s'.warning = s.warning))) := by
  unfold EDDM.step thrOf
  simp only [hv, if_true]
  cases h : s.maxThr <;> split_ifs <;> simp_all

/-- bookkeeping invariant (any carrier): errors and the last error position never exceed the instance
count, and the flags can only be raised once `minMis` errors have been seen. -/
def FlagInv (c : EDDM.Cfg α) (s : EDDM.State α) : Prop :=
  s.numMis ≤ s.n ∧ s.lastErr ≤ s.n ∧ (s.numMis < c.minMis → s.drift = false ∧ s.warning = false)

theorem flagInv_init (c : EDDM.Cfg α) : FlagInv c (EDDM.init : EDDM.State α) := by
  simp [FlagInv, EDDM.init]

theorem flagInv_step (c : EDDM.Cfg α) (s : EDDM.State α) (v : α) (h : FlagInv c s) : FlagInv c (EDDM.step c s v) := by
  obtain ⟨h1, h2, h3⟩ := h
  cases hv : Num.beq v (Num.one : α)
  · rw [eddm_step_noerr c s v hv]; exact ⟨by simp only []; omega, by simp only []; omega, fun _ => ⟨rfl, rfl⟩⟩
  · obtain ⟨e1, e2, e3, -⟩ := eddm_step_err_stats c s v hv
    obtain ⟨r1, r2⟩ := eddm_step_err_rule c s v hv
    simp only [FlagInv, e1, e2, e3]
    refine ⟨by omega, le_refl _, fun hlt => ?_⟩
    have h3' := h3 (by omega)
    by_cases hn : c.minMis ≤ s.n + 1
    · obtain ⟨a, b, d⟩ := r2 hn
      cases hm : s.maxThr with
      | none => exact (a hm).2
      | some mx =>
        cases hg : Num.gt (thrOf c (EDDM.step c s v)) mx
        · have := (d mx hm hg).2.2 (by omega)
          rw [this.1, this.2]; exact h3'
        · exact (b mx hm hg).2
    · have := r1 hn
      rw [this.2.1, this.2.2]; exact h3'

theorem flagInv_erun (c : EDDM.Cfg α) (vs : List α) : FlagInv c (erun c vs) := by
  induction vs using List.reverseRecOn with
  | nil => exact flagInv_init c
  | append_singleton vs v ih => rw [erun_snoc]; exact flagInv_step c _ v ih

/-- Every reachable state of the EDDM machine (updates *and* resets) is the state after feeding the
values since the last reset to a fresh detector, so `eddm_welford`, `eddm_rule`, … apply to it. -/
theorem eddm_reachable_iff (c : EDDM.Cfg α) (s : EDDM.State α) :
    (EDDM.machine c).Reachable s ↔ ∃ vs, s = erun c vs := by
  constructor
  · intro h
    induction h with
    | init => exact ⟨[], rfl⟩
    | step v _ ih => obtain ⟨vs, rfl⟩ := ih; exact ⟨vs ++ [v], (erun_snoc c vs v).symm⟩
    | reset _ _ => exact ⟨[], rfl⟩
  · rintro ⟨vs, rfl⟩
    induction vs using List.reverseRecOn with
    | nil => exact Machine.Reachable.init
    | append_singleton vs v ih => rw [erun_snoc]; exact Machine.Reachable.step (M := EDDM.machine c) v ih

end EDDMGeneric

/-! ### EDDM at `α = ℝ`: the specification side -/
section EDDMReal

open Classical in
/-- 1-based positions `t_1 < t_2 < …` of the errors (`v = 1`) in the stream -/
noncomputable def errTimes (vs : List ℝ) : List ℕ :=
  ((vs.zipIdx 1).filter (fun p => decide (p.1 = 1))).map (·.2)

/-- successive differences `t_1 - prev, t_2 - t_1, …` (real subtraction: nothing is truncated) -/
def gapsFrom (prev : ℕ) : List ℕ → List ℝ
  | [] => []
  | t :: ts => ((t : ℝ) - (prev : ℝ)) :: gapsFrom t ts

/-- the distances between consecutive errors `d_1 = t_1 - 0, d_i = t_i - t_{i-1}` -/
noncomputable def dists (vs : List ℝ) : List ℝ := gapsFrom 0 (errTimes vs)

/-- arithmetic mean of a non-empty list -/
noncomputable def meanOf (D : List ℝ) : ℝ := D.sum / D.length
/-- sum of squared deviations from the mean -/
noncomputable def ssqOf (D : List ℝ) : ℝ := (D.map (fun d => (d - meanOf D) ^ 2)).sum
/-- population standard deviation -/
noncomputable def stdOf (D : List ℝ) : ℝ := Real.sqrt (ssqOf D / D.length)
/-- the published EDDM statistic `p' + level * s'` -/
noncomputable def thrSpec (level : ℝ) (D : List ℝ) : ℝ := meanOf D + level * stdOf D

theorem errTimes_nil : errTimes [] = [] := by simp [errTimes]

theorem errTimes_snoc (vs : List ℝ) (v : ℝ) :
    errTimes (vs ++ [v]) = if v = 1 then errTimes vs ++ [vs.length + 1] else errTimes vs := by
  unfold errTimes
  rw [List.zipIdx_append, List.filter_append, List.map_append]
  by_cases h : v = 1
  · simp [h, Nat.add_comm]
  · simp [h]

theorem gapsFrom_snoc (p : ℕ) (ts : List ℕ) (t : ℕ) :
    gapsFrom p (ts ++ [t]) = gapsFrom p ts ++ [(t : ℝ) - ((ts.getLastD p : ℕ) : ℝ)] := by
  induction ts generalizing p with
  | nil => simp [gapsFrom]
  | cons a ts ih =>
    simp only [List.cons_append, gapsFrom, ih a, List.cons.injEq, true_and]
    cases ts <;> rfl

theorem gapsFrom_length (p : ℕ) (ts : List ℕ) : (gapsFrom p ts).length = ts.length := by
  induction ts generalizing p with
  | nil => rfl
  | cons a ts ih => simp [gapsFrom, ih]

theorem dists_snoc_err (vs : List ℝ) :
    dists (vs ++ [1]) = dists vs ++ [((vs.length + 1 : ℕ) : ℝ) - (((errTimes vs).getLastD 0 : ℕ) : ℝ)] := by
  simp [dists, errTimes_snoc, gapsFrom_snoc]

theorem dists_snoc_noerr (vs : List ℝ) (v : ℝ) (h : v ≠ 1) : dists (vs ++ [v]) = dists vs := by
  simp [dists, errTimes_snoc, h]

theorem sum_sq_dev (D : List ℝ) (m : ℝ) :
    (D.map (fun d => (d - m) ^ 2)).sum = (D.map (fun d => d ^ 2)).sum - 2 * m * D.sum + D.length * m ^ 2 := by
  induction D with
  | nil => simp
  | cons a D ih => simp only [List.map_cons, List.sum_cons, List.length_cons, ih]; push_cast; ring

/-- Welford invariant relating the incremental fields to the list of distances -/
structure WInv (vs : List ℝ) (s : EDDM.State ℝ) : Prop where
  n_eq : s.n = vs.length
  k_eq : s.numMis = (dists vs).length
  last_eq : s.lastErr = (errTimes vs).getLastD 0
  last_le : s.lastErr ≤ s.n
  mean_eq : (s.numMis : ℝ) * s.mean = (dists vs).sum
  var_eq : s.var = ((dists vs).map (fun d => d ^ 2)).sum - s.numMis * s.mean ^ 2
  std_eq : s.std = Real.sqrt (s.var / s.numMis)
  old_eq : ∀ D0 d, dists vs = D0 ++ [d] → (D0.length : ℝ) * s.oldMean = D0.sum
  old0 : s.numMis ≤ 1 → s.oldMean = 0
  zero : s.numMis = 0 → s.mean = 0 ∧ s.var = 0 ∧ s.std = 0
  pos : ∀ d ∈ dists vs, 1 ≤ d

theorem wInv_init : WInv [] (EDDM.init : EDDM.State ℝ) := by
  constructor <;> simp [EDDM.init, dists, errTimes_nil, gapsFrom]

theorem wInv_step (c : EDDM.Cfg ℝ) (vs : List ℝ) (s : EDDM.State ℝ) (v : ℝ) (h : WInv vs s) :
    WInv (vs ++ [v]) (EDDM.step c s v) := by
  by_cases hv : v = 1
  · subst hv
    have hb : Num.beq (1 : ℝ) (Num.one : ℝ) = true := by simp
    obtain ⟨e1, e2, e3, e4, e5, e6, e7⟩ := eddm_step_err_stats c s 1 hb
    have hd : (Num.ofNat (s.n + 1 - s.lastErr) : ℝ) = ((vs.length + 1 : ℕ) : ℝ) - (((errTimes vs).getLastD 0 : ℕ) : ℝ) := by
      rw [RealNum.ofNat_eq, Nat.cast_sub (by have := h.last_le; omega), h.n_eq, h.last_eq]
    set d : ℝ := ((vs.length + 1 : ℕ) : ℝ) - (((errTimes vs).getLastD 0 : ℕ) : ℝ) with hd_def
    have hD : dists (vs ++ [1]) = dists vs ++ [d] := dists_snoc_err vs
    simp only [hd, RealNum.ofNat_eq, RealNum.sqrt_eq] at e5 e6 e7
    have hk : ((s.numMis + 1 : ℕ) : ℝ) ≠ 0 := by positivity
    have hmean : ((s.numMis + 1 : ℕ) : ℝ) * (EDDM.step c s 1).mean = (dists vs).sum + d := by
      rw [e5, ← h.mean_eq]; push_cast; field_simp; ring
    constructor
    · rw [e1, h.n_eq]; simp
    · rw [e2, h.k_eq, hD]; simp
    · rw [e3, h.n_eq, errTimes_snoc]; simp
    · rw [e3, e1]
    · rw [e2, hD, hmean]; simp
    · rw [e2, hD, e6, e5, h.var_eq]
      simp only [List.map_append, List.sum_append, List.map_cons, List.map_nil, List.sum_cons, List.sum_nil]
      push_cast; field_simp; ring
    · rw [e7, e2, e6]
    · intro D0 d0 hD0
      rw [hD] at hD0
      obtain ⟨rfl, -⟩ := List.append_inj' hD0 rfl
      rw [e4, ← h.k_eq, h.mean_eq]
    · intro h0; rw [e4]; rw [e2] at h0; exact (h.zero (by omega)).1
    · intro h0; rw [e2] at h0; omega
    · intro x hx
      rw [hD, List.mem_append, List.mem_singleton] at hx
      rcases hx with hx | rfl
      · exact h.pos x hx
      · have h1 := h.last_le
        have h2 : (errTimes vs).getLastD 0 ≤ vs.length := by rw [← h.last_eq, ← h.n_eq]; exact h1
        have h3 : (((errTimes vs).getLastD 0 : ℕ) : ℝ) ≤ (vs.length : ℝ) := by exact_mod_cast h2
        rw [hd_def]; push_cast; linarith
  · have hb : Num.beq v (Num.one : ℝ) = false := by
      rw [Bool.eq_false_iff]; simpa using hv
    rw [eddm_step_noerr c s v hb]
    have hD := dists_snoc_noerr vs v hv
    have hE : errTimes (vs ++ [v]) = errTimes vs := by simp [errTimes_snoc, hv]
    constructor <;> simp only [hD, hE]
    · rw [h.n_eq]; simp
    · exact h.k_eq
    · exact h.last_eq
    · have := h.last_le; omega
    · exact h.mean_eq
    · exact h.var_eq
    · exact h.std_eq
    · exact h.old_eq
    · exact h.old0
    · exact h.zero
    · exact h.pos

theorem wInv_erun (c : EDDM.Cfg ℝ) (vs : List ℝ) : WInv vs (erun c vs) := by
  induction vs using List.reverseRecOn with
  | nil => exact wInv_init
  | append_singleton vs v ih => rw [erun_snoc]; exact wInv_step c vs _ v ih

theorem gapsFrom_sum (p : ℕ) (ts : List ℕ) : (gapsFrom p ts).sum = ((ts.getLastD p : ℕ) : ℝ) - (p : ℝ) := by
  induction ts generalizing p with
  | nil => simp [gapsFrom]
  | cons a ts ih =>
    simp only [gapsFrom, List.sum_cons, ih a]
    have : (a :: ts).getLastD p = ts.getLastD a := by cases ts <;> rfl
    rw [this]; ring

/-- **C03b / `eddm_welford`.**  After any stream `vs` fed to a fresh EDDM (real arithmetic), with
`D = dists vs` the distances between consecutive errors (`d_1 = t_1`, `d_i = t_i - t_{i-1}`):
`n` is the stream length, `numMis = |D|`, `lastErr` is the position of the last error (`0` if none),
which is also `Σ D`; every distance is `≥ 1` (so the model's truncated `n - lastErr` never truncates);
with no error yet all statistics are still `0`; otherwise `mean` is the arithmetic mean of `D`, `var`
the sum of squared deviations from that mean, `std = √(var/|D|)`, and `oldMean` the mean of all but
the last distance (`0` when there is only one).  No hypothesis is needed; the `D ≠ []` split only
keeps the division `Σ D / |D|` away from `|D| = 0`. -/
theorem eddm_welford (c : EDDM.Cfg ℝ) (vs : List ℝ) :
    let s := erun c vs
    let D := dists vs
    s.n = vs.length ∧ s.numMis = D.length ∧ s.lastErr = (errTimes vs).getLastD 0 ∧ (s.lastErr : ℝ) = D.sum ∧
    (∀ d ∈ D, 1 ≤ d) ∧
    (D = [] → s.mean = 0 ∧ s.var = 0 ∧ s.std = 0 ∧ s.oldMean = 0) ∧
    (D ≠ [] → s.mean = meanOf D ∧ s.var = ssqOf D ∧ s.std = stdOf D ∧
      s.oldMean = if D.length = 1 then 0 else meanOf D.dropLast) := by
  intro s D
  have h : WInv vs s := wInv_erun c vs
  have hk : s.numMis = D.length := h.k_eq
  have hsum : (s.lastErr : ℝ) = D.sum := by
    show _ = (gapsFrom 0 (errTimes vs)).sum
    rw [gapsFrom_sum, ← h.last_eq]; simp
  refine ⟨h.n_eq, hk, h.last_eq, hsum, h.pos, ?_, ?_⟩
  · intro hD
    have h0 : s.numMis = 0 := by rw [hk, hD]; rfl
    obtain ⟨a, b, d⟩ := h.zero h0
    exact ⟨a, b, d, h.old0 (by omega)⟩
  · intro hD
    have hlen : D.length ≠ 0 := fun h0 => hD (List.length_eq_zero_iff.mp h0)
    have hlenR : (D.length : ℝ) ≠ 0 := by exact_mod_cast hlen
    have hmean : s.mean = meanOf D := by
      have := h.mean_eq
      rw [hk] at this
      unfold meanOf; field_simp; linarith
    have hvar : s.var = ssqOf D := by
      rw [h.var_eq, ssqOf, sum_sq_dev, ← hmean, hk]
      have := h.mean_eq
      rw [hk] at this
      show _ = (D.map fun d => d ^ 2).sum - 2 * s.mean * D.sum + (D.length : ℝ) * s.mean ^ 2
      rw [← this]; ring
    refine ⟨hmean, hvar, ?_, ?_⟩
    · rw [h.std_eq, hvar, hk]; rfl
    · split_ifs with h1
      · exact h.old0 (by omega)
      · obtain ⟨D0, d, hD0⟩ : ∃ D0 d, D = D0 ++ [d] := ⟨D.dropLast, D.getLast hD, (List.dropLast_append_getLast hD).symm⟩
        have hold := h.old_eq D0 d hD0
        have hD0len : D0.length ≠ 0 := by
          intro h0; apply h1; rw [hD0]; simp [h0]
        have : D.dropLast = D0 := by rw [hD0]; simp
        rw [this]; unfold meanOf
        have : (D0.length : ℝ) ≠ 0 := by exact_mod_cast hD0len
        field_simp; linarith

/-- after an error the model's candidate threshold is the published statistic of the distances -/
theorem thrOf_erun (c : EDDM.Cfg ℝ) (vs : List ℝ) (h : dists vs ≠ []) :
    thrOf c (erun c vs) = thrSpec c.level (dists vs) := by
  obtain ⟨-, -, -, -, -, -, h7⟩ := eddm_welford c vs
  obtain ⟨hm, -, hs, -⟩ := h7 h
  simp only [thrOf, thrSpec, hm, hs]

/-- **C03b / `eddm_rule`.**  One more value `v` after any stream `vs` (fresh EDDM, real arithmetic).
`T = mean + level * std` of all distances including the new one (`thrSpec`), `D'` those distances.
* non-error step: both flags off, `maxThr` unchanged;
* error step before `minMis` instances: flags off, `maxThr` unchanged;
* error step with `minMis ≤ n`: if `maxThr` is unset (`-inf`) or `T > maxThr` (strict) then `maxThr := T`
  and flags off; otherwise `maxThr` is kept and, once `minMis` errors were seen,
  `drift ⇔ T/maxThr < beta`, `warning ⇔ ¬drift ∧ T/maxThr < alpha`; with fewer errors the flags are off.
The "flags off" facts in the two `else s` branches of the model (which keep the *previous* flags) rely on
the reachable-state invariant `FlagInv`.  The division `T / mx` is the one the code performs;
`eddm_maxThr_ge_one` shows `mx ≥ 1` whenever `0 ≤ level`, so it is a genuine division then
(see `eddm_rule_nodiv`). -/
theorem eddm_rule (c : EDDM.Cfg ℝ) (vs : List ℝ) (v : ℝ) :
    let s := erun c vs
    let s' := erun c (vs ++ [v])
    let D' := dists (vs ++ [v])
    let T := thrSpec c.level D'
    (v ≠ 1 → s'.drift = false ∧ s'.warning = false ∧ s'.maxThr = s.maxThr) ∧
    (v = 1 →
      (vs.length + 1 < c.minMis → s'.drift = false ∧ s'.warning = false ∧ s'.maxThr = s.maxThr) ∧
      (c.minMis ≤ vs.length + 1 →
        (s.maxThr = none → s'.maxThr = some T ∧ s'.drift = false ∧ s'.warning = false) ∧
        (∀ mx, s.maxThr = some mx → mx < T → s'.maxThr = some T ∧ s'.drift = false ∧ s'.warning = false) ∧
        (∀ mx, s.maxThr = some mx → T ≤ mx →
          s'.maxThr = some mx ∧
          (c.minMis ≤ D'.length →
            (s'.drift = true ↔ T / mx < c.beta) ∧
            (s'.warning = true ↔ ¬ T / mx < c.beta ∧ T / mx < c.alpha)) ∧
          (D'.length < c.minMis → s'.drift = false ∧ s'.warning = false)))) := by
  intro s s' D' T
  have hs' : s' = EDDM.step c s v := erun_snoc c vs v
  have hF : FlagInv c s := flagInv_erun c vs
  have hW : WInv vs s := wInv_erun c vs
  obtain ⟨f1, f2, f3⟩ := hF
  constructor
  · intro hv
    have hb : Num.beq v (Num.one : ℝ) = false := by rw [Bool.eq_false_iff]; simpa using hv
    rw [hs', eddm_step_noerr c s v hb]
    exact ⟨rfl, rfl, rfl⟩
  · intro hv
    subst hv
    have hb : Num.beq (1 : ℝ) (Num.one : ℝ) = true := by simp
    have hD' : D' = dists vs ++ [_] := dists_snoc_err vs
    have hne : D' ≠ [] := by rw [hD']; simp
    have hlen : D'.length = s.numMis + 1 := by rw [hD', hW.k_eq]; simp
    have hT : thrOf c s' = T := thrOf_erun c (vs ++ [1]) hne
    obtain ⟨r1, r2⟩ := eddm_step_err_rule c s 1 hb
    rw [← hs', hW.n_eq] at r1
    rw [← hs', hT, hW.n_eq] at r2
    constructor
    · intro hlt
      obtain ⟨a, b, d⟩ := r1 (by omega)
      have := f3 (by have := hW.n_eq; omega)
      exact ⟨by rw [b, this.1], by rw [d, this.2], a⟩
    · intro hle
      obtain ⟨a, b, d⟩ := r2 hle
      refine ⟨a, fun mx hmx hlt => b mx hmx (by simpa using hlt), fun mx hmx hle' => ?_⟩
      obtain ⟨d1, d2, d3⟩ := d mx hmx (by simpa using hle')
      refine ⟨d1, fun hk => ?_, fun hk => ?_⟩
      · obtain ⟨x, y⟩ := d2 (by omega)
        constructor
        · rw [x]; simp
        · rw [y]; simp
      · obtain ⟨x, y⟩ := d3 (by omega)
        have := f3 (by omega)
        exact ⟨by rw [x, this.1], by rw [y, this.2]⟩

open Classical in
/-- The thresholds `T_j` of the *eligible* error steps of a stream, in order: one for every prefix `p`
that ends in an error and has `minMis ≤ |p|`, computed non-incrementally from the distances of `p`. -/
noncomputable def eligThr (c : EDDM.Cfg ℝ) (vs : List ℝ) : List ℝ :=
  (vs.inits.filter (fun p => decide (p.getLast? = some 1 ∧ c.minMis ≤ p.length))).map
    (fun p => thrSpec c.level (dists p))

theorem eligThr_snoc (c : EDDM.Cfg ℝ) (vs : List ℝ) (v : ℝ) :
    eligThr c (vs ++ [v]) =
      eligThr c vs ++ (if v = 1 ∧ c.minMis ≤ vs.length + 1 then [thrSpec c.level (dists (vs ++ [v]))] else []) := by
  unfold eligThr
  rw [List.inits_append, List.filter_append, List.map_append]
  congr 1
  by_cases h : v = 1 ∧ c.minMis ≤ vs.length + 1
  · simp [h]
  · simp [h]

/-- **C03b / `eddm_maxThr_running_max`.**  In every state reached from `init`, `maxThr` is the running
maximum of the thresholds of the eligible error steps: unset iff there was none, otherwise it is one
of them and dominates all of them. -/
theorem eddm_maxThr_running_max (c : EDDM.Cfg ℝ) (vs : List ℝ) :
    ((erun c vs).maxThr = none ↔ eligThr c vs = []) ∧
    (∀ mx, (erun c vs).maxThr = some mx → mx ∈ eligThr c vs ∧ ∀ T ∈ eligThr c vs, T ≤ mx) := by
  induction vs using List.reverseRecOn with
  | nil => simp [erun, EDDM.init, eligThr]
  | append_singleton vs v ih =>
    obtain ⟨ih1, ih2⟩ := ih
    obtain ⟨r1, r2⟩ := eddm_rule c vs v
    rw [eligThr_snoc]
    by_cases hv : v = 1
    · obtain ⟨r3, r4⟩ := r2 hv
      by_cases hn : c.minMis ≤ vs.length + 1
      · obtain ⟨a, b, d⟩ := r4 hn
        simp only [hv, hn, and_self, if_true]
        subst hv
        cases hm : (erun c vs).maxThr with
        | none =>
          obtain ⟨a1, -, -⟩ := a hm
          have he := ih1.mp hm
          rw [a1, he]; simp
        | some mx =>
          obtain ⟨i1, i2⟩ := ih2 mx hm
          rcases lt_or_ge mx (thrSpec c.level (dists (vs ++ [1]))) with hlt | hge
          · obtain ⟨b1, -, -⟩ := b mx hm hlt
            rw [b1]
            refine ⟨by simp, fun m hm' => ?_⟩
            obtain rfl : thrSpec c.level (dists (vs ++ [1])) = m := by simpa using hm'
            refine ⟨by simp, fun T hT => ?_⟩
            rcases List.mem_append.mp hT with hT | hT
            · exact le_trans (i2 T hT) (le_of_lt hlt)
            · simp at hT; rw [hT]
          · obtain ⟨d1, -, -⟩ := d mx hm hge
            rw [d1]
            refine ⟨by simp, fun m hm' => ?_⟩
            obtain rfl : mx = m := by simpa using hm'
            refine ⟨List.mem_append_left _ i1, fun T hT => ?_⟩
            rcases List.mem_append.mp hT with hT | hT
            · exact i2 T hT
            · simp at hT; rw [hT]; exact hge
      · have h3 := (r3 (by omega)).2.2
        simp only [hn, and_false, if_false, List.append_nil, h3]
        exact ⟨ih1, ih2⟩
    · have h3 := (r1 hv).2.2
      simp only [hv, false_and, if_false, List.append_nil, h3]
      exact ⟨ih1, ih2⟩

theorem meanOf_ge_one (D : List ℝ) (hne : D ≠ []) (h : ∀ d ∈ D, 1 ≤ d) : 1 ≤ meanOf D := by
  have hlen : (0 : ℝ) < D.length := by
    have : D.length ≠ 0 := fun h0 => hne (List.length_eq_zero_iff.mp h0)
    exact_mod_cast Nat.pos_of_ne_zero this
  have hsum : (D.length : ℝ) ≤ D.sum := by
    clear hne hlen
    induction D with
    | nil => simp
    | cons a D ih =>
      have := ih (fun d hd => h d (List.mem_cons_of_mem _ hd))
      have ha := h a (List.mem_cons_self)
      simp only [List.length_cons, List.sum_cons]; push_cast; linarith
  unfold meanOf
  rw [le_div_iff₀ hlen]; linarith

/-- every eligible threshold is `≥ 1` when `level ≥ 0` (mean distance `≥ 1`, `std ≥ 0`) -/
theorem eligThr_ge_one (c : EDDM.Cfg ℝ) (hl : 0 ≤ c.level) (vs : List ℝ) : ∀ T ∈ eligThr c vs, 1 ≤ T := by
  intro T hT
  simp only [eligThr, List.mem_map, List.mem_filter, decide_eq_true_eq] at hT
  obtain ⟨p, ⟨-, hlast, -⟩, rfl⟩ := hT
  obtain ⟨q, rfl⟩ : ∃ q, p = q ++ [1] := by
    rcases List.eq_nil_or_concat p with rfl | ⟨q, x, rfl⟩
    · simp at hlast
    · simp at hlast; exact ⟨q, by rw [hlast]; simp⟩
  have hne : dists (q ++ [1]) ≠ [] := by rw [dists_snoc_err]; simp
  obtain ⟨-, -, -, -, hpos, -, -⟩ := eddm_welford c (q ++ [1])
  have h1 := meanOf_ge_one _ hne hpos
  have h2 : 0 ≤ stdOf (dists (q ++ [1])) := Real.sqrt_nonneg _
  unfold thrSpec
  nlinarith [mul_nonneg hl h2]

/-- **C03b / `eddm_maxThr_ge_one`.**  With `0 ≤ level`, a set `maxThr` is `≥ 1`, so the division
`T / maxThr` of the EDDM rule never divides by zero (nor by a negative number). -/
theorem eddm_maxThr_ge_one (c : EDDM.Cfg ℝ) (hl : 0 ≤ c.level) (vs : List ℝ) (mx : ℝ)
    (h : (erun c vs).maxThr = some mx) : 1 ≤ mx :=
  eligThr_ge_one c hl vs mx ((eddm_maxThr_running_max c vs).2 mx h).1

/-- **C03b / `eddm_rule_nodiv`.**  The test of the rule with the division cleared (`0 ≤ level`):
at an error step that does not raise `maxThr = mx`, with `minMis ≤ n` and `minMis ≤ numMis`,
`drift ⇔ T < beta * mx` and `warning ⇔ beta * mx ≤ T < alpha * mx`. -/
theorem eddm_rule_nodiv (c : EDDM.Cfg ℝ) (hl : 0 ≤ c.level) (vs : List ℝ) (mx : ℝ)
    (hmx : (erun c vs).maxThr = some mx)
    (hT : thrSpec c.level (dists (vs ++ [1])) ≤ mx)
    (hn : c.minMis ≤ vs.length + 1) (hk : c.minMis ≤ (dists (vs ++ [1])).length) :
    1 ≤ mx ∧
    ((erun c (vs ++ [1])).drift = true ↔ thrSpec c.level (dists (vs ++ [1])) < c.beta * mx) ∧
    ((erun c (vs ++ [1])).warning = true ↔
      c.beta * mx ≤ thrSpec c.level (dists (vs ++ [1])) ∧ thrSpec c.level (dists (vs ++ [1])) < c.alpha * mx) := by
  have h1 := eddm_maxThr_ge_one c hl vs mx hmx
  have hpos : 0 < mx := by linarith
  obtain ⟨-, r2⟩ := eddm_rule c vs 1
  obtain ⟨-, r4⟩ := r2 rfl
  obtain ⟨-, -, d⟩ := r4 hn
  obtain ⟨-, d2, -⟩ := d mx hmx hT
  obtain ⟨x, y⟩ := d2 hk
  refine ⟨h1, ?_, ?_⟩
  · rw [x, div_lt_iff₀ hpos]
  · rw [y, div_lt_iff₀ hpos, div_lt_iff₀ hpos, not_lt]

/-! non-vacuity: concrete instances -/
example : errTimes [1, 0, 1, 0, 0, 1] = [1, 3, 6] := by
  simp [errTimes, List.zipIdx]
example : dists [1, 0, 1, 0, 0, 1] = [1, 2, 3] := by
  have : errTimes [1, 0, 1, 0, 0, 1] = [1, 3, 6] := by simp [errTimes, List.zipIdx]
  simp only [dists, this, gapsFrom]; norm_num
example : meanOf [1, 2, 3] = 2 ∧ ssqOf [1, 2, 3] = 2 := by
  have h : meanOf [1, 2, 3] = 2 := by norm_num [meanOf]
  refine ⟨h, ?_⟩
  rw [ssqOf, h]; norm_num
/-- a stream on which all hypotheses of `eddm_rule_nodiv` hold: `level = 0`, `minMis = 1`, stream `0,1`
(one error at distance 2, `maxThr = 2`) followed by an error at distance 1 (`T = 1.5 ≤ 2`). -/
example : let c : EDDM.Cfg ℝ := ⟨0.95, 0.9, 0, 1⟩
    (erun c [0, 1]).maxThr = some 2 ∧ thrSpec c.level (dists ([0, 1] ++ [1])) ≤ 2 ∧
    c.minMis ≤ [0, (1 : ℝ)].length + 1 ∧ c.minMis ≤ (dists ([0, 1] ++ [1])).length ∧ 0 ≤ c.level := by
  intro c
  have e : errTimes [0, 1, 1] = [2, 3] := by simp [errTimes, List.zipIdx]
  have d : dists ([0, 1] ++ [1]) = [2, 1] := by
    simp only [List.cons_append, List.nil_append, dists, e, gapsFrom]; norm_num
  refine ⟨?_, ?_, ?_, ?_, ?_⟩
  · simp [c, erun, EDDM.step, EDDM.init]
  · rw [d]; norm_num [c, thrSpec, meanOf]
  · simp [c]
  · rw [d]; simp [c]
  · simp [c]

end EDDMReal

/-! ## The circular queue (facts needed for RDDM), for `0 < maxLen` -/
section Queue
variable {β : Type}

/-- representation invariant of `CQ` -/
structure QWF (q : CQ β) : Prop where
  pos : 0 < q.maxLen
  len : q.buf.length = q.maxLen
  cnt : q.count ≤ q.maxLen
  fst : q.first < q.maxLen
  nxt : q.nextLast = (q.first + q.count) % q.maxLen
  lst : ∀ l, q.last = some l → l < q.maxLen

theorem qwf_init (n : ℕ) (h : 0 < n) : QWF (CQ.init n : CQ β) := by
  constructor <;> simp [CQ.init, CQ.nextLast, h]

theorem qwf_clear (q : CQ β) (h : QWF q) : QWF q.clear := by
  have := h.pos
  constructor <;> simp [CQ.clear, CQ.nextLast, this]

theorem add_mod_inj {m f i j : ℕ} (hi : i < m) (hj : j < m) (h : (f + i) % m = (f + j) % m) : i = j := by
  have h1 : i ≡ j [MOD m] := Nat.ModEq.add_left_cancel' f h
  have h2 : i % m = j % m := h1
  rwa [Nat.mod_eq_of_lt hi, Nat.mod_eq_of_lt hj] at h2

theorem toList_length (q : CQ β) : q.toList.length = q.count := by simp [CQ.toList]

theorem range_map_tail {γ : Type} (f : ℕ → γ) (m : ℕ) :
    ((List.range m).map f).tail = (List.range (m - 1)).map (fun i => f (i + 1)) := by
  cases m with
  | zero => rfl
  | succ k => simp [List.range_succ_eq_map, List.map_map, Function.comp_def]

theorem range_map_last {γ : Type} (f : ℕ → γ) (m : ℕ) (h : 0 < m) :
    (List.range m).map f = (List.range (m - 1)).map f ++ [f (m - 1)] := by
  cases m with
  | zero => omega
  | succ k => simp [List.range_succ]

/-- `enqueue` on a well-formed queue never raises; it appends the value, evicting the oldest element
exactly when the queue was full. -/
theorem enqueue_spec (q : CQ β) (v : β) (h : QWF q) :
    ∃ e q', q.enqueue v = .ok (e, q') ∧ QWF q' ∧ q'.maxLen = q.maxLen ∧ (∃ l, q'.last = some l) ∧
      (q.count < q.maxLen → q'.count = q.count + 1 ∧ q'.toList = q.toList ++ [some v]) ∧
      (q.count = q.maxLen → q'.count = q.count ∧ q'.toList = q.toList.tail ++ [some v]) := by
  obtain ⟨hpos, hlen, hcnt, hfst, hnxt, -⟩ := h
  have hl : q.nextLast < q.maxLen := by rw [hnxt]; exact Nat.mod_lt _ hpos
  have hm0 : ¬ q.maxLen = 0 := by omega
  by_cases hfull : q.count = q.maxLen
  · -- full: evict then insert at `first`
    have hnl : q.nextLast = q.first := by
      rw [hnxt, hfull, Nat.add_mod_right, Nat.mod_eq_of_lt hfst]
    have hc : q.count - 1 + 1 = q.maxLen := by omega
    refine ⟨q.buf.getD q.first none,
      { q with first := (q.first + 1) % q.maxLen, count := q.count - 1 + 1, last := some q.nextLast,
               buf := q.buf.set q.nextLast (some v) }, ?_, ?_, rfl, ⟨_, rfl⟩, fun hlt => by omega, fun _ => ?_⟩
    · simp [CQ.enqueue, CQ.isFull, CQ.dequeue, CQ.isEmpty, hfull, hm0, CQ.nextLast]
    · constructor
      · exact hpos
      · simp [hlen]
      · simp only []; omega
      · exact Nat.mod_lt _ hpos
      · show (q.nextLast + 1) % q.maxLen = ((q.first + 1) % q.maxLen + (q.count - 1 + 1)) % q.maxLen
        rw [hc, Nat.add_mod_right, Nat.mod_mod, hnl]
      · intro l hl'; simp only [Option.some.injEq] at hl'; rw [← hl']; exact hl
    · refine ⟨by simp only []; omega, ?_⟩
      simp only [CQ.toList, hfull, hnl]
      rw [range_map_tail, List.range_succ, List.map_append, List.map_cons, List.map_nil]
      congr 1
      · apply List.map_congr_left
        intro i hi
        rw [List.mem_range] at hi
        have hidx : ((q.first + 1) % q.maxLen + i) % q.maxLen = (q.first + (i + 1)) % q.maxLen := by
          rw [Nat.add_mod, Nat.mod_mod, ← Nat.add_mod]; congr 1; omega
        have hneq : (q.first + (i + 1)) % q.maxLen ≠ q.first := by
          intro heq
          have : (q.first + (i + 1)) % q.maxLen = (q.first + 0) % q.maxLen := by
            rw [heq, Nat.add_zero, Nat.mod_eq_of_lt hfst]
          have := add_mod_inj (by omega) hpos this
          omega
        simp only [hidx, List.getD_eq_getElem?_getD]
        rw [List.getElem?_set_ne (Ne.symm hneq)]
      · have hidx : ((q.first + 1) % q.maxLen + (q.maxLen - 1)) % q.maxLen = q.first := by
          rw [Nat.add_mod, Nat.mod_mod, ← Nat.add_mod]
          have : q.first + 1 + (q.maxLen - 1) = q.first + q.maxLen := by omega
          rw [this, Nat.add_mod_right, Nat.mod_eq_of_lt hfst]
        simp only [hidx, List.getD_eq_getElem?_getD]
        rw [List.getElem?_set_self (by omega)]; rfl
  · -- not full: insert at `nextLast`
    have hlt : q.count < q.maxLen := by omega
    refine ⟨none, { q with last := some q.nextLast, buf := q.buf.set q.nextLast (some v), count := q.count + 1 },
      ?_, ?_, rfl, ⟨_, rfl⟩, fun _ => ⟨rfl, ?_⟩, fun h' => absurd h' hfull⟩
    · simp [CQ.enqueue, CQ.isFull, hfull]
    · constructor
      · exact hpos
      · simp [hlen]
      · exact hlt
      · exact hfst
      · show (q.nextLast + 1) % q.maxLen = (q.first + (q.count + 1)) % q.maxLen
        rw [hnxt, Nat.add_mod, Nat.mod_mod, ← Nat.add_mod, Nat.add_assoc]
      · intro l hl'; simp only [Option.some.injEq] at hl'; rw [← hl']; exact hl
    · simp only [CQ.toList, List.range_succ, List.map_append, List.map_cons, List.map_nil]
      congr 1
      · apply List.map_congr_left
        intro i hi
        rw [List.mem_range] at hi
        have hneq : (q.first + i) % q.maxLen ≠ q.nextLast := by
          rw [hnxt]; intro heq
          have := add_mod_inj (by omega) hlt heq
          omega
        simp only [List.getD_eq_getElem?_getD]
        rw [List.getElem?_set_ne (Ne.symm hneq)]
      · simp only [← hnxt, List.getD_eq_getElem?_getD]
        rw [List.getElem?_set_self (by omega)]; rfl

/-- `maintain_last_element` on a well-formed non-empty queue that has been written to: never raises and
keeps exactly the newest element. -/
theorem keepLast_spec (q : CQ β) (h : QWF q) (hc : 1 ≤ q.count) (hl : ∃ l, q.last = some l) :
    ∃ q', q.keepLast = .ok q' ∧ QWF q' ∧ q'.maxLen = q.maxLen ∧ q'.count = 1 ∧
      ∀ pre x, q.toList = pre ++ [x] → q'.toList = [x] := by
  obtain ⟨hpos, hlen, hcnt, hfst, hnxt, hlst⟩ := h
  obtain ⟨l, hl⟩ := hl
  have hlm := hlst l hl
  have hc0 : ¬ q.count = 0 := by omega
  refine ⟨{ q with first := l, count := 1 }, ?_, ?_, rfl, rfl, ?_⟩
  · simp [CQ.keepLast, CQ.isEmpty, hc0, hl]
  · constructor
    · exact hpos
    · exact hlen
    · exact hpos
    · exact hlm
    · show q.nextLast = (l + 1) % q.maxLen
      simp [CQ.nextLast, hl]
    · exact hlst
  · intro pre x hx
    have hnl : (l + 1) % q.maxLen = (q.first + q.count) % q.maxLen := by
      rw [← hnxt]; simp [CQ.nextLast, hl]
    have h1 : l ≡ q.first + (q.count - 1) [MOD q.maxLen] := by
      apply Nat.ModEq.add_right_cancel' 1
      have : q.first + (q.count - 1) + 1 = q.first + q.count := by omega
      rw [this]; exact hnl
    have h2 : l = (q.first + (q.count - 1)) % q.maxLen := by
      have := h1
      unfold Nat.ModEq at this
      rwa [Nat.mod_eq_of_lt hlm] at this
    have h3 : q.toList = (List.range (q.count - 1)).map (fun i => q.buf.getD ((q.first + i) % q.maxLen) none) ++
        [q.buf.getD ((q.first + (q.count - 1)) % q.maxLen) none] := by
      unfold CQ.toList; exact range_map_last _ _ (by omega)
    rw [h3] at hx
    obtain ⟨-, hx'⟩ := List.append_inj' hx rfl
    simp only [List.cons.injEq, and_true] at hx'
    simp [CQ.toList, ← hx', ← h2, Nat.mod_eq_of_lt hlm]

end Queue

/-! ## RDDM -/
section RDDM
variable {α : Type} [Num α]

/-- state after feeding `vs` to a fresh RDDM / DDM -/
def rrun (c : RDDM.Cfg α) (vs : List α) : RDDM.State α := vs.foldl (RDDM.step c) (RDDM.init c)
def drun (c : DDM.Cfg α) (vs : List α) : DDM.State α := vs.foldl (DDM.step c) DDM.init
/-- the DDM configuration embedded in an RDDM configuration -/
def toDDM (c : RDDM.Cfg α) : DDM.Cfg α := ⟨c.warn, c.drift, c.minN⟩

theorem rrun_snoc (c : RDDM.Cfg α) (vs : List α) (v : α) : rrun c (vs ++ [v]) = RDDM.step c (rrun c vs) v := by
  simp [rrun, List.foldl_append]
theorem drun_snoc (c : DDM.Cfg α) (vs : List α) (v : α) : drun c (vs ++ [v]) = DDM.step c (drun c vs) v := by
  simp [drun, List.foldl_append]

omit [Num α] in
/-- `keepLast` touches only the queue (or the error flag) -/
theorem keepLast_ok (s : RDDM.State α) (q2 : CQ α) (h : s.preds.keepLast = .ok q2) :
    RDDM.keepLast s = { s with preds := q2 } := by
  simp [RDDM.keepLast, h]

/-- the warning-limit event of a step: past warm-up, drift level not exceeded, warning level exceeded, and
`maxWarn` consecutive warnings already counted -/
def warnLimitEvent (c : RDDM.Cfg α) (n : ℕ) (er : Mean α) (m : Option (α × α)) (numWarnings : ℕ) : Bool :=
  decide (c.minN ≤ n) && !DDM.exceeds (DDM.epsStd er n).1 m c.drift &&
    DDM.exceeds (DDM.epsStd er n).1 m c.warn && decide (c.maxWarn ≤ numWarnings)

/-- One step of RDDM (no pending rebuild, queue operations succeed) against one step of DDM from a state
agreeing on `n`, `er`, `minPS`. -/
theorem rddm_step_vs_ddm (c : RDDM.Cfg α) (s0 : RDDM.State α) (d0 : DDM.State α) (v : α)
    (e : Option α) (q1 q2 : CQ α)
    (hr : s0.rddmDrift = false) (h1 : s0.preds.enqueue v = .ok (e, q1)) (h2 : q1.keepLast = .ok q2)
    (hn : s0.n = d0.n) (her : s0.er = d0.er) (hm : s0.minPS = d0.minPS) :
    let s' := RDDM.step c s0 v
    let d' := DDM.step (toDDM c) d0 v
    s'.n = d'.n ∧ s'.er = d'.er ∧ s'.minPS = d'.minPS ∧ s'.err = s0.err ∧ (s'.preds = q1 ∨ s'.preds = q2) ∧
    s'.n = s0.n + 1 ∧ s'.er = s0.er.update v ∧
    (if warnLimitEvent c (s0.n + 1) (s0.er.update v) d'.minPS s0.numWarnings then
      s'.drift = true ∧ s'.warning = false ∧ d'.drift = false ∧ d'.warning = true
     else s'.drift = d'.drift ∧ s'.warning = d'.warning) := by
  unfold RDDM.step DDM.step warnLimitEvent toDDM
  simp only [hr, h1, ← hn, ← her, ← hm, Bool.false_eq_true, if_false]
  split_ifs <;> simp_all [keepLast_ok] <;> omega

/-- the state on which the body of `RDDM.step` works: instance counted and, if an event is pending
(`rddmDrift`), statistics rebuilt from the stored predictions -/
def pre (c : RDDM.Cfg α) (s0 : RDDM.State α) : RDDM.State α :=
  if s0.rddmDrift then RDDM.rebuild c { s0 with n := s0.n + 1 } else { s0 with n := s0.n + 1 }

theorem pre_preds (c : RDDM.Cfg α) (s0 : RDDM.State α) :
    (pre c s0).preds = s0.preds ∧ (pre c s0).err = s0.err := by
  unfold pre RDDM.rebuild
  split_ifs <;> simp

/-- what one step does to the queue, the error flag, `er` and `n` (queue operations succeeding) -/
theorem rddm_step_general (c : RDDM.Cfg α) (s0 : RDDM.State α) (v : α) (e : Option α) (q1 q2 : CQ α)
    (h1 : s0.preds.enqueue v = .ok (e, q1)) (h2 : q1.keepLast = .ok q2) :
    let s' := RDDM.step c s0 v
    s'.err = s0.err ∧ (s'.preds = q1 ∨ s'.preds = q2) ∧ s'.er = (pre c s0).er.update v ∧ s'.n = (pre c s0).n := by
  have hp := pre_preds c s0
  have h1' : (pre c s0).preds.enqueue v = .ok (e, q1) := by rw [hp.1]; exact h1
  have hstep : RDDM.step c s0 v = (match (pre c s0).preds.enqueue v with
      | .error e => { pre c s0 with err := some e }
      | .ok (_, q) =>
        let s := { pre c s0 with preds := q, er := (pre c s0).er.update v }
        if c.minN ≤ s.n then
          let (eps, std) := DDM.epsStd s.er s.n
          let m := if DDM.belowMin eps s.minPS then some (s.er.mean, std) else s.minPS
          let s := { s with minPS := m }
          if DDM.exceeds eps m c.drift then
            let s := { s with rddmDrift := true, drift := true, warning := false }
            if s.numWarnings == 0 then RDDM.keepLast s else s
          else
            let s :=
              if DDM.exceeds eps m c.warn then
                if c.maxWarn ≤ s.numWarnings then
                  RDDM.keepLast { s with rddmDrift := true, drift := true, warning := false }
                else
                  { s with warning := true, numWarnings := s.numWarnings + 1, drift := false }
              else
                { s with drift := false, warning := false, numWarnings := 0 }
            if decide (c.maxConcept ≤ s.n) && !s.warning then { s with rddmDrift := true } else s
        else
          { s with drift := false, warning := false }) := rfl
  rw [hstep, h1']
  simp only [← hp.2]
  split_ifs <;> simp_all [keepLast_ok]

/-- queue part of the RDDM invariant -/
def QInv (c : RDDM.Cfg α) (s : RDDM.State α) : Prop :=
  QWF s.preds ∧ s.preds.maxLen = c.minConcept ∧ s.err = none

theorem qInv_rrun (c : RDDM.Cfg α) (hmc : 0 < c.minConcept) (vs : List α) : QInv c (rrun c vs) := by
  induction vs using List.reverseRecOn with
  | nil => exact ⟨qwf_init _ hmc, rfl, rfl⟩
  | append_singleton vs v ih =>
    obtain ⟨w, ml, he⟩ := ih
    obtain ⟨e, q1, h1, w1, ml1, l1, c1, c2⟩ := enqueue_spec _ v w
    have hc1 : 1 ≤ q1.count := by
      rcases Nat.lt_or_ge (rrun c vs).preds.count (rrun c vs).preds.maxLen with h | h
      · have := (c1 h).1; omega
      · have := (c2 (le_antisymm w.cnt h)).1; have := w.pos; omega
    obtain ⟨q2, h2, w2, ml2, -, -⟩ := keepLast_spec q1 w1 hc1 l1
    obtain ⟨g1, g2, -, -⟩ := rddm_step_general c _ v e q1 q2 h1 h2
    rw [rrun_snoc]
    refine ⟨?_, ?_, by rw [g1, he]⟩
    · rcases g2 with g | g <;> rw [g] <;> assumption
    · rcases g2 with g | g <;> rw [g] <;> omega

/-- **C03b / `rddm_eq_ddm_until_event`** (any carrier, so literally for IEEE doubles).
Run RDDM and DDM (same `warn`, `drift`, `minN`) on the same stream `vs ++ [v]` from their initial states.
If `rddmDrift` was `false` in every state *before* this step (after every prefix of `vs`), then after the step
* RDDM raised no queue error (`err = none`; this is where `0 < minConcept` is needed),
* the two detectors agree on `n`, `er`, `minPS`,
* they agree on `drift`/`warning`, except at the warning-limit event (`warnLimitEvent`: past warm-up, warning
  level exceeded but not drift level, and `maxWarn ≤ numWarnings` consecutive warnings before this step), where
  RDDM reports drift (and no warning) while DDM reports a warning (and no drift). -/
theorem rddm_eq_ddm_until_event (c : RDDM.Cfg α) (hmc : 0 < c.minConcept) (vs : List α) (v : α)
    (hne : ∀ p, p <+: vs → (rrun c p).rddmDrift = false) :
    let r := rrun c vs
    let r' := rrun c (vs ++ [v])
    let d' := drun (toDDM c) (vs ++ [v])
    r'.err = none ∧ r'.n = d'.n ∧ r'.er = d'.er ∧ r'.minPS = d'.minPS ∧ r'.n = vs.length + 1 ∧
    (if warnLimitEvent c r'.n r'.er r'.minPS r.numWarnings then
      r'.drift = true ∧ r'.warning = false ∧ d'.drift = false ∧ d'.warning = true
     else r'.drift = d'.drift ∧ r'.warning = d'.warning) := by
  induction vs using List.reverseRecOn generalizing v with
  | nil =>
    intro r r' d'
    obtain ⟨w, ml, he⟩ := qInv_rrun c hmc ([] : List α)
    obtain ⟨e, q1, h1, w1, ml1, l1, c1, c2⟩ := enqueue_spec _ v w
    have hc1 : 1 ≤ q1.count := by
      have : (rrun c ([] : List α)).preds.count < (rrun c ([] : List α)).preds.maxLen := by
        rw [ml]; exact hmc
      have := (c1 this).1; omega
    obtain ⟨q2, h2, -⟩ := keepLast_spec q1 w1 hc1 l1
    have hr0 : (rrun c ([] : List α)).rddmDrift = false := hne [] (List.prefix_refl _)
    obtain ⟨a1, a2, a3, a4, -, a6, a7, a8⟩ :=
      rddm_step_vs_ddm c (rrun c []) (drun (toDDM c) []) v e q1 q2 hr0 h1 h2 rfl rfl rfl
    have hr' : r' = RDDM.step c (rrun c []) v := rrun_snoc c [] v
    have hd' : d' = DDM.step (toDDM c) (drun (toDDM c) []) v := drun_snoc (toDDM c) [] v
    simp only [← hr', ← hd'] at a1 a2 a3 a4 a6 a7 a8
    refine ⟨by rw [a4, he], a1, a2, a3, a6, ?_⟩
    rw [a6, a7, a3]; exact a8
  | append_singleton ws w ih =>
    intro r r' d'
    have hne' : ∀ p, p <+: ws → (rrun c p).rddmDrift = false :=
      fun p hp => hne p (hp.trans (List.prefix_append ws [w]))
    obtain ⟨-, b2, b3, b4, b5, -⟩ := ih w hne'
    obtain ⟨wf, ml, he⟩ := qInv_rrun c hmc (ws ++ [w])
    obtain ⟨e, q1, h1, w1, ml1, l1, c1, c2⟩ := enqueue_spec _ v wf
    have hc1 : 1 ≤ q1.count := by
      rcases Nat.lt_or_ge (rrun c (ws ++ [w])).preds.count (rrun c (ws ++ [w])).preds.maxLen with h | h
      · have := (c1 h).1; omega
      · have := (c2 (le_antisymm wf.cnt h)).1; have := wf.pos; omega
    obtain ⟨q2, h2, -⟩ := keepLast_spec q1 w1 hc1 l1
    have hr0 : (rrun c (ws ++ [w])).rddmDrift = false := hne _ (List.prefix_refl _)
    obtain ⟨a1, a2, a3, a4, -, a6, a7, a8⟩ :=
      rddm_step_vs_ddm c (rrun c (ws ++ [w])) (drun (toDDM c) (ws ++ [w])) v e q1 q2 hr0 h1 h2 b2 b3 b4
    have hr' : r' = RDDM.step c (rrun c (ws ++ [w])) v := rrun_snoc c _ v
    have hd' : d' = DDM.step (toDDM c) (drun (toDDM c) (ws ++ [w])) v := drun_snoc (toDDM c) _ v
    simp only [← hr', ← hd'] at a1 a2 a3 a4 a6 a7 a8
    refine ⟨by rw [a4, he], a1, a2, a3, by rw [a6, b5]; simp, ?_⟩
    rw [a6, a7, a3]; exact a8

/-! ### RDDM: the stored predictions and `er` are suffixes of the stream -/

/-- how the replay loop reads a slot (`None` never occurs for live slots, see `SInv.toList_eq`) -/
def valOf (o : Option α) : α := match o with | some x => x | none => Num.zero

theorem replay_spec (c : RDDM.Cfg α) (d : Bool) (q : CQ α) (k : ℕ) :
    ∀ (pos n : ℕ) (er : Mean α) (m : Option (α × α)), pos < c.minConcept →
      (RDDM.replay c d q k pos n er m).1 = n + k ∧
      (RDDM.replay c d q k pos n er m).2.1 =
        ((List.range k).map (fun i => valOf (q.buf.getD ((pos + i) % c.minConcept) none))).foldl Mean.update er := by
  induction k with
  | zero => intro pos n er m _; simp [RDDM.replay]
  | succ k ih =>
    intro pos n er m hpos
    have hmc : 0 < c.minConcept := by omega
    rw [RDDM.replay]
    simp only []
    refine ⟨by rw [(ih _ _ _ _ (Nat.mod_lt _ hmc)).1]; omega, ?_⟩
    rw [(ih _ _ _ _ (Nat.mod_lt _ hmc)).2, List.range_succ_eq_map, List.map_cons, List.foldl_cons, List.map_map]
    have h0 : (pos + 0) % c.minConcept = pos := by rw [Nat.add_zero, Nat.mod_eq_of_lt hpos]
    rw [h0]
    congr 1
    apply List.map_congr_left
    intro i _
    simp only [Function.comp, Nat.succ_eq_add_one]
    congr 2
    rw [Nat.add_mod, Nat.mod_mod, ← Nat.add_mod]; congr 1; omega

theorem mean_foldl_n (L : List α) (er : Mean α) : (L.foldl Mean.update er).n = er.n + L.length := by
  induction L generalizing er with
  | nil => rfl
  | cons a L ih => rw [List.foldl_cons, ih]; simp [Mean.update]; omega

/-- the rebuild (`_rdd_drift_case`) recomputes `n` and `er` from the stored predictions, oldest first -/
theorem pre_event (c : RDDM.Cfg α) (s0 : RDDM.State α) (L : List α) (hr : s0.rddmDrift = true)
    (hq : QWF s0.preds) (hml : s0.preds.maxLen = c.minConcept) (hL : s0.preds.toList = L.map some) :
    (pre c s0).n = s0.preds.count ∧ (pre c s0).er = L.foldl Mean.update Mean.init := by
  have hf : s0.preds.first < c.minConcept := by rw [← hml]; exact hq.fst
  obtain ⟨r1, r2⟩ := replay_spec c s0.drift s0.preds s0.preds.count s0.preds.first 0 Mean.init none hf
  have hn : (pre c s0).n = (RDDM.replay c s0.drift s0.preds s0.preds.count s0.preds.first 0 Mean.init none).1 := by
    simp [pre, hr, RDDM.rebuild]
  have he : (pre c s0).er = (RDDM.replay c s0.drift s0.preds s0.preds.count s0.preds.first 0 Mean.init none).2.1 := by
    simp [pre, hr, RDDM.rebuild]
  refine ⟨by rw [hn, r1]; omega, ?_⟩
  rw [he, r2]
  have : (List.range s0.preds.count).map (fun i => valOf (s0.preds.buf.getD ((s0.preds.first + i) % c.minConcept) none))
      = s0.preds.toList.map valOf := by
    simp only [CQ.toList, List.map_map, hml]; rfl
  rw [this, hL, List.map_map]
  congr 1
  simp [Function.comp_def, valOf]

theorem pre_noevent (c : RDDM.Cfg α) (s0 : RDDM.State α) (hr : s0.rddmDrift = false) :
    (pre c s0).n = s0.n + 1 ∧ (pre c s0).er = s0.er := by
  simp [pre, hr]

/-- **invariant of `rddm_suffix`**: queue well-formed and error-free, and both the stored predictions and
the values summarised by `er` are suffixes of the stream -/
structure SInv (c : RDDM.Cfg α) (vs : List α) (s : RDDM.State α) : Prop where
  q : QInv c s
  cnt_le : s.preds.count ≤ vs.length
  toList_eq : s.preds.toList = (vs.drop (vs.length - s.preds.count)).map some
  ern_le : s.er.n ≤ vs.length
  er_eq : s.er = (vs.drop (vs.length - s.er.n)).foldl Mean.update Mean.init

omit [Num α] in
theorem drop_snoc_a (vs : List α) (v : α) (k : ℕ) (hk : k ≤ vs.length) :
    vs.drop (vs.length - k) ++ [v] = (vs ++ [v]).drop ((vs ++ [v]).length - (k + 1)) := by
  have : (vs ++ [v]).length - (k + 1) = vs.length - k := by simp
  rw [this, List.drop_append_of_le_length (by omega)]

omit [Num α] in
theorem drop_snoc_b (vs : List α) (v : α) (k : ℕ) (hk : k ≤ vs.length) (hk1 : 1 ≤ k) :
    (vs.drop (vs.length - k)).tail ++ [v] = (vs ++ [v]).drop ((vs ++ [v]).length - k) := by
  have : (vs ++ [v]).length - k = vs.length - k + 1 := by simp; omega
  rw [this, List.drop_append_of_le_length (by omega), List.tail_drop]

omit [Num α] in
theorem drop_snoc_c (vs : List α) (v : α) : (vs ++ [v]).drop ((vs ++ [v]).length - 1) = [v] := by
  simp

theorem sInv_step (c : RDDM.Cfg α) (hmc : 0 < c.minConcept) (vs : List α) (s0 : RDDM.State α) (v : α)
    (h : SInv c vs s0) :
    SInv c (vs ++ [v]) (RDDM.step c s0 v) ∧ s0.preds.count ≤ c.minConcept ∧
    (s0.rddmDrift = false → (RDDM.step c s0 v).er.n = s0.er.n + 1 ∧ (RDDM.step c s0 v).n = s0.n + 1) ∧
    (s0.rddmDrift = true → (RDDM.step c s0 v).er.n = s0.preds.count + 1 ∧ (RDDM.step c s0 v).n = s0.preds.count) := by
  obtain ⟨⟨wf, ml, he⟩, hcl, htl, hnl, her⟩ := h
  obtain ⟨e, q1, h1, w1, ml1, l1, c1, c2⟩ := enqueue_spec _ v wf
  have hcnt := wf.cnt
  -- the queue after `enqueue`
  have hq1 : 1 ≤ q1.count ∧ q1.count ≤ (vs ++ [v]).length ∧
      q1.toList = ((vs ++ [v]).drop ((vs ++ [v]).length - q1.count)).map some := by
    rcases Nat.lt_or_ge s0.preds.count s0.preds.maxLen with hlt | hge
    · obtain ⟨x, y⟩ := c1 hlt
      refine ⟨by omega, by simp; omega, ?_⟩
      rw [y, x, htl, ← drop_snoc_a vs v _ hcl]; simp
    · obtain ⟨x, y⟩ := c2 (le_antisymm hcnt hge)
      have hpos := wf.pos
      refine ⟨by omega, by simp; omega, ?_⟩
      rw [y, x, htl, ← drop_snoc_b vs v _ hcl (by omega)]; simp
  obtain ⟨q2, h2, w2, ml2, cnt2, tl2⟩ := keepLast_spec q1 w1 hq1.1 l1
  have hq2 : q2.count ≤ (vs ++ [v]).length ∧
      q2.toList = ((vs ++ [v]).drop ((vs ++ [v]).length - q2.count)).map some := by
    refine ⟨by simp; omega, ?_⟩
    rw [cnt2, drop_snoc_c]
    have hne : ((vs ++ [v]).drop ((vs ++ [v]).length - q1.count)) ≠ [] := by
      intro h0
      have := congrArg List.length h0
      simp at this; omega
    have hlast : ((vs ++ [v]).drop ((vs ++ [v]).length - q1.count)).getLast hne = v := by
      rw [List.getLast_drop]; simp
    have := tl2 (((vs ++ [v]).drop ((vs ++ [v]).length - q1.count)).dropLast.map some) (some v) (by
      rw [hq1.2.2]
      conv_lhs => rw [← List.dropLast_append_getLast hne, hlast]
      simp)
    rw [this]; rfl
  obtain ⟨g1, g2, g3, g4⟩ := rddm_step_general c s0 v e q1 q2 h1 h2
  -- `er` after the optional rebuild is the fold over a suffix of `vs` of length `k`
  have hpre : ∃ k, k ≤ vs.length ∧ (pre c s0).er = (vs.drop (vs.length - k)).foldl Mean.update Mean.init ∧
      (s0.rddmDrift = false → k = s0.er.n ∧ (pre c s0).n = s0.n + 1) ∧
      (s0.rddmDrift = true → k = s0.preds.count ∧ (pre c s0).n = s0.preds.count) := by
    cases hr : s0.rddmDrift
    · obtain ⟨x, y⟩ := pre_noevent c s0 hr
      exact ⟨s0.er.n, hnl, by rw [y]; exact her, fun _ => ⟨rfl, x⟩, fun h => by simp at h⟩
    · obtain ⟨x, y⟩ := pre_event c s0 _ hr wf ml htl
      exact ⟨s0.preds.count, hcl, y, fun h => by simp at h, fun _ => ⟨rfl, x⟩⟩
  obtain ⟨k, hk, hker, hk0, hk1⟩ := hpre
  have hern : (RDDM.step c s0 v).er.n = k + 1 := by
    rw [g3]; simp only [Mean.update]; rw [hker, mean_foldl_n]; simp [Mean.init]; omega
  have her' : (RDDM.step c s0 v).er =
      ((vs ++ [v]).drop ((vs ++ [v]).length - (RDDM.step c s0 v).er.n)).foldl Mean.update Mean.init := by
    rw [hern, ← drop_snoc_a vs v k hk, List.foldl_append, ← hker, g3]; rfl
  refine ⟨⟨⟨?_, ?_, by rw [g1, he]⟩, ?_, ?_, by rw [hern]; simp; omega, her'⟩, by omega, ?_, ?_⟩
  · rcases g2 with g | g <;> rw [g] <;> assumption
  · rcases g2 with g | g <;> rw [g] <;> omega
  · rcases g2 with g | g <;> rw [g]
    · exact hq1.2.1
    · exact hq2.1
  · rcases g2 with g | g <;> rw [g]
    · exact hq1.2.2
    · exact hq2.2
  · intro hr; obtain ⟨x, y⟩ := hk0 hr; exact ⟨by rw [hern, x], by rw [g4, y]⟩
  · intro hr; obtain ⟨x, y⟩ := hk1 hr; exact ⟨by rw [hern, x], by rw [g4, y]⟩

theorem sInv_rrun (c : RDDM.Cfg α) (hmc : 0 < c.minConcept) (vs : List α) : SInv c vs (rrun c vs) := by
  induction vs using List.reverseRecOn with
  | nil =>
    refine ⟨qInv_rrun c hmc [], ?_, ?_, ?_, ?_⟩ <;> simp [rrun, RDDM.init, CQ.init, CQ.toList, Mean.init]
  | append_singleton vs v ih => rw [rrun_snoc]; exact (sInv_step c hmc vs _ v ih).1

/-- **C03b / `rddm_suffix`** (any carrier).  With `0 < minConcept`, after any stream `vs` fed to a fresh RDDM:
no queue error was raised; the prediction queue holds at most `minConcept` values and its contents
(oldest first) are exactly the last `preds.count` values of the stream; and `er` is `Mean.update` folded
over the last `er.n` values of the stream. -/
theorem rddm_suffix (c : RDDM.Cfg α) (hmc : 0 < c.minConcept) (vs : List α) :
    let s := rrun c vs
    s.err = none ∧ s.preds.count ≤ c.minConcept ∧ s.preds.count ≤ vs.length ∧
    s.preds.toList = (vs.drop (vs.length - s.preds.count)).map some ∧
    s.er.n ≤ vs.length ∧
    s.er = (vs.drop (vs.length - s.er.n)).foldl Mean.update Mean.init := by
  intro s
  have h : SInv c vs s := sInv_rrun c hmc vs
  obtain ⟨⟨wf, ml, he⟩, a, b, d, e⟩ := h
  exact ⟨he, by have := wf.cnt; omega, a, b, d, e⟩

/-- **C03b / `rddm_suffix_step`** (any carrier).  How the length of the summarised suffix evolves: `er.n`
(and `n`) grow by exactly one per update, except at the update right after an event (`rddmDrift = true` in the
previous state), where `er` is rebuilt from the stored predictions plus the new value:
`er.n = preds.count_before + 1 ≤ minConcept + 1`.  At that update the instance counter becomes
`n = preds.count_before`, i.e. it is one *less* than `er.n` (the model follows the Python code, which
increments `num_instances` before `_rdd_drift_case` overwrites it). -/
theorem rddm_suffix_step (c : RDDM.Cfg α) (hmc : 0 < c.minConcept) (vs : List α) (v : α) :
    let s := rrun c vs
    let s' := rrun c (vs ++ [v])
    (s.rddmDrift = false → s'.er.n = s.er.n + 1 ∧ s'.n = s.n + 1) ∧
    (s.rddmDrift = true → s'.er.n = s.preds.count + 1 ∧ s'.er.n ≤ c.minConcept + 1 ∧ s'.n = s.preds.count) := by
  intro s s'
  have hs' : s' = RDDM.step c s v := rrun_snoc c vs v
  obtain ⟨-, h1, h2, h3⟩ := sInv_step c hmc vs s v (sInv_rrun c hmc vs)
  rw [hs']
  refine ⟨h2, fun hr => ?_⟩
  obtain ⟨x, y⟩ := h3 hr
  exact ⟨x, by omega, y⟩

/-- `reset` of a state reached from `init` is `init` again (needs the queue invariant: capacity
`minConcept`, no error recorded) -/
theorem rddm_reset_rrun (c : RDDM.Cfg α) (hmc : 0 < c.minConcept) (vs : List α) :
    RDDM.reset (rrun c vs) = RDDM.init c := by
  obtain ⟨wf, ml, he⟩ := qInv_rrun c hmc vs
  rcases hs : rrun c vs with ⟨n, dr, wa, er, mp, nw, rd, preds, err⟩
  rw [hs] at ml he
  simp only at ml he
  simp [RDDM.reset, RDDM.init, CQ.clear, CQ.init, ml, he]

/-- every reachable state of the RDDM machine (updates and resets) is `rrun c vs` for the values `vs`
received since the last reset, so the theorems above apply to it -/
theorem rddm_reachable_iff (c : RDDM.Cfg α) (hmc : 0 < c.minConcept) (s : RDDM.State α) :
    (RDDM.machine c).Reachable s ↔ ∃ vs, s = rrun c vs := by
  constructor
  · intro h
    induction h with
    | init => exact ⟨[], rfl⟩
    | step v _ ih => obtain ⟨vs, rfl⟩ := ih; exact ⟨vs ++ [v], (rrun_snoc c vs v).symm⟩
    | reset _ ih => obtain ⟨vs, rfl⟩ := ih; exact ⟨[], rddm_reset_rrun c hmc vs⟩
  · rintro ⟨vs, rfl⟩
    induction vs using List.reverseRecOn with
    | nil => exact Machine.Reachable.init
    | append_singleton vs v ih => rw [rrun_snoc]; exact Machine.Reachable.step (M := RDDM.machine c) v ih

/-- non-vacuity of the hypotheses of `rddm_eq_ddm_until_event`: a configuration with `0 < minConcept` and a
non-empty stream on which `rddmDrift` has never been set (any carrier, any value) -/
example (w d x : α) : let c : RDDM.Cfg α := ⟨w, d, 5, 10, 3, 2⟩
    0 < c.minConcept ∧ ∀ p, p <+: [x] → (rrun c p).rddmDrift = false := by
  intro c
  refine ⟨by simp [c], fun p hp => ?_⟩
  have : p = [x] ∨ p = [] := by
    have := (List.prefix_concat_iff (l₂ := []) (a := x)).mp (by simpa using hp)
    simpa using this
  rcases this with rfl | rfl
  · simp [c, rrun, RDDM.step, RDDM.init, CQ.init, CQ.enqueue, CQ.isFull, CQ.nextLast]
  · simp [c, rrun, RDDM.init]

end RDDM

/-- non-vacuity of the event case of `rddm_suffix_step` (`rddmDrift = true` is reachable): at `α = ℝ`, with
`maxConcept = 1`, one correct prediction (`0`) already triggers the concept-size event. -/
example : let c : RDDM.Cfg ℝ := ⟨2, 3, 1, 1, 3, 2⟩
    0 < c.minConcept ∧ (rrun c [0]).rddmDrift = true := by
  intro c
  refine ⟨by simp [c], ?_⟩
  simp [c, rrun, RDDM.step, RDDM.init, CQ.init, CQ.enqueue, CQ.isFull, CQ.nextLast, DDM.epsStd, DDM.belowMin,
    DDM.exceeds, Mean.update, Mean.init]

/-- **witness** for the off-by-one noted in `rddm_suffix_step`: after an event the instance counter `n` and
the number of values in the error rate `er.n` differ (in DDM they are always equal).  `α = ℝ`,
`maxConcept = 1`, stream `0, 0`: the second update rebuilds from one stored prediction, giving `n = 1`
but `er.n = 2` after two updates. -/
theorem rddm_n_ne_ern_witness : let c : RDDM.Cfg ℝ := ⟨2, 3, 1, 1, 3, 2⟩
    (rrun c [0, 0]).n = 1 ∧ (rrun c [0, 0]).er.n = 2 := by
  intro c
  have hmc : 0 < c.minConcept := by simp [c]
  have hev : (rrun c [0]).rddmDrift = true ∧ (rrun c [0]).preds.count = 1 := by
    simp [c, rrun, RDDM.step, RDDM.init, CQ.init, CQ.enqueue, CQ.isFull, CQ.nextLast, DDM.epsStd, DDM.belowMin,
      DDM.exceeds, Mean.update, Mean.init]
  obtain ⟨-, h⟩ := rddm_suffix_step c hmc [0] 0
  obtain ⟨a, -, b⟩ := h hev.1
  rw [hev.2] at a b
  exact ⟨b, a⟩

/-! ### axioms used by the property theorems -/
#print axioms eddm_step_err_stats
#print axioms eddm_step_noerr
#print axioms eddm_step_err_rule
#print axioms flagInv_erun
#print axioms eddm_reachable_iff
#print axioms eddm_welford
#print axioms eddm_rule
#print axioms eddm_maxThr_running_max
#print axioms eddm_maxThr_ge_one
#print axioms eddm_rule_nodiv
#print axioms enqueue_spec
#print axioms keepLast_spec
#print axioms rddm_step_vs_ddm
#print axioms rddm_eq_ddm_until_event
#print axioms rddm_suffix
#print axioms rddm_suffix_step
#print axioms rddm_reset_rrun
#print axioms rddm_reachable_iff
#print axioms rddm_n_ne_ern_witness

end Frouros.C03b
