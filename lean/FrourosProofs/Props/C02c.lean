/-
  C02 — the remaining objects of the property: the PrequentialError metric, IncrementalKSTest and the streaming MMD
  ("once re-fitted on the same reference").  Whole-state equalities, for every carrier.

  * `preq_reset_eq_init`      : `reset` of any metric state is the freshly constructed metric.
  * `incks_reset_fit_eq`      : for every state reachable from `init w` by fit / update / reset, `fit (reset s) xs = fit (init w) xs`
                                 — after `reset(); fit(ref)` the detector is in exactly the state of a new detector fitted on `ref`
                                 (queue cleared, counter 0, gcd recomputed or absent as for a new one).
  * `mmd_reset_fit_eq`        : the same for the streaming MMD (the stale precomputed term that `reset` leaves behind is overwritten by `fit`).
  The only fact about the queue that is needed is that its capacity never changes.
-/
import FrourosModel.StreamKS
import FrourosModel.MMD
import FrourosProofs.Machine
namespace Frouros.C02
open Frouros

/-! ### PrequentialError -/
theorem preq_reset_eq_init {α : Type} [Num α] (s : Preq α) : s.reset = Preq.init s.alpha := rfl

/-- the fading factor is never changed by a call -/
theorem preq_call_alpha {α : Type} [Num α] (s : Preq α) (e : α) : (s.call e).2.alpha = s.alpha := rfl

/-! ### capacity of the circular queue is invariant -/
theorem cq_dequeue_maxLen {β : Type} {q q' : CQ β} {e : Option β} (h : q.dequeue = .ok (e, q')) : q'.maxLen = q.maxLen := by
  unfold CQ.dequeue at h
  split at h
  · simp at h
  · simp only [Except.ok.injEq, Prod.mk.injEq] at h
    rw [← h.2]

theorem cq_enqueue_maxLen {β : Type} {q q' : CQ β} {v : β} {e : Option β} (h : q.enqueue v = .ok (e, q')) :
    q'.maxLen = q.maxLen := by
  unfold CQ.enqueue at h
  split at h
  · cases hd : q.dequeue with
    | error err => simp [hd] at h
    | ok p =>
      obtain ⟨e0, q0⟩ := p
      simp only [hd, Except.ok.injEq, Prod.mk.injEq] at h
      rw [← h.2]
      exact cq_dequeue_maxLen (q' := q0) hd
  · simp only [Except.ok.injEq, Prod.mk.injEq] at h
    rw [← h.2]

theorem cq_clear_eq_init {β : Type} (q : CQ β) : q.clear = CQ.init q.maxLen := rfl

/-! ### IncrementalKSTest -/
namespace IncKSReach
variable {α : Type} [Num α]

/-- states reachable from a newly constructed detector with window `w` -/
inductive Reach (w : Nat) : IncKS.State α → Prop where
  | init : Reach w (IncKS.init w)
  | fit {s} (xs : List α) : Reach w s → Reach w (IncKS.fit s xs)
  | update {s} (v : α) : Reach w s → Reach w (IncKS.update s v).2
  | reset {s} : Reach w s → Reach w (IncKS.reset s)

theorem inv {w : Nat} {s : IncKS.State α} (h : Reach w s) : s.window = w ∧ s.q.maxLen = w := by
  induction h with
  | init => exact ⟨rfl, rfl⟩
  | fit xs _ ih => exact ih
  | @update s v _ ih =>
    unfold IncKS.update
    cases hr : s.ref with
    | none => simpa using ih
    | some r =>
    cases he : s.q.enqueue v with
    | error e => simpa using ih
    | ok p =>
      obtain ⟨e, q⟩ := p
      have hm := cq_enqueue_maxLen he
      simp only []
      split
      · exact ⟨ih.1, by rw [hm]; exact ih.2⟩
      · exact ⟨ih.1, by rw [hm]; exact ih.2⟩
  | reset _ ih => exact ⟨ih.1, by simpa [IncKS.reset, CQ.clear] using ih.2⟩
end IncKSReach

/-- `reset(); fit(ref)` puts every reachable IncrementalKSTest into the state of a new detector fitted on `ref` -/
theorem incks_reset_fit_eq {α : Type} [Num α] (w : Nat) (s : IncKS.State α) (h : IncKSReach.Reach w s) (xs : List α) :
    IncKS.fit (IncKS.reset s) xs = IncKS.fit (IncKS.init w) xs := by
  obtain ⟨hw, hq⟩ := IncKSReach.inv h
  unfold IncKS.fit IncKS.reset IncKS.init
  simp only [hw, cq_clear_eq_init, hq]

/-- right after `reset()` the counter reads 0 and the detector is unfitted -/
theorem incks_reset_reads_new {α : Type} [Num α] (s : IncKS.State α) :
    (IncKS.reset s).n = 0 ∧ (IncKS.reset s).ref = none ∧ (IncKS.reset s).gcd = none ∧ (IncKS.reset s).q.count = 0 :=
  ⟨rfl, rfl, rfl, rfl⟩

/-! ### streaming MMD -/
namespace MMDReach
variable {α : Type} [Num α] {X : Type}

inductive Reach (k : X → X → α) (w : Nat) (cs : Option Nat) : MMD.Stream α X → Prop where
  | init : Reach k w cs (MMD.Stream.init w cs)
  | fit {s} (xs : List X) : Reach k w cs s → Reach k w cs (MMD.Stream.fit k s xs)
  | update {s} (v : X) : Reach k w cs s → Reach k w cs (MMD.Stream.update k s v).2
  | reset {s} : Reach k w cs s → Reach k w cs (MMD.Stream.reset s)

theorem inv {k : X → X → α} {w : Nat} {cs : Option Nat} {s : MMD.Stream α X} (h : Reach k w cs s) :
    s.window = w ∧ s.chunkSize = cs ∧ s.q.maxLen = w := by
  induction h with
  | init => exact ⟨rfl, rfl, rfl⟩
  | fit xs _ ih => exact ih
  | @update s v _ ih =>
    unfold MMD.Stream.update
    cases hr : s.ref with
    | none => simpa using ih
    | some r =>
    cases he : s.q.enqueue v with
    | error e => simpa using ih
    | ok p =>
      obtain ⟨e, q⟩ := p
      have hm := cq_enqueue_maxLen he
      simp only []
      split
      · exact ⟨ih.1, ih.2.1, by rw [hm]; exact ih.2.2⟩
      · exact ⟨ih.1, ih.2.1, by rw [hm]; exact ih.2.2⟩
  | reset _ ih => exact ⟨ih.1, ih.2.1, by simpa [MMD.Stream.reset, CQ.clear] using ih.2.2⟩
end MMDReach

/-- `reset(); fit(ref)` puts every reachable streaming MMD into the state of a new detector fitted on `ref`
(the precomputed reference term left behind by `reset` is overwritten by `fit`) -/
theorem mmd_reset_fit_eq {α : Type} [Num α] {X : Type} (k : X → X → α) (w : Nat) (cs : Option Nat)
    (s : MMD.Stream α X) (h : MMDReach.Reach k w cs s) (xs : List X) :
    MMD.Stream.fit k (MMD.Stream.reset s) xs = MMD.Stream.fit k (MMD.Stream.init w cs) xs := by
  obtain ⟨hw, hc, hq⟩ := MMDReach.inv h
  unfold MMD.Stream.fit MMD.Stream.reset MMD.Stream.init
  simp only [hw, hc, cq_clear_eq_init, hq]

/-- non-vacuity: a reachable state that is far from new (fitted, updated twice) -/
example : IncKSReach.Reach (α := Float) 2 (IncKS.update (IncKS.update (IncKS.fit (IncKS.init 2) [1.0, 2.0]) 0.5).2 0.7).2 :=
  .update _ (.update _ (.fit _ .init))

end Frouros.C02

#print axioms Frouros.C02.preq_reset_eq_init
#print axioms Frouros.C02.incks_reset_fit_eq
#print axioms Frouros.C02.incks_reset_reads_new
#print axioms Frouros.C02.mmd_reset_fit_eq
#print axioms Frouros.C02.cq_enqueue_maxLen
