/-
  C20 — dataset helpers (`FrourosModel/Misc.lean`): mirror download loop, SEA / Dummy generators.

  `download`, the `threshold` table, the noise/no-noise split of `seaLabel`, `dummyCheck` and the
  block test of `seaCheck` are control flow (any carrier).  The label rules and the noise range are
  stated over ℝ.
-/
import FrourosModel.Misc
import FrourosProofs.RealNum
namespace Frouros.C20
open Frouros

/-! ### Download -/
section Download
open Frouros.Download

/-- a failed attempt costs one contact and changes nothing else -/
theorem download_cons_fail (o : Outcome) (rest : List Outcome) (h : ∀ b, o ≠ .ok b) :
    download (o :: rest) = { download rest with contacted := (download rest).contacted + 1 } := by
  cases o with
  | ok b => exact absurd rfl (h b)
  | connErr => rfl
  | headNotOk => rfl
  | getStatus => rfl
  | timeout => rfl

theorem download_cons_ok (b : List Nat) (rest : List Outcome) : download (.ok b :: rest) = ⟨b, 1, false⟩ := rfl

/-- **download_spec** (success): if mirror `i` is the FIRST one that answers (`outs[i] = ok b` and no
earlier outcome is an `ok`), then the file holds exactly its bytes, exactly `i + 1` mirrors were
contacted (none after the first success) and no error is raised. -/
theorem download_spec (outs : List Outcome) (i : Nat) (b : List Nat)
    (hi : outs[i]? = some (.ok b)) (hfirst : ∀ j, j < i → ∀ b', outs[j]? ≠ some (.ok b')) :
    download outs = ⟨b, i + 1, false⟩ := by
  induction outs generalizing i with
  | nil => simp at hi
  | cons o rest ih =>
    cases i with
    | zero =>
      simp only [List.getElem?_cons_zero, Option.some.injEq] at hi
      subst hi; rfl
    | succ j =>
      have ho : ∀ b', o ≠ .ok b' := by
        intro b' hb
        have := hfirst 0 (Nat.succ_pos j) b'
        simp [hb] at this
      rw [download_cons_fail o rest ho]
      have hrest := ih j (by simpa using hi) (by
        intro k hk b'
        have := hfirst (k + 1) (Nat.succ_lt_succ hk) b'
        simpa using this)
      rw [hrest]

/-- the same in prefix form -/
theorem download_first_ok (pre post : List Outcome) (b : List Nat) (hpre : ∀ o ∈ pre, ∀ b', o ≠ .ok b') :
    download (pre ++ .ok b :: post) = ⟨b, pre.length + 1, false⟩ := by
  induction pre with
  | nil => rfl
  | cons o pre ih =>
    rw [List.cons_append, download_cons_fail o _ (hpre o List.mem_cons_self),
      ih (fun o' ho' => hpre o' (List.mem_cons_of_mem _ ho'))]
    rfl

/-- **download_spec** (failure): if no mirror answers, every mirror was contacted once, the file is
still empty and `DownloadError` is raised. -/
theorem download_none_ok (outs : List Outcome) (h : ∀ o ∈ outs, ∀ b, o ≠ .ok b) :
    download outs = ⟨[], outs.length, true⟩ := by
  induction outs with
  | nil => rfl
  | cons o rest ih =>
    rw [download_cons_fail o rest (h o List.mem_cons_self),
      ih (fun o' ho' => h o' (List.mem_cons_of_mem _ ho'))]
    rfl

/-- every list of outcomes falls in exactly one of the two cases -/
theorem first_ok_or_none (outs : List Outcome) :
    (∀ o ∈ outs, ∀ b, o ≠ .ok b) ∨
      ∃ pre b post, outs = pre ++ .ok b :: post ∧ ∀ o ∈ pre, ∀ b', o ≠ .ok b' := by
  induction outs with
  | nil => left; simp
  | cons o rest ih =>
    by_cases ho : ∃ b, o = .ok b
    · obtain ⟨b, rfl⟩ := ho
      exact Or.inr ⟨[], b, rest, rfl, by simp⟩
    · have ho' : ∀ b, o ≠ .ok b := fun b hb => ho ⟨b, hb⟩
      rcases ih with h | ⟨pre, b, post, rfl, h⟩
      · left
        intro o' ho''
        rcases List.mem_cons.mp ho'' with rfl | h'
        · exact ho'
        · exact h o' h'
      · right
        refine ⟨o :: pre, b, post, rfl, ?_⟩
        intro o' ho''
        rcases List.mem_cons.mp ho'' with rfl | h'
        · exact ho'
        · exact h o' h'

/-- **download_spec** (error flag): `DownloadError` iff no outcome is an `ok`. -/
theorem download_error_iff (outs : List Outcome) :
    (download outs).error = true ↔ ∀ o ∈ outs, ∀ b, o ≠ .ok b := by
  constructor
  · intro he
    rcases first_ok_or_none outs with h | ⟨pre, b, post, rfl, h⟩
    · exact h
    · rw [download_first_ok pre post b h] at he; cases he
  · intro h; rw [download_none_ok outs h]

/-- never more contacts than mirrors, and at least one if there is a mirror -/
theorem download_contacted_le (outs : List Outcome) : (download outs).contacted ≤ outs.length := by
  rcases first_ok_or_none outs with h | ⟨pre, b, post, rfl, h⟩
  · simp [download_none_ok outs h]
  · simp [download_first_ok pre post b h]

/-- non-vacuity -/
example : download [.connErr, .timeout, .ok [1, 2], .ok [9], .headNotOk] = ⟨[1, 2], 3, false⟩ := by decide
example : download [.connErr, .getStatus] = ⟨[], 2, true⟩ := by decide

/-! #### the dataset object as a state machine (`download` / `load` histories) -/

/-- a successful `download()` leaves EXACTLY the first reachable mirror's bytes in the target file,
whatever the file held before (missing, empty, bytes of an earlier download) -/
theorem dstep_download_ok (file : Option (List Nat)) (pre post : List Outcome) (b : List Nat)
    (hpre : ∀ o ∈ pre, ∀ b', o ≠ .ok b') :
    dstep ⟨true, file⟩ (.download (pre ++ .ok b :: post)) = (⟨true, some b⟩, .done) := by
  simp [dstep, download_first_ok pre post b hpre]

/-- if every mirror fails, `download()` raises DownloadError and the object and file are untouched -/
theorem dstep_download_fail (s : DState) (outs : List Outcome) (h : ∀ o ∈ outs, ∀ b, o ≠ .ok b) :
    dstep s (.download outs) = (s, .downloadError) := by
  simp [dstep, download_none_ok outs h]

/-- DownloadError is raised iff no mirror is reachable -/
theorem dstep_downloadError_iff (s : DState) (outs : List Outcome) :
    (dstep s (.download outs)).2 = .downloadError ↔ ∀ o ∈ outs, ∀ b, o ≠ .ok b := by
  rw [← download_error_iff]
  unfold dstep
  simp only []
  split
  · simp_all
  · split <;> simp_all

/-- `load()` on a downloaded file returns its data, removes the file and forgets the path -/
theorem dstep_load_ok (b : List Nat) : dstep ⟨true, some b⟩ (.load true) = (⟨false, none⟩, .data b) := rfl

/-- a read error (ReadFileError) keeps the file -/
theorem dstep_load_bad (b : List Nat) : dstep ⟨true, some b⟩ (.load false) = (⟨true, some b⟩, .readFileError) := rfl

/-- download followed by load returns exactly the first reachable mirror's bytes -/
theorem download_then_load (file : Option (List Nat)) (pre post : List Outcome) (b : List Nat)
    (hpre : ∀ o ∈ pre, ∀ b', o ≠ .ok b') :
    drun ⟨true, file⟩ [.download (pre ++ .ok b :: post), .load true] = (⟨false, none⟩, [.done, .data b]) := by
  simp [drun, dstep_download_ok file pre post b hpre, dstep_load_ok]

/-- the bytes of the first reachable mirror of a mirror list, if any -/
def firstOk : List Outcome → Option (List Nat)
  | [] => none
  | .ok b :: _ => some b
  | _ :: rest => firstOk rest

theorem download_eq_firstOk (outs : List Outcome) :
    (firstOk outs = none → (download outs).error = true) ∧
    (∀ b, firstOk outs = some b → (download outs).error = false ∧ (download outs).file = b) := by
  induction outs with
  | nil => simp [firstOk, download]
  | cons o rest ih =>
    cases o <;> simp_all [firstOk, download]

/-- the file a history of downloads must end with: the first reachable mirror of the LAST download
that reached one, else the initial content -/
def lastGood (init : Option (List Nat)) : List (List Outcome) → Option (List Nat)
  | [] => init
  | outs :: rest => lastGood (match firstOk outs with | some b => some b | none => init) rest

/-- every history of `download()` calls on one object: the target file ends with exactly the bytes of
the first reachable mirror of the last successful call — nothing is accumulated across calls -/
theorem downloads_history (init : Option (List Nat)) (hist : List (List Outcome)) :
    (drun ⟨true, init⟩ (hist.map .download)).1 = ⟨true, lastGood init hist⟩ := by
  induction hist generalizing init with
  | nil => rfl
  | cons outs rest ih =>
    have h := download_eq_firstOk outs
    cases hf : firstOk outs with
    | none =>
      have he := h.1 hf
      simp only [List.map_cons, drun, lastGood, hf]
      have : dstep ⟨true, init⟩ (.download outs) = (⟨true, init⟩, .downloadError) := by simp [dstep, he]
      rw [this]; exact ih init
    | some b =>
      obtain ⟨he, hb⟩ := h.2 b hf
      simp only [List.map_cons, drun, lastGood, hf]
      have : dstep ⟨true, init⟩ (.download outs) = (⟨true, some b⟩, .done) := by simp [dstep, he, hb]
      rw [this]; exact ih (some b)

/-- after `load()` succeeded the object is spent: every later call fails and changes nothing -/
theorem spent_absorbing (op : DOp) : (dstep ⟨false, none⟩ op).1 = ⟨false, none⟩ ∧
    (dstep ⟨false, none⟩ op).2 ∈ [DOut.downloadError, .typeError, .fileNotFound] := by
  cases op with
  | download outs => unfold dstep; simp only []; split <;> simp
  | load r => simp [dstep]

/-- non-vacuity: a pre-filled target, a failed call, two successful ones, then load -/
example : drun ⟨true, some [99]⟩ [.download [.connErr], .download [.timeout, .ok [1]], .download [.ok [0], .ok [1]], .load true]
    = (⟨false, none⟩, [.downloadError, .done, .done, .data [0]]) := by decide
example : lastGood (some [99]) [[.connErr], [.timeout, .ok [1]], [.ok [0], .ok [1]]] = some [0] := by decide
end Download

/-! ### SEA / Dummy -/
section Synthetic
open Frouros.Synthetic

/-- block thresholds (any carrier) -/
theorem threshold_table {α : Type} [Num α] :
    threshold (α := α) 1 = some (Num.ofNat 8) ∧ threshold (α := α) 2 = some (Num.ofNat 9) ∧
    threshold (α := α) 3 = some (Num.ofNat 7) ∧ threshold (α := α) 4 = some (Num.ofDec 95 1) :=
  ⟨rfl, rfl, rfl, rfl⟩

/-- **thresholds** over ℝ: 8, 9, 7, 9.5 -/
theorem threshold_real :
    threshold (α := ℝ) 1 = some 8 ∧ threshold (α := ℝ) 2 = some 9 ∧ threshold (α := ℝ) 3 = some 7 ∧
    threshold (α := ℝ) 4 = some 9.5 := by
  refine ⟨by simp [threshold], by simp [threshold], by simp [threshold], ?_⟩
  simp only [threshold, RealNum.ofDec_eq]
  norm_num

/-- `none` for every other block (any carrier) -/
theorem threshold_none_iff {α : Type} [Num α] (block : Nat) :
    threshold (α := α) block = none ↔ ¬ (1 ≤ block ∧ block ≤ 4) := by
  match block with
  | 0 => simp [threshold]
  | 1 => simp [threshold]
  | 2 => simp [threshold]
  | 3 => simp [threshold]
  | 4 => simp [threshold]
  | n + 5 => simp [threshold]

/-- noisy draw (any carrier): the label is the coin -/
theorem seaLabel_noisy {α : Type} [Num α] (thr noise x0 x1 r : α) (coin : Nat) (h : Num.lt r noise = true) :
    seaLabel thr noise x0 x1 r coin = coin := by
  simp [seaLabel, h]

/-- clean draw (any carrier): the coin is ignored -/
theorem seaLabel_clean {α : Type} [Num α] (thr noise x0 x1 r : α) (coin : Nat) (h : Num.lt r noise = false) :
    seaLabel thr noise x0 x1 r coin = if Num.le (x0 + x1) thr = true then 1 else 0 := by
  simp [seaLabel, h]

/-- **sea_label**: with `noise = 0` (and the draw `r ∈ [0,1)`, only `0 ≤ r` is needed) the label is `1`
iff `x0 + x1 ≤ thr` — whatever the coin. -/
theorem sea_label (thr x0 x1 r : ℝ) (hr : 0 ≤ r) (coin : Nat) :
    seaLabel thr 0 x0 x1 r coin = 1 ↔ x0 + x1 ≤ thr := by
  rw [seaLabel_clean thr 0 x0 x1 r coin (by simpa using hr)]
  by_cases h : x0 + x1 ≤ thr <;> simp [h]

theorem sea_label_zero (thr x0 x1 r : ℝ) (hr : 0 ≤ r) (coin : Nat) :
    seaLabel thr 0 x0 x1 r coin = 0 ↔ thr < x0 + x1 := by
  rw [seaLabel_clean thr 0 x0 x1 r coin (by simpa using hr)]
  by_cases h : x0 + x1 ≤ thr
  · simp [h]
  · simp [h, not_le.mp h]

/-- the hypothesis `0 ≤ r` is needed: a (impossible for `random()`) negative draw takes the coin -/
example : seaLabel (8 : ℝ) 0 1 1 (-1) 0 = 0 ∧ (1 : ℝ) + 1 ≤ 8 := by
  constructor
  · rw [seaLabel_noisy]; simp
  · norm_num

/-- with noise: a draw `r < noise` returns the coin, a draw `r ≥ noise` the clean label -/
theorem sea_label_noise (thr noise x0 x1 r : ℝ) (coin : Nat) :
    seaLabel thr noise x0 x1 r coin = if r < noise then coin else if x0 + x1 ≤ thr then 1 else 0 := by
  by_cases h : r < noise
  · rw [seaLabel_noisy _ _ _ _ _ _ (by simpa using h)]; simp [h]
  · rw [seaLabel_clean _ _ _ _ _ _ (by simpa using h)]; simp [h]

/-- **dummy_label** (any carrier): the defining rule -/
theorem dummyLabel_eq {α : Type} [Num α] (cls : Nat) (x0 x1 : α) :
    dummyLabel cls x0 x1 = if Num.lt (x0 + x1) (Num.ofNat 10) = true then cls else 1 - cls := by
  simp [dummyLabel]

/-- **dummy_label** over ℝ, for a class in `{0, 1}` (hypothesis `cls ≤ 1`: for other values `1 - cls`
would be the truncated subtraction — `dummyCheck` rejects them): the label is the class iff
`x0 + x1 < 10`, and the other class otherwise. -/
theorem dummy_label (cls : Nat) (hcls : cls ≤ 1) (x0 x1 : ℝ) :
    (dummyLabel cls x0 x1 = cls ↔ x0 + x1 < 10) ∧ (dummyLabel cls x0 x1 = 1 - cls ↔ 10 ≤ x0 + x1) := by
  rw [dummyLabel_eq]
  by_cases h : x0 + x1 < 10
  · have h' : ¬ (10 : ℝ) ≤ x0 + x1 := not_le.mpr h
    simp [h, h']; omega
  · have h' : (10 : ℝ) ≤ x0 + x1 := not_lt.mp h
    simp [h, h']; omega

example : dummyLabel 1 (3 : ℝ) 4 = 1 := by rw [dummyLabel_eq]; norm_num
example : dummyLabel 1 (6 : ℝ) 4 = 0 := by rw [dummyLabel_eq]; norm_num

/-- **seaCheck** accepted domain -/
theorem seaCheck_none_iff (block : Nat) (numSamples : Int) (noise : ℝ) :
    seaCheck block numSamples noise = none ↔
      (1 ≤ block ∧ block ≤ 4) ∧ 1 ≤ numSamples ∧ 0 ≤ noise ∧ noise ≤ 1 := by
  unfold seaCheck
  by_cases hb : 1 ≤ block ∧ block ≤ 4
  · have : threshold (α := ℝ) block ≠ none := fun h => (threshold_none_iff block).mp h hb
    have hnone : (threshold (α := ℝ) block).isNone = false := by
      cases h : threshold (α := ℝ) block with
      | none => exact absurd h this
      | some _ => rfl
    by_cases hn : numSamples < 1
    · simp [hnone, hn, hb]
    · by_cases hz : (0 : ℝ) ≤ noise ∧ noise ≤ 1
      · simp [hnone, hn, hb, hz]; omega
      · simp [hnone, hn, hb]; tauto
  · have hnone : (threshold (α := ℝ) block).isNone = true := by
      rw [(threshold_none_iff block).mpr hb]; rfl
    simp [hnone, hb]

/-- **seaCheck**, `InvalidBlockError` (any carrier): exactly for a block outside `1..4`, whatever the
other arguments are (the block test comes first) -/
theorem seaCheck_invalidBlock_iff {α : Type} [Num α] (block : Nat) (numSamples : Int) (noise : α) :
    seaCheck block numSamples noise = some .invalidBlock ↔ ¬ (1 ≤ block ∧ block ≤ 4) := by
  unfold seaCheck
  by_cases hb : 1 ≤ block ∧ block ≤ 4
  · have : threshold (α := α) block ≠ none := fun h => (threshold_none_iff block).mp h hb
    have hnone : (threshold (α := α) block).isNone = false := by
      cases h : threshold (α := α) block with
      | none => exact absurd h this
      | some _ => rfl
    simp only [hnone, Bool.false_eq_true, if_false, hb]
    split
    · simp
    · split <;> simp
  · have hnone : (threshold (α := α) block).isNone = true := by
      rw [(threshold_none_iff block).mpr hb]; rfl
    simp [hnone, hb]

/-- **seaCheck**, `ValueError` -/
theorem seaCheck_value_iff (block : Nat) (numSamples : Int) (noise : ℝ) :
    seaCheck block numSamples noise = some .value ↔
      (1 ≤ block ∧ block ≤ 4) ∧ (numSamples < 1 ∨ ¬ (0 ≤ noise ∧ noise ≤ 1)) := by
  unfold seaCheck
  by_cases hb : 1 ≤ block ∧ block ≤ 4
  · have : threshold (α := ℝ) block ≠ none := fun h => (threshold_none_iff block).mp h hb
    have hnone : (threshold (α := ℝ) block).isNone = false := by
      cases h : threshold (α := ℝ) block with
      | none => exact absurd h this
      | some _ => rfl
    by_cases hn : numSamples < 1
    · simp [hnone, hn, hb]
    · by_cases hz : (0 : ℝ) ≤ noise ∧ noise ≤ 1
      · simp [hnone, hn, hb, hz]
      · simp [hnone, hn, hb]
  · have hnone : (threshold (α := ℝ) block).isNone = true := by
      rw [(threshold_none_iff block).mpr hb]; rfl
    simp [hnone, hb]

/-- **dummyCheck** table -/
theorem dummyCheck_none_iff (cls numSamples : Int) :
    dummyCheck cls numSamples = none ↔ (cls = 0 ∨ cls = 1) ∧ 1 ≤ numSamples := by
  unfold dummyCheck
  by_cases hc : cls = 0 ∨ cls = 1
  · by_cases hn : numSamples < 1
    · rcases hc with rfl | rfl <;> simp [hn]
    · rcases hc with rfl | rfl <;> simp [hn] <;> omega
  · have h0 : ¬ cls = 0 := fun h => hc (Or.inl h)
    have h1 : ¬ cls = 1 := fun h => hc (Or.inr h)
    simp [h0, h1]

theorem dummyCheck_some_iff (cls numSamples : Int) (e : Err) :
    dummyCheck cls numSamples = some e ↔ e = .value ∧ ¬ ((cls = 0 ∨ cls = 1) ∧ 1 ≤ numSamples) := by
  rw [← dummyCheck_none_iff]
  unfold dummyCheck
  split
  · simp [eq_comm]
  · split <;> simp [eq_comm]

/-- non-vacuity -/
example : seaCheck 3 100 (0.1 : ℝ) = none := by rw [seaCheck_none_iff]; norm_num
example : seaCheck 5 100 (0.1 : ℝ) = some .invalidBlock := by rw [seaCheck_invalidBlock_iff]; norm_num
example : seaCheck 5 0 (7 : ℝ) = some .invalidBlock := by rw [seaCheck_invalidBlock_iff]; norm_num
example : seaCheck 2 100 (1.5 : ℝ) = some .value := by rw [seaCheck_value_iff]; norm_num
example : dummyCheck 1 10 = none := by decide
example : dummyCheck 2 10 = some .value := by decide
example : dummyCheck 0 0 = some .value := by decide
end Synthetic

end Frouros.C20

#print axioms Frouros.C20.download_spec
#print axioms Frouros.C20.download_first_ok
#print axioms Frouros.C20.download_none_ok
#print axioms Frouros.C20.download_error_iff
#print axioms Frouros.C20.download_contacted_le
#print axioms Frouros.C20.threshold_real
#print axioms Frouros.C20.threshold_none_iff
#print axioms Frouros.C20.seaLabel_noisy
#print axioms Frouros.C20.seaLabel_clean
#print axioms Frouros.C20.sea_label
#print axioms Frouros.C20.sea_label_zero
#print axioms Frouros.C20.sea_label_noise
#print axioms Frouros.C20.dummy_label
#print axioms Frouros.C20.seaCheck_none_iff
#print axioms Frouros.C20.seaCheck_invalidBlock_iff
#print axioms Frouros.C20.seaCheck_value_iff
#print axioms Frouros.C20.dummyCheck_none_iff
#print axioms Frouros.C20.dummyCheck_some_iff
#print axioms Frouros.C20.dstep_download_ok
#print axioms Frouros.C20.dstep_download_fail
#print axioms Frouros.C20.dstep_downloadError_iff
#print axioms Frouros.C20.dstep_load_ok
#print axioms Frouros.C20.dstep_load_bad
#print axioms Frouros.C20.download_then_load
#print axioms Frouros.C20.download_eq_firstOk
#print axioms Frouros.C20.downloads_history
#print axioms Frouros.C20.spent_absorbing
