/-
  Cov2 — soundness of the branch tags of RDDM and ADWIN (`FrourosModel/Branch.lean`) with respect to
  `RDDM.step` / `ADWIN.step`; continues `Cov.lean`, which left these two detectors unproved.

  All theorems hold for an ARBITRARY carrier (`[Carrier α]`), configuration and state; the state after
  is the model's own `step c s v`.  The two `*_witness` theorems use the toy carrier `Toy` defined here.

  RDDM
  * `rddm_step_eq`, `rddm_step_error`, `rddm_step_ok` : `step`, guard by guard (`rddmPre` = the state
    after counting the sample and the optional `rebuild`; `rddmGuards` = the outcomes of `step`'s guards
    on the very arguments it evaluates them on);
  * `tag_eq_RDDM`            : tag = "err" | (rebuild.)? ++ `rddmRest guards`;
  * `tag_err_iff_RDDM`, `tag_rebuild_iff_RDDM`, `tag_rebuild_mem_iff_RDDM`, `tag_warm_iff_RDDM`,
    `rddmGuards_iff`, `rddmRest_iff`, `tag_flags_RDDM`, `tag_mem_RDDM`, `branch_rddm_eq`.
  * FINDINGS.  (a) `D.keeplast` is computed from `o.rddmDrift || o.numWarnings == 0` while `step` tests
    `numWarnings == 0` AFTER the rebuild: the two AGREE (`rddm_nw0`), no discrepancy.
    (b) `.maxconcept` is computed as `n.rddmDrift && !n.drift`: on the warn-limit path `step` evaluates
    its `maxConcept` guard too, but the tag is `D.warnlimit` whatever its outcome
    (`rddm_warnlimit_silent_on_maxconcept`, `rddm_warnlimit_maxconcept_witness`).
    (c) a state that already carries `err` gets the tag `err` although `step` runs its whole path
    (`tag_err_iff_RDDM`, second part).

  ADWIN
  * `adwin_step_eq`, `adwin_step_n`, `adwin_step_numBuckets_le`, `tag_eq_ADWIN`, `tag_err_iff_ADWIN`,
    `tag_check_iff_ADWIN`, `tag_mem_ADWIN`.
  * FINDING.  The tag's `deleted` is the fall of the counter `numBuckets`, which `deleteOldest` decrements
    with natural subtraction; when `numBuckets` is smaller than the number of deletions the tag under-counts
    (`adwin_cut1_witness`: two entries deleted, tag `check.cut1`; the state of the witness is not claimed
    reachable from `init`).  `check.nocut` is exact as far as the counter goes (`tag_check_iff_ADWIN`).
  NOT PROVED: that `numBuckets` unchanged ⇔ no stored entry removed (only the counter is characterised);
  the `.rowsdropped` component is carried along verbatim, not characterised.
-/
import FrourosModel.Branch
import FrourosProofs.Props.Cov
namespace Frouros.Cov2
open Frouros Det
variable {α : Type} [Carrier α]

/-! ## RDDM -/

/-- the state `RDDM.step c s v` works on once it has counted the sample and, when `s.rddmDrift`, run
`rebuild` (the first two `let`s of `RDDM.step`, verbatim) -/
def rddmPre (c : RDDM.Cfg α) (s0 : RDDM.State α) : RDDM.State α :=
  let s := { s0 with n := s0.n + 1 }
  if s.rddmDrift then RDDM.rebuild c s else s

/-- the remainder of `RDDM.step` (verbatim copy of its text after the first two `let`s); only a proof
device: `rddm_step_eq` shows by `rfl` that `RDDM.step` IS this function applied to `rddmPre` -/
def rddmTail (c : RDDM.Cfg α) (s : RDDM.State α) (v : α) : RDDM.State α :=
  match s.preds.enqueue v with
  | .error e => { s with err := some e }
  | .ok (_, q) =>
  let s := { s with preds := q, er := s.er.update v }
  if c.minN ≤ s.n then
    let (eps, std) := DDM.epsStd s.er s.n
    let m := if DDM.belowMin eps s.minPS then some (s.er.mean, std) else s.minPS
    let s := { s with minPS := m }
    if DDM.exceeds eps m c.drift then
      let s := { s with rddmDrift := true, drift := true, warning := false }
      if s.numWarnings == 0 then RDDM.keepLast s else s
    else
      let s :=
        if DDM.exceeds eps m c.warn then
          if c.maxWarn ≤ s.numWarnings then
            RDDM.keepLast { s with rddmDrift := true, drift := true, warning := false }
          else
            { s with warning := true, numWarnings := s.numWarnings + 1, drift := false }
        else
          { s with drift := false, warning := false, numWarnings := 0 }
      if decide (c.maxConcept ≤ s.n) && !s.warning then { s with rddmDrift := true } else s
  else
    { s with drift := false, warning := false }

theorem rddm_step_eq (c : RDDM.Cfg α) (s : RDDM.State α) (v : α) :
    RDDM.step c s v = rddmTail c (rddmPre c s) v := rfl

theorem rddmPre_rddmDrift (c : RDDM.Cfg α) (s : RDDM.State α) : (rddmPre c s).rddmDrift = false := by
  unfold rddmPre RDDM.rebuild
  cases h : s.rddmDrift <;> simp

theorem rddmPre_numWarnings (c : RDDM.Cfg α) (s : RDDM.State α) :
    (rddmPre c s).numWarnings = if s.rddmDrift then 0 else s.numWarnings := by
  unfold rddmPre RDDM.rebuild
  cases h : s.rddmDrift <;> simp

theorem rddmPre_err (c : RDDM.Cfg α) (s : RDDM.State α) : (rddmPre c s).err = s.err := by
  unfold rddmPre RDDM.rebuild
  cases h : s.rddmDrift <;> simp

theorem rddmPre_preds (c : RDDM.Cfg α) (s : RDDM.State α) : (rddmPre c s).preds = s.preds := by
  unfold rddmPre RDDM.rebuild
  cases h : s.rddmDrift <;> simp

/-- the counter `RDDM.step c s v` compares with `minN` / `maxConcept`: `s.n + 1`, or the rewound counter
of the replay when `step` ran `rebuild` -/
theorem rddmPre_n (c : RDDM.Cfg α) (s : RDDM.State α) :
    (rddmPre c s).n =
      if s.rddmDrift then (RDDM.replay c s.drift s.preds s.preds.count s.preds.first 0 Mean.init none).1
      else s.n + 1 := by
  unfold rddmPre RDDM.rebuild
  cases h : s.rddmDrift <;> simp

/-- `eps` as `RDDM.step c s v` computes it -/
def rddmEps (c : RDDM.Cfg α) (s : RDDM.State α) (v : α) : α :=
  (DDM.epsStd ((rddmPre c s).er.update v) (rddmPre c s).n).1
/-- `std` as `RDDM.step c s v` computes it -/
def rddmStd (c : RDDM.Cfg α) (s : RDDM.State α) (v : α) : α :=
  (DDM.epsStd ((rddmPre c s).er.update v) (rddmPre c s).n).2
/-- the minimum `m` `RDDM.step c s v` stores and compares against -/
def rddmM (c : RDDM.Cfg α) (s : RDDM.State α) (v : α) : Option (α × α) :=
  if DDM.belowMin (rddmEps c s v) (rddmPre c s).minPS
  then some (((rddmPre c s).er.update v).mean, rddmStd c s v) else (rddmPre c s).minPS

/-- the outcomes of the guards of `RDDM.step c s v`, with the very arguments `step` evaluates them on -/
structure RGuards where
  hot : Bool
  exD : Bool
  exW : Bool
  lim : Bool
  nw0 : Bool
  mc : Bool

def rddmGuards (c : RDDM.Cfg α) (s : RDDM.State α) (v : α) : RGuards where
  hot := decide (c.minN ≤ (rddmPre c s).n)
  exD := DDM.exceeds (rddmEps c s v) (rddmM c s v) c.drift
  exW := DDM.exceeds (rddmEps c s v) (rddmM c s v) c.warn
  lim := decide (c.maxWarn ≤ (rddmPre c s).numWarnings)
  nw0 := (rddmPre c s).numWarnings == 0
  mc := decide (c.maxConcept ≤ (rddmPre c s).n)

theorem rddmTail_error (c : RDDM.Cfg α) (p : RDDM.State α) (v : α) (e : Err)
    (he : p.preds.enqueue v = .error e) : rddmTail c p v = { p with err := some e } := by
  simp only [rddmTail, he]

theorem rddmTail_ok (c : RDDM.Cfg α) (p : RDDM.State α) (v : α) (x : Option α) (q : CQ α)
    (he : p.preds.enqueue v = .ok (x, q)) (hp : p.rddmDrift = false) :
    let s' := rddmTail c p v
    let er := p.er.update v
    let eps := (DDM.epsStd er p.n).1
    let std := (DDM.epsStd er p.n).2
    let m := if DDM.belowMin eps p.minPS then some (er.mean, std) else p.minPS
    let hot := decide (c.minN ≤ p.n)
    let exD := DDM.exceeds eps m c.drift
    let exW := DDM.exceeds eps m c.warn
    let lim := decide (c.maxWarn ≤ p.numWarnings)
    let nw0 := p.numWarnings == 0
    let mc := decide (c.maxConcept ≤ p.n)
    s'.n = p.n ∧ s'.er = er ∧
    s'.drift = (hot && (exD || (exW && lim))) ∧
    s'.warning = (hot && !exD && exW && !lim) ∧
    s'.rddmDrift = (hot && (exD || (exW && lim) || (!exW && mc))) ∧
    (hot = true → s'.minPS = m) ∧
    s'.err = (if hot && ((exD && nw0) || (!exD && exW && lim)) then
                (match q.keepLast with | .ok _ => p.err | .error e => some e) else p.err) := by
  simp only [rddmTail, he]
  by_cases h1 : c.minN ≤ p.n
  · simp only [h1, if_true, decide_true, Bool.true_and]
    generalize (if DDM.belowMin (DDM.epsStd (p.er.update v) p.n).1 p.minPS = true then
        some ((p.er.update v).mean, (DDM.epsStd (p.er.update v) p.n).2) else p.minPS) = m
    cases hD : DDM.exceeds (DDM.epsStd (p.er.update v) p.n).1 m c.drift <;>
    cases hW : DDM.exceeds (DDM.epsStd (p.er.update v) p.n).1 m c.warn <;>
    by_cases hl : c.maxWarn ≤ p.numWarnings <;>
    by_cases hm : c.maxConcept ≤ p.n <;>
    cases h0 : (p.numWarnings == 0) <;>
    simp [hl, hm, hp, RDDM.keepLast] <;>
    cases q.keepLast <;> simp
  · simp [h1, hp]


/-- `RDDM.step` when the queue raised: only `err` is written on the state `rddmPre` -/
theorem rddm_step_error (c : RDDM.Cfg α) (s : RDDM.State α) (v : α) (e : Err)
    (he : s.preds.enqueue v = .error e) :
    RDDM.step c s v = { rddmPre c s with err := some e } := by
  rw [rddm_step_eq]
  exact rddmTail_error c _ v e (by rw [rddmPre_preds]; exact he)

/-- `RDDM.step` when the queue accepted the value: the fields it writes, guard by guard -/
theorem rddm_step_ok (c : RDDM.Cfg α) (s : RDDM.State α) (v : α) (x : Option α) (q : CQ α)
    (he : s.preds.enqueue v = .ok (x, q)) :
    let s' := RDDM.step c s v
    let g := rddmGuards c s v
    s'.n = (rddmPre c s).n ∧ s'.er = (rddmPre c s).er.update v ∧
    s'.drift = (g.hot && (g.exD || (g.exW && g.lim))) ∧
    s'.warning = (g.hot && !g.exD && g.exW && !g.lim) ∧
    s'.rddmDrift = (g.hot && (g.exD || (g.exW && g.lim) || (!g.exW && g.mc))) ∧
    (g.hot = true → s'.minPS = rddmM c s v) ∧
    s'.err = (if g.hot && ((g.exD && g.nw0) || (!g.exD && g.exW && g.lim)) then
                (match q.keepLast with | .ok _ => s.err | .error e => some e) else s.err) := by
  have h := rddmTail_ok c (rddmPre c s) v x q (by rw [rddmPre_preds]; exact he) (rddmPre_rddmDrift c s)
  rw [rddmPre_err] at h
  exact h

/-- the part of the tag after the optional `rebuild.` prefix, as a function of the guard outcomes -/
def rddmRest (g : RGuards) : String :=
  if g.hot then
    if g.exD then (if g.nw0 then "D.keeplast" else "D.afterwarn")
    else if g.exW then (if g.lim then "D.warnlimit" else "W")
    else if g.mc then "N.maxconcept" else "N"
  else "warm"

/-- `step` tests `numWarnings == 0` on the state AFTER the rebuild; the tag recomputes it from the state
before as `o.rddmDrift || o.numWarnings == 0`: the two agree -/
theorem rddm_nw0 (c : RDDM.Cfg α) (s : RDDM.State α) (v : α) :
    (rddmGuards c s v).nw0 = (s.rddmDrift || s.numWarnings == 0) := by
  unfold rddmGuards
  simp only [rddmPre_numWarnings]
  cases s.rddmDrift <;> simp

theorem tag_eq_RDDM (c : RDDM.Cfg α) (s : RDDM.State α) (v : α) :
    branchRDDM c s (RDDM.step c s v) =
      if (RDDM.step c s v).err.isSome then "err"
      else (if s.rddmDrift then "rebuild." else "") ++ rddmRest (rddmGuards c s v) := by
  cases he : s.preds.enqueue v with
  | error e => simp [rddm_step_error c s v e he, branchRDDM]
  | ok xq =>
    obtain ⟨x, q⟩ := xq
    obtain ⟨hn, her, hd, hw, hr, hm, -⟩ := rddm_step_ok c s v x q he
    cases herr : (RDDM.step c s v).err with
    | some e => simp [branchRDDM, herr]
    | none =>
      unfold branchRDDM
      simp only [herr, hn, her, hd, hw, hr]
      have hhot : (rddmGuards c s v).hot = decide (c.minN ≤ (rddmPre c s).n) := rfl
      have hnw := rddm_nw0 c s v
      by_cases hh : c.minN ≤ (rddmPre c s).n
      · have hhot' : (rddmGuards c s v).hot = true := by rw [hhot]; exact decide_eq_true hh
        rw [hm hhot']
        have hD : DDM.exceeds (DDM.epsStd ((rddmPre c s).er.update v) (rddmPre c s).n).fst (rddmM c s v) c.drift
            = (rddmGuards c s v).exD := rfl
        rw [hD, ← hnw]
        unfold rddmRest
        simp only [hhot', hh, if_true, Bool.true_and]
        generalize (rddmGuards c s v).exD = a
        generalize (rddmGuards c s v).exW = b
        generalize (rddmGuards c s v).lim = l
        generalize (rddmGuards c s v).nw0 = z
        generalize (rddmGuards c s v).mc = k
        generalize s.rddmDrift = r
        cases a <;> cases b <;> cases l <;> cases z <;> cases k <;> cases r <;> rfl
      · have hhot' : (rddmGuards c s v).hot = false := by rw [hhot]; exact decide_eq_false hh
        unfold rddmRest
        simp only [hhot', hh, if_false]
        cases s.rddmDrift <;> rfl


theorem rddmRest_ne_err (r : Bool) (g : RGuards) :
    (if r then "rebuild." else "") ++ rddmRest g ≠ "err" := by
  obtain ⟨h, a, b, l, z, k⟩ := g
  cases r <;> cases h <;> cases a <;> cases b <;> cases l <;> cases z <;> cases k <;> decide

/-- `step`'s `keepLast` ran: on the drift path with no warnings counted, or on the warn-limit path -/
def RGuards.keepRan (g : RGuards) : Bool :=
  g.hot && ((g.exD && g.nw0) || (!g.exD && g.exW && g.lim))

/-- RDDM: tag `"err"` iff the state `step` returned carries an error; and that is the case iff the state
before already carried one (then `step` still ran its whole path, which the tag does not name), or the
`enqueue` of `step` raised, or `step` ran `keepLast` and it raised -/
theorem tag_err_iff_RDDM (c : RDDM.Cfg α) (s : RDDM.State α) (v : α) :
    (branchRDDM c s (RDDM.step c s v) = "err" ↔ (RDDM.step c s v).err ≠ none) ∧
    ((RDDM.step c s v).err ≠ none ↔
      (s.err ≠ none ∨ (∃ e, s.preds.enqueue v = .error e) ∨
        (∃ x q e, s.preds.enqueue v = .ok (x, q) ∧ (rddmGuards c s v).keepRan = true ∧
          q.keepLast = .error e))) := by
  constructor
  · rw [tag_eq_RDDM]
    cases h : (RDDM.step c s v).err with
    | none => simpa using rddmRest_ne_err s.rddmDrift (rddmGuards c s v)
    | some e => simp
  · cases he : s.preds.enqueue v with
    | error e => simp [rddm_step_error c s v e he]
    | ok xq =>
      obtain ⟨x, q⟩ := xq
      obtain ⟨-, -, -, -, -, -, herr⟩ := rddm_step_ok c s v x q he
      rw [herr]
      unfold RGuards.keepRan
      cases (rddmGuards c s v).hot && ((rddmGuards c s v).exD && (rddmGuards c s v).nw0 ||
        !(rddmGuards c s v).exD && (rddmGuards c s v).exW && (rddmGuards c s v).lim)
      · simp
      · cases hk : q.keepLast with
        | ok q' => simp [hk]
        | error e =>
          constructor
          · intro _; exact Or.inr (Or.inr ⟨x, q, e, rfl, rfl, hk⟩)
          · intro _; simp

/-- no error after `step` ⇒ its `enqueue` succeeded -/
theorem rddm_noerr_ok (c : RDDM.Cfg α) (s : RDDM.State α) (v : α) (h : (RDDM.step c s v).err = none) :
    ∃ x q, s.preds.enqueue v = .ok (x, q) := by
  cases he : s.preds.enqueue v with
  | error e => rw [rddm_step_error c s v e he] at h; simp at h
  | ok xq => exact ⟨xq.1, xq.2, rfl⟩

/-- RDDM without an error: the tag is the `rebuild.` prefix iff `s.rddmDrift` (iff `step` ran `rebuild`
first), followed by the string built from the outcomes of `step`'s own guards (`rddmRest`) -/
theorem tag_rebuild_iff_RDDM (c : RDDM.Cfg α) (s : RDDM.State α) (v : α)
    (h : (RDDM.step c s v).err = none) :
    branchRDDM c s (RDDM.step c s v) =
      (if s.rddmDrift then "rebuild." else "") ++ rddmRest (rddmGuards c s v) := by
  rw [tag_eq_RDDM, h]; rfl

/-- the guard outcomes, spelled out -/
theorem rddmGuards_iff (c : RDDM.Cfg α) (s : RDDM.State α) (v : α) :
    let g := rddmGuards c s v
    (g.hot = true ↔ c.minN ≤ (rddmPre c s).n) ∧
    (g.exD = DDM.exceeds (rddmEps c s v) (rddmM c s v) c.drift) ∧
    (g.exW = DDM.exceeds (rddmEps c s v) (rddmM c s v) c.warn) ∧
    (g.lim = true ↔ c.maxWarn ≤ (rddmPre c s).numWarnings) ∧
    (g.nw0 = ((rddmPre c s).numWarnings == 0)) ∧
    (g.nw0 = (s.rddmDrift || s.numWarnings == 0)) ∧
    (g.mc = true ↔ c.maxConcept ≤ (rddmPre c s).n) := by
  refine ⟨?_, rfl, rfl, ?_, rfl, rddm_nw0 c s v, ?_⟩ <;> simp [rddmGuards]

/-- the part after the prefix names the path of `step`, guard by guard -/
theorem rddmRest_iff (g : RGuards) :
    (rddmRest g = "warm" ↔ g.hot = false) ∧
    (rddmRest g = "D.keeplast" ↔ g.hot = true ∧ g.exD = true ∧ g.nw0 = true) ∧
    (rddmRest g = "D.afterwarn" ↔ g.hot = true ∧ g.exD = true ∧ g.nw0 = false) ∧
    (rddmRest g = "D.warnlimit" ↔ g.hot = true ∧ g.exD = false ∧ g.exW = true ∧ g.lim = true) ∧
    (rddmRest g = "W" ↔ g.hot = true ∧ g.exD = false ∧ g.exW = true ∧ g.lim = false) ∧
    (rddmRest g = "N.maxconcept" ↔ g.hot = true ∧ g.exD = false ∧ g.exW = false ∧ g.mc = true) ∧
    (rddmRest g = "N" ↔ g.hot = true ∧ g.exD = false ∧ g.exW = false ∧ g.mc = false) := by
  obtain ⟨h, a, b, l, z, k⟩ := g
  cases h <;> cases a <;> cases b <;> cases l <;> cases z <;> cases k <;> decide


/-- RDDM without an error: tag `warm` (after the optional prefix) iff `step`'s warm-up guard failed on the
counter it compares (`(rddmPre c s).n`: `s.n + 1`, or the rewound counter after a rebuild, `rddmPre_n`) -/
theorem tag_warm_iff_RDDM (c : RDDM.Cfg α) (s : RDDM.State α) (v : α)
    (h : (RDDM.step c s v).err = none) :
    branchRDDM c s (RDDM.step c s v) = (if s.rddmDrift then "rebuild." else "") ++ "warm" ↔
      ¬ (c.minN ≤ (rddmPre c s).n) := by
  rw [tag_rebuild_iff_RDDM c s v h]
  have hh : (rddmGuards c s v).hot = decide (c.minN ≤ (rddmPre c s).n) := rfl
  rw [← decide_eq_false_iff_not, ← hh]
  generalize rddmGuards c s v = g
  obtain ⟨h, a, b, l, z, k⟩ := g
  cases s.rddmDrift <;> cases h <;> cases a <;> cases b <;> cases l <;> cases z <;> cases k <;> decide

/-- RDDM without an error: the tag's verdict agrees with the flags `step` set.
`D.*` iff `drift` (and then `rddmDrift` is set too), `W` iff `warning`, `N.maxconcept` iff no drift but
`rddmDrift` (the next update will rebuild), `N` / `warm` iff none of the three flags -/
theorem tag_flags_RDDM (c : RDDM.Cfg α) (s : RDDM.State α) (v : α)
    (h : (RDDM.step c s v).err = none) :
    let s' := RDDM.step c s v
    let t := rddmRest (rddmGuards c s v)
    (t ∈ ["D.keeplast", "D.afterwarn", "D.warnlimit"] ↔ s'.drift = true) ∧
    (t = "W" ↔ s'.warning = true) ∧
    (t = "N.maxconcept" ↔ s'.drift = false ∧ s'.rddmDrift = true) ∧
    (t ∈ ["N", "warm"] ↔ s'.drift = false ∧ s'.warning = false ∧ s'.rddmDrift = false) ∧
    (s'.drift = true → s'.rddmDrift = true ∧ s'.warning = false) ∧
    s'.n = (rddmPre c s).n := by
  obtain ⟨x, q, he⟩ := rddm_noerr_ok c s v h
  obtain ⟨hn, -, hd, hw, hr, -, -⟩ := rddm_step_ok c s v x q he
  simp only [hn, hd, hw, hr]
  generalize rddmGuards c s v = g
  obtain ⟨h, a, b, l, z, k⟩ := g
  cases h <;> cases a <;> cases b <;> cases l <;> cases z <;> cases k <;> decide

/-- RDDM: the universe of tags.  `rebuild.D.afterwarn` is absent: after a rebuild `numWarnings` is 0 -/
theorem tag_mem_RDDM (c : RDDM.Cfg α) (s : RDDM.State α) (v : α) :
    branchRDDM c s (RDDM.step c s v) ∈
      ["err", "warm", "D.keeplast", "D.afterwarn", "D.warnlimit", "W", "N", "N.maxconcept",
       "rebuild.warm", "rebuild.D.keeplast", "rebuild.D.warnlimit", "rebuild.W", "rebuild.N",
       "rebuild.N.maxconcept"] := by
  rw [tag_eq_RDDM]
  have hz := rddm_nw0 c s v
  generalize rddmGuards c s v = g at hz ⊢
  obtain ⟨h, a, b, l, z, k⟩ := g
  simp only at hz
  cases (RDDM.step c s v).err.isSome
  · cases hr : s.rddmDrift
    · cases h <;> cases a <;> cases b <;> cases l <;> cases z <;> cases k <;> decide
    · rw [hr] at hz; simp only [Bool.true_or] at hz; subst hz
      cases h <;> cases a <;> cases b <;> cases l <;> cases k <;> decide
  · simp

/-- The `.maxconcept` component is computed as `n.rddmDrift && !n.drift`, so it is silent on the
warn-limit path: there `step` evaluates its guard `decide (c.maxConcept ≤ s.n) && !s.warning` as well
(with `warning = false`, so its outcome is `c.maxConcept ≤ n`), but the tag is `D.warnlimit` whatever the
outcome.  (On the `D.keeplast` / `D.afterwarn` path `step` does not evaluate that guard, and on the `W`
path it fails because `warning` is set; so this is the only path where a guard outcome is not named.) -/
theorem rddm_warnlimit_silent_on_maxconcept (g : RGuards)
    (h : g.hot = true) (hD : g.exD = false) (hW : g.exW = true) (hl : g.lim = true) :
    rddmRest { g with mc := true } = "D.warnlimit" ∧ rddmRest { g with mc := false } = "D.warnlimit" := by
  obtain ⟨h', a, b, l, z, k⟩ := g
  simp only at h hD hW hl
  subst h hD hW hl
  exact ⟨rfl, rfl⟩


/-! ### a toy carrier for witnesses (natural numbers, truncated subtraction, `sqrt = log = exp = id`) -/
structure Toy where
  v : Nat
  deriving DecidableEq, Repr

instance : Num Toy where
  add a b := ⟨a.v + b.v⟩
  sub a b := ⟨a.v - b.v⟩
  mul a b := ⟨a.v * b.v⟩
  div a b := ⟨a.v / b.v⟩
  neg a := a
  ofNat n := ⟨n⟩
  ofDec m _ := ⟨m⟩
  sqrt a := a
  log a := a
  exp a := a
  abs a := a
  npow a n := ⟨a.v ^ n⟩
  lt a b := decide (a.v < b.v)
  le a b := decide (a.v ≤ b.v)
  beq a b := a.v == b.v

instance : Carrier Toy := { ofFloat := fun _ => ⟨0⟩, toFloat := fun _ => 0.0 }

def rddmWitCfg (maxConcept : Nat) : RDDM.Cfg Toy :=
  { warn := ⟨1⟩, drift := ⟨10⟩, minN := 0, maxConcept := maxConcept, minConcept := 1, maxWarn := 0 }
def rddmWitState : RDDM.State Toy :=
  { n := 0, drift := false, warning := false, er := ⟨⟨0⟩, 0⟩, minPS := some (⟨2⟩, ⟨1⟩),
    numWarnings := 0, rddmDrift := false, preds := CQ.init 1 }

/-- WITNESS (toy carrier) of `rddm_warnlimit_silent_on_maxconcept`: two configurations that differ only
in `maxConcept`; on the same state and value `step` takes the warn-limit path in both, its `maxConcept`
guard succeeds in the first and fails in the second, and the tag is `D.warnlimit` in both -/
theorem rddm_warnlimit_maxconcept_witness :
    branchRDDM (rddmWitCfg 0) rddmWitState (RDDM.step (rddmWitCfg 0) rddmWitState ⟨5⟩) = "D.warnlimit" ∧
    branchRDDM (rddmWitCfg 100) rddmWitState (RDDM.step (rddmWitCfg 100) rddmWitState ⟨5⟩) = "D.warnlimit" ∧
    (rddmGuards (rddmWitCfg 0) rddmWitState ⟨5⟩).mc = true ∧
    (rddmGuards (rddmWitCfg 100) rddmWitState ⟨5⟩).mc = false ∧
    (RDDM.step (rddmWitCfg 0) rddmWitState ⟨5⟩).err = none := by
  decide

/-- RDDM without an error: the tag is one of the six `rebuild.*` tags iff `s.rddmDrift`, i.e. iff `step`
ran `rebuild` first (the literal `String.isPrefixOf` does not reduce in the kernel; within the finite
universe `tag_mem_RDDM` this membership IS "starts with `rebuild.`") -/
theorem tag_rebuild_mem_iff_RDDM (c : RDDM.Cfg α) (s : RDDM.State α) (v : α)
    (h : (RDDM.step c s v).err = none) :
    branchRDDM c s (RDDM.step c s v) ∈
      ["rebuild.warm", "rebuild.D.keeplast", "rebuild.D.warnlimit", "rebuild.W", "rebuild.N",
       "rebuild.N.maxconcept"] ↔ s.rddmDrift = true := by
  rw [tag_rebuild_iff_RDDM c s v h]
  have hz := rddm_nw0 c s v
  generalize rddmGuards c s v = g at hz ⊢
  obtain ⟨h, a, b, l, z, k⟩ := g
  simp only at hz
  cases hr : s.rddmDrift
  · cases h <;> cases a <;> cases b <;> cases l <;> cases z <;> cases k <;> decide
  · rw [hr] at hz; simp only [Bool.true_or] at hz; subst hz
    cases h <;> cases a <;> cases b <;> cases l <;> cases k <;> decide

/-- what the driver prints for an RDDM instance, in terms of `step`'s guards -/
theorem branch_rddm_eq (c : RDDM.Cfg α) (s : RDDM.State α) (v : Float) (tape : List Nat) :
    Det.branch (.rddm c s) (Det.update (.rddm c s) v tape) v =
      "RDDM:" ++ (if (RDDM.step c s (Carrier.ofFloat v)).err.isSome then "err"
        else (if s.rddmDrift then "rebuild." else "") ++ rddmRest (rddmGuards c s (Carrier.ofFloat v))) := by
  rw [Cov.branch_rddm, tag_eq_RDDM]

/-! ## ADWIN -/

/-- the state after the insertion of `ADWIN.step c s v` (its first `let`, verbatim) -/
def adwinIns (c : ADWIN.Cfg α) (s : ADWIN.State α) (v : α) : ADWIN.State α :=
  ADWIN.insert c { s with n := s.n + 1, drift := false } v

/-- the number of merges the insertion of `ADWIN.step c s v` performs (as `ADWIN.insert` counts them) -/
def adwinMerges (c : ADWIN.Cfg α) (s : ADWIN.State α) (v : α) : Nat :=
  match s.rows with
  | [] => 0
  | r0 :: rest => ADWIN.compressMerges c.m 0 (r0 ++ [(v, Num.zero)]) rest

/-- the guard of `ADWIN.step c s v`, on the state after the insertion -/
def adwinGuard (c : ADWIN.Cfg α) (s : ADWIN.State α) (v : α) : Bool :=
  (adwinIns c s v).n % c.clock == 0 && c.minN < (adwinIns c s v).width

theorem adwin_step_eq (c : ADWIN.Cfg α) (s : ADWIN.State α) (v : α) :
    ADWIN.step c s v =
      if adwinGuard c s v then
        ADWIN.checkLoop c (ADWIN.numEntries (adwinIns c s v) + 1) (adwinIns c s v)
      else adwinIns c s v := rfl

theorem adwinIns_n (c : ADWIN.Cfg α) (s : ADWIN.State α) (v : α) : (adwinIns c s v).n = s.n + 1 := rfl
theorem adwinIns_width (c : ADWIN.Cfg α) (s : ADWIN.State α) (v : α) :
    (adwinIns c s v).width = s.width + 1 := rfl
theorem adwinIns_numBuckets (c : ADWIN.Cfg α) (s : ADWIN.State α) (v : α) :
    (adwinIns c s v).numBuckets = s.numBuckets + 1 + adwinMerges c s v := rfl

theorem deleteOldest_n (s : ADWIN.State α) : (ADWIN.deleteOldest s).n = s.n := by
  unfold ADWIN.deleteOldest
  repeat' split
  all_goals rfl

theorem deleteOldest_numBuckets_le (s : ADWIN.State α) :
    (ADWIN.deleteOldest s).numBuckets ≤ s.numBuckets := by
  unfold ADWIN.deleteOldest
  repeat' split
  all_goals simp

theorem checkLoop_n (c : ADWIN.Cfg α) (fuel : Nat) (s : ADWIN.State α) :
    (ADWIN.checkLoop c fuel s).n = s.n := by
  induction fuel generalizing s with
  | zero => rfl
  | succ k ih =>
    unfold ADWIN.checkLoop
    split
    · split
      · rw [ih]; exact deleteOldest_n s
      · rfl
    · rfl

theorem checkLoop_numBuckets_le (c : ADWIN.Cfg α) (fuel : Nat) (s : ADWIN.State α) :
    (ADWIN.checkLoop c fuel s).numBuckets ≤ s.numBuckets := by
  induction fuel generalizing s with
  | zero => exact Nat.le_refl _
  | succ k ih =>
    unfold ADWIN.checkLoop
    split
    · split
      · exact Nat.le_trans (ih _) (deleteOldest_numBuckets_le s)
      · exact Nat.le_refl _
    · exact Nat.le_refl _

theorem adwin_step_n (c : ADWIN.Cfg α) (s : ADWIN.State α) (v : α) : (ADWIN.step c s v).n = s.n + 1 := by
  rw [adwin_step_eq]
  split
  · rw [checkLoop_n]; rfl
  · rfl

theorem adwin_step_numBuckets_le (c : ADWIN.Cfg α) (s : ADWIN.State α) (v : α) :
    (ADWIN.step c s v).numBuckets ≤ s.numBuckets + 1 + adwinMerges c s v := by
  rw [adwin_step_eq, ← adwinIns_numBuckets]
  split
  · exact checkLoop_numBuckets_le _ _ _
  · exact Nat.le_refl _

/-- the `check` component of the tag from the guard outcome and the tag's `deleted` -/
def adwinChk (checked : Bool) (deleted : Nat) : String :=
  if !checked then "nocheck" else if deleted == 0 then "check.nocut"
  else if deleted == 1 then "check.cut1" else "check.cutmany"

/-- ADWIN: the tag is the string built from `step`'s own quantities -/
theorem tag_eq_ADWIN (c : ADWIN.Cfg α) (s : ADWIN.State α) (v : α) :
    branchADWIN c s (ADWIN.step c s v) v =
      if (ADWIN.step c s v).err then "err" else
        "merge" ++ toString (min (adwinMerges c s v) 3) ++ "." ++
          adwinChk (adwinGuard c s v)
            ((adwinIns c s v).numBuckets - (ADWIN.step c s v).numBuckets) ++
          (if decide ((ADWIN.step c s v).rows.length < (adwinIns c s v).rows.length)
           then ".rowsdropped" else "") := by
  unfold branchADWIN
  simp only [adwin_step_n]
  cases (ADWIN.step c s v).err
  · rfl
  · rfl


theorem adwinChk_iff (g : Bool) (d : Nat) :
    (adwinChk g d = "nocheck" ↔ g = false) ∧
    (adwinChk g d = "check.nocut" ↔ g = true ∧ d = 0) ∧
    (adwinChk g d = "check.cut1" ↔ g = true ∧ d = 1) ∧
    (adwinChk g d = "check.cutmany" ↔ g = true ∧ 2 ≤ d) := by
  unfold adwinChk
  cases g
  · simp
  · rcases d with _ | _ | d <;> simp

theorem adwinChk_mem (g : Bool) (d : Nat) :
    adwinChk g d ∈ ["nocheck", "check.nocut", "check.cut1", "check.cutmany"] := by
  unfold adwinChk
  cases g
  · simp
  · rcases d with _ | _ | d <;> simp

theorem adwinChk_mem_true (d : Nat) :
    adwinChk true d ∈ ["check.nocut", "check.cut1", "check.cutmany"] := by
  unfold adwinChk
  rcases d with _ | _ | d <;> simp

theorem adwin_tag_ne_err (k : Nat) (hk : k ≤ 3) (x : String)
    (hx : x ∈ ["nocheck", "check.nocut", "check.cut1", "check.cutmany"]) (r : Bool) :
    "merge" ++ toString k ++ "." ++ x ++ (if r then ".rowsdropped" else "") ≠ "err" := by
  obtain rfl | rfl | rfl | rfl : k = 0 ∨ k = 1 ∨ k = 2 ∨ k = 3 := by omega
  all_goals
    simp only [List.mem_cons, List.not_mem_nil, or_false] at hx
    obtain rfl | rfl | rfl | rfl := hx <;> cases r <;> decide

/-- ADWIN: tag `"err"` iff the state `step` returned carries the error flag -/
theorem tag_err_iff_ADWIN (c : ADWIN.Cfg α) (s : ADWIN.State α) (v : α) :
    branchADWIN c s (ADWIN.step c s v) v = "err" ↔ (ADWIN.step c s v).err = true := by
  rw [tag_eq_ADWIN]
  cases (ADWIN.step c s v).err
  · simp only [Bool.false_eq_true, if_false, iff_false]
    exact adwin_tag_ne_err _ (Nat.min_le_right _ 3) _ (adwinChk_mem _ _) _
  · simp

/-- ADWIN without an error: the tag is `merge<k>.<chk><sfx>` where `k = min merges 3` with `merges` the
number of merges the insertion of `step` performed (`adwinIns_numBuckets`: the very count `ADWIN.insert`
adds to `numBuckets`; `adwinMerges` is `compressMerges c.m 0 (r0 ++ [(v, 0)]) rest` on row 0);
`chk = "nocheck"` iff `step`'s guard `n % clock == 0 && minN < width` (on the state after the insertion)
failed; `chk = "check.nocut"` iff the check ran and `numBuckets` after = `numBuckets` before + 1 + merges;
`check.cut1` / `check.cutmany` iff the check ran and `numBuckets` fell by exactly one / by two or more
below that value.  The natural subtraction in the tag's `deleted` is harmless for `nocut` (the loop never
increases `numBuckets`, `adwin_step_numBuckets_le`), but `numBuckets` itself is decremented with natural
subtraction by `deleteOldest`, see `adwin_cut1_witness`. -/
theorem tag_check_iff_ADWIN (c : ADWIN.Cfg α) (s : ADWIN.State α) (v : α)
    (h : (ADWIN.step c s v).err = false) :
    ∃ chk : String,
      branchADWIN c s (ADWIN.step c s v) v =
        "merge" ++ toString (min (adwinMerges c s v) 3) ++ "." ++ chk ++
          (if decide ((ADWIN.step c s v).rows.length < (adwinIns c s v).rows.length)
           then ".rowsdropped" else "") ∧
      (chk = "nocheck" ↔ adwinGuard c s v = false) ∧
      (chk = "check.nocut" ↔ adwinGuard c s v = true ∧
        (ADWIN.step c s v).numBuckets = s.numBuckets + 1 + adwinMerges c s v) ∧
      (chk = "check.cut1" ↔ adwinGuard c s v = true ∧
        (ADWIN.step c s v).numBuckets + 1 = s.numBuckets + 1 + adwinMerges c s v) ∧
      (chk = "check.cutmany" ↔ adwinGuard c s v = true ∧
        (ADWIN.step c s v).numBuckets + 2 ≤ s.numBuckets + 1 + adwinMerges c s v) ∧
      (adwinGuard c s v = false → ADWIN.step c s v = adwinIns c s v) := by
  refine ⟨adwinChk (adwinGuard c s v) ((adwinIns c s v).numBuckets - (ADWIN.step c s v).numBuckets), ?_, ?_⟩
  · rw [tag_eq_ADWIN, h]; rfl
  · have hle := adwin_step_numBuckets_le c s v
    obtain ⟨h1, h2, h3, h4⟩ := adwinChk_iff (adwinGuard c s v)
      ((adwinIns c s v).numBuckets - (ADWIN.step c s v).numBuckets)
    have hi := adwinIns_numBuckets c s v
    refine ⟨h1, ?_, ?_, ?_, ?_⟩
    · rw [h2]; constructor <;> (intro ⟨a, b⟩; exact ⟨a, by omega⟩)
    · rw [h3]; constructor <;> (intro ⟨a, b⟩; exact ⟨a, by omega⟩)
    · rw [h4]; constructor <;> (intro ⟨a, b⟩; exact ⟨a, by omega⟩)
    · intro hg; rw [adwin_step_eq, hg]; rfl

/-- ADWIN: the universe of tags (`nocheck` never comes with `.rowsdropped`) -/
theorem tag_mem_ADWIN (c : ADWIN.Cfg α) (s : ADWIN.State α) (v : α) :
    branchADWIN c s (ADWIN.step c s v) v ∈
      ["err", "merge0.nocheck", "merge0.check.nocut",
       "merge0.check.nocut.rowsdropped", "merge0.check.cut1", "merge0.check.cut1.rowsdropped",
       "merge0.check.cutmany", "merge0.check.cutmany.rowsdropped", "merge1.nocheck",
       "merge1.check.nocut", "merge1.check.nocut.rowsdropped", "merge1.check.cut1",
       "merge1.check.cut1.rowsdropped", "merge1.check.cutmany", "merge1.check.cutmany.rowsdropped",
       "merge2.nocheck", "merge2.check.nocut", "merge2.check.nocut.rowsdropped",
       "merge2.check.cut1", "merge2.check.cut1.rowsdropped", "merge2.check.cutmany",
       "merge2.check.cutmany.rowsdropped", "merge3.nocheck", "merge3.check.nocut",
       "merge3.check.nocut.rowsdropped", "merge3.check.cut1", "merge3.check.cut1.rowsdropped",
       "merge3.check.cutmany", "merge3.check.cutmany.rowsdropped"] := by
  rw [tag_eq_ADWIN]
  cases (ADWIN.step c s v).err
  · have hk : min (adwinMerges c s v) 3 ≤ 3 := Nat.min_le_right _ 3
    generalize min (adwinMerges c s v) 3 = k at hk
    cases hg : adwinGuard c s v
    · have : ADWIN.step c s v = adwinIns c s v := by rw [adwin_step_eq, hg]; rfl
      rw [this]
      simp only [Nat.lt_irrefl, decide_false, adwinChk, Bool.not_false, if_true]
      obtain rfl | rfl | rfl | rfl : k = 0 ∨ k = 1 ∨ k = 2 ∨ k = 3 := by omega
      all_goals decide
    · have hx := adwinChk_mem_true ((adwinIns c s v).numBuckets - (ADWIN.step c s v).numBuckets)
      generalize adwinChk true ((adwinIns c s v).numBuckets - (ADWIN.step c s v).numBuckets) = x at hx
      generalize decide ((ADWIN.step c s v).rows.length < (adwinIns c s v).rows.length) = r
      simp only [List.mem_cons, List.not_mem_nil, or_false] at hx
      obtain rfl | rfl | rfl | rfl : k = 0 ∨ k = 1 ∨ k = 2 ∨ k = 3 := by omega
      all_goals
        obtain rfl | rfl | rfl := hx <;> cases r <;> decide
  · simp

def adwinWitCfg : ADWIN.Cfg Toy := { clock := 1, delta := ⟨1⟩, m := 5, minWindow := 0, minN := 0 }
def adwinWitState : ADWIN.State Toy :=
  { n := 0, drift := false, rows := [[(⟨0⟩, ⟨0⟩), (⟨0⟩, ⟨0⟩)], [(⟨20⟩, ⟨0⟩), (⟨20⟩, ⟨0⟩)]],
    total := ⟨40⟩, variance := ⟨0⟩, width := 6, numBuckets := 0 }

/-- WITNESS (toy carrier, a state NOT claimed reachable from `init`: it stores four entries with
`numBuckets = 0`): the check of `step` deletes TWO entries, but `numBuckets` (1 after the insertion) is
decremented with natural subtraction by `deleteOldest` and stops at 0, so the tag's
`deleted = 1 - 0 = 1` and the tag says `check.cut1`.  The tag's arithmetic names the change of the
counter `numBuckets`, not the number of deleted entries; the two agree only while `numBuckets` is at least
the number of deletions. -/
theorem adwin_cut1_witness :
    branchADWIN adwinWitCfg adwinWitState (ADWIN.step adwinWitCfg adwinWitState ⟨0⟩) ⟨0⟩
      = "merge0.check.cut1.rowsdropped" ∧
    ADWIN.numEntries (adwinIns adwinWitCfg adwinWitState ⟨0⟩) = 5 ∧
    ADWIN.numEntries (ADWIN.step adwinWitCfg adwinWitState ⟨0⟩) = 3 ∧
    (adwinIns adwinWitCfg adwinWitState ⟨0⟩).numBuckets = 1 ∧
    (ADWIN.step adwinWitCfg adwinWitState ⟨0⟩).numBuckets = 0 := by
  decide

/-! ## axioms -/
#print axioms rddm_step_eq
#print axioms rddmPre_rddmDrift
#print axioms rddmPre_numWarnings
#print axioms rddmPre_err
#print axioms rddmPre_preds
#print axioms rddmPre_n
#print axioms rddmTail_error
#print axioms rddmTail_ok
#print axioms rddm_step_error
#print axioms rddm_step_ok
#print axioms rddm_nw0
#print axioms tag_eq_RDDM
#print axioms rddmRest_ne_err
#print axioms tag_err_iff_RDDM
#print axioms rddm_noerr_ok
#print axioms tag_rebuild_iff_RDDM
#print axioms rddmGuards_iff
#print axioms rddmRest_iff
#print axioms tag_warm_iff_RDDM
#print axioms tag_flags_RDDM
#print axioms tag_mem_RDDM
#print axioms rddm_warnlimit_silent_on_maxconcept
#print axioms rddm_warnlimit_maxconcept_witness
#print axioms tag_rebuild_mem_iff_RDDM
#print axioms branch_rddm_eq
#print axioms adwin_step_eq
#print axioms adwinIns_n
#print axioms adwinIns_width
#print axioms adwinIns_numBuckets
#print axioms deleteOldest_n
#print axioms deleteOldest_numBuckets_le
#print axioms checkLoop_n
#print axioms checkLoop_numBuckets_le
#print axioms adwin_step_n
#print axioms adwin_step_numBuckets_le
#print axioms tag_eq_ADWIN
#print axioms adwinChk_iff
#print axioms adwinChk_mem
#print axioms adwinChk_mem_true
#print axioms adwin_tag_ne_err
#print axioms tag_err_iff_ADWIN
#print axioms tag_check_iff_ADWIN
#print axioms tag_mem_ADWIN
#print axioms adwin_cut1_witness

end Frouros.Cov2
