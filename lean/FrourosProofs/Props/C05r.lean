/-
  C05r — rounding error of ADWIN's running `total` and of the bucket totals
  (forward error analysis of the MODEL under the standard model of floating-point arithmetic).

  Model: `Frouros.ADWIN` in `FrourosModel/Window.lean` (unchanged).  Companion of `Props/C05.lean`, `C05b.lean`
  (exact arithmetic at ℝ) in the style of `Props/C07r.lean`.

  Setting: ANY carrier `α` with `[Num α]`, a value map `toR : α → ℝ`, `u ≥ 0` and the explicit hypothesis
  `sm : StdModel α toR u` (`Lemmas/StdModel.lean`; the plain standard model, NOT `StdModelIEEE`: every `+`/`−`
  returns the exact result times `1+δ`, `|δ| ≤ u`; overflow/underflow/NaN are outside the model).  Only the fields
  `add`, `sub`, `ofNat 0`, `u_nonneg` of the standard model are used.

  The only operations the model performs on `total` and on the bucket totals are
     * `total := total + v`                         (`insert`)
     * `merged.total := e1.total + e2.total`        (`mergeEntries`, called by `compress`)
     * `total := total − e.total`                   (`deleteOldest`)
  and the error recursions below have exactly one `u·|exact result|` term (plus the propagated errors) per such
  operation: `addErr`, `bucketErr_merge`, `subErr`.

  MAIN RESULTS.  `total_err_nocut`, `bucket_err_nocut` (histories without deletions; hypothesis "no prefix raised
  drift", implied by `no_drift_of_clock`), `total_err`, `bucket_err` (deletions included, the ghost follows the carrier
  run's own deletions `runTrace`; needs `1 ≤ c.m`), closed forms `totalErr_le_pow(_M)`, harness comparison
  `budget_le_totalErr`, `totalErr_le_budget`, `totalErr_le_two_budget`, `total_within_harness_tolerance`, tightness
  `totalErr_tight_witness`.

  No sign assumption on the inputs is needed: all bounds are in terms of `asum W = Σ_{y∈W} |y|` (the harness's
  `abs_sum`); for non-negative inputs `asum W = W.sum` (`asum_of_nonneg`).
-/
import Mathlib.Tactic.Ring
import Mathlib.Tactic.Linarith
import Mathlib.Tactic.NormNum
import Mathlib.Tactic.Positivity
import Mathlib.Tactic.GCongr
import FrourosProofs.RealNum
import FrourosProofs.Machines
import FrourosProofs.Lemmas.StdModel
import FrourosProofs.Lemmas.ADWINRows
import FrourosProofs.Lemmas.ADWINRepr
import FrourosProofs.Props.C05

namespace Frouros.C05r
open Frouros ADWIN C05 RoundLemmas

/-! ## 0. The bound functions -/

/-- `Σ |y|` (the harness's `abs_sum` of a window / `gone` of a dropped bucket) -/
noncomputable def asum (b : List ℝ) : ℝ := (b.map (fun y => |y|)).sum

@[simp] theorem asum_nil : asum [] = 0 := by simp [asum]
@[simp] theorem asum_cons (y : ℝ) (b : List ℝ) : asum (y :: b) = |y| + asum b := by simp [asum]
@[simp] theorem asum_append (a b : List ℝ) : asum (a ++ b) = asum a + asum b := by simp [asum]
theorem asum_singleton (y : ℝ) : asum [y] = |y| := by simp

theorem asum_nonneg (b : List ℝ) : 0 ≤ asum b := by
  induction b with
  | nil => simp
  | cons y b ih => rw [asum_cons]; positivity

theorem abs_sum_le_asum (b : List ℝ) : |b.sum| ≤ asum b := by
  induction b with
  | nil => simp
  | cons y b ih =>
    rw [List.sum_cons, asum_cons]
    exact le_trans (abs_add_le _ _) (by linarith)

/-- for non-negative values (ADWIN's domain) `asum` is the plain sum -/
theorem asum_of_nonneg (b : List ℝ) (h : ∀ y ∈ b, 0 ≤ y) : asum b = b.sum := by
  induction b with
  | nil => simp
  | cons y b ih =>
    rw [List.sum_cons, asum_cons, abs_of_nonneg (h y (by simp)), ih (fun z hz => h z (by simp [hz]))]

/-- bound on the error of the stored total of a bucket of row `k` (`2^k` values, produced by `k` levels of merges)
whose values have absolute sum `A` -/
noncomputable def bucketErr (u : ℝ) (k : ℕ) (A : ℝ) : ℝ := ((1 + u) ^ k - 1) * A

@[simp] theorem bucketErr_zero (u A : ℝ) : bucketErr u 0 A = 0 := by simp [bucketErr]

/-- `bucketErr` IS the error recursion of the model's merge `e1.total + e2.total` (one rounded addition):
propagated errors of the two operands, plus `u·(|exact result| + propagated errors)`. -/
theorem bucketErr_merge (u : ℝ) (k : ℕ) (A1 A2 : ℝ) :
    bucketErr u (k + 1) (A1 + A2)
      = (bucketErr u k A1 + bucketErr u k A2) + u * ((A1 + A2) + (bucketErr u k A1 + bucketErr u k A2)) := by
  unfold bucketErr; ring

theorem bucketErr_nonneg {u : ℝ} (hu : 0 ≤ u) (k : ℕ) {A : ℝ} (hA : 0 ≤ A) : 0 ≤ bucketErr u k A := by
  unfold bucketErr
  have : (1 : ℝ) ≤ (1 + u) ^ k := one_le_pow₀ (by linarith)
  exact mul_nonneg (by linarith) hA

/-- the rounded addition `total := total + x`: `A` = absolute sum of the window before, `E` = error bound before -/
noncomputable def addErr (u A x E : ℝ) : ℝ := E + u * ((A + |x|) + E)

/-- the rounded subtraction `total := total − bucket.total`: `A'` = absolute sum of the window that REMAINS,
`Eb` = error bound of the subtracted bucket total, `E` = error bound of `total` before -/
noncomputable def subErr (u A' Eb E : ℝ) : ℝ := (E + Eb) + u * (A' + (E + Eb))

/-- `totalErr u xs`: bound on `|toR total − Σ xs|` after the updates `xs` (real values) when nothing was deleted.
The fold carries `(Σ|x_i| so far, error bound so far)` and applies `addErr` once per update. -/
noncomputable def totalErr (u : ℝ) (xs : List ℝ) : ℝ :=
  (xs.foldl (fun (p : ℝ × ℝ) x => (p.1 + |x|, addErr u p.1 x p.2)) (0, 0)).2

theorem totalErr_fst (u : ℝ) (xs : List ℝ) :
    (xs.foldl (fun (p : ℝ × ℝ) x => (p.1 + |x|, addErr u p.1 x p.2)) (0, 0)).1 = asum xs := by
  induction xs using List.reverseRecOn with
  | nil => simp
  | append_singleton xs x ih => rw [List.foldl_append]; simp [ih]

@[simp] theorem totalErr_nil (u : ℝ) : totalErr u [] = 0 := rfl

/-- the recursion of `totalErr`: one `addErr` per update -/
theorem totalErr_snoc (u : ℝ) (xs : List ℝ) (x : ℝ) :
    totalErr u (xs ++ [x]) = addErr u (asum xs) x (totalErr u xs) := by
  unfold totalErr
  rw [List.foldl_append]
  simp only [List.foldl_cons, List.foldl_nil]
  rw [totalErr_fst]

/-! ## 1. One rounded operation in pure real arithmetic -/

/-- a rounded addition of two approximations -/
theorem add_round {u p q P Q Ep Eq δ : ℝ} (hδ : |δ| ≤ u) (hp : |p - P| ≤ Ep) (hq : |q - Q| ≤ Eq) :
    |(p + q) * (1 + δ) - (P + Q)| ≤ (Ep + Eq) + u * (|P + Q| + (Ep + Eq)) := by
  have e : (p + q) * (1 + δ) - (P + Q) = ((p - P) + (q - Q)) + (p + q) * δ := by ring
  have h1 : |(p - P) + (q - Q)| ≤ Ep + Eq := abs_add_le_of hp hq
  have h2 : |p + q| ≤ |P + Q| + (Ep + Eq) := by
    have : |(p + q) - (P + Q)| ≤ Ep + Eq := by
      have e2 : (p + q) - (P + Q) = (p - P) + (q - Q) := by ring
      rw [e2]; exact h1
    exact abs_le_of_close (le_refl _) this
  rw [e]
  have h3 := abs_mul_le_of h2 hδ
  have := abs_add_le_of h1 h3
  linarith [mul_comm u (|P + Q| + (Ep + Eq))]

/-- a rounded subtraction of two approximations -/
theorem sub_round {u p q P Q Ep Eq δ : ℝ} (hδ : |δ| ≤ u) (hp : |p - P| ≤ Ep) (hq : |q - Q| ≤ Eq) :
    |(p - q) * (1 + δ) - (P - Q)| ≤ (Ep + Eq) + u * (|P - Q| + (Ep + Eq)) := by
  have hq' : |(-q) - (-Q)| ≤ Eq := by
    have : (-q) - (-Q) = -(q - Q) := by ring
    rw [this, abs_neg]; exact hq
  have := add_round hδ hp hq'
  simpa [sub_eq_add_neg] using this

/-! ## 2. The invariant: the carrier rows against a ghost table of blocks of real values -/

variable {α : Type} {toR : α → ℝ} {u : ℝ}

/-- the stored total of entry `e` of row `i` approximates the sum of its block `b` within `bucketErr u i Σ|b|` -/
def EntErr (toR : α → ℝ) (u : ℝ) (i : ℕ) (e : α × α) (b : List ℝ) : Prop :=
  |toR e.1 - b.sum| ≤ bucketErr u i (asum b)

/-- entrywise `EntErr` between the carrier rows (row index offset `i`) and the ghost table (same shape) -/
def RowsErr (toR : α → ℝ) (u : ℝ) : ℕ → List (List (α × α)) → List (List (List ℝ)) → Prop
  | _, [], [] => True
  | i, r :: rs, b :: bs => List.Forall₂ (EntErr toR u i) r b ∧ RowsErr toR u (i + 1) rs bs
  | _, [], _ :: _ => False
  | _, _ :: _, [] => False

@[simp] theorem RowsErr_nil_nil (i : ℕ) : RowsErr toR u i [] [] := trivial
@[simp] theorem RowsErr_cons_cons (i : ℕ) (r : List (α × α)) (rs : List (List (α × α))) (b : List (List ℝ))
    (bs : List (List (List ℝ))) :
    RowsErr toR u i (r :: rs) (b :: bs) ↔ List.Forall₂ (EntErr toR u i) r b ∧ RowsErr toR u (i + 1) rs bs := Iff.rfl
@[simp] theorem RowsErr_nil_cons (i : ℕ) (b : List (List ℝ)) (bs : List (List (List ℝ))) :
    RowsErr toR u i [] (b :: bs) ↔ False := Iff.rfl
@[simp] theorem RowsErr_cons_nil (i : ℕ) (r : List (α × α)) (rs : List (List (α × α))) :
    RowsErr toR u i (r :: rs) [] ↔ False := Iff.rfl

variable [Num α]

/-- the merge of two adjacent buckets of row `i` is a bucket of row `i+1` within `bucketErr u (i+1)` -/
theorem merge_err (sm : StdModel α toR u) (i sz : ℕ) (e1 e2 : α × α) (b1 b2 : List ℝ)
    (h1 : EntErr toR u i e1 b1) (h2 : EntErr toR u i e2 b2) :
    EntErr toR u (i + 1) (mergeEntries sz e1 e2) (b1 ++ b2) := by
  unfold EntErr at *
  show |toR (e1.1 + e2.1) - (b1 ++ b2).sum| ≤ _
  obtain ⟨δ, hδ, hadd⟩ := sm.add e1.1 e2.1
  rw [hadd, List.sum_append, asum_append, bucketErr_merge]
  refine le_trans (add_round hδ h1 h2) ?_
  have hs : |b1.sum + b2.sum| ≤ asum b1 + asum b2 :=
    le_trans (abs_add_le _ _) (add_le_add (abs_sum_le_asum b1) (abs_sum_le_asum b2))
  have hu := sm.u_nonneg
  have := mul_le_mul_of_nonneg_left
    (add_le_add_right hs (bucketErr u i (asum b1) + bucketErr u i (asum b2))) hu
  linarith

theorem forall₂_append_singleton {β γ : Type} {R : β → γ → Prop} {l1 : List β} {l2 : List γ} {a : β} {b : γ}
    (h : List.Forall₂ R l1 l2) (hab : R a b) : List.Forall₂ R (l1 ++ [a]) (l2 ++ [b]) :=
  List.rel_append h (List.Forall₂.cons hab List.Forall₂.nil)

/-- `compress` on the carrier and the ghost `compressG` (same control flow: it depends on lengths only) preserve
the entrywise error relation; each merge raises the row index, hence the exponent of `bucketErr`, by one -/
theorem compress_err (sm : StdModel α toR u) (m i : ℕ) (brow : List (List ℝ)) (brest : List (List (List ℝ)))
    (row : List (α × α)) (rest : List (List (α × α)))
    (h : RowsErr toR u i (row :: rest) (brow :: brest)) :
    RowsErr toR u i (compress m i row rest) (compressG m i brow brest) := by
  fun_induction compressG m i brow brest generalizing row rest with
  | case1 i b1 b2 tl hl =>
    obtain ⟨hrow, hrest⟩ := h
    cases rest with
    | cons r rs => exact absurd hrest (by simp)
    | nil =>
      rw [List.forall₂_cons_right_iff] at hrow
      obtain ⟨e1, row1, he1, hrow1, rfl⟩ := hrow
      rw [List.forall₂_cons_right_iff] at hrow1
      obtain ⟨e2, etl, he2, hetl, rfl⟩ := hrow1
      have hlen := hetl.length_eq
      simp at hl
      rw [compress]
      simp [hlen, hl]
      exact ⟨hetl, merge_err sm i _ e1 e2 b1 b2 he1 he2⟩
  | case2 i b1 b2 tl nxt rest' hle hl =>
    obtain ⟨hrow, hrest⟩ := h
    cases rest with
    | nil => exact absurd hrest (by simp)
    | cons enxt erest' =>
      obtain ⟨hnxt, hrest'⟩ := hrest
      rw [List.forall₂_cons_right_iff] at hrow
      obtain ⟨e1, row1, he1, hrow1, rfl⟩ := hrow
      rw [List.forall₂_cons_right_iff] at hrow1
      obtain ⟨e2, etl, he2, hetl, rfl⟩ := hrow1
      have hlen := hetl.length_eq
      have hlen2 := hnxt.length_eq
      simp at hl hle
      rw [compress]
      simp [hlen, hl, hlen2, hle]
      exact ⟨hetl, forall₂_append_singleton hnxt (merge_err sm i _ e1 e2 b1 b2 he1 he2), hrest'⟩
  | case3 i b1 b2 tl nxt rest' hle hl ih =>
    obtain ⟨hrow, hrest⟩ := h
    cases rest with
    | nil => exact absurd hrest (by simp)
    | cons enxt erest' =>
      obtain ⟨hnxt, hrest'⟩ := hrest
      rw [List.forall₂_cons_right_iff] at hrow
      obtain ⟨e1, row1, he1, hrow1, rfl⟩ := hrow
      rw [List.forall₂_cons_right_iff] at hrow1
      obtain ⟨e2, etl, he2, hetl, rfl⟩ := hrow1
      have hlen := hetl.length_eq
      have hlen2 := hnxt.length_eq
      have ih' := ih (enxt ++ [mergeEntries (2 ^ i) e1 e2]) erest'
        ⟨forall₂_append_singleton hnxt (merge_err sm i _ e1 e2 b1 b2 he1 he2), hrest'⟩
      simp at hl hle
      have hle' : ¬ nxt.length < m := by omega
      rw [compress]
      simp [hlen, hl, hlen2, hle']
      exact ⟨hetl, ih'⟩
  | case4 i brow brest hl hno =>
    have hlen := h.1.length_eq
    match brow, hno with
    | [], _ => simp at hl
    | [b], _ =>
      match row, hlen with
      | [e], _ => rw [compress.eq_def]; simpa using h
    | b1 :: b2 :: tl, hno => exact absurd rfl (fun hh => hno b1 b2 tl hh)
  | case5 i brow brest hl =>
    have hlen := h.1.length_eq
    simp at hl
    rw [compress.eq_def]
    simp [hlen, hl]
    exact h

/-- **The invariant.**  `B` is a ghost bucket table of blocks of REAL values with the shape of `s.rows`: block sizes
`2^i` in row `i`; every stored bucket total is within `bucketErr` of its block sum; `width` is the length of the
window `windowOf B` (oldest first); `total` is within `E` of the window sum. -/
structure Inv (toR : α → ℝ) (u : ℝ) (s : State α) (B : List (List (List ℝ))) (E : ℝ) : Prop where
  rows : RowsErr toR u 0 s.rows B
  blocks : BlocksOK 0 B
  width : s.width = (windowOf B).length
  tot : |toR s.total - (windowOf B).sum| ≤ E

/-- ghost insertion (same control flow as `insert` on the rows) -/
def insG (m : ℕ) (x : ℝ) : List (List (List ℝ)) → List (List (List ℝ))
  | [] => [[[x]]]
  | b0 :: brest => compressG m 0 (b0 ++ [[x]]) brest

theorem windowOf_insG (m : ℕ) (x : ℝ) (B : List (List (List ℝ))) : windowOf (insG m x B) = windowOf B ++ [x] := by
  cases B with
  | nil => simp [insG]
  | cons b0 brest => simp [insG, compressG_window]

theorem blocksOK_insG (m : ℕ) (x : ℝ) (B : List (List (List ℝ))) (h : BlocksOK 0 B) : BlocksOK 0 (insG m x B) := by
  cases B with
  | nil => simp [insG]
  | cons b0 brest =>
    apply compressG_blocksOK
    refine ⟨?_, h.2⟩
    intro b hb
    simp at hb
    rcases hb with hb | rfl
    · exact h.1 b hb
    · simp

theorem Inv_init (sm : StdModel α toR u) : Inv toR u (init : State α) [[]] 0 := by
  refine ⟨?_, by simp, rfl, ?_⟩
  · show RowsErr toR u 0 [[]] [[]]
    simp
  · show |toR (Num.zero : α) - (windowOf [[]]).sum| ≤ 0
    simp [sm.zero]

/-- `insert` (the rounded `total + v`, the new row-0 entry `(v, 0)` — exact — and the merges of `compress`) -/
theorem Inv_insert (sm : StdModel α toR u) (c : Cfg α) (s : State α) (v : α) (B : List (List (List ℝ))) (E : ℝ)
    (h : Inv toR u s B E) :
    Inv toR u (ADWIN.insert c s v) (insG c.m (toR v) B) (addErr u (asum (windowOf B)) (toR v) E) := by
  obtain ⟨hrows, hok, hw, ht⟩ := h
  have hent : EntErr toR u 0 (v, (Num.zero : α)) [toR v] := by simp [EntErr]
  refine ⟨?_, blocksOK_insG _ _ _ hok, ?_, ?_⟩
  · cases B with
    | nil =>
      cases hr : s.rows with
      | cons r rs => rw [hr] at hrows; exact absurd hrows (by simp)
      | nil =>
        show RowsErr toR u 0 (ADWIN.insert c s v).rows _
        simp only [ADWIN.insert, hr, insG]
        simp [hent]
    | cons b0 brest =>
      cases hr : s.rows with
      | nil => rw [hr] at hrows; exact absurd hrows (by simp)
      | cons r0 rest =>
        rw [hr] at hrows
        show RowsErr toR u 0 (ADWIN.insert c s v).rows _
        simp only [ADWIN.insert, hr, insG]
        apply compress_err sm
        exact ⟨forall₂_append_singleton hrows.1 hent, hrows.2⟩
  · show s.width + 1 = _
    rw [windowOf_insG, hw]; simp
  · show |toR (s.total + v) - _| ≤ _
    obtain ⟨δ, hδ, hadd⟩ := sm.add s.total v
    rw [hadd, windowOf_insG, List.sum_append, List.sum_singleton]
    have hv : |toR v - toR v| ≤ 0 := by simp
    refine le_trans (add_round hδ ht hv) ?_
    unfold addErr
    have hs : |(windowOf B).sum + toR v| ≤ asum (windowOf B) + |toR v| :=
      le_trans (abs_add_le _ _) (add_le_add (abs_sum_le_asum _) (le_refl _))
    have := mul_le_mul_of_nonneg_left (add_le_add_right hs (E + 0)) sm.u_nonneg
    linarith


/-! ## 3. Histories without deletions -/

/-- a step that does not raise `drift` is a pure insertion (any carrier, any state) -/
theorem step_of_no_drift (c : Cfg α) (s : State α) (v : α) (h : (step c s v).drift = false) :
    step c s v = afterInsert c s v := by
  have h1 := drift_iff_cut c s v
  rw [step_eq]
  by_cases hr : checkRuns c s
  · rw [if_pos hr]
    have hc : cutFound c (afterInsert c s v) = false := by
      cases hcf : cutFound c (afterInsert c s v) with
      | false => rfl
      | true => rw [h1.2 ⟨hr, hcf⟩] at h; cases h
    exact checkLoop_of_not_cut c _ _ hc
  · rw [if_neg hr]

/-- **total_err_nocut (invariant form).**  Standard model `sm`; ANY configuration; ANY stream `xs` of carrier values
(no sign condition); hypothesis: no prefix of the run raised `drift` (⇔ no bucket was ever deleted, `C05.drift_iff_dropped`;
implied by "clock not reached", `no_drift_of_clock`).  Then the final state satisfies `Inv` against a ghost table `B`
whose window is exactly the stream of represented values, with `E = totalErr u (xs.map toR)`. -/
theorem total_err_nocut_inv (sm : StdModel α toR u) (c : Cfg α) (xs : List α)
    (hnd : ∀ p, p <+: xs → (p.foldl (step c) init).drift = false) :
    ∃ B, Inv toR u (xs.foldl (step c) init) B (totalErr u (xs.map toR)) ∧ windowOf B = xs.map toR := by
  induction xs using List.reverseRecOn with
  | nil => exact ⟨[[]], by simpa using Inv_init sm, by simp⟩
  | append_singleton xs v ih =>
    obtain ⟨B, hB, hW⟩ := ih (fun p hp => hnd p (hp.trans (List.prefix_append _ _)))
    have hd := hnd (xs ++ [v]) (List.prefix_refl _)
    rw [List.foldl_append] at hd ⊢
    simp only [List.foldl_cons, List.foldl_nil] at hd ⊢
    rw [step_of_no_drift c _ v hd]
    have hB' : Inv toR u { xs.foldl (step c) init with n := (xs.foldl (step c) init).n + 1, drift := false } B
        (totalErr u (xs.map toR)) := ⟨hB.rows, hB.blocks, hB.width, hB.tot⟩
    have := Inv_insert sm c _ v B _ hB'
    rw [hW] at this
    refine ⟨insG c.m (toR v) B, ?_, ?_⟩
    · rw [List.map_append, List.map_singleton, totalErr_snoc]
      exact this
    · rw [windowOf_insG, hW]; simp

/-- **total_err_nocut.**  After every update of a history without deletions:
`|toR total − Σ_i toR x_i| ≤ totalErr u (x_i)` and `width` = number of updates. -/
theorem total_err_nocut (sm : StdModel α toR u) (c : Cfg α) (xs : List α)
    (hnd : ∀ p, p <+: xs → (p.foldl (step c) init).drift = false) :
    |toR (xs.foldl (step c) init).total - (xs.map toR).sum| ≤ totalErr u (xs.map toR)
      ∧ (xs.foldl (step c) init).width = xs.length := by
  obtain ⟨B, hB, hW⟩ := total_err_nocut_inv sm c xs hnd
  refine ⟨?_, ?_⟩
  · have := hB.tot; rwa [hW] at this
  · have := hB.width; rw [hW] at this; simpa using this

theorem forall₂_mem_left {β γ : Type} {R : β → γ → Prop} {l1 : List β} {l2 : List γ}
    (h : List.Forall₂ R l1 l2) {a : β} (ha : a ∈ l1) : ∃ b ∈ l2, R a b := by
  induction h with
  | nil => cases ha
  | cons hab _ ih =>
    rcases List.mem_cons.1 ha with rfl | ha'
    · exact ⟨_, by simp, hab⟩
    · obtain ⟨b, hb, hr⟩ := ih ha'
      exact ⟨b, by simp [hb], hr⟩

omit [Num α] in
/-- every stored entry of row `k` has a block: `2^(i+k)` consecutive window values -/
theorem RowsErr_entry (i : ℕ) (rows : List (List (α × α))) (B : List (List (List ℝ)))
    (h : RowsErr toR u i rows B) (hok : BlocksOK i B) (k : ℕ) (row : List (α × α)) (hk : rows[k]? = some row)
    (e : α × α) (he : e ∈ row) :
    ∃ b : List ℝ, b.length = 2 ^ (i + k) ∧ b <:+: windowOf B ∧ EntErr toR u (i + k) e b := by
  induction rows generalizing i B k with
  | nil => simp at hk
  | cons r rs ih =>
    cases B with
    | nil => exact absurd h (by simp)
    | cons b0 bs =>
      obtain ⟨h0, hrest⟩ := h
      obtain ⟨hb0, hbs⟩ := hok
      cases k with
      | zero =>
        simp at hk; subst hk
        obtain ⟨b, hb, hR⟩ := forall₂_mem_left h0 he
        refine ⟨b, hb0 b hb, ?_, hR⟩
        exact (List.infix_of_mem_flatten hb).trans (List.suffix_append _ _).isInfix
      | succ k =>
        simp at hk
        obtain ⟨b, h1, h2, h3⟩ := ih (i + 1) bs hrest hbs k hk
        have e1 : i + 1 + k = i + (k + 1) := by omega
        rw [e1] at h1 h3
        exact ⟨b, h1, h2.trans (List.prefix_append _ _).isInfix, h3⟩

/-- **bucket_err_nocut.**  In a history without deletions every stored bucket total of row `k` (`k` levels of merges)
is the sum of some `2^k` CONSECUTIVE stream values `b`, up to `((1+u)^k − 1) · Σ_{y∈b} |y|`. -/
theorem bucket_err_nocut (sm : StdModel α toR u) (c : Cfg α) (xs : List α)
    (hnd : ∀ p, p <+: xs → (p.foldl (step c) init).drift = false)
    (k : ℕ) (row : List (α × α)) (hk : (xs.foldl (step c) init).rows[k]? = some row) (e : α × α) (he : e ∈ row) :
    ∃ b : List ℝ, b.length = 2 ^ k ∧ b <:+: xs.map toR ∧
      |toR e.1 - b.sum| ≤ ((1 + u) ^ k - 1) * asum b := by
  obtain ⟨B, hB, hW⟩ := total_err_nocut_inv sm c xs hnd
  obtain ⟨b, h1, h2, h3⟩ := RowsErr_entry 0 _ B hB.rows hB.blocks k row hk e he
  rw [Nat.zero_add] at h1 h3
  rw [hW] at h2
  exact ⟨b, h1, h2, h3⟩

/-! ### a sufficient condition on the configuration: the clock is never reached -/

theorem step_n (c : Cfg α) (s : State α) (v : α) : (step c s v).n = s.n + 1 := by
  rw [step_eq]
  split
  · rw [checkLoop_n]; rfl
  · rfl

theorem run_n (c : Cfg α) (xs : List α) : (xs.foldl (step c) init).n = xs.length := by
  induction xs using List.reverseRecOn with
  | nil => rfl
  | append_singleton xs v ih => rw [List.foldl_append]; simp [step_n, ih]

/-- with `clock = 0` (the model's `n % 0 = n ≠ 0`) or fewer updates than `clock`, the check never runs, no `drift`
is raised and nothing is deleted (any carrier) -/
theorem no_drift_of_clock (c : Cfg α) (xs : List α) (hc : c.clock = 0 ∨ xs.length < c.clock) :
    ∀ p, p <+: xs → (p.foldl (step c) init).drift = false := by
  intro p hp
  induction p using List.reverseRecOn with
  | nil => rfl
  | append_singleton p v _ =>
    rw [List.foldl_append]
    simp only [List.foldl_cons, List.foldl_nil]
    cases hd : (step c (p.foldl (step c) init) v).drift with
    | false => rfl
    | true =>
      exfalso
      obtain ⟨⟨hmod, _⟩, _⟩ := (drift_iff_cut c _ v).1 hd
      rw [run_n] at hmod
      have hlen : p.length + 1 ≤ xs.length := by simpa using hp.length_le
      rcases hc with h0 | hlt
      · rw [h0] at hmod; simp at hmod
      · rw [Nat.mod_eq_of_lt (by omega)] at hmod; omega

theorem total_err_clock (sm : StdModel α toR u) (c : Cfg α) (xs : List α)
    (hc : c.clock = 0 ∨ xs.length < c.clock) :
    |toR (xs.foldl (step c) init).total - (xs.map toR).sum| ≤ totalErr u (xs.map toR)
      ∧ (xs.foldl (step c) init).width = xs.length :=
  total_err_nocut sm c xs (no_drift_of_clock c xs hc)

/-! ## 4. Closed forms and the comparison with the harness's a-priori budget (no deletions) -/

theorem addErr_eq (u A x E : ℝ) : addErr u A x E = (1 + u) * E + u * (A + |x|) := by unfold addErr; ring

theorem totalErr_nonneg {u : ℝ} (hu : 0 ≤ u) (xs : List ℝ) : 0 ≤ totalErr u xs := by
  induction xs using List.reverseRecOn with
  | nil => simp
  | append_singleton xs x ih =>
    rw [totalErr_snoc, addErr_eq]
    have := asum_nonneg xs
    positivity

/-- **closed form.**  `totalErr u xs ≤ ((1+u)^t − 1) · Σ|x_i|`, `t` = number of updates. -/
theorem totalErr_le_pow {u : ℝ} (hu : 0 ≤ u) (xs : List ℝ) :
    totalErr u xs ≤ ((1 + u) ^ xs.length - 1) * asum xs := by
  induction xs using List.reverseRecOn with
  | nil => simp
  | append_singleton xs x ih =>
    rw [totalErr_snoc, addErr_eq, List.length_append, List.length_singleton, asum_append, asum_singleton]
    have hA := asum_nonneg xs
    have hx := abs_nonneg x
    have h1 : (1 : ℝ) ≤ (1 + u) ^ xs.length := one_le_pow₀ (by linarith)
    have h2 : (1 + u) * totalErr u xs ≤ (1 + u) * (((1 + u) ^ xs.length - 1) * asum xs) :=
      mul_le_mul_of_nonneg_left ih (by linarith)
    have h3 : 0 ≤ ((1 + u) ^ xs.length - 1) * (1 + u) * |x| := by
      have : 0 ≤ (1 + u) ^ xs.length - 1 := by linarith
      positivity
    have e : ((1 + u) ^ (xs.length + 1) - 1) * (asum xs + |x|)
        = (1 + u) * (((1 + u) ^ xs.length - 1) * asum xs) + u * (asum xs + |x|)
          + ((1 + u) ^ xs.length - 1) * (1 + u) * |x| := by ring
    rw [e]; linarith

theorem asum_le_length_mul {M : ℝ} (xs : List ℝ) (hM : ∀ x ∈ xs, |x| ≤ M) : asum xs ≤ (xs.length : ℝ) * M := by
  induction xs with
  | nil => simp
  | cons y ys ih =>
    have h1 := ih (fun x hx => hM x (by simp [hx]))
    have h2 := hM y (by simp)
    rw [asum_cons, List.length_cons]; push_cast; linarith

/-- … in the form asked for: `t` updates of values `|x| ≤ M` -/
theorem totalErr_le_pow_M {u M : ℝ} (hu : 0 ≤ u) (xs : List ℝ) (hM : ∀ x ∈ xs, |x| ≤ M) :
    totalErr u xs ≤ ((1 + u) ^ xs.length - 1) * ((xs.length : ℝ) * M) := by
  refine le_trans (totalErr_le_pow hu xs) ?_
  have h1 : (1 : ℝ) ≤ (1 + u) ^ xs.length := one_le_pow₀ (by linarith)
  exact mul_le_mul_of_nonneg_left (asum_le_length_mul xs hM) (by linarith)

/-- the harness's FIRST-ORDER budget for a history without deletions (`AdwinBudget.step`, `dropped = 0`):
`budget += U * abs_sum` after `abs_sum += |x|` -/
noncomputable def budget (u : ℝ) (xs : List ℝ) : ℝ :=
  (xs.foldl (fun (p : ℝ × ℝ) x => (p.1 + |x|, p.2 + u * (p.1 + |x|))) (0, 0)).2

theorem budget_fst (u : ℝ) (xs : List ℝ) :
    (xs.foldl (fun (p : ℝ × ℝ) x => (p.1 + |x|, p.2 + u * (p.1 + |x|))) (0, 0)).1 = asum xs := by
  induction xs using List.reverseRecOn with
  | nil => simp
  | append_singleton xs x ih => rw [List.foldl_append]; simp [ih]

@[simp] theorem budget_nil (u : ℝ) : budget u [] = 0 := rfl

theorem budget_snoc (u : ℝ) (xs : List ℝ) (x : ℝ) : budget u (xs ++ [x]) = budget u xs + u * (asum xs + |x|) := by
  unfold budget
  rw [List.foldl_append]
  simp only [List.foldl_cons, List.foldl_nil]
  rw [budget_fst]

theorem budget_nonneg {u : ℝ} (hu : 0 ≤ u) (xs : List ℝ) : 0 ≤ budget u xs := by
  induction xs using List.reverseRecOn with
  | nil => simp
  | append_singleton xs x ih =>
    rw [budget_snoc]
    have := asum_nonneg xs
    positivity

/-- the first-order budget is a LOWER bound of the error recursion (they differ by the second-order terms) … -/
theorem budget_le_totalErr {u : ℝ} (hu : 0 ≤ u) (xs : List ℝ) : budget u xs ≤ totalErr u xs := by
  induction xs using List.reverseRecOn with
  | nil => simp
  | append_singleton xs x ih =>
    rw [budget_snoc, totalErr_snoc, addErr_eq]
    have := totalErr_nonneg hu xs
    nlinarith

/-- … and the error recursion is at most `(1+u)^t` times the first-order budget -/
theorem totalErr_le_budget {u : ℝ} (hu : 0 ≤ u) (xs : List ℝ) :
    totalErr u xs ≤ (1 + u) ^ xs.length * budget u xs := by
  induction xs using List.reverseRecOn with
  | nil => simp
  | append_singleton xs x ih =>
    rw [budget_snoc, totalErr_snoc, addErr_eq, List.length_append, List.length_singleton]
    have hA := asum_nonneg xs
    have hx := abs_nonneg x
    have h1 : (1 : ℝ) ≤ (1 + u) ^ (xs.length + 1) := one_le_pow₀ (by linarith)
    have h2 : (1 + u) * totalErr u xs ≤ (1 + u) * ((1 + u) ^ xs.length * budget u xs) :=
      mul_le_mul_of_nonneg_left ih (by linarith)
    have h3 : u * (asum xs + |x|) ≤ (1 + u) ^ (xs.length + 1) * (u * (asum xs + |x|)) :=
      le_mul_of_one_le_left (by positivity) h1
    have e : (1 + u) ^ (xs.length + 1) * (budget u xs + u * (asum xs + |x|))
        = (1 + u) * ((1 + u) ^ xs.length * budget u xs) + (1 + u) ^ (xs.length + 1) * (u * (asum xs + |x|)) := by
      ring
    rw [e]; linarith

/-- `(1+u)^t ≤ 1/(1 − t·u)`, hence `≤ 2` as long as `t·u ≤ 1/2` -/
theorem pow_le_two {u : ℝ} (hu : 0 ≤ u) (t : ℕ) (h : (t : ℝ) * u ≤ 1 / 2) : (1 + u) ^ t ≤ 2 := by
  have key : ∀ n : ℕ, (1 + u) ^ n * (1 - (n : ℝ) * u) ≤ 1 := by
    intro n
    induction n with
    | zero => simp
    | succ n ih =>
      have hp : (0 : ℝ) ≤ (1 + u) ^ n := by positivity
      have e : (1 + u) ^ (n + 1) * (1 - ((n + 1 : ℕ) : ℝ) * u)
          = (1 + u) ^ n * (1 - (n : ℝ) * u) - (1 + u) ^ n * (((n : ℝ) + 1) * u ^ 2) := by
        push_cast; ring
      rw [e]
      have : 0 ≤ (1 + u) ^ n * (((n : ℝ) + 1) * u ^ 2) := by positivity
      linarith
  have hk := key t
  have hp : (0 : ℝ) ≤ (1 + u) ^ t := by positivity
  nlinarith

/-- **the harness's tolerance `2 · budget` is an upper bound of `totalErr`** (no deletions) as long as
`(1+u)^t ≤ 2` — e.g. `t·u ≤ 1/2`, i.e. `t ≤ 2^52` updates at `u = 2^-53`. -/
theorem totalErr_le_two_budget {u : ℝ} (hu : 0 ≤ u) (xs : List ℝ) (h : ((xs.length : ℕ) : ℝ) * u ≤ 1 / 2) :
    totalErr u xs ≤ 2 * budget u xs := by
  refine le_trans (totalErr_le_budget hu xs) ?_
  exact mul_le_mul_of_nonneg_right (pow_le_two hu _ h) (budget_nonneg hu xs)

/-- end-to-end: model error against the harness's tolerance, history without deletions -/
theorem total_within_harness_tolerance (sm : StdModel α toR u) (c : Cfg α) (xs : List α)
    (hnd : ∀ p, p <+: xs → (p.foldl (step c) init).drift = false) (h : ((xs.length : ℕ) : ℝ) * u ≤ 1 / 2) :
    |toR (xs.foldl (step c) init).total - (xs.map toR).sum| ≤ 2 * budget u (xs.map toR) := by
  refine le_trans (total_err_nocut sm c xs hnd).1 ?_
  apply totalErr_le_two_budget sm.u_nonneg
  simpa using h


/-! ## 5. Non-vacuity, tightness, and the second-order gap of the first-order budget -/

/-- in a history without deletions `total` is the left fold of the carrier's own `+` (any carrier) -/
theorem run_total_nocut (c : Cfg α) (xs : List α)
    (hnd : ∀ p, p <+: xs → (p.foldl (step c) init).drift = false) :
    (xs.foldl (step c) init).total = xs.foldl (· + ·) (Num.zero : α) := by
  induction xs using List.reverseRecOn with
  | nil => rfl
  | append_singleton xs v ih =>
    have hd := hnd (xs ++ [v]) (List.prefix_refl _)
    rw [List.foldl_append] at hd
    simp only [List.foldl_cons, List.foldl_nil] at hd
    rw [List.foldl_append, List.foldl_append]
    simp only [List.foldl_cons, List.foldl_nil]
    rw [step_of_no_drift c _ v hd, ← ih (fun p hp => hnd p (hp.trans (List.prefix_append _ _)))]
    rfl

/-- non-vacuity of `total_err_nocut` / `bucket_err_nocut`: a carrier on which EVERY operation errs (`δ = u = 2^-53`),
a configuration that merges (`m = 1`) and never checks (`clock = 0`), a stream of four values -/
example :
    let U : ℝ := 1 / 2 ^ 53
    let c : Cfg (Biased U) := ⟨0, ⟨0⟩, 1, 0, 0⟩
    let xs : List (Biased U) := [⟨1⟩, ⟨2⟩, ⟨3⟩, ⟨4⟩]
    |(xs.foldl (step c) init).total.val - (xs.map Biased.val).sum| ≤ totalErr U (xs.map Biased.val)
      ∧ (xs.foldl (step c) init).width = xs.length :=
  total_err_clock (stdModel_biased (by positivity)) _ _ (Or.inl rfl)

/-- the hypothesis `hnd` itself is satisfiable on a stream of any length -/
example (c : Cfg ℝ) (h : c.clock = 0) (xs : List ℝ) : ∀ p, p <+: xs → (p.foldl (step c) init).drift = false :=
  no_drift_of_clock c xs (Or.inl h)

/-- **tightness and second-order gap.**  On the biased carrier (`δ = u` in every operation) and the stream `[1, 1]`:
the actual error of `total` EQUALS `totalErr` (`= 3u + u²`), and it exceeds the first-order budget `budget = 3u` by the
second-order term `u²`.  So `1 × budget` is not an upper bound of the worst case under the standard model; the
harness's tolerance `2 × budget` is (`totalErr_le_two_budget`, as long as `t·u ≤ 1/2`). -/
theorem totalErr_tight_witness (u : ℝ) :
    let c : Cfg (Biased u) := ⟨0, ⟨0⟩, 5, 0, 0⟩
    let xs : List (Biased u) := [⟨1⟩, ⟨1⟩]
    (xs.foldl (step c) init).total.val - (xs.map Biased.val).sum = totalErr u (xs.map Biased.val)
      ∧ totalErr u (xs.map Biased.val) = 3 * u + u ^ 2
      ∧ budget u (xs.map Biased.val) = 3 * u := by
  intro c xs
  have ht := run_total_nocut c xs (no_drift_of_clock c xs (Or.inl rfl))
  refine ⟨?_, ?_, ?_⟩
  · rw [ht]
    simp [xs, totalErr, addErr]
    ring
  · simp [xs, totalErr, addErr]; ring
  · simp [xs, budget]; ring

/-- for non-negative inputs (ADWIN's domain) all bounds read with plain sums -/
example (xs : List ℝ) (h : ∀ y ∈ xs, 0 ≤ y) (u : ℝ) (hu : 0 ≤ u) :
    totalErr u xs ≤ ((1 + u) ^ xs.length - 1) * xs.sum := by
  rw [← asum_of_nonneg xs h]; exact totalErr_le_pow hu xs


/-! ## 6. Histories WITH deletions

The ghost follows the CARRIER run's own decisions (which buckets it deletes), so no agreement hypothesis with an
ℝ-run is needed: the window is "the values the carrier run itself still holds" — which is also what the harness's
`AdwinBudget.step(x, width_after)` reads off the Python run. -/

omit [Num α] in
theorem RowsErr_length (i : ℕ) (rows : List (List (α × α))) (B : List (List (List ℝ)))
    (h : RowsErr toR u i rows B) : rows.length = B.length := by
  induction rows generalizing i B with
  | nil => cases B with
    | nil => rfl
    | cons b bs => exact absurd h (by simp)
  | cons r rs ih => cases B with
    | nil => exact absurd h (by simp)
    | cons b bs => simp [ih (i + 1) bs h.2]

omit [Num α] in
theorem RowsErr_concat (i : ℕ) (rs : List (List (α × α))) (bs : List (List (List ℝ))) (r : List (α × α))
    (b : List (List ℝ)) (h : RowsErr toR u i rs bs) (hr : List.Forall₂ (EntErr toR u (i + rs.length)) r b) :
    RowsErr toR u i (rs ++ [r]) (bs ++ [b]) := by
  induction rs generalizing i bs with
  | nil => cases bs with
    | nil => simpa using hr
    | cons b' bs' => exact absurd h (by simp)
  | cons r' rs ih => cases bs with
    | nil => exact absurd h (by simp)
    | cons b' bs' =>
      refine ⟨h.1, ih (i + 1) bs' h.2 ?_⟩
      have e : i + 1 + rs.length = i + (r' :: rs).length := by simp; omega
      rw [e]; exact hr

omit [Num α] in
theorem RowsErr_concat_left (i : ℕ) (rs : List (List (α × α))) (r : List (α × α)) (B : List (List (List ℝ)))
    (h : RowsErr toR u i (rs ++ [r]) B) :
    ∃ bs b, B = bs ++ [b] ∧ RowsErr toR u i rs bs ∧ List.Forall₂ (EntErr toR u (i + rs.length)) r b := by
  induction rs generalizing i B with
  | nil => cases B with
    | nil => exact absurd h (by simp)
    | cons b bs => cases bs with
      | nil => exact ⟨[], b, rfl, trivial, by simpa using h.1⟩
      | cons b2 bs2 => exact absurd h.2 (by simp)
  | cons r' rs ih => cases B with
    | nil => exact absurd h (by simp)
    | cons b' bs' =>
      obtain ⟨bs, b, rfl, h1, h2⟩ := ih (i + 1) bs' h.2
      refine ⟨b' :: bs, b, rfl, ⟨h.1, h1⟩, ?_⟩
      have e : i + 1 + rs.length = i + (r' :: rs).length := by simp; omega
      rw [← e]; exact h2

omit [Num α] in
/-- ghost counterpart of `trimRows` -/
theorem trimRows_err (i : ℕ) (eys : List (List (α × α))) (ys : List (List (List ℝ)))
    (h : RowsErr toR u i eys ys) (hok : BlocksOK i ys) :
    ∃ B', RowsErr toR u i (trimRows eys) B' ∧ BlocksOK i B' ∧ windowOf B' = windowOf ys := by
  induction eys using List.reverseRecOn generalizing ys with
  | nil =>
    cases ys with
    | nil => exact ⟨[[]], by simp [trimRows_nil], by simp, by simp⟩
    | cons b bs => exact absurd h (by simp)
  | append_singleton eys l ih =>
    obtain ⟨bs, b, rfl, h1, h2⟩ := RowsErr_concat_left i eys l ys h
    rw [BlocksOK_append_singleton] at hok
    rw [trimRows_concat]
    by_cases hl : l = []
    · subst hl
      cases h2
      obtain ⟨B', h3, h4, h5⟩ := ih bs h1 hok.1
      exact ⟨B', by simpa using h3, h4, by rw [h5, windowOf_append_singleton]; simp⟩
    · rw [if_neg hl]
      exact ⟨bs ++ [b], RowsErr_concat i eys bs l b h1 h2, (BlocksOK_append_singleton _ _ _).2 hok, rfl⟩

/-- **one deletion** (`deleteOldest` on a state whose last row `k` is non-empty — every well-formed state with a
non-empty window, `C05.WF`): the oldest `2^k` window values leave; `total − e.total` is one rounded subtraction of a
bucket total that itself carries `bucketErr u k`. -/
theorem Inv_delete (sm : StdModel α toR u) (s : State α) (eys : List (List (α × α))) (e : α × α) (etl : List (α × α))
    (hrows : s.rows = eys ++ [e :: etl]) (B : List (List (List ℝ))) (E : ℝ) (h : Inv toR u s B E) :
    ∃ B', Inv toR u (deleteOldest s) B'
        (subErr u (asum ((windowOf B).drop (2 ^ eys.length)))
          (bucketErr u eys.length (asum ((windowOf B).take (2 ^ eys.length)))) E)
      ∧ windowOf B' = (windowOf B).drop (2 ^ eys.length) := by
  obtain ⟨hR, hok, hw, ht⟩ := h
  rw [hrows] at hR
  obtain ⟨bs, bl, rfl, hR1, hR2⟩ := RowsErr_concat_left 0 eys (e :: etl) B hR
  rw [List.forall₂_cons_left_iff] at hR2
  obtain ⟨b, btl, heb, hetl, rfl⟩ := hR2
  rw [Nat.zero_add] at heb hetl
  have hlen : eys.length = bs.length := RowsErr_length 0 eys bs hR1
  rw [BlocksOK_append_singleton] at hok
  obtain ⟨hokbs, hokl⟩ := hok
  have hb : b.length = 2 ^ eys.length := by rw [hlen]; simpa using hokl b (by simp)
  set R := btl.flatten ++ windowOf bs with hRdef
  have hW : windowOf (bs ++ [b :: btl]) = b ++ R := by
    rw [windowOf_append_singleton]; simp [hRdef]
  rw [hW] at hw ht ⊢
  have htake : (b ++ R).take (2 ^ eys.length) = b := by rw [← hb]; simp
  have hdrop : (b ++ R).drop (2 ^ eys.length) = R := by rw [← hb]; simp
  rw [htake, hdrop]
  rw [deleteOldest_concat s eys e etl hrows]
  -- the ghost table after the deletion
  obtain ⟨B', hB1, hB2, hB3⟩ : ∃ B', RowsErr toR u 0 (if etl.isEmpty then trimRows eys else eys ++ [etl]) B'
      ∧ BlocksOK 0 B' ∧ windowOf B' = R := by
    by_cases hbt : etl = []
    · subst hbt
      cases hetl
      obtain ⟨B', h1, h2, h3⟩ := trimRows_err 0 eys bs hR1 hokbs
      exact ⟨B', by simpa using h1, h2, by simp [h3, hRdef]⟩
    · have : etl.isEmpty = false := by simp [hbt]
      rw [this]
      refine ⟨bs ++ [btl], ?_, ?_, by simp [windowOf_append_singleton, hRdef]⟩
      · exact RowsErr_concat 0 eys bs etl btl hR1 (by rw [Nat.zero_add]; exact hetl)
      · rw [BlocksOK_append_singleton]
        exact ⟨hokbs, fun b' hb' => hokl b' (List.mem_cons_of_mem _ hb')⟩
  refine ⟨B', ⟨hB1, hB2, ?_, ?_⟩, hB3⟩
  · show s.width - 2 ^ eys.length = _
    rw [hB3, hw, List.length_append, hb]; omega
  · show |toR (s.total - e.1) - (windowOf B').sum| ≤ _
    rw [hB3]
    obtain ⟨δ, hδ, hsub⟩ := sm.sub s.total e.1
    rw [hsub]
    have e0 : ∀ b R : List ℝ, R.sum = (b ++ R).sum - b.sum := by
      intro b R; rw [List.sum_append]; ring
    have e1 : R.sum = (b ++ R).sum - b.sum := e0 b R
    rw [e1]
    refine le_trans (sub_round hδ ht heb) ?_
    unfold subErr
    rw [← e1]
    have := mul_le_mul_of_nonneg_left
      (add_le_add (abs_sum_le_asum R) (le_refl (E + bucketErr u eys.length (asum b)))) sm.u_nonneg
    linarith

/-- ghost state `(window, error bound)` and its two events -/
noncomputable def insE (u : ℝ) (p : List ℝ × ℝ) (x : ℝ) : List ℝ × ℝ := (p.1 ++ [x], addErr u (asum p.1) x p.2)

/-- deletion of the oldest bucket, held in row `k`: the oldest `2^k` values leave -/
noncomputable def delE (u : ℝ) (p : List ℝ × ℝ) (k : ℕ) : List ℝ × ℝ :=
  (p.1.drop (2 ^ k), subErr u (asum (p.1.drop (2 ^ k))) (bucketErr u k (asum (p.1.take (2 ^ k)))) p.2)

/-- the rows (`= rows.length − 1` at that moment) of the buckets `checkLoop` deletes — the carrier run's own
control flow, same recursion as `checkLoop` -/
def delRows (c : Cfg α) : ℕ → State α → List ℕ
  | 0, _ => []
  | fuel + 1, s =>
    if cutFound c s then (if 0 < s.width then (s.rows.length - 1) :: delRows c fuel (del s) else []) else []

/-- the deletions of one `step` -/
def stepDels (c : Cfg α) (s : State α) (v : α) : List ℕ :=
  if checkRuns c s then delRows c (numEntries (afterInsert c s v) + 1) (afterInsert c s v) else []

theorem Inv_checkLoop (sm : StdModel α toR u) (c : Cfg α) (fuel : ℕ) (s : State α) (hwf : WF c s)
    (B : List (List (List ℝ))) (E : ℝ) (h : Inv toR u s B E) :
    ∃ B', Inv toR u (checkLoop c fuel s) B' ((delRows c fuel s).foldl (delE u) (windowOf B, E)).2
      ∧ windowOf B' = ((delRows c fuel s).foldl (delE u) (windowOf B, E)).1 := by
  induction fuel generalizing s B E with
  | zero => exact ⟨B, h, rfl⟩
  | succ f ih =>
    rw [checkLoop_succ, delRows]
    cases hc : cutFound c s with
    | false => exact ⟨B, by simpa using h, by simp⟩
    | true =>
      by_cases hpos : 0 < s.width
      · simp only [if_true, hpos]
        -- shape of the rows: the last row is non-empty
        have h1 : 1 ≤ numEntries s := le_trans (by decide) (scan_true_two hc)
        obtain ⟨hr, _⟩ := hwf
        rcases List.eq_nil_or_concat s.rows with h0 | ⟨eys, l, hrows⟩
        · exact absurd h0 hr.ne
        · rw [List.concat_eq_append] at hrows
          have hl : l ≠ [] := by
            rcases hr.last with heq | hl
            · rw [numEntries_eq, heq] at h1; simp at h1
            · rw [hrows] at hl; exact (LastNE_append_singleton _ _).1 hl
          obtain ⟨e, etl, rfl⟩ := List.exists_cons_of_ne_nil hl
          obtain ⟨B1, hB1, hW1⟩ := Inv_delete sm s eys e etl hrows B E h
          have hk : s.rows.length - 1 = eys.length := by simp [hrows]
          have hB1' : Inv toR u (del s) B1 _ := ⟨hB1.rows, hB1.blocks, hB1.width, hB1.tot⟩
          obtain ⟨B', hB', hW'⟩ := ih (del s) (WF_deleteOldest c s ⟨hr, ‹_›⟩) B1 _ hB1'
          rw [hW1] at hB' hW'
          refine ⟨B', ?_, ?_⟩
          · rw [List.foldl_cons, hk]
            simp only [delE]
            exact hB'
          · rw [List.foldl_cons, hk]
            simp only [delE]
            exact hW'
      · simp only [if_true, hpos, if_false]
        exact ⟨B, ⟨h.rows, h.blocks, h.width, h.tot⟩, rfl⟩

/-- **one full step, deletions included** (well-formed state, `1 ≤ m`): the ghost `(window, error)` receives the
inserted value and then the deletions `stepDels c s v` the carrier run performed. -/
theorem Inv_step (sm : StdModel α toR u) (c : Cfg α) (hm : 1 ≤ c.m) (s : State α) (hwf : WF c s) (v : α)
    (B : List (List (List ℝ))) (E : ℝ) (h : Inv toR u s B E) :
    ∃ B', Inv toR u (step c s v) B' ((stepDels c s v).foldl (delE u) (insE u (windowOf B, E) (toR v))).2
      ∧ windowOf B' = ((stepDels c s v).foldl (delE u) (insE u (windowOf B, E) (toR v))).1 := by
  have hB' : Inv toR u { s with n := s.n + 1, drift := false } B E := ⟨h.rows, h.blocks, h.width, h.tot⟩
  have hins : Inv toR u (afterInsert c s v) (insG c.m (toR v) B) (addErr u (asum (windowOf B)) (toR v) E) :=
    Inv_insert sm c _ v B E hB'
  have hWi := windowOf_insG c.m (toR v) B
  rw [step_eq]
  unfold stepDels
  by_cases hr : checkRuns c s
  · rw [if_pos hr, if_pos hr]
    obtain ⟨B', h1, h2⟩ := Inv_checkLoop sm c _ _ (WF_afterInsert c hm s v hwf) _ _ hins
    rw [hWi] at h1 h2
    exact ⟨B', h1, h2⟩
  · rw [if_neg hr, if_neg hr]
    exact ⟨_, hins, hWi⟩

/-- the ghost `(window, error bound)` after a trace `[(x_1, ks_1), (x_2, ks_2), …]`: value inserted, then the rows of
the buckets deleted in that step -/
noncomputable def traceErr (u : ℝ) (tr : List (ℝ × List ℕ)) : List ℝ × ℝ :=
  tr.foldl (fun p t => t.2.foldl (delE u) (insE u p t.1)) ([], 0)

/-- the trace of the carrier run (its own control flow): per update the represented value and `stepDels` -/
def runTrace (toR : α → ℝ) (c : Cfg α) (xs : List α) : List (ℝ × List ℕ) :=
  (xs.foldl (fun (p : State α × List (ℝ × List ℕ)) v => (step c p.1 v, p.2 ++ [(toR v, stepDels c p.1 v)]))
            (init, [])).2

theorem runTrace_fst (toR : α → ℝ) (c : Cfg α) (xs : List α) :
    (xs.foldl (fun (p : State α × List (ℝ × List ℕ)) v => (step c p.1 v, p.2 ++ [(toR v, stepDels c p.1 v)]))
            (init, [])).1 = xs.foldl (step c) init := by
  induction xs using List.reverseRecOn with
  | nil => rfl
  | append_singleton xs v ih => rw [List.foldl_append, List.foldl_append]; simp [ih]

theorem runTrace_snoc (toR : α → ℝ) (c : Cfg α) (xs : List α) (v : α) :
    runTrace toR c (xs ++ [v]) = runTrace toR c xs ++ [(toR v, stepDels c (xs.foldl (step c) init) v)] := by
  unfold runTrace
  rw [List.foldl_append]
  simp only [List.foldl_cons, List.foldl_nil]
  rw [runTrace_fst]

theorem run_WF (c : Cfg α) (hm : 1 ≤ c.m) (xs : List α) : WF c (xs.foldl (step c) init) := by
  induction xs using List.reverseRecOn with
  | nil => exact WF_init c
  | append_singleton xs v ih => rw [List.foldl_append]; exact WF_step c hm _ v ih

/-- **total_err (deletions included).**  Standard model; `1 ≤ c.m`; ANY stream.  After every update the state
satisfies `Inv` against a ghost table whose window and error bound are `traceErr u (runTrace toR c xs)`:
`insE`/`addErr` per update, `delE`/`subErr` per bucket the carrier run deleted. -/
theorem total_err_inv (sm : StdModel α toR u) (c : Cfg α) (hm : 1 ≤ c.m) (xs : List α) :
    ∃ B, Inv toR u (xs.foldl (step c) init) B (traceErr u (runTrace toR c xs)).2
      ∧ windowOf B = (traceErr u (runTrace toR c xs)).1 := by
  induction xs using List.reverseRecOn with
  | nil => exact ⟨[[]], by simpa [traceErr, runTrace] using Inv_init sm, by simp [traceErr, runTrace]⟩
  | append_singleton xs v ih =>
    obtain ⟨B, hB, hW⟩ := ih
    obtain ⟨B', h1, h2⟩ := Inv_step sm c hm _ (run_WF c hm xs) v B _ hB
    rw [hW] at h1 h2
    refine ⟨B', ?_, ?_⟩
    · rw [List.foldl_append, runTrace_snoc]
      unfold traceErr
      rw [List.foldl_append]
      exact h1
    · rw [runTrace_snoc]
      unfold traceErr
      rw [List.foldl_append]
      exact h2

/-- **total_err.**  `|toR total − Σ window| ≤` the trace error bound, `width = |window|`, for the window
`(traceErr …).1` = the stream values the carrier run still holds. -/
theorem total_err (sm : StdModel α toR u) (c : Cfg α) (hm : 1 ≤ c.m) (xs : List α) :
    |toR (xs.foldl (step c) init).total - (traceErr u (runTrace toR c xs)).1.sum| ≤ (traceErr u (runTrace toR c xs)).2
      ∧ (xs.foldl (step c) init).width = (traceErr u (runTrace toR c xs)).1.length := by
  obtain ⟨B, hB, hW⟩ := total_err_inv sm c hm xs
  exact ⟨by have := hB.tot; rwa [hW] at this, by have := hB.width; rwa [hW] at this⟩

/-- every stored bucket total of row `k`, deletions included -/
theorem bucket_err (sm : StdModel α toR u) (c : Cfg α) (hm : 1 ≤ c.m) (xs : List α)
    (k : ℕ) (row : List (α × α)) (hk : (xs.foldl (step c) init).rows[k]? = some row) (e : α × α) (he : e ∈ row) :
    ∃ b : List ℝ, b.length = 2 ^ k ∧ b <:+: (traceErr u (runTrace toR c xs)).1 ∧
      |toR e.1 - b.sum| ≤ ((1 + u) ^ k - 1) * asum b := by
  obtain ⟨B, hB, hW⟩ := total_err_inv sm c hm xs
  obtain ⟨b, h1, h2, h3⟩ := RowsErr_entry 0 _ B hB.rows hB.blocks k row hk e he
  rw [Nat.zero_add] at h1 h3
  rw [hW] at h2
  exact ⟨b, h1, h2, h3⟩

/-- non-vacuity of the trace recursion with a deletion: three updates, the third step deletes the oldest row-0
bucket; the window is `[1, 5]` and the bound is `subErr` applied on top of three `addErr` -/
example (u : ℝ) :
    (traceErr u [(1, []), (1, []), (5, [0])]).1 = [1, 5]
      ∧ (traceErr u [(1, []), (1, []), (5, [0])]).2
          = subErr u (asum [1, 5]) (bucketErr u 0 (asum [1])) (totalErr u [1, 1, 5]) := by
  constructor
  · simp [traceErr, insE, delE]
  · simp [traceErr, insE, delE, totalErr]

/-- non-vacuity of `total_err` (hypotheses: a standard-model carrier with `δ ≠ 0`, `1 ≤ m`, any stream) -/
example :
    let U : ℝ := 1 / 2 ^ 53
    let c : Cfg (Biased U) := ⟨1, ⟨1 / 100⟩, 1, 0, 0⟩
    let xs : List (Biased U) := [⟨1⟩, ⟨2⟩, ⟨3⟩, ⟨40⟩]
    |(xs.foldl (step c) init).total.val - (traceErr U (runTrace Biased.val c xs)).1.sum|
        ≤ (traceErr U (runTrace Biased.val c xs)).2 :=
  (total_err (stdModel_biased (by positivity)) _ (by decide) _).1

/- UNPROVED (full statement), comparison of the trace recursion WITH deletions against the harness's budget:
   for a trace `tr` whose deletions are legal (each `del k` removes `2^k ≤ |window|` values),
     (traceErr u tr).2 ≤ (1+u)^(N tr) · harnessBudget u tr,        N tr = number of rounded operations on the path
   where `harnessBudget` adds `u·abs_sum` per update and, per step that drops `d` values with absolute sum `gone`,
   `u·(log2(d+1)+2)·gone + u·abs_sum·(log2(d+1)+1)` (`abs_sum` = the harness's cumulative, never decreased, Σ|x|).
   First-order reading of what IS proved (`Inv_delete`, `subErr`, `bucketErr`): deleting a bucket of row `k`
   (`2^k` values, absolute sum `gone_k`) adds `bucketErr u k gone_k ≈ k·u·gone_k` (propagated) and `u·|remaining sum|`
   (the subtraction); a step that drops `d` values deletes buckets of rows `k ≤ log2 d`, at most `log2(d+1)`… of them
   only if their rows are distinct, which the model does NOT guarantee for `m ≥ 2` (up to `m` buckets per row can go in
   one step), so the harness's count `log2(dropped+1)+1` of subtractions is NOT an upper bound on the number of
   subtractions in general: e.g. `m = 5`, a window of five row-0 buckets of which four are dropped in one step would
   be 4 subtractions against `log2(5)+1 ≈ 3.3` (allowed by the control flow of `checkLoop`; NOT exhibited here as a
   concrete run).  Whether `2·budget` still dominates then depends on the slack of using the cumulative `abs_sum`
   instead of the remaining window sum; not proved here. -/

/-! ## Axioms -/
#print axioms bucketErr_merge
#print axioms merge_err
#print axioms compress_err
#print axioms Inv_insert
#print axioms total_err_nocut_inv
#print axioms total_err_nocut
#print axioms bucket_err_nocut
#print axioms no_drift_of_clock
#print axioms total_err_clock
#print axioms totalErr_le_pow
#print axioms totalErr_le_pow_M
#print axioms budget_le_totalErr
#print axioms totalErr_le_budget
#print axioms totalErr_le_two_budget
#print axioms total_within_harness_tolerance
#print axioms totalErr_tight_witness
#print axioms Inv_delete
#print axioms Inv_step
#print axioms total_err_inv
#print axioms total_err
#print axioms bucket_err

end Frouros.C05r
