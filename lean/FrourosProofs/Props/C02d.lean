/-
  C02 (fourth part) — closes the gaps the review found in the C02 theorems.

  1. `Trace.outs` / `Trace.outs_after_reset`: the OUTPUT SEQUENCE after a `reset` placed anywhere in any history equals
     the output sequence of a new instance on the same suffix — generic in the machine and in the observation, then
     `outs_after_reset_<det>` with `obs := (n, drift, warning)` for all 11 machines of `Machines.lean`, and
     `reads_new_<det>`: a new detector, and ANY state right after `reset`, read `(0, false, false)`.
  2. IncrementalKSTest / streaming MMD at run level: output sequences of `fit (reset s) xs` and `fit (init w) xs`
     coincide on every stream (`*_outputs_after_reset_fit`); stronger, as machines over fit / update / reset commands,
     `incks_outs_after_reset`, `mmd_outs_after_reset` (the latter by a simulation, because `reset` leaves the stale
     precomputed term: `mmd_reset_keeps_pre_witness`); `mmd_reset_reads_new`.
  3. RDDM / STEPD with the hypothesis "accepted configuration" (`Config.rddm … = none`, `Config.stepd … = none`).
  4. KSWIN with the random generator in the state (`KSWINGen`): `kswin_gen_reset`, `kswin_gen_run_after_reset`,
     `kswin_gen_outs_after_reset` (reset ≡ new detector AT THE CURRENT GENERATOR POSITION) and `kswin_gen_witness`
     (not ≡ a new detector at the original position).
  5. ADWIN counters `num_buckets`, `num_max_buckets`: `reset_adwin_counters`, `adwin_counters_inv`, `adwin_counters`,
     `adwin_max_lt_buckets_witness`.
  All statements hold for every carrier `[Num α]` (hence for IEEE doubles); ℝ is used only in non-vacuity examples.
-/
import FrourosProofs.Props.C02b
import FrourosProofs.Props.C02c
import FrourosProofs.Props.C19b
import FrourosProofs.Lemmas.ADWINRows
namespace Frouros.C02
open Frouros

/-! ## 1. Trace form -/
namespace Trace
variable {S V O : Type}

/-- observations after every operation of a history started from `s` -/
def outsFrom (M : Machine S V) (obs : S → O) (s : S) : List (Op V) → List O
  | [] => []
  | op :: ops => obs (M.apply s op) :: outsFrom M obs (M.apply s op) ops

/-- observations after every operation of a history run on a fresh instance -/
def outs (M : Machine S V) (obs : S → O) (ops : List (Op V)) : List O := outsFrom M obs M.init ops

theorem length_outsFrom (M : Machine S V) (obs : S → O) (s : S) (ops : List (Op V)) :
    (outsFrom M obs s ops).length = ops.length := by
  induction ops generalizing s with
  | nil => rfl
  | cons op ops ih => simp [outsFrom, ih]

theorem outsFrom_append (M : Machine S V) (obs : S → O) (s : S) (a b : List (Op V)) :
    outsFrom M obs s (a ++ b) = outsFrom M obs s a ++ outsFrom M obs (M.runFrom s a) b := by
  induction a generalizing s with
  | nil => rfl
  | cons op a ih => simp [outsFrom, ih, Machine.runFrom]

/-- `outs` really is "the observation after every operation": its `k`-th entry is the observation of the state
reached by the first `k+1` operations -/
theorem outsFrom_getElem? (M : Machine S V) (obs : S → O) (s : S) (ops : List (Op V)) (k : Nat) (hk : k < ops.length) :
    (outsFrom M obs s ops)[k]? = some (obs (M.runFrom s (ops.take (k + 1)))) := by
  induction ops generalizing s k with
  | nil => simp at hk
  | cons op ops ih =>
    cases k with
    | zero => simp [outsFrom, Machine.runFrom]
    | succ k =>
      have hk' : k < ops.length := by simpa using hk
      simp only [outsFrom, List.getElem?_cons_succ, List.take_succ_cons]
      rw [ih _ k hk']
      simp [Machine.runFrom]

theorem outs_getElem? (M : Machine S V) (obs : S → O) (ops : List (Op V)) (k : Nat) (hk : k < ops.length) :
    (outs M obs ops)[k]? = some (obs (M.run (ops.take (k + 1)))) := outsFrom_getElem? M obs M.init ops k hk

theorem length_outs (M : Machine S V) (obs : S → O) (ops : List (Op V)) : (outs M obs ops).length = ops.length :=
  length_outsFrom M obs M.init ops

/-- **outs_after_reset** (generic).  If `reset` of every reachable state is `init`, the outputs produced after a
`reset` placed anywhere in a history are the outputs of a fresh instance on the same suffix. -/
theorem outs_after_reset (M : Machine S V) (obs : S → O) (hreset : ∀ s, M.Reachable s → M.reset s = M.init)
    (pre post : List (Op V)) :
    (outs M obs (pre ++ [.reset] ++ post)).drop (pre.length + 1) = outs M obs post := by
  unfold outs
  rw [outsFrom_append]
  have hlen : (outsFrom M obs M.init (pre ++ [Op.reset])).length = pre.length + 1 := by
    rw [length_outsFrom]; simp
  rw [List.drop_left' hlen]
  have h := M.run_after_reset hreset pre []
  simp only [List.append_nil, Machine.run] at h
  rw [h]
  rfl

/-- the output of the `reset` itself is the observation of a new instance, and then the trace of a new instance
follows (the version of `outs_after_reset` that keeps the entry produced by the reset) -/
theorem outs_from_reset (M : Machine S V) (obs : S → O) (hreset : ∀ s, M.Reachable s → M.reset s = M.init)
    (pre post : List (Op V)) :
    (outs M obs (pre ++ [.reset] ++ post)).drop pre.length = obs M.init :: outs M obs post := by
  unfold outs
  rw [List.append_assoc, outsFrom_append, List.drop_left' (length_outsFrom M obs M.init pre)]
  show obs (M.reset (M.runFrom M.init pre)) :: outsFrom M obs (M.reset (M.runFrom M.init pre)) post = _
  have h : M.reset (M.runFrom M.init pre) = M.init := hreset _ (M.reachable_run pre)
  rw [h]

/-- simulation lemma: if `R` is preserved by every operation and related states have the same observation, two
related states produce the same outputs on every history -/
theorem outsFrom_sim (M : Machine S V) (obs : S → O) (R : S → S → Prop)
    (hstep : ∀ s t op, R s t → R (M.apply s op) (M.apply t op)) (hobs : ∀ s t, R s t → obs s = obs t)
    (s t : S) (h : R s t) (ops : List (Op V)) : outsFrom M obs s ops = outsFrom M obs t ops := by
  induction ops generalizing s t with
  | nil => rfl
  | cons op ops ih =>
    have h' := hstep s t op h
    simp only [outsFrom, hobs _ _ h', ih _ _ h']

/-- **outs_after_reset_sim**: the same conclusion as `outs_after_reset` when `reset` does not restore the initial
state literally but only up to a simulation `R` that the observation cannot see through (streaming MMD: `reset`
leaves the precomputed reference term behind) -/
theorem outs_after_reset_sim (M : Machine S V) (obs : S → O) (R : S → S → Prop)
    (hstep : ∀ s t op, R s t → R (M.apply s op) (M.apply t op)) (hobs : ∀ s t, R s t → obs s = obs t)
    (hreset : ∀ s, M.Reachable s → R (M.reset s) M.init) (pre post : List (Op V)) :
    (outs M obs (pre ++ [.reset] ++ post)).drop (pre.length + 1) = outs M obs post := by
  unfold outs
  rw [outsFrom_append]
  have hlen : (outsFrom M obs M.init (pre ++ [Op.reset])).length = pre.length + 1 := by
    rw [length_outsFrom]; simp
  rw [List.drop_left' hlen]
  have h : M.runFrom M.init (pre ++ [Op.reset]) = M.reset (M.runFrom M.init pre) := by
    simp [Machine.runFrom, List.foldl_append, Machine.apply]
  rw [h]
  exact outsFrom_sim M obs R hstep hobs _ _ (hreset _ (M.reachable_run pre)) post

end Trace

/-! ### Per detector: `obs := (num_instances, drift, warning)` (or `(num_instances, drift)` where the class has no
warning flag).  `outs_after_reset_<det>`: the status sequence after a reset placed anywhere in any history equals the
status sequence of a new detector on the same suffix; `reads_new_<det>`: a new detector and a detector right after
`reset` (ANY state, reachable or not) read `(0, false, false)`.  Every carrier.  The same holds for any other
observation function (e.g. `obs := id`, the whole state) by `Trace.outs_after_reset`. -/
section PerDetector
variable {α : Type} [Num α]
open Trace

/-- status triple of `DDM` -/
def ddmStatus (s : DDM.State α) : Nat × Bool × Bool := (s.n, s.drift, s.warning)
/-- status triple of `EDDM` -/
def eddmStatus (s : EDDM.State α) : Nat × Bool × Bool := (s.n, s.drift, s.warning)
/-- status triple of `ECDD` -/
def ecddStatus (s : ECDD.State α) : Nat × Bool × Bool := (s.n, s.drift, s.warning)
/-- status triple of `HDDMA` -/
def hddmaStatus (s : HDDMA.State α) : Nat × Bool × Bool := (s.n, s.drift, s.warning)
/-- status triple of `HDDMW` -/
def hddmwStatus (s : HDDMW.State α) : Nat × Bool × Bool := (s.n, s.drift, s.warning)
/-- status triple of `RDDM` -/
def rddmStatus (s : RDDM.State α) : Nat × Bool × Bool := (s.n, s.drift, s.warning)
/-- status triple of `STEPD` -/
def stepdStatus (s : STEPD.State) : Nat × Bool × Bool := (s.n, s.drift, s.warning)
/-- status pair of `ADWIN` (no warning flag in this class) -/
def adwinStatus (s : ADWIN.State α) : Nat × Bool := (s.n, s.drift)
/-- status pair of `CUSUMFam` (no warning flag in this class) -/
def cusumStatus (s : CUSUMFam.State α) : Nat × Bool := (s.n, s.drift)
/-- status pair of `BOCD` (no warning flag in this class) -/
def bocdStatus (s : BOCD.State α) : Nat × Bool := (s.n, s.drift)
/-- status pair of `KSWIN` (no warning flag in this class) -/
def kswinStatus (s : KSWIN.State α) : Nat × Bool := (s.n, s.drift)

theorem outs_after_reset_ddm (c : DDM.Cfg α) (pre post : List (Op (α))) :
    (outs (DDM.machine c) ddmStatus (pre ++ [.reset] ++ post)).drop (pre.length + 1) = outs (DDM.machine c) ddmStatus post :=
  outs_after_reset _ _ (fun s _ => reset_eq_init_ddm c s) pre post
theorem outs_after_reset_eddm (c : EDDM.Cfg α) (pre post : List (Op (α))) :
    (outs (EDDM.machine c) eddmStatus (pre ++ [.reset] ++ post)).drop (pre.length + 1) = outs (EDDM.machine c) eddmStatus post :=
  outs_after_reset _ _ (fun s _ => reset_eq_init_eddm c s) pre post
theorem outs_after_reset_ecdd (c : ECDD.Cfg α) (pre post : List (Op (α))) :
    (outs (ECDD.machine c) ecddStatus (pre ++ [.reset] ++ post)).drop (pre.length + 1) = outs (ECDD.machine c) ecddStatus post :=
  outs_after_reset _ _ (fun s _ => reset_eq_init_ecdd c s) pre post
theorem outs_after_reset_hddma (c : HDDMA.Cfg α) (pre post : List (Op (α))) :
    (outs (HDDMA.machine c) hddmaStatus (pre ++ [.reset] ++ post)).drop (pre.length + 1) = outs (HDDMA.machine c) hddmaStatus post :=
  outs_after_reset _ _ (fun s _ => reset_eq_init_hddma c s) pre post
theorem outs_after_reset_hddmw (c : HDDMW.Cfg α) (pre post : List (Op (α))) :
    (outs (HDDMW.machine c) hddmwStatus (pre ++ [.reset] ++ post)).drop (pre.length + 1) = outs (HDDMW.machine c) hddmwStatus post :=
  outs_after_reset _ _ (fun s _ => reset_eq_init_hddmw c s) pre post
theorem outs_after_reset_rddm (c : RDDM.Cfg α) (hc : 0 < c.minConcept) (pre post : List (Op (α))) :
    (outs (RDDM.machine c) rddmStatus (pre ++ [.reset] ++ post)).drop (pre.length + 1) = outs (RDDM.machine c) rddmStatus post :=
  outs_after_reset _ _ (reset_eq_init_rddm c hc) pre post
theorem outs_after_reset_stepd (sf : α → α) (c : STEPD.Cfg α) (hc : 0 < c.minN) (pre post : List (Op (Bool))) :
    (outs (STEPD.machine sf c) stepdStatus (pre ++ [.reset] ++ post)).drop (pre.length + 1) = outs (STEPD.machine sf c) stepdStatus post :=
  outs_after_reset _ _ (reset_eq_init_stepd sf c hc) pre post
theorem outs_after_reset_adwin (c : ADWIN.Cfg α) (pre post : List (Op (α))) :
    (outs (ADWIN.machine c) adwinStatus (pre ++ [.reset] ++ post)).drop (pre.length + 1) = outs (ADWIN.machine c) adwinStatus post :=
  outs_after_reset _ _ (fun s _ => reset_eq_init_adwin c s) pre post
theorem outs_after_reset_cusum (c : CUSUMFam.Cfg α) (pre post : List (Op (α))) :
    (outs (CUSUMFam.machine c) cusumStatus (pre ++ [.reset] ++ post)).drop (pre.length + 1) = outs (CUSUMFam.machine c) cusumStatus post :=
  outs_after_reset _ _ (fun s _ => reset_eq_init_cusum c s) pre post
theorem outs_after_reset_bocd (f : BOCD.Fns α) (c : BOCD.Cfg α) (pre post : List (Op (α))) :
    (outs (BOCD.machine f c) bocdStatus (pre ++ [.reset] ++ post)).drop (pre.length + 1) = outs (BOCD.machine f c) bocdStatus post :=
  outs_after_reset _ _ (fun s _ => reset_eq_init_bocd f c s) pre post
/-- KSWIN over the machine whose INPUT carries the drawn index tapes: equality only when the reset detector and the
new one are fed the same tapes; see section 4 (`KSWINGen`) for the statement with the generator in the state. -/
theorem outs_after_reset_kswin (ksP : List α → List α → α) (c : KSWIN.Cfg α) (pre post : List (Op (α × List Nat))) :
    (outs (KSWIN.machine ksP c) kswinStatus (pre ++ [.reset] ++ post)).drop (pre.length + 1) = outs (KSWIN.machine ksP c) kswinStatus post :=
  outs_after_reset _ _ (fun s _ => reset_eq_init_kswin ksP c s) pre post

theorem reads_new_ddm (c : DDM.Cfg α) :
    ddmStatus (DDM.machine c).init = (0, false, false) ∧ ∀ s, ddmStatus ((DDM.machine c).reset s) = (0, false, false) :=
  ⟨rfl, fun _ => rfl⟩
theorem reads_new_eddm (c : EDDM.Cfg α) :
    eddmStatus (EDDM.machine c).init = (0, false, false) ∧ ∀ s, eddmStatus ((EDDM.machine c).reset s) = (0, false, false) :=
  ⟨rfl, fun _ => rfl⟩
theorem reads_new_ecdd (c : ECDD.Cfg α) :
    ecddStatus (ECDD.machine c).init = (0, false, false) ∧ ∀ s, ecddStatus ((ECDD.machine c).reset s) = (0, false, false) :=
  ⟨rfl, fun _ => rfl⟩
theorem reads_new_hddma (c : HDDMA.Cfg α) :
    hddmaStatus (HDDMA.machine c).init = (0, false, false) ∧ ∀ s, hddmaStatus ((HDDMA.machine c).reset s) = (0, false, false) :=
  ⟨rfl, fun _ => rfl⟩
theorem reads_new_hddmw (c : HDDMW.Cfg α) :
    hddmwStatus (HDDMW.machine c).init = (0, false, false) ∧ ∀ s, hddmwStatus ((HDDMW.machine c).reset s) = (0, false, false) :=
  ⟨rfl, fun _ => rfl⟩
theorem reads_new_rddm (c : RDDM.Cfg α) :
    rddmStatus (RDDM.machine c).init = (0, false, false) ∧ ∀ s, rddmStatus ((RDDM.machine c).reset s) = (0, false, false) :=
  ⟨rfl, fun _ => rfl⟩
theorem reads_new_stepd (sf : α → α) (c : STEPD.Cfg α) :
    stepdStatus (STEPD.machine sf c).init = (0, false, false) ∧ ∀ s, stepdStatus ((STEPD.machine sf c).reset s) = (0, false, false) :=
  ⟨rfl, fun _ => rfl⟩
theorem reads_new_adwin (c : ADWIN.Cfg α) :
    adwinStatus (ADWIN.machine c).init = (0, false) ∧ ∀ s, adwinStatus ((ADWIN.machine c).reset s) = (0, false) :=
  ⟨rfl, fun _ => rfl⟩
theorem reads_new_cusum (c : CUSUMFam.Cfg α) :
    cusumStatus (CUSUMFam.machine c).init = (0, false) ∧ ∀ s, cusumStatus ((CUSUMFam.machine c).reset s) = (0, false) :=
  ⟨rfl, fun _ => rfl⟩
theorem reads_new_bocd (f : BOCD.Fns α) (c : BOCD.Cfg α) :
    bocdStatus (BOCD.machine f c).init = (0, false) ∧ ∀ s, bocdStatus ((BOCD.machine f c).reset s) = (0, false) :=
  ⟨rfl, fun _ => rfl⟩
theorem reads_new_kswin (ksP : List α → List α → α) (c : KSWIN.Cfg α) :
    kswinStatus (KSWIN.machine ksP c).init = (0, false) ∧ ∀ s, kswinStatus ((KSWIN.machine ksP c).reset s) = (0, false) :=
  ⟨rfl, fun _ => rfl⟩

/-- non-vacuity: a history with a non-trivial prefix (two updates and an earlier reset) and a two-step suffix; the
statement compares two lists of length 2 -/
example (c : DDM.Cfg α) (x y z w : α) :
    (outs (DDM.machine c) ddmStatus ([.update x, .reset, .update y] ++ [.reset] ++ [.update z, .update w])).drop 4
      = outs (DDM.machine c) ddmStatus [.update z, .update w] :=
  outs_after_reset_ddm c [.update x, .reset, .update y] [.update z, .update w]
example (c : DDM.Cfg α) (z w : α) : (outs (DDM.machine c) ddmStatus [.update z, .update w]).length = 2 := rfl
/-- the hypotheses of the RDDM / STEPD versions are satisfiable (library defaults) -/
example (w d : α) (pre post : List (Op α)) :=
  outs_after_reset_rddm (⟨w, d, 129, 40000, 7000, 1400⟩ : RDDM.Cfg α) (Nat.succ_pos _) pre post
example (sf : α → α) (aD aW : α) (pre post : List (Op Bool)) :=
  outs_after_reset_stepd sf (⟨aD, aW, 30⟩ : STEPD.Cfg α) (Nat.succ_pos _) pre post

end PerDetector

/-! ## 2. IncrementalKSTest and streaming MMD at run level

(a) As requested by the property text ("once re-fitted on the same reference"): the whole OUTPUT sequence of
`fit (reset s) xs` on any stream equals that of `fit (init w) xs`, for every reachable `s`.
(b) Stronger: both detectors packaged as `Machine`s whose inputs are `fit xs` / `update v` and whose state carries
the last output (`MissingFitError` marker and result); after a `reset` anywhere in any history of
fit / update / reset commands, every later output equals that of a new detector given the same later commands —
refitted or not, refitted on a different reference, reset again, … -/
section Streams
variable {α : Type} [Num α] {X : Type}

/-- outputs of a stream of `update`s -/
def incksOutputs (s : IncKS.State α) : List α → List (Option (IncKS.Result α))
  | [] => []
  | v :: vs => (IncKS.update s v).1 :: incksOutputs (IncKS.update s v).2 vs
/-- state after a stream of `update`s -/
def incksFinal (s : IncKS.State α) (vs : List α) : IncKS.State α := vs.foldl (fun s v => (IncKS.update s v).2) s

def mmdOutputs (k : X → X → α) (s : MMD.Stream α X) : List X → List (Option α)
  | [] => []
  | v :: vs => (MMD.Stream.update k s v).1 :: mmdOutputs k (MMD.Stream.update k s v).2 vs
def mmdFinal (k : X → X → α) (s : MMD.Stream α X) (vs : List X) : MMD.Stream α X :=
  vs.foldl (fun s v => (MMD.Stream.update k s v).2) s

theorem length_incksOutputs (s : IncKS.State α) (vs : List α) : (incksOutputs s vs).length = vs.length := by
  induction vs generalizing s with
  | nil => rfl
  | cons v vs ih => simp [incksOutputs, ih]

theorem length_mmdOutputs (k : X → X → α) (s : MMD.Stream α X) (vs : List X) : (mmdOutputs k s vs).length = vs.length := by
  induction vs generalizing s with
  | nil => rfl
  | cons v vs ih => simp [mmdOutputs, ih]

/-- **incks_outputs_after_reset_fit**: for every state `s` reachable from a new detector with window `w` (by any
fit / update / reset history), every reference `xs` and every stream `vs`: `reset(); fit(xs)` followed by the
stream gives exactly the outputs (and the final state) of `IncrementalKSTest(window_size=w).fit(xs)` on the stream. -/
theorem incks_outputs_after_reset_fit (w : Nat) (s : IncKS.State α) (h : IncKSReach.Reach w s) (xs vs : List α) :
    incksOutputs (IncKS.fit (IncKS.reset s) xs) vs = incksOutputs (IncKS.fit (IncKS.init w) xs) vs ∧
    incksFinal (IncKS.fit (IncKS.reset s) xs) vs = incksFinal (IncKS.fit (IncKS.init w) xs) vs := by
  rw [incks_reset_fit_eq w s h xs]; exact ⟨rfl, rfl⟩

/-- **mmd_outputs_after_reset_fit**: the same for the streaming MMD (kernel `k`, window `w`, chunk size `cs`) -/
theorem mmd_outputs_after_reset_fit (k : X → X → α) (w : Nat) (cs : Option Nat) (s : MMD.Stream α X)
    (h : MMDReach.Reach k w cs s) (xs vs : List X) :
    mmdOutputs k (MMD.Stream.fit k (MMD.Stream.reset s) xs) vs = mmdOutputs k (MMD.Stream.fit k (MMD.Stream.init w cs) xs) vs ∧
    mmdFinal k (MMD.Stream.fit k (MMD.Stream.reset s) xs) vs = mmdFinal k (MMD.Stream.fit k (MMD.Stream.init w cs) xs) vs := by
  rw [mmd_reset_fit_eq k w cs s h xs]; exact ⟨rfl, rfl⟩

/-- non-vacuity (MMD; the review noted there was none): a reachable state that is far from new — fitted, updated
twice, reset, refitted on another reference, updated — for ANY kernel and carrier -/
example (k : X → X → α) (a b c d : X) :
    MMDReach.Reach k 2 (some 1)
      (MMD.Stream.update k (MMD.Stream.fit k (MMD.Stream.reset
        (MMD.Stream.update k (MMD.Stream.update k (MMD.Stream.fit k (MMD.Stream.init 2 (some 1)) [a, b]) c).2 d).2) [c, d]) a).2 :=
  .update _ (.fit _ (.reset (.update _ (.update _ (.fit _ .init)))))

omit [Num α] in
/-- **mmd_reset_reads_new**: right after `reset()` the counter reads 0, the detector is unfitted and the window is
empty — for EVERY state.  (`pre`, the reference term precomputed by `fit`, is NOT cleared: see
`mmd_reset_keeps_pre_witness`; it is unobservable, see `mmd_outs_after_reset`.) -/
theorem mmd_reset_reads_new (s : MMD.Stream α X) :
    (MMD.Stream.reset s).n = 0 ∧ (MMD.Stream.reset s).ref = none ∧ (MMD.Stream.reset s).q.count = 0 ∧
    (MMD.Stream.reset s).q.toList = [] ∧ MMD.Stream.updateErr (MMD.Stream.reset s) = some .missingFit :=
  ⟨rfl, rfl, rfl, rfl, rfl⟩

/-- the state right after `reset` is in general NOT the state of a new detector: the stale precomputed term stays
(any kernel, any carrier, any reference) -/
theorem mmd_reset_keeps_pre_witness (k : X → X → α) (w : Nat) (cs : Option Nat) (xs : List X) :
    MMDReach.Reach k w cs (MMD.Stream.fit k (MMD.Stream.init w cs) xs) ∧
    (MMD.Stream.reset (MMD.Stream.fit k (MMD.Stream.init w cs) xs)).pre.isSome = true ∧
    (MMD.Stream.init w cs : MMD.Stream α X).pre.isSome = false ∧
    MMD.Stream.reset (MMD.Stream.fit k (MMD.Stream.init w cs) xs) ≠ MMD.Stream.init w cs := by
  refine ⟨.fit _ .init, rfl, rfl, fun h => ?_⟩
  have := congrArg (fun s => s.pre.isSome) h
  simp [MMD.Stream.reset, MMD.Stream.fit, MMD.Stream.init] at this

/-- for IncrementalKSTest `reset` restores the initial state literally (reachable states) -/
theorem incks_reset_eq_init (w : Nat) (s : IncKS.State α) (h : IncKSReach.Reach w s) : IncKS.reset s = IncKS.init w := by
  obtain ⟨hw, hq⟩ := IncKSReach.inv h
  unfold IncKS.reset IncKS.init
  simp only [cq_clear_eq_init, hq]
  rw [← hw]

/-! ### (b) the detectors as machines over `fit` / `update` commands -/

/-- inputs of a streaming data-drift detector -/
inductive SIn (X : Type) where
  | fit (xs : List X)
  | update (v : X)

/-- what a call returns: the exception marker (`MissingFitError` for `update` before `fit`) and the result -/
abbrev SOut (R : Type) := Option Err × Option R

def incksMachine (w : Nat) : Machine (SOut (IncKS.Result α) × IncKS.State α) (SIn α) where
  init := ((none, none), IncKS.init w)
  step := fun p i => match i with
    | .fit xs => ((none, none), IncKS.fit p.2 xs)
    | .update v => ((IncKS.updateErr p.2, (IncKS.update p.2 v).1), (IncKS.update p.2 v).2)
  reset := fun p => ((none, none), IncKS.reset p.2)

def mmdMachine (k : X → X → α) (w : Nat) (cs : Option Nat) : Machine (SOut α × MMD.Stream α X) (SIn X) where
  init := ((none, none), MMD.Stream.init w cs)
  step := fun p i => match i with
    | .fit xs => ((none, none), MMD.Stream.fit k p.2 xs)
    | .update v => ((MMD.Stream.updateErr p.2, (MMD.Stream.update k p.2 v).1), (MMD.Stream.update k p.2 v).2)
  reset := fun p => ((none, none), MMD.Stream.reset p.2)

theorem incksMachine_reach (w : Nat) {p : SOut (IncKS.Result α) × IncKS.State α}
    (h : (incksMachine w).Reachable p) : IncKSReach.Reach w p.2 := by
  induction h with
  | init => exact .init
  | step v _ ih => cases v with
    | fit xs => exact .fit xs ih
    | update v => exact .update v ih
  | reset _ ih => exact .reset ih

theorem mmdMachine_reach (k : X → X → α) (w : Nat) (cs : Option Nat) {p : SOut α × MMD.Stream α X}
    (h : (mmdMachine k w cs).Reachable p) : MMDReach.Reach k w cs p.2 := by
  induction h with
  | init => exact .init
  | step v _ ih => cases v with
    | fit xs => exact .fit xs ih
    | update v => exact .update v ih
  | reset _ ih => exact .reset ih

/-- **incks_outs_after_reset**: IncrementalKSTest, any window size, any carrier.  After a `reset` placed anywhere in
any history of fit / update / reset calls, the sequence of everything the later calls return (exception marker,
statistic, lattice statistic, exact p-value) is the one a new detector returns on the same later calls. -/
theorem incks_outs_after_reset (w : Nat) (pre post : List (Op (SIn α))) :
    (Trace.outs (incksMachine (α := α) w) Prod.fst (pre ++ [.reset] ++ post)).drop (pre.length + 1)
      = Trace.outs (incksMachine w) Prod.fst post :=
  Trace.outs_after_reset _ _ (fun p hp => by
    show ((none, none), IncKS.reset p.2) = ((none, none), IncKS.init w)
    rw [incks_reset_eq_init w p.2 (incksMachine_reach w hp)]) pre post

/-- the relation `reset` establishes for the streaming MMD: same returned value, same state except possibly the
precomputed term, which may differ only while the detector is unfitted -/
def MMDSim (p t : SOut α × MMD.Stream α X) : Prop :=
  p.1 = t.1 ∧ p.2.n = t.2.n ∧ p.2.window = t.2.window ∧ p.2.chunkSize = t.2.chunkSize ∧ p.2.ref = t.2.ref ∧
    p.2.q = t.2.q ∧ (p.2.ref ≠ none → p.2.pre = t.2.pre)

theorem MMDSim_apply (k : X → X → α) (w : Nat) (cs : Option Nat) (p t : SOut α × MMD.Stream α X) (op : Op (SIn X))
    (h : MMDSim p t) : MMDSim ((mmdMachine k w cs).apply p op) ((mmdMachine k w cs).apply t op) := by
  obtain ⟨o, s⟩ := p
  obtain ⟨o', s'⟩ := t
  obtain ⟨n, win, chk, ref, pre, q⟩ := s
  obtain ⟨n', win', chk', ref', pre', q'⟩ := s'
  obtain ⟨h1, h2, h3, h4, h5, h6, h7⟩ := h
  simp only at h1 h2 h3 h4 h5 h6 h7
  subst h1 h2 h3 h4 h5 h6
  cases op with
  | reset => exact ⟨rfl, rfl, rfl, rfl, rfl, rfl, fun h => absurd rfl h⟩
  | update i =>
    cases i with
    | fit xs => exact ⟨rfl, rfl, rfl, rfl, rfl, rfl, fun _ => rfl⟩
    | update v =>
      cases ref with
      | none => exact ⟨rfl, rfl, rfl, rfl, rfl, rfl, fun h => absurd rfl h⟩
      | some r =>
        have hp : pre = pre' := h7 (by simp)
        subst hp
        exact ⟨rfl, rfl, rfl, rfl, rfl, rfl, fun _ => rfl⟩

/-- **mmd_outs_after_reset**: streaming MMD, any kernel, window size, chunk size, carrier.  After a `reset` placed
anywhere in any history of fit / update / reset calls, everything the later calls return equals what a new detector
returns on the same later calls — although the state itself is NOT restored (`mmd_reset_keeps_pre_witness`): the
stale precomputed term is never read before the next `fit` overwrites it. -/
theorem mmd_outs_after_reset (k : X → X → α) (w : Nat) (cs : Option Nat) (pre post : List (Op (SIn X))) :
    (Trace.outs (mmdMachine k w cs) Prod.fst (pre ++ [.reset] ++ post)).drop (pre.length + 1)
      = Trace.outs (mmdMachine k w cs) Prod.fst post := by
  refine Trace.outs_after_reset_sim _ _ MMDSim (MMDSim_apply k w cs) (fun _ _ h => h.1) ?_ pre post
  intro p hp
  obtain ⟨hw, hc, hq⟩ := MMDReach.inv (mmdMachine_reach k w cs hp)
  refine ⟨rfl, rfl, hw, hc, rfl, ?_, fun h => absurd rfl h⟩
  show p.2.q.clear = CQ.init w
  rw [cq_clear_eq_init, hq]

/-- non-vacuity: a history that fits, fills the window, resets, refits on a different reference and updates -/
example (k : X → X → α) (a b c : X) :
    (Trace.outs (mmdMachine k 1 none) Prod.fst
        ([.update (.fit [a, b]), .update (.update c)] ++ [.reset] ++ [.update (.fit [c]), .update (.update a)])).drop 3
      = Trace.outs (mmdMachine k 1 none) Prod.fst [.update (.fit [c]), .update (.update a)] :=
  mmd_outs_after_reset k 1 none [.update (.fit [a, b]), .update (.update c)] [.update (.fit [c]), .update (.update a)]

/-- the compared output sequences are not trivially empty of results: with window 1 the update after the refit
returns a value (`some _`) and no exception marker, on both sides -/
example (k : X → X → α) (a c : X) :
    ((Trace.outs (mmdMachine k 1 none) Prod.fst [.update (.fit [c]), .update (.update a)])[1]?).map
      (fun o => (o.1, o.2.isSome)) = some (none, true) := rfl
example (a b : α) :
    ((Trace.outs (incksMachine (α := α) 1) Prod.fst [.update (.fit [a]), .update (.update b)])[1]?).map
      (fun o => (o.1, o.2.isSome)) = some (none, true) := rfl
/-- … and `update` before `fit` returns the `MissingFitError` marker and no value -/
example (a : α) :
    Trace.outs (incksMachine (α := α) 1) Prod.fst [.update (.update a)] = [(some .missingFit, none)] := rfl

end Streams

/-! ## 3. Acceptance-level wrappers for RDDM and STEPD

The only two machines whose `reset = init` needs a hypothesis on the configuration (`0 < minConcept`, `0 < minN`).
Here the hypothesis is literally "the configuration is accepted by the validation table of the constructor"
(`Config.rddm … = none`, `Config.stepd … = none`, `FrourosModel/Config.lean`); `C19b.rddm_accepted` /
`C19b.stepd_accepted` give the positivity.  Every carrier (the integer tests do not involve the carrier), every
history before the reset, every suffix.  The configuration is the model's `Cfg` record (natural-number fields,
cast to the `Int`s the table tests), as in `C19b.operable_*_of_accepted`. -/
section Accepted
variable {α : Type} [Num α]

/-- acceptance predicate for an RDDM configuration record -/
abbrev RDDMAccepted (c : RDDM.Cfg α) : Prop :=
  Config.rddm c.warn c.drift (c.minN : Int) (c.maxConcept : Int) (c.minConcept : Int) (c.maxWarn : Int) = none
/-- acceptance predicate for a STEPD configuration record -/
abbrev STEPDAccepted (c : STEPD.Cfg α) : Prop := Config.stepd c.alphaD c.alphaW (c.minN : Int) = none

theorem rddm_minConcept_pos_of_accepted (c : RDDM.Cfg α) (hacc : RDDMAccepted c) : 0 < c.minConcept := by
  have := (C19b.rddm_accepted _ _ _ _ _ _ hacc).2; omega
theorem stepd_minN_pos_of_accepted (c : STEPD.Cfg α) (hacc : STEPDAccepted c) : 0 < c.minN := by
  have := C19b.stepd_accepted _ _ _ hacc; omega

/-- for every accepted RDDM configuration, `reset` of every reachable state is the new state -/
theorem reset_eq_init_rddm_of_accepted (c : RDDM.Cfg α) (hacc : RDDMAccepted c) (s : RDDM.State α)
    (h : (RDDM.machine c).Reachable s) : (RDDM.machine c).reset s = (RDDM.machine c).init :=
  reset_eq_init_rddm c (rddm_minConcept_pos_of_accepted c hacc) s h

/-- for every accepted RDDM configuration: whole state after `pre ++ [reset] ++ post` = state after `post` -/
theorem run_after_reset_rddm_of_accepted (c : RDDM.Cfg α) (hacc : RDDMAccepted c) (pre post : List (Op α)) :
    (RDDM.machine c).run (pre ++ [.reset] ++ post) = (RDDM.machine c).run post :=
  run_after_reset_rddm c (rddm_minConcept_pos_of_accepted c hacc) pre post

/-- for every accepted RDDM configuration: the status sequence after the reset is that of a new detector -/
theorem outs_after_reset_rddm_of_accepted (c : RDDM.Cfg α) (hacc : RDDMAccepted c) (pre post : List (Op α)) :
    (Trace.outs (RDDM.machine c) rddmStatus (pre ++ [.reset] ++ post)).drop (pre.length + 1)
      = Trace.outs (RDDM.machine c) rddmStatus post :=
  outs_after_reset_rddm c (rddm_minConcept_pos_of_accepted c hacc) pre post

theorem reset_eq_init_stepd_of_accepted (sf : α → α) (c : STEPD.Cfg α) (hacc : STEPDAccepted c) (s : STEPD.State)
    (h : (STEPD.machine sf c).Reachable s) : (STEPD.machine sf c).reset s = (STEPD.machine sf c).init :=
  reset_eq_init_stepd sf c (stepd_minN_pos_of_accepted c hacc) s h

theorem run_after_reset_stepd_of_accepted (sf : α → α) (c : STEPD.Cfg α) (hacc : STEPDAccepted c)
    (pre post : List (Op Bool)) :
    (STEPD.machine sf c).run (pre ++ [.reset] ++ post) = (STEPD.machine sf c).run post :=
  run_after_reset_stepd sf c (stepd_minN_pos_of_accepted c hacc) pre post

theorem outs_after_reset_stepd_of_accepted (sf : α → α) (c : STEPD.Cfg α) (hacc : STEPDAccepted c)
    (pre post : List (Op Bool)) :
    (Trace.outs (STEPD.machine sf c) stepdStatus (pre ++ [.reset] ++ post)).drop (pre.length + 1)
      = Trace.outs (STEPD.machine sf c) stepdStatus post :=
  outs_after_reset_stepd sf c (stepd_minN_pos_of_accepted c hacc) pre post

/-- non-vacuity: the library defaults are accepted (ℝ) -/
example : RDDMAccepted (⟨1773 / 1000, 2258 / 1000, 129, 40000, 7000, 1400⟩ : RDDM.Cfg ℝ) := by
  show Config.rddm _ _ _ _ _ _ = none
  rw [C19.rddm_none_iff]; norm_num
example : STEPDAccepted (⟨3 / 1000, 5 / 100, 30⟩ : STEPD.Cfg ℝ) := by
  show Config.stepd _ _ _ = none
  rw [C19.stepd_none_iff]; norm_num
example (pre post : List (Op ℝ)) :=
  outs_after_reset_rddm_of_accepted (⟨1773 / 1000, 2258 / 1000, 129, 40000, 7000, 1400⟩ : RDDM.Cfg ℝ)
    (by show Config.rddm _ _ _ _ _ _ = none; rw [C19.rddm_none_iff]; norm_num) pre post

/-- acceptance cannot be dropped: a configuration with `min_concept_size = 0` is REJECTED by the table (any
carrier), and for it the conclusion fails (`reset_eq_init_rddm_witness`) -/
theorem rddm_rejected_of_minConcept_zero (c : RDDM.Cfg α) (hc : c.minConcept = 0) : ¬ RDDMAccepted c :=
  fun hacc => by have := rddm_minConcept_pos_of_accepted c hacc; omega
theorem stepd_rejected_of_minN_zero (c : STEPD.Cfg α) (hc : c.minN = 0) : ¬ STEPDAccepted c :=
  fun hacc => by have := stepd_minN_pos_of_accepted c hacc; omega

end Accepted

/-! ## 4. KSWIN with the generator made explicit

`KSWIN.machine` takes the indices drawn by `np.random.choice` as part of the INPUT, so `run_after_reset_kswin`
silently assumes that the reset detector and the new one receive the same draws.  In `/repo` the generator is the
process-global NumPy generator: `KSWINConfig.__init__` seeds it, `KSWIN.reset()` does not touch it, and `_update`
draws from it exactly when the window is full (`window_size >= min_num_instances`).  Here the generator is part of
the state: an infinite supply of index tapes and the position of the next one.  The true guarantee is WEAKER than
for the other detectors: after `reset` the detector behaves like a new detector whose generator is at the position
the old one had reached, not like a new detector with the generator at its start (`kswin_gen_witness`). -/
namespace KSWINGen
variable {α : Type} [Num α]

/-- the generator: an infinite supply of index tapes (one per `np.random.choice` call) and the position of the next -/
structure Gen where
  tapes : Nat → List Nat
  pos : Nat

def Gen.cur (g : Gen) : List Nat := g.tapes g.pos
def Gen.advance (g : Gen) : Gen := { g with pos := g.pos + 1 }

structure State (α : Type) where
  det : KSWIN.State α
  gen : Gen

def init (g : Gen) : State α := ⟨KSWIN.init, g⟩

/-- does this update call `np.random.choice`?  (exactly when the window is full after the append) -/
def draws (c : KSWIN.Cfg α) (s : KSWIN.State α) (v : α) : Bool :=
  decide (c.minN ≤ (KSWIN.push c.minN s.window v).length)

/-- one update: the detector step of the model with the generator's current tape; the generator advances iff the
update draws -/
def step (ksP : List α → List α → α) (c : KSWIN.Cfg α) (s : State α) (v : α) : State α :=
  ⟨KSWIN.step ksP c s.det v s.gen.cur, if draws c s.det v then s.gen.advance else s.gen⟩

/-- `reset()` clears the detector and leaves the generator where it is -/
def reset (s : State α) : State α := { s with det := KSWIN.reset s.det }

/-- KSWIN constructed when the generator is at `g` -/
def machine (ksP : List α → List α → α) (c : KSWIN.Cfg α) (g : Gen) : Machine (State α) α :=
  ⟨init g, step ksP c, reset⟩

/-- the histories of the input-tape machine that the wrapper induces: each update is paired with the tape the
generator holds at that moment -/
def annot (ksP : List α → List α → α) (c : KSWIN.Cfg α) (s : State α) : List (Op α) → List (Op (α × List Nat))
  | [] => []
  | .update v :: ops => .update (v, s.gen.cur) :: annot ksP c (step ksP c s v) ops
  | .reset :: ops => .reset :: annot ksP c (reset s) ops

/-- number of draws a history makes from state `s` -/
def drawCount (ksP : List α → List α → α) (c : KSWIN.Cfg α) (s : State α) : List (Op α) → Nat
  | [] => 0
  | .update v :: ops => (if draws c s.det v then 1 else 0) + drawCount ksP c (step ksP c s v) ops
  | .reset :: ops => drawCount ksP c (reset s) ops

/-- `runFrom` does not depend on where the generator was at construction -/
theorem runFrom_indep (ksP : List α → List α → α) (c : KSWIN.Cfg α) (g g' : Gen) (s : State α) (ops : List (Op α)) :
    (machine ksP c g).runFrom s ops = (machine ksP c g').runFrom s ops := rfl

theorem outsFrom_indep {O : Type} (ksP : List α → List α → α) (c : KSWIN.Cfg α) (g g' : Gen) (obs : State α → O)
    (s : State α) (ops : List (Op α)) :
    Trace.outsFrom (machine ksP c g) obs s ops = Trace.outsFrom (machine ksP c g') obs s ops := by
  induction ops generalizing s with
  | nil => rfl
  | cons op ops ih =>
    show obs ((machine ksP c g).apply s op) :: Trace.outsFrom (machine ksP c g) obs ((machine ksP c g).apply s op) ops
      = obs ((machine ksP c g').apply s op) :: Trace.outsFrom (machine ksP c g') obs ((machine ksP c g').apply s op) ops
    rw [ih]; rfl

/-- refinement: the detector component of the wrapper is the input-tape machine of `Machines.lean` run on the
annotated history (so every theorem about `KSWIN.machine` applies to the wrapper) -/
theorem det_runFrom (ksP : List α → List α → α) (c : KSWIN.Cfg α) (g : Gen) (s : State α) (ops : List (Op α)) :
    ((machine ksP c g).runFrom s ops).det = (KSWIN.machine ksP c).runFrom s.det (annot ksP c s ops) := by
  induction ops generalizing s with
  | nil => rfl
  | cons op ops ih =>
    cases op with
    | update v => exact ih (step ksP c s v)
    | reset => exact ih (reset s)

/-- the generator after a history: same supply, position advanced by the number of draws -/
theorem gen_runFrom (ksP : List α → List α → α) (c : KSWIN.Cfg α) (g : Gen) (s : State α) (ops : List (Op α)) :
    ((machine ksP c g).runFrom s ops).gen = ⟨s.gen.tapes, s.gen.pos + drawCount ksP c s ops⟩ := by
  induction ops generalizing s with
  | nil => rfl
  | cons op ops ih =>
    cases op with
    | update v =>
      have := ih (step ksP c s v)
      simp only [Machine.runFrom, List.foldl_cons] at this ⊢
      rw [show (machine ksP c g).apply s (Op.update v) = step ksP c s v from rfl, this]
      simp only [drawCount, step]
      split
      · simp only [Gen.advance, Gen.mk.injEq, true_and]; omega
      · simp
    | reset =>
      have := ih (reset s)
      simp only [Machine.runFrom, List.foldl_cons] at this ⊢
      rw [show (machine ksP c g).apply s Op.reset = reset s from rfl, this]
      rfl

/-- **kswin_gen_reset**: `reset` of ANY state is the state of a new detector constructed at the CURRENT generator
position — i.e. `{ init with gen := s.gen }`, not `init` -/
theorem kswin_gen_reset (ksP : List α → List α → α) (c : KSWIN.Cfg α) (g : Gen) (s : State α) :
    (machine ksP c g).reset s = { (machine ksP c g).init with gen := s.gen } ∧
    (machine ksP c g).reset s = (machine ksP c s.gen).init := ⟨rfl, rfl⟩

/-- **kswin_gen_run_after_reset**: the state after `pre ++ [reset] ++ post` on a detector constructed at generator
position `g` is the state after `post` on a detector constructed at the position `g'` that `pre` has reached. -/
theorem kswin_gen_run_after_reset (ksP : List α → List α → α) (c : KSWIN.Cfg α) (g : Gen) (pre post : List (Op α)) :
    (machine ksP c g).run (pre ++ [.reset] ++ post) = (machine ksP c ((machine ksP c g).run pre).gen).run post := by
  simp only [Machine.run, Machine.runFrom, List.foldl_append, List.foldl_cons, List.foldl_nil]
  rfl

/-- status pair of the wrapped detector -/
def status (s : State α) : Nat × Bool := (s.det.n, s.det.drift)

/-- **kswin_gen_outs_after_reset**: the outputs after the reset are those of a new detector STARTED AT THE SAME
GENERATOR POSITION (`g'`, explicitly: same supply, position `g.pos + ` number of draws made before the reset). -/
theorem kswin_gen_outs_after_reset (ksP : List α → List α → α) (c : KSWIN.Cfg α) (g : Gen) (pre post : List (Op α)) :
    (Trace.outs (machine ksP c g) status (pre ++ [.reset] ++ post)).drop (pre.length + 1)
      = Trace.outs (machine ksP c ⟨g.tapes, g.pos + drawCount ksP c (init g) pre⟩) status post := by
  unfold Trace.outs
  rw [Trace.outsFrom_append]
  have hlen : (Trace.outsFrom (machine ksP c g) status (machine ksP c g).init (pre ++ [Op.reset])).length = pre.length + 1 := by
    rw [Trace.length_outsFrom]; simp
  rw [List.drop_left' hlen]
  have h : (machine ksP c g).runFrom (machine ksP c g).init (pre ++ [Op.reset])
      = (machine ksP c ⟨g.tapes, g.pos + drawCount ksP c (init g) pre⟩).init := by
    have hg := gen_runFrom ksP c g (init g) pre
    simp only [Machine.runFrom, List.foldl_append, List.foldl_cons, List.foldl_nil] at hg ⊢
    show reset _ = init _
    unfold reset init
    rw [show (machine ksP c g).init = init g from rfl, hg]
    rfl
  rw [h]
  exact outsFrom_indep ksP c _ _ status _ post

/-- flags and counter of the wrapped detector read as new right after construction and after `reset` of ANY state -/
theorem kswin_gen_reads_new (ksP : List α → List α → α) (c : KSWIN.Cfg α) (g : Gen) :
    status (machine ksP c g).init = (0, false) ∧ ∀ s, status ((machine ksP c g).reset s) = (0, false) :=
  ⟨rfl, fun _ => rfl⟩

/-- the guarantee of the other detectors is recovered when the generator is where it was at construction:
e.g. the caller restores it, or `pre` made no draw (the window never filled) -/
theorem kswin_gen_run_after_reset_same_pos (ksP : List α → List α → α) (c : KSWIN.Cfg α) (g : Gen)
    (pre post : List (Op α)) (h : drawCount ksP c (init g) pre = 0) :
    (machine ksP c g).run (pre ++ [.reset] ++ post) = (machine ksP c g).run post ∧
    (Trace.outs (machine ksP c g) status (pre ++ [.reset] ++ post)).drop (pre.length + 1)
      = Trace.outs (machine ksP c g) status post := by
  have hg : ((machine ksP c g).run pre).gen = g := by
    have := gen_runFrom ksP c g (init g) pre
    rw [h] at this
    exact this
  refine ⟨?_, ?_⟩
  · rw [kswin_gen_run_after_reset, hg]
  · rw [kswin_gen_outs_after_reset, h]; rfl

omit [Num α] in
theorem push_length_le_succ (cap : Nat) (w : List α) (v : α) : (KSWIN.push cap w v).length ≤ w.length + 1 := by
  unfold KSWIN.push
  simp only []
  split
  · simp only [List.length_drop, List.length_append, List.length_singleton]; omega
  · simp

theorem step_window (ksP : List α → List α → α) (c : KSWIN.Cfg α) (s : KSWIN.State α) (v : α) (t : List Nat) :
    (KSWIN.step ksP c s v t).window = KSWIN.push c.minN s.window v := by
  unfold KSWIN.step
  simp only []
  split <;> rfl

/-- a history too short to fill the window makes no draw -/
theorem drawCount_eq_zero (ksP : List α → List α → α) (c : KSWIN.Cfg α) (s : State α) (ops : List (Op α))
    (h : s.det.window.length + ops.length < c.minN) : drawCount ksP c s ops = 0 := by
  induction ops generalizing s with
  | nil => rfl
  | cons op ops ih =>
    simp only [List.length_cons] at h
    cases op with
    | update v =>
      have hp := push_length_le_succ c.minN s.det.window v
      have hd : draws c s.det v = false := by
        simp only [draws, decide_eq_false_iff_not]; omega
      have := ih (step ksP c s v) (by simp only [step, step_window]; omega)
      simp [drawCount, hd, this]
    | reset =>
      have := ih (reset s) (by simp only [reset, KSWIN.reset, List.length_nil]; omega)
      simpa [drawCount] using this

/-- corollary: if fewer than `min_num_instances` operations precede the reset, the reset detector is
indistinguishable from a new one constructed at the ORIGINAL generator position -/
theorem kswin_gen_outs_after_reset_short (ksP : List α → List α → α) (c : KSWIN.Cfg α) (g : Gen)
    (pre post : List (Op α)) (h : pre.length < c.minN) :
    (Trace.outs (machine ksP c g) status (pre ++ [.reset] ++ post)).drop (pre.length + 1)
      = Trace.outs (machine ksP c g) status post :=
  (kswin_gen_run_after_reset_same_pos ksP c g pre post
    (drawCount_eq_zero ksP c (init g) pre (by simpa [init, KSWIN.init] using h))).2

/-- **kswin_gen_witness** (any carrier with two values on different sides of the threshold `a`): with
`min_num_instances = 3`, `num_test_instances = 1`, a test function that looks at the drawn sample, and a generator
whose first tape is `[0]` and whose later tapes are `[1]` (both valid index samples of the older part of a full
window): the history `x x x reset x y x` ends with `drift = false`, whereas a NEW detector constructed at the
original generator position ends the suffix `x y x` with `drift = true`.  The three pre-reset updates made one draw,
so after the reset the generator is at position 1, not 0.  Hence "reset ≡ new instance with the same configuration"
is false for KSWIN unless the generator position is part of "the same". -/
theorem kswin_gen_witness (a x y : α) (hx : Num.le x a = true) (hy : Num.le y a = false) :
    let c : KSWIN.Cfg α := ⟨a, 3, 1⟩
    let ksP : List α → List α → α := fun sample _ => sample.headD Num.zero
    let g : Gen := ⟨fun i => if i = 0 then [0] else [1], 0⟩
    let pre : List (Op α) := [.update x, .update x, .update x]
    let post : List (Op α) := [.update x, .update y, .update x]
    status ((machine ksP c g).run (pre ++ [.reset] ++ post)) = (3, false) ∧
    status ((machine ksP c g).run post) = (3, true) ∧
    ((machine ksP c g).run pre).gen.pos = 1 ∧
    (Trace.outs (machine ksP c g) status (pre ++ [.reset] ++ post)).drop (pre.length + 1)
      ≠ Trace.outs (machine ksP c g) status post := by
  intro c ksP g pre post
  have h1 : status ((machine ksP c g).run (pre ++ [.reset] ++ post)) = (3, false) := by
    simp [pre, post, c, ksP, g, status, Machine.run, Machine.runFrom, Machine.apply, machine, init, step, reset, draws,
      KSWIN.init, KSWIN.step, KSWIN.reset, KSWIN.push, Gen.cur, Gen.advance, hy]
  have h2 : status ((machine ksP c g).run post) = (3, true) := by
    simp [post, c, ksP, g, status, Machine.run, Machine.runFrom, Machine.apply, machine, init, step, draws,
      KSWIN.init, KSWIN.step, KSWIN.push, Gen.cur, Gen.advance, hx]
  have h3 : ((machine ksP c g).run pre).gen.pos = 1 := by
    simp [pre, c, g, Machine.run, Machine.runFrom, Machine.apply, machine, init, step, draws,
      KSWIN.init, KSWIN.step, KSWIN.push, Gen.advance]
  refine ⟨h1, h2, h3, fun h => ?_⟩
  have e1 := Trace.outs_getElem? (machine ksP c g) status (pre ++ [.reset] ++ post) 6 (by simp [pre, post])
  have e2 := Trace.outs_getElem? (machine ksP c g) status post 2 (by simp [post])
  have e3 : ((Trace.outs (machine ksP c g) status (pre ++ [.reset] ++ post)).drop (pre.length + 1))[2]?
      = (Trace.outs (machine ksP c g) status (pre ++ [.reset] ++ post))[6]? := by
    rw [List.getElem?_drop]; rfl
  rw [h, e2] at e3
  rw [e1] at e3
  have t1 : (pre ++ [Op.reset] ++ post).take (6 + 1) = pre ++ [.reset] ++ post := rfl
  have t2 : post.take (2 + 1) = post := rfl
  rw [t1, t2, h1, h2] at e3
  simp at e3

/-- the witness hypotheses are satisfiable: ℝ with `x = 0 ≤ a = 0 < y = 1` -/
example : Num.le (0 : ℝ) 0 = true ∧ Num.le (1 : ℝ) 0 = false := by
  constructor
  · rw [RealNum.le_iff]
  · rw [RealNum.le_false_iff]; norm_num

end KSWINGen

/-! ## 5. ADWIN: the additional counters `num_buckets`, `num_max_buckets`

`reset` zeroes both.  What relates them to the history (every carrier, every configuration, every reachable state):
the code adds 1 to `num_buckets` per inserted value, adds 1 (sic) per merge although a merge turns two stored
entries into one, and subtracts 1 per deleted entry.  So `num_buckets` is NOT the number of stored entries;
`num_buckets = entries + 2·(merges since the last reset)`, and `inserted values = entries + merges + deletions`.
`num_max_buckets` is taken right after the `+1` of an insertion, before the merges of the same insertion are added, so
`num_max_buckets ≥ num_buckets` is false in general (`adwin_max_lt_buckets_witness`); what is true is
`entries ≤ num_max_buckets ≤ 2·n − 1` (for `n ≥ 1`). -/
namespace ADWINCounters
open ADWIN Frouros.C05
variable {α : Type} [Num α]

/-- **reset_adwin_counters**: for ANY state -/
theorem reset_adwin_counters (s : ADWIN.State α) :
    (ADWIN.reset s).numBuckets = 0 ∧ (ADWIN.reset s).numMaxBuckets = 0 := ⟨rfl, rfl⟩

/-- a new detector has them at 0 as well (so they are part of `reset_eq_init_adwin`, which is `rfl` over the whole
record including these two fields) -/
theorem init_adwin_counters : (ADWIN.init : ADWIN.State α).numBuckets = 0 ∧ (ADWIN.init : ADWIN.State α).numMaxBuckets = 0 :=
  ⟨rfl, rfl⟩

/-- `_compress_buckets` removes exactly one stored entry per merge -/
theorem compress_cnt (m i : Nat) (row : List (α × α)) (rest : List (List (α × α))) :
    cnt (compress m i row rest) + compressMerges m i row rest = row.length + cnt rest := by
  fun_induction compress m i row rest with
  | case1 i e1 e2 tl merged h =>
    unfold compressMerges
    simp only [h, if_true]
    simp
  | case2 i e1 e2 tl merged nxt rest' nxt' hle h =>
    unfold compressMerges
    simp only [h, if_true]
    simp [nxt'] at hle ⊢
    simp [hle]
    omega
  | case3 i e1 e2 tl merged nxt rest' nxt' hle h ih =>
    unfold compressMerges
    simp only [h, if_true]
    simp [nxt'] at hle ih ⊢
    rw [if_neg (by omega)]
    simp only [merged] at ih ⊢
    omega
  | case4 i row rest h hno =>
    unfold compressMerges
    simp only [h, if_true]
    simp
  | case5 i row rest h =>
    unfold compressMerges
    simp [h]

/-- the bookkeeping invariant.  `M` = merges, `D` = deleted entries since the last reset (construction). -/
def CountInv (s : State α) : Prop :=
  ∃ M D : Nat, s.numBuckets = numEntries s + 2 * M ∧ s.n = numEntries s + M + D ∧
    numEntries s ≤ s.numMaxBuckets ∧ s.numMaxBuckets ≤ 2 * s.n ∧
    (0 < s.n → 1 ≤ s.numMaxBuckets ∧ s.numMaxBuckets < 2 * s.n)

theorem CountInv_init : CountInv (ADWIN.init : State α) := ⟨0, 0, rfl, rfl, by simp [numEntries, init], by simp [init], by simp [init]⟩
theorem CountInv_reset (s : State α) : CountInv (ADWIN.reset s) :=
  ⟨0, 0, rfl, rfl, by simp [numEntries, reset], by simp [reset], by simp [reset]⟩

omit [Num α] in
/-- `drift` is irrelevant for the invariant -/
theorem CountInv_drift {s : State α} (b : Bool) (h : CountInv s) : CountInv { s with drift := b } := h

/-- insertion (with the `num_instances += 1` of `_update` that precedes it) -/
theorem CountInv_insert (c : Cfg α) (s : State α) (v : α) (h : CountInv s) :
    CountInv (ADWIN.insert c { s with n := s.n + 1, drift := false } v) := by
  obtain ⟨M, D, h1, h2, h3, h4, _⟩ := h
  obtain ⟨n, drift, rows, total, variance, width, err, nb, mx⟩ := s
  simp only [numEntries_eq] at h1 h2 h3 h4
  cases rows with
  | nil =>
    simp only [cnt_nil] at h1 h2 h3
    refine ⟨M, D, ?_, ?_, ?_, ?_, fun _ => ⟨?_, ?_⟩⟩ <;>
      simp only [ADWIN.insert, numEntries_eq, cnt_cons, cnt_nil, List.length_singleton] <;> omega
  | cons r0 rest =>
    have hc := compress_cnt c.m 0 (r0 ++ [(v, Num.zero)]) rest
    simp only [cnt_cons, List.length_append, List.length_singleton] at hc h1 h2 h3
    refine ⟨M + compressMerges c.m 0 (r0 ++ [(v, Num.zero)]) rest, D, ?_, ?_, ?_, ?_, fun _ => ⟨?_, ?_⟩⟩ <;>
      simp only [ADWIN.insert, numEntries_eq] <;> omega

/-- deletion of the oldest entry -/
theorem CountInv_deleteOldest (s : State α) (h : CountInv s) : CountInv (deleteOldest s) := by
  rcases List.eq_nil_or_concat s.rows with hr | ⟨ys, l, hr⟩
  · rw [deleteOldest_rows_nil s hr]; exact h
  · rw [List.concat_eq_append] at hr
    cases l with
    | nil => rw [deleteOldest_last_nil s ys hr]; exact h
    | cons e tl =>
      obtain ⟨M, D, h1, h2, h3, h4, h5⟩ := h
      rw [deleteOldest_concat s ys e tl hr]
      simp only [numEntries_eq, hr, cnt_append, cnt_cons, cnt_nil, List.length_cons] at h1 h2 h3
      have hE : cnt (if tl.isEmpty then trimRows ys else ys ++ [tl]) = cnt ys + tl.length := by
        cases tl with
        | nil => simp [trimRows_cnt]
        | cons a t => simp
      refine ⟨M, D + 1, ?_, ?_, ?_, h4, h5⟩ <;> simp only [numEntries_eq, hE] <;> omega

theorem CountInv_checkLoop (c : Cfg α) (fuel : Nat) (s : State α) (h : CountInv s) : CountInv (checkLoop c fuel s) := by
  induction fuel generalizing s with
  | zero => exact h
  | succ f ih =>
    rw [checkLoop_succ]
    split
    · split
      · exact ih _ (CountInv_drift true (CountInv_deleteOldest s h))
      · exact CountInv_drift true h
    · exact h

theorem CountInv_step (c : Cfg α) (s : State α) (v : α) (h : CountInv s) : CountInv (ADWIN.step c s v) := by
  unfold ADWIN.step
  simp only []
  split
  · exact CountInv_checkLoop c _ _ (CountInv_insert c s v h)
  · exact CountInv_insert c s v h

/-- **adwin_counters_inv**: the bookkeeping invariant holds in every reachable state (any carrier, ANY configuration,
any history of updates and resets) -/
theorem adwin_counters_inv (c : Cfg α) {s : State α} (h : (ADWIN.machine c).Reachable s) : CountInv s :=
  (ADWIN.machine c).invariant (P := CountInv) CountInv_init (fun s v hs => CountInv_step c s v hs)
    (fun s _ => CountInv_reset s) h

/-- **adwin_counters**: the consequences of the invariant that do not mention the hidden counts, after any history.
* `entries ≤ num_buckets`, and the excess is even (two per merge) — so `num_buckets` equals the number of stored
  entries only as long as no merge has happened since the last reset; the decrement in `_delete_bucket` never
  truncates (`entries ≥ 1` there);
* `num_buckets + entries ≤ 2·num_instances`;
* `entries ≤ num_max_buckets ≤ 2·num_instances`, and `1 ≤ num_max_buckets < 2·num_instances` once a value has been
  seen; `num_instances = 0` (new, or just reset) forces both counters to 0. -/
theorem adwin_counters (c : Cfg α) (ops : List (Op α)) :
    let s := (ADWIN.machine c).run ops
    numEntries s ≤ s.numBuckets ∧ Even (s.numBuckets - numEntries s) ∧ s.numBuckets + numEntries s ≤ 2 * s.n ∧
    numEntries s ≤ s.numMaxBuckets ∧ s.numMaxBuckets ≤ 2 * s.n ∧
    (0 < s.n → 1 ≤ s.numMaxBuckets ∧ s.numMaxBuckets < 2 * s.n) ∧
    (s.n = 0 → s.numBuckets = 0 ∧ s.numMaxBuckets = 0) := by
  intro s
  have hinv : CountInv s := adwin_counters_inv c ((ADWIN.machine c).reachable_run ops)
  clear_value s
  obtain ⟨M, D, h1, h2, h3, h4, h5⟩ := hinv
  refine ⟨by omega, ⟨M, by omega⟩, by omega, h3, h4, h5, fun h0 => by omega⟩

/-- **adwin_max_lt_buckets_witness** (any carrier, the library's default integer parameters `clock = 32`, `m = 5`,
`min_window_size = 5`, `min_num_instances = 10`, any `delta`, any six values): after six updates the first merge has
happened; `num_buckets = 7` although 5 entries are stored, and `num_max_buckets = 6 < num_buckets`.  So
`num_max_buckets` is not the maximum of `num_buckets`, and `num_buckets` is not the number of buckets. -/
theorem adwin_max_lt_buckets_witness (d x1 x2 x3 x4 x5 x6 : α) :
    let s := (ADWIN.machine (⟨32, d, 5, 5, 10⟩ : Cfg α)).run
      [.update x1, .update x2, .update x3, .update x4, .update x5, .update x6]
    s.numBuckets = 7 ∧ s.numMaxBuckets = 6 ∧ numEntries s = 5 ∧ s.numMaxBuckets < s.numBuckets := by
  intro s
  simp [s, Machine.run, Machine.runFrom, Machine.apply, ADWIN.machine, ADWIN.step, ADWIN.insert, ADWIN.init,
    compress, compressMerges, numEntries]

/- NOT FORMALISED (not requested, stated for completeness): the converse inequality `num_max_buckets ≤ num_buckets`
   is also false in general — every deleted entry lowers `num_buckets` and leaves `num_max_buckets` — but a witness
   needs a history on which ADWIN actually cuts, i.e. an evaluation of the threshold arithmetic (`log`, `sqrt`) at a
   concrete carrier; no carrier-generic witness exists.  The invariant above only gives `entries ≤ both counters`. -/

end ADWINCounters

end Frouros.C02

#print axioms Frouros.C02.Trace.outs_after_reset
#print axioms Frouros.C02.Trace.outs_from_reset
#print axioms Frouros.C02.Trace.outs_after_reset_sim
#print axioms Frouros.C02.Trace.outs_getElem?
#print axioms Frouros.C02.outs_after_reset_ddm
#print axioms Frouros.C02.outs_after_reset_eddm
#print axioms Frouros.C02.outs_after_reset_ecdd
#print axioms Frouros.C02.outs_after_reset_hddma
#print axioms Frouros.C02.outs_after_reset_hddmw
#print axioms Frouros.C02.outs_after_reset_rddm
#print axioms Frouros.C02.outs_after_reset_stepd
#print axioms Frouros.C02.outs_after_reset_adwin
#print axioms Frouros.C02.outs_after_reset_cusum
#print axioms Frouros.C02.outs_after_reset_bocd
#print axioms Frouros.C02.outs_after_reset_kswin
#print axioms Frouros.C02.reads_new_ddm
#print axioms Frouros.C02.reads_new_eddm
#print axioms Frouros.C02.reads_new_ecdd
#print axioms Frouros.C02.reads_new_hddma
#print axioms Frouros.C02.reads_new_hddmw
#print axioms Frouros.C02.reads_new_rddm
#print axioms Frouros.C02.reads_new_stepd
#print axioms Frouros.C02.reads_new_adwin
#print axioms Frouros.C02.reads_new_cusum
#print axioms Frouros.C02.reads_new_bocd
#print axioms Frouros.C02.reads_new_kswin
#print axioms Frouros.C02.incks_outputs_after_reset_fit
#print axioms Frouros.C02.mmd_outputs_after_reset_fit
#print axioms Frouros.C02.mmd_reset_reads_new
#print axioms Frouros.C02.mmd_reset_keeps_pre_witness
#print axioms Frouros.C02.incks_reset_eq_init
#print axioms Frouros.C02.incks_outs_after_reset
#print axioms Frouros.C02.mmd_outs_after_reset
#print axioms Frouros.C02.reset_eq_init_rddm_of_accepted
#print axioms Frouros.C02.run_after_reset_rddm_of_accepted
#print axioms Frouros.C02.outs_after_reset_rddm_of_accepted
#print axioms Frouros.C02.reset_eq_init_stepd_of_accepted
#print axioms Frouros.C02.run_after_reset_stepd_of_accepted
#print axioms Frouros.C02.outs_after_reset_stepd_of_accepted
#print axioms Frouros.C02.rddm_rejected_of_minConcept_zero
#print axioms Frouros.C02.stepd_rejected_of_minN_zero
#print axioms Frouros.C02.KSWINGen.det_runFrom
#print axioms Frouros.C02.KSWINGen.gen_runFrom
#print axioms Frouros.C02.KSWINGen.kswin_gen_reset
#print axioms Frouros.C02.KSWINGen.kswin_gen_run_after_reset
#print axioms Frouros.C02.KSWINGen.kswin_gen_outs_after_reset
#print axioms Frouros.C02.KSWINGen.kswin_gen_reads_new
#print axioms Frouros.C02.KSWINGen.kswin_gen_run_after_reset_same_pos
#print axioms Frouros.C02.KSWINGen.kswin_gen_outs_after_reset_short
#print axioms Frouros.C02.KSWINGen.kswin_gen_witness
#print axioms Frouros.C02.ADWINCounters.reset_adwin_counters
#print axioms Frouros.C02.ADWINCounters.init_adwin_counters
#print axioms Frouros.C02.ADWINCounters.compress_cnt
#print axioms Frouros.C02.ADWINCounters.adwin_counters_inv
#print axioms Frouros.C02.ADWINCounters.adwin_counters
#print axioms Frouros.C02.ADWINCounters.adwin_max_lt_buckets_witness
