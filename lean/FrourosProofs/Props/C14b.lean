/-
  C14 — streaming data-drift detectors: update before fit is rejected with MissingFitError and leaves the counter alone;
  reset returns to the unfitted state; after fit, t updates leave the counter at t.
-/
import FrourosModel.Batch
namespace Frouros.C14
open Frouros Batch

theorem stream_update_unfitted {D : Type} (s : StreamState D) (h : s.xref = none) : s.update = .error .missingFit := by
  unfold StreamState.update; rw [h]

/-- a rejected update changes nothing (there is no new state); in particular the instance counter is not advanced -/
theorem stream_update_missingFit_iff {D : Type} (s : StreamState D) : s.update = .error .missingFit ↔ s.xref = none := by
  unfold StreamState.update
  cases h : s.xref <;> simp

theorem stream_update_fitted {D : Type} (s : StreamState D) (r : List Nat × D) (h : s.xref = some r) :
    s.update = .ok { s with n := s.n + 1 } := by
  unfold StreamState.update; rw [h]

theorem stream_reset_unfits {D : Type} (s : StreamState D) : (StreamState.reset s).update = .error .missingFit := rfl
theorem stream_reset_eq_init {D : Type} (s : StreamState D) : StreamState.reset s = StreamState.init := rfl

/-- rejected updates before the fit do not influence what happens after it: fit after any number of rejected updates = fit on a new detector -/
theorem stream_fit_after_rejected {D : Type} (c : Cfg) (x : Input D) :
    StreamState.fit c (StreamState.init : StreamState D) x = StreamState.fit c (StreamState.reset (StreamState.init : StreamState D)) x := rfl

/-- after a successful fit, `t` updates succeed and leave the counter at `n + t` -/
theorem stream_updates_count {D : Type} (s : StreamState D) (r : List Nat × D) (h : s.xref = some r) (t : Nat) :
    ∃ s', (List.range t).foldlM (fun st _ => StreamState.update st) s = .ok s' ∧ s'.n = s.n + t ∧ s'.xref = some r := by
  induction t generalizing s with
  | zero => exact ⟨s, by simp [pure, Except.pure], by simp, h⟩
  | succ t ih =>
    obtain ⟨s', h1, h2, h3⟩ := ih s h
    refine ⟨{ s' with n := s'.n + 1 }, ?_, ?_, h3⟩
    · rw [List.range_succ, List.foldlM_append, h1]
      simp [bind, Except.bind, stream_update_fitted s' r h3, pure, Except.pure]
    · simp [h2]; omega

end Frouros.C14

#print axioms Frouros.C14.stream_update_unfitted
#print axioms Frouros.C14.stream_update_missingFit_iff
#print axioms Frouros.C14.stream_update_fitted
#print axioms Frouros.C14.stream_reset_unfits
#print axioms Frouros.C14.stream_reset_eq_init
#print axioms Frouros.C14.stream_updates_count
