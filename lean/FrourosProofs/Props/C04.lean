/-
  C04 — HDDM-A / HDDM-W decide by Hoeffding / McDiarmid bounds; the two-sided mode is symmetric.

  Models: `HDDMA`, `HDDMW` in `FrourosModel/SPC.lean` (unchanged).  Sections:
    1. `hoeffding_equiv`            (ℝ)  model test ⇔ textbook two-sample Hoeffding test
    3. `*_two_sided_extends`        (every carrier)  two-sided mode extends one-sided mode, HDDM-A and HDDM-W
    2. `hddma_spec` …               (every carrier + ℝ)  what `x`, `y`, `z` are; drift ⇔ textbook test on the segment
    4. `hddma_flip`                 (ℝ)  two-sided HDDM-A is invariant under `v ↦ 1 - v` (any `v ↦ a - v`)
    5. `hddmw_sample_spec`, `hddmw_spec`  (ℝ / every carrier)  closed forms and structure of the HDDM-W statistics
    witnesses: a decrease-only drift (two-sided ≠ one-sided), one-sided mode is not flip-symmetric
  Control-flow statements are for an arbitrary `[Num α]`; arithmetic ones for `α = ℝ`.
  `aRun c s xs` / `wRun c s xs` = state after feeding the values `xs` from state `s`.
-/
import Mathlib.Tactic
import FrourosProofs.RealNum
import FrourosProofs.Machines
namespace Frouros.C04
open Frouros

/-! ## 1. `hoeffding_equiv` (ℝ) -/

/-- Core algebra.  `nc` values with mean `xm` followed by `m` values with mean `rm`; the mean of all
`nc + m` values is `zm`.  The model's statistic (`zm - xm` against `√(m/(2 nc nz)·L)`) is the textbook
two-sample Hoeffding statistic (`rm - xm` against `√((1/nc + 1/m)/2·L)`).  Pure algebra: the two radicands
differ by the square factor `(m/nz)²`, which can be pulled out of `Real.sqrt` whatever the sign of `L`; the
statement is only *meaningful* for `0 ≤ L` (for `L < 0` both thresholds are `Real.sqrt (negative) = 0`), which
is why `hoeffding_equiv` below carries `0 < alpha ≤ 1` and records that both radicands are non-negative. -/
theorem hoeffding_core (nc m nz xm rm zm L : ℝ) (hnc : 0 < nc) (hm : 0 < m) (hnz : nz = nc + m)
    (hz : zm = (nc * xm + m * rm) / nz) :
    (Real.sqrt (m / (2 * nc * nz) * L) ≤ zm - xm ↔ Real.sqrt ((1 / nc + 1 / m) / 2 * L) ≤ rm - xm) ∧
    (Real.sqrt (m / (2 * nc * nz) * L) ≤ xm - zm ↔ Real.sqrt ((1 / nc + 1 / m) / 2 * L) ≤ xm - rm) := by
  have hnzpos : 0 < nz := by rw [hnz]; positivity
  have hr : 0 < m / nz := by positivity
  have e1 : zm - xm = m / nz * (rm - xm) := by
    rw [hz, hnz]; field_simp; ring
  have e2 : xm - zm = m / nz * (xm - rm) := by
    rw [hz, hnz]; field_simp; ring
  have e3 : Real.sqrt (m / (2 * nc * nz) * L) = m / nz * Real.sqrt ((1 / nc + 1 / m) / 2 * L) := by
    have : m / (2 * nc * nz) * L = (m / nz) ^ 2 * ((1 / nc + 1 / m) / 2 * L) := by
      rw [hnz]; field_simp; ring
    rw [this, Real.sqrt_mul (sq_nonneg _), Real.sqrt_sq hr.le]
  rw [e1, e2, e3]
  exact ⟨mul_le_mul_iff_of_pos_left hr, mul_le_mul_iff_of_pos_left hr⟩


/-- **C04.1**  The model's `hoeffTest` (increase form: `hi = z.mean`, `lo = cut.mean`) is the textbook
two-sample Hoeffding test between the mean `rm` of the LAST `m` values and the mean `xm` of the FIRST `nc`
values of the segment.  Hypotheses: both sub-samples non-empty (`0 < nc`, `0 < m`; otherwise a mean is
undefined / `1/0`), `zm` is the pooled mean, `0 < alpha ≤ 1` (so that `log (1/alpha) ≥ 0` and no square root
of a negative number is taken: this is the first conjunct; the equivalences themselves are algebraically
valid without it, but then only through `Real.sqrt (negative) = 0`). -/
theorem hoeffding_equiv (nc m : Nat) (xm rm zm alpha : ℝ) (hnc : 0 < nc) (hm : 0 < m)
    (hz : zm = ((nc : ℝ) * xm + (m : ℝ) * rm) / ((nc + m : Nat) : ℝ)) (ha0 : 0 < alpha) (ha1 : alpha ≤ 1) :
    (0 ≤ (m : ℝ) / ((2 * nc * (nc + m) : Nat) : ℝ) * Real.log (1 / alpha) ∧
     0 ≤ (1 / (nc : ℝ) + 1 / (m : ℝ)) / 2 * Real.log (1 / alpha)) ∧
    (HDDMA.hoeffTest m nc (nc + m) zm xm alpha = true ↔
        Real.sqrt ((1 / (nc : ℝ) + 1 / (m : ℝ)) / 2 * Real.log (1 / alpha)) ≤ rm - xm) ∧
    (HDDMA.hoeffTest m nc (nc + m) xm zm alpha = true ↔
        Real.sqrt ((1 / (nc : ℝ) + 1 / (m : ℝ)) / 2 * Real.log (1 / alpha)) ≤ xm - rm) := by
  have hL : 0 ≤ Real.log (1 / alpha) := Real.log_nonneg (by rw [le_div_iff₀ ha0]; linarith)
  have hnc' : (0 : ℝ) < nc := by exact_mod_cast hnc
  have hm' : (0 : ℝ) < m := by exact_mod_cast hm
  have h := hoeffding_core nc m ((nc + m : Nat) : ℝ) xm rm zm (Real.log (1 / alpha)) hnc' hm'
    (by push_cast; ring) hz
  refine ⟨⟨by positivity, by positivity⟩, ?_⟩
  simp only [HDDMA.hoeffTest, RealNum.ge_iff, RealNum.sqrt_eq, RealNum.log_eq, RealNum.ofNat_eq,
    RealNum.one_eq]
  have e : ((2 * nc * (nc + m) : Nat) : ℝ) = 2 * (nc : ℝ) * ((nc + m : Nat) : ℝ) := by push_cast; ring
  rw [e]
  exact h

/-- non-vacuity of `hoeffding_equiv`: 2 values of mean 1/4 followed by 3 values of mean 3/4, `alpha = 1/20` -/
example : ∃ (nc m : Nat) (xm rm zm alpha : ℝ), 0 < nc ∧ 0 < m ∧
    zm = ((nc : ℝ) * xm + (m : ℝ) * rm) / ((nc + m : Nat) : ℝ) ∧ 0 < alpha ∧ alpha ≤ 1 :=
  ⟨2, 3, 1/4, 3/4, 11/20, 1/20, by norm_num, by norm_num, by norm_num, by norm_num, by norm_num⟩

/-! ## 3. `two_sided_extends` (every carrier) -/
section TwoSided
variable {α : Type} [Num α]

/-- Generic lock-step argument: two machines started in `R`-related states and fed the same stream stay
`R`-related as long as every drift reported by the second one was also reported by the first one. -/
theorem lockstep {S V : Type} (f1 f2 : S → V → S) (R : S → S → Prop) (d1 d2 : S → Bool)
    (hstep : ∀ s1 s2 v, R s1 s2 → d2 (f2 s2 v) = d1 (f1 s1 v) → R (f1 s1 v) (f2 s2 v))
    (hdrift : ∀ s1 s2 v, R s1 s2 → d1 (f1 s1 v) = true → d2 (f2 s2 v) = true)
    (i1 i2 : S) (h0 : R i1 i2) (xs : List V)
    (h : ∀ p, p <+: xs → p ≠ [] → d2 (p.foldl f2 i2) = true → d1 (p.foldl f1 i1) = true) :
    R (xs.foldl f1 i1) (xs.foldl f2 i2) := by
  induction xs using List.reverseRecOn with
  | nil => exact h0
  | append_singleton xs v ih =>
    have ih' := ih (fun p hp => h p (hp.trans (List.prefix_append xs [v])))
    have hv := h (xs ++ [v]) (List.prefix_refl _) (by simp)
    simp only [List.foldl_append, List.foldl_cons, List.foldl_nil] at hv ⊢
    apply hstep _ _ _ ih'
    have := hdrift _ _ v ih'
    rw [Bool.eq_iff_iff]
    exact ⟨hv, this⟩

/-! ### HDDM-A -/

/-- the state after feeding the values `xs` to an HDDM-A that is in state `s` (`s = HDDMA.init`: a fresh detector) -/
def aRun (c : HDDMA.Cfg α) (s : HDDMA.State α) (xs : List α) : HDDMA.State α := xs.foldl (HDDMA.step c) s
/-- same configuration, one-sided -/
def aOne (c : HDDMA.Cfg α) : HDDMA.Cfg α := { c with twoSided := false }
/-- same configuration, two-sided -/
def aTwo (c : HDDMA.Cfg α) : HDDMA.Cfg α := { c with twoSided := true }

/-- the running mean of the segment after consuming `v` -/
def newZ (z : Mean α) (v : α) : Mean α := z.update v
/-- `set_initial_cut_mean` + `update_cut_point` for the increase cut `x` (`aD` = `alpha_d`) -/
def newX (aD : α) (x z : Mean α) (v : α) : Mean α :=
  let c : HDDMA.Cfg α := ⟨aD, aD, false, 0⟩
  let z := newZ z v
  let x := if x.n == 0 then z else x
  if Num.le (z.mean + HDDMA.bound c z.n) (x.mean + HDDMA.bound c x.n) then z else x
/-- `set_initial_cut_mean` + `update_cut_point` for the decrease cut `y` (two-sided mode) -/
def newY (aD : α) (y z : Mean α) (v : α) : Mean α :=
  let c : HDDMA.Cfg α := ⟨aD, aD, false, 0⟩
  let z := newZ z v
  let y := if y.n == 0 then z else y
  if Num.le (y.mean - HDDMA.bound c y.n) (z.mean - HDDMA.bound c z.n) then z else y

/-- the test statistics after consuming `v`, before the drift decision -/
def newT (c : HDDMA.Cfg α) (t : HDDMA.Test α) (v : α) : HDDMA.Test α :=
  ⟨newX c.alphaD t.x t.z v, newZ t.z v, if c.twoSided then newY c.alphaD t.y t.z v else t.y⟩

/-- `HDDMA.step` for any configuration, in terms of `newT` and `checkCases` -/
theorem step_gen (c : HDDMA.Cfg α) (s : HDDMA.State α) (v : α) :
    HDDMA.step c s v =
      if c.minN ≤ s.n + 1 then
        if (HDDMA.checkCases c (newT c s.t v)).1 then ⟨s.n + 1, true, false, HDDMA.Test.init⟩
        else ⟨s.n + 1, false, (HDDMA.checkCases c (newT c s.t v)).2, newT c s.t v⟩
      else ⟨s.n + 1, false, false, newT c s.t v⟩ := by
  rcases c with ⟨aD, aW, ts, mn⟩
  cases ts <;> rfl

/-- the step counter counts every update (it is NOT restarted by a drift) -/
theorem step_n (c : HDDMA.Cfg α) (s : HDDMA.State α) (v : α) : (HDDMA.step c s v).n = s.n + 1 := by
  rw [step_gen]; split <;> (try split) <;> rfl

/-- warm-up: no flag before `minN` updates -/
theorem step_warmup (c : HDDMA.Cfg α) (s : HDDMA.State α) (v : α) (h : s.n + 1 < c.minN) :
    (HDDMA.step c s v).drift = false ∧ (HDDMA.step c s v).warning = false := by
  rw [step_gen, if_neg (by omega)]; exact ⟨rfl, rfl⟩

/-- one-sided `HDDMA.step` (definitional unfolding): `y` is never touched -/
theorem step_one (c : HDDMA.Cfg α) (s : HDDMA.State α) (v : α) :
    HDDMA.step (aOne c) s v =
      if c.minN ≤ s.n + 1 then
        if (HDDMA.side c (newX c.alphaD s.t.x s.t.z v) (newZ s.t.z v) true).1 then
          ⟨s.n + 1, true, false, HDDMA.Test.init⟩
        else ⟨s.n + 1, false, (HDDMA.side c (newX c.alphaD s.t.x s.t.z v) (newZ s.t.z v) true).2,
              ⟨newX c.alphaD s.t.x s.t.z v, newZ s.t.z v, s.t.y⟩⟩
      else ⟨s.n + 1, false, false, ⟨newX c.alphaD s.t.x s.t.z v, newZ s.t.z v, s.t.y⟩⟩ := rfl

/-- two-sided `HDDMA.step` (definitional unfolding) -/
theorem step_two (c : HDDMA.Cfg α) (s : HDDMA.State α) (v : α) :
    HDDMA.step (aTwo c) s v =
      if c.minN ≤ s.n + 1 then
        if ((HDDMA.side c (newX c.alphaD s.t.x s.t.z v) (newZ s.t.z v) true).1 ||
            (HDDMA.side c (newY c.alphaD s.t.y s.t.z v) (newZ s.t.z v) false).1) then
          ⟨s.n + 1, true, false, HDDMA.Test.init⟩
        else ⟨s.n + 1, false,
              ((HDDMA.side c (newX c.alphaD s.t.x s.t.z v) (newZ s.t.z v) true).2 ||
               (HDDMA.side c (newY c.alphaD s.t.y s.t.z v) (newZ s.t.z v) false).2),
              ⟨newX c.alphaD s.t.x s.t.z v, newZ s.t.z v, newY c.alphaD s.t.y s.t.z v⟩⟩
      else ⟨s.n + 1, false, false, ⟨newX c.alphaD s.t.x s.t.z v, newZ s.t.z v, newY c.alphaD s.t.y s.t.z v⟩⟩ := rfl

/-- the statistics shared by the one- and the two-sided test: the step counter, the running mean `z` of the
segment and the increase cut `x` -/
def aShared (s1 s2 : HDDMA.State α) : Prop := s1.n = s2.n ∧ s1.t.x = s2.t.x ∧ s1.t.z = s2.t.z

theorem aShared_init : aShared (HDDMA.init : HDDMA.State α) HDDMA.init := ⟨rfl, rfl, rfl⟩
/-- `reset` re-establishes the relation from any pair of states -/
theorem aShared_reset (s1 s2 : HDDMA.State α) : aShared (HDDMA.reset s1) (HDDMA.reset s2) := ⟨rfl, rfl, rfl⟩

/-- One step of the one-sided and of the two-sided HDDM-A from states with the same shared statistics. -/
theorem hddma_two_sided_step (c : HDDMA.Cfg α) (s1 s2 : HDDMA.State α) (v : α) (h : aShared s1 s2) :
    (HDDMA.step (aOne c) s1 v).n = (HDDMA.step (aTwo c) s2 v).n ∧
    ((HDDMA.step (aOne c) s1 v).drift = true → (HDDMA.step (aTwo c) s2 v).drift = true) ∧
    ((HDDMA.step (aOne c) s1 v).warning = true →
        (HDDMA.step (aTwo c) s2 v).drift = true ∨ (HDDMA.step (aTwo c) s2 v).warning = true) ∧
    ((HDDMA.step (aTwo c) s2 v).drift = (HDDMA.step (aOne c) s1 v).drift →
        aShared (HDDMA.step (aOne c) s1 v) (HDDMA.step (aTwo c) s2 v)) := by
  obtain ⟨hn, hx, hz⟩ := h
  rw [step_one, step_two, hn, hx, hz]
  generalize HDDMA.side c _ _ true = p
  generalize HDDMA.side c _ _ false = q
  rcases p with ⟨di, wi⟩
  rcases q with ⟨dd, wd⟩
  by_cases hm : c.minN ≤ s2.n + 1 <;> cases di <;> cases dd <;> cases wi <;> cases wd <;>
    simp [hm, HDDMA.Test.init, aShared]

/-- The statistics ON WHICH THE DECISION of the step is taken (`x`, `z` after the cut-point update, before the
possible restart on drift) coincide in the two modes — also at the step where the two-sided detector reports
its first drift.  (The statistics stored AFTER that step differ if the drift came from the decrease side only:
the two-sided detector restarts with `Test.init`, the one-sided one keeps going; see the last conjunct of
`hddma_two_sided_step`.) -/
theorem hddma_two_sided_decision_stats (c : HDDMA.Cfg α) (s1 s2 : HDDMA.State α) (v : α) (h : aShared s1 s2) :
    (newT (aOne c) s1.t v).x = (newT (aTwo c) s2.t v).x ∧ (newT (aOne c) s1.t v).z = (newT (aTwo c) s2.t v).z := by
  obtain ⟨_, hx, hz⟩ := h
  simp only [newT, hx, hz, aOne, aTwo, and_self]

/-- **C04.3 (HDDM-A), strong form.**  Feed the same stream to the one-sided and to the two-sided HDDM-A, from any
two states with the same shared statistics (`init`/`init`, or any two states just after `reset`).  Let `xs` be
a stretch of the stream on which every drift reported by the two-sided detector was also reported by the
one-sided one (in particular: any stretch on which the two-sided detector reported no drift at all — corollary
below).  Then after `xs` the shared statistics `n`, `x`, `z` still coincide, and at the NEXT step `v`, whatever
happens there: the counters agree, one-sided drift ⇒ two-sided drift, one-sided warning ⇒ two-sided drift or
warning; and the shared statistics coincide after that step too unless it is a drift reported by the two-sided
detector only (then the two-sided detector has restarted its segment and the one-sided one has not, so the
statistics legitimately differ from there on). -/
theorem hddma_two_sided_extends (c : HDDMA.Cfg α) (i1 i2 : HDDMA.State α) (h0 : aShared i1 i2)
    (xs : List α) (v : α)
    (h : ∀ p, p <+: xs → p ≠ [] → (aRun (aTwo c) i2 p).drift = true → (aRun (aOne c) i1 p).drift = true) :
    aShared (aRun (aOne c) i1 xs) (aRun (aTwo c) i2 xs) ∧
    (aRun (aOne c) i1 (xs ++ [v])).n = (aRun (aTwo c) i2 (xs ++ [v])).n ∧
    ((aRun (aOne c) i1 (xs ++ [v])).drift = true → (aRun (aTwo c) i2 (xs ++ [v])).drift = true) ∧
    ((aRun (aOne c) i1 (xs ++ [v])).warning = true →
        (aRun (aTwo c) i2 (xs ++ [v])).drift = true ∨ (aRun (aTwo c) i2 (xs ++ [v])).warning = true) ∧
    ((aRun (aTwo c) i2 (xs ++ [v])).drift = (aRun (aOne c) i1 (xs ++ [v])).drift →
        aShared (aRun (aOne c) i1 (xs ++ [v])) (aRun (aTwo c) i2 (xs ++ [v]))) := by
  have hR : aShared (aRun (aOne c) i1 xs) (aRun (aTwo c) i2 xs) :=
    lockstep (HDDMA.step (aOne c)) (HDDMA.step (aTwo c)) aShared (·.drift) (·.drift)
      (fun s1 s2 v hs => (hddma_two_sided_step c s1 s2 v hs).2.2.2)
      (fun s1 s2 v hs => (hddma_two_sided_step c s1 s2 v hs).2.1) i1 i2 h0 xs h
  refine ⟨hR, ?_⟩
  simp only [aRun, List.foldl_append, List.foldl_cons, List.foldl_nil]
  exact hddma_two_sided_step c _ _ v hR

/-- **C04.3 (HDDM-A), as stated in the property:** from `init`, if the two-sided detector has reported no drift
during `xs`, the statistics `n`, `x`, `z` coincide after `xs`, and at the next step (which may be the first
two-sided drift) every one-sided flag is matched. -/
theorem hddma_two_sided_extends_init (c : HDDMA.Cfg α) (xs : List α) (v : α)
    (h : ∀ p, p <+: xs → (aRun (aTwo c) HDDMA.init p).drift = false) :
    aShared (aRun (aOne c) HDDMA.init xs) (aRun (aTwo c) HDDMA.init xs) ∧
    (aRun (aOne c) HDDMA.init (xs ++ [v])).n = (aRun (aTwo c) HDDMA.init (xs ++ [v])).n ∧
    ((aRun (aOne c) HDDMA.init (xs ++ [v])).drift = true → (aRun (aTwo c) HDDMA.init (xs ++ [v])).drift = true) ∧
    ((aRun (aOne c) HDDMA.init (xs ++ [v])).warning = true →
        (aRun (aTwo c) HDDMA.init (xs ++ [v])).drift = true ∨
        (aRun (aTwo c) HDDMA.init (xs ++ [v])).warning = true) := by
  have := hddma_two_sided_extends c HDDMA.init HDDMA.init aShared_init xs v
    (fun p hp _ hd => by rw [h p hp] at hd; cases hd)
  exact ⟨this.1, this.2.1, this.2.2.1, this.2.2.2.1⟩

theorem aRun_n (c : HDDMA.Cfg α) (s : HDDMA.State α) (xs : List α) : (aRun c s xs).n = s.n + xs.length := by
  induction xs using List.reverseRecOn with
  | nil => rfl
  | append_singleton xs v ih =>
    simp only [aRun, List.foldl_append, List.foldl_cons, List.foldl_nil, List.length_append, List.length_singleton] at ih ⊢
    rw [step_n, ih]; omega

/-- warm-up for runs from `init`: no drift while fewer than `minN` values have been seen -/
theorem aRun_warmup (c : HDDMA.Cfg α) (xs : List α) (h : xs.length < c.minN) :
    (aRun c HDDMA.init xs).drift = false := by
  induction xs using List.reverseRecOn with
  | nil => rfl
  | append_singleton xs v _ =>
    simp only [aRun, List.foldl_append, List.foldl_cons, List.foldl_nil]
    refine (step_warmup c _ v ?_).1
    have := aRun_n c HDDMA.init xs
    simp only [aRun] at this
    rw [this]; simp only [List.length_append, List.length_singleton] at h
    show 0 + xs.length + 1 < c.minN
    omega

/-- non-vacuity of `hddma_two_sided_extends_init`: with `min_num_instances = 30`, every stream of fewer than 30
values satisfies the hypothesis (there are of course many more; this one needs no arithmetic) -/
example (c : HDDMA.Cfg α) (hc : c.minN = 30) (xs : List α) (hx : xs.length = 29) :
    ∀ p, p <+: xs → (aRun (aTwo c) HDDMA.init p).drift = false := by
  intro p hp
  apply aRun_warmup
  have := hp.length_le
  show p.length < c.minN
  omega

/-! ### HDDM-W -/

def wRun (c : HDDMW.Cfg α) (s : HDDMW.State α) (xs : List α) : HDDMW.State α := xs.foldl (HDDMW.step c) s
def wOne (c : HDDMW.Cfg α) : HDDMW.Cfg α := { c with twoSided := false }
def wTwo (c : HDDMW.Cfg α) : HDDMW.Cfg α := { c with twoSided := true }

/-- the statistics of the increase test (shared by both modes) -/
def wSharedT (t1 t2 : HDDMW.Test α) : Prop :=
  t1.total = t2.total ∧ t1.inc1 = t2.inc1 ∧ t1.inc2 = t2.inc2 ∧ t1.incCut = t2.incCut
def wShared (s1 s2 : HDDMW.State α) : Prop := s1.n = s2.n ∧ wSharedT s1.t s2.t

theorem wShared_init (c : HDDMW.Cfg α) : wShared (HDDMW.init (wOne c)) (HDDMW.init (wTwo c)) :=
  ⟨rfl, rfl, rfl, rfl, rfl⟩
theorem wShared_reset (c : HDDMW.Cfg α) (s1 s2 : HDDMW.State α) :
    wShared (HDDMW.reset (wOne c) s1) (HDDMW.reset (wTwo c) s2) := ⟨rfl, rfl, rfl, rfl, rfl⟩

/-- first half of `update_stats`: the total and the increase statistics -/
def incPart (lam : α) (t : HDDMW.Test α) (v : α) : HDDMW.Test α :=
  let total := HDDMW.Sample.update lam t.total v
  let up := total.ewma.mean + HDDMW.mcBound total.ibc lam
  let newInc := match t.incCut with | none => true | some cp => Num.lt up cp
  if newInc then { t with total := total, incCut := some up, inc1 := total, inc2 := HDDMW.Sample.init lam }
  else { t with total := total, inc2 := HDDMW.Sample.update lam t.inc2 v }
/-- second half of `update_stats` (two-sided mode only): the decrease statistics -/
def decPart (lam : α) (total : HDDMW.Sample α) (t : HDDMW.Test α) (v : α) : HDDMW.Test α :=
  let dn := total.ewma.mean - HDDMW.mcBound total.ibc lam
  let newDec := match t.decCut with | none => true | some cp => Num.gt dn cp
  if newDec then { t with decCut := some dn, dec1 := total, dec2 := HDDMW.Sample.init lam }
  else { t with dec2 := HDDMW.Sample.update lam t.dec2 v }

theorem updateStats_one (c : HDDMW.Cfg α) (t : HDDMW.Test α) (v : α) :
    HDDMW.updateStats (wOne c) t v = incPart c.lam t v := rfl
theorem updateStats_two (c : HDDMW.Cfg α) (t : HDDMW.Test α) (v : α) :
    HDDMW.updateStats (wTwo c) t v =
      decPart c.lam (HDDMW.Sample.update c.lam t.total v) (incPart c.lam t v) v := rfl

theorem decPart_shared (lam : α) (tot : HDDMW.Sample α) (t : HDDMW.Test α) (v : α) :
    wSharedT t (decPart lam tot t v) := by
  unfold decPart; dsimp only; split_ifs <;> exact ⟨rfl, rfl, rfl, rfl⟩

theorem incPart_shared (lam : α) (t1 t2 : HDDMW.Test α) (v : α) (h : wSharedT t1 t2) :
    wSharedT (incPart lam t1 v) (incPart lam t2 v) := by
  rcases t1 with ⟨tot1, a1, b1, ic1, e1, f1, dc1⟩
  rcases t2 with ⟨tot2, a2, b2, ic2, e2, f2, dc2⟩
  obtain ⟨h1, h2, h3, h4⟩ := h
  simp only at h1 h2 h3 h4
  subst h1 h2 h3 h4
  unfold incPart; dsimp only; split_ifs <;> exact ⟨rfl, rfl, rfl, rfl⟩

omit [Num α] in
theorem wSharedT_trans {t1 t2 t3 : HDDMW.Test α} (h : wSharedT t1 t2) (h' : wSharedT t2 t3) : wSharedT t1 t3 :=
  ⟨h.1.trans h'.1, h.2.1.trans h'.2.1, h.2.2.1.trans h'.2.2.1, h.2.2.2.trans h'.2.2.2⟩

theorem updateStats_shared (c : HDDMW.Cfg α) (t1 t2 : HDDMW.Test α) (v : α) (h : wSharedT t1 t2) :
    wSharedT (HDDMW.updateStats (wOne c) t1 v) (HDDMW.updateStats (wTwo c) t2 v) := by
  rw [updateStats_one, updateStats_two]
  exact wSharedT_trans (incPart_shared c.lam t1 t2 v h) (decPart_shared _ _ _ _)

theorem checkChanges_one (c : HDDMW.Cfg α) (t : HDDMW.Test α) :
    HDDMW.checkChanges (wOne c) t =
      (HDDMW.thr t.inc1 t.inc2 c.alphaD,
       if HDDMW.thr t.inc1 t.inc2 c.alphaD then false else HDDMW.thr t.inc1 t.inc2 c.alphaW) := rfl
theorem checkChanges_two (c : HDDMW.Cfg α) (t : HDDMW.Test α) :
    HDDMW.checkChanges (wTwo c) t =
      let di := HDDMW.thr t.inc1 t.inc2 c.alphaD
      let wi := if di then false else HDDMW.thr t.inc1 t.inc2 c.alphaW
      let dd := if di then false else HDDMW.thr t.dec2 t.dec1 c.alphaD
      let wd := if wi || dd then false else HDDMW.thr t.dec2 t.dec1 c.alphaW
      (di || dd, wi || wd) := rfl

/-- decision tables of the two modes on tests with the same increase statistics -/
theorem checkChanges_shared (c : HDDMW.Cfg α) (t1 t2 : HDDMW.Test α) (h : wSharedT t1 t2) :
    ((HDDMW.checkChanges (wOne c) t1).1 = true → (HDDMW.checkChanges (wTwo c) t2).1 = true) ∧
    ((HDDMW.checkChanges (wOne c) t1).2 = true →
        (HDDMW.checkChanges (wTwo c) t2).1 = true ∨ (HDDMW.checkChanges (wTwo c) t2).2 = true) := by
  obtain ⟨_, h2, h3, _⟩ := h
  simp only [checkChanges_one, checkChanges_two, h2, h3]
  generalize HDDMW.thr t2.inc1 t2.inc2 c.alphaD = di
  generalize HDDMW.thr t2.inc1 t2.inc2 c.alphaW = wi
  generalize HDDMW.thr t2.dec2 t2.dec1 c.alphaD = dd
  generalize HDDMW.thr t2.dec2 t2.dec1 c.alphaW = wd
  cases di <;> cases wi <;> cases dd <;> cases wd <;> simp

theorem wstep_eq (c : HDDMW.Cfg α) (s : HDDMW.State α) (v : α) :
    HDDMW.step c s v =
      if c.minN ≤ s.n + 1 then
        if (HDDMW.checkChanges c (HDDMW.updateStats c s.t v)).1 then ⟨s.n + 1, true, false, HDDMW.Test.init c.lam⟩
        else ⟨s.n + 1, false, (HDDMW.checkChanges c (HDDMW.updateStats c s.t v)).2, HDDMW.updateStats c s.t v⟩
      else ⟨s.n + 1, false, false, HDDMW.updateStats c s.t v⟩ := rfl

/-- One step of the one-sided and of the two-sided HDDM-W from states with the same increase statistics. -/
theorem hddmw_two_sided_step (c : HDDMW.Cfg α) (s1 s2 : HDDMW.State α) (v : α) (h : wShared s1 s2) :
    (HDDMW.step (wOne c) s1 v).n = (HDDMW.step (wTwo c) s2 v).n ∧
    ((HDDMW.step (wOne c) s1 v).drift = true → (HDDMW.step (wTwo c) s2 v).drift = true) ∧
    ((HDDMW.step (wOne c) s1 v).warning = true →
        (HDDMW.step (wTwo c) s2 v).drift = true ∨ (HDDMW.step (wTwo c) s2 v).warning = true) ∧
    ((HDDMW.step (wTwo c) s2 v).drift = (HDDMW.step (wOne c) s1 v).drift →
        wShared (HDDMW.step (wOne c) s1 v) (HDDMW.step (wTwo c) s2 v)) := by
  obtain ⟨hn, ht⟩ := h
  have hu := updateStats_shared c s1.t s2.t v ht
  have hc := checkChanges_shared c _ _ hu
  rw [wstep_eq, wstep_eq, hn]
  have m1 : (wOne c).minN = c.minN := rfl
  have m2 : (wTwo c).minN = c.minN := rfl
  have l1 : (wOne c).lam = c.lam := rfl
  have l2 : (wTwo c).lam = c.lam := rfl
  rw [m1, m2, l1, l2]
  revert hc
  generalize HDDMW.checkChanges (wOne c) _ = p
  generalize HDDMW.checkChanges (wTwo c) _ = q
  rcases p with ⟨d1, w1⟩
  rcases q with ⟨d2, w2⟩
  by_cases hm : c.minN ≤ s2.n + 1 <;> cases d1 <;> cases d2 <;> cases w1 <;> cases w2 <;>
    simp [hm, wShared] <;> first | exact hu | exact ⟨rfl, rfl, rfl, rfl⟩

/-- **C04.3 (HDDM-W), strong form** — same reading as `hddma_two_sided_extends`; the shared statistics are
`n`, `total`, `inc1`, `inc2`, `incCut`. -/
theorem hddmw_two_sided_extends (c : HDDMW.Cfg α) (i1 i2 : HDDMW.State α) (h0 : wShared i1 i2)
    (xs : List α) (v : α)
    (h : ∀ p, p <+: xs → p ≠ [] → (wRun (wTwo c) i2 p).drift = true → (wRun (wOne c) i1 p).drift = true) :
    wShared (wRun (wOne c) i1 xs) (wRun (wTwo c) i2 xs) ∧
    (wRun (wOne c) i1 (xs ++ [v])).n = (wRun (wTwo c) i2 (xs ++ [v])).n ∧
    ((wRun (wOne c) i1 (xs ++ [v])).drift = true → (wRun (wTwo c) i2 (xs ++ [v])).drift = true) ∧
    ((wRun (wOne c) i1 (xs ++ [v])).warning = true →
        (wRun (wTwo c) i2 (xs ++ [v])).drift = true ∨ (wRun (wTwo c) i2 (xs ++ [v])).warning = true) ∧
    ((wRun (wTwo c) i2 (xs ++ [v])).drift = (wRun (wOne c) i1 (xs ++ [v])).drift →
        wShared (wRun (wOne c) i1 (xs ++ [v])) (wRun (wTwo c) i2 (xs ++ [v]))) := by
  have hR : wShared (wRun (wOne c) i1 xs) (wRun (wTwo c) i2 xs) :=
    lockstep (HDDMW.step (wOne c)) (HDDMW.step (wTwo c)) wShared (·.drift) (·.drift)
      (fun s1 s2 v hs => (hddmw_two_sided_step c s1 s2 v hs).2.2.2)
      (fun s1 s2 v hs => (hddmw_two_sided_step c s1 s2 v hs).2.1) i1 i2 h0 xs h
  refine ⟨hR, ?_⟩
  simp only [wRun, List.foldl_append, List.foldl_cons, List.foldl_nil]
  exact hddmw_two_sided_step c _ _ v hR

/-- **C04.3 (HDDM-W), as stated in the property** (from `init`, no two-sided drift during `xs`). -/
theorem hddmw_two_sided_extends_init (c : HDDMW.Cfg α) (xs : List α) (v : α)
    (h : ∀ p, p <+: xs → (wRun (wTwo c) (HDDMW.init (wTwo c)) p).drift = false) :
    wShared (wRun (wOne c) (HDDMW.init (wOne c)) xs) (wRun (wTwo c) (HDDMW.init (wTwo c)) xs) ∧
    (wRun (wOne c) (HDDMW.init (wOne c)) (xs ++ [v])).n = (wRun (wTwo c) (HDDMW.init (wTwo c)) (xs ++ [v])).n ∧
    ((wRun (wOne c) (HDDMW.init (wOne c)) (xs ++ [v])).drift = true →
        (wRun (wTwo c) (HDDMW.init (wTwo c)) (xs ++ [v])).drift = true) ∧
    ((wRun (wOne c) (HDDMW.init (wOne c)) (xs ++ [v])).warning = true →
        (wRun (wTwo c) (HDDMW.init (wTwo c)) (xs ++ [v])).drift = true ∨
        (wRun (wTwo c) (HDDMW.init (wTwo c)) (xs ++ [v])).warning = true) := by
  have := hddmw_two_sided_extends c _ _ (wShared_init c) xs v
    (fun p hp _ hd => by rw [h p hp] at hd; cases hd)
  exact ⟨this.1, this.2.1, this.2.2.1, this.2.2.2.1⟩

theorem wstep_n (c : HDDMW.Cfg α) (s : HDDMW.State α) (v : α) : (HDDMW.step c s v).n = s.n + 1 := by
  rw [wstep_eq]; split <;> (try split) <;> rfl

theorem wstep_warmup (c : HDDMW.Cfg α) (s : HDDMW.State α) (v : α) (h : s.n + 1 < c.minN) :
    (HDDMW.step c s v).drift = false ∧ (HDDMW.step c s v).warning = false := by
  rw [wstep_eq, if_neg (by omega)]; exact ⟨rfl, rfl⟩

theorem wRun_n (c : HDDMW.Cfg α) (s : HDDMW.State α) (xs : List α) : (wRun c s xs).n = s.n + xs.length := by
  induction xs using List.reverseRecOn with
  | nil => rfl
  | append_singleton xs v ih =>
    simp only [wRun, List.foldl_append, List.foldl_cons, List.foldl_nil, List.length_append, List.length_singleton] at ih ⊢
    rw [wstep_n, ih]; omega

theorem wRun_warmup (c : HDDMW.Cfg α) (xs : List α) (h : xs.length < c.minN) :
    (wRun c (HDDMW.init c) xs).drift = false := by
  induction xs using List.reverseRecOn with
  | nil => rfl
  | append_singleton xs v _ =>
    simp only [wRun, List.foldl_append, List.foldl_cons, List.foldl_nil]
    refine (wstep_warmup c _ v ?_).1
    have := wRun_n c (HDDMW.init c) xs
    simp only [wRun] at this
    rw [this]; simp only [List.length_append, List.length_singleton] at h
    show 0 + xs.length + 1 < c.minN
    omega

/-- non-vacuity of `hddmw_two_sided_extends_init` -/
example (c : HDDMW.Cfg α) (hc : c.minN = 30) (xs : List α) (hx : xs.length = 29) :
    ∀ p, p <+: xs → (wRun (wTwo c) (HDDMW.init (wTwo c)) p).drift = false := by
  intro p hp
  apply wRun_warmup
  have := hp.length_le
  show p.length < c.minN
  omega

end TwoSided

/-! ## 2. `hddma_spec`: what the HDDM-A state is, after any stream

Structural part for every carrier, closed forms for the means at `ℝ`. -/
section Spec
variable {α : Type} [Num α]

/-- the incremental mean of a list of values (`Mean()` then `update` for each value) -/
def meanFold (l : List α) : Mean α := l.foldl Mean.update Mean.init

theorem meanFold_append (l : List α) (v : α) : meanFold (l ++ [v]) = (meanFold l).update v := by
  simp [meanFold, List.foldl_append]

theorem meanFold_n (l : List α) : (meanFold l).n = l.length := by
  induction l using List.reverseRecOn with
  | nil => rfl
  | append_singleton l v ih => rw [meanFold_append]; simp [Mean.update, ih]

/-- The cut rule of `newX`, as a single decision: the cut moves to the current point iff it was not yet
initialised or `z.mean + ε(z.n) ≤ x.mean + ε(x.n)`. -/
theorem newX_eq (aD : α) (x z : Mean α) (v : α) :
    newX aD x z v =
      if x.n = 0 ∨ Num.le ((z.update v).mean + HDDMA.bound ⟨aD, aD, false, 0⟩ (z.update v).n)
                          (x.mean + HDDMA.bound ⟨aD, aD, false, 0⟩ x.n) = true
      then z.update v else x := by
  unfold newX newZ
  by_cases h : x.n = 0
  · simp [h]
  · have : (x.n == 0) = false := by simpa using h
    simp [h, this]

theorem newY_eq (aD : α) (y z : Mean α) (v : α) :
    newY aD y z v =
      if y.n = 0 ∨ Num.le (y.mean - HDDMA.bound ⟨aD, aD, false, 0⟩ y.n)
                          ((z.update v).mean - HDDMA.bound ⟨aD, aD, false, 0⟩ (z.update v).n) = true
      then z.update v else y := by
  unfold newY newZ
  by_cases h : y.n = 0
  · simp [h]
  · have : (y.n == 0) = false := by simpa using h
    simp [h, this]

/-- what a cut statistic (`x` or `y`) is: the running mean the segment had after its first `cut.n` values -/
def CutInv (cut : Mean α) (seg : List α) : Prop :=
  cut = meanFold (seg.take cut.n) ∧ cut.n ≤ seg.length ∧ (seg ≠ [] → 0 < cut.n)

theorem cutInv_nil : CutInv (Mean.init : Mean α) [] := ⟨rfl, Nat.le_refl _, fun h => absurd rfl h⟩

theorem cutInv_step (cut cut' : Mean α) (seg : List α) (v : α) (h : CutInv cut seg)
    (hc : cut' = (meanFold seg).update v ∨ (cut' = cut ∧ cut.n ≠ 0)) : CutInv cut' (seg ++ [v]) := by
  rcases hc with hc | ⟨hc, hn⟩
  · have hn : cut'.n = (seg ++ [v]).length := by rw [hc, ← meanFold_append, meanFold_n]
    refine ⟨?_, hn.le, fun _ => by rw [hn]; simp⟩
    rw [hn, List.take_length, meanFold_append]; exact hc
  · subst hc
    obtain ⟨h1, h2, _⟩ := h
    refine ⟨?_, by simp; omega, fun _ => Nat.pos_of_ne_zero hn⟩
    rw [List.take_append_of_le_length h2]; exact h1

/-- the invariant of the HDDM-A test statistics w.r.t. the current segment `seg` -/
def Inv (c : HDDMA.Cfg α) (t : HDDMA.Test α) (seg : List α) : Prop :=
  t.z = meanFold seg ∧ CutInv t.x seg ∧ (if c.twoSided then CutInv t.y seg else t.y = Mean.init)

theorem inv_init (c : HDDMA.Cfg α) : Inv c HDDMA.Test.init [] := by
  refine ⟨rfl, cutInv_nil, ?_⟩
  split
  · exact cutInv_nil
  · rfl

theorem inv_newT (c : HDDMA.Cfg α) (t : HDDMA.Test α) (seg : List α) (v : α) (h : Inv c t seg) :
    Inv c (newT c t v) (seg ++ [v]) := by
  obtain ⟨hz, hx, hy⟩ := h
  refine ⟨by simp [newT, newZ, hz, meanFold_append], ?_, ?_⟩
  · apply cutInv_step _ _ _ _ hx
    simp only [newT, newX_eq, ← hz]
    split
    · exact Or.inl rfl
    · rename_i hh; exact Or.inr ⟨rfl, fun h0 => hh (Or.inl h0)⟩
  · by_cases hts : c.twoSided = true
    · simp only [hts, if_true] at hy ⊢
      apply cutInv_step _ _ _ _ hy
      simp only [newT, hts, if_true, newY_eq, ← hz]
      split
      · exact Or.inl rfl
      · rename_i hh; exact Or.inr ⟨rfl, fun h0 => hh (Or.inl h0)⟩
    · simp only [hts] at hy ⊢
      simpa [newT, hts] using hy

/-- the run, together with the current segment: the values consumed since the last reported drift -/
def segStep (c : HDDMA.Cfg α) (p : HDDMA.State α × List α) (v : α) : HDDMA.State α × List α :=
  (HDDMA.step c p.1 v, if (HDDMA.step c p.1 v).drift then [] else p.2 ++ [v])
def segRun (c : HDDMA.Cfg α) (xs : List α) : HDDMA.State α × List α := xs.foldl (segStep c) (HDDMA.init, [])
/-- the current segment after `xs` -/
def segment (c : HDDMA.Cfg α) (xs : List α) : List α := (segRun c xs).2

theorem segRun_fst (c : HDDMA.Cfg α) (xs : List α) : (segRun c xs).1 = aRun c HDDMA.init xs := by
  induction xs using List.reverseRecOn with
  | nil => rfl
  | append_singleton xs v ih =>
    simp only [segRun, aRun, List.foldl_append, List.foldl_cons, List.foldl_nil] at ih ⊢
    simp only [segStep, ih]

theorem segRun_append (c : HDDMA.Cfg α) (xs : List α) (v : α) :
    segRun c (xs ++ [v]) = segStep c (segRun c xs) v := by
  simp [segRun, List.foldl_append]

theorem aRun_append (c : HDDMA.Cfg α) (s : HDDMA.State α) (xs : List α) (v : α) :
    aRun c s (xs ++ [v]) = HDDMA.step c (aRun c s xs) v := by
  simp [aRun, List.foldl_append]

theorem segment_append (c : HDDMA.Cfg α) (xs : List α) (v : α) :
    segment c (xs ++ [v]) =
      if (aRun c HDDMA.init (xs ++ [v])).drift then [] else segment c xs ++ [v] := by
  simp only [segment, segRun_append, segStep, segRun_fst, aRun_append]

/-- **C04.2a (every carrier): what `segment` is.**  It is the suffix of the stream that follows the last
reported drift: `xs = pre ++ segment`, a drift was reported exactly at the end of `pre` (or `pre` is empty), and
no drift was reported at any later point. -/
theorem hddma_segment_spec (c : HDDMA.Cfg α) (xs : List α) :
    ∃ pre, xs = pre ++ segment c xs ∧
      (pre = [] ∨ (aRun c HDDMA.init pre).drift = true) ∧
      ∀ k, 0 < k → k ≤ (segment c xs).length →
        (aRun c HDDMA.init (pre ++ (segment c xs).take k)).drift = false := by
  induction xs using List.reverseRecOn with
  | nil => exact ⟨[], rfl, Or.inl rfl, fun k hk hk' => by simp [segment, segRun] at hk'; omega⟩
  | append_singleton xs v ih =>
    obtain ⟨pre, h1, h2, h3⟩ := ih
    rw [segment_append]
    by_cases hd : (aRun c HDDMA.init (xs ++ [v])).drift = true
    · refine ⟨xs ++ [v], by simp [hd], Or.inr hd, fun k hk hk' => ?_⟩
      simp [hd] at hk'; omega
    · have hd' : (aRun c HDDMA.init (xs ++ [v])).drift = false := by simpa using hd
      simp only [hd', Bool.false_eq_true, if_false]
      refine ⟨pre, by rw [← List.append_assoc, ← h1], h2, fun k hk hk' => ?_⟩
      simp only [List.length_append, List.length_singleton] at hk'
      by_cases hk2 : k ≤ (segment c xs).length
      · rw [List.take_append_of_le_length hk2]; exact h3 k hk hk2
      · have : k = (segment c xs ++ [v]).length := by simp; omega
        rw [this, List.take_length, ← List.append_assoc, ← h1]; exact hd'

/-- **C04.2b (every carrier): the test statistics in terms of the segment.**  After any stream, `z` is the
incremental mean of the whole current segment, `x` is the incremental mean of its first `x.n` values with
`x.n ≤ z.n = |segment|` (so the `z.n - x.n` of `check_cases` is a true subtraction) and `x.n > 0` as soon as the
segment is non-empty; in two-sided mode the same holds for `y`, in one-sided mode `y` is never touched. -/
theorem hddma_spec (c : HDDMA.Cfg α) (xs : List α) :
    Inv c (aRun c HDDMA.init xs).t (segment c xs) := by
  induction xs using List.reverseRecOn with
  | nil => exact inv_init c
  | append_singleton xs v ih =>
    rw [segment_append, aRun_append, step_gen]
    by_cases hm : c.minN ≤ (aRun c HDDMA.init xs).n + 1
    · simp only [hm, if_true]
      split
      · exact inv_init c
      · exact inv_newT c _ _ v ih
    · simp only [hm, if_false]
      exact inv_newT c _ _ v ih

/-- decision table of one side of `check_cases` (every carrier): nothing when the cut is the current point;
otherwise drift iff the test fires at `alpha_d`, warning iff it fires at `alpha_w` but not at `alpha_d` -/
theorem side_table (c : HDDMA.Cfg α) (cut z : Mean α) (inc : Bool) :
    HDDMA.side c cut z inc =
      if z.n - cut.n = 0 then (false, false)
      else
        let hi := if inc then z.mean else cut.mean
        let lo := if inc then cut.mean else z.mean
        (HDDMA.hoeffTest (z.n - cut.n) cut.n z.n hi lo c.alphaD,
         !HDDMA.hoeffTest (z.n - cut.n) cut.n z.n hi lo c.alphaD &&
           HDDMA.hoeffTest (z.n - cut.n) cut.n z.n hi lo c.alphaW) := by
  unfold HDDMA.side
  by_cases h : z.n - cut.n = 0
  · simp [h]
  · have : (z.n - cut.n == 0) = false := by simpa using h
    cases inc <;> simp only [this, h, Bool.false_eq_true, if_false, if_true] <;>
      (cases HDDMA.hoeffTest _ _ _ _ _ c.alphaD <;> cases HDDMA.hoeffTest _ _ _ _ _ c.alphaW <;> rfl)

/-- **flags (every carrier):** after the warm-up the flags are those of `check_cases` on the updated statistics;
`drift` and `warning` are never both set; before `min_num_instances` updates none is set. -/
theorem hddma_flags (c : HDDMA.Cfg α) (s : HDDMA.State α) (v : α) :
    (HDDMA.step c s v).drift = (decide (c.minN ≤ s.n + 1) && (HDDMA.checkCases c (newT c s.t v)).1) ∧
    (HDDMA.step c s v).warning = (decide (c.minN ≤ s.n + 1) && !(HDDMA.checkCases c (newT c s.t v)).1 &&
                                    (HDDMA.checkCases c (newT c s.t v)).2) ∧
    ¬ ((HDDMA.step c s v).drift = true ∧ (HDDMA.step c s v).warning = true) := by
  rw [step_gen]
  by_cases hm : c.minN ≤ s.n + 1 <;> rcases HDDMA.checkCases c (newT c s.t v) with ⟨d, w⟩ <;>
    cases d <;> cases w <;> simp [hm]

end Spec

/-! ### closed forms at `ℝ` -/
section SpecReal

/-- the incremental mean is the arithmetic mean (non-empty list: no `0/0`) -/
theorem meanFold_mean (l : List ℝ) (hl : l ≠ []) : (meanFold l).mean = l.sum / l.length := by
  induction l using List.reverseRecOn with
  | nil => exact absurd rfl hl
  | append_singleton l v ih =>
    rw [meanFold_append]
    simp only [Mean.update, meanFold_n, RealNum.ofNat_eq, List.sum_append, List.sum_singleton,
      List.length_append, List.length_singleton]
    by_cases h : l = []
    · subst h; simp [meanFold, Mean.init]
    · rw [ih h]
      have h1 : (l.length : ℝ) ≠ 0 := by
        have := List.length_pos_iff.mpr h
        positivity
      have h2 : ((l.length + 1 : ℕ) : ℝ) ≠ 0 := by positivity
      push_cast at h2 ⊢
      field_simp
      ring

/-- `hoeffding_error_bound` at `ℝ` is `ε(k) = √(ln(1/α_d) / (2k))` -/
theorem bound_real (c : HDDMA.Cfg ℝ) (k : ℕ) :
    HDDMA.bound c k = Real.sqrt (Real.log (1 / c.alphaD) / (2 * (k : ℝ))) := by
  simp [HDDMA.bound]

/-- **C04.2c (ℝ): the statistics are arithmetic means of the segment and of its prefix up to the cut.**
With `seg` the current segment (characterised by `hddma_segment_spec`): `z.n = |seg|`, `x.n ≤ |seg|`, and when the
segment is non-empty `z.mean = Σ seg / |seg|`, `0 < x.n`, `x.mean = Σ (first x.n values of seg) / x.n`; in
two-sided mode likewise for `y`. -/
theorem hddma_spec_real (c : HDDMA.Cfg ℝ) (xs : List ℝ) :
    let s := aRun c HDDMA.init xs
    let seg := segment c xs
    s.t.z.n = seg.length ∧ s.t.x.n ≤ seg.length ∧
    (seg ≠ [] → s.t.z.mean = seg.sum / seg.length ∧ 0 < s.t.x.n ∧
                s.t.x.mean = (seg.take s.t.x.n).sum / s.t.x.n) ∧
    (c.twoSided = true → s.t.y.n ≤ seg.length ∧
      (seg ≠ [] → 0 < s.t.y.n ∧ s.t.y.mean = (seg.take s.t.y.n).sum / s.t.y.n)) := by
  intro s seg
  obtain ⟨hz, hx, hy⟩ := hddma_spec c xs
  have cut : ∀ cut : Mean ℝ, CutInv cut seg → seg ≠ [] →
      0 < cut.n ∧ cut.mean = (seg.take cut.n).sum / cut.n := by
    intro cut ⟨h1, h2, h3⟩ hne
    have hp := h3 hne
    refine ⟨hp, ?_⟩
    have hne' : seg.take cut.n ≠ [] := by
      intro h; have := congrArg List.length h
      rw [List.length_take, Nat.min_eq_left h2, List.length_nil] at this; omega
    have hm : cut.mean = (meanFold (seg.take cut.n)).mean := congrArg Mean.mean h1
    rw [hm, meanFold_mean _ hne', List.length_take, Nat.min_eq_left h2]
  refine ⟨by rw [hz, meanFold_n], hx.2.1, fun hne => ⟨by rw [hz, meanFold_mean _ hne], cut _ hx hne⟩, fun hts => ?_⟩
  rw [if_pos hts] at hy
  exact ⟨hy.2.1, cut _ hy⟩

/-- **C04.1 + C04.2 combined (ℝ).**  In a state described by `CutInv` (which `hddma_spec` shows is every state
reached from `init`), when the cut lies strictly inside the segment, the model's Hoeffding test between `z` and
the cut is the textbook two-sample Hoeffding test between the arithmetic mean of the values AFTER the cut
(`seg.drop cut.n`) and the arithmetic mean of the values up to the cut (`seg.take cut.n`).  First equivalence:
increase test (`hi = z`, `lo = cut`, used with `cut = x`); second: decrease test (used with `cut = y`). -/
theorem cut_test_textbook (seg : List ℝ) (cut z : Mean ℝ) (hz : z = meanFold seg) (hc : CutInv cut seg)
    (hlt : cut.n < seg.length) (al : ℝ) (ha0 : 0 < al) (ha1 : al ≤ 1) :
    (HDDMA.hoeffTest (z.n - cut.n) cut.n z.n z.mean cut.mean al = true ↔
      Real.sqrt ((1 / (cut.n : ℝ) + 1 / ((seg.length - cut.n : ℕ) : ℝ)) / 2 * Real.log (1 / al)) ≤
        (seg.drop cut.n).sum / ((seg.length - cut.n : ℕ) : ℝ) - (seg.take cut.n).sum / (cut.n : ℝ)) ∧
    (HDDMA.hoeffTest (z.n - cut.n) cut.n z.n cut.mean z.mean al = true ↔
      Real.sqrt ((1 / (cut.n : ℝ) + 1 / ((seg.length - cut.n : ℕ) : ℝ)) / 2 * Real.log (1 / al)) ≤
        (seg.take cut.n).sum / (cut.n : ℝ) - (seg.drop cut.n).sum / ((seg.length - cut.n : ℕ) : ℝ)) := by
  have hne : seg ≠ [] := by intro h; rw [h] at hlt; simp at hlt
  obtain ⟨h1, h2, h3⟩ := hc
  have hp := h3 hne
  have hm : 0 < seg.length - cut.n := by omega
  have hzn : z.n = cut.n + (seg.length - cut.n) := by rw [hz, meanFold_n]; omega
  have hne' : seg.take cut.n ≠ [] := by
    intro h; have := congrArg List.length h
    rw [List.length_take, Nat.min_eq_left h2, List.length_nil] at this; omega
  have hcm : cut.mean = (seg.take cut.n).sum / (cut.n : ℝ) := by
    have hm' : cut.mean = (meanFold (seg.take cut.n)).mean := congrArg Mean.mean h1
    rw [hm', meanFold_mean _ hne', List.length_take, Nat.min_eq_left h2]
  have hzm : z.mean = ((cut.n : ℝ) * ((seg.take cut.n).sum / (cut.n : ℝ)) +
      ((seg.length - cut.n : ℕ) : ℝ) * ((seg.drop cut.n).sum / ((seg.length - cut.n : ℕ) : ℝ))) /
      ((cut.n + (seg.length - cut.n) : ℕ) : ℝ) := by
    have e1 : (cut.n : ℝ) ≠ 0 := by positivity
    have e2 : ((seg.length - cut.n : ℕ) : ℝ) ≠ 0 := by positivity
    rw [mul_div_cancel₀ _ e1, mul_div_cancel₀ _ e2, List.sum_take_add_sum_drop, hz, meanFold_mean _ hne]
    congr 2; omega
  have key := hoeffding_equiv cut.n (seg.length - cut.n) _ _ z.mean al hp hm hzm ha0 ha1
  have e : z.n - cut.n = seg.length - cut.n := by omega
  rw [e, hzn, hcm]
  exact key.2

/-- non-vacuity of `cut_test_textbook`: segment `[0, 1]`, cut after the first value, `al = 1/20` -/
example : ∃ (seg : List ℝ) (cut z : Mean ℝ) (al : ℝ),
    z = meanFold seg ∧ CutInv cut seg ∧ cut.n < seg.length ∧ 0 < al ∧ al ≤ 1 := by
  refine ⟨[0, 1], meanFold [0], meanFold [0, 1], 1 / 20, rfl, ⟨?_, ?_, ?_⟩, ?_, by norm_num, by norm_num⟩
  · rw [meanFold_n]; rfl
  · rw [meanFold_n]; simp
  · intro _; rw [meanFold_n]; simp
  · rw [meanFold_n]; simp

/-- the textbook two-sample Hoeffding statistic of `seg` split after its first `k` values:
`mean(seg[k:]) - mean(seg[:k])` and the threshold `√((1/k + 1/(|seg|-k))/2 · ln(1/al))` -/
noncomputable def splitDiff (seg : List ℝ) (k : ℕ) : ℝ :=
  (seg.drop k).sum / ((seg.length - k : ℕ) : ℝ) - (seg.take k).sum / (k : ℝ)
noncomputable def splitThr (seg : List ℝ) (k : ℕ) (al : ℝ) : ℝ :=
  Real.sqrt ((1 / (k : ℝ) + 1 / ((seg.length - k : ℕ) : ℝ)) / 2 * Real.log (1 / al))

theorem side_drift_real (c : HDDMA.Cfg ℝ) (seg : List ℝ) (cut z : Mean ℝ) (hz : z = meanFold seg)
    (hc : CutInv cut seg) (ha0 : 0 < c.alphaD) (ha1 : c.alphaD ≤ 1) :
    ((HDDMA.side c cut z true).1 = true ↔
        cut.n < seg.length ∧ splitThr seg cut.n c.alphaD ≤ splitDiff seg cut.n) ∧
    ((HDDMA.side c cut z false).1 = true ↔
        cut.n < seg.length ∧ splitThr seg cut.n c.alphaD ≤ - splitDiff seg cut.n) := by
  have hzn : z.n = seg.length := by rw [hz, meanFold_n]
  by_cases hlt : cut.n < seg.length
  · have h := cut_test_textbook seg cut z hz hc hlt c.alphaD ha0 ha1
    have hm : ¬ (z.n - cut.n = 0) := by omega
    simp only [side_table, hm, if_false, if_true, Bool.false_eq_true, hlt, true_and, splitThr, splitDiff,
      neg_sub]
    exact h
  · have hm : z.n - cut.n = 0 := by omega
    simp [side_table, hm, hlt]

/-- **C04.2d (ℝ), end to end: when does HDDM-A report drift?**  After `xs` then `v` (from `init`), with `seg` the
segment including `v` and `x`, `y` the cuts after the cut-point update: drift is reported iff at least
`min_num_instances` values have been seen and the textbook Hoeffding test at level `alpha_d` detects an increase
across the cut `x` — or, in two-sided mode, a decrease across the cut `y`.  `0 < alpha_d ≤ 1` keeps
`ln(1/alpha_d) ≥ 0`. -/
theorem hddma_drift_iff_textbook (c : HDDMA.Cfg ℝ) (ha0 : 0 < c.alphaD) (ha1 : c.alphaD ≤ 1)
    (xs : List ℝ) (v : ℝ) :
    let t := newT c (aRun c HDDMA.init xs).t v
    let seg := segment c xs ++ [v]
    (aRun c HDDMA.init (xs ++ [v])).drift = true ↔
      c.minN ≤ xs.length + 1 ∧
      ((t.x.n < seg.length ∧ splitThr seg t.x.n c.alphaD ≤ splitDiff seg t.x.n) ∨
       (c.twoSided = true ∧ t.y.n < seg.length ∧ splitThr seg t.y.n c.alphaD ≤ - splitDiff seg t.y.n)) := by
  intro t seg
  obtain ⟨hz, hx, hy⟩ : Inv c t seg := inv_newT c _ _ v (hddma_spec c xs)
  have hn : (aRun c HDDMA.init xs).n = xs.length := by rw [aRun_n]; exact Nat.zero_add _
  rw [aRun_append, (hddma_flags c _ v).1, hn, Bool.and_eq_true, decide_eq_true_iff]
  refine and_congr_right (fun _ => ?_)
  have hX := (side_drift_real c seg t.x t.z hz hx ha0 ha1).1
  by_cases hts : c.twoSided = true
  · rw [if_pos hts] at hy
    have hY := (side_drift_real c seg t.y t.z hz hy ha0 ha1).2
    have : HDDMA.checkCases c t =
        ((HDDMA.side c t.x t.z true).1 || (HDDMA.side c t.y t.z false).1,
         (HDDMA.side c t.x t.z true).2 || (HDDMA.side c t.y t.z false).2) := by
      unfold HDDMA.checkCases; simp [hts]
    show (HDDMA.checkCases c t).1 = true ↔ _
    rw [this, Bool.or_eq_true, hX, hY]
    simp [hts]
  · have : HDDMA.checkCases c t = HDDMA.side c t.x t.z true := by
      unfold HDDMA.checkCases; simp [hts]
    show (HDDMA.checkCases c t).1 = true ↔ _
    rw [this, hX]
    simp [hts]

/-- non-vacuity of `hddma_drift_iff_textbook` (the frouros defaults `alpha_d = 0.001`, `alpha_w = 0.005`) -/
example : ∃ c : HDDMA.Cfg ℝ, 0 < c.alphaD ∧ c.alphaD ≤ 1 :=
  ⟨⟨1 / 1000, 1 / 200, false, 30⟩, by norm_num, by norm_num⟩

end SpecReal

/-! ## 4. `hddma_flip` (ℝ): the two-sided HDDM-A is symmetric under `v ↦ a - v` (in particular `v ↦ 1 - v`) -/
section Flip

/-- `q` is the mirror image of the running mean `p`: same count, and mirrored mean whenever the mean is the
mean of at least one value (for `n = 0` the stored mean is the placeholder `0` of `Mean.init` on both sides and
is never read before being overwritten, so nothing is required of it). -/
def mrel (a : ℝ) (p q : Mean ℝ) : Prop := q.n = p.n ∧ (0 < p.n → q.mean = a - p.mean)

/-- simulation relation between the run on `xs` (state `s`) and the run on the mirrored stream (state `s'`):
equal outputs, mirrored `z`, and the roles of the cuts `x` and `y` swapped -/
def flipRel (a : ℝ) (s s' : HDDMA.State ℝ) : Prop :=
  s'.n = s.n ∧ s'.drift = s.drift ∧ s'.warning = s.warning ∧
  mrel a s.t.z s'.t.z ∧ mrel a s.t.y s'.t.x ∧ mrel a s.t.x s'.t.y

theorem mrel_init (a : ℝ) : mrel a Mean.init Mean.init := ⟨rfl, fun h => absurd h (by simp [Mean.init])⟩

theorem mrel_update (a : ℝ) (p q : Mean ℝ) (v : ℝ) (h : mrel a p q) :
    mrel a (p.update v) (q.update (a - v)) ∧ 0 < (p.update v).n := by
  obtain ⟨hn, hm⟩ := h
  refine ⟨⟨by simp [Mean.update, hn], fun _ => ?_⟩, by simp [Mean.update]⟩
  simp only [Mean.update, RealNum.ofNat_eq, hn]
  rcases Nat.eq_zero_or_pos p.n with h0 | h0
  · rw [h0]; simp
  · rw [hm h0]
    have : ((p.n + 1 : ℕ) : ℝ) ≠ 0 := by positivity
    field_simp
    ring

/-- `update_cut_point`, decrease form on the original side vs increase form on the mirrored side -/
theorem flip_cut_dec (a : ℝ) (b : ℕ → ℝ) (p q zn zn' : Mean ℝ) (hp : mrel a p q) (hpp : 0 < p.n)
    (hz : mrel a zn zn') (hzp : 0 < zn.n) :
    mrel a (if Num.le (p.mean - b p.n) (zn.mean - b zn.n) then zn else p)
           (if Num.le (zn'.mean + b zn'.n) (q.mean + b q.n) then zn' else q) ∧
    0 < (if Num.le (p.mean - b p.n) (zn.mean - b zn.n) then zn else p).n := by
  have e : Num.le (zn'.mean + b zn'.n) (q.mean + b q.n) = Num.le (p.mean - b p.n) (zn.mean - b zn.n) := by
    rw [Bool.eq_iff_iff, RealNum.le_iff, RealNum.le_iff, hp.1, hz.1, hp.2 hpp, hz.2 hzp]
    constructor <;> intro h <;> linarith
  rw [e]
  split <;> [exact ⟨hz, hzp⟩; exact ⟨hp, hpp⟩]

/-- `update_cut_point`, increase form on the original side vs decrease form on the mirrored side -/
theorem flip_cut_inc (a : ℝ) (b : ℕ → ℝ) (p q zn zn' : Mean ℝ) (hp : mrel a p q) (hpp : 0 < p.n)
    (hz : mrel a zn zn') (hzp : 0 < zn.n) :
    mrel a (if Num.le (zn.mean + b zn.n) (p.mean + b p.n) then zn else p)
           (if Num.le (q.mean - b q.n) (zn'.mean - b zn'.n) then zn' else q) ∧
    0 < (if Num.le (zn.mean + b zn.n) (p.mean + b p.n) then zn else p).n := by
  have e : Num.le (q.mean - b q.n) (zn'.mean - b zn'.n) = Num.le (zn.mean + b zn.n) (p.mean + b p.n) := by
    rw [Bool.eq_iff_iff, RealNum.le_iff, RealNum.le_iff, hp.1, hz.1, hp.2 hpp, hz.2 hzp]
    constructor <;> intro h <;> linarith
  rw [e]
  split <;> [exact ⟨hz, hzp⟩; exact ⟨hp, hpp⟩]

/-- `set_initial_cut_mean` on both sides -/
theorem flip_initial (a : ℝ) (p q zn zn' : Mean ℝ) (hp : mrel a p q) (hz : mrel a zn zn') (hzp : 0 < zn.n) :
    mrel a (if p.n == 0 then zn else p) (if q.n == 0 then zn' else q) ∧ 0 < (if p.n == 0 then zn else p).n := by
  rw [hp.1]
  by_cases h0 : p.n = 0
  · simp only [h0, beq_self_eq_true, if_true]; exact ⟨hz, hzp⟩
  · have : (p.n == 0) = false := by simpa using h0
    simp only [this]; exact ⟨hp, Nat.pos_of_ne_zero h0⟩

theorem flip_newX (a aD : ℝ) (y z x' z' : Mean ℝ) (v : ℝ) (hc : mrel a y x') (hz : mrel a z z') :
    mrel a (newY aD y z v) (newX aD x' z' (a - v)) ∧ 0 < (newY aD y z v).n := by
  obtain ⟨hZ, hzpos⟩ := mrel_update a z z' v hz
  obtain ⟨h1, h1p⟩ := flip_initial a y x' _ _ hc hZ hzpos
  exact flip_cut_dec a (HDDMA.bound ⟨aD, aD, false, 0⟩) _ _ _ _ h1 h1p hZ hzpos

theorem flip_newY (a aD : ℝ) (x z y' z' : Mean ℝ) (v : ℝ) (hc : mrel a x y') (hz : mrel a z z') :
    mrel a (newX aD x z v) (newY aD y' z' (a - v)) ∧ 0 < (newX aD x z v).n := by
  obtain ⟨hZ, hzpos⟩ := mrel_update a z z' v hz
  obtain ⟨h1, h1p⟩ := flip_initial a x y' _ _ hc hZ hzpos
  exact flip_cut_inc a (HDDMA.bound ⟨aD, aD, false, 0⟩) _ _ _ _ h1 h1p hZ hzpos

/-- the Hoeffding test only looks at the difference `hi - lo` -/
theorem hoeffTest_congr (m nc nz : ℕ) (hi lo hi' lo' al : ℝ) (h : hi - lo = hi' - lo') :
    HDDMA.hoeffTest m nc nz hi lo al = HDDMA.hoeffTest m nc nz hi' lo' al := by
  unfold HDDMA.hoeffTest; rw [h]

/-- one side of `check_cases` on mirrored statistics is the other side on the original ones -/
theorem flip_side (a : ℝ) (c : HDDMA.Cfg ℝ) (cut z cut' z' : Mean ℝ) (hc : mrel a cut cut') (hcp : 0 < cut.n)
    (hz : mrel a z z') (hzp : 0 < z.n) (inc : Bool) :
    HDDMA.side c cut' z' inc = HDDMA.side c cut z (!inc) := by
  unfold HDDMA.side
  rw [hc.1, hz.1, hc.2 hcp, hz.2 hzp]
  cases inc
  · simp only [Bool.false_eq_true, ↓reduceIte, Bool.not_false]
    rw [hoeffTest_congr _ _ _ (a - cut.mean) (a - z.mean) z.mean cut.mean c.alphaD (by ring),
        hoeffTest_congr _ _ _ (a - cut.mean) (a - z.mean) z.mean cut.mean c.alphaW (by ring)]
  · simp only [Bool.false_eq_true, ↓reduceIte, Bool.not_true]
    rw [hoeffTest_congr _ _ _ (a - z.mean) (a - cut.mean) cut.mean z.mean c.alphaD (by ring),
        hoeffTest_congr _ _ _ (a - z.mean) (a - cut.mean) cut.mean z.mean c.alphaW (by ring)]

/-- the simulation relation is preserved by one step on `v` / `a - v` -/
theorem flip_step (a : ℝ) (c : HDDMA.Cfg ℝ) (s s' : HDDMA.State ℝ) (v : ℝ) (h : flipRel a s s') :
    flipRel a (HDDMA.step (aTwo c) s v) (HDDMA.step (aTwo c) s' (a - v)) := by
  obtain ⟨hn, -, -, hz, hyx, hxy⟩ := h
  obtain ⟨hZ, hZp⟩ := mrel_update a _ _ v hz
  obtain ⟨hX, hXp⟩ := flip_newX a c.alphaD _ _ _ _ v hyx hz
  obtain ⟨hY, hYp⟩ := flip_newY a c.alphaD _ _ _ _ v hxy hz
  have s1 := flip_side a c _ _ _ _ hX hXp hZ hZp true
  have s2 := flip_side a c _ _ _ _ hY hYp hZ hZp false
  simp only [Bool.not_true, Bool.not_false] at s1 s2
  rcases hp : HDDMA.side c (newX c.alphaD s.t.x s.t.z v) (s.t.z.update v) true with ⟨di, wi⟩
  rcases hq : HDDMA.side c (newY c.alphaD s.t.y s.t.z v) (s.t.z.update v) false with ⟨dd, wd⟩
  rw [hp] at s2; rw [hq] at s1
  rw [step_two, step_two, hn]
  simp only [newZ, s1, s2, hp, hq]
  by_cases hm : c.minN ≤ s.n + 1 <;> cases di <;> cases dd <;> cases wi <;> cases wd <;>
    simp [hm, flipRel, HDDMA.Test.init, mrel_init, hZ, hX, hY]

theorem flipRel_init (a : ℝ) : flipRel a HDDMA.init HDDMA.init :=
  ⟨rfl, rfl, rfl, mrel_init a, mrel_init a, mrel_init a⟩

/-- the simulation relation holds along the whole run (two-sided mode) -/
theorem hddma_reflect_rel (a : ℝ) (c : HDDMA.Cfg ℝ) (hc : c.twoSided = true) (s s' : HDDMA.State ℝ)
    (h0 : flipRel a s s') (xs : List ℝ) :
    flipRel a (aRun c s xs) (aRun c s' (xs.map (fun v => a - v))) := by
  have e : c = aTwo c := by rcases c with ⟨aD, aW, ts, mn⟩; simp only at hc; subst hc; rfl
  induction xs using List.reverseRecOn with
  | nil => exact h0
  | append_singleton xs v ih =>
    simp only [aRun, List.map_append, List.map_cons, List.map_nil, List.foldl_append, List.foldl_cons,
      List.foldl_nil] at ih ⊢
    rw [e]
    exact flip_step a c _ _ v (by rw [← e]; exact ih)

/-- **C04.4**  The two-sided HDDM-A is symmetric: on the stream `xs` and on its mirror image `xs.map (a - ·)`
(any centre `a`; `a = 1` is the flip of a `[0,1]`-valued stream) it reports the same `drift`, `warning` and
`n` after every number `k` of updates.  No hypothesis on the values, on `alpha_d`, `alpha_w` or `min_num_instances`
is needed.  (Arithmetic facts used: `(a - hi) - (a - lo) = lo - hi` in the tests and in the cut rule, and the
mirror-equivariance of the incremental mean — these are exact over ℝ; over IEEE doubles they are not.) -/
theorem hddma_reflect (a : ℝ) (c : HDDMA.Cfg ℝ) (hc : c.twoSided = true) (xs : List ℝ) (k : ℕ) :
    (aRun c HDDMA.init ((xs.map (fun v => a - v)).take k)).drift = (aRun c HDDMA.init (xs.take k)).drift ∧
    (aRun c HDDMA.init ((xs.map (fun v => a - v)).take k)).warning = (aRun c HDDMA.init (xs.take k)).warning ∧
    (aRun c HDDMA.init ((xs.map (fun v => a - v)).take k)).n = (aRun c HDDMA.init (xs.take k)).n := by
  have h := hddma_reflect_rel a c hc _ _ (flipRel_init a) (xs.take k)
  rw [← List.map_take]
  exact ⟨h.2.1, h.2.2.1, h.1⟩

/-- **C04.4** as stated: `xs` versus `xs.map (1 - ·)` -/
theorem hddma_flip (c : HDDMA.Cfg ℝ) (hc : c.twoSided = true) (xs : List ℝ) (k : ℕ) :
    (aRun c HDDMA.init ((xs.map (fun v => 1 - v)).take k)).drift = (aRun c HDDMA.init (xs.take k)).drift ∧
    (aRun c HDDMA.init ((xs.map (fun v => 1 - v)).take k)).warning = (aRun c HDDMA.init (xs.take k)).warning ∧
    (aRun c HDDMA.init ((xs.map (fun v => 1 - v)).take k)).n = (aRun c HDDMA.init (xs.take k)).n :=
  hddma_reflect 1 c hc xs k

/-- `reset` re-establishes the simulation relation from any pair of states -/
theorem flipRel_reset (a : ℝ) (s s' : HDDMA.State ℝ) : flipRel a (HDDMA.reset s) (HDDMA.reset s') :=
  ⟨rfl, rfl, rfl, mrel_init a, mrel_init a, mrel_init a⟩

/-- mirror the values of a history, keep the `reset`s -/
def flipOp (a : ℝ) : Op ℝ → Op ℝ
  | .update v => .update (a - v)
  | .reset => .reset

/-- **C04.4 for arbitrary histories** (updates interleaved with `reset()` calls): the two-sided HDDM-A reports the
same `n`, `drift`, `warning` on a history and on its mirror image, and the statistics are mirrored
(`flipRel`). -/
theorem hddma_reflect_ops (a : ℝ) (c : HDDMA.Cfg ℝ) (hc : c.twoSided = true) (ops : List (Op ℝ)) :
    flipRel a ((HDDMA.machine c).run ops) ((HDDMA.machine c).run (ops.map (flipOp a))) := by
  have e : c = aTwo c := by rcases c with ⟨aD, aW, ts, mn⟩; simp only at hc; subst hc; rfl
  induction ops using List.reverseRecOn with
  | nil => exact flipRel_init a
  | append_singleton ops op ih =>
    simp only [Machine.run, Machine.runFrom, List.map_append, List.map_cons, List.map_nil, List.foldl_append,
      List.foldl_cons, List.foldl_nil] at ih ⊢
    cases op with
    | update v =>
      simp only [flipOp, Machine.apply, HDDMA.machine]
      rw [e]
      exact flip_step a c _ _ v (by rw [← e]; exact ih)
    | reset =>
      simp only [flipOp, Machine.apply, HDDMA.machine]
      exact flipRel_reset a _ _

/-- non-vacuity: the only hypothesis is `twoSided = true` -/
example : ∃ c : HDDMA.Cfg ℝ, c.twoSided = true := ⟨⟨1/1000, 1/200, true, 30⟩, rfl⟩

end Flip

/-! ## 5. `hddmw_spec` (ℝ): closed forms of the HDDM-W sample statistics and the McDiarmid decision -/
section W

/-- `SampleInfo()` then `update` for each value -/
def sampleFold {α : Type} [Num α] (lam : α) (l : List α) : HDDMW.Sample α :=
  l.foldl (HDDMW.Sample.update lam) (HDDMW.Sample.init lam)

theorem sampleFold_append {α : Type} [Num α] (lam : α) (l : List α) (v : α) :
    sampleFold lam (l ++ [v]) = HDDMW.Sample.update lam (sampleFold lam l) v := by
  simp [sampleFold, List.foldl_append]

/-- **C04.5a**  After the values `v 0, …, v (k-1)`: the EWMA keeps its weights (`alpha = λ`, `one_minus = 1-λ`),
its mean is the zero-initialised exponentially weighted sum `Σ_{i<k} λ (1-λ)^(k-1-i) v_i`, and
`ibc = λ² Σ_{i<k} ((1-λ)²)^i + ((1-λ)²)^k`, i.e. the sum of the squared weights of the `k` values plus the squared
weight `(1-λ)^(2k)` still carried by the initial value `ibc₀ = 1`: McDiarmid's "independent bounded condition"
sum.  (The exponent `k-1-i` is an honest subtraction: `i < k`.)  No hypothesis on `λ`. -/
theorem hddmw_sample_spec (lam : ℝ) (v : ℕ → ℝ) (k : ℕ) :
    (sampleFold lam ((List.range k).map v)).ewma.alpha = lam ∧
    (sampleFold lam ((List.range k).map v)).ewma.oneMinus = 1 - lam ∧
    (sampleFold lam ((List.range k).map v)).ewma.mean =
        ∑ i ∈ Finset.range k, lam * (1 - lam) ^ (k - 1 - i) * v i ∧
    (sampleFold lam ((List.range k).map v)).ibc =
        lam ^ 2 * ∑ i ∈ Finset.range k, ((1 - lam) ^ 2) ^ i + ((1 - lam) ^ 2) ^ k := by
  induction k with
  | zero => simp [sampleFold, HDDMW.Sample.init, EWMA.init]
  | succ k ih =>
    obtain ⟨h1, h2, h3, h4⟩ := ih
    rw [List.range_succ, List.map_append, List.map_singleton, sampleFold_append]
    simp only [HDDMW.Sample.update, EWMA.update, h1, h2, h3, h4]
    refine ⟨trivial, trivial, ?_, ?_⟩
    · rw [Finset.sum_range_succ, Finset.mul_sum]
      have : ∀ i ∈ Finset.range k, (1 - lam) * (lam * (1 - lam) ^ (k - 1 - i) * v i) =
          lam * (1 - lam) ^ (k + 1 - 1 - i) * v i := by
        intro i hi
        have hik : i < k := Finset.mem_range.mp hi
        have : k + 1 - 1 - i = (k - 1 - i) + 1 := by omega
        rw [this, pow_succ]; ring
      rw [Finset.sum_congr rfl this]
      simp
      ring
    · rw [Finset.sum_range_succ' _ k, Finset.sum_congr rfl (fun i _ => pow_succ' ((1 - lam) ^ 2) i),
        ← Finset.mul_sum]
      ring

/-- the same for an arbitrary list of values -/
theorem hddmw_sample_spec_list (lam : ℝ) (vs : List ℝ) :
    (sampleFold lam vs).ewma.mean = ∑ i : Fin vs.length, lam * (1 - lam) ^ (vs.length - 1 - i) * vs[i] ∧
    (sampleFold lam vs).ibc =
        lam ^ 2 * ∑ i ∈ Finset.range vs.length, ((1 - lam) ^ 2) ^ i + ((1 - lam) ^ 2) ^ vs.length := by
  have e : (List.range vs.length).map (fun i => vs.getD i 0) = vs := by
    apply List.ext_getElem
    · simp
    · intro i _ h2; simp [List.getElem?_eq_getElem h2]
  have h := hddmw_sample_spec lam (fun i => vs.getD i 0) vs.length
  rw [e] at h
  refine ⟨?_, h.2.2.2⟩
  rw [h.2.2.1, Finset.sum_range]
  refine Finset.sum_congr rfl (fun i _ => ?_)
  simp

/-- **C04.5b**  `_check_threshold` is McDiarmid's test: the EWMA difference exceeds
`√((ibc₁ + ibc₂) · ln(1/alpha) / 2)` (strict inequality, as in the code). -/
theorem hddmw_thr_spec (s1 s2 : HDDMW.Sample ℝ) (alpha : ℝ) :
    HDDMW.thr s1 s2 alpha = true ↔
      Real.sqrt ((s1.ibc + s2.ibc) * Real.log (1 / alpha) / 2) < s2.ewma.mean - s1.ewma.mean := by
  simp [HDDMW.thr, HDDMW.mcBound]

end W

/-! ### structure of the HDDM-W statistics along a run (every carrier) -/
section WSpec
variable {α : Type} [Num α]

/-- `mean + ε` / `mean - ε` of a sample: the quantity tracked by `incCut` / `decCut` -/
def upB (lam : α) (s : HDDMW.Sample α) : α := s.ewma.mean + HDDMW.mcBound s.ibc lam
def dnB (lam : α) (s : HDDMW.Sample α) : α := s.ewma.mean - HDDMW.mcBound s.ibc lam

/-- what a pair `(inc1, inc2, incCut)` (or `(dec1, dec2, decCut)`) is: for some cut position `k` in the segment,
sample 1 is the statistics of the first `k` values, sample 2 the statistics of the remaining ones (restarted
from `SampleInfo()`), and the stored cut value is the bound `bnd` of sample 1 (unset iff the segment is empty) -/
def SideInv (lam : α) (bnd : HDDMW.Sample α → α) (s1 s2 : HDDMW.Sample α) (cutv : Option α) (seg : List α) : Prop :=
  ∃ k, k ≤ seg.length ∧ s1 = sampleFold lam (seg.take k) ∧ s2 = sampleFold lam (seg.drop k) ∧
    (seg = [] → cutv = none) ∧ (seg ≠ [] → 0 < k ∧ cutv = some (bnd s1))

theorem sideInv_nil (lam : α) (bnd : HDDMW.Sample α → α) :
    SideInv lam bnd (HDDMW.Sample.init lam) (HDDMW.Sample.init lam) none [] :=
  ⟨0, Nat.le_refl _, rfl, rfl, fun _ => rfl, fun h => absurd rfl h⟩

theorem sideInv_step (lam : α) (bnd : HDDMW.Sample α → α) (s1 s2 : HDDMW.Sample α) (cutv : Option α)
    (seg : List α) (v : α) (h : SideInv lam bnd s1 s2 cutv seg) (cond : Bool) (hcond : cutv = none → cond = true) :
    SideInv lam bnd (if cond then sampleFold lam (seg ++ [v]) else s1)
      (if cond then HDDMW.Sample.init lam else HDDMW.Sample.update lam s2 v)
      (if cond then some (bnd (sampleFold lam (seg ++ [v]))) else cutv) (seg ++ [v]) := by
  obtain ⟨k, hk, h1, h2, h3, h4⟩ := h
  cases cond
  · simp only [Bool.false_eq_true, if_false]
    have hne : seg ≠ [] := fun hs => by have := hcond (h3 hs); cases this
    refine ⟨k, by simp; omega, ?_, ?_, fun hs => by simp at hs, fun _ => h4 hne⟩
    · rw [List.take_append_of_le_length hk]; exact h1
    · rw [List.drop_append_of_le_length hk, sampleFold_append, h2]
  · simp only [if_true]
    refine ⟨(seg ++ [v]).length, Nat.le_refl _, by rw [List.take_length], by rw [List.drop_length]; rfl,
      fun hs => by simp at hs, fun _ => ⟨by simp, rfl⟩⟩

/-- the invariant of the HDDM-W test statistics w.r.t. the current segment -/
def WInv (c : HDDMW.Cfg α) (t : HDDMW.Test α) (seg : List α) : Prop :=
  t.total = sampleFold c.lam seg ∧
  SideInv c.lam (upB c.lam) t.inc1 t.inc2 t.incCut seg ∧
  (if c.twoSided then SideInv c.lam (dnB c.lam) t.dec1 t.dec2 t.decCut seg
   else t.dec1 = HDDMW.Sample.init c.lam ∧ t.dec2 = HDDMW.Sample.init c.lam ∧ t.decCut = none)

theorem winv_init (c : HDDMW.Cfg α) : WInv c (HDDMW.Test.init c.lam) [] := by
  refine ⟨rfl, sideInv_nil _ _, ?_⟩
  split
  · exact sideInv_nil _ _
  · exact ⟨rfl, rfl, rfl⟩

theorem updateStats_gen (c : HDDMW.Cfg α) (t : HDDMW.Test α) (v : α) :
    HDDMW.updateStats c t v =
      if c.twoSided then decPart c.lam (HDDMW.Sample.update c.lam t.total v) (incPart c.lam t v) v
      else incPart c.lam t v := by
  rcases c with ⟨aD, aW, ts, lam, mn⟩
  cases ts <;> rfl

theorem incPart_fields (lam : α) (t : HDDMW.Test α) (v : α) :
    let tot := HDDMW.Sample.update lam t.total v
    let cond := match t.incCut with | none => true | some cp => Num.lt (upB lam tot) cp
    incPart lam t v =
      { t with total := tot, inc1 := if cond then tot else t.inc1,
               inc2 := if cond then HDDMW.Sample.init lam else HDDMW.Sample.update lam t.inc2 v,
               incCut := if cond then some (upB lam tot) else t.incCut } := by
  unfold incPart upB; dsimp only; split_ifs <;> rfl

theorem decPart_fields (lam : α) (tot : HDDMW.Sample α) (t : HDDMW.Test α) (v : α) :
    let cond := match t.decCut with | none => true | some cp => Num.gt (dnB lam tot) cp
    decPart lam tot t v =
      { t with dec1 := if cond then tot else t.dec1,
               dec2 := if cond then HDDMW.Sample.init lam else HDDMW.Sample.update lam t.dec2 v,
               decCut := if cond then some (dnB lam tot) else t.decCut } := by
  unfold decPart dnB; dsimp only; split_ifs <;> rfl

theorem winv_updateStats (c : HDDMW.Cfg α) (t : HDDMW.Test α) (seg : List α) (v : α) (h : WInv c t seg) :
    WInv c (HDDMW.updateStats c t v) (seg ++ [v]) := by
  obtain ⟨htot, hinc, hdec⟩ := h
  have htot' : HDDMW.Sample.update c.lam t.total v = sampleFold c.lam (seg ++ [v]) := by
    rw [sampleFold_append, htot]
  have hI := sideInv_step c.lam (upB c.lam) _ _ _ seg v hinc
    (match t.incCut with | none => true | some cp => Num.lt (upB c.lam (HDDMW.Sample.update c.lam t.total v)) cp)
    (fun hn => by rw [hn])
  rw [updateStats_gen]
  by_cases hts : c.twoSided = true
  · simp only [hts, if_true] at hdec ⊢
    have hD := sideInv_step c.lam (dnB c.lam) _ _ _ seg v hdec
      (match t.decCut with | none => true | some cp => Num.gt (dnB c.lam (HDDMW.Sample.update c.lam t.total v)) cp)
      (fun hn => by rw [hn])
    rw [decPart_fields, incPart_fields]
    refine ⟨htot', ?_, ?_⟩
    · simpa only [htot'] using hI
    · simp only [hts, if_true]; simpa only [htot'] using hD
  · have hf : c.twoSided = false := by simpa using hts
    simp only [hf, Bool.false_eq_true, if_false] at hdec ⊢
    rw [incPart_fields]
    refine ⟨htot', ?_, ?_⟩
    · simpa only [htot'] using hI
    · rw [if_neg hts]; exact hdec

def wsegStep (c : HDDMW.Cfg α) (p : HDDMW.State α × List α) (v : α) : HDDMW.State α × List α :=
  (HDDMW.step c p.1 v, if (HDDMW.step c p.1 v).drift then [] else p.2 ++ [v])
def wsegRun (c : HDDMW.Cfg α) (xs : List α) : HDDMW.State α × List α :=
  xs.foldl (wsegStep c) (HDDMW.init c, [])
/-- the values consumed since the last reported drift -/
def wsegment (c : HDDMW.Cfg α) (xs : List α) : List α := (wsegRun c xs).2

theorem wsegRun_fst (c : HDDMW.Cfg α) (xs : List α) : (wsegRun c xs).1 = wRun c (HDDMW.init c) xs := by
  induction xs using List.reverseRecOn with
  | nil => rfl
  | append_singleton xs v ih =>
    simp only [wsegRun, wRun, List.foldl_append, List.foldl_cons, List.foldl_nil] at ih ⊢
    simp only [wsegStep, ih]

theorem wRun_append (c : HDDMW.Cfg α) (s : HDDMW.State α) (xs : List α) (v : α) :
    wRun c s (xs ++ [v]) = HDDMW.step c (wRun c s xs) v := by
  simp [wRun, List.foldl_append]

theorem wsegment_append (c : HDDMW.Cfg α) (xs : List α) (v : α) :
    wsegment c (xs ++ [v]) =
      if (wRun c (HDDMW.init c) (xs ++ [v])).drift then [] else wsegment c xs ++ [v] := by
  have : wsegRun c (xs ++ [v]) = wsegStep c (wsegRun c xs) v := by simp [wsegRun, List.foldl_append]
  simp only [wsegment, this, wsegStep, wsegRun_fst, wRun_append]

/-- `wsegment` is the suffix of the stream after the last reported drift (same reading as `hddma_segment_spec`) -/
theorem hddmw_segment_spec (c : HDDMW.Cfg α) (xs : List α) :
    ∃ pre, xs = pre ++ wsegment c xs ∧
      (pre = [] ∨ (wRun c (HDDMW.init c) pre).drift = true) ∧
      ∀ k, 0 < k → k ≤ (wsegment c xs).length →
        (wRun c (HDDMW.init c) (pre ++ (wsegment c xs).take k)).drift = false := by
  induction xs using List.reverseRecOn with
  | nil => exact ⟨[], rfl, Or.inl rfl, fun k hk hk' => by simp [wsegment, wsegRun] at hk'; omega⟩
  | append_singleton xs v ih =>
    obtain ⟨pre, h1, h2, h3⟩ := ih
    rw [wsegment_append]
    by_cases hd : (wRun c (HDDMW.init c) (xs ++ [v])).drift = true
    · refine ⟨xs ++ [v], by simp [hd], Or.inr hd, fun k hk hk' => ?_⟩
      simp [hd] at hk'; omega
    · have hd' : (wRun c (HDDMW.init c) (xs ++ [v])).drift = false := by simpa using hd
      simp only [hd', Bool.false_eq_true, if_false]
      refine ⟨pre, by rw [← List.append_assoc, ← h1], h2, fun k hk hk' => ?_⟩
      simp only [List.length_append, List.length_singleton] at hk'
      by_cases hk2 : k ≤ (wsegment c xs).length
      · rw [List.take_append_of_le_length hk2]; exact h3 k hk hk2
      · have : k = (wsegment c xs ++ [v]).length := by simp; omega
        rw [this, List.take_length, ← List.append_assoc, ← h1]; exact hd'

/-- **C04.5c (every carrier): the HDDM-W statistics in terms of the segment.**  After any stream: `total` is the
`SampleInfo` fold of the current segment; `inc1` is the fold of its first `k` values and `inc2` the fold —
restarted from `SampleInfo()` — of the values after them, for some cut `k` (`0 < k` once the segment is
non-empty), and `incCut = inc1.mean + ε(inc1)`; in two-sided mode the same for `dec1`, `dec2`, `decCut` (with
`mean - ε`), in one-sided mode these fields are never touched. -/
theorem hddmw_spec (c : HDDMW.Cfg α) (xs : List α) :
    WInv c (wRun c (HDDMW.init c) xs).t (wsegment c xs) := by
  induction xs using List.reverseRecOn with
  | nil => exact winv_init c
  | append_singleton xs v ih =>
    rw [wsegment_append, wRun_append, wstep_eq]
    by_cases hm : c.minN ≤ (wRun c (HDDMW.init c) xs).n + 1
    · simp only [hm, if_true]
      split
      · exact winv_init c
      · exact winv_updateStats c _ _ v ih
    · simp only [hm, if_false]
      exact winv_updateStats c _ _ v ih

end WSpec

/-! ## witnesses (ℝ): what is NOT true

`cW`: `alpha_d = alpha_w = e^{-1/2}` (so `ln(1/alpha_d) = 1/2` and all thresholds are explicit square roots),
`min_num_instances = 1`. -/
section Witness

noncomputable def cW : HDDMA.Cfg ℝ := ⟨Real.exp (-(1/2)), Real.exp (-(1/2)), false, 1⟩

theorem cW_log : Real.log (1 / cW.alphaD) = 1 / 2 := by
  simp [cW, Real.exp_neg]

theorem cW_bound (aW : ℝ) (b : Bool) (n k : ℕ) :
    HDDMA.bound ⟨cW.alphaD, aW, b, n⟩ k = Real.sqrt (1 / (4 * (k : ℝ))) := by
  have := cW_log
  simp only [HDDMA.bound, RealNum.sqrt_eq, RealNum.log_eq, RealNum.one_eq, RealNum.ofNat_eq] at this ⊢
  rw [this]; congr 1; push_cast; ring

theorem upd0 (v : ℝ) : (Mean.init : Mean ℝ).update v = ⟨v, 1⟩ := by simp [Mean.init, Mean.update]
theorem upd1 (a v : ℝ) : (⟨a, 1⟩ : Mean ℝ).update v = ⟨a + (v - a) / 2, 2⟩ := by
  simp [Mean.update]

theorem sqrt_quarter : Real.sqrt (1 / (4 * ((1 : ℕ) : ℝ))) = 1 / 2 := by
  rw [show (1 : ℝ) / (4 * ((1 : ℕ) : ℝ)) = (1 / 2) ^ 2 by norm_num]
  exact Real.sqrt_sq (by norm_num)
theorem sqrt_eighth_pos : 0 < Real.sqrt (1 / (4 * ((2 : ℕ) : ℝ))) := Real.sqrt_pos.mpr (by norm_num)
theorem sqrt_eighth_le : Real.sqrt (1 / (4 * ((2 : ℕ) : ℝ))) ≤ 1 / 2 := by
  rw [Real.sqrt_le_iff]; norm_num

/-- first step from `init`, both modes -/
theorem w_step1_two (v : ℝ) :
    HDDMA.step (aTwo cW) HDDMA.init v = ⟨1, false, false, ⟨⟨v, 1⟩, ⟨v, 1⟩, ⟨v, 1⟩⟩⟩ := by
  rw [step_two]
  simp [newX_eq, newY_eq, newZ, HDDMA.init, HDDMA.Test.init, upd0, side_table, cW]
  simp [Mean.init]

theorem w_step1_one (v : ℝ) :
    HDDMA.step (aOne cW) HDDMA.init v = ⟨1, false, false, ⟨⟨v, 1⟩, ⟨v, 1⟩, Mean.init⟩⟩ := by
  rw [step_one]
  simp [newX_eq, newZ, HDDMA.init, HDDMA.Test.init, upd0, side_table, cW]
  simp [Mean.init]


theorem wZ : newZ (⟨1, 1⟩ : Mean ℝ) 0 = ⟨1 / 2, 2⟩ := by
  rw [newZ, upd1]; norm_num

theorem wX : newX cW.alphaD ⟨1, 1⟩ ⟨1, 1⟩ 0 = ⟨1 / 2, 2⟩ := by
  rw [newX_eq, upd1, cW_bound, cW_bound, if_pos]
  · norm_num
  · right
    rw [RealNum.le_iff]
    dsimp only
    rw [sqrt_quarter]
    have := sqrt_eighth_le
    generalize Real.sqrt (1 / (4 * ((2 : ℕ) : ℝ))) = r at *
    norm_num; linarith

theorem wY : newY cW.alphaD ⟨1, 1⟩ ⟨1, 1⟩ 0 = ⟨1, 1⟩ := by
  rw [newY_eq, upd1, cW_bound, cW_bound, if_neg]
  rintro (h | h)
  · simp at h
  · rw [RealNum.le_iff] at h
    dsimp only at h
    rw [sqrt_quarter] at h
    have := sqrt_eighth_pos
    generalize Real.sqrt (1 / (4 * ((2 : ℕ) : ℝ))) = r at *
    norm_num at h; linarith

theorem wSideX : HDDMA.side cW ⟨1 / 2, 2⟩ ⟨1 / 2, 2⟩ true = (false, false) := by
  rw [side_table]; simp

theorem wTest : HDDMA.hoeffTest 1 1 2 1 (1 / 2) cW.alphaD = true := by
  unfold HDDMA.hoeffTest
  simp only [RealNum.ge_iff, RealNum.sqrt_eq, RealNum.log_eq, RealNum.one_eq, RealNum.ofNat_eq]
  rw [cW_log, Real.sqrt_le_iff]
  norm_num

theorem wSideY : HDDMA.side cW ⟨1, 1⟩ ⟨1 / 2, 2⟩ false = (true, false) := by
  rw [side_table]
  have h := wTest
  simp only [one_div] at h
  simp [h]

theorem w_step2_two :
    HDDMA.step (aTwo cW) ⟨1, false, false, ⟨⟨1, 1⟩, ⟨1, 1⟩, ⟨1, 1⟩⟩⟩ 0 = ⟨2, true, false, HDDMA.Test.init⟩ := by
  rw [step_two]
  dsimp only
  rw [wX, wY, wZ, wSideX, wSideY]
  simp [cW]

theorem w_step2_one :
    HDDMA.step (aOne cW) ⟨1, false, false, ⟨⟨1, 1⟩, ⟨1, 1⟩, Mean.init⟩⟩ 0 =
      ⟨2, false, false, ⟨⟨1 / 2, 2⟩, ⟨1 / 2, 2⟩, Mean.init⟩⟩ := by
  rw [step_one]
  dsimp only
  rw [wX, wZ, wSideX]
  simp [cW]

/-- **witness**: with `alpha_d = alpha_w = e^{-1/2}`, `min_num_instances = 1`, on the stream `[1, 0]` the
two-sided detector reports a drift (decrease side) at the second value, the one-sided one reports nothing, and
from then on the "shared" statistics differ (`z.n = 0` vs `z.n = 2`). -/
theorem two_sided_only_drift_witness :
    (aRun (aTwo cW) HDDMA.init [1, 0]).drift = true ∧
    (aRun (aOne cW) HDDMA.init [1, 0]).drift = false ∧
    (aRun (aOne cW) HDDMA.init [1, 0]).warning = false ∧
    ¬ aShared (aRun (aOne cW) HDDMA.init [1, 0]) (aRun (aTwo cW) HDDMA.init [1, 0]) := by
  have h2 : aRun (aTwo cW) HDDMA.init [1, 0] = ⟨2, true, false, HDDMA.Test.init⟩ := by
    simp only [aRun, List.foldl_cons, List.foldl_nil]; rw [w_step1_two, w_step2_two]
  have h1 : aRun (aOne cW) HDDMA.init [1, 0] = ⟨2, false, false, ⟨⟨1 / 2, 2⟩, ⟨1 / 2, 2⟩, Mean.init⟩⟩ := by
    simp only [aRun, List.foldl_cons, List.foldl_nil]; rw [w_step1_one, w_step2_one]
  rw [h1, h2]
  refine ⟨rfl, rfl, rfl, ?_⟩
  rintro ⟨_, _, hz⟩
  have := congrArg Mean.n hz
  simp [HDDMA.Test.init, Mean.init] at this

theorem wZ' : newZ (⟨0, 1⟩ : Mean ℝ) 1 = ⟨1 / 2, 2⟩ := by
  rw [newZ, upd1]; norm_num

theorem wX' : newX cW.alphaD ⟨0, 1⟩ ⟨0, 1⟩ 1 = ⟨0, 1⟩ := by
  rw [newX_eq, upd1, cW_bound, cW_bound, if_neg]
  rintro (h | h)
  · simp at h
  · rw [RealNum.le_iff] at h
    dsimp only at h
    rw [sqrt_quarter] at h
    have := sqrt_eighth_pos
    generalize Real.sqrt (1 / (4 * ((2 : ℕ) : ℝ))) = r at *
    norm_num at h; linarith

theorem wTest' : HDDMA.hoeffTest 1 1 2 (1 / 2) 0 cW.alphaD = true := by
  unfold HDDMA.hoeffTest
  simp only [RealNum.ge_iff, RealNum.sqrt_eq, RealNum.log_eq, RealNum.one_eq, RealNum.ofNat_eq]
  rw [cW_log, Real.sqrt_le_iff]
  norm_num

theorem wSideX' : HDDMA.side cW ⟨0, 1⟩ ⟨1 / 2, 2⟩ true = (true, false) := by
  rw [side_table]
  have h := wTest'
  simp only [one_div] at h
  simp [h]

theorem w_step2_one' :
    HDDMA.step (aOne cW) ⟨1, false, false, ⟨⟨0, 1⟩, ⟨0, 1⟩, Mean.init⟩⟩ 1 = ⟨2, true, false, HDDMA.Test.init⟩ := by
  rw [step_one]
  dsimp only
  rw [wX', wZ', wSideX']
  simp [cW]

/-- **witness**: the ONE-sided HDDM-A is not flip-symmetric (so `twoSided = true` is needed in `hddma_flip`):
same configuration as above, drift on `[0, 1]`, nothing on its mirror image `[1, 0]`. -/
theorem one_sided_not_symmetric_witness :
    (aRun (aOne cW) HDDMA.init [0, 1]).drift = true ∧
    (aRun (aOne cW) HDDMA.init ([0, 1].map (fun v => 1 - v))).drift = false := by
  have h1 : aRun (aOne cW) HDDMA.init [0, 1] = ⟨2, true, false, HDDMA.Test.init⟩ := by
    simp only [aRun, List.foldl_cons, List.foldl_nil]; rw [w_step1_one, w_step2_one']
  have e : ([0, 1] : List ℝ).map (fun v => 1 - v) = [1, 0] := by norm_num
  rw [h1, e]
  exact ⟨rfl, two_sided_only_drift_witness.2.1⟩

end Witness

/-! ## axioms used -/
#print axioms hoeffding_core
#print axioms hoeffding_equiv
#print axioms hddma_two_sided_step
#print axioms hddma_two_sided_decision_stats
#print axioms hddma_two_sided_extends
#print axioms hddma_two_sided_extends_init
#print axioms hddmw_two_sided_step
#print axioms hddmw_two_sided_extends
#print axioms hddmw_two_sided_extends_init
#print axioms hddma_segment_spec
#print axioms hddma_spec
#print axioms newX_eq
#print axioms newY_eq
#print axioms side_table
#print axioms hddma_flags
#print axioms hddma_spec_real
#print axioms cut_test_textbook
#print axioms hddma_drift_iff_textbook
#print axioms hddma_reflect
#print axioms hddma_flip
#print axioms hddma_reflect_ops
#print axioms hddmw_sample_spec
#print axioms hddmw_sample_spec_list
#print axioms hddmw_thr_spec
#print axioms hddmw_segment_spec
#print axioms hddmw_spec
#print axioms two_sided_only_drift_witness
#print axioms one_sided_not_symmetric_witness

end Frouros.C04
