/-
  C17 — callbacks: `HistoryConceptDrift` (`History`) and `ResetStatisticalTest` (`ResetCb`) of
  `FrourosModel/Misc.lean`.

  All statements are control flow: arbitrary entry type `E`, arbitrary snapshot functions, arbitrary
  carrier `α` with arbitrary `Num α` operations, arbitrary detector machine.
-/
import FrourosModel.Misc
import FrourosModel.Batch
import FrourosProofs.Machines
import FrourosProofs.Props.C16
namespace Frouros.C17
open Frouros Frouros.History

variable {E : Type}

/-- the tracked names, in the order of the `hist` dictionary -/
def keys (s : State E) : List String := s.hist.map Prod.fst

/-- the three lists every history starts with -/
def defaultKeys : List String := ["value", "num_instances", "drift"]

/-! ### `add_additional_vars` -/

/-- the de-duplication step of `addVars` -/
def fstep (names acc : List String) (v : String) : List String :=
  if acc.contains v || names.contains v then acc else acc ++ [v]

/-- the new names really added by `addVars` -/
def freshOf (names vars : List String) : List String := vars.foldl (fstep names) []

theorem fresh_aux (names vars acc : List String) (hnd : acc.Nodup) (hdisj : ∀ v ∈ acc, v ∉ names) :
    (vars.foldl (fstep names) acc).Nodup ∧
      ∀ v, v ∈ vars.foldl (fstep names) acc ↔ v ∈ acc ∨ (v ∈ vars ∧ v ∉ names) := by
  induction vars generalizing acc with
  | nil => simp [hnd]
  | cons a vars ih =>
    rw [List.foldl_cons]
    by_cases h : a ∈ acc ∨ a ∈ names
    · have hf : fstep names acc a = acc := by
        unfold fstep; simp only [Bool.or_eq_true, List.contains_iff_mem]; rw [if_pos h]
      rw [hf]
      obtain ⟨h1, h2⟩ := ih acc hnd hdisj
      refine ⟨h1, fun v => ?_⟩
      rw [h2]
      constructor
      · rintro (hv | ⟨hv, hn⟩)
        · exact Or.inl hv
        · exact Or.inr ⟨List.mem_cons_of_mem _ hv, hn⟩
      · rintro (hv | ⟨hv, hn⟩)
        · exact Or.inl hv
        · rcases List.mem_cons.mp hv with rfl | hv
          · rcases h with h | h
            · exact Or.inl h
            · exact absurd h hn
          · exact Or.inr ⟨hv, hn⟩
    · have hf : fstep names acc a = acc ++ [a] := by
        unfold fstep; simp only [Bool.or_eq_true, List.contains_iff_mem]; rw [if_neg h]
      rw [hf]
      have ha1 : a ∉ acc := fun h' => h (Or.inl h')
      have ha2 : a ∉ names := fun h' => h (Or.inr h')
      have hnd' : (acc ++ [a]).Nodup := by
        rw [List.nodup_append]
        refine ⟨hnd, by simp, ?_⟩
        intro x hx y hy
        rw [List.mem_singleton] at hy
        subst hy
        intro hxy; subst hxy; exact ha1 hx
      have hdisj' : ∀ v ∈ acc ++ [a], v ∉ names := by
        intro v hv
        rcases List.mem_append.mp hv with hv | hv
        · exact hdisj v hv
        · rw [List.mem_singleton] at hv; subst hv; exact ha2
      obtain ⟨h1, h2⟩ := ih (acc ++ [a]) hnd' hdisj'
      refine ⟨h1, fun v => ?_⟩
      rw [h2]
      constructor
      · rintro (hv | ⟨hv, hn⟩)
        · rcases List.mem_append.mp hv with hv | hv
          · exact Or.inl hv
          · rw [List.mem_singleton] at hv; subst hv
            exact Or.inr ⟨List.mem_cons_self, ha2⟩
        · exact Or.inr ⟨List.mem_cons_of_mem _ hv, hn⟩
      · rintro (hv | ⟨hv, hn⟩)
        · exact Or.inl (List.mem_append_left _ hv)
        · rcases List.mem_cons.mp hv with rfl | hv
          · exact Or.inl (List.mem_append_right _ (List.mem_singleton.mpr rfl))
          · exact Or.inr ⟨hv, hn⟩

theorem freshOf_nodup (names vars : List String) : (freshOf names vars).Nodup :=
  (fresh_aux names vars [] List.nodup_nil (by simp)).1

theorem mem_freshOf (names vars : List String) (v : String) : v ∈ freshOf names vars ↔ v ∈ vars ∧ v ∉ names := by
  have := (fresh_aux names vars [] List.nodup_nil (by simp)).2 v
  unfold freshOf
  simpa using this

theorem addVars_names (s : State E) (vars : List String) :
    (addVars s vars).names = s.names ++ freshOf s.names vars := rfl

theorem addVars_hist (s : State E) (vars : List String) :
    (addVars s vars).hist =
      s.hist.filter (fun p => !(s.names ++ freshOf s.names vars).contains p.1)
        ++ (s.names ++ freshOf s.names vars).map (fun n => (n, [])) := rfl

theorem addVars_keys (s : State E) (vars : List String) :
    keys (addVars s vars) =
      (s.hist.filter (fun p => !(s.names ++ freshOf s.names vars).contains p.1)).map Prod.fst
        ++ (s.names ++ freshOf s.names vars) := by
  unfold keys
  rw [addVars_hist, List.map_append, List.map_map]
  congr 1
  induction (s.names ++ freshOf s.names vars) with
  | nil => rfl
  | cons a l ih => simp [ih]

/-- Well-formedness of a history state: no additional name twice, no key twice, every additional
name has its list. -/
structure Good (s : State E) : Prop where
  names_nodup : s.names.Nodup
  keys_nodup : (keys s).Nodup
  names_sub : ∀ n ∈ s.names, n ∈ keys s

theorem good_init : Good (init : State E) := by
  refine ⟨List.nodup_nil, ?_, by simp [init]⟩
  simp [keys, init]

theorem addVars_names_nodup (s : State E) (vars : List String) (h : s.names.Nodup) :
    (addVars s vars).names.Nodup := by
  rw [addVars_names, List.nodup_append]
  refine ⟨h, freshOf_nodup _ _, ?_⟩
  intro a ha b hb hab
  subst hab
  exact ((mem_freshOf _ _ _).mp hb).2 ha

theorem addVars_good (s : State E) (vars : List String) (h : Good s) : Good (addVars s vars) := by
  refine ⟨addVars_names_nodup s vars h.names_nodup, ?_, ?_⟩
  · rw [addVars_keys, List.nodup_append]
    refine ⟨?_, addVars_names_nodup s vars h.names_nodup, ?_⟩
    · exact List.Nodup.sublist (List.Sublist.map _ List.filter_sublist) h.keys_nodup
    · intro a ha b hb hab
      subst hab
      rw [List.mem_map] at ha
      obtain ⟨p, hp, rfl⟩ := ha
      rw [List.mem_filter] at hp
      have := hp.2
      simp only [Bool.not_eq_true', ← Bool.not_eq_true, List.contains_iff_mem] at this
      exact this hb
  · intro n hn
    rw [addVars_keys]
    exact List.mem_append_right _ hn

/-- keys after `addVars`: the old keys plus the new names -/
theorem mem_keys_addVars (s : State E) (vars : List String) (h : Good s) (n : String) :
    n ∈ keys (addVars s vars) ↔ n ∈ keys s ∨ n ∈ vars := by
  rw [addVars_keys, List.mem_append, List.mem_append, mem_freshOf]
  constructor
  · rintro (hn | hn | ⟨hn, _⟩)
    · rw [List.mem_map] at hn
      obtain ⟨p, hp, rfl⟩ := hn
      exact Or.inl (List.mem_map.mpr ⟨p, (List.mem_filter.mp hp).1, rfl⟩)
    · exact Or.inl (h.names_sub n hn)
    · exact Or.inr hn
  · intro hn
    by_cases hnames : n ∈ s.names
    · exact Or.inr (Or.inl hnames)
    · rcases hn with hn | hn
      · by_cases hv : n ∈ vars
        · exact Or.inr (Or.inr ⟨hv, hnames⟩)
        · left
          unfold keys at hn
          rw [List.mem_map] at hn ⊢
          obtain ⟨p, hp, rfl⟩ := hn
          refine ⟨p, ?_, rfl⟩
          rw [List.mem_filter]
          refine ⟨hp, ?_⟩
          simp only [Bool.not_eq_true', ← Bool.not_eq_true, List.contains_iff_mem, List.mem_append, mem_freshOf]
          rintro (h' | ⟨h', _⟩)
          · exact hnames h'
          · exact hv h'
      · exact Or.inr (Or.inr ⟨hn, hnames⟩)

/-- every list created or re-created by `addVars` is empty; lists of untouched keys are kept -/
theorem addVars_allEmpty (s : State E) (vars : List String) (h : ∀ p ∈ s.hist, p.2 = []) :
    ∀ p ∈ (addVars s vars).hist, p.2 = [] := by
  intro p hp
  rw [addVars_hist, List.mem_append] at hp
  rcases hp with hp | hp
  · exact h p (List.mem_filter.mp hp).1
  · rw [List.mem_map] at hp
    obtain ⟨n, _, rfl⟩ := hp
    rfl

/-! ### `on_update_end`, `reset` -/

theorem onUpdateEnd_keys (s : State E) (snap : String → E) : keys (onUpdateEnd s snap) = keys s := by
  unfold keys onUpdateEnd
  rw [List.map_map]; rfl

theorem reset_keys (s : State E) : keys (History.reset s) = keys s := by
  unfold keys History.reset
  rw [List.map_map]; rfl

theorem onUpdateEnd_good (s : State E) (snap : String → E) (h : Good s) : Good (onUpdateEnd s snap) :=
  ⟨h.names_nodup, by rw [onUpdateEnd_keys]; exact h.keys_nodup, by rw [onUpdateEnd_keys]; exact h.names_sub⟩

theorem reset_good (s : State E) (h : Good s) : Good (History.reset s) :=
  ⟨h.names_nodup, by rw [reset_keys]; exact h.keys_nodup, by rw [reset_keys]; exact h.names_sub⟩

/-- the history after `n` updates: each list got the `n` snapshots of *its own* name appended, in order -/
theorem updates_hist (s : State E) (snaps : List (String → E)) :
    (snaps.foldl onUpdateEnd s).hist = s.hist.map (fun p => (p.1, p.2 ++ snaps.map (fun f => f p.1))) ∧
    (snaps.foldl onUpdateEnd s).names = s.names := by
  induction snaps generalizing s with
  | nil => simp
  | cons f snaps ih =>
    rw [List.foldl_cons]
    obtain ⟨h1, h2⟩ := ih (onUpdateEnd s f)
    refine ⟨?_, h2⟩
    rw [h1]
    unfold onUpdateEnd
    simp [List.map_map, Function.comp_def, List.append_assoc]

theorem updates_keys (s : State E) (snaps : List (String → E)) : keys (snaps.foldl onUpdateEnd s) = keys s := by
  unfold keys
  rw [(updates_hist s snaps).1, List.map_map]; rfl

/-- **one entry per update**, core statement: if all lists are empty (fresh history, after any number
of `addVars`, or after a `reset`), then after the updates `snap₁ … snapₙ` the list of every tracked
name is exactly `[snap₁ name, …, snapₙ name]`. -/
theorem updates_content (s : State E) (hempty : ∀ p ∈ s.hist, p.2 = []) (snaps : List (String → E)) :
    ∀ p ∈ (snaps.foldl onUpdateEnd s).hist, p.2 = snaps.map (fun f => f p.1) := by
  intro p hp
  rw [(updates_hist s snaps).1, List.mem_map] at hp
  obtain ⟨q, hq, rfl⟩ := hp
  simp [hempty q hq]

/-- **reset_empties**: after `reset` every list is empty, and the set (and order) of tracked names and
the additional-variable list are unchanged. -/
theorem reset_empties (s : State E) :
    (∀ p ∈ (History.reset s).hist, p.2 = []) ∧ keys (History.reset s) = keys s ∧ (History.reset s).names = s.names := by
  refine ⟨?_, reset_keys s, rfl⟩
  intro p hp
  unfold History.reset at hp
  rw [List.mem_map] at hp
  obtain ⟨q, _, rfl⟩ := hp
  rfl

/-! ### Arbitrary histories of callback operations: every name exactly once -/

/-- the three operations on a history object -/
inductive HOp (E : Type) where
  | addVars (vars : List String)
  | update (snap : String → E)
  | reset

def applyOp (s : State E) : HOp E → State E
  | .addVars vars => addVars s vars
  | .update snap => onUpdateEnd s snap
  | .reset => History.reset s

/-- the state after any sequence of operations on a fresh history -/
def runOps (ops : List (HOp E)) : State E := ops.foldl applyOp init

theorem applyOp_good (s : State E) (op : HOp E) (h : Good s) :
    Good (applyOp s op) ∧ ∀ n, n ∈ keys (applyOp s op) ↔ n ∈ keys s ∨ ∃ vars, op = .addVars vars ∧ n ∈ vars := by
  cases op with
  | addVars vars =>
    refine ⟨addVars_good s vars h, fun n => ?_⟩
    show n ∈ keys (addVars s vars) ↔ _
    rw [mem_keys_addVars s vars h]
    constructor
    · rintro (h' | h')
      · exact Or.inl h'
      · exact Or.inr ⟨vars, rfl, h'⟩
    · rintro (h' | ⟨_, h', h''⟩)
      · exact Or.inl h'
      · cases h'; exact Or.inr h''
  | update snap =>
    refine ⟨onUpdateEnd_good s snap h, fun n => ?_⟩
    show n ∈ keys (onUpdateEnd s snap) ↔ _
    rw [onUpdateEnd_keys]
    constructor
    · exact Or.inl
    · rintro (h' | ⟨_, h', _⟩)
      · exact h'
      · cases h'
  | reset =>
    refine ⟨reset_good s h, fun n => ?_⟩
    show n ∈ keys (History.reset s) ↔ _
    rw [reset_keys]
    constructor
    · exact Or.inl
    · rintro (h' | ⟨_, h', _⟩)
      · exact h'
      · cases h'

theorem foldl_good (s : State E) (ops : List (HOp E)) (h : Good s) :
    Good (ops.foldl applyOp s) ∧
      ∀ n, n ∈ keys (ops.foldl applyOp s) ↔ n ∈ keys s ∨ ∃ vars, HOp.addVars vars ∈ ops ∧ n ∈ vars := by
  induction ops generalizing s with
  | nil => exact ⟨h, fun n => by simp⟩
  | cons op ops ih =>
    rw [List.foldl_cons]
    obtain ⟨g1, k1⟩ := applyOp_good s op h
    obtain ⟨g2, k2⟩ := ih (applyOp s op) g1
    refine ⟨g2, fun n => ?_⟩
    rw [k2, k1]
    constructor
    · rintro ((h' | ⟨vars, rfl, h'⟩) | ⟨vars, h', h''⟩)
      · exact Or.inl h'
      · exact Or.inr ⟨vars, List.mem_cons_self, h'⟩
      · exact Or.inr ⟨vars, List.mem_cons_of_mem _ h', h''⟩
    · rintro (h' | ⟨vars, h', h''⟩)
      · exact Or.inl (Or.inl h')
      · rcases List.mem_cons.mp h' with h' | h'
        · exact Or.inl (Or.inr ⟨vars, h'.symm, h''⟩)
        · exact Or.inr ⟨vars, h', h''⟩

/-- **names_once** (full generality): after ANY sequence of `addVars` / `on_update_end` / `reset`
calls on a fresh history — `addVars` possibly repeated, with overlapping names, with names equal to
the default ones, before or after updates — no name occurs twice in `hist`, no name occurs twice in
the additional-variable list, and the tracked names are exactly the three default names together
with every name ever passed to `addVars`. -/
theorem names_once (ops : List (HOp E)) :
    (keys (runOps ops)).Nodup ∧ (runOps ops).names.Nodup ∧
      ∀ n, n ∈ keys (runOps ops) ↔ n ∈ defaultKeys ∨ ∃ vars, HOp.addVars vars ∈ ops ∧ n ∈ vars := by
  obtain ⟨g, k⟩ := foldl_good (init : State E) ops good_init
  exact ⟨g.keys_nodup, g.names_nodup, k⟩

/-- "exactly once" as a count -/
theorem count_eq_one (ops : List (HOp E)) (n : String) (h : n ∈ keys (runOps ops)) :
    (keys (runOps ops)).count n = 1 := by
  have hnd := (names_once ops).1
  generalize keys (runOps ops) = l at h hnd
  induction l with
  | nil => cases h
  | cons a l ih =>
    rw [List.nodup_cons] at hnd
    rcases List.mem_cons.mp h with rfl | h'
    · rw [List.count_cons_self, List.count_eq_zero_of_not_mem hnd.1]
    · have : a ≠ n := fun e => hnd.1 (e ▸ h')
      rw [List.count_cons_of_ne this, ih h' hnd.2]

/-! ### The property as stated -/

/-- the state after the `addVars` calls `vs` and then the updates `snaps` -/
def after (vs : List (List String)) (snaps : List (String → E)) : State E :=
  snaps.foldl onUpdateEnd (vs.foldl addVars init)

theorem addVarsOnly_allEmpty (s : State E) (vs : List (List String)) (h : ∀ p ∈ s.hist, p.2 = []) :
    ∀ p ∈ (vs.foldl addVars s).hist, p.2 = [] := by
  induction vs generalizing s with
  | nil => exact h
  | cons v vs ih => exact ih (addVars s v) (addVars_allEmpty s v h)

theorem after_eq_runOps (vs : List (List String)) (snaps : List (String → E)) :
    after vs snaps = runOps (vs.map HOp.addVars ++ snaps.map HOp.update) := by
  unfold after runOps
  rw [List.foldl_append, List.foldl_map, List.foldl_map]
  rfl

/-- **one_entry_per_update**: after any `addVars` calls (repeated / overlapping names allowed) followed
by the updates `snap₁ … snapₙ`:
* no name occurs twice in `hist`;
* the names present are the three default ones and every name passed to `addVars`;
* the list of every name `p.1` is `[snap₁ p.1, …, snapₙ p.1]` — in particular it has length `n` and
  its `j`-th entry is `snap_j name` (corollaries below). -/
theorem one_entry_per_update (vs : List (List String)) (snaps : List (String → E)) :
    (keys (after vs snaps)).Nodup ∧
    (∀ n, n ∈ keys (after vs snaps) ↔ n ∈ defaultKeys ∨ ∃ v ∈ vs, n ∈ v) ∧
    ∀ p ∈ (after vs snaps).hist, p.2 = snaps.map (fun f => f p.1) := by
  refine ⟨?_, ?_, ?_⟩
  · rw [after_eq_runOps]; exact (names_once _).1
  · intro n
    rw [after_eq_runOps, (names_once _).2.2]
    constructor
    · rintro (h | ⟨vars, h, h'⟩)
      · exact Or.inl h
      · rcases List.mem_append.mp h with h | h
        · rw [List.mem_map] at h
          obtain ⟨v, hv, e⟩ := h
          cases e
          exact Or.inr ⟨vars, hv, h'⟩
        · rw [List.mem_map] at h
          obtain ⟨_, _, e⟩ := h
          cases e
    · rintro (h | ⟨v, hv, h'⟩)
      · exact Or.inl h
      · exact Or.inr ⟨v, List.mem_append_left _ (List.mem_map.mpr ⟨v, hv, rfl⟩), h'⟩
  · apply updates_content
    apply addVarsOnly_allEmpty
    simp [init]

/-- every list has length `n` -/
theorem one_entry_per_update_length (vs : List (List String)) (snaps : List (String → E)) :
    ∀ p ∈ (after vs snaps).hist, p.2.length = snaps.length := by
  intro p hp
  rw [(one_entry_per_update vs snaps).2.2 p hp, List.length_map]

/-- the `j`-th entry (0-based, `j < n`) of the list of `name` is `snap_j name` -/
theorem one_entry_per_update_get (vs : List (List String)) (snaps : List (String → E)) :
    ∀ p ∈ (after vs snaps).hist, ∀ j : Nat, p.2[j]? = snaps[j]?.map (fun f => f p.1) := by
  intro p hp j
  rw [(one_entry_per_update vs snaps).2.2 p hp, List.getElem?_map]

/-- for every tracked name there is exactly one list, and it is the list of its snapshots -/
theorem one_entry_per_update_unique (vs : List (List String)) (snaps : List (String → E)) (name : String)
    (h : name ∈ defaultKeys ∨ ∃ v ∈ vs, name ∈ v) :
    ∃ l, (name, l) ∈ (after vs snaps).hist ∧ l = snaps.map (fun f => f name) ∧
      ∀ l', (name, l') ∈ (after vs snaps).hist → l' = l := by
  obtain ⟨_, hk, hc⟩ := one_entry_per_update vs snaps
  have hm := (hk name).mpr h
  unfold keys at hm
  rw [List.mem_map] at hm
  obtain ⟨⟨n, l⟩, hp, rfl⟩ := hm
  exact ⟨l, hp, hc _ hp, fun l' hp' => (hc _ hp').trans (hc _ hp).symm⟩

/-- after a `reset` in any state, the next `n` updates are again recorded one entry per update -/
theorem one_entry_per_update_after_reset (s : State E) (snaps : List (String → E)) :
    ∀ p ∈ (snaps.foldl onUpdateEnd (History.reset s)).hist, p.2 = snaps.map (fun f => f p.1) :=
  updates_content _ (reset_empties s).1 snaps

/-- non-vacuity: overlapping `addVars` calls (one even re-using a default name), two updates -/
example : after (E := String × Nat) [["a", "b"], ["b", "c", "a"], ["drift"]] [fun n => (n, 1), fun n => (n, 2)]
    = ⟨["a", "b", "c", "drift"],
       [("value", [("value", 1), ("value", 2)]), ("num_instances", [("num_instances", 1), ("num_instances", 2)]),
        ("a", [("a", 1), ("a", 2)]), ("b", [("b", 1), ("b", 2)]), ("c", [("c", 1), ("c", 2)]),
        ("drift", [("drift", 1), ("drift", 2)])]⟩ := by
  simp [after, init, addVars, onUpdateEnd]

/-- Remark (behaviour of the model, not a defect of the statement above): the hypothesis "all
`addVars` calls come first" matters for the *content* part.  `addVars` re-creates the lists of all
additional names empty, so calling it after some updates discards their entries: lists of different
lengths coexist.  (`names_once` — no duplicates — holds for every interleaving.) -/
example : (runOps (E := Nat) [.update (fun _ => 1), .addVars ["a"], .update (fun _ => 2)]).hist
    = [("value", [1, 2]), ("num_instances", [1, 2]), ("drift", [1, 2]), ("a", [2])] := by
  simp [runOps, applyOp, init, addVars, onUpdateEnd]

/-! ### `transparent`: the history never feeds back into the detector -/
section Transparent
variable {S V : Type}

/-- a detector machine with the history callback attached: after every update the callback records
`snap s'` of the new detector state `s'`; a detector reset also resets the history -/
def withHistory (M : Machine S V) (snap : S → String → E) (h0 : State E) : Machine (S × State E) V :=
  C16.observed M h0 (fun h s => onUpdateEnd h (snap s)) History.reset

/-- **transparent**: the detector component of the instrumented run is the run of the bare detector —
for every detector machine, every snapshot function, every initial history, every sequence of updates
and resets.  (Instance of the observer frame lemma `C16.observed_fst`.) -/
theorem transparent (M : Machine S V) (snap : S → String → E) (h0 : State E) (ops : List (Op V)) :
    ((withHistory M snap h0).run ops).1 = M.run ops :=
  C16.observed_fst M h0 _ _ ops

/-- and what is recorded during a block of updates is, for every name, the snapshots of the
successive detector states -/
theorem recorded (M : Machine S V) (snap : S → String → E) (h0 : State E) (s : S) (h : State E)
    (hempty : ∀ p ∈ h.hist, p.2 = []) (vs : List V) :
    ∀ p ∈ ((withHistory M snap h0).runFrom (s, h) (vs.map Op.update)).2.hist,
      p.2 = (C16.states M s vs).map (fun st => snap st p.1) := by
  intro p hp
  unfold withHistory at hp
  rw [C16.observed_runFrom_snd] at hp
  have e : (C16.states M s vs).foldl (fun h s => onUpdateEnd h (snap s)) h
      = ((C16.states M s vs).map snap).foldl onUpdateEnd h := by rw [List.foldl_map]
  rw [e] at hp
  have := updates_content h hempty _ p hp
  rw [this, List.map_map]; rfl

/-- e.g. for the DDM model over any carrier -/
example {α : Type} [Num α] (c : DDM.Cfg α) (snap : DDM.State α → String → E) (ops : List (Op α)) :
    ((withHistory (DDM.machine c) snap init).run ops).1 = (DDM.machine c).run ops :=
  transparent _ snap init ops
end Transparent

/-! ### `ResetStatisticalTest.on_compare_end` -/
section ResetCb
variable {α : Type} [Num α] {S R : Type}

/-- **reset_iff** -/
theorem reset_iff (alpha : α) (pOf : R → α) (reset : S → S) (s : S) (r : R) :
    (Num.le (pOf r) alpha = true → ResetCb.onCompareEnd alpha pOf reset s r = (r, reset s)) ∧
    (Num.le (pOf r) alpha = false → ResetCb.onCompareEnd alpha pOf reset s r = (r, s)) := by
  unfold ResetCb.onCompareEnd
  constructor <;> intro h <;> simp [h]

/-- the decision as one equation -/
theorem onCompareEnd_eq (alpha : α) (pOf : R → α) (reset : S → S) (s : S) (r : R) :
    ResetCb.onCompareEnd alpha pOf reset s r = (r, if Num.le (pOf r) alpha = true then reset s else s) := by
  unfold ResetCb.onCompareEnd; split <;> rfl

/-- the result handed back is always the one computed before the reset -/
theorem result_unchanged (alpha : α) (pOf : R → α) (reset : S → S) (s : S) (r : R) :
    (ResetCb.onCompareEnd alpha pOf reset s r).1 = r := by
  unfold ResetCb.onCompareEnd; split <;> rfl

/-- the state component: `reset s` iff `p ≤ alpha`.  The "only if" needs `reset s ≠ s` (if resetting
is a no-op in state `s`, the two branches are indistinguishable), which is stated explicitly. -/
theorem state_reset_iff (alpha : α) (pOf : R → α) (reset : S → S) (s : S) (r : R) (hne : reset s ≠ s) :
    (ResetCb.onCompareEnd alpha pOf reset s r).2 = reset s ↔ Num.le (pOf r) alpha = true := by
  unfold ResetCb.onCompareEnd
  cases h : Num.le (pOf r) alpha
  · simp [Ne.symm hne]
  · simp

/-- non-vacuity (batch detector, `reset` = unfit): a fitted detector is unfitted iff `p ≤ alpha` -/
example (alpha : α) (pOf : R → α) (r : R) (ref : List Nat × Nat) :
    (ResetCb.onCompareEnd alpha pOf (Batch.reset (D := Nat)) ⟨some ref⟩ r).2 = Batch.reset ⟨some ref⟩
      ↔ Num.le (pOf r) alpha = true :=
  state_reset_iff alpha pOf _ _ r (by simp [Batch.reset])
end ResetCb

end Frouros.C17

#print axioms Frouros.C17.one_entry_per_update
#print axioms Frouros.C17.one_entry_per_update_length
#print axioms Frouros.C17.one_entry_per_update_get
#print axioms Frouros.C17.one_entry_per_update_unique
#print axioms Frouros.C17.one_entry_per_update_after_reset
#print axioms Frouros.C17.names_once
#print axioms Frouros.C17.count_eq_one
#print axioms Frouros.C17.reset_empties
#print axioms Frouros.C17.transparent
#print axioms Frouros.C17.recorded
#print axioms Frouros.C17.reset_iff
#print axioms Frouros.C17.onCompareEnd_eq
#print axioms Frouros.C17.result_unchanged
#print axioms Frouros.C17.state_reset_iff
