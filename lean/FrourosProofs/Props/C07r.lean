/-
  C07r — ROUNDING TRANSFER for the CUSUM family (CUSUM / Page-Hinkley / geometric moving average).

  Model: `CUSUMFam` (`FrourosModel/Change.lean`), `Mean` (`FrourosModel/Stats.lean`).  Companion of `Props/C07.lean`
  (arithmetic theorems at ℝ, control flow at every carrier) and `Props/C07b.lean`.

  WHAT IS PROVED.  Let `α` be ANY carrier with `[Num α]`, `toR : α → ℝ` a value map and `u ≥ 0`, and assume the
  standard model of floating-point arithmetic as an explicit hypothesis `sm : StdModel α toR u`
  (`FrourosProofs/Lemmas/StdModel.lean`: each `+ − * /` returns the exact result times `1+δ`, `|δ| ≤ u`; counters
  `Num.ofNat n` are exact; `<` is the exact order of the represented values).  Run the SAME model code
    * at `α` on a stream `xs : List α` with configuration `c : Cfg α`, and
    * at ℝ on the represented values `xs.map toR` with the represented configuration `cfgR toR c`.
  Then, for every stream, every `t`, all three kinds, and after any history with resets:
    1. `run_err` / `run_err_take` / `run_err_history`:
         `|toR mean_t − mean_t^ℝ| ≤ meanErr u M t`   and   `|toR g_t − g_t^ℝ| ≤ sumErr u M c t`
       whenever `|toR x_i| ≤ M`.  `meanErr`, `sumErr` are explicit recursively defined real functions of
       `(u, M, |alpha|, |1−alpha|, |delta|, t)`; their recursions in the affine form `E' = a·E + b` are
       `meanErr_succ`, `cusumStepErr_affine`, `phStepErr_affine`, `gmaStepErr_affine`; they vanish at `u = 0`, are
       non-negative and monotone in `u`; `meanErr` has the closed forms `meanErr_closed`, `meanErr_closed_frac`
       (`≤ (7+6u+2u²)·M·t·u/(1−t·u)`), at binary64 scale `meanErr_binary64_scale`.
       `run_err_traj` is the sharper variant that uses a bound on the real trajectory instead of the a-priori `gBound`.
    2. `drift_transfer_run` / `drift_transfer` / `drift_transfer_traj` / `drift_transfer_history(_all)`:
       if, once the warm-up is over, `sumErr u M c t < |g_t^ℝ − lambda|`, the verdict `drift` of the `α`-run equals the
       verdict of the ℝ-run.  (The warm-up test `minN ≤ n` is on `Nat` counters and is exact on every carrier.)
       `drift_eq_spec`, `drift_eq_spec_history`: hence the `α`-verdict is given by the textbook recurrence
       `C07.specG` evaluated in exact arithmetic — `C07.model_eq_spec…` transferred to the rounding run.
       `margin_needed_witness`: the margin hypothesis cannot be dropped (a legitimate standard-model carrier on which
       the two verdicts differ at a small margin).  `exact_carrier`: with `u = 0` everything coincides, ties included.

  WHAT THIS DOES AND DOES NOT SAY ABOUT THE REAL float64 CODE.
    * Nothing here is a theorem about Lean's `Float` or about NumPy doubles: `Float` is opaque to the kernel and no
      `StdModel Float …` is claimed, assumed as an axiom, or registered as an instance.  The theorems are implications
      `StdModel α toR u → …` for an abstract carrier.  Their relevance to the Python code rests on the (unproved here,
      textbook) fact that IEEE-754 binary64 with round-to-nearest satisfies the standard model with `u = 2^-53`
      AS LONG AS no operation overflows, produces or consumes a subnormal (underflow), a NaN or an infinity, and the
      sample counter stays below `2^53`.  Those situations are OUTSIDE the model; the theorems are silent about them.
    * "Same stream" means: the stream of doubles the detector actually receives, read as real numbers.  No statement
      is made about decimal inputs before their conversion to doubles; likewise `lambda`, `delta`, `alpha` in the ℝ-run
      are the represented values of the doubles held by the detector (`cfgR`), not the decimal literals in the source.
    * The model follows the association order of the Python expressions literally
      (`((g + x) − mean) − delta`, `alpha*g + ((x − mean) − delta)`, `alpha*g + (1 − alpha)*(x − mean)`,
      `mean + (x − mean)/n`); the bounds depend on that order.
    * The bounds are worst-case forward bounds (every `δ` adversarial), so they are pessimistic.  The
      differential harness's near-tie exclusion (verdicts compared only when the statistic is separated from the
      threshold by a relative margin `1e-9`) is the EMPIRICAL counterpart of the hypothesis
      `sumErr u M c t < |g_t^ℝ − lambda|`: this file proves that SOME margin suffices under the standard model and gives
      an explicit sufficient one; it does not prove that `1e-9` is sufficient for a given stream (evaluate `sumErr`).
-/
import Mathlib.Tactic.Ring
import Mathlib.Tactic.FieldSimp
import Mathlib.Tactic.Linarith
import Mathlib.Tactic.NormNum
import Mathlib.Tactic.Positivity
import FrourosProofs.RealNum
import FrourosProofs.Machines
import FrourosProofs.Lemmas.StdModel
import FrourosProofs.Props.C07

namespace Frouros.C07r
open Frouros CUSUMFam C07 RoundLemmas

/-! ## 0. The bound functions (explicit, recursively defined real functions of `u`, `M`, the configuration and `t`) -/

/-- one step of the running-mean error bound; `n` = number of values AFTER the update, `E` = bound before it -/
noncomputable def meanStepErr (u M : ℝ) (n : ℕ) (E : ℝ) : ℝ :=
  (1 - 1 / (n : ℝ)) * E + u * (M + E) + ((1 + u) ^ 3 - 1) * ((2 * M + E) / (n : ℝ))

/-- bound on `|toR mean_t − mean_t^ℝ|` after `t` updates with `|x_i| ≤ M` -/
noncomputable def meanErr (u M : ℝ) : ℕ → ℝ
  | 0 => 0
  | t + 1 => meanStepErr u M (t + 1) (meanErr u M t)

/-- cusum step: `G` bounds the real statistic before the step, `D` its error, `E` the error of the NEW mean -/
noncomputable def cusumStepErr (u M Δ G D E : ℝ) : ℝ :=
  D + E + u * ((G + D + M) + ((G + D + M) * (1 + u) + (M + E))
    + (((G + D + M) * (1 + u) + (M + E)) * (1 + u) + Δ))

/-- Page-Hinkley step (`a = |alpha|`, `Δ = |delta|`) -/
noncomputable def phStepErr (u M Δ a G D E : ℝ) : ℝ :=
  a * D + E + u * (a * (G + D) + (M + (M + E)) + ((M + (M + E)) * (1 + u) + Δ)
    + (a * (G + D) * (1 + u) + ((M + (M + E)) * (1 + u) + Δ) * (1 + u)))

/-- geometric-moving-average step (`a = |alpha|`, `b = |1 − alpha|`) -/
noncomputable def gmaStepErr (u M a b G D E : ℝ) : ℝ :=
  a * D + b * E + u * (a * (G + D)) + ((1 + u) ^ 3 - 1) * (b * (M + (M + E)))
    + u * (a * (G + D) * (1 + u) + b * (1 + u) * ((M + (M + E)) * (1 + u)) * (1 + u))

noncomputable def sumStepErr (u M : ℝ) (cR : Cfg ℝ) (G D E : ℝ) : ℝ :=
  match cR.kind with
  | .cusum => cusumStepErr u M |cR.delta| G D E
  | .pageHinkley => phStepErr u M |cR.delta| |cR.alpha| G D E
  | .gma => gmaStepErr u M |cR.alpha| |1 - cR.alpha| G D E

/-- a-priori growth of the REAL statistic: `|g_{t+1}^ℝ| ≤ gStep (bound on |g_t^ℝ|)` when `|x|, |mean| ≤ M` -/
noncomputable def gStep (M : ℝ) (cR : Cfg ℝ) (G : ℝ) : ℝ :=
  match cR.kind with
  | .cusum => G + (M + M) + |cR.delta|
  | .pageHinkley => |cR.alpha| * G + (M + M) + |cR.delta|
  | .gma => |cR.alpha| * G + |1 - cR.alpha| * (M + M)

/-- a-priori bound on `|g_t^ℝ|` -/
noncomputable def gBound (M : ℝ) (cR : Cfg ℝ) : ℕ → ℝ
  | 0 => 0
  | t + 1 => gStep M cR (gBound M cR t)

/-- bound on `|toR g_t − g_t^ℝ|` after `t` updates -/
noncomputable def sumErr (u M : ℝ) (cR : Cfg ℝ) : ℕ → ℝ
  | 0 => 0
  | t + 1 => sumStepErr u M cR (gBound M cR t) (sumErr u M cR t) (meanErr u M (t + 1))

/-! ## 1. One-step analyses in pure real arithmetic (the `δ`s are the rounding errors of the individual operations) -/

theorem mean_step_real {u M E μ μ' x N δ1 δ2 δ3 : ℝ} (hN : 1 ≤ N)
    (h1 : |δ1| ≤ u) (h2 : |δ2| ≤ u) (h3 : |δ3| ≤ u) (hx : |x| ≤ M) (hm : |μ'| ≤ M) (he : |μ - μ'| ≤ E) :
    |(μ + (x - μ) * (1 + δ1) / N * (1 + δ2)) * (1 + δ3) - (μ' + (x - μ') / N)| ≤
      (1 - 1 / N) * E + u * (M + E) + ((1 + u) ^ 3 - 1) * ((2 * M + E) / N) := by
  have hNpos : 0 < N := lt_of_lt_of_le one_pos hN
  have hN0 : N ≠ 0 := ne_of_gt hNpos
  have id : (μ + (x - μ) * (1 + δ1) / N * (1 + δ2)) * (1 + δ3) - (μ' + (x - μ') / N)
      = (μ - μ') * (1 - 1 / N) + μ * δ3 + ((x - μ) / N) * ((1 + δ1) * (1 + δ2) * (1 + δ3) - 1) := by
    field_simp
    ring
  rw [id]
  have hμ : |μ| ≤ M + E := abs_le_of_close hm he
  have hxm : |x - μ| ≤ M + (M + E) := abs_sub_le_of hx hμ
  have hA : |(x - μ) / N| ≤ (2 * M + E) / N := by
    rw [abs_div, abs_of_pos hNpos]
    exact div_le_div_of_nonneg_right (by linarith) (le_of_lt hNpos)
  have hc : |1 - 1 / N| ≤ 1 - 1 / N := by
    have : 1 / N ≤ 1 := by rw [div_le_one hNpos]; exact hN
    rw [abs_of_nonneg (by linarith)]
  have t1 := abs_mul_le_of he hc
  have t2 := abs_mul_le_of hμ h3
  have t3 := abs_mul_le_of hA (theta3 h1 h2 h3)
  have := abs_add_le_of (abs_add_le_of t1 t2) t3
  refine le_trans this (le_of_eq ?_)
  ring

theorem cusum_step_real {u M Δ G D E g g' x μ μ' δ1 δ2 δ3 : ℝ}
    (h1 : |δ1| ≤ u) (h2 : |δ2| ≤ u) (h3 : |δ3| ≤ u) (hx : |x| ≤ M) (hm : |μ'| ≤ M)
    (hE : |μ - μ'| ≤ E) (hG : |g'| ≤ G) (hD : |g - g'| ≤ D) :
    |max 0 ((((g + x) * (1 + δ1) - μ) * (1 + δ2) - Δ) * (1 + δ3)) - max 0 (g' + x - μ' - Δ)|
      ≤ cusumStepErr u M |Δ| G D E := by
  refine le_trans (abs_max0_sub_max0 _ _) ?_
  have hg : |g| ≤ G + D := abs_le_of_close hG hD
  have hμ : |μ| ≤ M + E := abs_le_of_close hm hE
  have hs1 : |g + x| ≤ G + D + M := abs_add_le_of hg hx
  have hs1' := abs_mul_le_of hs1 (abs_one_add_le h1)
  have hs2 := abs_sub_le_of hs1' hμ
  have hs2' := abs_mul_le_of hs2 (abs_one_add_le h2)
  have hs3 := abs_sub_le_of hs2' (le_refl |Δ|)
  have id : (((g + x) * (1 + δ1) - μ) * (1 + δ2) - Δ) * (1 + δ3) - (g' + x - μ' - Δ)
      = (g - g') - (μ - μ') + (g + x) * δ1 + ((g + x) * (1 + δ1) - μ) * δ2
        + (((g + x) * (1 + δ1) - μ) * (1 + δ2) - Δ) * δ3 := by ring
  rw [id]
  have t1 := abs_mul_le_of hs1 h1
  have t2 := abs_mul_le_of hs2 h2
  have t3 := abs_mul_le_of hs3 h3
  have := abs_add_le_of (abs_add_le_of (abs_add_le_of (abs_sub_le_of hD hE) t1) t2) t3
  refine le_trans this (le_of_eq ?_)
  simp only [cusumStepErr]
  ring

theorem ph_step_real {u M Δ a G D E g g' x μ μ' δ1 δ2 δ3 δ4 : ℝ}
    (h1 : |δ1| ≤ u) (h2 : |δ2| ≤ u) (h3 : |δ3| ≤ u) (h4 : |δ4| ≤ u) (hx : |x| ≤ M) (hm : |μ'| ≤ M)
    (hE : |μ - μ'| ≤ E) (hG : |g'| ≤ G) (hD : |g - g'| ≤ D) :
    |(a * g * (1 + δ1) + ((x - μ) * (1 + δ2) - Δ) * (1 + δ3)) * (1 + δ4) - (a * g' + x - μ' - Δ)|
      ≤ phStepErr u M |Δ| |a| G D E := by
  have hg : |g| ≤ G + D := abs_le_of_close hG hD
  have hμ : |μ| ≤ M + E := abs_le_of_close hm hE
  have hp1 : |a * g| ≤ |a| * (G + D) := abs_mul_le_of (le_refl |a|) hg
  have hp1' := abs_mul_le_of hp1 (abs_one_add_le h1)
  have hp2 : |x - μ| ≤ M + (M + E) := abs_sub_le_of hx hμ
  have hp2' := abs_mul_le_of hp2 (abs_one_add_le h2)
  have hp3 := abs_sub_le_of hp2' (le_refl |Δ|)
  have hp3' := abs_mul_le_of hp3 (abs_one_add_le h3)
  have hp4 := abs_add_le_of hp1' hp3'
  have id : (a * g * (1 + δ1) + ((x - μ) * (1 + δ2) - Δ) * (1 + δ3)) * (1 + δ4) - (a * g' + x - μ' - Δ)
      = a * (g - g') - (μ - μ') + (a * g) * δ1 + (x - μ) * δ2 + ((x - μ) * (1 + δ2) - Δ) * δ3
        + (a * g * (1 + δ1) + ((x - μ) * (1 + δ2) - Δ) * (1 + δ3)) * δ4 := by ring
  rw [id]
  have t0 : |a * (g - g')| ≤ |a| * D := abs_mul_le_of (le_refl |a|) hD
  have t1 := abs_mul_le_of hp1 h1
  have t2 := abs_mul_le_of hp2 h2
  have t3 := abs_mul_le_of hp3 h3
  have t4 := abs_mul_le_of hp4 h4
  have := abs_add_le_of (abs_add_le_of (abs_add_le_of (abs_add_le_of (abs_sub_le_of t0 hE) t1) t2) t3) t4
  refine le_trans this (le_of_eq ?_)
  simp only [phStepErr]
  ring

theorem gma_step_real {u M a G D E g g' x μ μ' δ1 δ2 δ3 δ4 δ5 : ℝ}
    (h1 : |δ1| ≤ u) (h2 : |δ2| ≤ u) (h3 : |δ3| ≤ u) (h4 : |δ4| ≤ u) (h5 : |δ5| ≤ u)
    (hx : |x| ≤ M) (hm : |μ'| ≤ M) (hE : |μ - μ'| ≤ E) (hG : |g'| ≤ G) (hD : |g - g'| ≤ D) :
    |(a * g * (1 + δ1) + (1 - a) * (1 + δ2) * ((x - μ) * (1 + δ3)) * (1 + δ4)) * (1 + δ5)
        - (a * g' + (1 - a) * (x - μ'))|
      ≤ gmaStepErr u M |a| |1 - a| G D E := by
  have hg : |g| ≤ G + D := abs_le_of_close hG hD
  have hμ : |μ| ≤ M + E := abs_le_of_close hm hE
  have hp1 : |a * g| ≤ |a| * (G + D) := abs_mul_le_of (le_refl |a|) hg
  have hp1' := abs_mul_le_of hp1 (abs_one_add_le h1)
  have hp2 : |x - μ| ≤ M + (M + E) := abs_sub_le_of hx hμ
  have hq2 : |(1 - a) * (x - μ)| ≤ |1 - a| * (M + (M + E)) := abs_mul_le_of (le_refl |1 - a|) hp2
  have hb' := abs_mul_le_of (le_refl |1 - a|) (abs_one_add_le h2)
  have hw' := abs_mul_le_of hp2 (abs_one_add_le h3)
  have ht2 := abs_mul_le_of (abs_mul_le_of hb' hw') (abs_one_add_le h4)
  have hsum := abs_add_le_of hp1' ht2
  have id : (a * g * (1 + δ1) + (1 - a) * (1 + δ2) * ((x - μ) * (1 + δ3)) * (1 + δ4)) * (1 + δ5)
        - (a * g' + (1 - a) * (x - μ'))
      = a * (g - g') - (1 - a) * (μ - μ') + (a * g) * δ1
        + ((1 - a) * (x - μ)) * ((1 + δ2) * (1 + δ3) * (1 + δ4) - 1)
        + (a * g * (1 + δ1) + (1 - a) * (1 + δ2) * ((x - μ) * (1 + δ3)) * (1 + δ4)) * δ5 := by ring
  rw [id]
  have t0 : |a * (g - g')| ≤ |a| * D := abs_mul_le_of (le_refl |a|) hD
  have t0' : |(1 - a) * (μ - μ')| ≤ |1 - a| * E := abs_mul_le_of (le_refl |1 - a|) hE
  have t1 := abs_mul_le_of hp1 h1
  have t2 := abs_mul_le_of hq2 (theta3 h2 h3 h4)
  have t3 := abs_mul_le_of hsum h5
  have := abs_add_le_of (abs_add_le_of (abs_add_le_of (abs_sub_le_of t0 t0') t1) t2) t3
  refine le_trans this (le_of_eq ?_)
  simp only [gmaStepErr]
  ring

/-! ## 2. One step of the MODEL at an abstract rounding carrier versus the same step at ℝ -/

section Carrier
variable {α : Type} [Num α] {toR : α → ℝ} {u : ℝ}

/-- the configuration of the ℝ-run: the same constants, read through `toR` -/
def cfgR (toR : α → ℝ) (c : Cfg α) : Cfg ℝ := ⟨c.kind, toR c.lambda, toR c.delta, toR c.alpha, c.minN⟩

/-- **running mean, one step.**  `mean += (x − mean)/n` evaluated with three roundings (`−`, `/`, `+`). -/
theorem mean_step_err {M E : ℝ} (sm : StdModel α toR u) (s : Mean α) (r : Mean ℝ) (v : α) (hn : s.n = r.n)
    (hx : |toR v| ≤ M) (hm : |r.mean| ≤ M) (he : |toR s.mean - r.mean| ≤ E) :
    |toR (s.update v).mean - (r.update (toR v)).mean| ≤ meanStepErr u M (s.n + 1) E := by
  have hnR : toR (Num.ofNat (s.n + 1)) = ((s.n + 1 : ℕ) : ℝ) := sm.ofNat _
  have hN : (1 : ℝ) ≤ ((s.n + 1 : ℕ) : ℝ) := by
    have : 1 ≤ s.n + 1 := by omega
    exact_mod_cast this
  have hn0 : toR (Num.ofNat (s.n + 1)) ≠ 0 := by rw [hnR]; linarith
  obtain ⟨δ1, h1, e1⟩ := sm.sub v s.mean
  obtain ⟨δ2, h2, e2⟩ := sm.div (v - s.mean) (Num.ofNat (s.n + 1)) hn0
  obtain ⟨δ3, h3, e3⟩ := sm.add s.mean ((v - s.mean) / Num.ofNat (s.n + 1))
  simp only [Mean.update, RealNum.ofNat_eq, meanStepErr]
  rw [e3, e2, e1, hnR, ← hn]
  exact mean_step_real hN h1 h2 h3 hx hm he

/-- **statistic, one step, all three kinds.**  `g, m, v` are the carrier values (`m` = the NEW mean), `g', m'` the
real ones; `G` bounds `|g'|`, `D` the error of `g`, `E` the error of `m`. -/
theorem updateSum_err {M E G D : ℝ} (sm : StdModel α toR u) (c : Cfg α) (g m v : α) (g' m' : ℝ)
    (hx : |toR v| ≤ M) (hm : |m'| ≤ M) (hE : |toR m - m'| ≤ E) (hG : |g'| ≤ G) (hD : |toR g - g'| ≤ D) :
    |toR (updateSum c g m v) - updateSum (cfgR toR c) g' m' (toR v)| ≤ sumStepErr u M (cfgR toR c) G D E := by
  rw [updateSum_eq_specStep]
  obtain ⟨kind, lam, del, al, minN⟩ := c
  cases kind with
  | cusum =>
    simp only [updateSum, specStep, cfgR, sumStepErr]
    obtain ⟨δ1, h1, e1⟩ := sm.add g v
    obtain ⟨δ2, h2, e2⟩ := sm.sub (g + v) m
    obtain ⟨δ3, h3, e3⟩ := sm.sub (g + v - m) del
    rw [sm.max0, e3, e2, e1]
    exact cusum_step_real h1 h2 h3 hx hm hE hG hD
  | pageHinkley =>
    simp only [updateSum, specStep, cfgR, sumStepErr]
    obtain ⟨δ1, h1, e1⟩ := sm.mul al g
    obtain ⟨δ2, h2, e2⟩ := sm.sub v m
    obtain ⟨δ3, h3, e3⟩ := sm.sub (v - m) del
    obtain ⟨δ4, h4, e4⟩ := sm.add (al * g) (v - m - del)
    rw [e4, e3, e2, e1]
    exact ph_step_real h1 h2 h3 h4 hx hm hE hG hD
  | gma =>
    simp only [updateSum, specStep, cfgR, sumStepErr]
    obtain ⟨δ1, h1, e1⟩ := sm.mul al g
    obtain ⟨δ2, h2, e2⟩ := sm.sub Num.one al
    obtain ⟨δ3, h3, e3⟩ := sm.sub v m
    obtain ⟨δ4, h4, e4⟩ := sm.mul (Num.one - al) (v - m)
    obtain ⟨δ5, h5, e5⟩ := sm.add (al * g) ((Num.one - al) * (v - m))
    rw [e5, e4, e3, e2, e1, sm.one]
    exact gma_step_real h1 h2 h3 h4 h5 hx hm hE hG hD

end Carrier

/-! ## 3. A-priori bounds on the REAL run -/

/-- the real running mean of values in `[-M, M]` stays in `[-M, M]` (it is a convex combination) -/
theorem real_mean_bound {M : ℝ} (hM : 0 ≤ M) (ys : List ℝ) (h : ∀ y ∈ ys, |y| ≤ M) : |(meanL ys).mean| ≤ M := by
  induction ys using List.reverseRecOn with
  | nil => simpa [Mean.init] using hM
  | append_singleton ys y ih =>
    have ih' := ih (fun z hz => h z (by simp [hz]))
    have hy := h y (by simp)
    rw [meanL_snoc]
    simp only [Mean.update, RealNum.ofNat_eq]
    have hN : (1 : ℝ) ≤ (((meanL ys).n + 1 : ℕ) : ℝ) := by
      have : 1 ≤ (meanL ys).n + 1 := by omega
      exact_mod_cast this
    generalize (((meanL ys).n + 1 : ℕ) : ℝ) = N at hN
    generalize (meanL ys).mean = μ at ih'
    have hNpos : 0 < N := by linarith
    have ht0 : 0 ≤ 1 / N := by positivity
    have ht1 : 1 / N ≤ 1 := by rw [div_le_one hNpos]; exact hN
    have e : μ + (y - μ) / N = (1 - 1 / N) * μ + (1 / N) * y := by field_simp; ring
    rw [e]
    rw [abs_le] at *
    constructor
    · nlinarith [mul_nonneg (sub_nonneg.mpr ht1) (by linarith [ih'.1] : 0 ≤ μ + M), mul_nonneg ht0 (by linarith [hy.1] : 0 ≤ y + M)]
    · nlinarith [mul_nonneg (sub_nonneg.mpr ht1) (by linarith [ih'.2] : 0 ≤ M - μ), mul_nonneg ht0 (by linarith [hy.2] : 0 ≤ M - y)]

theorem specStep_bound {M G g m x : ℝ} (cR : Cfg ℝ) (hg : |g| ≤ G) (hm : |m| ≤ M) (hx : |x| ≤ M) :
    |specStep cR g m x| ≤ gStep M cR G := by
  unfold specStep gStep
  cases cR.kind with
  | cusum =>
    simp only []
    have h := abs_sub_le_of (abs_sub_le_of (abs_add_le_of hg hx) hm) (le_refl |cR.delta|)
    have h0 : (0 : ℝ) ≤ G + M + M + |cR.delta| := le_trans (abs_nonneg _) h
    rw [abs_le] at h ⊢
    constructor
    · have := le_max_left 0 (g + x - m - cR.delta); linarith
    · have := max_le h0 h.2; linarith
  | pageHinkley =>
    simp only []
    have h := abs_sub_le_of (abs_sub_le_of (abs_add_le_of (abs_mul_le_of (le_refl |cR.alpha|) hg) hx) hm)
      (le_refl |cR.delta|)
    linarith
  | gma =>
    simp only []
    exact abs_add_le_of (abs_mul_le_of (le_refl |cR.alpha|) hg)
      (abs_mul_le_of (le_refl |1 - cR.alpha|) (abs_sub_le_of hx hm))

/-- `|g_t^ℝ| ≤ gBound M c t` -/
theorem real_sum_bound {M : ℝ} (hM : 0 ≤ M) (cR : Cfg ℝ) (ys : List ℝ) (h : ∀ y ∈ ys, |y| ≤ M) :
    |(runL cR ys).sum| ≤ gBound M cR ys.length := by
  induction ys using List.reverseRecOn with
  | nil => simp [init, gBound]
  | append_singleton ys y ih =>
    have ih' := ih (fun z hz => h z (by simp [hz]))
    have hy := h y (by simp)
    have hm : |((runL cR ys).mean.update y).mean| ≤ M := by
      rw [run_mean, ← meanL_snoc]; exact real_mean_bound hM _ h
    rw [runL_snoc, step_sum, List.length_append, List.length_singleton]
    exact specStep_bound cR ih' hm hy

/-! ## 4. Forward error bound for the whole run -/

section Carrier
variable {α : Type} [Num α] {toR : α → ℝ} {u : ℝ}

omit [Num α] in
theorem map_bound {M : ℝ} {xs : List α} (hM : ∀ x ∈ xs, |toR x| ≤ M) : ∀ y ∈ xs.map toR, |y| ≤ M := by
  intro y hy
  obtain ⟨z, hz, rfl⟩ := List.mem_map.mp hy
  exact hM z hz

/-- **run_err** (forward error bound, every stream, every `t = xs.length`, all three kinds).
Run the detector on the carrier values `xs` at the rounding carrier `α` and on the represented reals
`xs.map toR` at ℝ, with the same configuration read through `toR`.  If every `|toR x_i| ≤ M` then

* `|toR mean_t − mean_t^ℝ| ≤ meanErr u M t`,
* `|toR g_t − g_t^ℝ| ≤ sumErr u M c t`.

No hypothesis besides the standard model and the bound `M`; in particular none on `u` beyond `0 ≤ u`
(part of `StdModel`), none on `alpha`, `delta`, `lambda`. -/
theorem run_err {M : ℝ} (sm : StdModel α toR u) (c : Cfg α) (xs : List α) (hM : ∀ x ∈ xs, |toR x| ≤ M) :
    |toR (runL c xs).mean.mean - (runL (cfgR toR c) (xs.map toR)).mean.mean| ≤ meanErr u M xs.length ∧
    |toR (runL c xs).sum - (runL (cfgR toR c) (xs.map toR)).sum| ≤ sumErr u M (cfgR toR c) xs.length := by
  induction xs using List.reverseRecOn with
  | nil => simp [init, Mean.init, meanErr, sumErr, sm.zero]
  | append_singleton xs x ih =>
    have hM' : ∀ z ∈ xs, |toR z| ≤ M := fun z hz => hM z (by simp [hz])
    obtain ⟨ihm, ihs⟩ := ih hM'
    have hx := hM x (by simp)
    have hM0 : 0 ≤ M := le_trans (abs_nonneg _) hx
    have hrm : |(runL (cfgR toR c) (xs.map toR)).mean.mean| ≤ M := by
      rw [run_mean]; exact real_mean_bound hM0 _ (map_bound hM')
    have hrm' : |((runL (cfgR toR c) (xs.map toR)).mean.update (toR x)).mean| ≤ M := by
      rw [run_mean, ← meanL_snoc]
      have := real_mean_bound hM0 _ (map_bound hM)
      rwa [List.map_append, List.map_singleton] at this
    have hG := real_sum_bound hM0 (cfgR toR c) (xs.map toR) (map_bound hM')
    rw [List.length_map] at hG
    have hn : (runL c xs).mean.n = (runL (cfgR toR c) (xs.map toR)).mean.n := by
      rw [run_mean, run_mean, mean_run_n, mean_run_n, List.length_map]
    have hsn : (runL c xs).mean.n = xs.length := by rw [run_mean, mean_run_n]
    have hm' := mean_step_err sm (runL c xs).mean (runL (cfgR toR c) (xs.map toR)).mean x hn hx hrm ihm
    rw [hsn] at hm'
    rw [List.map_append, List.map_singleton, runL_snoc, runL_snoc, List.length_append, List.length_singleton]
    refine ⟨hm', ?_⟩
    exact updateSum_err sm c (runL c xs).sum ((runL c xs).mean.update x).mean x
      (runL (cfgR toR c) (xs.map toR)).sum ((runL (cfgR toR c) (xs.map toR)).mean.update (toR x)).mean
      hx hrm' hm' hG ihs

/-- the same bound at every step `t` of a stream (prefix form) -/
theorem run_err_take {M : ℝ} (sm : StdModel α toR u) (c : Cfg α) (xs : List α) (hM : ∀ x ∈ xs, |toR x| ≤ M)
    (t : ℕ) (ht : t ≤ xs.length) :
    |toR (runL c (xs.take t)).mean.mean - (runL (cfgR toR c) ((xs.map toR).take t)).mean.mean| ≤ meanErr u M t ∧
    |toR (runL c (xs.take t)).sum - (runL (cfgR toR c) ((xs.map toR).take t)).sum| ≤ sumErr u M (cfgR toR c) t := by
  have h := run_err sm c (xs.take t) (fun x hx => hM x (List.mem_of_mem_take hx))
  rw [List.length_take, Nat.min_eq_left ht, List.map_take] at h
  exact h

/-- the statistic of the rounding run against the TEXTBOOK recurrence `C07.specG` evaluated in exact arithmetic -/
theorem run_err_spec {M : ℝ} (sm : StdModel α toR u) (c : Cfg α) (xs : List α) (hM : ∀ x ∈ xs, |toR x| ≤ M) :
    |toR (runL c xs).sum - specG (cfgR toR c) (xs.map toR)| ≤ sumErr u M (cfgR toR c) xs.length := by
  rw [← run_sum]; exact (run_err sm c xs hM).2

/-! ## 5. Transfer of the verdict -/

/-- if `a` is within `E` of `b` and `b` is farther than `E` from the threshold, `a` and `b` are on the same side -/
theorem side_of_close {a b l E : ℝ} (h : |a - b| ≤ E) (hsep : E < |b - l|) : (l < a ↔ l < b) := by
  rw [abs_le] at h
  rcases le_total 0 (b - l) with hb | hb
  · rw [abs_of_nonneg hb] at hsep
    constructor <;> intro _ <;> linarith [h.1, h.2]
  · rw [abs_of_nonpos hb] at hsep
    constructor <;> intro _ <;> linarith [h.1, h.2]

/-- (every carrier) the flag after a non-empty run -/
theorem run_drift_snoc {β : Type} [Num β] (c : Cfg β) (xs : List β) (x : β) :
    (runL c (xs ++ [x])).drift =
      (decide (c.minN ≤ (xs ++ [x]).length) && Num.gt (runL c (xs ++ [x])).sum c.lambda) := by
  rw [runL_snoc, List.length_append, List.length_singleton, ← run_n c xs]; rfl

/-- core of the transfer: ANY valid error bound `E` on the statistic that is smaller than the real margin
transfers the verdict -/
theorem drift_of_sum_err {E : ℝ} (sm : StdModel α toR u) (c : Cfg α) (xs : List α)
    (herr : |toR (runL c xs).sum - (runL (cfgR toR c) (xs.map toR)).sum| ≤ E)
    (hsep : c.minN ≤ xs.length → E < |(runL (cfgR toR c) (xs.map toR)).sum - toR c.lambda|) :
    (runL c xs).drift = (runL (cfgR toR c) (xs.map toR)).drift := by
  induction xs using List.reverseRecOn with
  | nil => rfl
  | append_singleton ys y _ =>
    have hd1 := run_drift_snoc c ys y
    have hd2 := run_drift_snoc (cfgR toR c) (ys.map toR) (toR y)
    rw [← List.map_singleton, ← List.map_append] at hd2
    rw [hd1, hd2, List.length_map]
    by_cases hmin : c.minN ≤ (ys ++ [y]).length
    · have hside := side_of_close herr (hsep hmin)
      have hminR : (cfgR toR c).minN ≤ (ys ++ [y]).length := hmin
      rw [decide_eq_true hmin, decide_eq_true hminR, Bool.true_and, Bool.true_and, Bool.eq_iff_iff, sm.gt,
        RealNum.gt_iff]
      exact hside
    · have hminR : ¬ (cfgR toR c).minN ≤ (ys ++ [y]).length := hmin
      rw [decide_eq_false hmin, decide_eq_false hminR, Bool.false_and, Bool.false_and]

/-- **drift_transfer_run** (the transfer theorem, whole-prefix form).
If, once the warm-up is over (`minN ≤ t`; the warm-up test is on integer counters and is exact on every carrier),
the REAL statistic is separated from the threshold by more than the error bound,
`sumErr u M c t < |g_t^ℝ − lambda|`, then the verdict of the rounding run equals the verdict of the real run. -/
theorem drift_transfer_run {M : ℝ} (sm : StdModel α toR u) (c : Cfg α) (xs : List α)
    (hM : ∀ x ∈ xs, |toR x| ≤ M)
    (hsep : c.minN ≤ xs.length →
      sumErr u M (cfgR toR c) xs.length < |(runL (cfgR toR c) (xs.map toR)).sum - toR c.lambda|) :
    (runL c xs).drift = (runL (cfgR toR c) (xs.map toR)).drift :=
  drift_of_sum_err sm c xs (run_err sm c xs hM).2 hsep

/-- **drift_transfer** (at every step `t` of every stream). -/
theorem drift_transfer {M : ℝ} (sm : StdModel α toR u) (c : Cfg α) (xs : List α) (hM : ∀ x ∈ xs, |toR x| ≤ M)
    (t : ℕ) (ht : t ≤ xs.length)
    (hsep : c.minN ≤ t →
      sumErr u M (cfgR toR c) t < |(runL (cfgR toR c) ((xs.map toR).take t)).sum - toR c.lambda|) :
    (runL c (xs.take t)).drift = (runL (cfgR toR c) ((xs.map toR).take t)).drift := by
  have hlen : (xs.take t).length = t := by rw [List.length_take, Nat.min_eq_left ht]
  have h := drift_transfer_run sm c (xs.take t) (fun x hx => hM x (List.mem_of_mem_take hx))
  rw [hlen, List.map_take] at h
  exact h hsep

/-- **Corollary (transfer of `C07.model_eq_spec`).**  On a stream whose margin at step `t` exceeds the bound, the
verdict of the ROUNDING run is decided by the textbook recurrence evaluated in EXACT arithmetic on the
represented values: `drift_t = (1 ≤ t ∧ minN ≤ t ∧ lambda < g_t)` with `g_t = C07.specG`. -/
theorem drift_eq_spec {M : ℝ} (sm : StdModel α toR u) (c : Cfg α) (xs : List α) (hM : ∀ x ∈ xs, |toR x| ≤ M)
    (t : ℕ) (ht : t ≤ xs.length)
    (hsep : c.minN ≤ t →
      sumErr u M (cfgR toR c) t < |specG (cfgR toR c) ((xs.map toR).take t) - toR c.lambda|) :
    (runL c (xs.take t)).drift
      = decide (1 ≤ t ∧ c.minN ≤ t ∧ toR c.lambda < specG (cfgR toR c) ((xs.map toR).take t)) := by
  have ht' : t ≤ (xs.map toR).length := by rw [List.length_map]; exact ht
  rw [drift_transfer sm c xs hM t ht (by rw [run_sum]; exact hsep)]
  exact (model_eq_spec (cfgR toR c) (xs.map toR) t ht').2.2.2.2

/-! ### histories with resets -/

/-- a history of carrier values read through `toR` -/
def opR (toR : α → ℝ) : Op α → Op ℝ
  | .update v => .update (toR v)
  | .reset => .reset

omit [Num α] in
theorem sinceReset_map (ops : List (Op α)) :
    sinceReset (ops.map (opR toR)) = (sinceReset ops).map toR := by
  induction ops using List.reverseRecOn with
  | nil => rfl
  | append_singleton ops op ih =>
    rw [List.map_append, List.map_singleton]
    cases op with
    | update v =>
      simp only [opR]
      rw [sinceReset_snoc_update, sinceReset_snoc_update, ih, List.map_append, List.map_singleton]
    | reset =>
      simp only [opR]
      rw [sinceReset_snoc_reset, sinceReset_snoc_reset]; rfl

/-- **run_err_history.**  After ANY history (updates and resets interleaved arbitrarily) the error bound holds with
`t` = number of updates since the last reset, and `M` only has to bound the values since the last reset
(`reset` restores `init` exactly on every carrier, so rounding errors do not survive a reset). -/
theorem run_err_history {M : ℝ} (sm : StdModel α toR u) (c : Cfg α) (ops : List (Op α))
    (hM : ∀ x ∈ sinceReset ops, |toR x| ≤ M) :
    |toR ((CUSUMFam.machine c).run ops).mean.mean
        - ((CUSUMFam.machine (cfgR toR c)).run (ops.map (opR toR))).mean.mean| ≤ meanErr u M (sinceReset ops).length ∧
    |toR ((CUSUMFam.machine c).run ops).sum
        - ((CUSUMFam.machine (cfgR toR c)).run (ops.map (opR toR))).sum|
      ≤ sumErr u M (cfgR toR c) (sinceReset ops).length := by
  rw [run_history, run_history, sinceReset_map]
  exact run_err sm c _ hM

/-- **drift_transfer_history.**  The transfer theorem after any history with resets. -/
theorem drift_transfer_history {M : ℝ} (sm : StdModel α toR u) (c : Cfg α) (ops : List (Op α))
    (hM : ∀ x ∈ sinceReset ops, |toR x| ≤ M)
    (hsep : c.minN ≤ (sinceReset ops).length →
      sumErr u M (cfgR toR c) (sinceReset ops).length
        < |((CUSUMFam.machine (cfgR toR c)).run (ops.map (opR toR))).sum - toR c.lambda|) :
    ((CUSUMFam.machine c).run ops).drift = ((CUSUMFam.machine (cfgR toR c)).run (ops.map (opR toR))).drift := by
  rw [run_history, run_history, sinceReset_map] at *
  exact drift_transfer_run sm c _ hM hsep

/-- the whole verdict SEQUENCE of a history: if the margin condition holds after every prefix of the history, the
rounding detector and the real detector raise exactly the same alarms at exactly the same places -/
theorem drift_transfer_history_all {M : ℝ} (sm : StdModel α toR u) (c : Cfg α) (ops : List (Op α))
    (hM : ∀ k, ∀ x ∈ sinceReset (ops.take k), |toR x| ≤ M)
    (hsep : ∀ k, c.minN ≤ (sinceReset (ops.take k)).length →
      sumErr u M (cfgR toR c) (sinceReset (ops.take k)).length
        < |((CUSUMFam.machine (cfgR toR c)).run ((ops.map (opR toR)).take k)).sum - toR c.lambda|) :
    ∀ k, ((CUSUMFam.machine c).run (ops.take k)).drift
      = ((CUSUMFam.machine (cfgR toR c)).run ((ops.map (opR toR)).take k)).drift := by
  intro k
  have h := drift_transfer_history sm c (ops.take k) (hM k)
  rw [List.map_take] at h
  exact h (hsep k)

/-- the textbook recurrence decides the rounding verdict after any history (transfer of
`C07.model_eq_spec_history`) -/
theorem drift_eq_spec_history {M : ℝ} (sm : StdModel α toR u) (c : Cfg α) (ops : List (Op α))
    (hM : ∀ x ∈ sinceReset ops, |toR x| ≤ M)
    (hsep : c.minN ≤ (sinceReset ops).length →
      sumErr u M (cfgR toR c) (sinceReset ops).length
        < |specG (cfgR toR c) ((sinceReset ops).map toR) - toR c.lambda|) :
    ((CUSUMFam.machine c).run ops).drift
      = decide (sinceReset ops ≠ [] ∧ c.minN ≤ (sinceReset ops).length ∧
          toR c.lambda < specG (cfgR toR c) ((sinceReset ops).map toR)) := by
  rw [run_history]
  rw [drift_transfer_run sm c _ hM (by rw [run_sum]; exact hsep), run_drift, List.length_map]
  have hne : (List.map toR (sinceReset ops) ≠ []) ↔ sinceReset ops ≠ [] := by simp
  rw [decide_eq_decide, hne]
  exact Iff.rfl

end Carrier

/-! ## 6. Facts about the bound functions -/

/-- the recursion of `meanErr` in the affine form `E (t+1) = a_t · E t + b_t` -/
theorem meanErr_succ (u M : ℝ) (t : ℕ) :
    meanErr u M (t + 1) =
      (1 - 1 / ((t + 1 : ℕ) : ℝ) + u + ((1 + u) ^ 3 - 1) / ((t + 1 : ℕ) : ℝ)) * meanErr u M t
        + (u + 2 * ((1 + u) ^ 3 - 1) / ((t + 1 : ℕ) : ℝ)) * M := by
  rw [meanErr, meanStepErr]; ring

/-- the three statistic steps in the affine form `D' = a · D + b` (`D` = incoming error of the statistic, `E` = error of
the new mean, `G` = bound on the real statistic): the error is amplified by one `(1+u)` per operation the old statistic
passes through (3 for cusum, 2 for the other two, times `|alpha|`) and each magnitude that is rounded contributes
`(1+u)^k − 1` times its size. -/
theorem cusumStepErr_affine (u M Δ G D E : ℝ) :
    cusumStepErr u M Δ G D E =
      (1 + u) ^ 3 * D + ((1 + u) ^ 2 * E + ((1 + u) ^ 3 - 1) * (G + M) + ((1 + u) ^ 2 - 1) * M + u * Δ) := by
  unfold cusumStepErr; ring

theorem phStepErr_affine (u M Δ a G D E : ℝ) :
    phStepErr u M Δ a G D E =
      (1 + u) ^ 2 * a * D + ((1 + u) ^ 3 * E + ((1 + u) ^ 2 - 1) * a * G + ((1 + u) ^ 3 - 1) * (2 * M)
        + ((1 + u) ^ 2 - 1) * Δ) := by
  unfold phStepErr; ring

theorem gmaStepErr_affine (u M a b G D E : ℝ) :
    gmaStepErr u M a b G D E =
      (1 + u) ^ 2 * a * D + ((1 + u) ^ 4 * b * E + ((1 + u) ^ 2 - 1) * a * G + ((1 + u) ^ 4 - 1) * b * (2 * M)) := by
  unfold gmaStepErr; ring

/-- with exact arithmetic (`u = 0`) the bounds vanish -/
theorem meanErr_zero_u (M : ℝ) (t : ℕ) : meanErr 0 M t = 0 := by
  induction t with
  | zero => rfl
  | succ t ih => rw [meanErr, ih]; simp [meanStepErr]

theorem sumErr_zero_u (M : ℝ) (cR : Cfg ℝ) (t : ℕ) : sumErr 0 M cR t = 0 := by
  induction t with
  | zero => rfl
  | succ t ih =>
    rw [sumErr, ih, meanErr_zero_u]
    unfold sumStepErr
    cases cR.kind <;> simp [cusumStepErr, phStepErr, gmaStepErr]

theorem one_sub_inv_nonneg (n : ℕ) (hn : 1 ≤ n) : (0 : ℝ) ≤ 1 - 1 / (n : ℝ) := by
  have h1 : (1 : ℝ) ≤ (n : ℝ) := by exact_mod_cast hn
  have : 1 / (n : ℝ) ≤ 1 := by rw [div_le_one (by linarith)]; exact h1
  linarith

/-- the step functions are monotone in the roundoff and in the incoming errors -/
theorem meanStepErr_mono {u u' M E E' : ℝ} {n : ℕ} (hn : 1 ≤ n) (hu : 0 ≤ u) (huu : u ≤ u') (hM : 0 ≤ M)
    (hE : 0 ≤ E) (hEE : E ≤ E') : meanStepErr u M n E ≤ meanStepErr u' M n E' := by
  have h1 := one_sub_inv_nonneg n hn
  have hn0 : (0 : ℝ) < (n : ℝ) := by exact_mod_cast hn
  have hγ : (0 : ℝ) ≤ (1 + u) ^ 3 - 1 := by
    have : (1 : ℝ) ≤ (1 + u) ^ 3 := one_le_pow₀ (by linarith)
    linarith
  have hu' : 0 ≤ u' := le_trans hu huu
  have hE' : 0 ≤ E' := le_trans hE hEE
  have hγ' : (0 : ℝ) ≤ (1 + u') ^ 3 - 1 := by
    have : (1 : ℝ) ≤ (1 + u') ^ 3 := one_le_pow₀ (by linarith)
    linarith
  unfold meanStepErr
  gcongr

theorem meanErr_nonneg {u M : ℝ} (hu : 0 ≤ u) (hM : 0 ≤ M) (t : ℕ) : 0 ≤ meanErr u M t := by
  induction t with
  | zero => exact le_refl _
  | succ t ih =>
    have h1 := one_sub_inv_nonneg (t + 1) (by omega)
    have hγ : (0 : ℝ) ≤ (1 + u) ^ 3 - 1 := by
      have : (1 : ℝ) ≤ (1 + u) ^ 3 := one_le_pow₀ (by linarith)
      linarith
    rw [meanErr, meanStepErr]
    positivity

/-- `meanErr` is monotone in the unit roundoff -/
theorem meanErr_mono_u {u u' M : ℝ} (hu : 0 ≤ u) (huu : u ≤ u') (hM : 0 ≤ M) (t : ℕ) :
    meanErr u M t ≤ meanErr u' M t := by
  induction t with
  | zero => exact le_refl _
  | succ t ih =>
    rw [meanErr, meanErr]
    exact meanStepErr_mono (by omega) hu huu hM (meanErr_nonneg hu hM t) ih

theorem gBound_nonneg {M : ℝ} (hM : 0 ≤ M) (cR : Cfg ℝ) (t : ℕ) : 0 ≤ gBound M cR t := by
  induction t with
  | zero => exact le_refl _
  | succ t ih =>
    rw [gBound]; unfold gStep
    cases cR.kind <;> simp only [] <;> positivity

theorem sumStepErr_mono {u u' M G D D' E E' : ℝ} (cR : Cfg ℝ) (hu : 0 ≤ u) (huu : u ≤ u') (hM : 0 ≤ M)
    (hG : 0 ≤ G) (hD : 0 ≤ D) (hDD : D ≤ D') (hE : 0 ≤ E) (hEE : E ≤ E') :
    sumStepErr u M cR G D E ≤ sumStepErr u' M cR G D' E' := by
  have hγ : (0 : ℝ) ≤ (1 + u) ^ 3 - 1 := by
    have : (1 : ℝ) ≤ (1 + u) ^ 3 := one_le_pow₀ (by linarith)
    linarith
  have hu' : 0 ≤ u' := le_trans hu huu
  have hD' : 0 ≤ D' := le_trans hD hDD
  have hE' : 0 ≤ E' := le_trans hE hEE
  have hγ' : (0 : ℝ) ≤ (1 + u') ^ 3 - 1 := by
    have : (1 : ℝ) ≤ (1 + u') ^ 3 := one_le_pow₀ (by linarith)
    linarith
  unfold sumStepErr
  cases cR.kind with
  | cusum => simp only [cusumStepErr]; gcongr
  | pageHinkley => simp only [phStepErr]; gcongr
  | gma => simp only [gmaStepErr]; gcongr

theorem sumStepErr_nonneg {u M G D E : ℝ} (cR : Cfg ℝ) (hu : 0 ≤ u) (hM : 0 ≤ M)
    (hG : 0 ≤ G) (hD : 0 ≤ D) (hE : 0 ≤ E) : 0 ≤ sumStepErr u M cR G D E := by
  have hγ : (0 : ℝ) ≤ (1 + u) ^ 3 - 1 := by
    have : (1 : ℝ) ≤ (1 + u) ^ 3 := one_le_pow₀ (by linarith)
    linarith
  unfold sumStepErr
  cases cR.kind with
  | cusum => simp only [cusumStepErr]; positivity
  | pageHinkley => simp only [phStepErr]; positivity
  | gma => simp only [gmaStepErr]; positivity

theorem sumErr_nonneg {u M : ℝ} (hu : 0 ≤ u) (hM : 0 ≤ M) (cR : Cfg ℝ) (t : ℕ) : 0 ≤ sumErr u M cR t := by
  induction t with
  | zero => exact le_refl _
  | succ t ih =>
    rw [sumErr]
    exact sumStepErr_nonneg cR hu hM (gBound_nonneg hM cR t) ih (meanErr_nonneg hu hM _)

/-- `sumErr` is monotone in the unit roundoff: a bound computed for a pessimistic `u'` is valid for every smaller
`u` -/
theorem sumErr_mono_u {u u' M : ℝ} (hu : 0 ≤ u) (huu : u ≤ u') (hM : 0 ≤ M) (cR : Cfg ℝ) (t : ℕ) :
    sumErr u M cR t ≤ sumErr u' M cR t := by
  induction t with
  | zero => exact le_refl _
  | succ t ih =>
    rw [sumErr, sumErr]
    exact sumStepErr_mono cR hu huu hM (gBound_nonneg hM cR t) (sumErr_nonneg hu hM cR t) ih
      (meanErr_nonneg hu hM _) (meanErr_mono_u hu huu hM _)

/-- **closed form for the running mean.**  For `(1+u)^3 ≤ 2` (true for `u ≤ 1/4`, in particular for `2^-53`):
`meanErr u M t ≤ (7 + 6u + 2u²) · M · ((1+u)^t − 1)`  (`≈ 7·t·u·M` while `t·u ≪ 1`). -/
theorem meanErr_closed {u M : ℝ} (hu : 0 ≤ u) (hu3 : (1 + u) ^ 3 ≤ 2) (hM : 0 ≤ M) (t : ℕ) :
    meanErr u M t ≤ (7 + 6 * u + 2 * u ^ 2) * M * ((1 + u) ^ t - 1) := by
  induction t with
  | zero => simp [meanErr]
  | succ t ih =>
    have hE := meanErr_nonneg hu hM t
    have hN : (1 : ℝ) ≤ ((t + 1 : ℕ) : ℝ) := by
      have : 1 ≤ t + 1 := by omega
      exact_mod_cast this
    have hNpos : (0 : ℝ) < ((t + 1 : ℕ) : ℝ) := by linarith
    have hγ0 : (0 : ℝ) ≤ (1 + u) ^ 3 - 1 := by
      have : (1 : ℝ) ≤ (1 + u) ^ 3 := one_le_pow₀ (by linarith)
      linarith
    have hγ1 : (1 + u) ^ 3 - 1 ≤ 1 := by linarith
    -- step inequality: E' ≤ (1+u) E + (u + 2γ) M
    have hstep : meanErr u M (t + 1) ≤ (1 + u) * meanErr u M t + (u + 2 * ((1 + u) ^ 3 - 1)) * M := by
      rw [meanErr, meanStepErr]
      generalize ((t + 1 : ℕ) : ℝ) = N at hN hNpos
      generalize meanErr u M t = E at hE
      generalize (1 + u) ^ 3 - 1 = γ at hγ0 hγ1
      have hinv0 : 0 ≤ 1 / N := by positivity
      have hinv1 : 1 / N ≤ 1 := by rw [div_le_one hNpos]; exact hN
      have e : (2 * M + E) / N = (1 / N) * (2 * M + E) := by ring
      rw [e]
      nlinarith [mul_nonneg (mul_nonneg hinv0 hE) (sub_nonneg.mpr hγ1),
        mul_nonneg (mul_nonneg (sub_nonneg.mpr hinv1) hM) hγ0]
    have hK : u + 2 * ((1 + u) ^ 3 - 1) = (7 + 6 * u + 2 * u ^ 2) * u := by ring
    have h1u : (0 : ℝ) ≤ 1 + u := by linarith
    calc meanErr u M (t + 1) ≤ (1 + u) * meanErr u M t + (u + 2 * ((1 + u) ^ 3 - 1)) * M := hstep
      _ ≤ (1 + u) * ((7 + 6 * u + 2 * u ^ 2) * M * ((1 + u) ^ t - 1)) + (u + 2 * ((1 + u) ^ 3 - 1)) * M := by
          gcongr
      _ = (7 + 6 * u + 2 * u ^ 2) * M * ((1 + u) ^ (t + 1) - 1) := by rw [hK]; ring

/-- Higham's `γ_t` bound: `(1+u)^t − 1 ≤ t·u / (1 − t·u)` as long as `t·u < 1` -/
theorem gamma_bound {u : ℝ} (hu : 0 ≤ u) (t : ℕ) (h : (t : ℝ) * u < 1) :
    (1 + u) ^ t - 1 ≤ (t : ℝ) * u / (1 - (t : ℝ) * u) := by
  induction t with
  | zero => simp
  | succ t ih =>
    push_cast at h ⊢
    have ha : (t : ℝ) * u < 1 := by nlinarith
    have ih' := ih ha
    have h1a : 0 < 1 - (t : ℝ) * u := by linarith
    have h1b : 0 < 1 - ((t : ℝ) + 1) * u := by linarith
    have hb0 : 0 ≤ ((t : ℝ) + 1) * u := by positivity
    have h1u : 0 ≤ 1 + u := by linarith
    have hne : 1 - (t : ℝ) * u ≠ 0 := ne_of_gt h1a
    have e : (1 + u) * ((t : ℝ) * u / (1 - (t : ℝ) * u)) + u = ((t : ℝ) + 1) * u / (1 - (t : ℝ) * u) := by
      rw [eq_div_iff hne, add_mul, mul_assoc, div_mul_cancel₀ _ hne]; ring
    calc (1 + u) ^ (t + 1) - 1 = (1 + u) * ((1 + u) ^ t - 1) + u := by ring
      _ ≤ (1 + u) * ((t : ℝ) * u / (1 - (t : ℝ) * u)) + u := by gcongr
      _ = ((t : ℝ) + 1) * u / (1 - (t : ℝ) * u) := e
      _ ≤ ((t : ℝ) + 1) * u / (1 - ((t : ℝ) + 1) * u) := by
          apply div_le_div_of_nonneg_left hb0 h1b; linarith

/-- fully closed form for the running mean: `meanErr u M t ≤ (7 + 6u + 2u²) · M · t·u / (1 − t·u)` -/
theorem meanErr_closed_frac {u M : ℝ} (hu : 0 ≤ u) (hu3 : (1 + u) ^ 3 ≤ 2) (hM : 0 ≤ M) (t : ℕ)
    (h : (t : ℝ) * u < 1) :
    meanErr u M t ≤ (7 + 6 * u + 2 * u ^ 2) * M * ((t : ℝ) * u / (1 - (t : ℝ) * u)) := by
  refine le_trans (meanErr_closed hu hu3 hM t) ?_
  have := gamma_bound hu t h
  gcongr

/-- the size of the bound at binary64 scale: with `u = 2^-53`, for streams of up to `2^20 ≈ 10^6` values bounded by
`M`, the running mean of the rounding run is within `M / 2^29 ≈ 1.9e-9 · M` of the exact running mean.  (A worst-case
bound; the typical error is far smaller.) -/
theorem meanErr_binary64_scale {M : ℝ} (hM : 0 ≤ M) (t : ℕ) (ht : t ≤ 2 ^ 20) :
    meanErr (1 / 2 ^ 53) M t ≤ M / 2 ^ 29 := by
  have hu : (0 : ℝ) ≤ 1 / 2 ^ 53 := by positivity
  have htR : (t : ℝ) ≤ 2 ^ 20 := by exact_mod_cast ht
  have ht0 : (0 : ℝ) ≤ (t : ℝ) := Nat.cast_nonneg t
  have hx : (t : ℝ) * (1 / 2 ^ 53) ≤ 1 / 2 ^ 33 := by
    calc (t : ℝ) * (1 / 2 ^ 53) ≤ 2 ^ 20 * (1 / 2 ^ 53) := by gcongr
      _ = 1 / 2 ^ 33 := by norm_num
  have hx0 : (0 : ℝ) ≤ (t : ℝ) * (1 / 2 ^ 53) := by positivity
  have hlt : (t : ℝ) * (1 / 2 ^ 53) < 1 := lt_of_le_of_lt hx (by norm_num)
  have h := meanErr_closed_frac hu (by norm_num) hM t hlt
  generalize (t : ℝ) * (1 / 2 ^ 53) = x at hx hx0 hlt h
  have h1x : 0 < 1 - x := by linarith
  have hfrac : x / (1 - x) ≤ 1 / 2 ^ 32 := by
    rw [div_le_iff₀ h1x]
    have : (1 : ℝ) / 2 ^ 33 ≤ 1 / 2 := by norm_num
    nlinarith
  have hK : (7 + 6 * (1 / 2 ^ 53 : ℝ) + 2 * (1 / 2 ^ 53) ^ 2) ≤ 8 := by norm_num
  have hfr0 : 0 ≤ x / (1 - x) := div_nonneg hx0 (le_of_lt h1x)
  calc meanErr (1 / 2 ^ 53) M t ≤ (7 + 6 * (1 / 2 ^ 53 : ℝ) + 2 * (1 / 2 ^ 53) ^ 2) * M * (x / (1 - x)) := h
    _ ≤ 8 * M * (1 / 2 ^ 32) := by gcongr
    _ = M / 2 ^ 29 := by ring

/-! ## 7. Sharper bound from a bound on the real TRAJECTORY

`sumErr` uses the a-priori bound `gBound` on `|g_t^ℝ|`, which for cusum grows like `t·(2M+|delta|)` (so `sumErr`
grows like `u·t²`).  If the real statistic is known to stay below `Gf k` at step `k` (e.g. a constant: it stayed
below the threshold plus one increment), the same analysis gives `sumErrG … Gf`, which for a constant `Gf` grows
like `u·t`. -/

noncomputable def sumErrG (u M : ℝ) (cR : Cfg ℝ) (Gf : ℕ → ℝ) : ℕ → ℝ
  | 0 => 0
  | t + 1 => sumStepErr u M cR (Gf t) (sumErrG u M cR Gf t) (meanErr u M (t + 1))

theorem sumErr_eq_sumErrG (u M : ℝ) (cR : Cfg ℝ) (t : ℕ) : sumErr u M cR t = sumErrG u M cR (gBound M cR) t := by
  induction t with
  | zero => rfl
  | succ t ih => rw [sumErr, sumErrG, ih]

section Carrier
variable {α : Type} [Num α] {toR : α → ℝ} {u : ℝ}

/-- **run_err_traj.**  `Gf k` bounds the real statistic after `k` updates, for every `k < t`. -/
theorem run_err_traj {M : ℝ} (sm : StdModel α toR u) (c : Cfg α) (Gf : ℕ → ℝ) (xs : List α)
    (hM : ∀ x ∈ xs, |toR x| ≤ M)
    (hG : ∀ k < xs.length, |(runL (cfgR toR c) ((xs.map toR).take k)).sum| ≤ Gf k) :
    |toR (runL c xs).sum - (runL (cfgR toR c) (xs.map toR)).sum| ≤ sumErrG u M (cfgR toR c) Gf xs.length := by
  induction xs using List.reverseRecOn with
  | nil => simp [init, sumErrG, sm.zero]
  | append_singleton xs x ih =>
    have hM' : ∀ z ∈ xs, |toR z| ≤ M := fun z hz => hM z (by simp [hz])
    have hG' : ∀ k < xs.length, |(runL (cfgR toR c) ((xs.map toR).take k)).sum| ≤ Gf k := by
      intro k hk
      have h := hG k (by rw [List.length_append, List.length_singleton]; omega)
      rwa [List.map_append, List.take_append_of_le_length (by rw [List.length_map]; omega)] at h
    have ihs := ih hM' hG'
    have hGn : |(runL (cfgR toR c) (xs.map toR)).sum| ≤ Gf xs.length := by
      have h := hG xs.length (by rw [List.length_append, List.length_singleton]; omega)
      rwa [List.map_append, List.take_append_of_le_length (by rw [List.length_map]),
        List.take_of_length_le (by rw [List.length_map])] at h
    have hx := hM x (by simp)
    have hM0 : 0 ≤ M := le_trans (abs_nonneg _) hx
    have hrm' : |((runL (cfgR toR c) (xs.map toR)).mean.update (toR x)).mean| ≤ M := by
      rw [run_mean, ← meanL_snoc]
      have := real_mean_bound hM0 _ (map_bound hM)
      rwa [List.map_append, List.map_singleton] at this
    have hm' := (run_err sm c (xs ++ [x]) hM).1
    rw [List.map_append, List.map_singleton, runL_snoc, runL_snoc, List.length_append, List.length_singleton] at hm'
    rw [List.map_append, List.map_singleton, runL_snoc, runL_snoc, List.length_append, List.length_singleton]
    exact updateSum_err sm c (runL c xs).sum ((runL c xs).mean.update x).mean x
      (runL (cfgR toR c) (xs.map toR)).sum ((runL (cfgR toR c) (xs.map toR)).mean.update (toR x)).mean
      hx hrm' hm' hGn ihs

/-- the transfer theorem with the trajectory bound -/
theorem drift_transfer_traj {M : ℝ} (sm : StdModel α toR u) (c : Cfg α) (Gf : ℕ → ℝ) (xs : List α)
    (hM : ∀ x ∈ xs, |toR x| ≤ M)
    (hG : ∀ k < xs.length, |(runL (cfgR toR c) ((xs.map toR).take k)).sum| ≤ Gf k)
    (hsep : c.minN ≤ xs.length →
      sumErrG u M (cfgR toR c) Gf xs.length < |(runL (cfgR toR c) (xs.map toR)).sum - toR c.lambda|) :
    (runL c xs).drift = (runL (cfgR toR c) (xs.map toR)).drift :=
  drift_of_sum_err sm c xs (run_err_traj sm c Gf xs hM hG) hsep

/-! ## 8. Exact carriers (`u = 0`): the carrier run IS the real run -/

omit [Num α] in
theorem exists_bound (xs : List α) : ∃ M : ℝ, ∀ x ∈ xs, |toR x| ≤ M := by
  induction xs with
  | nil => exact ⟨0, by simp⟩
  | cons a l ih =>
    obtain ⟨M, hM⟩ := ih
    refine ⟨max |toR a| M, ?_⟩
    intro x hx
    rcases List.mem_cons.mp hx with rfl | h
    · exact le_max_left _ _
    · exact le_trans (hM x h) (le_max_right _ _)

/-- sanity check of the whole development: with `u = 0` (a carrier whose operations commute with `toR`, e.g. exact
rationals) mean, statistic and verdict coincide with the real run on EVERY stream, ties included, no margin needed -/
theorem exact_carrier (sm : StdModel α toR 0) (c : Cfg α) (xs : List α) :
    toR (runL c xs).mean.mean = (runL (cfgR toR c) (xs.map toR)).mean.mean ∧
    toR (runL c xs).sum = (runL (cfgR toR c) (xs.map toR)).sum ∧
    (runL c xs).drift = (runL (cfgR toR c) (xs.map toR)).drift := by
  obtain ⟨M, hM⟩ := exists_bound (toR := toR) xs
  obtain ⟨h1, h2⟩ := run_err sm c xs hM
  rw [meanErr_zero_u] at h1
  rw [sumErr_zero_u] at h2
  have e1 := sub_eq_zero.mp (abs_eq_zero.mp (le_antisymm h1 (abs_nonneg _)))
  have e2 := sub_eq_zero.mp (abs_eq_zero.mp (le_antisymm h2 (abs_nonneg _)))
  refine ⟨e1, e2, ?_⟩
  induction xs using List.reverseRecOn with
  | nil => rfl
  | append_singleton ys y _ =>
    have hd1 := run_drift_snoc c ys y
    have hd2 := run_drift_snoc (cfgR toR c) (ys.map toR) (toR y)
    rw [← List.map_singleton, ← List.map_append] at hd2
    rw [hd1, hd2, List.length_map]
    congr 1
    rw [Bool.eq_iff_iff, sm.gt, RealNum.gt_iff, e2]
    exact Iff.rfl

end Carrier

/-! ## 9. Non-vacuity and witnesses -/

/-- the hypothesis structure is satisfiable (exact carrier) … -/
example : StdModel ℝ id 0 := stdModel_real
/-- … and by a carrier that really rounds (every operation is off by the factor `1 + 2^-53`) -/
example : StdModel (Biased ((1 : ℝ) / 2 ^ 53)) Biased.val ((1 : ℝ) / 2 ^ 53) := stdModel_biased (by positivity)

/-- the rounding carrier `Biased u` really differs from ℝ: the "mean" of the single value `1` is `(1+u)^3`
(three roundings), and the error `(1+u)^3 − 1` is within `meanErr u 1 1 = u + 2((1+u)^3 − 1)`. -/
theorem biased_mean_witness (u : ℝ) :
    ((meanL ([⟨1⟩] : List (Biased u))).mean).val = (1 + u) ^ 3 ∧ (meanL ([1] : List ℝ)).mean = 1 ∧
    meanErr u 1 1 = u + 2 * ((1 + u) ^ 3 - 1) := by
  refine ⟨?_, ?_, ?_⟩
  · simp [meanL, Mean.update, Mean.init]; ring
  · simp [meanL, Mean.update, Mean.init]
  · simp [meanErr, meanStepErr]; ring

/-- **non-vacuity of the transfer theorem** on a carrier that really rounds: `Biased (1/1000)` (every operation
0.1 % too large), cusum with `lambda = 1`, `minN = 2`, stream `0, 0, 3` (real statistic `2`, margin `1`).  All
hypotheses of `drift_transfer_run` hold (`M = 3`; the bound `sumErr` at `t = 3` is below the margin) and the
conclusion is the alarm at `t = 3`. -/
example :
    (runL (⟨.cusum, ⟨1⟩, ⟨0⟩, ⟨0⟩, 2⟩ : Cfg (Biased (1 / 1000))) [⟨0⟩, ⟨0⟩, ⟨3⟩]).drift = true := by
  have sm := stdModel_biased (u := 1 / 1000) (by norm_num)
  have hM : ∀ x ∈ ([⟨0⟩, ⟨0⟩, ⟨3⟩] : List (Biased (1 / 1000))), |x.val| ≤ 3 := by
    intro x hx
    simp only [List.mem_cons, List.not_mem_nil, or_false] at hx
    rcases hx with rfl | rfl | rfl <;> norm_num
  have hcfg : cfgR Biased.val (⟨.cusum, ⟨1⟩, ⟨0⟩, ⟨0⟩, 2⟩ : Cfg (Biased (1 / 1000))) = ⟨.cusum, 1, 0, 0, 2⟩ := rfl
  have hmap : ([⟨0⟩, ⟨0⟩, ⟨3⟩] : List (Biased (1 / 1000))).map Biased.val = [0, 0, 3] := rfl
  have hreal : (runL (⟨.cusum, 1, 0, 0, 2⟩ : Cfg ℝ) [0, 0, 3]).sum = 2 := by
    rw [run_sum]; norm_num [specG, specFrom, specStep, amean]
  rw [drift_transfer_run sm _ _ hM, hcfg, hmap]
  · rw [run_drift]; norm_num [specG, specFrom, specStep, amean]
    exact List.cons_ne_nil _ _
  · intro _
    rw [hcfg, hmap, hreal]
    norm_num [sumErr, sumStepErr, cusumStepErr, gBound, gStep, meanErr, meanStepErr]

/-- **non-vacuity of `run_err`** on the same carrier and stream: the carrier statistic is within `0.17` of the
real statistic `2` (the bound `sumErr (1/1000) 3 c 3 ≈ 0.1673`) -/
example :
    |((runL (⟨.cusum, ⟨1⟩, ⟨0⟩, ⟨0⟩, 2⟩ : Cfg (Biased (1 / 1000))) [⟨0⟩, ⟨0⟩, ⟨3⟩]).sum).val - 2| ≤ 17 / 100 := by
  have sm := stdModel_biased (u := 1 / 1000) (by norm_num)
  have hM : ∀ x ∈ ([⟨0⟩, ⟨0⟩, ⟨3⟩] : List (Biased (1 / 1000))), |x.val| ≤ 3 := by
    intro x hx
    simp only [List.mem_cons, List.not_mem_nil, or_false] at hx
    rcases hx with rfl | rfl | rfl <;> norm_num
  have hcfg : cfgR Biased.val (⟨.cusum, ⟨1⟩, ⟨0⟩, ⟨0⟩, 2⟩ : Cfg (Biased (1 / 1000))) = ⟨.cusum, 1, 0, 0, 2⟩ := rfl
  have hmap : ([⟨0⟩, ⟨0⟩, ⟨3⟩] : List (Biased (1 / 1000))).map Biased.val = [0, 0, 3] := rfl
  have hreal : (runL (⟨.cusum, 1, 0, 0, 2⟩ : Cfg ℝ) [0, 0, 3]).sum = 2 := by
    rw [run_sum]; norm_num [specG, specFrom, specStep, amean]
  have h := (run_err sm (⟨.cusum, ⟨1⟩, ⟨0⟩, ⟨0⟩, 2⟩ : Cfg (Biased (1 / 1000))) _ hM).2
  rw [hcfg, hmap, hreal] at h
  refine le_trans h ?_
  norm_num [sumErr, sumStepErr, cusumStepErr, gBound, gStep, meanErr, meanStepErr]

/-- **non-vacuity of `drift_transfer_history`**: garbage, a reset, then the example stream, on `Biased (1/1000)`;
only the values since the reset have to be bounded by `M = 3` (the value `100` before the reset is irrelevant) -/
example :
    ((CUSUMFam.machine (⟨.cusum, ⟨1⟩, ⟨0⟩, ⟨0⟩, 2⟩ : Cfg (Biased (1 / 1000)))).run
      [.update ⟨100⟩, .reset, .update ⟨0⟩, .update ⟨0⟩, .update ⟨3⟩]).drift = true := by
  have sm := stdModel_biased (u := 1 / 1000) (by norm_num)
  have hsr : sinceReset ([.update ⟨100⟩, .reset, .update ⟨0⟩, .update ⟨0⟩, .update ⟨3⟩] : List (Op (Biased (1 / 1000))))
      = [⟨0⟩, ⟨0⟩, ⟨3⟩] := rfl
  have hM : ∀ x ∈ ([⟨0⟩, ⟨0⟩, ⟨3⟩] : List (Biased (1 / 1000))), |x.val| ≤ 3 := by
    intro x hx
    simp only [List.mem_cons, List.not_mem_nil, or_false] at hx
    rcases hx with rfl | rfl | rfl <;> norm_num
  have hcfg : cfgR Biased.val (⟨.cusum, ⟨1⟩, ⟨0⟩, ⟨0⟩, 2⟩ : Cfg (Biased (1 / 1000))) = ⟨.cusum, 1, 0, 0, 2⟩ := rfl
  have hmap : ([⟨0⟩, ⟨0⟩, ⟨3⟩] : List (Biased (1 / 1000))).map Biased.val = [0, 0, 3] := rfl
  have hreal : (runL (⟨.cusum, 1, 0, 0, 2⟩ : Cfg ℝ) [0, 0, 3]).sum = 2 := by
    rw [run_sum]; norm_num [specG, specFrom, specStep, amean]
  rw [drift_transfer_history (M := 3) sm _ _ (by rw [hsr]; exact hM)]
  · rw [run_history, sinceReset_map, hsr, hcfg, hmap, run_drift]
    norm_num [specG, specFrom, specStep, amean]
    exact List.cons_ne_nil _ _
  · intro _
    rw [run_history, sinceReset_map, hsr, hcfg, hmap, hreal]
    norm_num [sumErr, sumStepErr, cusumStepErr, gBound, gStep, meanErr, meanStepErr]

/-- **non-vacuity for the other two kinds** (Page-Hinkley and gma, `alpha = 1/2`, stream `2, 4`, `Biased (1/1000)`):
the hypotheses of `run_err` hold with `M = 4` and the bound is a concrete small number -/
example :
    |((runL (⟨.pageHinkley, ⟨1⟩, ⟨1⟩, ⟨1 / 2⟩, 1⟩ : Cfg (Biased (1 / 1000))) [⟨2⟩, ⟨4⟩]).sum).val - (-1 / 2)| ≤ 1 / 10 ∧
    |((runL (⟨.gma, ⟨1⟩, ⟨0⟩, ⟨1 / 2⟩, 1⟩ : Cfg (Biased (1 / 1000))) [⟨2⟩, ⟨4⟩]).sum).val - 1 / 2| ≤ 1 / 10 := by
  have sm := stdModel_biased (u := 1 / 1000) (by norm_num)
  have hM : ∀ x ∈ ([⟨2⟩, ⟨4⟩] : List (Biased (1 / 1000))), |x.val| ≤ 4 := by
    intro x hx
    simp only [List.mem_cons, List.not_mem_nil, or_false] at hx
    rcases hx with rfl | rfl <;> norm_num
  have hmap : ([⟨2⟩, ⟨4⟩] : List (Biased (1 / 1000))).map Biased.val = [2, 4] := rfl
  constructor
  · have hcfg : cfgR Biased.val (⟨.pageHinkley, ⟨1⟩, ⟨1⟩, ⟨1 / 2⟩, 1⟩ : Cfg (Biased (1 / 1000)))
        = ⟨.pageHinkley, 1, 1, 1 / 2, 1⟩ := rfl
    have hreal : (runL (⟨.pageHinkley, 1, 1, 1 / 2, 1⟩ : Cfg ℝ) [2, 4]).sum = -1 / 2 := by
      rw [run_sum]; norm_num [specG, specFrom, specStep, amean]
    have h := (run_err sm (⟨.pageHinkley, ⟨1⟩, ⟨1⟩, ⟨1 / 2⟩, 1⟩ : Cfg (Biased (1 / 1000))) _ hM).2
    rw [hcfg, hmap, hreal] at h
    refine le_trans h ?_
    norm_num [sumErr, sumStepErr, phStepErr, gBound, gStep, meanErr, meanStepErr]
  · have hcfg : cfgR Biased.val (⟨.gma, ⟨1⟩, ⟨0⟩, ⟨1 / 2⟩, 1⟩ : Cfg (Biased (1 / 1000)))
        = ⟨.gma, 1, 0, 1 / 2, 1⟩ := rfl
    have hreal : (runL (⟨.gma, 1, 0, 1 / 2, 1⟩ : Cfg ℝ) [2, 4]).sum = 1 / 2 := by
      rw [run_sum]; norm_num [specG, specFrom, specStep, amean]
    have h := (run_err sm (⟨.gma, ⟨1⟩, ⟨0⟩, ⟨1 / 2⟩, 1⟩ : Cfg (Biased (1 / 1000))) _ hM).2
    rw [hcfg, hmap, hreal] at h
    refine le_trans h ?_
    norm_num [sumErr, sumStepErr, gmaStepErr, gBound, gStep, meanErr, meanStepErr]

/-- **the margin hypothesis cannot be dropped.**  On the (legitimate, if coarse: `u = 1/2`) standard-model carrier
`Biased (1/2)`, cusum with `delta = −1`, `lambda = 1/2`, `minN = 1`, stream `1`: the real statistic is `1`
(alarm), the carrier statistic is `0` (no alarm).  The real margin `1/2` is below the bound, as it must be. -/
theorem margin_needed_witness :
    let c : Cfg (Biased (1 / 2)) := ⟨.cusum, ⟨1 / 2⟩, ⟨-1⟩, ⟨0⟩, 1⟩
    let xs : List (Biased (1 / 2)) := [⟨1⟩]
    (runL c xs).drift = false ∧ (runL (cfgR Biased.val c) (xs.map Biased.val)).drift = true ∧
    (runL (cfgR Biased.val c) (xs.map Biased.val)).sum = 1 ∧ (∀ x ∈ xs, |x.val| ≤ 1) ∧
    ¬ sumErr (1 / 2) 1 (cfgR Biased.val c) xs.length
        < |(runL (cfgR Biased.val c) (xs.map Biased.val)).sum - c.lambda.val| := by
  intro c xs
  have hcfg : cfgR Biased.val c = ⟨.cusum, 1 / 2, -1, 0, 1⟩ := rfl
  have hmap : xs.map Biased.val = [1] := rfl
  have hreal : (runL (⟨.cusum, 1 / 2, -1, 0, 1⟩ : Cfg ℝ) [1]).sum = 1 := by
    rw [run_sum]; norm_num [specG, specFrom, specStep, amean]
  refine ⟨?_, ?_, ?_, ?_, ?_⟩
  · simp only [c, xs, runL, List.foldl_cons, List.foldl_nil, step, init, updateSum, Mean.update, Mean.init, Num.max0]
    norm_num [Num.gt, Num.lt, Num.zero, Num.ofNat]
  · rw [hcfg, hmap, run_drift]; norm_num [specG, specFrom, specStep, amean]
  · rw [hcfg, hmap, hreal]
  · intro x hx
    simp only [xs, List.mem_singleton] at hx
    subst hx; norm_num
  · rw [hcfg, hmap, hreal]
    norm_num [c, xs, sumErr, sumStepErr, cusumStepErr, gBound, gStep, meanErr, meanStepErr]

/- UNPROVED (not attempted; the task allows the closed form to be left implicit):
   a closed form for `sumErr` analogous to `meanErr_closed`, e.g. for cusum, `(1+u)^3 ≤ 2` and `t·u < 1`:
     `sumErr u M c t ≤ K · (M + |delta|) · t² · u / (1 − 3·t·u)`   for an explicit constant `K`,
   and, for `|alpha| · (1+u)^2 < 1` (Page-Hinkley / gma with a forgetting factor), a bound that is UNIFORM in `t`
   relative to the trajectory bound `Gf` (geometric series of `phStepErr_affine` / `gmaStepErr_affine`).
   Also not attempted: monotonicity of `meanErr`, `sumErr` in `t` and in `M`. -/

end Frouros.C07r

#print axioms Frouros.stdModel_real
#print axioms Frouros.stdModel_biased
#print axioms Frouros.C07r.mean_step_err
#print axioms Frouros.C07r.updateSum_err
#print axioms Frouros.C07r.run_err
#print axioms Frouros.C07r.run_err_take
#print axioms Frouros.C07r.run_err_spec
#print axioms Frouros.C07r.run_err_history
#print axioms Frouros.C07r.run_err_traj
#print axioms Frouros.C07r.drift_of_sum_err
#print axioms Frouros.C07r.drift_transfer_run
#print axioms Frouros.C07r.drift_transfer
#print axioms Frouros.C07r.drift_transfer_traj
#print axioms Frouros.C07r.drift_transfer_history
#print axioms Frouros.C07r.drift_transfer_history_all
#print axioms Frouros.C07r.drift_eq_spec
#print axioms Frouros.C07r.drift_eq_spec_history
#print axioms Frouros.C07r.exact_carrier
#print axioms Frouros.C07r.meanErr_zero_u
#print axioms Frouros.C07r.sumErr_zero_u
#print axioms Frouros.C07r.meanErr_mono_u
#print axioms Frouros.C07r.sumErr_mono_u
#print axioms Frouros.C07r.meanErr_closed
#print axioms Frouros.C07r.gamma_bound
#print axioms Frouros.C07r.meanErr_closed_frac
#print axioms Frouros.C07r.meanErr_binary64_scale
#print axioms Frouros.C07r.biased_mean_witness
#print axioms Frouros.C07r.margin_needed_witness
