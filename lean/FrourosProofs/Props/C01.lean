/-
  C01 — no alarm without evidence: warm-up and exclusive flags.

  All theorems are control-flow facts, proved for an ARBITRARY carrier `{α : Type} [Num α]` (no
  assumption on the arithmetic or on the comparisons, so they hold literally for IEEE doubles,
  NaNs included) and an ARBITRARY configuration (no validity assumption on the configuration
  unless stated).

  A. Warm-up.  `sinceReset ops` (FrourosProofs/Lemmas/SinceReset.lean) is the number of updates
     since construction / the last reset in the history `ops`.  For every machine the counter `n`
     of the state `run ops` equals `sinceReset ops` (RDDM: `≤`, its counter is rewound by
     `rebuild`) and the flags are off while `sinceReset ops` is below the warm-up length — and also
     when `sinceReset ops = 0`, i.e. right after construction or a reset, whatever the
     configuration (this covers `minN = 0`).
  B. Exclusivity.  No reachable state has `drift` and `warning` both set.

  Only `import`s core-Lean files of this project (no Mathlib needed).
-/
import FrourosProofs.Machines
import FrourosProofs.Lemmas.SinceReset
import FrourosProofs.Lemmas.Queue
import FrourosProofs.Lemmas.RDDM
import FrourosProofs.Lemmas.ADWINWidth
namespace Frouros.C01
open Frouros
variable {α : Type} [Num α]

/-- non-vacuity of all "`sinceReset ops < L`" hypotheses below: a history with updates, a reset and
one more update has count 1 (not 3, not 0) -/
example (x y z : α) : sinceReset [Op.update x, .update y, .reset, .update z] = 1 := rfl

/-- from `Reachable` to `run`: every theorem below stated for reachable states holds for the state
after any history, and conversely (`Machine.reachable_iff_run`) -/
example {S V : Type} (M : Machine S V) (P : S → Prop) (h : ∀ s, M.Reachable s → P s) (ops : List (Op V)) :
    P (M.run ops) := h _ (M.reachable_run ops)

/-! ## DDM -/

theorem ddm_step_n (c : DDM.Cfg α) (s : DDM.State α) (v : α) : (DDM.step c s v).n = s.n + 1 := by
  grind [DDM.step]

theorem ddm_step_warm (c : DDM.Cfg α) (s : DDM.State α) (v : α) (h : s.n + 1 < c.minN) :
    (DDM.step c s v).drift = false ∧ (DDM.step c s v).warning = false := by
  grind [DDM.step]

/-- DDM, one update from ANY state: the counter is incremented and below `minN` both flags are off -/
theorem warmup_step_ddm (c : DDM.Cfg α) (s : DDM.State α) (v : α) :
    let s' := DDM.step c s v
    s'.n = s.n + 1 ∧ (s'.n < c.minN → s'.drift = false ∧ s'.warning = false) := by
  intro s'
  refine ⟨ddm_step_n c s v, fun h => ddm_step_warm c s v ?_⟩
  have : s'.n = s.n + 1 := ddm_step_n c s v
  omega

/-- DDM, any history: `n` counts the updates since the last reset; the flags are off while fewer
than `minN` updates happened since the last reset (or none at all). -/
theorem warmup_run_ddm (c : DDM.Cfg α) (ops : List (Op α)) :
    let s := (DDM.machine c).run ops
    s.n = sinceReset ops ∧
    ((sinceReset ops < c.minN ∨ sinceReset ops = 0) → s.drift = false ∧ s.warning = false) := by
  intro s
  exact (DDM.machine c).warmup_lift (·.n) (fun s => s.drift = false ∧ s.warning = false) c.minN
    ⟨rfl, rfl, rfl⟩ (fun _ => ⟨rfl, rfl, rfl⟩)
    (fun s v => ⟨ddm_step_n c s v, fun _ h => (warmup_step_ddm c s v).2 h⟩) ops

/-- non-vacuity: 29 updates after a reset are inside the default warm-up (`minN = 30`) -/
example (x : α) : sinceReset ([Op.update x, .reset] ++ List.replicate 29 (.update x))
    < (⟨Num.zero, Num.zero, 30⟩ : DDM.Cfg α).minN := by
  rw [sinceReset_replicate]; first | exact Nat.lt_succ_self _ | exact Nat.le_refl _

/-- DDM exclusivity after one update from ANY state -/
theorem excl_step_ddm (c : DDM.Cfg α) (s : DDM.State α) (v : α) :
    ¬ ((DDM.step c s v).drift = true ∧ (DDM.step c s v).warning = true) := by
  grind [DDM.step]

/-- DDM: no reachable state has both flags set -/
theorem excl_ddm (c : DDM.Cfg α) {s : DDM.State α} (h : (DDM.machine c).Reachable s) :
    ¬ (s.drift = true ∧ s.warning = true) := by
  refine (DDM.machine c).invariant (P := fun s => ¬ (s.drift = true ∧ s.warning = true)) ?_ ?_ ?_ h
  · simp [DDM.machine, DDM.init]
  · intro s v _; exact excl_step_ddm c s v
  · intro s _; simp [DDM.machine, DDM.reset]

/-- non-vacuity: states after updates are reachable -/
example (c : DDM.Cfg α) (x y : α) : (DDM.machine c).Reachable (DDM.step c (DDM.step c DDM.init x) y) :=
  .step y (.step x .init)

/-! ## ECDD -/

theorem ecdd_step_n (c : ECDD.Cfg α) (s : ECDD.State α) (v : α) : (ECDD.step c s v).n = s.n + 1 := by
  grind [ECDD.step]

theorem ecdd_step_warm (c : ECDD.Cfg α) (s : ECDD.State α) (v : α) (h : s.n + 1 < c.minN) :
    (ECDD.step c s v).drift = false ∧ (ECDD.step c s v).warning = false := by
  grind [ECDD.step]

theorem warmup_step_ecdd (c : ECDD.Cfg α) (s : ECDD.State α) (v : α) :
    let s' := ECDD.step c s v
    s'.n = s.n + 1 ∧ (s'.n < c.minN → s'.drift = false ∧ s'.warning = false) := by
  intro s'
  refine ⟨ecdd_step_n c s v, fun h => ecdd_step_warm c s v ?_⟩
  have : s'.n = s.n + 1 := ecdd_step_n c s v
  omega

theorem warmup_run_ecdd (c : ECDD.Cfg α) (ops : List (Op α)) :
    let s := (ECDD.machine c).run ops
    s.n = sinceReset ops ∧
    ((sinceReset ops < c.minN ∨ sinceReset ops = 0) → s.drift = false ∧ s.warning = false) := by
  intro s
  exact (ECDD.machine c).warmup_lift (·.n) (fun s => s.drift = false ∧ s.warning = false) c.minN
    ⟨rfl, rfl, rfl⟩ (fun _ => ⟨rfl, rfl, rfl⟩)
    (fun s v => ⟨ecdd_step_n c s v, fun _ h => (warmup_step_ecdd c s v).2 h⟩) ops

example (x : α) : sinceReset ([Op.update x, .reset] ++ List.replicate 29 (.update x))
    < (⟨Num.zero, 400, Num.zero, 30⟩ : ECDD.Cfg α).minN := by
  rw [sinceReset_replicate]; first | exact Nat.lt_succ_self _ | exact Nat.le_refl _

theorem excl_step_ecdd (c : ECDD.Cfg α) (s : ECDD.State α) (v : α) :
    ¬ ((ECDD.step c s v).drift = true ∧ (ECDD.step c s v).warning = true) := by
  grind [ECDD.step]

theorem excl_ecdd (c : ECDD.Cfg α) {s : ECDD.State α} (h : (ECDD.machine c).Reachable s) :
    ¬ (s.drift = true ∧ s.warning = true) := by
  refine (ECDD.machine c).invariant (P := fun s => ¬ (s.drift = true ∧ s.warning = true)) ?_ ?_ ?_ h
  · simp [ECDD.machine, ECDD.init]
  · intro s v _; exact excl_step_ecdd c s v
  · intro s _; simp [ECDD.machine, ECDD.reset]

example (c : ECDD.Cfg α) (x : α) : (ECDD.machine c).Reachable (ECDD.step c (ECDD.init c) x) := .step x .init

/-! ## HDDM-A -/

theorem hddma_step_n (c : HDDMA.Cfg α) (s : HDDMA.State α) (v : α) : (HDDMA.step c s v).n = s.n + 1 := by
  grind [HDDMA.step]

theorem hddma_step_warm (c : HDDMA.Cfg α) (s : HDDMA.State α) (v : α) (h : s.n + 1 < c.minN) :
    (HDDMA.step c s v).drift = false ∧ (HDDMA.step c s v).warning = false := by
  grind [HDDMA.step]

theorem warmup_step_hddma (c : HDDMA.Cfg α) (s : HDDMA.State α) (v : α) :
    let s' := HDDMA.step c s v
    s'.n = s.n + 1 ∧ (s'.n < c.minN → s'.drift = false ∧ s'.warning = false) := by
  intro s'
  refine ⟨hddma_step_n c s v, fun h => hddma_step_warm c s v ?_⟩
  have : s'.n = s.n + 1 := hddma_step_n c s v
  omega

theorem warmup_run_hddma (c : HDDMA.Cfg α) (ops : List (Op α)) :
    let s := (HDDMA.machine c).run ops
    s.n = sinceReset ops ∧
    ((sinceReset ops < c.minN ∨ sinceReset ops = 0) → s.drift = false ∧ s.warning = false) := by
  intro s
  exact (HDDMA.machine c).warmup_lift (·.n) (fun s => s.drift = false ∧ s.warning = false) c.minN
    ⟨rfl, rfl, rfl⟩ (fun _ => ⟨rfl, rfl, rfl⟩)
    (fun s v => ⟨hddma_step_n c s v, fun _ h => (warmup_step_hddma c s v).2 h⟩) ops

example (x : α) : sinceReset ([Op.update x, .reset] ++ List.replicate 29 (.update x))
    < (⟨Num.zero, Num.zero, true, 30⟩ : HDDMA.Cfg α).minN := by
  rw [sinceReset_replicate]; first | exact Nat.lt_succ_self _ | exact Nat.le_refl _

theorem excl_step_hddma (c : HDDMA.Cfg α) (s : HDDMA.State α) (v : α) :
    ¬ ((HDDMA.step c s v).drift = true ∧ (HDDMA.step c s v).warning = true) := by
  grind [HDDMA.step]

theorem excl_hddma (c : HDDMA.Cfg α) {s : HDDMA.State α} (h : (HDDMA.machine c).Reachable s) :
    ¬ (s.drift = true ∧ s.warning = true) := by
  refine (HDDMA.machine c).invariant (P := fun s => ¬ (s.drift = true ∧ s.warning = true)) ?_ ?_ ?_ h
  · simp [HDDMA.machine, HDDMA.init]
  · intro s v _; exact excl_step_hddma c s v
  · intro s _; simp [HDDMA.machine, HDDMA.reset]

example (c : HDDMA.Cfg α) (x : α) : (HDDMA.machine c).Reachable (HDDMA.step c HDDMA.init x) := .step x .init

/-! ## HDDM-W -/

theorem hddmw_step_n (c : HDDMW.Cfg α) (s : HDDMW.State α) (v : α) : (HDDMW.step c s v).n = s.n + 1 := by
  grind [HDDMW.step]

theorem hddmw_step_warm (c : HDDMW.Cfg α) (s : HDDMW.State α) (v : α) (h : s.n + 1 < c.minN) :
    (HDDMW.step c s v).drift = false ∧ (HDDMW.step c s v).warning = false := by
  grind [HDDMW.step]

theorem warmup_step_hddmw (c : HDDMW.Cfg α) (s : HDDMW.State α) (v : α) :
    let s' := HDDMW.step c s v
    s'.n = s.n + 1 ∧ (s'.n < c.minN → s'.drift = false ∧ s'.warning = false) := by
  intro s'
  refine ⟨hddmw_step_n c s v, fun h => hddmw_step_warm c s v ?_⟩
  have : s'.n = s.n + 1 := hddmw_step_n c s v
  omega

theorem warmup_run_hddmw (c : HDDMW.Cfg α) (ops : List (Op α)) :
    let s := (HDDMW.machine c).run ops
    s.n = sinceReset ops ∧
    ((sinceReset ops < c.minN ∨ sinceReset ops = 0) → s.drift = false ∧ s.warning = false) := by
  intro s
  exact (HDDMW.machine c).warmup_lift (·.n) (fun s => s.drift = false ∧ s.warning = false) c.minN
    ⟨rfl, rfl, rfl⟩ (fun _ => ⟨rfl, rfl, rfl⟩)
    (fun s v => ⟨hddmw_step_n c s v, fun _ h => (warmup_step_hddmw c s v).2 h⟩) ops

example (x : α) : sinceReset ([Op.update x, .reset] ++ List.replicate 29 (.update x))
    < (⟨Num.zero, Num.zero, true, Num.zero, 30⟩ : HDDMW.Cfg α).minN := by
  rw [sinceReset_replicate]; first | exact Nat.lt_succ_self _ | exact Nat.le_refl _

theorem excl_step_hddmw (c : HDDMW.Cfg α) (s : HDDMW.State α) (v : α) :
    ¬ ((HDDMW.step c s v).drift = true ∧ (HDDMW.step c s v).warning = true) := by
  grind [HDDMW.step]

theorem excl_hddmw (c : HDDMW.Cfg α) {s : HDDMW.State α} (h : (HDDMW.machine c).Reachable s) :
    ¬ (s.drift = true ∧ s.warning = true) := by
  refine (HDDMW.machine c).invariant (P := fun s => ¬ (s.drift = true ∧ s.warning = true)) ?_ ?_ ?_ h
  · simp [HDDMW.machine, HDDMW.init]
  · intro s v _; exact excl_step_hddmw c s v
  · intro s _; simp [HDDMW.machine, HDDMW.reset]

example (c : HDDMW.Cfg α) (x : α) : (HDDMW.machine c).Reachable (HDDMW.step c (HDDMW.init c) x) := .step x .init

/-! ## CUSUM family (CUSUM, Page–Hinkley, geometric moving average) — no warning flag -/

theorem cusum_step_n (c : CUSUMFam.Cfg α) (s : CUSUMFam.State α) (v : α) : (CUSUMFam.step c s v).n = s.n + 1 := by
  grind [CUSUMFam.step]

theorem cusum_step_warm (c : CUSUMFam.Cfg α) (s : CUSUMFam.State α) (v : α) (h : s.n + 1 < c.minN) :
    (CUSUMFam.step c s v).drift = false := by
  grind [CUSUMFam.step]

theorem warmup_step_cusum (c : CUSUMFam.Cfg α) (s : CUSUMFam.State α) (v : α) :
    let s' := CUSUMFam.step c s v
    s'.n = s.n + 1 ∧ (s'.n < c.minN → s'.drift = false) := by
  intro s'
  refine ⟨cusum_step_n c s v, fun h => cusum_step_warm c s v ?_⟩
  have : s'.n = s.n + 1 := cusum_step_n c s v
  omega

/-- all three kinds (`c.kind` is arbitrary) -/
theorem warmup_run_cusum (c : CUSUMFam.Cfg α) (ops : List (Op α)) :
    let s := (CUSUMFam.machine c).run ops
    s.n = sinceReset ops ∧ ((sinceReset ops < c.minN ∨ sinceReset ops = 0) → s.drift = false) := by
  intro s
  exact (CUSUMFam.machine c).warmup_lift (·.n) (fun s => s.drift = false) c.minN
    ⟨rfl, rfl⟩ (fun _ => ⟨rfl, rfl⟩)
    (fun s v => ⟨cusum_step_n c s v, fun _ h => (warmup_step_cusum c s v).2 h⟩) ops

example (x : α) : sinceReset ([Op.update x, .reset] ++ List.replicate 29 (.update x))
    < (⟨.pageHinkley, Num.zero, Num.zero, Num.zero, 30⟩ : CUSUMFam.Cfg α).minN := by
  rw [sinceReset_replicate]; first | exact Nat.lt_succ_self _ | exact Nat.le_refl _

/-! ## BOCD — `drift` is only assigned from `minN` on -/

theorem bocd_step_n (f : BOCD.Fns α) (c : BOCD.Cfg α) (s : BOCD.State α) (v : α) :
    (BOCD.step f c s v).n = s.n + 1 := by
  grind [BOCD.step]

/-- below `minN` the `drift` attribute is left as it was -/
theorem bocd_step_warm (f : BOCD.Fns α) (c : BOCD.Cfg α) (s : BOCD.State α) (v : α) (h : s.n + 1 < c.minN) :
    (BOCD.step f c s v).drift = s.drift := by
  grind [BOCD.step]

theorem warmup_run_bocd (f : BOCD.Fns α) (c : BOCD.Cfg α) (ops : List (Op α)) :
    let s := (BOCD.machine f c).run ops
    s.n = sinceReset ops ∧ ((sinceReset ops < c.minN ∨ sinceReset ops = 0) → s.drift = false) := by
  intro s
  refine (BOCD.machine f c).warmup_lift (·.n) (fun s => s.drift = false) c.minN
    ⟨rfl, rfl⟩ (fun _ => ⟨rfl, rfl⟩) (fun s v => ⟨bocd_step_n f c s v, fun hprev h => ?_⟩) ops
  have hn := bocd_step_n f c s v
  simp only [BOCD.machine] at h hprev ⊢
  rw [bocd_step_warm f c s v (by omega)]
  exact hprev (by omega)

example (x : α) (c : BOCD.Cfg α) (h : c.minN = 30) :
    sinceReset ([Op.update x, .reset] ++ List.replicate 29 (.update x)) < c.minN := by rw [sinceReset_replicate, h]; omega

/-! ## STEPD — warm-up length `2 * minN`.
In the (capacity-0) error branch of `step` the flags are left as they were, so the step lemma needs
the flags of the previous state to be off; the run theorem needs nothing. -/

theorem stepd_step_n (sf : α → α) (c : STEPD.Cfg α) (s : STEPD.State) (v : Bool) :
    (STEPD.step sf c s v).n = s.n + 1 := by
  grind [STEPD.step]

theorem stepd_step_warm (sf : α → α) (c : STEPD.Cfg α) (s : STEPD.State) (v : Bool) (h : s.n + 1 < 2 * c.minN)
    (hs : s.drift = false ∧ s.warning = false) :
    (STEPD.step sf c s v).drift = false ∧ (STEPD.step sf c s v).warning = false := by
  grind [STEPD.step]

theorem warmup_step_stepd (sf : α → α) (c : STEPD.Cfg α) (s : STEPD.State) (v : Bool)
    (hs : s.drift = false ∧ s.warning = false) :
    let s' := STEPD.step sf c s v
    s'.n = s.n + 1 ∧ (s'.n < 2 * c.minN → s'.drift = false ∧ s'.warning = false) := by
  intro s'
  refine ⟨stepd_step_n sf c s v, fun h => stepd_step_warm sf c s v ?_ hs⟩
  have : s'.n = s.n + 1 := stepd_step_n sf c s v
  omega

theorem warmup_run_stepd (sf : α → α) (c : STEPD.Cfg α) (ops : List (Op Bool)) :
    let s := (STEPD.machine sf c).run ops
    s.n = sinceReset ops ∧
    ((sinceReset ops < 2 * c.minN ∨ sinceReset ops = 0) → s.drift = false ∧ s.warning = false) := by
  intro s
  refine (STEPD.machine sf c).warmup_lift (·.n) (fun s => s.drift = false ∧ s.warning = false) (2 * c.minN)
    ⟨rfl, rfl, rfl⟩ (fun _ => ⟨rfl, rfl, rfl⟩) (fun s v => ⟨stepd_step_n sf c s v, fun hprev h => ?_⟩) ops
  have hn := stepd_step_n sf c s v
  simp only [STEPD.machine] at h hprev ⊢
  exact stepd_step_warm sf c s v (by omega) (hprev (by omega))

/-- non-vacuity: 59 updates after a reset are inside the default warm-up (`2 * 30`) -/
example : sinceReset ([Op.update true, .reset] ++ List.replicate 59 (.update false))
    < 2 * (⟨(Num.zero : α), Num.zero, 30⟩ : STEPD.Cfg α).minN := by
  rw [sinceReset_replicate]; first | exact Nat.lt_succ_self _ | exact Nat.le_refl _

/-- one update preserves exclusivity (the error branch keeps the old flags) -/
theorem excl_step_stepd (sf : α → α) (c : STEPD.Cfg α) (s : STEPD.State) (v : Bool)
    (hs : ¬ (s.drift = true ∧ s.warning = true)) :
    ¬ ((STEPD.step sf c s v).drift = true ∧ (STEPD.step sf c s v).warning = true) := by
  grind [STEPD.step]

theorem excl_stepd (sf : α → α) (c : STEPD.Cfg α) {s : STEPD.State} (h : (STEPD.machine sf c).Reachable s) :
    ¬ (s.drift = true ∧ s.warning = true) := by
  refine (STEPD.machine sf c).invariant (P := fun s => ¬ (s.drift = true ∧ s.warning = true)) ?_ ?_ ?_ h
  · simp [STEPD.machine, STEPD.init]
  · intro s v hs; exact excl_step_stepd sf c s v hs
  · intro s _; simp [STEPD.machine, STEPD.reset]

example (sf : α → α) (c : STEPD.Cfg α) : (STEPD.machine sf c).Reachable (STEPD.step sf c (STEPD.init c) true) :=
  .step true .init

/-! ## KSWIN — the window holds the last `min (updates since reset) minN` values -/

omit [Num α] in
/-- `deque(maxlen = cap).append` -/
theorem kswin_push_length (cap : Nat) (w : List α) (v : α) :
    (KSWIN.push cap w v).length = min (w.length + 1) cap := by
  unfold KSWIN.push
  simp only []
  split
  · simp only [List.length_drop, List.length_append, List.length_singleton] at *; omega
  · simp only [List.length_append, List.length_singleton] at *; omega

theorem kswin_step_n (ksP : List α → List α → α) (c : KSWIN.Cfg α) (s : KSWIN.State α) (v : α) (tape : List Nat) :
    (KSWIN.step ksP c s v tape).n = s.n + 1 := by
  grind [KSWIN.step]

theorem kswin_step_window (ksP : List α → List α → α) (c : KSWIN.Cfg α) (s : KSWIN.State α) (v : α) (tape : List Nat) :
    (KSWIN.step ksP c s v tape).window = KSWIN.push c.minN s.window v := by
  grind [KSWIN.step]

/-- no test (hence no drift) while the window is not full -/
theorem kswin_step_warm (ksP : List α → List α → α) (c : KSWIN.Cfg α) (s : KSWIN.State α) (v : α) (tape : List Nat)
    (h : (KSWIN.push c.minN s.window v).length < c.minN) :
    (KSWIN.step ksP c s v tape).drift = false := by
  grind [KSWIN.step]

/-- KSWIN, any history (any KS routine `ksP`, any resampling tapes): `n` counts the updates since
the last reset, the window length is `min (sinceReset ops) minN`, and `drift` is off while fewer
than `minN` updates happened since the last reset. -/
theorem warmup_run_kswin (ksP : List α → List α → α) (c : KSWIN.Cfg α) (ops : List (Op (α × List Nat))) :
    let s := (KSWIN.machine ksP c).run ops
    s.n = sinceReset ops ∧ s.window.length = min (sinceReset ops) c.minN ∧
    ((sinceReset ops < c.minN ∨ sinceReset ops = 0) → s.drift = false) := by
  intro s
  refine (KSWIN.machine ksP c).run_ghost
    (fun k s => s.n = k ∧ s.window.length = min k c.minN ∧ ((k < c.minN ∨ k = 0) → s.drift = false)) ?_ ?_ ?_ ops
  · exact ⟨rfl, by simp [KSWIN.machine, KSWIN.init], fun _ => rfl⟩
  · intro k s vt ⟨hn, hw, _⟩
    have hlen : (KSWIN.push c.minN s.window vt.1).length = min (k + 1) c.minN := by
      rw [kswin_push_length, hw]; omega
    simp only [KSWIN.machine]
    refine ⟨by rw [kswin_step_n, hn], by rw [kswin_step_window, hlen], fun hk => ?_⟩
    exact kswin_step_warm ksP c s vt.1 vt.2 (by rw [hlen]; omega)
  · intro k s _
    exact ⟨rfl, by simp [KSWIN.machine, KSWIN.reset], fun _ => rfl⟩

example (x : α) (t : List Nat) : sinceReset ([Op.update (x, t), .reset] ++ List.replicate 99 (.update (x, t)))
    < (⟨Num.zero, 100, 30⟩ : KSWIN.Cfg α).minN := by
  rw [sinceReset_replicate]; first | exact Nat.lt_succ_self _ | exact Nat.le_refl _

/-! ## ADWIN — a drift needs a check, a check needs more than `minN` values in the window -/

theorem adwin_insert_n (c : ADWIN.Cfg α) (s : ADWIN.State α) (v : α) : (ADWIN.insert c s v).n = s.n := rfl
theorem adwin_insert_drift (c : ADWIN.Cfg α) (s : ADWIN.State α) (v : α) : (ADWIN.insert c s v).drift = s.drift := rfl
theorem adwin_insert_width (c : ADWIN.Cfg α) (s : ADWIN.State α) (v : α) : (ADWIN.insert c s v).width = s.width + 1 := rfl

theorem adwin_deleteOldest_n (s : ADWIN.State α) : (ADWIN.deleteOldest s).n = s.n := by
  grind [ADWIN.deleteOldest]

/-- `deleteOldest` computes `width - 2^k` with truncated `Nat` subtraction.  The bound used here,
`new width ≤ old width`, is true of truncated and of exact subtraction alike, so nothing below
depends on the truncation (no claim is made that the result is the exact difference). -/
theorem adwin_deleteOldest_width_le (s : ADWIN.State α) : (ADWIN.deleteOldest s).width ≤ s.width := by
  unfold ADWIN.deleteOldest
  simp only []
  split
  · exact Nat.le_refl _
  · split
    · exact Nat.le_refl _
    · exact Nat.sub_le _ _

theorem adwin_checkLoop_n (c : ADWIN.Cfg α) (fuel : Nat) (s : ADWIN.State α) : (ADWIN.checkLoop c fuel s).n = s.n := by
  induction fuel generalizing s with
  | zero => rfl
  | succ k ih =>
    unfold ADWIN.checkLoop
    split
    · split
      · rw [ih]; exact adwin_deleteOldest_n s
      · rfl
    · rfl

theorem adwin_checkLoop_width_le (c : ADWIN.Cfg α) (fuel : Nat) (s : ADWIN.State α) :
    (ADWIN.checkLoop c fuel s).width ≤ s.width := by
  induction fuel generalizing s with
  | zero => exact Nat.le_refl _
  | succ k ih =>
    unfold ADWIN.checkLoop
    split
    · split
      · exact Nat.le_trans (ih _) (adwin_deleteOldest_width_le s)
      · exact Nat.le_refl _
    · exact Nat.le_refl _

theorem adwin_step_n (c : ADWIN.Cfg α) (s : ADWIN.State α) (v : α) : (ADWIN.step c s v).n = s.n + 1 := by
  unfold ADWIN.step
  simp only []
  split
  · rw [adwin_checkLoop_n]; rfl
  · rfl

theorem adwin_step_width_le (c : ADWIN.Cfg α) (s : ADWIN.State α) (v : α) : (ADWIN.step c s v).width ≤ s.width + 1 := by
  unfold ADWIN.step
  simp only []
  split
  · exact adwin_checkLoop_width_le _ _ _
  · exact Nat.le_refl _

/-- ADWIN, one update from ANY state: a drift implies that the check ran, i.e. the counter is a
multiple of `clock` and the window (after inserting the value) is wider than `minN`.
Remark on `clock = 0` (rejected by the Python constructor; Python's `% 0` would raise): Lean's
`n % 0 = n` makes the model never run the check, so the statement holds there because its premise
is false.  Nothing else depends on this: the warm-up theorem `warmup_run_adwin` only uses the
second conjunct (`minN < width`), which does not involve the modulus. -/
theorem drift_step_adwin (c : ADWIN.Cfg α) (s : ADWIN.State α) (v : α) :
    let s' := ADWIN.step c s v
    s'.drift = true →
      s'.n % c.clock = 0 ∧ c.minN < (ADWIN.insert c { s with n := s.n + 1, drift := false } v).width := by
  intro s' h
  show (ADWIN.step c s v).n % c.clock = 0 ∧ _
  rw [adwin_step_n]
  have h' : (ADWIN.step c s v).drift = true := h
  unfold ADWIN.step at h'
  simp only [] at h'
  split at h'
  · rename_i hc
    simpa [adwin_insert_n] using hc
  · simp [adwin_insert_drift] at h'

/-- the same with the window width spelled out -/
theorem drift_step_adwin' (c : ADWIN.Cfg α) (s : ADWIN.State α) (v : α) (h : (ADWIN.step c s v).drift = true) :
    (s.n + 1) % c.clock = 0 ∧ c.minN < s.width + 1 := by
  have := drift_step_adwin c s v h
  rwa [adwin_step_n, adwin_insert_width] at this

/-- ADWIN, any history: `n` counts the updates since the last reset, `width ≤ n`, and there is no
drift while at most `minN` updates happened since the last reset. -/
theorem warmup_run_adwin (c : ADWIN.Cfg α) (ops : List (Op α)) :
    let s := (ADWIN.machine c).run ops
    s.n = sinceReset ops ∧ s.width ≤ s.n ∧ (sinceReset ops < c.minN + 1 → s.drift = false) := by
  intro s
  refine (ADWIN.machine c).run_ghost
    (fun k s => s.n = k ∧ s.width ≤ s.n ∧ (k < c.minN + 1 → s.drift = false)) ?_ ?_ ?_ ops
  · exact ⟨rfl, Nat.le_refl _, fun _ => rfl⟩
  · intro k s v ⟨hn, hw, _⟩
    simp only [ADWIN.machine]
    have h1 := adwin_step_n c s v
    have h2 := adwin_step_width_le c s v
    refine ⟨by omega, by omega, fun hk => ?_⟩
    cases hd : (ADWIN.step c s v).drift with
    | false => rfl
    | true =>
      have := drift_step_adwin' c s v hd
      omega
  · intro k s _
    exact ⟨rfl, Nat.le_refl _, fun _ => rfl⟩

/-- the width invariant for reachable states -/
theorem width_le_n_adwin (c : ADWIN.Cfg α) {s : ADWIN.State α} (h : (ADWIN.machine c).Reachable s) : s.width ≤ s.n := by
  obtain ⟨ops, rfl⟩ := ((ADWIN.machine c).reachable_iff_run s).1 h
  exact (warmup_run_adwin c ops).2.1

/-- non-vacuity: 5 updates after a reset with `minN = 5` -/
example (x : α) : sinceReset ([Op.update x, .reset] ++ List.replicate 5 (.update x))
    < (⟨32, Num.zero, 5, 5, 5⟩ : ADWIN.Cfg α).minN + 1 := by
  rw [sinceReset_replicate]; first | exact Nat.lt_succ_self _ | exact Nat.le_refl _

/-- ADWIN bookkeeping is exact: in every reachable state `width` is the number of stream values
held by the bucket rows, `Σ_i 2^i * |row i|` (`ADWIN.content 0 rows`). -/
theorem width_exact_adwin (c : ADWIN.Cfg α) {s : ADWIN.State α} (h : (ADWIN.machine c).Reachable s) :
    s.width = ADWIN.content 0 s.rows := by
  refine (ADWIN.machine c).invariant (P := fun s => s.width = ADWIN.content 0 s.rows) ?_ ?_ ?_ h
  · simp [ADWIN.machine, ADWIN.init, ADWIN.content]
  · intro s v hs; exact ADWIN.step_content c s v hs
  · intro s _; simp [ADWIN.machine, ADWIN.reset, ADWIN.content]

/-- … hence the truncated `Nat` subtraction `width - 2^k` of `deleteOldest` never truncates: either
nothing is deleted or `new width + 2^k = old width`.  (The same holds at the intermediate states
inside `step`, which satisfy the invariant by `ADWIN.insert_content`/`ADWIN.deleteOldest_content`.) -/
theorem deleteOldest_exact_adwin (c : ADWIN.Cfg α) {s : ADWIN.State α} (h : (ADWIN.machine c).Reachable s) :
    (ADWIN.deleteOldest s).width = s.width ∨
    (ADWIN.deleteOldest s).width + 2 ^ (s.rows.length - 1) = s.width :=
  (ADWIN.deleteOldest_content s (width_exact_adwin c h)).2

example (c : ADWIN.Cfg α) (x y : α) : (ADWIN.machine c).Reachable (ADWIN.step c (ADWIN.step c ADWIN.init x) y) :=
  .step y (.step x .init)

/-! ## EDDM — flags need `minMis` misclassifications -/

theorem eddm_step_n (c : EDDM.Cfg α) (s : EDDM.State α) (v : α) : (EDDM.step c s v).n = s.n + 1 := by
  grind [EDDM.step]

theorem eddm_step_numMis (c : EDDM.Cfg α) (s : EDDM.State α) (v : α) :
    (EDDM.step c s v).numMis ≤ s.numMis + 1 := by
  grind [EDDM.step]

/-- several branches of `step` leave the flags as they were, so this is an invariant, not a
property of a single step from any state -/
theorem eddm_step_flags (c : EDDM.Cfg α) (s : EDDM.State α) (v : α)
    (h : (s.drift = true ∨ s.warning = true) → c.minMis ≤ s.numMis) :
    ((EDDM.step c s v).drift = true ∨ (EDDM.step c s v).warning = true) → c.minMis ≤ (EDDM.step c s v).numMis := by
  grind [EDDM.step]

/-- EDDM, any history: `n` counts the updates since the last reset, `numMis ≤ n`, and a raised flag
implies that at least `minMis` misclassifications were seen since the last reset. -/
theorem warmup_run_eddm (c : EDDM.Cfg α) (ops : List (Op α)) :
    let s := (EDDM.machine c).run ops
    s.n = sinceReset ops ∧ s.numMis ≤ s.n ∧ ((s.drift = true ∨ s.warning = true) → c.minMis ≤ s.numMis) := by
  intro s
  refine (EDDM.machine c).run_ghost
    (fun k s => s.n = k ∧ s.numMis ≤ s.n ∧ ((s.drift = true ∨ s.warning = true) → c.minMis ≤ s.numMis)) ?_ ?_ ?_ ops
  · exact ⟨rfl, Nat.le_refl _, by simp [EDDM.machine, EDDM.init]⟩
  · intro k s v ⟨hn, hm, hf⟩
    simp only [EDDM.machine]
    have h1 := eddm_step_n c s v
    have h2 := eddm_step_numMis c s v
    exact ⟨by omega, by omega, eddm_step_flags c s v hf⟩
  · intro k s _
    exact ⟨rfl, Nat.le_refl _, by simp [EDDM.machine, EDDM.reset]⟩

/-- reachable-state form -/
theorem warmup_eddm (c : EDDM.Cfg α) {s : EDDM.State α} (h : (EDDM.machine c).Reachable s) :
    s.numMis ≤ s.n ∧ ((s.drift = true ∨ s.warning = true) → c.minMis ≤ s.numMis) := by
  obtain ⟨ops, rfl⟩ := ((EDDM.machine c).reachable_iff_run s).1 h
  exact (warmup_run_eddm c ops).2

/-- consequence: flags are off while fewer than `minMis` updates happened since the last reset -/
theorem warmup_run_eddm' (c : EDDM.Cfg α) (ops : List (Op α)) (h : sinceReset ops < c.minMis) :
    ((EDDM.machine c).run ops).drift = false ∧ ((EDDM.machine c).run ops).warning = false := by
  obtain ⟨h1, h2, h3⟩ := warmup_run_eddm c ops
  cases hd : ((EDDM.machine c).run ops).drift <;> cases hw : ((EDDM.machine c).run ops).warning <;>
    simp only [hd, hw] at h3 <;> first | exact ⟨rfl, rfl⟩ | (have := h3 (by simp); omega)

example (x : α) : sinceReset ([Op.update x, .reset] ++ List.replicate 29 (.update x))
    < (⟨Num.zero, Num.zero, Num.zero, 30⟩ : EDDM.Cfg α).minMis := by
  rw [sinceReset_replicate]; first | exact Nat.lt_succ_self _ | exact Nat.le_refl _

theorem excl_step_eddm (c : EDDM.Cfg α) (s : EDDM.State α) (v : α) (hs : ¬ (s.drift = true ∧ s.warning = true)) :
    ¬ ((EDDM.step c s v).drift = true ∧ (EDDM.step c s v).warning = true) := by
  grind [EDDM.step]

theorem excl_eddm (c : EDDM.Cfg α) {s : EDDM.State α} (h : (EDDM.machine c).Reachable s) :
    ¬ (s.drift = true ∧ s.warning = true) := by
  refine (EDDM.machine c).invariant (P := fun s => ¬ (s.drift = true ∧ s.warning = true)) ?_ ?_ ?_ h
  · simp [EDDM.machine, EDDM.init]
  · intro s v hs; exact excl_step_eddm c s v hs
  · intro s _; simp [EDDM.machine, EDDM.reset]

example (c : EDDM.Cfg α) (x : α) : (EDDM.machine c).Reachable (EDDM.step c EDDM.init x) := .step x .init

/-! ## RDDM — `rebuild` rewinds `n`, so the warm-up is stated with the ghost counter
`u = sinceReset ops` (product machine `Machine.run_ghost`).  No assumption on the configuration is
needed (in particular not `0 < minConcept`: with capacity 0 every `enqueue` fails, the state only
records the error, and the statements still hold). -/

/-- one update of the product machine `(u, s) ↦ (u + 1, step s v)` preserves the invariant -/
theorem rddm_step_inv (c : RDDM.Cfg α) (u : Nat) (s : RDDM.State α) (v : α)
    (h : s.n ≤ u ∧ s.preds.count ≤ u ∧ (s.rddmDrift = true → c.minN ≤ s.n) ∧
         ((u < c.minN ∨ u = 0) → s.drift = false ∧ s.warning = false)) :
    let s' := RDDM.step c s v
    s'.n ≤ u + 1 ∧ s'.preds.count ≤ u + 1 ∧ (s'.rddmDrift = true → c.minN ≤ s'.n) ∧
    ((u + 1 < c.minN ∨ u + 1 = 0) → s'.drift = false ∧ s'.warning = false) := by
  intro s'
  obtain ⟨hn, hc, _, hf⟩ := h
  obtain ⟨p1, p2, _, p4, p5, p6⟩ := RDDM.pre_spec c s
  obtain ⟨q1, q2, q3, _, q5, _, _⟩ := RDDM.post_spec c (RDDM.pre c s) v
  have hs' : s' = RDDM.post c (RDDM.pre c s) v := RDDM.step_eq c s v
  rw [hs']
  refine ⟨by omega, by rw [p1] at q5; omega, fun h => by rw [q1]; exact q2 h p4, fun hk => ?_⟩
  have hu : u < c.minN := by omega
  obtain ⟨f1, f2⟩ := hf (Or.inl hu)
  obtain ⟨g1, g2⟩ := q3 (by omega)
  constructor
  · cases hd : (RDDM.post c (RDDM.pre c s) v).drift with
    | false => rfl
    | true => have := p5 (g1 hd); simp [f1] at this
  · cases hw : (RDDM.post c (RDDM.pre c s) v).warning with
    | false => rfl
    | true => have := g2 hw; rw [p2, f2] at this; simp at this

/-- RDDM, any history, with `u = sinceReset ops` the number of updates since the last reset:
`n ≤ u`, the queue holds at most `u` predictions, `rddmDrift` implies `minN ≤ n` (hence
`minN ≤ u`), and both flags are off while `u < minN` (or `u = 0`). -/
theorem warmup_run_rddm (c : RDDM.Cfg α) (ops : List (Op α)) :
    let s := (RDDM.machine c).run ops
    let u := sinceReset ops
    s.n ≤ u ∧ s.preds.count ≤ u ∧ (s.rddmDrift = true → c.minN ≤ s.n ∧ c.minN ≤ u) ∧
    ((u < c.minN ∨ u = 0) → s.drift = false ∧ s.warning = false) := by
  intro s u
  have key := (RDDM.machine c).run_ghost
    (fun u s => s.n ≤ u ∧ s.preds.count ≤ u ∧ (s.rddmDrift = true → c.minN ≤ s.n) ∧
         ((u < c.minN ∨ u = 0) → s.drift = false ∧ s.warning = false)) ?_ ?_ ?_ ops
  · obtain ⟨k1, k2, k3, k4⟩ := key
    exact ⟨k1, k2, fun h => ⟨k3 h, Nat.le_trans (k3 h) k1⟩, k4⟩
  · simp [RDDM.machine, RDDM.init, CQ.init]
  · intro k s v h; exact rddm_step_inv c k s v h
  · intro k s _; simp [RDDM.machine, RDDM.reset, CQ.clear]

example (x : α) : sinceReset ([Op.update x, .reset] ++ List.replicate 128 (.update x))
    < (⟨Num.zero, Num.zero, 129, 40000, 7000, 1400⟩ : RDDM.Cfg α).minN := by
  rw [sinceReset_replicate]; first | exact Nat.lt_succ_self _ | exact Nat.le_refl _

/-- one update preserves exclusivity -/
theorem excl_step_rddm (c : RDDM.Cfg α) (s : RDDM.State α) (v : α) (hs : ¬ (s.drift = true ∧ s.warning = true)) :
    ¬ ((RDDM.step c s v).drift = true ∧ (RDDM.step c s v).warning = true) := by
  rw [RDDM.step_eq]
  obtain ⟨_, p2, _, _, p5, _⟩ := RDDM.pre_spec c s
  obtain ⟨_, _, _, q4, _⟩ := RDDM.post_spec c (RDDM.pre c s) v
  rintro ⟨hd, hw⟩
  obtain ⟨a, b⟩ := q4 hd hw
  exact hs ⟨p5 a, by rw [← p2]; exact b⟩

theorem excl_rddm (c : RDDM.Cfg α) {s : RDDM.State α} (h : (RDDM.machine c).Reachable s) :
    ¬ (s.drift = true ∧ s.warning = true) := by
  refine (RDDM.machine c).invariant (P := fun s => ¬ (s.drift = true ∧ s.warning = true)) ?_ ?_ ?_ h
  · simp [RDDM.machine, RDDM.init]
  · intro s v hs; exact excl_step_rddm c s v hs
  · intro s _; simp [RDDM.machine, RDDM.reset]

example (c : RDDM.Cfg α) (x : α) : (RDDM.machine c).Reachable (RDDM.step c (RDDM.init c) x) := .step x .init

/-! ## Sharpness of the warm-up lengths at the level of control flow

The theorems above quantify over every carrier.  On the degenerate carrier `yesNum` (all
comparisons answer `true`) the first test that is allowed to run raises the flag, so the warm-up
lengths `minN`, `2 * minN` (STEPD), `minN + 1` (ADWIN) cannot be enlarged in a carrier-generic
statement, and RDDM's counter really is rewound (`n < sinceReset`), which is why its theorem says
`≤`.  These are facts about the model's control flow on a toy carrier, NOT about doubles. -/

/-- a degenerate carrier on which every comparison answers `true` -/
@[reducible] def yesNum : Num Unit where
  add _ _ := ()
  sub _ _ := ()
  mul _ _ := ()
  div _ _ := ()
  neg _ := ()
  ofNat _ := ()
  ofDec _ _ := ()
  sqrt _ := ()
  log _ := ()
  exp _ := ()
  abs _ := ()
  npow _ _ := ()
  lt _ _ := true
  le _ _ := true
  beq _ _ := true

section Sharp
attribute [local instance] yesNum

/-- `k` updates -/
def ups (k : Nat) : List (Op Unit) := List.replicate k (.update ())

theorem warmup_tight_ddm_witness :
    let c : DDM.Cfg Unit := ⟨(), (), 3⟩
    sinceReset (ups 3) = c.minN ∧ ((DDM.machine c).run (ups 3)).drift = true := by decide

theorem warmup_tight_cusum_witness :
    let c : CUSUMFam.Cfg Unit := ⟨.cusum, (), (), (), 3⟩
    sinceReset (ups 3) = c.minN ∧ ((CUSUMFam.machine c).run (ups 3)).drift = true := by decide

theorem warmup_tight_stepd_witness :
    let c : STEPD.Cfg Unit := ⟨(), (), 2⟩
    let ops : List (Op Bool) := List.replicate 4 (.update true)
    sinceReset ops = 2 * c.minN ∧ ((STEPD.machine (fun _ => ()) c).run ops).drift = true := by decide

theorem warmup_tight_kswin_witness :
    let c : KSWIN.Cfg Unit := ⟨(), 3, 1⟩
    let ops : List (Op (Unit × List Nat)) := List.replicate 3 (.update ((), [0]))
    sinceReset ops = c.minN ∧ ((KSWIN.machine (fun _ _ => ()) c).run ops).drift = true := by decide

theorem warmup_tight_adwin_witness :
    let c : ADWIN.Cfg Unit := ⟨1, (), 5, 0, 3⟩
    sinceReset (ups 4) = c.minN + 1 ∧ ((ADWIN.machine c).run (ups 4)).drift = true := by decide

/-- RDDM: after a drift the next update rewinds `n` to the queue content (here 1 after 2 updates),
so "`n` = number of updates since the last reset" is FALSE for RDDM; only `≤` holds. -/
theorem rddm_n_rewound_witness :
    let c : RDDM.Cfg Unit := ⟨(), (), 1, 10, 1, 1⟩
    sinceReset (ups 2) = 2 ∧ ((RDDM.machine c).run (ups 2)).n = 1 := by decide
end Sharp

end Frouros.C01

#print axioms Frouros.C01.warmup_step_ddm
#print axioms Frouros.C01.warmup_run_ddm
#print axioms Frouros.C01.excl_step_ddm
#print axioms Frouros.C01.excl_ddm
#print axioms Frouros.C01.warmup_step_ecdd
#print axioms Frouros.C01.warmup_run_ecdd
#print axioms Frouros.C01.excl_step_ecdd
#print axioms Frouros.C01.excl_ecdd
#print axioms Frouros.C01.warmup_step_hddma
#print axioms Frouros.C01.warmup_run_hddma
#print axioms Frouros.C01.excl_step_hddma
#print axioms Frouros.C01.excl_hddma
#print axioms Frouros.C01.warmup_step_hddmw
#print axioms Frouros.C01.warmup_run_hddmw
#print axioms Frouros.C01.excl_step_hddmw
#print axioms Frouros.C01.excl_hddmw
#print axioms Frouros.C01.warmup_step_cusum
#print axioms Frouros.C01.warmup_run_cusum
#print axioms Frouros.C01.warmup_run_bocd
#print axioms Frouros.C01.warmup_step_stepd
#print axioms Frouros.C01.warmup_run_stepd
#print axioms Frouros.C01.excl_step_stepd
#print axioms Frouros.C01.excl_stepd
#print axioms Frouros.C01.warmup_run_kswin
#print axioms Frouros.C01.drift_step_adwin
#print axioms Frouros.C01.warmup_run_adwin
#print axioms Frouros.C01.width_le_n_adwin
#print axioms Frouros.C01.width_exact_adwin
#print axioms Frouros.C01.deleteOldest_exact_adwin
#print axioms Frouros.C01.warmup_run_eddm
#print axioms Frouros.C01.warmup_eddm
#print axioms Frouros.C01.warmup_run_eddm'
#print axioms Frouros.C01.excl_step_eddm
#print axioms Frouros.C01.excl_eddm
#print axioms Frouros.C01.rddm_step_inv
#print axioms Frouros.C01.warmup_run_rddm
#print axioms Frouros.C01.excl_step_rddm
#print axioms Frouros.C01.excl_rddm
#print axioms Frouros.C01.warmup_tight_ddm_witness
#print axioms Frouros.C01.warmup_tight_cusum_witness
#print axioms Frouros.C01.warmup_tight_stepd_witness
#print axioms Frouros.C01.warmup_tight_kswin_witness
#print axioms Frouros.C01.warmup_tight_adwin_witness
#print axioms Frouros.C01.rddm_n_rewound_witness
