/-
  C08 — BOCD maintains the exact Bayesian run-length posterior.

  Model: `BOCD` in `FrourosModel/Change.lean` (Gaussian observation model with known variance `dataVar`,
  conjugate prior `N(priorMean, priorVar)` on the mean, constant hazard `h`).

  Conventions
  * `runUpd f c xs` is the state after the updates `xs` (oldest first) of a fresh detector; by
    `run_since_reset` this is also the state after ANY history whose last reset is followed by `xs`.
  * Control-flow facts (`LenInv`, `map_rule*`, `warmup`, `argmax_eq_iff`) hold for every carrier `[Num α]`.
  * Arithmetic facts are over `ℝ`.  Hypotheses used (each theorem lists only those it needs):
      `LSESpec f`        : the external `logsumexp` is exact on non-empty lists;
      `0 < h`, `h < 1`, `c.logH = log h`, `c.log1mH = log (1-h)` : the two stored logs are those of a hazard in (0,1)
                           (needed so that `exp` of them is `h`, `1-h`; `Real.log` of a non-positive number is junk);
      `0 < c.priorVar`, `0 < c.dataVar` : all precisions are positive, no division by zero anywhere;
      `f.logC` is ARBITRARY: it cancels (`joint_ratio_logC_indep`, `posterior_exact_gaussian`).
  * No junk values are relied on: every `zipWith` in a statement is between lists of equal length
    (`LenInv`, `msg_length`), every `log`/division has a positive argument (`sum_exp_pos`, `precAt_pos`,
    `evidence_pos`), the `headD` defaults of the model are never reached (`LenInv`).

  THE MESSAGE (C08n).  The model passes on the NORMALISED joint: `BOCD.step` ends with `logMessage := row` (the
  one-line repair of `bocd.py`; before it the field held the unnormalised `new_log_joint`).  Consequences here:
  * `Lemmas/BOCDUnnormalised.lean` keeps the OLD step verbatim as a ghost/reference recursion `BOCDU.step`
    (`BOCDU.runUpd`); it is not part of the model.  The classical message-level theorems (Adams–MacKay recursion
    with the unnormalised message, message = joint, Σ message = evidence) are proved for it in `namespace U` below,
    with the texts the registered theorems had before the repair.
  * `U.step_shift` (gauge invariance: shifting the incoming log-message by a constant shifts the outgoing one by the
    same constant and changes NOTHING else) and `sim_run` (simulation): along every run the model state equals the
    ghost state in `n, drift, row, predMean, predVar, means, precs`, and its log-message is the ghost's minus
    `log (evidence)`.  Hence every theorem about row / drift / predictions is unchanged (same text, same strength).
  * the registered theorems that MENTION the message (`message_forward_step`, `message_forward`,
    `message_eq_joint_test`, `message_eq_joint`, `evidence_eq_joint`) are restated for the normalised message:
    `M' = fwd(M)/Σ fwd(M)`, `M_t[r] = P(r_t = r | x_{1:t})`, `Σ M_t = 1`, and the evidence now appears as the factor
    between the model's and the ghost's message and (one step) as the model's normaliser
    `Σ fwd(M_t) = P(x_{1:t+1}) / P(x_{1:t})`.  `row_eq_log_msg` holds verbatim.
  * new: `logMessage_eq_row` (every carrier), `message_normalised`, `message_normalised_vs_evidence`.

  Main theorems (task numbering)
    1. `params_closed_form`, `params_entry`
    2. `row_normalised` (all reachable states), `row_normalised_step` (any state)
    3. `map_rule`, `map_rule_reachable`, `warmup` (any carrier); `argmax_eq_iff` (any carrier, in
       `Lemmas/C08Argmax.lean`), `argmax_real`, `map_rule_real`
    4. `message_forward_step`, `message_forward`, `row_eq_log_msg`; and the full forward-algorithm correctness
       `message_eq_joint_test`, `message_eq_joint`, `evidence_eq_joint`, `posterior_exact`,
       `posterior_exact_gaussian` (sum over explicit changepoint configurations);
       `message_normalised` (every reachable state: message = exp row, sums to one), `sim_run`, `sim_fields`,
       `sim_msg`, `U.step_shift`, and the `U.*` theorems about the unnormalised ghost recursion
    5. `pred_step`, `pred_mixture` (weights = CURRENT row, every run length `0..t`), `pred_mixture_posterior`
       (weights = exact posterior, convex combination), `pred_mean_first`
-/
import FrourosProofs.RealNum
import FrourosProofs.Machines
import FrourosProofs.Lemmas.C08Argmax
import FrourosProofs.Lemmas.C08List
import FrourosProofs.Lemmas.BOCDUnnormalised
import Mathlib.Analysis.SpecialFunctions.Trigonometric.Basic
import Mathlib.Tactic

namespace Frouros.C08
open Frouros BOCD

/-! ## 0. Set-up: bookkeeping invariant, runs, hypotheses (arbitrary carrier) -/
section Generic
variable {α : Type} [Num α]

/-- bookkeeping invariant: the four per-run-length lists all have length `n+1` -/
def LenInv (s : State α) : Prop :=
  s.row.length = s.n + 1 ∧ s.logMessage.length = s.n + 1 ∧ s.means.length = s.n + 1 ∧ s.precs.length = s.n + 1

theorem lenInv_init (c : Cfg α) : LenInv (init c) := by simp [LenInv, init]

theorem lenInv_step (f : Fns α) (c : Cfg α) (s : State α) (v : α) (h : LenInv s) : LenInv (step f c s v) := by
  obtain ⟨_, h2, h3, h4⟩ := h
  simp [LenInv, step, varParams, h2, h3, h4]

/-- `LenInv` holds in every reachable state (any history of updates and resets), for every carrier -/
theorem lenInv_reachable (f : Fns α) (c : Cfg α) {s : State α} (h : (BOCD.machine f c).Reachable s) : LenInv s :=
  Machine.invariant (BOCD.machine f c) (P := LenInv) (lenInv_init c) (fun s v hs => lenInv_step f c s v hs)
    (fun _ _ => lenInv_init c) h

/-- state after the updates `xs` from a fresh detector (no reset) -/
def runUpd (f : Fns α) (c : Cfg α) (xs : List α) : State α := xs.foldl (step f c) (init c)

theorem runUpd_eq_run (f : Fns α) (c : Cfg α) (xs : List α) :
    runUpd f c xs = (BOCD.machine f c).run (xs.map Op.update) := by
  unfold runUpd Machine.run Machine.runFrom
  rw [List.foldl_map]
  rfl

theorem runUpd_snoc (f : Fns α) (c : Cfg α) (xs : List α) (v : α) :
    runUpd f c (xs ++ [v]) = step f c (runUpd f c xs) v := by
  simp [runUpd, List.foldl_append]

theorem runUpd_reachable (f : Fns α) (c : Cfg α) (xs : List α) : (BOCD.machine f c).Reachable (runUpd f c xs) := by
  rw [runUpd_eq_run]; exact Machine.reachable_run _ _

theorem runUpd_n (f : Fns α) (c : Cfg α) (xs : List α) : (runUpd f c xs).n = xs.length := by
  induction xs using List.reverseRecOn with
  | nil => rfl
  | append_singleton xs v ih => rw [runUpd_snoc]; simp [step, ih]

theorem lenInv_runUpd (f : Fns α) (c : Cfg α) (xs : List α) : LenInv (runUpd f c xs) :=
  lenInv_reachable f c (runUpd_reachable f c xs)

/-- "no reset" is no loss of generality: after any history that ends with a reset followed by the updates
`xs`, the state is `runUpd f c xs` (so every `runUpd` theorem below speaks about the values since the LAST reset) -/
theorem run_since_reset (f : Fns α) (c : Cfg α) (pre : List (Op α)) (xs : List α) :
    (BOCD.machine f c).run (pre ++ [Op.reset] ++ xs.map Op.update) = runUpd f c xs := by
  rw [Machine.run_after_reset (BOCD.machine f c) (fun _ _ => rfl), runUpd_eq_run]

theorem step_precs (f : Fns α) (c : Cfg α) (s : State α) (v : α) :
    (step f c s v).precs = s.precs.headD Num.zero :: s.precs.map (· + Num.one / c.dataVar) := rfl

/-- **the message IS the row (every carrier, every reachable state, any history of updates and resets).**
This is the repaired line `logMessage := row` read as a state invariant. -/
theorem logMessage_eq_row (f : Fns α) (c : Cfg α) {s : State α} (h : (BOCD.machine f c).Reachable s) :
    s.logMessage = s.row := by
  cases h with
  | init => rfl
  | step v _ => rfl
  | reset _ => rfl

/-! ### the ghost recursion `BOCDU` (unnormalised message): bookkeeping, every carrier -/

theorem U.lenInv_step (f : Fns α) (c : Cfg α) (s : State α) (v : α) (h : LenInv s) : LenInv (BOCDU.step f c s v) := by
  obtain ⟨_, h2, h3, h4⟩ := h
  simp [LenInv, BOCDU.step, varParams, h2, h3, h4]

theorem U.lenInv_runUpd (f : Fns α) (c : Cfg α) (xs : List α) : LenInv (BOCDU.runUpd f c xs) := by
  induction xs using List.reverseRecOn with
  | nil => exact lenInv_init c
  | append_singleton xs v ih => rw [BOCDU.runUpd_snoc]; exact U.lenInv_step f c _ v ih

/-- counter and per-run-length parameters never read the message: the ghost run has the model's -/
theorem U.runUpd_params (f : Fns α) (c : Cfg α) (xs : List α) :
    (BOCDU.runUpd f c xs).n = (runUpd f c xs).n ∧ (BOCDU.runUpd f c xs).means = (runUpd f c xs).means ∧
    (BOCDU.runUpd f c xs).precs = (runUpd f c xs).precs := by
  induction xs using List.reverseRecOn with
  | nil => exact ⟨rfl, rfl, rfl⟩
  | append_singleton xs v ih =>
    obtain ⟨h1, h2, h3⟩ := ih
    rw [BOCDU.runUpd_snoc, runUpd_snoc]
    refine ⟨?_, ?_, ?_⟩
    · show (BOCDU.runUpd f c xs).n + 1 = (runUpd f c xs).n + 1
      rw [h1]
    · show (BOCDU.runUpd f c xs).means.headD Num.zero :: _ = (runUpd f c xs).means.headD Num.zero :: _
      rw [h2, h3]
    · show (BOCDU.runUpd f c xs).precs.headD Num.zero :: _ = (runUpd f c xs).precs.headD Num.zero :: _
      rw [h3]

theorem U.runUpd_n (f : Fns α) (c : Cfg α) (xs : List α) : (BOCDU.runUpd f c xs).n = xs.length := by
  rw [(U.runUpd_params f c xs).1, C08.runUpd_n]

/-! ## 3. MAP decision rule and warm-up (arbitrary carrier) -/

/-- **3. MAP rule (decision table), arbitrary carrier.**  Once `n ≥ minN` (here `n = s.n+1` is the counter after
the update) the flag is exactly "`np.argmax` of the new row is not the last index `n`".  Hypothesis: `minN ≤ n`
(below it the flag is left untouched, see `drift_warmup_step`/`warmup`). -/
theorem map_rule (f : Fns α) (c : Cfg α) (s : State α) (v : α) (h : c.minN ≤ s.n + 1) :
    (step f c s v).drift = true ↔ argmax (step f c s v).row ≠ (step f c s v).n := by
  simp [step, h]

/-- state-based form of the MAP rule: in EVERY reachable state past the warm-up, `drift ↔ argmax row ≠ n` -/
theorem map_rule_reachable (f : Fns α) (c : Cfg α) {s : State α} (hs : (BOCD.machine f c).Reachable s)
    (h : c.minN ≤ s.n) : s.drift = true ↔ argmax s.row ≠ s.n := by
  cases hs with
  | init => simp [BOCD.machine, init, argmax, argmax.go]
  | step v _ => exact map_rule f c _ v h
  | reset _ => simp [BOCD.machine, reset, init, argmax, argmax.go]

/-- below `minN` the update leaves the flag as it was -/
theorem drift_warmup_step (f : Fns α) (c : Cfg α) (s : State α) (v : α) (h : s.n + 1 < c.minN) :
    (step f c s v).drift = s.drift := by
  have : ¬ c.minN ≤ s.n + 1 := by omega
  simp [step, this]

/-- warm-up: no reachable state with `n < minN` has the drift flag set -/
theorem warmup (f : Fns α) (c : Cfg α) {s : State α} (h : (BOCD.machine f c).Reachable s) :
    s.n < c.minN → s.drift = false := by
  refine Machine.invariant (BOCD.machine f c) (P := fun s => s.n < c.minN → s.drift = false) ?_ ?_ ?_ h
  · intro _; rfl
  · intro s v ih hn
    have hn' : s.n + 1 < c.minN := hn
    show (step f c s v).drift = false
    rw [drift_warmup_step f c s v hn']
    exact ih (by omega)
  · intro _ _ _; rfl

end Generic

/-! ## Hypothesis on the external routine, and the `ℝ` reading of `sumList` -/

/-- the specification of the external `logsumexp` routine (scipy's `logsumexp`), exact over ℝ; only required on
non-empty lists (`log 0` is junk) -/
def LSESpec (f : Fns ℝ) : Prop := ∀ l : List ℝ, l ≠ [] → f.logSumExp l = Real.log ((l.map Real.exp).sum)

/-- the model's left fold `sumList` (`np.sum`) is the list sum over ℝ -/
theorem sumList_eq (l : List ℝ) : sumList l = l.sum := by
  unfold sumList
  have : ∀ (a : ℝ), l.foldl (· + ·) a = a + l.sum := by
    induction l with
    | nil => intro a; simp
    | cons x xs ih => intro a; simp [ih]; ring
  simpa using this 0

/-! ### Non-vacuity: one concrete instance satisfying every hypothesis used in this file

`exFns` is the exact `logsumexp` with the true Gaussian constant; `exCfg h` is the detector with prior `N(0,1)`,
unit data variance, hazard `h` and `min_num_instances = 1`.  The `example`s placed after the main theorems
instantiate them at `exFns`, `exCfg (1/4)` (resp. `exCfg (1/2)`) on short concrete streams. -/

/-- exact `logsumexp`, true Gaussian constant -/
noncomputable def exFns : Fns ℝ := ⟨fun l => Real.log ((l.map Real.exp).sum), Real.log (Real.sqrt (2 * Real.pi))⟩
/-- prior `N(0,1)`, unit data variance, hazard `h`, `min_num_instances = 1` -/
noncomputable def exCfg (h : ℝ) : Cfg ℝ := ⟨0, 1, 1, Real.log h, Real.log (1 - h), 1⟩

theorem exFns_spec : LSESpec exFns := fun _ _ => rfl

/-- all hypotheses of the arithmetic theorems hold simultaneously for the instance -/
example : LSESpec exFns ∧ (0:ℝ) < 1/4 ∧ (1/4:ℝ) < 1 ∧ (exCfg (1/4)).logH = Real.log (1/4) ∧
    (exCfg (1/4)).log1mH = Real.log (1 - 1/4) ∧ 0 < (exCfg (1/4)).priorVar ∧ 0 < (exCfg (1/4)).dataVar :=
  ⟨exFns_spec, by norm_num, by norm_num, rfl, rfl, by norm_num [exCfg], by norm_num [exCfg]⟩

/-! ## 2. The posterior row is normalised -/

/-- one update from ANY state (no invariant needed): the new row is normalised.  Only `LSESpec` is used. -/
theorem row_normalised_step (f : Fns ℝ) (hLSE : LSESpec f) (c : Cfg ℝ) (s : State ℝ) (v : ℝ) :
    ((step f c s v).row.map Real.exp).sum = 1 := by
  unfold step
  simp only []
  rw [hLSE (_ :: _) (List.cons_ne_nil _ _)]
  exact softmax_normalised _ (List.cons_ne_nil _ _)

/-- **2. In every reachable state the row is a probability vector of length `n+1`**: `Σ_r exp(row[r]) = 1`.
Hypothesis: only `LSESpec f` (the config is arbitrary — normalisation does not depend on it). -/
theorem row_normalised (f : Fns ℝ) (hLSE : LSESpec f) (c : Cfg ℝ) {s : State ℝ}
    (h : (BOCD.machine f c).Reachable s) : (s.row.map Real.exp).sum = 1 ∧ s.row.length = s.n + 1 := by
  refine ⟨?_, (lenInv_reachable f c h).1⟩
  cases h with
  | init => simp [BOCD.machine, init]
  | step v _ => exact row_normalised_step f hLSE c _ v
  | reset _ => simp [BOCD.machine, reset, init]

example : ((runUpd exFns (exCfg (1/4)) [1, 2, 5]).row.map Real.exp).sum = 1 ∧
    (runUpd exFns (exCfg (1/4)) [1, 2, 5]).row.length = 3 + 1 := by
  have := row_normalised exFns exFns_spec (exCfg (1/4)) (runUpd_reachable exFns (exCfg (1/4)) [1, 2, 5])
  rwa [runUpd_n] at this

/-! ## 3 (ℝ). MAP rule over the reals -/

/-- **3 (ℝ).** After an update past the warm-up, NO drift is flagged iff the longest run length `n` (no changepoint
since the last reset) is the STRICT maximum of the posterior row: ties are resolved towards a changepoint because
`argmax` returns the first maximal index. -/
theorem map_rule_real (f : Fns ℝ) (c : Cfg ℝ) {s : State ℝ} (hs : (BOCD.machine f c).Reachable s) (v : ℝ)
    (h : c.minN ≤ s.n + 1) :
    (step f c s v).drift = false ↔
      ∃ hn : s.n + 1 < (step f c s v).row.length, ∀ j (hj : j < s.n + 1), (step f c s v).row[j] < (step f c s v).row[s.n + 1] := by
  have hlen := (lenInv_step f c s v (lenInv_reachable f c hs)).1
  have hn' : (step f c s v).n = s.n + 1 := rfl
  have hne : (step f c s v).row ≠ [] := by
    intro h0; rw [h0] at hlen; simp at hlen
  have h1 := map_rule f c s v h
  rw [hn'] at h1 hlen
  have h2 : (step f c s v).drift = false ↔ argmax (step f c s v).row = s.n + 1 := by
    rw [← not_iff_not]
    exact Iff.trans (by simp) h1
  rw [h2, argmax_real _ hne]
  constructor
  · rintro ⟨hk, _, hfirst⟩; exact ⟨hk, hfirst⟩
  · rintro ⟨hk, hfirst⟩
    refine ⟨hk, ?_, hfirst⟩
    intro j hj
    rcases Nat.lt_or_ge j (s.n + 1) with hlt | hge
    · exact (hfirst j hlt).le
    · have : j = s.n + 1 := by omega
      subst this; exact le_refl _

/-! ## 1. Closed form of the sufficient statistics -/

/-- posterior precision of the mean after absorbing `r` observations -/
noncomputable def precAt (c : Cfg ℝ) (r : ℕ) : ℝ := 1 / c.priorVar + (r : ℝ) / c.dataVar

/-- posterior mean after absorbing the LAST `r` values of `xs` (`xs` oldest first) -/
noncomputable def meanAt (c : Cfg ℝ) (xs : List ℝ) (r : ℕ) : ℝ :=
  (c.priorMean / c.priorVar + (xs.reverse.take r).sum / c.dataVar) / precAt c r

theorem precAt_pos (c : Cfg ℝ) (hpv : 0 < c.priorVar) (hdv : 0 < c.dataVar) (r : ℕ) : 0 < precAt c r := by
  unfold precAt; positivity

theorem meanAt_zero (c : Cfg ℝ) (hpv : 0 < c.priorVar) (xs : List ℝ) : meanAt c xs 0 = c.priorMean := by
  unfold meanAt precAt
  have := hpv.ne'
  simp
  field_simp

/-- **1. Closed form of the per-run-length parameters** after the updates `xs` (`t = xs.length`): both lists have
`t+1` entries and entry `r` is `precAt c r = 1/priorVar + r/dataVar`, resp.
`meanAt c xs r = (priorMean/priorVar + (Σ last r values)/dataVar) / precAt c r`; entry `0` is the prior.
Hypotheses `0 < priorVar`, `0 < dataVar` exclude every division by zero (they make all `precAt c r > 0`);
`f` is irrelevant. -/
theorem params_closed_form (f : Fns ℝ) (c : Cfg ℝ) (hpv : 0 < c.priorVar) (hdv : 0 < c.dataVar) (xs : List ℝ) :
    (runUpd f c xs).precs = (List.range (xs.length + 1)).map (precAt c) ∧
    (runUpd f c xs).means = (List.range (xs.length + 1)).map (meanAt c xs) := by
  induction xs using List.reverseRecOn with
  | nil =>
    constructor
    · simp [runUpd, init, precAt]
    · simp [runUpd, init, meanAt_zero c hpv]
  | append_singleton xs v ih =>
    obtain ⟨ihp, ihm⟩ := ih
    rw [runUpd_snoc]
    have hP : (step f c (runUpd f c xs) v).precs =
        (runUpd f c xs).precs.headD Num.zero :: (runUpd f c xs).precs.map (· + Num.one / c.dataVar) := rfl
    have hM : (step f c (runUpd f c xs) v).means =
        (runUpd f c xs).means.headD Num.zero ::
          List.zipWith (fun m pn => m / pn)
            (List.zipWith (fun mu p => mu * p + v / c.dataVar) (runUpd f c xs).means (runUpd f c xs).precs)
            ((runUpd f c xs).precs.map (· + Num.one / c.dataVar)) := rfl
    have hlen : (xs ++ [v]).length + 1 = (xs.length + 1) + 1 := by simp
    rw [hP, hM, ihp, ihm, hlen, map_range_succ _ (xs.length + 1), map_range_succ _ (xs.length + 1),
      headD_map_range, headD_map_range]
    constructor
    · rw [List.map_map]
      congr 1
      apply List.map_congr_left
      intro r _
      simp only [Function.comp, precAt, RealNum.one_eq]
      push_cast; ring
    · rw [List.map_map, zipWith_map_map, zipWith_map_map]
      have h0 : meanAt c xs 0 = meanAt c (xs ++ [v]) 0 := by rw [meanAt_zero c hpv, meanAt_zero c hpv]
      rw [h0]
      congr 1
      apply List.map_congr_left
      intro r _
      have h1 := (precAt_pos c hpv hdv r).ne'
      have h2 := (precAt_pos c hpv hdv (r + 1)).ne'
      have h3 : precAt c r + 1 / c.dataVar = precAt c (r + 1) := by
        simp only [precAt]; push_cast; ring
      simp only [Function.comp, RealNum.one_eq, h3]
      unfold meanAt
      simp only [List.reverse_append, List.reverse_cons, List.reverse_nil, List.nil_append, List.singleton_append,
        List.take_succ_cons, List.sum_cons]
      field_simp
      ring

/-- entrywise form of `params_closed_form` -/
theorem params_entry (f : Fns ℝ) (c : Cfg ℝ) (hpv : 0 < c.priorVar) (hdv : 0 < c.dataVar) (xs : List ℝ) :
    (runUpd f c xs).precs.length = xs.length + 1 ∧ (runUpd f c xs).means.length = xs.length + 1 ∧
    ∀ r, r ≤ xs.length →
      (runUpd f c xs).precs[r]? = some (1 / c.priorVar + (r : ℝ) / c.dataVar) ∧
      (runUpd f c xs).means[r]? =
        some ((c.priorMean / c.priorVar + (xs.reverse.take r).sum / c.dataVar) / (1 / c.priorVar + (r : ℝ) / c.dataVar)) := by
  obtain ⟨hp, hm⟩ := params_closed_form f c hpv hdv xs
  refine ⟨by rw [hp]; simp, by rw [hm]; simp, ?_⟩
  intro r hr
  have hr' : r < xs.length + 1 := by omega
  rw [hp, hm]
  simp [List.getElem?_map, List.getElem?_range hr', precAt, meanAt]

example : (runUpd exFns (exCfg (1/4)) [1, 2, 5]).precs = [1, 2, 3, 4] ∧
    (runUpd exFns (exCfg (1/4)) [1, 2, 5]).means = [0, 5/2, 7/3, 2] := by
  obtain ⟨hp, hm⟩ := params_closed_form exFns (exCfg (1/4)) (by norm_num [exCfg]) (by norm_num [exCfg]) [1, 2, 5]
  rw [hp, hm]
  constructor
  · simp [List.range_succ, precAt, exCfg]; norm_num
  · simp [List.range_succ, meanAt, precAt, exCfg]; norm_num

/-! ## 4. The message satisfies the Adams–MacKay forward recursion -/

/-- predictive density (as the code computes it) of `v` under run-length parameters `(mu, p)`:
`exp (norm(mu, sqrt(1/p + dataVar)).logpdf v)` -/
noncomputable def predDens (f : Fns ℝ) (c : Cfg ℝ) (mu p v : ℝ) : ℝ :=
  Real.exp (normLogPdf f mu (Real.sqrt (1 / p + c.dataVar)) v)

/-- `π_t` : predictive densities of `v` for every run length held in state `s` -/
noncomputable def piList (f : Fns ℝ) (c : Cfg ℝ) (s : State ℝ) (v : ℝ) : List ℝ :=
  List.zipWith (fun mu p => predDens f c mu p v) s.means s.precs

/-- the message in linear space -/
noncomputable def msg (s : State ℝ) : List ℝ := s.logMessage.map Real.exp

/-- `exp` of the model's `log_pis + log_message` is `M[r]·π[r]` -/
theorem exp_lpm (f : Fns ℝ) (c : Cfg ℝ) (v : ℝ) : ∀ (means precs lm : List ℝ),
    (List.zipWith (· + ·) (List.zipWith (fun mu var => normLogPdf f mu (Num.sqrt var) v) means (varParams c precs)) lm).map Real.exp
      = List.zipWith (fun m p => m * p) (lm.map Real.exp) (List.zipWith (fun mu p => predDens f c mu p v) means precs) := by
  intro means
  induction means with
  | nil => intro precs lm; simp
  | cons mu means ih =>
    intro precs lm
    cases precs with
    | nil => simp [varParams]
    | cons p precs =>
      cases lm with
      | nil => simp [varParams]
      | cons m lm =>
        have := ih precs lm
        simp only [varParams] at this
        simp only [varParams, List.map_cons, List.zipWith_cons_cons]
        rw [this]
        simp only [Real.exp_add, predDens, RealNum.sqrt_eq, RealNum.one_eq]
        rw [mul_comm]

/-- one Adams–MacKay forward step in linear space: from the message `M` and the predictive densities `π`,
`fwd h M π = (Σ_r M[r]·π[r]·h) :: [M[r]·π[r]·(1-h)]_r` (changepoint mass first, then the grown run lengths) -/
noncomputable def fwd (h : ℝ) (M π : List ℝ) : List ℝ :=
  (List.zipWith (fun m p => m * p * h) M π).sum :: List.zipWith (fun m p => m * p * (1 - h)) M π

/-- a list divided by its sum -/
noncomputable def normalise (l : List ℝ) : List ℝ := l.map (· / l.sum)

theorem sum_map_div_const (a : ℝ) (l : List ℝ) : (l.map (· / a)).sum = l.sum / a := by
  have : (fun x : ℝ => x / a) = (· * a⁻¹) := by funext x; rw [div_eq_mul_inv]
  rw [this, sum_map_mul_const, div_eq_mul_inv]

theorem normalise_sum (l : List ℝ) (hl : l.sum ≠ 0) : (normalise l).sum = 1 := by
  rw [normalise, sum_map_div_const, div_self hl]

theorem msg_init (c : Cfg ℝ) : msg (init c) = [1] := by simp [msg, init]

theorem msg_length (f : Fns ℝ) (c : Cfg ℝ) (xs : List ℝ) : (msg (runUpd f c xs)).length = xs.length + 1 := by
  rw [msg, List.length_map, (lenInv_runUpd f c xs).2.1, runUpd_n]

/-- `π_t[r]` in closed form: predictive density of the next value `v` given that the current run consists of
the last `r` values of `xs` -/
noncomputable def piAt (f : Fns ℝ) (c : Cfg ℝ) (xs : List ℝ) (v : ℝ) (r : ℕ) : ℝ :=
  predDens f c (meanAt c xs r) (precAt c r) v

theorem piList_closed (f : Fns ℝ) (c : Cfg ℝ) (hpv : 0 < c.priorVar) (hdv : 0 < c.dataVar) (xs : List ℝ) (v : ℝ) :
    piList f c (runUpd f c xs) v = (List.range (xs.length + 1)).map (piAt f c xs v) := by
  obtain ⟨hp, hm⟩ := params_closed_form f c hpv hdv xs
  unfold piList
  rw [hp, hm, zipWith_map_map]
  rfl

/-! ### 4-U. The ghost recursion `BOCDU` (UNNORMALISED message, the step function before the repair)

The theorems of this namespace are the message-level theorems as they were registered before the repair, with
`BOCD.step`/`runUpd` replaced by `BOCDU.step`/`BOCDU.runUpd`; their proofs are unchanged. -/
namespace U

/-- **Adams–MacKay forward recursion for the UNNORMALISED message (ghost), one step from any state satisfying
`LenInv`, linear space.**  With `M = exp logMessage`, `π = piList`: `M' = fwd h M π`, i.e. `M'[0] = Σ_r M[r]·π[r]·h`,
`M'[r+1] = M[r]·π[r]·(1-h)`, and `row'[r] = log (M'[r] / Σ M')`. -/
theorem message_forward_step (f : Fns ℝ) (hLSE : LSESpec f) (c : Cfg ℝ) (h : ℝ) (h0 : 0 < h) (h1 : h < 1)
    (hH : c.logH = Real.log h) (h1H : c.log1mH = Real.log (1 - h))
    (s : State ℝ) (hs : LenInv s) (v : ℝ) :
    msg (BOCDU.step f c s v) =
        (List.zipWith (fun m p => m * p * h) (msg s) (piList f c s v)).sum ::
          List.zipWith (fun m p => m * p * (1 - h)) (msg s) (piList f c s v) ∧
    (BOCDU.step f c s v).row =
      (msg (BOCDU.step f c s v)).map (fun m => Real.log (m / (msg (BOCDU.step f c s v)).sum)) := by
  obtain ⟨_, hl2, hl3, hl4⟩ := hs
  -- names for the intermediate lists of `step`
  set lpm := List.zipWith (· + ·)
    (List.zipWith (fun mu var => normLogPdf f mu (Num.sqrt var) v) s.means (varParams c s.precs)) s.logMessage with hlpm
  have hjoint : (BOCDU.step f c s v).logMessage = f.logSumExp (lpm.map (· + c.logH)) :: lpm.map (· + c.log1mH) := rfl
  have hrow : (BOCDU.step f c s v).row =
      ((BOCDU.step f c s v).logMessage).map (· - f.logSumExp (BOCDU.step f c s v).logMessage) := rfl
  have hlpmE : lpm.map Real.exp = List.zipWith (fun m p => m * p) (msg s) (piList f c s v) := exp_lpm f c v _ _ _
  have hne : lpm ≠ [] := by
    intro h0
    have : lpm.length = 0 := by rw [h0]; rfl
    simp [hlpm, varParams, hl2, hl3, hl4] at this
  have hmsg : msg (BOCDU.step f c s v) =
        (List.zipWith (fun m p => m * p * h) (msg s) (piList f c s v)).sum ::
          List.zipWith (fun m p => m * p * (1 - h)) (msg s) (piList f c s v) := by
    unfold msg at *
    rw [hjoint, List.map_cons, map_exp_add, hlpmE, hLSE _ (by simpa using hne), map_exp_add, hlpmE,
      Real.exp_log, hH, h1H, Real.exp_log h0, Real.exp_log (by linarith)]
    · simp [List.map_zipWith]
    · rw [sum_map_mul_const]
      have := sum_exp_pos lpm hne
      rw [hlpmE] at this
      have hh : 0 < Real.exp c.logH := Real.exp_pos _
      positivity
  refine ⟨hmsg, ?_⟩
  rw [hrow, hLSE _ (by rw [hjoint]; exact List.cons_ne_nil _ _)]
  unfold msg
  rw [List.map_map]
  apply List.map_congr_left
  intro x _
  have hS : 0 < ((BOCDU.step f c s v).logMessage.map Real.exp).sum :=
    sum_exp_pos _ (by rw [hjoint]; exact List.cons_ne_nil _ _)
  simp only [Function.comp]
  rw [Real.log_div (Real.exp_pos x).ne' hS.ne', Real.log_exp]

theorem msg_length (f : Fns ℝ) (c : Cfg ℝ) (xs : List ℝ) : (msg (BOCDU.runUpd f c xs)).length = xs.length + 1 := by
  rw [msg, List.length_map, (U.lenInv_runUpd f c xs).2.1, U.runUpd_n]

theorem piList_closed (f : Fns ℝ) (c : Cfg ℝ) (hpv : 0 < c.priorVar) (hdv : 0 < c.dataVar) (xs : List ℝ) (v : ℝ) :
    piList f c (BOCDU.runUpd f c xs) v = (List.range (xs.length + 1)).map (piAt f c xs v) := by
  rw [← C08.piList_closed f c hpv hdv xs v]
  unfold piList
  rw [(U.runUpd_params f c xs).2.1, (U.runUpd_params f c xs).2.2]

/-- **Forward recursion along a ghost run (unnormalised message), closed-form predictive densities.** -/
theorem message_forward (f : Fns ℝ) (hLSE : LSESpec f) (c : Cfg ℝ) (h : ℝ) (h0 : 0 < h) (h1 : h < 1)
    (hH : c.logH = Real.log h) (h1H : c.log1mH = Real.log (1 - h)) (hpv : 0 < c.priorVar) (hdv : 0 < c.dataVar)
    (xs : List ℝ) (v : ℝ) :
    msg (BOCDU.runUpd f c []) = [1] ∧
    msg (BOCDU.runUpd f c (xs ++ [v])) =
        (List.zipWith (fun m p => m * p * h) (msg (BOCDU.runUpd f c xs)) ((List.range (xs.length + 1)).map (piAt f c xs v))).sum ::
          List.zipWith (fun m p => m * p * (1 - h)) (msg (BOCDU.runUpd f c xs)) ((List.range (xs.length + 1)).map (piAt f c xs v)) ∧
    (BOCDU.runUpd f c (xs ++ [v])).row =
      (msg (BOCDU.runUpd f c (xs ++ [v]))).map (fun m => Real.log (m / (msg (BOCDU.runUpd f c (xs ++ [v]))).sum)) := by
  refine ⟨msg_init c, ?_⟩
  have := message_forward_step f hLSE c h h0 h1 hH h1H (BOCDU.runUpd f c xs) (U.lenInv_runUpd f c xs) v
  rw [piList_closed f c hpv hdv, ← BOCDU.runUpd_snoc] at this
  exact this

/-- in every state of a ghost run the row is the normalised message, `row[r] = log (M[r] / Σ M)` -/
theorem row_eq_log_msg (f : Fns ℝ) (hLSE : LSESpec f) (c : Cfg ℝ) (h : ℝ) (h0 : 0 < h) (h1 : h < 1)
    (hH : c.logH = Real.log h) (h1H : c.log1mH = Real.log (1 - h)) (xs : List ℝ) :
    (BOCDU.runUpd f c xs).row =
      (msg (BOCDU.runUpd f c xs)).map (fun m => Real.log (m / (msg (BOCDU.runUpd f c xs)).sum)) := by
  induction xs using List.reverseRecOn with
  | nil => simp [BOCDU.runUpd, init, msg]
  | append_singleton xs v _ =>
    rw [BOCDU.runUpd_snoc]
    exact (message_forward_step f hLSE c h h0 h1 hH h1H _ (U.lenInv_runUpd f c xs) v).2

/-- the ghost message is positive and non-empty: its sum (the evidence) is positive -/
theorem msg_sum_pos (f : Fns ℝ) (c : Cfg ℝ) (xs : List ℝ) : 0 < (msg (BOCDU.runUpd f c xs)).sum := by
  apply sum_exp_pos
  intro h0
  have := (U.lenInv_runUpd f c xs).2.1
  rw [h0] at this; simp at this

end U

/-! ### 4-S. Gauge invariance and the simulation: the repair changes the message by a constant and nothing else -/

/-- `logsumexp` commutes with a constant shift (exact routine, non-empty list) -/
theorem lse_shift (f : Fns ℝ) (hLSE : LSESpec f) (k : ℝ) (l : List ℝ) (hl : l ≠ []) :
    f.logSumExp (l.map (· - k)) = f.logSumExp l - k := by
  rw [hLSE _ (by simpa using hl), hLSE _ hl, sum_exp_sub,
    Real.log_div (sum_exp_pos l hl).ne' (Real.exp_pos k).ne', Real.log_exp]

theorem zipWith_add_map_sub (k : ℝ) : ∀ (a b : List ℝ),
    List.zipWith (· + ·) a (b.map (· - k)) = (List.zipWith (· + ·) a b).map (· - k) := by
  intro a
  induction a with
  | nil => intro b; simp
  | cons x a ih =>
    intro b
    cases b with
    | nil => simp
    | cons y b => simp only [List.map_cons, List.zipWith_cons_cons, ih b]; congr 1; ring

/-- the unnormalised joint is equivariant under a constant shift of the incoming log-message -/
theorem jointOf_shift (f : Fns ℝ) (hLSE : LSESpec f) (c : Cfg ℝ) (means precs lm : List ℝ) (v k : ℝ)
    (hm : means.length = lm.length) (hp : precs.length = lm.length) (hl : lm ≠ []) :
    BOCDU.jointOf f c means precs (lm.map (· - k)) v = (BOCDU.jointOf f c means precs lm v).map (· - k) := by
  unfold BOCDU.jointOf
  simp only []
  rw [zipWith_add_map_sub]
  set lpm := List.zipWith (· + ·)
    (List.zipWith (fun mu var => normLogPdf f mu (Num.sqrt var) v) means (varParams c precs)) lm with hlpm
  have hne : lpm ≠ [] := by
    have hlen : lpm.length = lm.length := by simp [hlpm, varParams, hm, hp]
    intro h0
    rw [h0] at hlen
    exact hl (List.length_eq_zero_iff.mp hlen.symm)
  have e1 : (lpm.map (· - k)).map (· + c.logH) = (lpm.map (· + c.logH)).map (· - k) := by
    rw [List.map_map, List.map_map]; apply List.map_congr_left; intro x _; simp only [Function.comp]; ring
  have e2 : (lpm.map (· - k)).map (· + c.log1mH) = (lpm.map (· + c.log1mH)).map (· - k) := by
    rw [List.map_map, List.map_map]; apply List.map_congr_left; intro x _; simp only [Function.comp]; ring
  rw [e1, e2, lse_shift f hLSE k _ (by simpa using hne), List.map_cons]

/-- **gauge invariance of the (ghost) step.**  Subtracting a constant `k` from every entry of the incoming
log-message (= dividing the linear message by `exp k`) subtracts the same `k` from the outgoing log-message and
changes NO other field: row, drift flag, predictions, parameters, counter are identical.  Hypotheses: `LSESpec f`,
`LenInv s` (the zipped lists are non-empty, so `logsumexp` is applied to non-empty lists). -/
theorem U.step_shift (f : Fns ℝ) (hLSE : LSESpec f) (c : Cfg ℝ) (s : State ℝ) (hs : LenInv s) (v k : ℝ) :
    BOCDU.step f c { s with logMessage := s.logMessage.map (· - k) } v =
      { BOCDU.step f c s v with logMessage := (BOCDU.step f c s v).logMessage.map (· - k) } := by
  obtain ⟨_, hl2, hl3, hl4⟩ := hs
  have hne : s.logMessage ≠ [] := by intro h0; rw [h0] at hl2; simp at hl2
  rw [BOCDU.step_eq_finish, BOCDU.step_eq_finish]
  show BOCDU.finish c s v
      ((BOCDU.jointOf f c s.means s.precs (s.logMessage.map (· - k)) v).map
        (· - f.logSumExp (BOCDU.jointOf f c s.means s.precs (s.logMessage.map (· - k)) v)))
      (BOCDU.jointOf f c s.means s.precs (s.logMessage.map (· - k)) v) =
    BOCDU.finish c s v
      ((BOCDU.jointOf f c s.means s.precs s.logMessage v).map
        (· - f.logSumExp (BOCDU.jointOf f c s.means s.precs s.logMessage v)))
      ((BOCDU.jointOf f c s.means s.precs s.logMessage v).map (· - k))
  rw [jointOf_shift f hLSE c _ _ _ v k (by rw [hl3, hl2]) (by rw [hl4, hl2]) hne]
  have hJ : BOCDU.jointOf f c s.means s.precs s.logMessage v ≠ [] := List.cons_ne_nil _ _
  rw [lse_shift f hLSE k _ hJ, List.map_map]
  congr 1
  apply List.map_congr_left
  intro x _
  simp only [Function.comp]
  ring

/-- **the simulation (state form).**  After the same updates `xs`, the model state (normalised message) is the
ghost state (unnormalised message) with the log-message shifted by `log Σ M^U` — the log-evidence, see
`U.evidence_eq_joint`; ALL other fields coincide.  Only `LSESpec f` is used. -/
theorem sim_run (f : Fns ℝ) (hLSE : LSESpec f) (c : Cfg ℝ) (xs : List ℝ) :
    runUpd f c xs = { BOCDU.runUpd f c xs with
      logMessage := (BOCDU.runUpd f c xs).logMessage.map (· - Real.log ((msg (BOCDU.runUpd f c xs)).sum)) } := by
  induction xs using List.reverseRecOn with
  | nil =>
    have e : (BOCDU.runUpd f c []).logMessage.map (· - Real.log ((msg (BOCDU.runUpd f c [])).sum)) =
        (init c).logMessage := by
      simp [BOCDU.runUpd, msg, init]
    rw [e]; rfl
  | append_singleton xs v ih =>
    rw [runUpd_snoc, ih, BOCDU.runUpd_snoc, BOCDU.step_eq_ghost,
      U.step_shift f hLSE c _ (U.lenInv_runUpd f c xs)]
    show { BOCDU.step f c (BOCDU.runUpd f c xs) v with logMessage := (BOCDU.step f c (BOCDU.runUpd f c xs) v).row } = _
    have hne : (BOCDU.step f c (BOCDU.runUpd f c xs) v).logMessage ≠ [] := List.cons_ne_nil _ _
    rw [BOCDU.ghost_row_eq, hLSE _ hne]
    rfl

/-- **the simulation (field form)**: the repair does not change `n`, the drift flag, the row, the predictions or
the parameters on any stream (over ℝ, exact `logsumexp`) -/
theorem sim_fields (f : Fns ℝ) (hLSE : LSESpec f) (c : Cfg ℝ) (xs : List ℝ) :
    (runUpd f c xs).n = (BOCDU.runUpd f c xs).n ∧ (runUpd f c xs).drift = (BOCDU.runUpd f c xs).drift ∧
    (runUpd f c xs).row = (BOCDU.runUpd f c xs).row ∧ (runUpd f c xs).predMean = (BOCDU.runUpd f c xs).predMean ∧
    (runUpd f c xs).predVar = (BOCDU.runUpd f c xs).predVar ∧ (runUpd f c xs).means = (BOCDU.runUpd f c xs).means ∧
    (runUpd f c xs).precs = (BOCDU.runUpd f c xs).precs := by
  have h := sim_run f hLSE c xs
  exact ⟨by rw [h], by rw [h], by rw [h], by rw [h], by rw [h], by rw [h], by rw [h]⟩

/-- **the simulation (message, linear space)**: the model's message is the ghost's divided by its sum -/
theorem sim_msg (f : Fns ℝ) (hLSE : LSESpec f) (c : Cfg ℝ) (xs : List ℝ) :
    msg (runUpd f c xs) = normalise (msg (BOCDU.runUpd f c xs)) := by
  have h := congrArg State.logMessage (sim_run f hLSE c xs)
  have hS := U.msg_sum_pos f c xs
  unfold normalise
  rw [msg, h]
  show ((BOCDU.runUpd f c xs).logMessage.map _).map Real.exp = ((BOCDU.runUpd f c xs).logMessage.map Real.exp).map _
  rw [List.map_map, List.map_map]
  apply List.map_congr_left
  intro x _
  simp only [Function.comp]
  rw [Real.exp_sub, Real.exp_log hS]

/-! ### 4-M. The model: forward recursion with the NORMALISED message -/

/-- **4. Adams–MacKay forward recursion with normalisation, one step of the MODEL from any state satisfying
`LenInv`, linear space.**  With `M = exp logMessage`, `π = piList` (predictive densities):
`M' = fwd h M π / Σ (fwd h M π)` where `fwd h M π = (Σ_r M[r]·π[r]·h) :: [M[r]·π[r]·(1-h)]_r` is the classical
(unnormalised) forward step; `row'[r] = log (M'[r] / Σ M')` (and `Σ M' = 1`, `message_normalised`).  `LenInv`
guarantees that the three zipped lists have equal, non-zero length (so nothing is truncated and `logsumexp` is
applied to non-empty lists).  [Before the repair: `M' = fwd h M π` — now `U.message_forward_step`.] -/
theorem message_forward_step (f : Fns ℝ) (hLSE : LSESpec f) (c : Cfg ℝ) (h : ℝ) (h0 : 0 < h) (h1 : h < 1)
    (hH : c.logH = Real.log h) (h1H : c.log1mH = Real.log (1 - h))
    (s : State ℝ) (hs : LenInv s) (v : ℝ) :
    msg (step f c s v) = normalise (fwd h (msg s) (piList f c s v)) ∧
    (step f c s v).row = (msg (step f c s v)).map (fun m => Real.log (m / (msg (step f c s v)).sum)) := by
  obtain ⟨hU, hUrow⟩ := U.message_forward_step f hLSE c h h0 h1 hH h1H s hs v
  have hne : (BOCDU.step f c s v).logMessage ≠ [] := List.cons_ne_nil _ _
  have hS : 0 < (msg (BOCDU.step f c s v)).sum := sum_exp_pos _ hne
  have hrow : (step f c s v).row = (BOCDU.step f c s v).row := rfl
  have hmsg : msg (step f c s v) = (step f c s v).row.map Real.exp := rfl
  have hM : msg (step f c s v) = normalise (msg (BOCDU.step f c s v)) := by
    rw [hmsg, hrow, hUrow, List.map_map]
    unfold normalise
    apply List.map_congr_left
    intro x hx
    have hx0 : 0 < x := by
      obtain ⟨y, _, rfl⟩ := List.mem_map.mp hx
      exact Real.exp_pos y
    simp only [Function.comp]
    rw [Real.exp_log (div_pos hx0 hS)]
  refine ⟨by rw [hM, hU]; rfl, ?_⟩
  rw [hrow, hUrow, hM, normalise_sum _ hS.ne']
  unfold normalise
  rw [List.map_map]
  apply List.map_congr_left
  intro x _
  simp only [Function.comp, div_one]

/-- **what the model divides by.**  With `J = BOCDU.jointOf …` the unnormalised log joint that `BOCD.step` computes
from state `s` and value `v` (`new_log_joint` in the Python code): the new row AND the new message are
`J - logsumexp J` (definitional), and the normaliser `exp (logsumexp J)` is `Σ fwd h M π = Σ_r M[r]·π[r]`, the
one-step predictive density of `v` under the current run-length distribution (see `evidence_eq_joint` (iii)). -/
theorem normaliser_eq (f : Fns ℝ) (hLSE : LSESpec f) (c : Cfg ℝ) (h : ℝ) (h0 : 0 < h) (h1 : h < 1)
    (hH : c.logH = Real.log h) (h1H : c.log1mH = Real.log (1 - h))
    (s : State ℝ) (hs : LenInv s) (v : ℝ) :
    (step f c s v).row = (BOCDU.jointOf f c s.means s.precs s.logMessage v).map
        (· - f.logSumExp (BOCDU.jointOf f c s.means s.precs s.logMessage v)) ∧
    (step f c s v).logMessage = (step f c s v).row ∧
    Real.exp (f.logSumExp (BOCDU.jointOf f c s.means s.precs s.logMessage v)) =
      (fwd h (msg s) (piList f c s v)).sum ∧
    (fwd h (msg s) (piList f c s v)).sum = (List.zipWith (· * ·) (msg s) (piList f c s v)).sum := by
  refine ⟨rfl, rfl, ?_, ?_⟩
  · have hJ : BOCDU.jointOf f c s.means s.precs s.logMessage v = (BOCDU.step f c s v).logMessage := rfl
    have hne : (BOCDU.step f c s v).logMessage ≠ [] := List.cons_ne_nil _ _
    rw [hJ, hLSE _ hne, Real.exp_log (sum_exp_pos _ hne)]
    show (msg (BOCDU.step f c s v)).sum = _
    rw [(U.message_forward_step f hLSE c h h0 h1 hH h1H s hs v).1]
    rfl
  · unfold fwd
    rw [List.sum_cons]
    generalize msg s = M
    generalize piList f c s v = P
    induction M generalizing P with
    | nil => simp
    | cons m M ih =>
      cases P with
      | nil => simp
      | cons p P =>
        simp only [List.zipWith_cons_cons, List.sum_cons]
        have := ih P
        linarith

/-- one update from ANY state: the new message is the `exp` of the new row and sums to one -/
theorem message_normalised_step (f : Fns ℝ) (hLSE : LSESpec f) (c : Cfg ℝ) (s : State ℝ) (v : ℝ) :
    msg (step f c s v) = (step f c s v).row.map Real.exp ∧ (msg (step f c s v)).sum = 1 :=
  ⟨rfl, row_normalised_step f hLSE c s v⟩

/-- **NEW (C08n). The message is the run-length distribution.**  In EVERY reachable state (any history of updates
and resets) the linear-space message is `exp` of the row, has `n+1` entries and sums to ONE.  Only `LSESpec f`.
Contrast: for the unnormalised recursion `Σ M^U_t` is the evidence `P(x_{1:t})` (`U.evidence_eq_joint`,
`message_normalised_vs_evidence`), which tends to `0` or `∞` geometrically in `t`. -/
theorem message_normalised (f : Fns ℝ) (hLSE : LSESpec f) (c : Cfg ℝ) {s : State ℝ}
    (h : (BOCD.machine f c).Reachable s) :
    msg s = s.row.map Real.exp ∧ (msg s).sum = 1 ∧ (msg s).length = s.n + 1 := by
  have e : msg s = s.row.map Real.exp := by rw [msg, logMessage_eq_row f c h]
  obtain ⟨h1, h2⟩ := row_normalised f hLSE c h
  exact ⟨e, by rw [e, h1], by rw [e, List.length_map, h2]⟩

/-- **4. Forward recursion along a run of the MODEL, with the closed-form predictive densities
`π_t[r] = piAt f c xs v r`**: `M_0 = [1]`; `M_{t+1} = fwd h M_t π_t / Σ fwd h M_t π_t`, i.e.
`M_{t+1}[0] ∝ Σ_{r≤t} M_t[r]·π[r]·h`, `M_{t+1}[r+1] ∝ M_t[r]·π[r]·(1-h)`; `row_{t+1}[r] = log (M_{t+1}[r] / Σ M_{t+1})`.
Both zipped lists have length `t+1` (`msg_length`). -/
theorem message_forward (f : Fns ℝ) (hLSE : LSESpec f) (c : Cfg ℝ) (h : ℝ) (h0 : 0 < h) (h1 : h < 1)
    (hH : c.logH = Real.log h) (h1H : c.log1mH = Real.log (1 - h)) (hpv : 0 < c.priorVar) (hdv : 0 < c.dataVar)
    (xs : List ℝ) (v : ℝ) :
    msg (runUpd f c []) = [1] ∧
    msg (runUpd f c (xs ++ [v])) =
        normalise (fwd h (msg (runUpd f c xs)) ((List.range (xs.length + 1)).map (piAt f c xs v))) ∧
    (runUpd f c (xs ++ [v])).row =
      (msg (runUpd f c (xs ++ [v]))).map (fun m => Real.log (m / (msg (runUpd f c (xs ++ [v]))).sum)) := by
  refine ⟨msg_init c, ?_⟩
  have := message_forward_step f hLSE c h h0 h1 hH h1H (runUpd f c xs) (lenInv_runUpd f c xs) v
  rw [piList_closed f c hpv hdv, ← runUpd_snoc] at this
  exact this

/-- in every state of a run the row is the normalised message, `row[r] = log (M[r] / Σ M)` (also at `t = 0`).
(Verbatim the statement before the repair; now moreover `Σ M = 1`, so `row[r] = log M[r]`: `message_normalised`.) -/
theorem row_eq_log_msg (f : Fns ℝ) (hLSE : LSESpec f) (c : Cfg ℝ) (h : ℝ) (h0 : 0 < h) (h1 : h < 1)
    (hH : c.logH = Real.log h) (h1H : c.log1mH = Real.log (1 - h)) (xs : List ℝ) :
    (runUpd f c xs).row = (msg (runUpd f c xs)).map (fun m => Real.log (m / (msg (runUpd f c xs)).sum)) := by
  induction xs using List.reverseRecOn with
  | nil => simp [runUpd, init, msg]
  | append_singleton xs v _ =>
    rw [runUpd_snoc]
    exact (message_forward_step f hLSE c h h0 h1 hH h1H _ (lenInv_runUpd f c xs) v).2

/-- sanity instance of the forward recursion: after ONE update the posterior is `[h, 1-h]` whatever the value -/
theorem row_after_one (f : Fns ℝ) (hLSE : LSESpec f) (c : Cfg ℝ) (h : ℝ) (h0 : 0 < h) (h1 : h < 1)
    (hH : c.logH = Real.log h) (h1H : c.log1mH = Real.log (1 - h)) (hpv : 0 < c.priorVar) (hdv : 0 < c.dataVar)
    (v : ℝ) : (runUpd f c [v]).row = [Real.log h, Real.log (1 - h)] := by
  obtain ⟨hm0, hm1, hrow⟩ := U.message_forward f hLSE c h h0 h1 hH h1H hpv hdv [] v
  simp only [List.nil_append] at hm1 hrow
  rw [(sim_fields f hLSE c [v]).2.2.1, hrow, hm1, hm0]
  have hπ : 0 < piAt f c [] v 0 := Real.exp_pos _
  simp only [List.length_nil, Nat.zero_add, List.range_one, List.map_cons, List.map_nil, List.zipWith_cons_cons,
    List.zipWith_nil_left, List.sum_cons, List.sum_nil, one_mul, add_zero]
  have e : piAt f c [] v 0 * h + piAt f c [] v 0 * (1 - h) = piAt f c [] v 0 := by ring
  rw [e, mul_div_cancel_left₀ _ hπ.ne', mul_div_cancel_left₀ _ hπ.ne']

/-- the message after one update, concretely: `[h, 1-h]` (it is a probability vector, whatever `v` and `logC`) -/
theorem msg_after_one (f : Fns ℝ) (hLSE : LSESpec f) (c : Cfg ℝ) (h : ℝ) (h0 : 0 < h) (h1 : h < 1)
    (hH : c.logH = Real.log h) (h1H : c.log1mH = Real.log (1 - h)) (hpv : 0 < c.priorVar) (hdv : 0 < c.dataVar)
    (v : ℝ) : msg (runUpd f c [v]) = [h, 1 - h] := by
  rw [(message_normalised f hLSE c (runUpd_reachable f c [v])).1, row_after_one f hLSE c h h0 h1 hH h1H hpv hdv v]
  simp [Real.exp_log h0, Real.exp_log (show (0:ℝ) < 1 - h by linarith)]

example := message_forward exFns exFns_spec (exCfg (1/4)) (1/4) (by norm_num) (by norm_num) rfl rfl
  (by norm_num [exCfg]) (by norm_num [exCfg]) [1, 2] 5
example := U.message_forward exFns exFns_spec (exCfg (1/4)) (1/4) (by norm_num) (by norm_num) rfl rfl
  (by norm_num [exCfg]) (by norm_num [exCfg]) [1, 2] 5

/-! Non-vacuity of the simulation and of `message_normalised` on the concrete instance. -/
example := sim_run exFns exFns_spec (exCfg (1/4)) [1, 2, 5]
example : (runUpd exFns (exCfg (1/4)) [1, 2, 5]).row = (BOCDU.runUpd exFns (exCfg (1/4)) [1, 2, 5]).row ∧
    (runUpd exFns (exCfg (1/4)) [1, 2, 5]).drift = (BOCDU.runUpd exFns (exCfg (1/4)) [1, 2, 5]).drift :=
  ⟨(sim_fields exFns exFns_spec (exCfg (1/4)) [1, 2, 5]).2.2.1, (sim_fields exFns exFns_spec (exCfg (1/4)) [1, 2, 5]).2.1⟩
example : (msg (runUpd exFns (exCfg (1/4)) [1, 2, 5])).sum = 1 ∧ (msg (runUpd exFns (exCfg (1/4)) [1, 2, 5])).length = 4 := by
  have := message_normalised exFns exFns_spec (exCfg (1/4)) (runUpd_reachable exFns (exCfg (1/4)) [1, 2, 5])
  rw [runUpd_n] at this
  exact ⟨this.2.1, this.2.2⟩
/-- concrete numbers: after one update (hazard `1/4`) the model's message is the probability vector `[1/4, 3/4]` -/
example (v : ℝ) : msg (runUpd exFns (exCfg (1/4)) [v]) = [1/4, 3/4] := by
  rw [msg_after_one exFns exFns_spec (exCfg (1/4)) (1/4) (by norm_num) (by norm_num) rfl rfl
    (by norm_num [exCfg]) (by norm_num [exCfg]) v]
  norm_num
/-- … after a reset in the middle of a history the message is again a probability vector (any history) -/
example : (msg ((BOCD.machine exFns (exCfg (1/4))).run [.update 7, .reset, .update 1, .update 2])).sum = 1 :=
  (message_normalised exFns exFns_spec (exCfg (1/4)) (Machine.reachable_run _ _)).2.1

/-! Non-vacuity of the MAP rule (`map_rule`, `map_rule_reachable`, `map_rule_real`): with `minN = 1` the
hypothesis `minN ≤ n` holds after the first update and BOTH outcomes occur. -/

/-- both outcomes of the MAP rule occur: hazard `1/4` ⇒ `argmax = n = 1`, no drift … -/
example (v : ℝ) : (runUpd exFns (exCfg (1/4)) [v]).drift = false := by
  have hr := row_after_one exFns exFns_spec (exCfg (1/4)) (1/4) (by norm_num) (by norm_num) rfl rfl
    (by norm_num [exCfg]) (by norm_num [exCfg]) v
  have hs := runUpd_reachable exFns (exCfg (1/4)) [v]
  have hmr := map_rule_reachable exFns (exCfg (1/4)) hs (by rw [runUpd_n]; simp [exCfg])
  rw [hr, runUpd_n] at hmr
  have : argmax [Real.log (1/4), Real.log (1 - 1/4)] = 1 := by
    rw [argmax_real _ (by simp)]
    refine ⟨by simp, ?_, ?_⟩
    · intro j hj
      have : j < 2 := by simpa using hj
      have hlt : Real.log (1/4) ≤ Real.log (1 - 1/4) := Real.log_le_log (by norm_num) (by norm_num)
      interval_cases j
      · simpa using hlt
      · simp
    · intro j hj
      have hlt : Real.log (1/4) < Real.log (1 - 1/4) := Real.log_lt_log (by norm_num) (by norm_num)
      interval_cases j
      simpa using hlt
  rw [this] at hmr
  simpa using hmr

/-- … hazard `1/2` ⇒ a tie, `argmax` returns the FIRST maximal index `0 ≠ 1`, drift -/
example (v : ℝ) : (runUpd exFns (exCfg (1/2)) [v]).drift = true := by
  have hr := row_after_one exFns exFns_spec (exCfg (1/2)) (1/2) (by norm_num) (by norm_num) rfl rfl
    (by norm_num [exCfg]) (by norm_num [exCfg]) v
  have hs := runUpd_reachable exFns (exCfg (1/2)) [v]
  rw [map_rule_reachable exFns (exCfg (1/2)) hs (by rw [runUpd_n]; simp [exCfg]), hr, runUpd_n]
  have : argmax [Real.log (1/2), Real.log (1 - 1/2)] = 0 := by
    rw [argmax_real _ (by simp)]
    refine ⟨by simp, ?_, ?_⟩
    · intro j hj
      have : j < 2 := by simpa using hj
      interval_cases j <;> norm_num
    · intro j hj; omega
  rw [this]; simp

/-- the predictive density written out: a Gaussian kernel with variance `1/p + dataVar`, normalising
constant `exp logC · σ` (`= √(2π)·σ` when `logC = log √(2π)`) -/
theorem predDens_formula (f : Fns ℝ) (c : Cfg ℝ) (mu p v : ℝ) (hσ : 0 < 1 / p + c.dataVar) :
    predDens f c mu p v =
      (Real.exp f.logC * Real.sqrt (1 / p + c.dataVar))⁻¹ * Real.exp (-(v - mu) ^ 2 / (2 * (1 / p + c.dataVar))) := by
  unfold predDens normLogPdf
  simp only [RealNum.npow_eq, RealNum.two_eq, RealNum.log_eq]
  have hs : 0 < Real.sqrt (1 / p + c.dataVar) := Real.sqrt_pos.mpr hσ
  rw [Real.exp_sub, Real.exp_sub, Real.exp_log hs, div_pow, Real.sq_sqrt hσ.le]
  have : -((v - mu) ^ 2 / (1 / p + c.dataVar)) / 2 = -(v - mu) ^ 2 / (2 * (1 / p + c.dataVar)) := by
    field_simp
  rw [this]
  field_simp

/-- with the true constant `logC = log √(2π)` the model's predictive density is the `N(mu, 1/p + dataVar)` density -/
theorem predDens_gaussian (f : Fns ℝ) (hC : f.logC = Real.log (Real.sqrt (2 * Real.pi))) (c : Cfg ℝ) (mu p v : ℝ)
    (hσ : 0 < 1 / p + c.dataVar) :
    predDens f c mu p v =
      (Real.sqrt (2 * Real.pi * (1 / p + c.dataVar)))⁻¹ * Real.exp (-(v - mu) ^ 2 / (2 * (1 / p + c.dataVar))) := by
  have hpi : 0 < Real.sqrt (2 * Real.pi) := Real.sqrt_pos.mpr (by positivity)
  rw [Real.sqrt_mul (show (0:ℝ) ≤ 2 * Real.pi by positivity) (1 / p + c.dataVar),
    predDens_formula f c mu p v hσ, hC, Real.exp_log hpi]

/-! ## 4b. The explicit joint over changepoint configurations; exactness of the posterior -/

/-- current run length of a changepoint configuration (NEWEST decision first; `true` = "a changepoint
occurred at that step", i.e. `r_t = 0`; `false` = growth `r_t = r_{t-1}+1`) -/
def runLen : List Bool → ℕ
  | [] => 0
  | true :: _ => 0
  | false :: bs => runLen bs + 1

/-- all `2^t` changepoint configurations of length `t` -/
def allConfigs : ℕ → List (List Bool)
  | 0 => [[]]
  | t + 1 => (allConfigs t).map (true :: ·) ++ (allConfigs t).map (false :: ·)

/-- joint weight `P(r_{1:t}, x_{1:t})` of a configuration (observations `ys` NEWEST first, so `ys = xs.reverse`):
product over time of `predictive density of x_s given the current run` × `hazard factor` -/
noncomputable def jointRev (f : Fns ℝ) (c : Cfg ℝ) (h : ℝ) : List ℝ → List Bool → ℝ
  | x :: ys, b :: bs =>
      jointRev f c h ys bs * piAt f c ys.reverse x (runLen bs) * (if b then h else 1 - h)
  | _, _ => 1

/-- `allConfigs t` contains exactly the Boolean lists of length `t` … -/
theorem mem_allConfigs (t : ℕ) (bs : List Bool) : bs ∈ allConfigs t ↔ bs.length = t := by
  induction t generalizing bs with
  | zero => simp [allConfigs]
  | succ t ih =>
    simp only [allConfigs, List.mem_append, List.mem_map]
    constructor
    · rintro (⟨a, ha, rfl⟩ | ⟨a, ha, rfl⟩) <;> simp [(ih a).mp ha]
    · intro hl
      cases bs with
      | nil => simp at hl
      | cons b bs =>
        have hbs : bs ∈ allConfigs t := (ih bs).mpr (by simpa using hl)
        cases b
        · right; exact ⟨bs, hbs, rfl⟩
        · left; exact ⟨bs, hbs, rfl⟩

/-- … each exactly once -/
theorem nodup_allConfigs (t : ℕ) : (allConfigs t).Nodup := by
  induction t with
  | zero => simp [allConfigs]
  | succ t ih =>
    simp only [allConfigs]
    refine List.Nodup.append (ih.map (fun a b hab => by simpa using hab)) (ih.map (fun a b hab => by simpa using hab)) ?_
    intro a ha hb
    obtain ⟨x, _, rfl⟩ := List.mem_map.mp ha
    obtain ⟨y, _, hy⟩ := List.mem_map.mp hb
    simp at hy

/-! ### 4b-U. Forward-algorithm correctness for the ghost recursion (unnormalised message = joint) -/
namespace U

/-- **Forward-algorithm correctness (test-function form), unnormalised message.**  For every `φ`,
`Σ_r M^U_t[r]·φ(r) = Σ_{configurations} P(config, x_{1:t})·φ(run length of config)`. -/
theorem message_eq_joint_test (f : Fns ℝ) (hLSE : LSESpec f) (c : Cfg ℝ) (h : ℝ) (h0 : 0 < h) (h1 : h < 1)
    (hH : c.logH = Real.log h) (h1H : c.log1mH = Real.log (1 - h)) (hpv : 0 < c.priorVar) (hdv : 0 < c.dataVar)
    (xs : List ℝ) : ∀ φ : ℕ → ℝ,
    (List.zipWith (fun m r => m * φ r) (msg (BOCDU.runUpd f c xs)) (List.range (xs.length + 1))).sum =
      ((allConfigs xs.length).map (fun bs => jointRev f c h xs.reverse bs * φ (runLen bs))).sum := by
  induction xs using List.reverseRecOn with
  | nil => intro φ; simp [msg, BOCDU.runUpd, init, allConfigs, jointRev, runLen]
  | append_singleton xs v ih =>
    intro φ
    obtain ⟨_, hmsg, _⟩ := message_forward f hLSE c h h0 h1 hH h1H hpv hdv xs v
    rw [hmsg]
    have hl : (xs ++ [v]).length = xs.length + 1 := by simp
    rw [hl, List.range_succ_eq_map (n := xs.length + 1), List.zipWith_cons_cons,
      List.zipWith_map_right (f := Nat.succ), List.sum_cons]
    have := forward_key h (φ 0) (piAt f c xs v) (fun r => φ (r + 1)) (msg (BOCDU.runUpd f c xs)) (List.range (xs.length + 1))
    rw [this, ih]
    simp only [allConfigs, List.map_append, List.map_map, List.sum_append, List.reverse_append, List.reverse_cons,
      List.reverse_nil, List.nil_append, List.singleton_append, Function.comp_def, jointRev, runLen,
      List.reverse_reverse, if_true, Bool.false_eq_true, if_false]
    rw [← List.sum_map_add]
    congr 1
    apply List.map_congr_left
    intro bs _
    ring

/-- **Forward-algorithm correctness, entrywise, unnormalised message**: `M^U_t[r]` is the sum of the joint weights
of all changepoint configurations whose current run length is `r`. -/
theorem message_eq_joint (f : Fns ℝ) (hLSE : LSESpec f) (c : Cfg ℝ) (h : ℝ) (h0 : 0 < h) (h1 : h < 1)
    (hH : c.logH = Real.log h) (h1H : c.log1mH = Real.log (1 - h)) (hpv : 0 < c.priorVar) (hdv : 0 < c.dataVar)
    (xs : List ℝ) (r : ℕ) (hr : r < (msg (BOCDU.runUpd f c xs)).length) :
    (msg (BOCDU.runUpd f c xs))[r] =
      (((allConfigs xs.length).filter (fun bs => decide (runLen bs = r))).map (jointRev f c h xs.reverse)).sum := by
  have key := message_eq_joint_test f hLSE c h h0 h1 hH h1H hpv hdv xs (fun k => if k = r then 1 else 0)
  rw [sum_map_mul_ite (jointRev f c h xs.reverse) (fun bs => runLen bs = r)] at key
  rw [← key, sum_zipWith_range_aux _ _ (msg_length f c xs)]
  have hr' : r < xs.length + 1 := by rw [← msg_length f c xs]; exact hr
  rw [Finset.sum_eq_single ⟨r, hr'⟩]
  · simp
  · intro b _ hb
    have : (b : ℕ) ≠ r := fun hbr => hb (Fin.ext hbr)
    simp [this]
  · intro hb; exact absurd (Finset.mem_univ _) hb

/-- for the unnormalised recursion the normaliser `Σ_r M^U_t[r]` is the evidence
`P(x_{1:t}) = Σ_{all configurations} P(config, x_{1:t})` -/
theorem evidence_eq_joint (f : Fns ℝ) (hLSE : LSESpec f) (c : Cfg ℝ) (h : ℝ) (h0 : 0 < h) (h1 : h < 1)
    (hH : c.logH = Real.log h) (h1H : c.log1mH = Real.log (1 - h)) (hpv : 0 < c.priorVar) (hdv : 0 < c.dataVar)
    (xs : List ℝ) :
    (msg (BOCDU.runUpd f c xs)).sum = ((allConfigs xs.length).map (jointRev f c h xs.reverse)).sum := by
  have key := message_eq_joint_test f hLSE c h h0 h1 hH h1H hpv hdv xs (fun _ => 1)
  simp only [mul_one] at key
  rw [zipWith_const_right (fun m => m) _ _ (by rw [msg_length]; simp)] at key
  simpa using key

end U

/-- the evidence is positive (the divisions in `message_eq_joint`, `posterior_exact` are genuine ones) -/
theorem evidence_pos (f : Fns ℝ) (hLSE : LSESpec f) (c : Cfg ℝ) (h : ℝ) (h0 : 0 < h) (h1 : h < 1)
    (hH : c.logH = Real.log h) (h1H : c.log1mH = Real.log (1 - h)) (hpv : 0 < c.priorVar) (hdv : 0 < c.dataVar)
    (xs : List ℝ) : 0 < ((allConfigs xs.length).map (jointRev f c h xs.reverse)).sum := by
  rw [← U.evidence_eq_joint f hLSE c h h0 h1 hH h1H hpv hdv xs]
  exact U.msg_sum_pos f c xs

/-! ### 4b-M. The model: the normalised message IS the posterior -/

theorem sum_zipWith_map_div (Z : ℝ) (F : ℕ → ℝ) : ∀ (M : List ℝ) (R : List ℕ),
    (List.zipWith (fun m r => m * F r) (M.map (· / Z)) R).sum = (List.zipWith (fun m r => m * F r) M R).sum / Z := by
  intro M
  induction M with
  | nil => intro R; simp
  | cons m M ih =>
    intro R
    cases R with
    | nil => simp
    | cons r R => simp only [List.map_cons, List.zipWith_cons_cons, List.sum_cons, ih R]; ring

theorem sum_zipWith_mul_map_div (Z a : ℝ) : ∀ (M π : List ℝ),
    (List.zipWith (fun m p => m * p * a) (M.map (· / Z)) π).sum = (List.zipWith (fun m p => m * p * a) M π).sum / Z := by
  intro M
  induction M with
  | nil => intro π; simp
  | cons m M ih =>
    intro π
    cases π with
    | nil => simp
    | cons p π => simp only [List.map_cons, List.zipWith_cons_cons, List.sum_cons, ih π]; ring

/-- the forward step is linear in the message: dividing the message by `Z` divides `Σ fwd` by `Z` -/
theorem fwd_sum_map_div (h Z : ℝ) (M π : List ℝ) : (fwd h (M.map (· / Z)) π).sum = (fwd h M π).sum / Z := by
  unfold fwd
  rw [List.sum_cons, List.sum_cons, sum_zipWith_mul_map_div, sum_zipWith_mul_map_div]
  ring

/-- **Forward-algorithm correctness (test-function form), MODEL (normalised message).**  For every `φ`,
`Σ_r M_t[r]·φ(r) = Σ_{configurations} P(config, x_{1:t})·φ(run length of config) / Σ_{configurations} P(config, x_{1:t})`
— the message integrates test functions like the run-length POSTERIOR (the divisor is positive: `evidence_pos`).
[Before the repair the right-hand side had no divisor — now `U.message_eq_joint_test`.] -/
theorem message_eq_joint_test (f : Fns ℝ) (hLSE : LSESpec f) (c : Cfg ℝ) (h : ℝ) (h0 : 0 < h) (h1 : h < 1)
    (hH : c.logH = Real.log h) (h1H : c.log1mH = Real.log (1 - h)) (hpv : 0 < c.priorVar) (hdv : 0 < c.dataVar)
    (xs : List ℝ) : ∀ φ : ℕ → ℝ,
    (List.zipWith (fun m r => m * φ r) (msg (runUpd f c xs)) (List.range (xs.length + 1))).sum =
      ((allConfigs xs.length).map (fun bs => jointRev f c h xs.reverse bs * φ (runLen bs))).sum /
        ((allConfigs xs.length).map (jointRev f c h xs.reverse)).sum := by
  intro φ
  rw [sim_msg f hLSE c xs, normalise, sum_zipWith_map_div,
    U.message_eq_joint_test f hLSE c h h0 h1 hH h1H hpv hdv xs φ,
    U.evidence_eq_joint f hLSE c h h0 h1 hH h1H hpv hdv xs]

/-- **Forward-algorithm correctness, entrywise, MODEL**: `M_t[r] = P(r_t = r | x_{1:t})`, the sum of the joint
weights of all changepoint configurations whose current run length is `r`, divided by the evidence.
[Before the repair: no division — now `U.message_eq_joint`.] -/
theorem message_eq_joint (f : Fns ℝ) (hLSE : LSESpec f) (c : Cfg ℝ) (h : ℝ) (h0 : 0 < h) (h1 : h < 1)
    (hH : c.logH = Real.log h) (h1H : c.log1mH = Real.log (1 - h)) (hpv : 0 < c.priorVar) (hdv : 0 < c.dataVar)
    (xs : List ℝ) (r : ℕ) (hr : r < (msg (runUpd f c xs)).length) :
    (msg (runUpd f c xs))[r] =
      (((allConfigs xs.length).filter (fun bs => decide (runLen bs = r))).map (jointRev f c h xs.reverse)).sum /
        ((allConfigs xs.length).map (jointRev f c h xs.reverse)).sum := by
  have hm := sim_msg f hLSE c xs
  have hr' : r < (msg (BOCDU.runUpd f c xs)).length := by
    rw [U.msg_length]; rw [msg_length] at hr; exact hr
  rw [List.getElem_of_eq hm hr]
  simp only [normalise, List.getElem_map]
  rw [U.message_eq_joint f hLSE c h h0 h1 hH h1H hpv hdv xs r hr',
    U.evidence_eq_joint f hLSE c h h0 h1 hH h1H hpv hdv xs]

/-- **the evidence and the model.**  `Z_t = Σ_{all configurations} P(config, x_{1:t}) = P(x_{1:t})`.
 (i) the UNNORMALISED (ghost) message sums to the evidence [the statement before the repair, about `BOCDU`];
 (ii) the ghost message is the model's message times the evidence (the model's message is the ghost's divided by
      `Z_t`; the model's own message sums to `1`, `message_normalised`);
 (iii) the quantity the MODEL normalises by at update `t+1`, `Σ fwd h M_t π_t = exp (logsumexp joint)`, is the
      one-step-ahead predictive density `P(x_{t+1} | x_{1:t}) = Z_{t+1} / Z_t` (stated without division). -/
theorem evidence_eq_joint (f : Fns ℝ) (hLSE : LSESpec f) (c : Cfg ℝ) (h : ℝ) (h0 : 0 < h) (h1 : h < 1)
    (hH : c.logH = Real.log h) (h1H : c.log1mH = Real.log (1 - h)) (hpv : 0 < c.priorVar) (hdv : 0 < c.dataVar)
    (xs : List ℝ) :
    (msg (BOCDU.runUpd f c xs)).sum = ((allConfigs xs.length).map (jointRev f c h xs.reverse)).sum ∧
    msg (BOCDU.runUpd f c xs) =
      (msg (runUpd f c xs)).map (· * ((allConfigs xs.length).map (jointRev f c h xs.reverse)).sum) ∧
    ∀ v : ℝ, (fwd h (msg (runUpd f c xs)) ((List.range (xs.length + 1)).map (piAt f c xs v))).sum *
        ((allConfigs xs.length).map (jointRev f c h xs.reverse)).sum =
      ((allConfigs (xs ++ [v]).length).map (jointRev f c h (xs ++ [v]).reverse)).sum := by
  have hZ := U.evidence_eq_joint f hLSE c h h0 h1 hH h1H hpv hdv xs
  have hpos := evidence_pos f hLSE c h h0 h1 hH h1H hpv hdv xs
  refine ⟨hZ, ?_, ?_⟩
  · rw [sim_msg f hLSE c xs, normalise, hZ, List.map_map]
    conv_lhs => rw [← List.map_id (msg (BOCDU.runUpd f c xs))]
    apply List.map_congr_left
    intro x _
    simp only [Function.comp, id]
    field_simp
  · intro v
    rw [sim_msg f hLSE c xs, normalise, fwd_sum_map_div, hZ, div_mul_cancel₀ _ hpos.ne',
      ← U.evidence_eq_joint f hLSE c h h0 h1 hH h1H hpv hdv (xs ++ [v]),
      (U.message_forward f hLSE c h h0 h1 hH h1H hpv hdv xs v).2.1]
    rfl

/-- **NEW (C08n). Normalised versus unnormalised message along a run.**  After the updates `xs`
(`t = xs.length`): the MODEL's message sums to `1`, the ghost's (the code before the repair) to the evidence
`P(x_{1:t})`, and entrywise `M^U_t[r] = M_t[r] · P(x_{1:t})`. -/
theorem message_normalised_vs_evidence (f : Fns ℝ) (hLSE : LSESpec f) (c : Cfg ℝ) (h : ℝ) (h0 : 0 < h) (h1 : h < 1)
    (hH : c.logH = Real.log h) (h1H : c.log1mH = Real.log (1 - h)) (hpv : 0 < c.priorVar) (hdv : 0 < c.dataVar)
    (xs : List ℝ) :
    (msg (runUpd f c xs)).sum = 1 ∧
    (msg (BOCDU.runUpd f c xs)).sum = ((allConfigs xs.length).map (jointRev f c h xs.reverse)).sum ∧
    msg (BOCDU.runUpd f c xs) =
      (msg (runUpd f c xs)).map (· * ((allConfigs xs.length).map (jointRev f c h xs.reverse)).sum) :=
  ⟨(message_normalised f hLSE c (runUpd_reachable f c xs)).2.1,
    (evidence_eq_joint f hLSE c h h0 h1 hH h1H hpv hdv xs).1,
    (evidence_eq_joint f hLSE c h h0 h1 hH h1H hpv hdv xs).2.1⟩

/-- **C08 headline: BOCD maintains the exact Bayesian run-length posterior.**
`exp(row_t[r]) = P(r_t = r | x_{1:t}) = Σ_{configs with run length r} P(config, x_{1:t}) / Σ_{all configs} P(config, x_{1:t})`. -/
theorem posterior_exact (f : Fns ℝ) (hLSE : LSESpec f) (c : Cfg ℝ) (h : ℝ) (h0 : 0 < h) (h1 : h < 1)
    (hH : c.logH = Real.log h) (h1H : c.log1mH = Real.log (1 - h)) (hpv : 0 < c.priorVar) (hdv : 0 < c.dataVar)
    (xs : List ℝ) (r : ℕ) (hr : r < (runUpd f c xs).row.length) :
    Real.exp (runUpd f c xs).row[r] =
      (((allConfigs xs.length).filter (fun bs => decide (runLen bs = r))).map (jointRev f c h xs.reverse)).sum /
        ((allConfigs xs.length).map (jointRev f c h xs.reverse)).sum := by
  have hm := (message_normalised f hLSE c (runUpd_reachable f c xs)).1
  have hr' : r < (msg (runUpd f c xs)).length := by rw [hm, List.length_map]; exact hr
  rw [← message_eq_joint f hLSE c h h0 h1 hH h1H hpv hdv xs r hr', List.getElem_of_eq hm hr', List.getElem_map]

example := message_eq_joint_test exFns exFns_spec (exCfg (1/4)) (1/4) (by norm_num) (by norm_num) rfl rfl
  (by norm_num [exCfg]) (by norm_num [exCfg]) [1, 2, 5]
example := evidence_eq_joint exFns exFns_spec (exCfg (1/4)) (1/4) (by norm_num) (by norm_num) rfl rfl
  (by norm_num [exCfg]) (by norm_num [exCfg]) [1, 2, 5]
example := message_normalised_vs_evidence exFns exFns_spec (exCfg (1/4)) (1/4) (by norm_num) (by norm_num) rfl rfl
  (by norm_num [exCfg]) (by norm_num [exCfg]) [1, 2, 5]
example : (msg (runUpd exFns (exCfg (1/4)) [1, 2, 5]))[2]'(by rw [msg_length]; simp) =
    (((allConfigs 3).filter (fun bs => decide (runLen bs = 2))).map (jointRev exFns (exCfg (1/4)) (1/4) [5, 2, 1])).sum /
      ((allConfigs 3).map (jointRev exFns (exCfg (1/4)) (1/4) [5, 2, 1])).sum :=
  message_eq_joint exFns exFns_spec (exCfg (1/4)) (1/4) (by norm_num) (by norm_num) rfl rfl
    (by norm_num [exCfg]) (by norm_num [exCfg]) [1, 2, 5] 2 (by rw [msg_length]; simp)

/-- changing `logC` rescales every predictive density by the same constant -/
theorem predDens_scale (f f' : Fns ℝ) (c : Cfg ℝ) (mu p v : ℝ) :
    predDens f c mu p v = Real.exp (f'.logC - f.logC) * predDens f' c mu p v := by
  unfold predDens normLogPdf
  rw [← Real.exp_add]
  congr 1
  ring

theorem jointRev_scale (f f' : Fns ℝ) (c : Cfg ℝ) (h : ℝ) : ∀ (ys : List ℝ) (bs : List Bool), bs.length = ys.length →
    jointRev f c h ys bs = Real.exp (f'.logC - f.logC) ^ ys.length * jointRev f' c h ys bs := by
  intro ys
  induction ys with
  | nil => intro bs _; cases bs <;> simp [jointRev]
  | cons x ys ih =>
    intro bs hb
    cases bs with
    | nil => simp at hb
    | cons b bs =>
      simp only [jointRev, piAt, List.length_cons]
      rw [ih bs (by simpa using hb), predDens_scale f f']
      ring

/-- `logC` cancels: the configuration posterior is the same for every value of the constant `logC` -/
theorem joint_ratio_logC_indep (f f' : Fns ℝ) (c : Cfg ℝ) (h : ℝ) (xs : List ℝ) (r : ℕ) :
    (((allConfigs xs.length).filter (fun bs => decide (runLen bs = r))).map (jointRev f c h xs.reverse)).sum /
        ((allConfigs xs.length).map (jointRev f c h xs.reverse)).sum =
    (((allConfigs xs.length).filter (fun bs => decide (runLen bs = r))).map (jointRev f' c h xs.reverse)).sum /
        ((allConfigs xs.length).map (jointRev f' c h xs.reverse)).sum := by
  have hsc : ∀ L : List (List Bool), (∀ bs ∈ L, bs ∈ allConfigs xs.length) →
      (L.map (jointRev f c h xs.reverse)).sum =
        Real.exp (f'.logC - f.logC) ^ xs.length * (L.map (jointRev f' c h xs.reverse)).sum := by
    intro L hL
    rw [← List.sum_map_mul_left]
    congr 1
    apply List.map_congr_left
    intro bs hbs
    have := jointRev_scale f f' c h xs.reverse bs (by rw [(mem_allConfigs _ _).mp (hL bs hbs)]; simp)
    simpa using this
  rw [hsc _ (fun bs hbs => (List.mem_filter.mp hbs).1), hsc _ (fun _ hbs => hbs)]
  have hK : Real.exp (f'.logC - f.logC) ^ xs.length ≠ 0 := pow_ne_zero _ (Real.exp_pos _).ne'
  rw [mul_div_mul_left _ _ hK]

/-- Gaussian density with mean `μ` and variance `σ2` -/
noncomputable def gaussPdf (μ σ2 x : ℝ) : ℝ :=
  (Real.sqrt (2 * Real.pi * σ2))⁻¹ * Real.exp (-(x - μ) ^ 2 / (2 * σ2))

/-- model-independent joint `P(r_{1:t}, x_{1:t})` of the Gaussian (known variance `dataVar`, conjugate prior
`N(priorMean, priorVar)` on the mean) changepoint model with constant hazard `h`.  Observations newest first.
The predictive of `x` given a run made of the last `r` earlier observations is
`N(meanAt r, 1/precAt r + dataVar)`. -/
noncomputable def specJoint (c : Cfg ℝ) (h : ℝ) : List ℝ → List Bool → ℝ
  | x :: ys, b :: bs =>
      specJoint c h ys bs *
        gaussPdf (meanAt c ys.reverse (runLen bs)) (1 / precAt c (runLen bs) + c.dataVar) x *
        (if b then h else 1 - h)
  | _, _ => 1

theorem jointRev_eq_specJoint (f : Fns ℝ) (hC : f.logC = Real.log (Real.sqrt (2 * Real.pi))) (c : Cfg ℝ) (h : ℝ)
    (hpv : 0 < c.priorVar) (hdv : 0 < c.dataVar) : ∀ (ys : List ℝ) (bs : List Bool),
    jointRev f c h ys bs = specJoint c h ys bs := by
  intro ys
  induction ys with
  | nil => intro bs; cases bs <;> simp [jointRev, specJoint]
  | cons x ys ih =>
    intro bs
    cases bs with
    | nil => simp [jointRev, specJoint]
    | cons b bs =>
      have hσ : 0 < 1 / precAt c (runLen bs) + c.dataVar := by
        have := precAt_pos c hpv hdv (runLen bs)
        positivity
      simp only [jointRev, specJoint, piAt, gaussPdf]
      rw [ih bs, predDens_gaussian f hC c _ _ _ hσ]

/-- **C08 headline, model-independent form.**  Whatever the constant `f.logC`, the row kept by BOCD is the
exact posterior `P(r_t = r | x_{1:t})` of the Gaussian changepoint model `specJoint`. -/
theorem posterior_exact_gaussian (f : Fns ℝ) (hLSE : LSESpec f) (c : Cfg ℝ) (h : ℝ) (h0 : 0 < h) (h1 : h < 1)
    (hH : c.logH = Real.log h) (h1H : c.log1mH = Real.log (1 - h)) (hpv : 0 < c.priorVar) (hdv : 0 < c.dataVar)
    (xs : List ℝ) (r : ℕ) (hr : r < (runUpd f c xs).row.length) :
    Real.exp (runUpd f c xs).row[r] =
      (((allConfigs xs.length).filter (fun bs => decide (runLen bs = r))).map (specJoint c h xs.reverse)).sum /
        ((allConfigs xs.length).map (specJoint c h xs.reverse)).sum := by
  rw [posterior_exact f hLSE c h h0 h1 hH h1H hpv hdv xs r hr,
    joint_ratio_logC_indep f ⟨f.logSumExp, Real.log (Real.sqrt (2 * Real.pi))⟩ c h xs r]
  have e : jointRev ⟨f.logSumExp, Real.log (Real.sqrt (2 * Real.pi))⟩ c h xs.reverse = specJoint c h xs.reverse :=
    funext (jointRev_eq_specJoint _ rfl c h hpv hdv xs.reverse)
  rw [e]

example : Real.exp (runUpd exFns (exCfg (1/4)) [1, 2, 5]).row[2] =
    (((allConfigs 3).filter (fun bs => decide (runLen bs = 2))).map (jointRev exFns (exCfg (1/4)) (1/4) [5, 2, 1])).sum /
      ((allConfigs 3).map (jointRev exFns (exCfg (1/4)) (1/4) [5, 2, 1])).sum :=
  posterior_exact exFns exFns_spec (exCfg (1/4)) (1/4) (by norm_num) (by norm_num) rfl rfl
    (by norm_num [exCfg]) (by norm_num [exCfg]) [1, 2, 5] 2
    (by rw [(lenInv_runUpd _ _ _).1, runUpd_n]; simp)

example : Real.exp (runUpd exFns (exCfg (1/4)) [1, 2, 5]).row[2] =
    (((allConfigs 3).filter (fun bs => decide (runLen bs = 2))).map (specJoint (exCfg (1/4)) (1/4) [5, 2, 1])).sum /
      ((allConfigs 3).map (specJoint (exCfg (1/4)) (1/4) [5, 2, 1])).sum :=
  posterior_exact_gaussian exFns exFns_spec (exCfg (1/4)) (1/4) (by norm_num) (by norm_num) rfl rfl
    (by norm_num [exCfg]) (by norm_num [exCfg]) [1, 2, 5] 2
    (by rw [(lenInv_runUpd _ _ _).1, runUpd_n]; simp)

/-- the configurations summed over are the expected ones -/
example : allConfigs 2 = [[true, true], [true, false], [false, true], [false, false]] ∧
    (allConfigs 3).filter (fun bs => decide (runLen bs = 2)) = [[false, false, true]] := by decide

/-! ## 5. Predictive mean / variance -/

/-- one step from ANY state: the predictions are the `zipWith` of `exp (CURRENT row)` (the freshly normalised
row of the returned state) against the NEW parameters of the returned state.  Under `LenInv` both lists have
length `n+1`, so nothing is truncated (see `pred_mixture`). -/
theorem pred_step (f : Fns ℝ) (c : Cfg ℝ) (s : State ℝ) (v : ℝ) :
    (step f c s v).predMean =
      some (List.zipWith (· * ·) ((step f c s v).row.map Real.exp) (step f c s v).means).sum ∧
    (step f c s v).predVar = some (List.zipWith (· * ·) ((step f c s v).row.map Real.exp)
        ((step f c s v).precs.map (fun p => 1 / p + c.dataVar))).sum := by
  constructor
  · show some (sumList _) = _
    rw [sumList_eq]; rfl
  · have hv : ∀ l : List ℝ, varParams c l = l.map (fun p => 1 / p + c.dataVar) := fun l => by
      simp only [varParams, RealNum.one_eq]
    show some (sumList (List.zipWith (· * ·) ((step f c s v).row.map Num.exp)
      (varParams c (step f c s v).precs))) = _
    rw [sumList_eq, hv]
    rfl

/-- **5. Predictive mean / variance as a mixture** (`t = xs.length + 1` updates, the last one being `v`).  With
`R` the CURRENT row (length `t+1 = xs.length + 2`):
`predMean = Σ_{r≤t} exp(R[r])·meanAt c (xs ++ [v]) r`, `predVar = Σ_{r≤t} exp(R[r])·(1/precAt c r + dataVar)`,
i.e. the closed-form parameters of 1 for EVERY run length `0..t`, weighted by the current posterior row; the sum
ranges over all indices of `R`, no parameter is dropped.  Hypotheses `0 < priorVar`, `0 < dataVar` as in
`params_closed_form`; `f` is arbitrary. -/
theorem pred_mixture (f : Fns ℝ) (c : Cfg ℝ) (hpv : 0 < c.priorVar) (hdv : 0 < c.dataVar) (xs : List ℝ) (v : ℝ) :
    (runUpd f c (xs ++ [v])).row.length = xs.length + 2 ∧
    (runUpd f c (xs ++ [v])).predMean =
      some (∑ r : Fin (runUpd f c (xs ++ [v])).row.length,
        Real.exp (runUpd f c (xs ++ [v])).row[r] * meanAt c (xs ++ [v]) r) ∧
    (runUpd f c (xs ++ [v])).predVar =
      some (∑ r : Fin (runUpd f c (xs ++ [v])).row.length,
        Real.exp (runUpd f c (xs ++ [v])).row[r] * (1 / precAt c r + c.dataVar)) := by
  obtain ⟨hp, hm⟩ := params_closed_form f c hpv hdv (xs ++ [v])
  have hlen : (runUpd f c (xs ++ [v])).row.length = (xs ++ [v]).length + 1 := by
    rw [(lenInv_runUpd f c (xs ++ [v])).1, runUpd_n]
  obtain ⟨h1, h2⟩ := pred_step f c (runUpd f c xs) v
  rw [← runUpd_snoc] at h1 h2
  refine ⟨by rw [hlen]; simp, ?_, ?_⟩
  · rw [h1, hm, List.zipWith_map_right, ← hlen, sum_zipWith_map_range]
  · rw [h2, hp, List.map_map, List.zipWith_map_right, ← hlen, sum_zipWith_map_range]
    rfl

/-- the exact run-length posterior `P(r_t = r | x_{1:t})` (`t = ys.length`, `ys` oldest first) of the
model-independent Gaussian changepoint model `specJoint` (the right-hand side of `posterior_exact_gaussian`) -/
noncomputable def postW (c : Cfg ℝ) (h : ℝ) (ys : List ℝ) (r : ℕ) : ℝ :=
  (((allConfigs ys.length).filter (fun bs => decide (runLen bs = r))).map (specJoint c h ys.reverse)).sum /
    ((allConfigs ys.length).map (specJoint c h ys.reverse)).sum

/-- **5. The predictions are the posterior-weighted mixture.**  Under the hypotheses of
`posterior_exact_gaussian` the weights of `pred_mixture` are the exact posterior
`postW c h (xs ++ [v]) r = P(r_t = r | x_{1:t})` (`t = xs.length + 1`, `r = 0..t`), they are positive and sum to 1:
`predMean` is a convex combination of the per-run-length posterior means `meanAt c (xs ++ [v]) r`, `predVar` the
same combination of the per-run-length predictive variances `1/precAt c r + dataVar`. -/
theorem pred_mixture_posterior (f : Fns ℝ) (hLSE : LSESpec f) (c : Cfg ℝ) (h : ℝ) (h0 : 0 < h) (h1 : h < 1)
    (hH : c.logH = Real.log h) (h1H : c.log1mH = Real.log (1 - h)) (hpv : 0 < c.priorVar) (hdv : 0 < c.dataVar)
    (xs : List ℝ) (v : ℝ) :
    (runUpd f c (xs ++ [v])).predMean =
      some (∑ r ∈ Finset.range (xs.length + 2), postW c h (xs ++ [v]) r * meanAt c (xs ++ [v]) r) ∧
    (runUpd f c (xs ++ [v])).predVar =
      some (∑ r ∈ Finset.range (xs.length + 2), postW c h (xs ++ [v]) r * (1 / precAt c r + c.dataVar)) ∧
    (∀ r ∈ Finset.range (xs.length + 2), 0 < postW c h (xs ++ [v]) r) ∧
    ∑ r ∈ Finset.range (xs.length + 2), postW c h (xs ++ [v]) r = 1 := by
  obtain ⟨hlen, hM, hV⟩ := pred_mixture f c hpv hdv xs v
  have hw : ∀ r (hr : r < (runUpd f c (xs ++ [v])).row.length),
      Real.exp (runUpd f c (xs ++ [v])).row[r] = postW c h (xs ++ [v]) r := fun r hr =>
    posterior_exact_gaussian f hLSE c h h0 h1 hH h1H hpv hdv (xs ++ [v]) r hr
  have hconv : ∀ g : ℕ → ℝ,
      ∑ r : Fin (runUpd f c (xs ++ [v])).row.length, Real.exp (runUpd f c (xs ++ [v])).row[r] * g r =
        ∑ r ∈ Finset.range (xs.length + 2), postW c h (xs ++ [v]) r * g r := by
    intro g
    rw [← hlen, ← Fin.sum_univ_eq_sum_range (fun r => postW c h (xs ++ [v]) r * g r)]
    exact Finset.sum_congr rfl (fun r _ => by rw [← hw r r.isLt]; rfl)
  refine ⟨by rw [hM, hconv], by rw [hV, hconv (fun r => 1 / precAt c r + c.dataVar)], ?_, ?_⟩
  · intro r hr
    rw [Finset.mem_range, ← hlen] at hr
    rw [← hw r hr]
    exact Real.exp_pos _
  · have hn := (row_normalised f hLSE c (runUpd_reachable f c (xs ++ [v]))).1
    have := hconv (fun _ => 1)
    simp only [mul_one] at this
    rw [← this, ← hn, ← sum_zipWith_map_range _ Real.exp (fun a _ => a),
      zipWith_const_right (fun m => m) _ _ (by simp), List.map_map]
    rfl

/-- **5, first observation.**  After ONE observation `v` the posterior is `[h, 1-h]` (`row_after_one`) and the
predictions are `predMean = h·priorMean + (1-h)·meanAt c [v] 1`,
`predVar = h·(priorVar + dataVar) + (1-h)·(1/precAt c 1 + dataVar)`, where
`meanAt c [v] 1 = (priorMean/priorVar + v/dataVar) / (1/priorVar + 1/dataVar)` does depend on `v` (before the
repair of the weights the reported mean was `priorMean` whatever `v` was). -/
theorem pred_mean_first (f : Fns ℝ) (hLSE : LSESpec f) (c : Cfg ℝ) (h : ℝ) (h0 : 0 < h) (h1 : h < 1)
    (hH : c.logH = Real.log h) (h1H : c.log1mH = Real.log (1 - h)) (hpv : 0 < c.priorVar) (hdv : 0 < c.dataVar)
    (v : ℝ) :
    (runUpd f c [v]).predMean = some (h * c.priorMean + (1 - h) * meanAt c [v] 1) ∧
    (runUpd f c [v]).predVar =
      some (h * (c.priorVar + c.dataVar) + (1 - h) * (1 / precAt c 1 + c.dataVar)) ∧
    meanAt c [v] 1 = (c.priorMean / c.priorVar + v / c.dataVar) / (1 / c.priorVar + 1 / c.dataVar) := by
  obtain ⟨hM, hV⟩ := pred_step f c (runUpd f c []) v
  have e : step f c (runUpd f c []) v = runUpd f c [v] := rfl
  rw [e] at hM hV
  obtain ⟨hp, hm⟩ := params_closed_form f c hpv hdv [v]
  have hrow := row_after_one f hLSE c h h0 h1 hH h1H hpv hdv v
  have h1' : 0 < 1 - h := by linarith
  refine ⟨?_, ?_, ?_⟩
  · rw [hM, hm, hrow]
    simp [List.range_succ, meanAt_zero c hpv, Real.exp_log h0, Real.exp_log h1']
  · rw [hV, hp, hrow]
    have hp0 : (precAt c 0)⁻¹ = c.priorVar := by simp [precAt]
    simp [List.range_succ, Real.exp_log h0, Real.exp_log h1', hp0]
  · simp [meanAt, precAt]

/-! Non-vacuity of section 5 on the concrete instance `exFns`, `exCfg (1/4)`. -/
example := pred_step exFns (exCfg (1/4)) (runUpd exFns (exCfg (1/4)) [1, 2]) 5
example := pred_mixture exFns (exCfg (1/4)) (by norm_num [exCfg]) (by norm_num [exCfg]) [1, 2] 5
example := pred_mixture_posterior exFns exFns_spec (exCfg (1/4)) (1/4) (by norm_num) (by norm_num) rfl rfl
  (by norm_num [exCfg]) (by norm_num [exCfg]) [1, 2] 5

/-- concrete numbers (prior `N(0,1)`, unit data variance, hazard `1/4`): the predictive mean after one
observation follows the observation (`3/4` for `v = 2`, `3/2` for `v = 4`; the prior mean is `0`) -/
example : (runUpd exFns (exCfg (1/4)) [2]).predMean = some (3/4) ∧
    (runUpd exFns (exCfg (1/4)) [4]).predMean = some (3/2) ∧
    (runUpd exFns (exCfg (1/4)) [2]).predVar = some (13/8) := by
  have H := fun v => pred_mean_first exFns exFns_spec (exCfg (1/4)) (1/4) (by norm_num) (by norm_num) rfl rfl
    (by norm_num [exCfg]) (by norm_num [exCfg]) v
  refine ⟨?_, ?_, ?_⟩
  · rw [(H 2).1, (H 2).2.2]; norm_num [exCfg]
  · rw [(H 4).1, (H 4).2.2]; norm_num [exCfg]
  · rw [(H 2).2.1]; norm_num [exCfg, precAt]

/-! ## Axiom audit -/
#print axioms lenInv_reachable
#print axioms run_since_reset
#print axioms map_rule
#print axioms map_rule_reachable
#print axioms warmup
#print axioms argmax_eq_iff
#print axioms argmax_real
#print axioms map_rule_real
#print axioms row_normalised_step
#print axioms row_normalised
#print axioms params_closed_form
#print axioms params_entry
#print axioms message_forward_step
#print axioms message_forward
#print axioms row_eq_log_msg
#print axioms row_after_one
#print axioms predDens_gaussian
#print axioms message_eq_joint_test
#print axioms message_eq_joint
#print axioms evidence_eq_joint
#print axioms posterior_exact
#print axioms joint_ratio_logC_indep
#print axioms posterior_exact_gaussian
#print axioms pred_step
#print axioms pred_mixture
#print axioms pred_mixture_posterior
#print axioms pred_mean_first
-- C08n: new theorems (normalised message, ghost recursion, simulation)
#print axioms logMessage_eq_row
#print axioms U.step_shift
#print axioms sim_run
#print axioms sim_fields
#print axioms sim_msg
#print axioms normaliser_eq
#print axioms message_normalised_step
#print axioms message_normalised
#print axioms message_normalised_vs_evidence
#print axioms msg_after_one
#print axioms evidence_pos
#print axioms U.message_forward_step
#print axioms U.message_forward
#print axioms U.row_eq_log_msg
#print axioms U.message_eq_joint_test
#print axioms U.message_eq_joint
#print axioms U.evidence_eq_joint

end Frouros.C08
