/-
  C04b — HDDM-A, rise/drop clause of C04: EXACT detection delay on the block streams `0^n 1^k` and `1^n 0^k`.

  Model: `HDDMA` in `FrourosModel/SPC.lean` (unchanged), carrier `ℝ` (everything here is arithmetic).
  Notation: `L_d = ln(1/alpha_d)` (`LD c`), `L_w = ln(1/alpha_w)` (`LW c`), `riseStream n k = 0^n 1^k`,
  `dropStream n k = 1^n 0^k`, `aRun c init xs` = state after feeding `xs` (from C04), `Fires L n j :⇔ 2 n j ≥ L (n + j)`,
  `IsFirst L n j*` :⇔ `j*` is the first `j ≥ 1` with `Fires L n j`.  "ones-step `j`" = the update with the `j`-th one,
  i.e. value number `n + j` of the stream; statements about the flags after `t` values are phrased with
  `(riseStream n k).take t`, the shape used by `C04.hddma_reflect`.

    1. `zeros_phase`/`const_phase`   after `n ≥ 1` equal values: `z = x (= y) = ⟨v, n⟩`, no flag
    2. `cut_stays_iff`               the increase cut stays at the end of the zeros at every ones-step  ⇔  `L_d ≤ 2n`
       `newX_stays`, `cut_stays`     (model level)      `cut_stays_witness`: it does move for `L_d = 8`, `n = 1`
    3. `riseTest_iff`                increase test at ones-step `j`  ⇔  `2 n j ≥ L (n + j)`
       `rise_delay`                  first drift exactly at ones-step `j*`, one- and two-sided (`min_num_instances ≤ n`)
       `rise_decrease_silent`        the decrease test is silent on the way (`y = z`)
       `rise_delay_closed`           `j* = max 1 ⌈L_d n / (2n - L_d)⌉₊` for `L_d < 2n`;  `exists_isFirst_iff`
       `rise_never`                  `2n ≤ L_d`: no drift at all, wherever the cut is, any `min_num_instances`
       `rise_delay_gen`              any `min_num_instances`: first drift at ones-step `max j* (min_num_instances - n)`
    4. `drop_eq_rise`, `drop_delay`  two-sided: same flags step by step on `1^n 0^k`, hence the same delay `j*`
       `drop_one_sided_never`        the ONE-sided detector reports nothing at all on `1^n 0^k`
    5. `warning_delay`, `warning_interval`, `drop_warning_interval`   warning exactly on ones-steps `[j_w, j*)`
  Hypotheses used throughout: `0 < alpha_d ≤ 1` (then `L_d ≥ 0`: the Hoeffding bounds/thresholds are genuine
  square roots, never `Real.sqrt (negative) = 0`), `n ≥ 1` (no `0/0` mean, no `ε(0) = √(L/0)`); for the warning
  statements also `alpha_w ≤ 1` and `alpha_d ≤ alpha_w`.  The existence of `j*` forces `L_d < 2n` (`fires_lt`), which is
  why no separate cut-stays hypothesis appears in the main theorems.
  Non-vacuity `example`s (frouros defaults `alpha_d = 0.001`, `alpha_w = 0.005`, `min_num_instances = 30`, `n = 30`:
  warning at value 33, drift at value 34) are collected in the last section.
-/
import Mathlib.Tactic
import Mathlib.Analysis.Complex.ExponentialBounds
import FrourosProofs.Props.C04
import FrourosProofs.Lemmas.ConstHDDMA

namespace Frouros.C04b
open Frouros Frouros.C04

/-- `L_d = ln(1/alpha_d)` -/
noncomputable def LD (c : HDDMA.Cfg ℝ) : ℝ := Real.log (1 / c.alphaD)
/-- `L_w = ln(1/alpha_w)` -/
noncomputable def LW (c : HDDMA.Cfg ℝ) : ℝ := Real.log (1 / c.alphaW)

/-- the block stream `0^n 1^k` -/
def riseStream (n k : ℕ) : List ℝ := List.replicate n 0 ++ List.replicate k 1
/-- the block stream `1^n 0^k` -/
def dropStream (n k : ℕ) : List ℝ := List.replicate n 1 ++ List.replicate k 0

/-! ## arithmetic -/

/-- `cut_stays`, arithmetic core: for `0 ≤ L ≤ 2n`, `n, j ≥ 1`:  `ε(n) < j/(n+j) + ε(n+j)` with `ε(k) = √(L/(2k))`,
i.e. the model's cut rule `z.mean + ε(z.n) ≤ x.mean + ε(x.n)` is FALSE at ones-step `j` (`x = ⟨0, n⟩`,
`z = ⟨j/(n+j), n+j⟩`).  `0 ≤ L` keeps the radicands non-negative; `L ≤ 2n` is necessary (`cut_stays_iff`). -/
theorem cut_stays_real (n j : ℕ) (L : ℝ) (hn : 1 ≤ n) (hj : 1 ≤ j) (hL0 : 0 ≤ L) (hL : L ≤ 2 * n) :
    Real.sqrt (L / (2 * (n : ℝ))) <
      (j : ℝ) / ((n + j : ℕ) : ℝ) + Real.sqrt (L / (2 * ((n + j : ℕ) : ℝ))) := by
  have hn' : (0 : ℝ) < n := by exact_mod_cast hn
  have hj' : (0 : ℝ) < j := by exact_mod_cast hj
  push_cast
  have ha2 : Real.sqrt (L / (2 * (n : ℝ))) ^ 2 = L / (2 * n) := Real.sq_sqrt (by positivity)
  have hb2 : Real.sqrt (L / (2 * ((n : ℝ) + j))) ^ 2 = L / (2 * (n + j)) := Real.sq_sqrt (by positivity)
  have ha0 : 0 ≤ Real.sqrt (L / (2 * (n : ℝ))) := Real.sqrt_nonneg _
  have hb0 : 0 ≤ Real.sqrt (L / (2 * ((n : ℝ) + j))) := Real.sqrt_nonneg _
  generalize Real.sqrt (L / (2 * (n : ℝ))) = a at *
  generalize Real.sqrt (L / (2 * ((n : ℝ) + j))) = b at *
  have ht0 : 0 < (j : ℝ) / ((n : ℝ) + j) := by positivity
  have ht1 : (j : ℝ) / ((n : ℝ) + j) < 1 := by rw [div_lt_one (by positivity)]; linarith
  have ha1 : a ^ 2 ≤ 1 := by rw [ha2, div_le_one (by positivity)]; linarith
  have hba : b ^ 2 = a ^ 2 * (1 - (j : ℝ) / ((n : ℝ) + j)) := by rw [ha2, hb2]; field_simp; ring
  generalize (j : ℝ) / ((n : ℝ) + j) = t at *
  by_contra h
  rw [not_lt] at h
  have hale1 : a ≤ 1 := by nlinarith
  have h1 : b ^ 2 ≤ (a - t) ^ 2 := pow_le_pow_left₀ hb0 (by linarith) 2
  have h3 : 0 ≤ t * (t - 2 * a + a ^ 2) := by nlinarith
  have h2 : 2 * a ≤ t + a ^ 2 := by
    by_contra hc; rw [not_le] at hc
    nlinarith
  have haa : a ^ 2 ≤ a := by nlinarith
  have hat : a = t := le_antisymm (by linarith) (by linarith)
  subst hat
  nlinarith


/-- the increase test of `check_cases` at ones-step `j` of `0^n 1^j`, at level `al`: cut `x = ⟨0, n⟩`,
`z = ⟨j/(n+j), n+j⟩`, `m = j` -/
noncomputable def riseTest (n j : ℕ) (al : ℝ) : Bool :=
  HDDMA.hoeffTest j n (n + j) ((j : ℝ) / ((n + j : ℕ) : ℝ)) 0 al

/-- the increase test at ones-step `j ≥ 1` is `2 n j ≥ L (n + j)`.  With `0 < al ≤ 1` the radicand of the model's
threshold is non-negative (first conjunct), so the equivalence is obtained by squaring two non-negative numbers
(it does not rest on `Real.sqrt (negative) = 0`). -/
theorem riseTest_iff (n j : ℕ) (al : ℝ) (hn : 1 ≤ n) (hj : 1 ≤ j) (h0 : 0 < al) (h1 : al ≤ 1) :
    0 ≤ (j : ℝ) / ((2 * n * (n + j) : ℕ) : ℝ) * Real.log (1 / al) ∧
    (riseTest n j al = true ↔ Real.log (1 / al) * ((n : ℝ) + j) ≤ 2 * n * j) := by
  have hL : 0 ≤ Real.log (1 / al) := Real.log_nonneg (by rw [le_div_iff₀ h0]; linarith)
  have hn' : (0 : ℝ) < n := by exact_mod_cast hn
  have hj' : (0 : ℝ) < j := by exact_mod_cast hj
  refine ⟨by positivity, ?_⟩
  simp only [riseTest, HDDMA.hoeffTest, RealNum.ge_iff, RealNum.sqrt_eq, RealNum.log_eq, RealNum.ofNat_eq,
    RealNum.one_eq, sub_zero]
  rw [Real.sqrt_le_iff]
  push_cast
  generalize Real.log (1 / al) = L at *
  have hp : (0 : ℝ) < (j : ℝ) / (2 * n * ((n : ℝ) + j) ^ 2) := by positivity
  have e1 : (j : ℝ) / (2 * n * ((n : ℝ) + j)) * L = (L * ((n : ℝ) + j)) * ((j : ℝ) / (2 * n * ((n : ℝ) + j) ^ 2)) := by
    field_simp
  have e2 : ((j : ℝ) / ((n : ℝ) + j)) ^ 2 = (2 * n * j) * ((j : ℝ) / (2 * n * ((n : ℝ) + j) ^ 2)) := by
    field_simp
  rw [e1, e2, mul_le_mul_iff_of_pos_right hp]
  exact ⟨fun h => h.2, fun h => ⟨by positivity, h⟩⟩

/-! ## the states of the ones phase -/

/-- the running mean after `0^n 1^j` -/
noncomputable def zJ (n j : ℕ) : Mean ℝ := ⟨(j : ℝ) / ((n + j : ℕ) : ℝ), n + j⟩

theorem zJ_zero (n : ℕ) : zJ n 0 = ⟨0, n⟩ := by simp [zJ]

theorem zJ_update (n j : ℕ) (hn : 1 ≤ n) : (zJ n j).update 1 = zJ n (j + 1) := by
  have h1 : (0 : ℝ) < ((n + j : ℕ) : ℝ) := by exact_mod_cast (by omega : 0 < n + j)
  simp only [zJ, Mean.update, RealNum.ofNat_eq, Mean.mk.injEq]
  refine ⟨?_, rfl⟩
  push_cast at h1 ⊢
  field_simp
  ring

theorem zJ_mean_mono (n j : ℕ) (hn : 1 ≤ n) : (zJ n j).mean ≤ (zJ n (j + 1)).mean := by
  have h1 : (0 : ℝ) < ((n + j : ℕ) : ℝ) := by exact_mod_cast (by omega : 0 < n + j)
  have h2 : (0 : ℝ) < ((n + (j + 1) : ℕ) : ℝ) := by exact_mod_cast (by omega : 0 < n + (j + 1))
  simp only [zJ]
  rw [div_le_div_iff₀ h1 h2]
  push_cast
  nlinarith [(Nat.cast_nonneg n : (0 : ℝ) ≤ n)]

/-- state after `0^n 1^j` while no drift has been reported: cut `x` still at the end of the zeros, the decrease
cut `y` (two-sided mode) at the current point, warning flag `w` -/
noncomputable def riseState (c : HDDMA.Cfg ℝ) (n j : ℕ) (w : Bool) : HDDMA.State ℝ :=
  ⟨n + j, false, w, ⟨⟨0, n⟩, zJ n j, if c.twoSided then zJ n j else Mean.init⟩⟩

/-- the cut `x` does not move during the ones (under `L_d ≤ 2n`) -/
theorem newX_stays (aD : ℝ) (h0 : 0 < aD) (h1 : aD ≤ 1) (n j : ℕ) (hn : 1 ≤ n)
    (hL : Real.log (1 / aD) ≤ 2 * n) : newX aD ⟨0, n⟩ (zJ n j) 1 = ⟨0, n⟩ := by
  rw [newX_eq, zJ_update n j hn, if_neg]
  rintro (h | h)
  · simp only at h; omega
  · rw [RealNum.le_iff, bound_real, bound_real] at h
    have hL0 : 0 ≤ Real.log (1 / aD) := Real.log_nonneg (by rw [le_div_iff₀ h0]; linarith)
    have := cut_stays_real n (j + 1) _ hn (by omega) hL0 hL
    simp only [zJ] at h
    push_cast at h this
    linarith

/-- the decrease cut `y` follows the current point during the ones -/
theorem newY_moves (aD : ℝ) (h0 : 0 < aD) (h1 : aD ≤ 1) (n j : ℕ) (hn : 1 ≤ n) :
    newY aD (zJ n j) (zJ n j) 1 = zJ n (j + 1) := by
  rw [newY_eq, zJ_update n j hn, if_pos]
  right
  rw [RealNum.le_iff]
  have hb := C01c.Hddma.bound_antitone (cfg := ⟨aD, aD, false, 0⟩) ⟨h0, h1⟩ (m := n + j) (n := n + (j + 1))
    (by omega) (by omega)
  have hm := zJ_mean_mono n j hn
  have e1 : (zJ n j).n = n + j := rfl
  have e2 : (zJ n (j + 1)).n = n + (j + 1) := rfl
  rw [e1, e2]
  linarith

theorem rise_side (c : HDDMA.Cfg ℝ) (n j : ℕ) :
    HDDMA.side c ⟨0, n⟩ (zJ n (j + 1)) true =
      (riseTest n (j + 1) c.alphaD, !riseTest n (j + 1) c.alphaD && riseTest n (j + 1) c.alphaW) := by
  have e : (zJ n (j + 1)).n - (⟨0, n⟩ : Mean ℝ).n = j + 1 := by simp only [zJ]; omega
  rw [side_table, e]
  simp [riseTest, zJ]

/-- one step of the ones phase -/
theorem rise_step (c : HDDMA.Cfg ℝ) (h0 : 0 < c.alphaD) (h1 : c.alphaD ≤ 1) (n j : ℕ) (hn : 1 ≤ n)
    (hmin : c.minN ≤ n + (j + 1)) (hL : LD c ≤ 2 * n) (w : Bool) :
    HDDMA.step c (riseState c n j w) 1 =
      if riseTest n (j + 1) c.alphaD then ⟨n + (j + 1), true, false, HDDMA.Test.init⟩
      else riseState c n (j + 1) (riseTest n (j + 1) c.alphaW) := by
  have hX := newX_stays c.alphaD h0 h1 n j hn hL
  have hY := newY_moves c.alphaD h0 h1 n j hn
  have hZ := zJ_update n j hn
  have hT : newT c (riseState c n j w).t 1 =
      ⟨⟨0, n⟩, zJ n (j + 1), if c.twoSided then zJ n (j + 1) else Mean.init⟩ := by
    simp only [newT, riseState, newZ, hX, hZ]
    cases c.twoSided <;> simp [hY]
  have hcc : HDDMA.checkCases c ⟨⟨0, n⟩, zJ n (j + 1), if c.twoSided then zJ n (j + 1) else Mean.init⟩ =
      (riseTest n (j + 1) c.alphaD, !riseTest n (j + 1) c.alphaD && riseTest n (j + 1) c.alphaW) := by
    unfold HDDMA.checkCases
    cases hts : c.twoSided <;> simp [rise_side, C01c.Hddma.side_self]
  have hm : c.minN ≤ (riseState c n j w).n + 1 := by simp only [riseState]; omega
  rw [step_gen, if_pos hm, hT, hcc]
  cases riseTest n (j + 1) c.alphaD <;> simp [riseState, Nat.add_assoc]

/-- one step of the ones phase during the warm-up (`n + j + 1 < min_num_instances`): statistics updated in the
same way, no decision -/
theorem rise_step_warm (c : HDDMA.Cfg ℝ) (h0 : 0 < c.alphaD) (h1 : c.alphaD ≤ 1) (n j : ℕ) (hn : 1 ≤ n)
    (hmin : ¬ c.minN ≤ n + (j + 1)) (hL : LD c ≤ 2 * n) (w : Bool) :
    HDDMA.step c (riseState c n j w) 1 = riseState c n (j + 1) false := by
  have hX := newX_stays c.alphaD h0 h1 n j hn hL
  have hY := newY_moves c.alphaD h0 h1 n j hn
  have hZ := zJ_update n j hn
  have hT : newT c (riseState c n j w).t 1 =
      ⟨⟨0, n⟩, zJ n (j + 1), if c.twoSided then zJ n (j + 1) else Mean.init⟩ := by
    simp only [newT, riseState, newZ, hX, hZ]
    cases c.twoSided <;> simp [hY]
  have hm : ¬ c.minN ≤ (riseState c n j w).n + 1 := by simp only [riseState]; omega
  rw [step_gen, if_neg hm, hT]
  rfl


/-! ## 1. the constant phase -/

/-- after `n ≥ 1` copies of the same value `v` (from `init`): `z = x = ⟨v, n⟩`, `y = ⟨v, n⟩` in two-sided mode
(untouched otherwise), no flag.  From the constant-stream invariant `C01c.Hddma.Inv`. -/
theorem const_phase (c : HDDMA.Cfg ℝ) (h0 : 0 < c.alphaD) (h1 : c.alphaD ≤ 1) (v : ℝ) (n : ℕ) (hn : 1 ≤ n) :
    aRun c HDDMA.init (List.replicate n v) =
      ⟨n, false, false, ⟨⟨v, n⟩, ⟨v, n⟩, if c.twoSided then ⟨v, n⟩ else Mean.init⟩⟩ := by
  have hI : C01c.Hddma.Inv c v (aRun c HDDMA.init (List.replicate n v)) :=
    C01c.foldl_all (HDDMA.machine c) (· = v) (C01c.Hddma.Inv c v) (C01c.Hddma.inv_init c v)
      (fun s x hx hs => by subst hx; exact C01c.Hddma.inv_step ⟨h0, h1⟩ hs) _
      (fun x hx => (List.mem_replicate.mp hx).2)
  have hN := aRun_n c HDDMA.init (List.replicate n v)
  generalize aRun c HDDMA.init (List.replicate n v) = s at hI hN
  obtain ⟨hz, hzn, hx, hy, hd, hw⟩ := hI
  rcases s with ⟨sn, sd, sw, ⟨x, z, y⟩⟩
  rcases z with ⟨zm, zk⟩
  simp only [HDDMA.init, List.length_replicate, Nat.zero_add] at hN hzn hx hy hd hw hz
  subst hN hd hw hx hzn
  have : zm = v := by
    rcases hz with ⟨h, _⟩ | ⟨_, h⟩
    · simp only at h; omega
    · exact h
  subst this
  rw [hy]

/-- **C04b.1 `zeros_phase`**: after `n ≥ 1` zeros, `z = x = ⟨0, n⟩` (and `y`, in two-sided mode), no flag. -/
theorem zeros_phase (c : HDDMA.Cfg ℝ) (h0 : 0 < c.alphaD) (h1 : c.alphaD ≤ 1) (n : ℕ) (hn : 1 ≤ n) :
    aRun c HDDMA.init (List.replicate n 0) =
      ⟨n, false, false, ⟨⟨0, n⟩, ⟨0, n⟩, if c.twoSided then ⟨0, n⟩ else Mean.init⟩⟩ :=
  const_phase c h0 h1 0 n hn

theorem zeros_phase' (c : HDDMA.Cfg ℝ) (h0 : 0 < c.alphaD) (h1 : c.alphaD ≤ 1) (n : ℕ) (hn : 1 ≤ n) :
    aRun c HDDMA.init (riseStream n 0) = riseState c n 0 false := by
  simp only [riseStream, List.replicate_zero, List.append_nil, riseState, zJ_zero, Nat.add_zero]
  exact zeros_phase c h0 h1 n hn

/-! ## 3. the ones phase -/

theorem riseStream_succ (n j : ℕ) : riseStream n (j + 1) = riseStream n j ++ [1] := by
  simp only [riseStream, List.replicate_succ', List.append_assoc]

/-- warning flag after `0^n 1^j` when no drift has been reported yet -/
noncomputable def riseWarn (c : HDDMA.Cfg ℝ) (n j : ℕ) : Bool := decide (1 ≤ j) && riseTest n j c.alphaW

/-- as long as the `alpha_d` test has not fired, the run is in `riseState` -/
theorem rise_run (c : HDDMA.Cfg ℝ) (h0 : 0 < c.alphaD) (h1 : c.alphaD ≤ 1) (n : ℕ) (hn : 1 ≤ n)
    (hmin : c.minN ≤ n) (hL : LD c ≤ 2 * n) (j : ℕ)
    (hno : ∀ j', 1 ≤ j' → j' ≤ j → riseTest n j' c.alphaD = false) :
    aRun c HDDMA.init (riseStream n j) = riseState c n j (riseWarn c n j) := by
  induction j with
  | zero => simpa [riseWarn] using zeros_phase' c h0 h1 n hn
  | succ j ih =>
    rw [riseStream_succ, aRun_append, ih (fun j' h1 h2 => hno j' h1 (by omega)),
      rise_step c h0 h1 n j hn (by omega) hL, hno (j + 1) (by omega) (Nat.le_refl _)]
    simp [riseWarn]

/-- … and the step at which it fires for the first time reports drift and restarts the statistics -/
theorem rise_fire (c : HDDMA.Cfg ℝ) (h0 : 0 < c.alphaD) (h1 : c.alphaD ≤ 1) (n : ℕ) (hn : 1 ≤ n)
    (hmin : c.minN ≤ n) (hL : LD c ≤ 2 * n) (j : ℕ)
    (hno : ∀ j', 1 ≤ j' → j' ≤ j → riseTest n j' c.alphaD = false)
    (hyes : riseTest n (j + 1) c.alphaD = true) :
    aRun c HDDMA.init (riseStream n (j + 1)) = ⟨n + (j + 1), true, false, HDDMA.Test.init⟩ := by
  rw [riseStream_succ, aRun_append, rise_run c h0 h1 n hn hmin hL j hno,
    rise_step c h0 h1 n j hn (by omega) hL, hyes]
  rfl

/-! ### the firing condition `2 n j ≥ L (n + j)` -/

/-- `2 n j ≥ L (n + j)` -/
def Fires (L : ℝ) (n j : ℕ) : Prop := L * ((n : ℝ) + j) ≤ 2 * n * j

/-- `js` is the first ones-step `≥ 1` at which `2 n j ≥ L (n + j)` -/
def IsFirst (L : ℝ) (n js : ℕ) : Prop := 1 ≤ js ∧ Fires L n js ∧ ∀ j', 1 ≤ j' → j' < js → ¬ Fires L n j'

theorem fires_succ {L : ℝ} {n j : ℕ} (hL : L ≤ 2 * n) (h : Fires L n j) : Fires L n (j + 1) := by
  unfold Fires at *; push_cast; nlinarith

theorem fires_mono {L : ℝ} {n j k : ℕ} (hL : L ≤ 2 * n) (hjk : j ≤ k) (h : Fires L n j) : Fires L n k := by
  induction k, hjk using Nat.le_induction with
  | base => exact h
  | succ k _ ih => exact fires_succ hL ih

theorem fires_anti {L L' : ℝ} {n j : ℕ} (hLL : L' ≤ L) (h : Fires L n j) : Fires L' n j := by
  unfold Fires at *
  have : (0 : ℝ) ≤ (n : ℝ) + j := by positivity
  nlinarith

/-- for `2n ≤ L` the condition is never satisfied -/
theorem not_fires {L : ℝ} {n j : ℕ} (hn : 1 ≤ n) (hL : 2 * (n : ℝ) ≤ L) : ¬ Fires L n j := by
  unfold Fires
  have hn' : (1 : ℝ) ≤ n := by exact_mod_cast hn
  have hj' : (0 : ℝ) ≤ j := Nat.cast_nonneg j
  intro h
  nlinarith

/-- if some `j` satisfies `2 n j ≥ L (n + j)` (and `n ≥ 1`) then `L < 2n`: the existence of `j*` already implies
the cut-stays condition `L ≤ 2n` of `cut_stays_iff` -/
theorem fires_lt {L : ℝ} {n j : ℕ} (hn : 1 ≤ n) (h : Fires L n j) : L < 2 * n := by
  by_contra hc
  exact not_fires hn (not_lt.mp hc) h

/-- "`j*` satisfies the inequality and `j* - 1` does not" (for `j* ≥ 2`; for `j* = 1` there is no earlier ones-step) -/
theorem isFirst_iff_pred {L : ℝ} {n js : ℕ} (hL : L ≤ 2 * n) :
    IsFirst L n js ↔ 1 ≤ js ∧ Fires L n js ∧ (js = 1 ∨ ¬ Fires L n (js - 1)) := by
  constructor
  · rintro ⟨h1, h2, h3⟩
    refine ⟨h1, h2, ?_⟩
    by_cases h : js = 1
    · exact Or.inl h
    · exact Or.inr (h3 (js - 1) (by omega) (by omega))
  · rintro ⟨h1, h2, h3⟩
    refine ⟨h1, h2, fun j' hj1 hj2 hf => ?_⟩
    rcases h3 with h | h
    · omega
    · exact h (fires_mono hL (by omega) hf)

/-- closed form: for `L < 2n`, `2 n j ≥ L (n + j)` iff `j ≥ ⌈L n / (2n - L)⌉` -/
theorem fires_iff_ceil {L : ℝ} {n j : ℕ} (hL : L < 2 * n) : Fires L n j ↔ ⌈L * n / (2 * n - L)⌉₊ ≤ j := by
  have hp : 0 < 2 * (n : ℝ) - L := by linarith
  rw [Nat.ceil_le, div_le_iff₀ hp]
  unfold Fires
  constructor <;> intro h <;> nlinarith

/-- closed form of the first firing step -/
theorem isFirst_closed {L : ℝ} {n : ℕ} (hL : L < 2 * n) : IsFirst L n (max 1 ⌈L * n / (2 * n - L)⌉₊) := by
  refine ⟨le_max_left _ _, (fires_iff_ceil hL).mpr (le_max_right _ _), fun j' h1 h2 hf => ?_⟩
  have := (fires_iff_ceil hL).mp hf
  omega

/-- a first firing step exists iff `L < 2n` -/
theorem exists_isFirst_iff {L : ℝ} {n : ℕ} (hn : 1 ≤ n) : (∃ js, IsFirst L n js) ↔ L < 2 * n :=
  ⟨fun ⟨_, h⟩ => fires_lt hn h.2.1, fun h => ⟨_, isFirst_closed h⟩⟩

theorem isFirst_unique {L : ℝ} {n a b : ℕ} (ha : IsFirst L n a) (hb : IsFirst L n b) : a = b := by
  rcases Nat.lt_trichotomy a b with h | h | h
  · exact absurd ha.2.1 (hb.2.2 a ha.1 h)
  · exact h
  · exact absurd hb.2.1 (ha.2.2 b hb.1 h)

theorem riseTest_D (c : HDDMA.Cfg ℝ) (h0 : 0 < c.alphaD) (h1 : c.alphaD ≤ 1) (n j : ℕ) (hn : 1 ≤ n) (hj : 1 ≤ j) :
    riseTest n j c.alphaD = true ↔ Fires (LD c) n j := (riseTest_iff n j c.alphaD hn hj h0 h1).2

theorem riseTest_W (c : HDDMA.Cfg ℝ) (h0 : 0 < c.alphaW) (h1 : c.alphaW ≤ 1) (n j : ℕ) (hn : 1 ≤ n) (hj : 1 ≤ j) :
    riseTest n j c.alphaW = true ↔ Fires (LW c) n j := (riseTest_iff n j c.alphaW hn hj h0 h1).2

/-- **C04b.3 `rise_delay`, full states.**  Before ones-step `j*` the state after `0^n 1^j` is `riseState`: `n + j` values
seen, no drift, cut `x = ⟨0, n⟩`, `z = ⟨j/(n+j), n+j⟩`, `y = z` (two-sided), warning flag `riseWarn`; after ones-step
`j*`: drift, no warning, statistics restarted. -/
theorem rise_delay_state (c : HDDMA.Cfg ℝ) (h0 : 0 < c.alphaD) (h1 : c.alphaD ≤ 1) (n : ℕ) (hn : 1 ≤ n)
    (hmin : c.minN ≤ n) (js : ℕ) (hjs : IsFirst (LD c) n js) :
    (∀ j, j < js → aRun c HDDMA.init (riseStream n j) = riseState c n j (riseWarn c n j)) ∧
    aRun c HDDMA.init (riseStream n js) = ⟨n + js, true, false, HDDMA.Test.init⟩ := by
  have hL : LD c ≤ 2 * n := (fires_lt hn hjs.2.1).le
  obtain ⟨hj1, hf, hmin'⟩ := hjs
  have hno : ∀ j', 1 ≤ j' → j' < js → riseTest n j' c.alphaD = false := by
    intro j' h1' h2'
    have := mt (riseTest_D c h0 h1 n j' hn h1').mp (hmin' j' h1' h2')
    simpa using this
  refine ⟨fun j hj => rise_run c h0 h1 n hn hmin hL j (fun j' a b => hno j' a (by omega)), ?_⟩
  obtain ⟨j, rfl⟩ : ∃ j, js = j + 1 := ⟨js - 1, by omega⟩
  exact rise_fire c h0 h1 n hn hmin hL j (fun j' a b => hno j' a (by omega))
    ((riseTest_D c h0 h1 n (j + 1) hn hj1).mpr hf)


/-- **C04b.2 `cut_stays` (model level).**  Before the drift the increase cut is still the mean of the `n` zeros and
`z` is the mean of all values seen. -/
theorem cut_stays (c : HDDMA.Cfg ℝ) (h0 : 0 < c.alphaD) (h1 : c.alphaD ≤ 1) (n : ℕ) (hn : 1 ≤ n)
    (hmin : c.minN ≤ n) (js : ℕ) (hjs : IsFirst (LD c) n js) (j : ℕ) (hj : j < js) :
    (aRun c HDDMA.init (riseStream n j)).t.x = ⟨0, n⟩ ∧
    (aRun c HDDMA.init (riseStream n j)).t.z = ⟨(j : ℝ) / ((n + j : ℕ) : ℝ), n + j⟩ := by
  rw [(rise_delay_state c h0 h1 n hn hmin js hjs).1 j hj]
  exact ⟨rfl, rfl⟩

theorem take_riseStream (n k t : ℕ) : (riseStream n k).take t = riseStream (min t n) (min (t - n) k) := by
  simp [riseStream, List.take_append, List.take_replicate]

theorem take_dropStream (n k t : ℕ) : (dropStream n k).take t = dropStream (min t n) (min (t - n) k) := by
  simp [dropStream, List.take_append, List.take_replicate]

/-- no flag during the zeros -/
theorem zeros_noflag (c : HDDMA.Cfg ℝ) (h0 : 0 < c.alphaD) (h1 : c.alphaD ≤ 1) (t : ℕ) :
    (aRun c HDDMA.init (riseStream t 0)).drift = false ∧ (aRun c HDDMA.init (riseStream t 0)).warning = false := by
  rcases Nat.eq_zero_or_pos t with rfl | ht
  · exact ⟨rfl, rfl⟩
  · rw [zeros_phase' c h0 h1 t ht]; exact ⟨rfl, rfl⟩

/-- **C04b.3 `rise_delay`.**  `0 < alpha_d ≤ 1` (so `L_d = ln(1/alpha_d) ≥ 0`: a genuine square root),
`n ≥ 1` zeros with `min_num_instances ≤ n`, and `j*` the first `j ≥ 1` with `2 n j ≥ L_d (n + j)` (its existence
forces `L_d < 2n`, the exact condition under which the cut stays at the end of the zeros, `cut_stays_iff`).  Then
on `0^n 1^k` (`k ≥ j*`), in one- and in two-sided mode (`c.twoSided` is arbitrary), no drift is reported after any
of the first `n + j* - 1` values and drift (and no warning) is reported after value number `n + j*`. -/
theorem rise_delay (c : HDDMA.Cfg ℝ) (h0 : 0 < c.alphaD) (h1 : c.alphaD ≤ 1) (n : ℕ) (hn : 1 ≤ n)
    (hmin : c.minN ≤ n) (js : ℕ) (hjs : IsFirst (LD c) n js) (k : ℕ) (hk : js ≤ k) :
    (∀ t, t < n + js → (aRun c HDDMA.init ((riseStream n k).take t)).drift = false) ∧
    (aRun c HDDMA.init ((riseStream n k).take (n + js))).drift = true ∧
    (aRun c HDDMA.init ((riseStream n k).take (n + js))).warning = false := by
  have hL : LD c ≤ 2 * n := (fires_lt hn hjs.2.1).le
  obtain ⟨hA, hB⟩ := rise_delay_state c h0 h1 n hn hmin js hjs
  refine ⟨fun t ht => ?_, ?_, ?_⟩
  · rw [take_riseStream]
    rcases Nat.lt_or_ge t n with h | h
    · rw [Nat.min_eq_left h.le, show t - n = 0 by omega, Nat.zero_min]
      exact (zeros_noflag c h0 h1 t).1
    · rw [Nat.min_eq_right h, Nat.min_eq_left (by omega), hA (t - n) (by omega)]; rfl
  · rw [take_riseStream, Nat.min_eq_right (by omega), Nat.add_sub_cancel_left, Nat.min_eq_left hk, hB]
  · rw [take_riseStream, Nat.min_eq_right (by omega), Nat.add_sub_cancel_left, Nat.min_eq_left hk, hB]

/-- in two-sided mode the decrease test is silent at every ones-step up to and including the drift step: the
statistics on which the decision of ones-step `j + 1` is taken have `y = z` (so `m = 0`). -/
theorem rise_decrease_silent (c : HDDMA.Cfg ℝ) (h0 : 0 < c.alphaD) (h1 : c.alphaD ≤ 1) (hc : c.twoSided = true)
    (n : ℕ) (hn : 1 ≤ n) (hmin : c.minN ≤ n) (js : ℕ) (hjs : IsFirst (LD c) n js)
    (j : ℕ) (hj : j < js) :
    (newT c (aRun c HDDMA.init (riseStream n j)).t 1).y = (newT c (aRun c HDDMA.init (riseStream n j)).t 1).z ∧
    HDDMA.side c (newT c (aRun c HDDMA.init (riseStream n j)).t 1).y
      (newT c (aRun c HDDMA.init (riseStream n j)).t 1).z false = (false, false) := by
  have hL : LD c ≤ 2 * n := (fires_lt hn hjs.2.1).le
  rw [(rise_delay_state c h0 h1 n hn hmin js hjs).1 j hj]
  have : (newT c (riseState c n j (riseWarn c n j)).t 1).y = (newT c (riseState c n j (riseWarn c n j)).t 1).z := by
    simp only [newT, riseState, hc, if_true, newZ, newY_moves c.alphaD h0 h1 n j hn, zJ_update n j hn]
  rw [this]
  exact ⟨rfl, C01c.Hddma.side_self _ _ _⟩

/-- closed form of **C04b.3**: for `L_d < 2n` the first drift is reported after exactly
`max 1 ⌈L_d n / (2n - L_d)⌉` ones (`max 1`: for `alpha_d = 1`, `L_d = 0`, the ceiling is `0` but a drift needs at
least one value after the cut). -/
theorem rise_delay_closed (c : HDDMA.Cfg ℝ) (h0 : 0 < c.alphaD) (h1 : c.alphaD ≤ 1) (n : ℕ) (hn : 1 ≤ n)
    (hmin : c.minN ≤ n) (hL : LD c < 2 * n) (k : ℕ) (hk : max 1 ⌈LD c * n / (2 * n - LD c)⌉₊ ≤ k) :
    (∀ t, t < n + max 1 ⌈LD c * n / (2 * n - LD c)⌉₊ →
      (aRun c HDDMA.init ((riseStream n k).take t)).drift = false) ∧
    (aRun c HDDMA.init ((riseStream n k).take (n + max 1 ⌈LD c * n / (2 * n - LD c)⌉₊))).drift = true :=
  let h := rise_delay c h0 h1 n hn hmin _ (isFirst_closed hL) k hk
  ⟨h.1, h.2.1⟩

/-! ## 4. `drop_delay` -/

theorem dropStream_eq (n k : ℕ) : dropStream n k = (riseStream n k).map (fun v => 1 - v) := by
  simp [dropStream, riseStream]

/-- the two-sided detector reports exactly the same flags, step by step, on `1^n 0^k` and on `0^n 1^k` -/
theorem drop_eq_rise (c : HDDMA.Cfg ℝ) (hc : c.twoSided = true) (n k t : ℕ) :
    (aRun c HDDMA.init ((dropStream n k).take t)).drift = (aRun c HDDMA.init ((riseStream n k).take t)).drift ∧
    (aRun c HDDMA.init ((dropStream n k).take t)).warning = (aRun c HDDMA.init ((riseStream n k).take t)).warning ∧
    (aRun c HDDMA.init ((dropStream n k).take t)).n = (aRun c HDDMA.init ((riseStream n k).take t)).n := by
  rw [dropStream_eq]
  exact hddma_reflect 1 c hc _ t

/-- **C04b.4 `drop_delay`.**  Same hypotheses as `rise_delay`, two-sided mode: on `1^n 0^k` the first drift is
reported after value number `n + j*`, with the SAME `j*` as for the rise `0^n 1^k`. -/
theorem drop_delay (c : HDDMA.Cfg ℝ) (h0 : 0 < c.alphaD) (h1 : c.alphaD ≤ 1) (hc : c.twoSided = true)
    (n : ℕ) (hn : 1 ≤ n) (hmin : c.minN ≤ n) (js : ℕ) (hjs : IsFirst (LD c) n js)
    (k : ℕ) (hk : js ≤ k) :
    (∀ t, t < n + js → (aRun c HDDMA.init ((dropStream n k).take t)).drift = false) ∧
    (aRun c HDDMA.init ((dropStream n k).take (n + js))).drift = true ∧
    (aRun c HDDMA.init ((dropStream n k).take (n + js))).warning = false := by
  have hL : LD c ≤ 2 * n := (fires_lt hn hjs.2.1).le
  obtain ⟨hA, hB, hC⟩ := rise_delay c h0 h1 n hn hmin js hjs k hk
  refine ⟨fun t ht => ?_, ?_, ?_⟩
  · rw [(drop_eq_rise c hc n k t).1]; exact hA t ht
  · rw [(drop_eq_rise c hc n k _).1]; exact hB
  · rw [(drop_eq_rise c hc n k _).2.1]; exact hC

/-! ## 5. `warning_delay` -/

theorem LW_le_LD (c : HDDMA.Cfg ℝ) (h0 : 0 < c.alphaD) (hDW : c.alphaD ≤ c.alphaW) : LW c ≤ LD c := by
  unfold LW LD
  exact Real.log_le_log (by have := lt_of_lt_of_le h0 hDW; positivity) (one_div_le_one_div_of_le h0 hDW)

/-- **C04b.5 `warning_delay`.**  Before the drift step `j*`, the warning flag after ones-step `j ≥ 1` is set iff
`2 n j ≥ L_w (n + j)` (`L_w = ln(1/alpha_w)`, `0 < alpha_w ≤ 1` so that `L_w ≥ 0`); no warning during the zeros nor
at the drift step. -/
theorem warning_delay (c : HDDMA.Cfg ℝ) (h0 : 0 < c.alphaD) (h1 : c.alphaD ≤ 1) (hw0 : 0 < c.alphaW)
    (hw1 : c.alphaW ≤ 1) (n : ℕ) (hn : 1 ≤ n) (hmin : c.minN ≤ n) (js : ℕ)
    (hjs : IsFirst (LD c) n js) (k : ℕ) (hk : js ≤ k) :
    (∀ t, t ≤ n → (aRun c HDDMA.init ((riseStream n k).take t)).warning = false) ∧
    (∀ j, 1 ≤ j → j < js →
      ((aRun c HDDMA.init ((riseStream n k).take (n + j))).warning = true ↔ Fires (LW c) n j)) ∧
    (aRun c HDDMA.init ((riseStream n k).take (n + js))).warning = false := by
  have hL : LD c ≤ 2 * n := (fires_lt hn hjs.2.1).le
  obtain ⟨hA, -⟩ := rise_delay_state c h0 h1 n hn hmin js hjs
  refine ⟨fun t ht => ?_, fun j hj1 hj2 => ?_, (rise_delay c h0 h1 n hn hmin js hjs k hk).2.2⟩
  · rw [take_riseStream, Nat.min_eq_left ht, show t - n = 0 by omega, Nat.zero_min]
    exact (zeros_noflag c h0 h1 t).2
  · rw [take_riseStream, Nat.min_eq_right (by omega), Nat.add_sub_cancel_left, Nat.min_eq_left (by omega),
      hA j hj2, ← riseTest_W c hw0 hw1 n j hn hj1]
    simp [riseState, riseWarn, hj1]

/-- **C04b.5, interval form.**  With moreover `alpha_d ≤ alpha_w` and `j_w` the first `j ≥ 1` with
`2 n j ≥ L_w (n + j)`: `j_w ≤ j*`, and before the drift the warning flag is set exactly from ones-step `j_w` on
(if `j_w = j*` no warning is ever reported: the detector goes straight to drift). -/
theorem warning_interval (c : HDDMA.Cfg ℝ) (h0 : 0 < c.alphaD) (hDW : c.alphaD ≤ c.alphaW)
    (hw1 : c.alphaW ≤ 1) (n : ℕ) (hn : 1 ≤ n) (hmin : c.minN ≤ n) (js jw : ℕ)
    (hjs : IsFirst (LD c) n js) (hjw : IsFirst (LW c) n jw) (k : ℕ) (hk : js ≤ k) :
    jw ≤ js ∧
    (∀ t, t < n + jw → (aRun c HDDMA.init ((riseStream n k).take t)).warning = false) ∧
    (∀ t, n + jw ≤ t → t < n + js → (aRun c HDDMA.init ((riseStream n k).take t)).warning = true) ∧
    (aRun c HDDMA.init ((riseStream n k).take (n + js))).warning = false := by
  have hL : LD c ≤ 2 * n := (fires_lt hn hjs.2.1).le
  have hw0 : 0 < c.alphaW := lt_of_lt_of_le h0 hDW
  have h1 : c.alphaD ≤ 1 := hDW.trans hw1
  have hLL := LW_le_LD c h0 hDW
  obtain ⟨hA, hB, hC⟩ := warning_delay c h0 h1 hw0 hw1 n hn hmin js hjs k hk
  have hle : jw ≤ js := by
    by_contra h
    exact hjw.2.2 js hjs.1 (by omega) (fires_anti hLL hjs.2.1)
  refine ⟨hle, fun t ht => ?_, fun t ht1 ht2 => ?_, hC⟩
  · rcases Nat.lt_or_ge n t with h | h
    · obtain ⟨j, rfl⟩ : ∃ j, t = n + j := ⟨t - n, by omega⟩
      have := (hB j (by omega) (by omega)).not.mpr (hjw.2.2 j (by omega) (by omega))
      simpa using this
    · exact hA t h
  · obtain ⟨j, rfl⟩ : ∃ j, t = n + j := ⟨t - n, by omega⟩
    exact (hB j (by have := hjw.1; omega) (by omega)).mpr
      (fires_mono (hLL.trans hL) (by omega) hjw.2.1)

/-- `drop` version of `warning_interval` (two-sided mode) -/
theorem drop_warning_interval (c : HDDMA.Cfg ℝ) (h0 : 0 < c.alphaD) (hDW : c.alphaD ≤ c.alphaW)
    (hw1 : c.alphaW ≤ 1) (hc : c.twoSided = true) (n : ℕ) (hn : 1 ≤ n) (hmin : c.minN ≤ n)
    (js jw : ℕ) (hjs : IsFirst (LD c) n js) (hjw : IsFirst (LW c) n jw) (k : ℕ) (hk : js ≤ k) :
    jw ≤ js ∧
    (∀ t, t < n + jw → (aRun c HDDMA.init ((dropStream n k).take t)).warning = false) ∧
    (∀ t, n + jw ≤ t → t < n + js → (aRun c HDDMA.init ((dropStream n k).take t)).warning = true) ∧
    (aRun c HDDMA.init ((dropStream n k).take (n + js))).warning = false := by
  have hL : LD c ≤ 2 * n := (fires_lt hn hjs.2.1).le
  obtain ⟨hA, hB, hC, hD⟩ := warning_interval c h0 hDW hw1 n hn hmin js jw hjs hjw k hk
  refine ⟨hA, fun t ht => ?_, fun t ht1 ht2 => ?_, ?_⟩
  · rw [(drop_eq_rise c hc n k t).2.1]; exact hB t ht
  · rw [(drop_eq_rise c hc n k t).2.1]; exact hC t ht1 ht2
  · rw [(drop_eq_rise c hc n k _).2.1]; exact hD


/-! ## 3b. the case `2n ≤ L_d`: no drift, wherever the cut is -/

/-- for `2n ≤ L` the increase test between the cut after `0^n 1^i` and the sample after `0^n 1^(i+d+1)` is false -/
theorem cross_test_false (n i d : ℕ) (al : ℝ) (hn : 1 ≤ n) (hL : 2 * (n:ℝ) ≤ Real.log (1/al)) :
    HDDMA.hoeffTest (d + 1) (n + i) (n + (i + d + 1)) (zJ n (i + d + 1)).mean (zJ n i).mean al = false := by
  have hn' : (1:ℝ) ≤ n := by exact_mod_cast hn
  simp only [HDDMA.hoeffTest, zJ, RealNum.ge_false_iff, RealNum.sqrt_eq, RealNum.log_eq, RealNum.ofNat_eq, RealNum.one_eq]
  rw [Real.sqrt_le_iff]; rintro ⟨-, h⟩
  push_cast at h
  generalize Real.log (1 / al) = L at *
  have hi : (0:ℝ) ≤ i := Nat.cast_nonneg i
  have hd : (0:ℝ) ≤ d := Nat.cast_nonneg d
  have hA : (0:ℝ) < (n:ℝ) + i := by linarith
  have hB : (0:ℝ) < (n:ℝ) + ((i:ℝ) + d + 1) := by linarith
  have hp : (0:ℝ) < ((d:ℝ) + 1) / (2 * ((n:ℝ) + i) ^ 2 * ((n:ℝ) + ((i:ℝ) + d + 1)) ^ 2) := by positivity
  have e1 : ((d:ℝ) + 1) / (2 * ((n:ℝ) + i) * ((n:ℝ) + ((i:ℝ) + d + 1))) * L =
      (L * ((n:ℝ) + i) * ((n:ℝ) + ((i:ℝ) + d + 1))) *
        (((d:ℝ) + 1) / (2 * ((n:ℝ) + i) ^ 2 * ((n:ℝ) + ((i:ℝ) + d + 1)) ^ 2)) := by
    field_simp
  have e2 : (((i:ℝ) + d + 1) / ((n:ℝ) + ((i:ℝ) + d + 1)) - (i:ℝ) / ((n:ℝ) + i)) ^ 2 =
      (2 * (n:ℝ) ^ 2 * ((d:ℝ) + 1)) *
        (((d:ℝ) + 1) / (2 * ((n:ℝ) + i) ^ 2 * ((n:ℝ) + ((i:ℝ) + d + 1)) ^ 2)) := by
    field_simp
    ring
  rw [e1, e2, mul_le_mul_iff_of_pos_right hp] at h
  have hAB : (n:ℝ) * ((n:ℝ) + ((d:ℝ) + 1)) ≤ ((n:ℝ) + i) * ((n:ℝ) + ((i:ℝ) + d + 1)) := by nlinarith
  have h2 : 2 * (n:ℝ) * (((n:ℝ) + i) * ((n:ℝ) + ((i:ℝ) + d + 1))) ≤ L * (((n:ℝ) + i) * ((n:ℝ) + ((i:ℝ) + d + 1))) :=
    mul_le_mul_of_nonneg_right hL (by positivity)
  nlinarith

/-- weaker invariant of the ones phase, valid wherever the cut `x` is: it is the running mean after `0^n 1^i`
for some `i ≤ j` -/
def RiseInv (c : HDDMA.Cfg ℝ) (n j : ℕ) (s : HDDMA.State ℝ) : Prop :=
  ∃ i w, i ≤ j ∧ s = ⟨n + j, false, w, ⟨zJ n i, zJ n j, if c.twoSided then zJ n j else Mean.init⟩⟩

theorem riseInv_step (c : HDDMA.Cfg ℝ) (h0 : 0 < c.alphaD) (h1 : c.alphaD ≤ 1) (n j : ℕ) (hn : 1 ≤ n)
    (hL : 2 * (n : ℝ) ≤ LD c) (s : HDDMA.State ℝ) (h : RiseInv c n j s) :
    RiseInv c n (j + 1) (HDDMA.step c s 1) := by
  obtain ⟨i, w, hij, rfl⟩ := h
  have hZ := zJ_update n j hn
  have hY := newY_moves c.alphaD h0 h1 n j hn
  obtain ⟨i', hi', hX⟩ : ∃ i', i' ≤ j + 1 ∧ newX c.alphaD (zJ n i) (zJ n j) 1 = zJ n i' := by
    rw [newX_eq, hZ]; split
    · exact ⟨j + 1, le_refl _, rfl⟩
    · exact ⟨i, by omega, rfl⟩
  have hside : (HDDMA.side c (zJ n i') (zJ n (j + 1)) true).1 = false := by
    rcases Nat.lt_or_ge i' (j + 1) with hlt | hge
    · obtain ⟨d, hd⟩ : ∃ d, j + 1 = i' + d + 1 := ⟨j - i', by omega⟩
      rw [hd, side_table]
      have e : (zJ n (i' + d + 1)).n - (zJ n i').n = d + 1 := by simp only [zJ]; omega
      rw [e]
      simp only [Nat.succ_ne_zero, if_false, if_true]
      exact cross_test_false n i' d c.alphaD hn hL
    · have : i' = j + 1 := by omega
      subst this; rw [C01c.Hddma.side_self]
  have hT : newT c ⟨zJ n i, zJ n j, if c.twoSided then zJ n j else Mean.init⟩ 1 =
      ⟨zJ n i', zJ n (j + 1), if c.twoSided then zJ n (j + 1) else Mean.init⟩ := by
    simp only [newT, newZ, hX, hZ]; cases c.twoSided <;> simp [hY]
  have hcc : (HDDMA.checkCases c ⟨zJ n i', zJ n (j + 1), if c.twoSided then zJ n (j + 1) else Mean.init⟩).1
      = false := by
    unfold HDDMA.checkCases
    cases hts : c.twoSided <;> simp [hside, C01c.Hddma.side_self]
  rw [step_gen]; simp only [hT, hcc]
  split
  · exact ⟨i', _, hi', rfl⟩
  · exact ⟨i', false, hi', rfl⟩


theorem riseInv_run (c : HDDMA.Cfg ℝ) (h0 : 0 < c.alphaD) (h1 : c.alphaD ≤ 1) (n : ℕ) (hn : 1 ≤ n)
    (hL : 2 * (n : ℝ) ≤ LD c) (j : ℕ) : RiseInv c n j (aRun c HDDMA.init (riseStream n j)) := by
  induction j with
  | zero => exact ⟨0, false, le_refl _, by rw [zeros_phase' c h0 h1 n hn]; simp [riseState, zJ_zero]⟩
  | succ j ih => rw [riseStream_succ, aRun_append]; exact riseInv_step c h0 h1 n j hn hL _ ih

/-- **C04b.3, the case `2n ≤ L_d`.**  No `j` satisfies `2 n j ≥ L_d (n + j)` (`not_fires`), and indeed no drift
is ever reported on `0^n 1^k`, in either mode, whatever `min_num_instances` — wherever the cut `x` may have moved
in the meantime (for `2n < L_d` it does move, `cut_stays_iff`). -/
theorem rise_never (c : HDDMA.Cfg ℝ) (h0 : 0 < c.alphaD) (h1 : c.alphaD ≤ 1) (n : ℕ) (hn : 1 ≤ n)
    (hL : 2 * (n : ℝ) ≤ LD c) (k t : ℕ) :
    (aRun c HDDMA.init ((riseStream n k).take t)).drift = false := by
  rw [take_riseStream]
  rcases Nat.lt_or_ge t n with h | h
  · rw [Nat.min_eq_left h.le, show t - n = 0 by omega, Nat.zero_min]
    exact (zeros_noflag c h0 h1 t).1
  · rw [Nat.min_eq_right h]
    obtain ⟨i, w, -, hs⟩ := riseInv_run c h0 h1 n hn hL (min (t - n) k)
    rw [hs]

/-- … and by symmetry no drift on `1^n 0^k` either (two-sided mode) -/
theorem drop_never (c : HDDMA.Cfg ℝ) (h0 : 0 < c.alphaD) (h1 : c.alphaD ≤ 1) (hc : c.twoSided = true) (n : ℕ)
    (hn : 1 ≤ n) (hL : 2 * (n : ℝ) ≤ LD c) (k t : ℕ) :
    (aRun c HDDMA.init ((dropStream n k).take t)).drift = false := by
  rw [(drop_eq_rise c hc n k t).1]; exact rise_never c h0 h1 n hn hL k t

/-! ## 2. `cut_stays`: the condition `L_d ≤ 2n` is exact -/

/-- for `L > 2n` the cut rule holds at some ones-step -/
theorem cut_moves_real (n : ℕ) (L : ℝ) (hn : 1 ≤ n) (hL : 2 * (n : ℝ) < L) :
    ∃ j : ℕ, 1 ≤ j ∧ (j : ℝ) / ((n + j : ℕ) : ℝ) + Real.sqrt (L / (2 * ((n + j : ℕ) : ℝ))) ≤
      Real.sqrt (L / (2 * (n : ℝ))) := by
  have hn' : (0 : ℝ) < n := by exact_mod_cast hn
  have hL0 : 0 < L := by linarith
  have ha : 1 < Real.sqrt (L / (2 * (n : ℝ))) := by
    rw [Real.lt_sqrt (by norm_num), one_pow, lt_div_iff₀ (by positivity)]; linarith
  generalize Real.sqrt (L / (2 * (n : ℝ))) = a at *
  obtain ⟨j, hj⟩ := exists_nat_ge (max 1 (L / (2 * (a - 1) ^ 2)))
  have hj1 : (1 : ℝ) ≤ j := le_trans (le_max_left _ _) hj
  have hj2 : L / (2 * (a - 1) ^ 2) ≤ j := le_trans (le_max_right _ _) hj
  refine ⟨j, by exact_mod_cast hj1, ?_⟩
  push_cast
  have ha1 : 0 < a - 1 := by linarith
  have hp : 0 < (a - 1) ^ 2 := by positivity
  have hb : Real.sqrt (L / (2 * ((n : ℝ) + j))) ≤ a - 1 := by
    rw [Real.sqrt_le_iff]
    refine ⟨by linarith, ?_⟩
    rw [div_le_iff₀ (by positivity)] at hj2 ⊢
    nlinarith
  have ht : (j : ℝ) / ((n : ℝ) + j) ≤ 1 := by rw [div_le_one (by positivity)]; linarith
  linarith

/-- **C04b.2 `cut_stays`.**  For `n ≥ 1` and `L ≥ 0`: the increase cut stays at the end of the zeros at EVERY
ones-step `j ≥ 1` (`ε(n) < j/(n+j) + ε(n+j)`, the negation of the model's `z.mean + ε(z.n) ≤ x.mean + ε(x.n)`)
if and only if `L ≤ 2n`. -/
theorem cut_stays_iff (n : ℕ) (L : ℝ) (hn : 1 ≤ n) (hL0 : 0 ≤ L) :
    (∀ j : ℕ, 1 ≤ j → Real.sqrt (L / (2 * (n : ℝ))) <
        (j : ℝ) / ((n + j : ℕ) : ℝ) + Real.sqrt (L / (2 * ((n + j : ℕ) : ℝ)))) ↔ L ≤ 2 * n := by
  constructor
  · intro h
    by_contra hc
    rw [not_le] at hc
    obtain ⟨j, hj, hle⟩ := cut_moves_real n L hn hc
    exact absurd (h j hj) (not_lt.mpr hle)
  · intro h j hj
    exact cut_stays_real n j L hn hj hL0 h


/-! ## 3c. any `min_num_instances` -/

theorem rise_run_gen (c : HDDMA.Cfg ℝ) (h0 : 0 < c.alphaD) (h1 : c.alphaD ≤ 1) (n : ℕ) (hn : 1 ≤ n)
    (hL : LD c ≤ 2 * n) (j : ℕ)
    (hno : ∀ j', 1 ≤ j' → j' ≤ j → c.minN ≤ n + j' → riseTest n j' c.alphaD = false) :
    aRun c HDDMA.init (riseStream n j) = riseState c n j (decide (c.minN ≤ n + j) && riseWarn c n j) := by
  induction j with
  | zero => simpa [riseWarn] using zeros_phase' c h0 h1 n hn
  | succ j ih =>
    rw [riseStream_succ, aRun_append, ih (fun j' h1 h2 => hno j' h1 (by omega))]
    by_cases hm : c.minN ≤ n + (j + 1)
    · rw [rise_step c h0 h1 n j hn hm hL, hno (j + 1) (by omega) (Nat.le_refl _) hm]
      simp [riseWarn, hm]
    · rw [rise_step_warm c h0 h1 n j hn hm hL]
      simp [hm]

theorem rise_fire_gen (c : HDDMA.Cfg ℝ) (h0 : 0 < c.alphaD) (h1 : c.alphaD ≤ 1) (n : ℕ) (hn : 1 ≤ n)
    (hL : LD c ≤ 2 * n) (j : ℕ)
    (hno : ∀ j', 1 ≤ j' → j' ≤ j → c.minN ≤ n + j' → riseTest n j' c.alphaD = false)
    (hm : c.minN ≤ n + (j + 1)) (hyes : riseTest n (j + 1) c.alphaD = true) :
    aRun c HDDMA.init (riseStream n (j + 1)) = ⟨n + (j + 1), true, false, HDDMA.Test.init⟩ := by
  rw [riseStream_succ, aRun_append, rise_run_gen c h0 h1 n hn hL j hno,
    rise_step c h0 h1 n j hn hm hL, hyes]
  rfl

/-- **C04b.3 for any `min_num_instances`.**  Without `min_num_instances ≤ n`: the decision is only taken from
value number `min_num_instances` on, the cut still stays at the end of the zeros, and (the test being monotone in
`j` for `L_d ≤ 2n`) the first drift is reported after exactly `max j* (min_num_instances - n)` ones.  The
subtraction is a genuine one or is absorbed by the `max` (for `min_num_instances ≤ n` it is `0` and the result is
`j*`, i.e. `rise_delay`). -/
theorem rise_delay_gen (c : HDDMA.Cfg ℝ) (h0 : 0 < c.alphaD) (h1 : c.alphaD ≤ 1) (n : ℕ) (hn : 1 ≤ n)
    (js : ℕ) (hjs : IsFirst (LD c) n js) (k : ℕ) (hk : max js (c.minN - n) ≤ k) :
    (∀ t, t < n + max js (c.minN - n) → (aRun c HDDMA.init ((riseStream n k).take t)).drift = false) ∧
    (aRun c HDDMA.init ((riseStream n k).take (n + max js (c.minN - n)))).drift = true ∧
    (aRun c HDDMA.init ((riseStream n k).take (n + max js (c.minN - n)))).warning = false := by
  have hL : LD c ≤ 2 * n := (fires_lt hn hjs.2.1).le
  obtain ⟨hj1, hf, hmin'⟩ := hjs
  generalize hJ : max js (c.minN - n) = J at *
  have hJ1 : js ≤ J := by omega
  have hJ2 : c.minN ≤ n + J := by omega
  have hno : ∀ j', 1 ≤ j' → j' < J → c.minN ≤ n + j' → riseTest n j' c.alphaD = false := by
    intro j' h1' h2' h3'
    have := mt (riseTest_D c h0 h1 n j' hn h1').mp (hmin' j' h1' (by omega))
    simpa using this
  have hA : ∀ j, j < J → (aRun c HDDMA.init (riseStream n j)).drift = false := by
    intro j hj
    rw [rise_run_gen c h0 h1 n hn hL j (fun j' a b => hno j' a (by omega))]; rfl
  have hB : aRun c HDDMA.init (riseStream n J) = ⟨n + J, true, false, HDDMA.Test.init⟩ := by
    obtain ⟨j, rfl⟩ : ∃ j, J = j + 1 := ⟨J - 1, by omega⟩
    exact rise_fire_gen c h0 h1 n hn hL j (fun j' a b => hno j' a (by omega)) hJ2
      ((riseTest_D c h0 h1 n (j + 1) hn (by omega)).mpr (fires_mono hL hJ1 hf))
  refine ⟨fun t ht => ?_, ?_, ?_⟩
  · rw [take_riseStream]
    rcases Nat.lt_or_ge t n with h | h
    · rw [Nat.min_eq_left h.le, show t - n = 0 by omega, Nat.zero_min]
      exact (zeros_noflag c h0 h1 t).1
    · rw [Nat.min_eq_right h, Nat.min_eq_left (by omega), hA (t - n) (by omega)]
  · rw [take_riseStream, Nat.min_eq_right (by omega), Nat.add_sub_cancel_left, Nat.min_eq_left hk, hB]
  · rw [take_riseStream, Nat.min_eq_right (by omega), Nat.add_sub_cancel_left, Nat.min_eq_left hk, hB]

/-- the same for the drop (two-sided mode) -/
theorem drop_delay_gen (c : HDDMA.Cfg ℝ) (h0 : 0 < c.alphaD) (h1 : c.alphaD ≤ 1) (hc : c.twoSided = true)
    (n : ℕ) (hn : 1 ≤ n) (js : ℕ) (hjs : IsFirst (LD c) n js) (k : ℕ)
    (hk : max js (c.minN - n) ≤ k) :
    (∀ t, t < n + max js (c.minN - n) → (aRun c HDDMA.init ((dropStream n k).take t)).drift = false) ∧
    (aRun c HDDMA.init ((dropStream n k).take (n + max js (c.minN - n)))).drift = true ∧
    (aRun c HDDMA.init ((dropStream n k).take (n + max js (c.minN - n)))).warning = false := by
  have hL : LD c ≤ 2 * n := (fires_lt hn hjs.2.1).le
  obtain ⟨hA, hB, hC⟩ := rise_delay_gen c h0 h1 n hn js hjs k hk
  refine ⟨fun t ht => ?_, ?_, ?_⟩
  · rw [(drop_eq_rise c hc n k t).1]; exact hA t ht
  · rw [(drop_eq_rise c hc n k _).1]; exact hB
  · rw [(drop_eq_rise c hc n k _).2.1]; exact hC

/-! ## 4b. the ONE-sided detector never reports the drop -/

/-- the running mean after `1^n 0^j` -/
noncomputable def wJ (n j : ℕ) : Mean ℝ := ⟨(n : ℝ) / ((n + j : ℕ) : ℝ), n + j⟩

theorem wJ_zero (n : ℕ) (hn : 1 ≤ n) : wJ n 0 = ⟨1, n⟩ := by
  have : (n : ℝ) ≠ 0 := by exact_mod_cast (by omega : n ≠ 0)
  simp [wJ, this]

theorem wJ_update (n j : ℕ) (hn : 1 ≤ n) : (wJ n j).update 0 = wJ n (j + 1) := by
  have h1 : (0 : ℝ) < ((n + j : ℕ) : ℝ) := by exact_mod_cast (by omega : 0 < n + j)
  simp only [wJ, Mean.update, RealNum.ofNat_eq, Mean.mk.injEq]
  refine ⟨?_, rfl⟩
  push_cast at h1 ⊢
  field_simp
  ring

theorem wJ_mean_anti (n j : ℕ) (hn : 1 ≤ n) : (wJ n (j + 1)).mean ≤ (wJ n j).mean := by
  have h1 : (0 : ℝ) < ((n + j : ℕ) : ℝ) := by exact_mod_cast (by omega : 0 < n + j)
  simp only [wJ]
  apply div_le_div_of_nonneg_left (Nat.cast_nonneg n) h1
  exact_mod_cast (by omega : n + j ≤ n + (j + 1))

/-- on the way down the increase cut follows the current point -/
theorem newX_follows (aD : ℝ) (h0 : 0 < aD) (h1 : aD ≤ 1) (n j : ℕ) (hn : 1 ≤ n) :
    newX aD (wJ n j) (wJ n j) 0 = wJ n (j + 1) := by
  rw [newX_eq, wJ_update n j hn, if_pos]
  right
  rw [RealNum.le_iff]
  have hb := C01c.Hddma.bound_antitone (cfg := ⟨aD, aD, false, 0⟩) ⟨h0, h1⟩ (m := n + j) (n := n + (j + 1))
    (by omega) (by omega)
  have hm := wJ_mean_anti n j hn
  have e1 : (wJ n j).n = n + j := rfl
  have e2 : (wJ n (j + 1)).n = n + (j + 1) := rfl
  rw [e1, e2]
  linarith

/-- state of the one-sided detector after `1^n 0^j` -/
noncomputable def dropState1 (n j : ℕ) : HDDMA.State ℝ := ⟨n + j, false, false, ⟨wJ n j, wJ n j, Mean.init⟩⟩

theorem drop_step_one (c : HDDMA.Cfg ℝ) (h0 : 0 < c.alphaD) (h1 : c.alphaD ≤ 1) (hc : c.twoSided = false)
    (n j : ℕ) (hn : 1 ≤ n) : HDDMA.step c (dropState1 n j) 0 = dropState1 n (j + 1) := by
  have hT : newT c (dropState1 n j).t 0 = ⟨wJ n (j + 1), wJ n (j + 1), Mean.init⟩ := by
    simp only [newT, dropState1, newZ, newX_follows c.alphaD h0 h1 n j hn, wJ_update n j hn, hc]
    simp
  have hcc : HDDMA.checkCases c ⟨wJ n (j + 1), wJ n (j + 1), Mean.init⟩ = (false, false) := by
    unfold HDDMA.checkCases; simp [hc, C01c.Hddma.side_self]
  rw [step_gen, hT, hcc]
  simp [dropState1, Nat.add_assoc]

theorem drop_run_one (c : HDDMA.Cfg ℝ) (h0 : 0 < c.alphaD) (h1 : c.alphaD ≤ 1) (hc : c.twoSided = false)
    (n : ℕ) (hn : 1 ≤ n) (j : ℕ) : aRun c HDDMA.init (dropStream n j) = dropState1 n j := by
  induction j with
  | zero =>
    simp only [dropStream, List.replicate_zero, List.append_nil]
    rw [const_phase c h0 h1 1 n hn]
    simp [dropState1, wJ_zero n hn, hc]
  | succ j ih =>
    have : dropStream n (j + 1) = dropStream n j ++ [0] := by
      simp only [dropStream, List.replicate_succ', List.append_assoc]
    rw [this, aRun_append, ih, drop_step_one c h0 h1 hc n j hn]

/-- **C04b.4, the one-sided contrast.**  The ONE-sided HDDM-A never reports anything on `1^n 0^k`, for any
`alpha_d ∈ (0, 1]`, `alpha_w`, `min_num_instances`, `n ≥ 1`, `k`: the increase cut follows the current point all
the way down, so the increase test always compares the sample with itself.  "A sustained drop is detected just as
a sustained rise is" therefore holds for the two-sided detector only. -/
theorem drop_one_sided_never (c : HDDMA.Cfg ℝ) (h0 : 0 < c.alphaD) (h1 : c.alphaD ≤ 1) (hc : c.twoSided = false)
    (n : ℕ) (hn : 1 ≤ n) (k t : ℕ) :
    (aRun c HDDMA.init ((dropStream n k).take t)).drift = false ∧
    (aRun c HDDMA.init ((dropStream n k).take t)).warning = false := by
  rw [take_dropStream]
  rcases Nat.lt_or_ge t n with h | h
  · rw [Nat.min_eq_left h.le, show t - n = 0 by omega, Nat.zero_min]
    rcases Nat.eq_zero_or_pos t with rfl | ht
    · exact ⟨rfl, rfl⟩
    · rw [drop_run_one c h0 h1 hc t ht 0]; exact ⟨rfl, rfl⟩
  · rw [Nat.min_eq_right h, drop_run_one c h0 h1 hc n hn]; exact ⟨rfl, rfl⟩


/-! ## witnesses -/

/-- `alpha_d = e^{-8}` (`L_d = 8`), `min_num_instances = 1`, one-sided -/
noncomputable def cBig : HDDMA.Cfg ℝ := ⟨Real.exp (-8), Real.exp (-8), false, 1⟩

theorem cBig_LD : LD cBig = 8 := by simp [LD, cBig]

theorem cBig_ok : 0 < cBig.alphaD ∧ cBig.alphaD ≤ 1 :=
  ⟨Real.exp_pos _, by simp [cBig]⟩

/-- **`cut_stays_witness`**: `L_d ≤ 2n` cannot be dropped from `newX_stays`/`rise_delay`.  With `L_d = 8`, `n = 1`:
after `0, 1` the model's cut rule `z.mean + ε(2) ≤ x.mean + ε(1)` (`1/2 + √2 ≤ 2`) holds, the increase cut moves to
the current point (`x = z = ⟨1/2, 2⟩`) and the increase test compares the sample with itself (`m = 0`). -/
theorem cut_stays_witness :
    (aRun cBig HDDMA.init (riseStream 1 1)).t.x = ⟨1 / 2, 2⟩ ∧
    (aRun cBig HDDMA.init (riseStream 1 1)).t.z = ⟨1 / 2, 2⟩ ∧
    (aRun cBig HDDMA.init (riseStream 1 1)).drift = false := by
  have hz : (zJ 1 0).update 1 = ⟨1 / 2, 2⟩ := by
    rw [zJ_update 1 0 (le_refl _)]; simp only [zJ, Mean.mk.injEq]; norm_num
  have hx : newX cBig.alphaD ⟨0, 1⟩ (zJ 1 0) 1 = ⟨1 / 2, 2⟩ := by
    rw [newX_eq, hz, if_pos]
    right
    rw [RealNum.le_iff, bound_real, bound_real]
    have hL : Real.log (1 / cBig.alphaD) = 8 := cBig_LD
    rw [show (({ alphaD := cBig.alphaD, alphaW := cBig.alphaD, twoSided := false, minN := 0 } :
      HDDMA.Cfg ℝ).alphaD) = cBig.alphaD from rfl, hL]
    have h4 : Real.sqrt (8 / (2 * ((1 : ℕ) : ℝ))) = 2 := by
      rw [show (8 : ℝ) / (2 * ((1 : ℕ) : ℝ)) = 2 ^ 2 by norm_num]; exact Real.sqrt_sq (by norm_num)
    have h2 : Real.sqrt (8 / (2 * ((2 : ℕ) : ℝ))) ≤ 3 / 2 := by
      rw [Real.sqrt_le_iff]; norm_num
    rw [h4]; linarith
  rw [riseStream_succ, aRun_append, zeros_phase' cBig cBig_ok.1 cBig_ok.2 1 (le_refl _), step_gen]
  have hT : newT cBig (riseState cBig 1 0 false).t 1 = ⟨⟨1 / 2, 2⟩, ⟨1 / 2, 2⟩, Mean.init⟩ := by
    simp only [newT, riseState, newZ, hz, hx]
    simp [cBig]
  have hcc : HDDMA.checkCases cBig ⟨⟨1 / 2, 2⟩, ⟨1 / 2, 2⟩, Mean.init⟩ = (false, false) := by
    unfold HDDMA.checkCases; simp [cBig, C01c.Hddma.side_self]
  rw [hT, hcc]
  simp [riseState, cBig]


/-! ## non-vacuity: the frouros defaults -/

/-- the frouros defaults `alpha_d = 0.001`, `alpha_w = 0.005`, `min_num_instances = 30` -/
noncomputable def cDef (ts : Bool) : HDDMA.Cfg ℝ := ⟨1 / 1000, 1 / 200, ts, 30⟩

theorem log1000 : Real.log 1000 = 3 * (Real.log 2 + Real.log 5) := by
  rw [← Real.log_ten_eq, show (1000 : ℝ) = 10 ^ 3 by norm_num, Real.log_pow]; norm_num

theorem log200 : Real.log 200 = 3 * Real.log 2 + 2 * Real.log 5 := by
  rw [show (200 : ℝ) = 2 ^ 3 * 5 ^ 2 by norm_num, Real.log_mul (by positivity) (by positivity),
    Real.log_pow, Real.log_pow]; norm_num

theorem LD_def (ts : Bool) : LD (cDef ts) = Real.log 1000 := by simp [LD, cDef]
theorem LW_def (ts : Bool) : LW (cDef ts) = Real.log 200 := by simp [LW, cDef]

/-- `ln 1000 ≈ 6.9078` -/
theorem LD_bounds (ts : Bool) : 6.9 < LD (cDef ts) ∧ LD (cDef ts) < 6.91 := by
  rw [LD_def, log1000]
  have := Real.log_two_gt_d9; have := Real.log_two_lt_d9
  have := Real.log_five_gt_d9; have := Real.log_five_lt_d9
  constructor <;> norm_num at * <;> linarith

/-- `ln 200 ≈ 5.2983` -/
theorem LW_bounds (ts : Bool) : 5.29 < LW (cDef ts) ∧ LW (cDef ts) < 5.30 := by
  rw [LW_def, log200]
  have := Real.log_two_gt_d9; have := Real.log_two_lt_d9
  have := Real.log_five_gt_d9; have := Real.log_five_lt_d9
  constructor <;> norm_num at * <;> linarith

/-- with the defaults and `n = 30` zeros: `j* = 4` -/
theorem isFirst_def_D (ts : Bool) : IsFirst (LD (cDef ts)) 30 4 := by
  obtain ⟨h1, h2⟩ := LD_bounds ts
  refine ⟨by norm_num, ?_, fun j' a b => ?_⟩
  · unfold Fires; norm_num; linarith
  · unfold Fires; interval_cases j' <;> norm_num <;> linarith

/-- with the defaults and `n = 30` zeros: `j_w = 3` -/
theorem isFirst_def_W (ts : Bool) : IsFirst (LW (cDef ts)) 30 3 := by
  obtain ⟨h1, h2⟩ := LW_bounds ts
  refine ⟨by norm_num, ?_, fun j' a b => ?_⟩
  · unfold Fires; norm_num; linarith
  · unfold Fires; interval_cases j' <;> norm_num <;> linarith

theorem cDef_L (ts : Bool) : LD (cDef ts) ≤ 2 * ((30 : ℕ) : ℝ) := by
  have := (LD_bounds ts).2; norm_num at *; linarith

/-- non-vacuity of `zeros_phase` -/
example (ts : Bool) : aRun (cDef ts) HDDMA.init (List.replicate 30 0) =
    ⟨30, false, false, ⟨⟨0, 30⟩, ⟨0, 30⟩, if (cDef ts).twoSided then ⟨0, 30⟩ else Mean.init⟩⟩ :=
  zeros_phase (cDef ts) (by norm_num [cDef]) (by norm_num [cDef]) 30 (by norm_num)

/-- non-vacuity of `rise_delay`: defaults, 30 zeros then `k ≥ 4` ones — first drift after the 4th one (value 34),
in both modes -/
example (ts : Bool) (k : ℕ) (hk : 4 ≤ k) :
    (∀ t, t < 34 → (aRun (cDef ts) HDDMA.init ((riseStream 30 k).take t)).drift = false) ∧
    (aRun (cDef ts) HDDMA.init ((riseStream 30 k).take 34)).drift = true ∧
    (aRun (cDef ts) HDDMA.init ((riseStream 30 k).take 34)).warning = false :=
  rise_delay (cDef ts) (by norm_num [cDef]) (by norm_num [cDef]) 30 (by norm_num) (by simp [cDef])
    4 (isFirst_def_D ts) k hk

/-- the closed form gives the same `j* = 4` -/
example (ts : Bool) : max 1 ⌈LD (cDef ts) * (30 : ℕ) / (2 * (30 : ℕ) - LD (cDef ts))⌉₊ = 4 :=
  isFirst_unique (isFirst_closed (by have := (LD_bounds ts).2; norm_num at *; linarith)) (isFirst_def_D ts)

/-- non-vacuity of `drop_delay`: defaults, two-sided, 30 ones then `k ≥ 4` zeros — first drift at value 34 -/
example (k : ℕ) (hk : 4 ≤ k) :
    (∀ t, t < 34 → (aRun (cDef true) HDDMA.init ((dropStream 30 k).take t)).drift = false) ∧
    (aRun (cDef true) HDDMA.init ((dropStream 30 k).take 34)).drift = true ∧
    (aRun (cDef true) HDDMA.init ((dropStream 30 k).take 34)).warning = false :=
  drop_delay (cDef true) (by norm_num [cDef]) (by norm_num [cDef]) rfl 30 (by norm_num) (by simp [cDef])
    4 (isFirst_def_D true) k hk

/-- non-vacuity of `warning_interval`: defaults — no warning up to value 32, warning at value 33, drift at 34 -/
example (ts : Bool) (k : ℕ) (hk : 4 ≤ k) :
    (∀ t, t < 33 → (aRun (cDef ts) HDDMA.init ((riseStream 30 k).take t)).warning = false) ∧
    (aRun (cDef ts) HDDMA.init ((riseStream 30 k).take 33)).warning = true ∧
    (aRun (cDef ts) HDDMA.init ((riseStream 30 k).take 34)).warning = false := by
  obtain ⟨-, hA, hB, hC⟩ := warning_interval (cDef ts) (by norm_num [cDef]) (by norm_num [cDef])
    (by norm_num [cDef]) 30 (by norm_num) (by simp [cDef]) 4 3 (isFirst_def_D ts)
    (isFirst_def_W ts) k hk
  exact ⟨hA, hB 33 (by norm_num) (by norm_num), hC⟩


/-- non-vacuity of `rise_delay_gen`/`drop_delay_gen`: `alpha_d = 0.001`, `min_num_instances = 40`, 30 zeros — the
Hoeffding test would fire after the 4th one, but the first decision is taken at value 40: first drift after
`max 4 (40 - 30) = 10` ones -/
example (ts : Bool) (k : ℕ) (hk : 10 ≤ k) :
    (∀ t, t < 40 → (aRun ⟨1 / 1000, 1 / 200, ts, 40⟩ HDDMA.init ((riseStream 30 k).take t)).drift = false) ∧
    (aRun ⟨1 / 1000, 1 / 200, ts, 40⟩ HDDMA.init ((riseStream 30 k).take 40)).drift = true := by
  have h := rise_delay_gen ⟨1 / 1000, 1 / 200, ts, 40⟩ (by norm_num) (by norm_num) 30 (by norm_num)
    4 (isFirst_def_D ts) k hk
  exact ⟨h.1, h.2.1⟩

/-- non-vacuity of `rise_never` (and of `not_fires`): `alpha_d = e^{-8}`, one zero: `2n = 2 ≤ 8 = L_d` -/
example (k t : ℕ) : (aRun cBig HDDMA.init ((riseStream 1 k).take t)).drift = false :=
  rise_never cBig cBig_ok.1 cBig_ok.2 1 (le_refl _) (by rw [cBig_LD]; norm_num) k t

/-- non-vacuity of `drop_one_sided_never`: the defaults, one-sided -/
example (k t : ℕ) : (aRun (cDef false) HDDMA.init ((dropStream 30 k).take t)).drift = false :=
  (drop_one_sided_never (cDef false) (by norm_num [cDef]) (by norm_num [cDef]) rfl 30 (by norm_num) k t).1

/-- non-vacuity of `cut_stays_iff`, both sides: `L = ln 1000`, `n = 30` stays; `L = 8`, `n = 1` moves -/
example : (∀ j : ℕ, 1 ≤ j → Real.sqrt (Real.log 1000 / (2 * ((30 : ℕ) : ℝ))) <
    (j : ℝ) / ((30 + j : ℕ) : ℝ) + Real.sqrt (Real.log 1000 / (2 * ((30 + j : ℕ) : ℝ)))) ∧
    ¬ (∀ j : ℕ, 1 ≤ j → Real.sqrt (8 / (2 * ((1 : ℕ) : ℝ))) <
    (j : ℝ) / ((1 + j : ℕ) : ℝ) + Real.sqrt (8 / (2 * ((1 + j : ℕ) : ℝ)))) := by
  constructor
  · rw [cut_stays_iff 30 _ (by norm_num) (Real.log_nonneg (by norm_num)), ← LD_def true]
    exact cDef_L true
  · rw [cut_stays_iff 1 _ (by norm_num) (by norm_num)]; norm_num

#print axioms cut_stays_real
#print axioms cut_stays_iff
#print axioms cut_stays_witness
#print axioms cut_stays
#print axioms exists_isFirst_iff
#print axioms riseTest_iff
#print axioms const_phase
#print axioms zeros_phase
#print axioms rise_step
#print axioms rise_delay_state
#print axioms rise_delay
#print axioms rise_decrease_silent
#print axioms rise_delay_closed
#print axioms fires_iff_ceil
#print axioms isFirst_closed
#print axioms isFirst_iff_pred
#print axioms not_fires
#print axioms rise_never
#print axioms drop_never
#print axioms rise_delay_gen
#print axioms drop_delay_gen
#print axioms drop_eq_rise
#print axioms drop_delay
#print axioms drop_one_sided_never
#print axioms warning_delay
#print axioms warning_interval
#print axioms drop_warning_interval

end Frouros.C04b
