/-
  C06c — KSWIN: the tested sample is drawn WITHOUT replacement from the OLDER values of the window, and the verdict
  depends on it only through its values.

  Model: `KSWIN.step` (`FrourosModel/Window.lean`); `tape : List Nat` are the indices NumPy's
  `choice(n_old, r, replace=False)` produced; the p-value routine `ksP` is a parameter of the model, instantiated by
  `KS.pTwoSided` (driver, IEEE doubles) or `C06b.pReal` (exact fraction over ℝ).

  The harness observes the sample handed to `scipy.stats.ks_2samp` and judges
    (i)   it has `num_test_instances` values                                     — `sample_length`
    (ii)  it is a sub-multiset of the older part of the window                   — `sample_submultiset` (+ `_count`, `_multiset`)
    (iii) drift ⇔ KS p-value (sample vs newest `num_test_instances`) ≤ alpha     — `verdict_iff`
  all three in one place: `harness_clauses` (one step from ANY state), `harness_clauses_history` (any history with resets).
  Conversely the clause (ii) really detects the two mutations it is meant for:
    `with_replacement_not_submultiset` / `with_replacement_witness`  (repeated index on distinct values),
    `whole_window_not_submultiset` / `whole_window_witness`          (index `≥ n_old` read from the WHOLE window).
  `verdict_perm_invariant` (+ `_float`, `_real`): the verdict depends on the sample only through its multiset.

  Everything except the `_real` instance is proved for EVERY carrier `α` with `[Num α]` (no assumption on the operations).
-/
import FrourosProofs.Props.C06b

namespace Frouros.C06c
open Frouros Frouros.KS Frouros.C06

/-! ## Generic list facts -/
section Lists
variable {β : Type}

theorem map_getD_range (l : List β) (d : β) : (List.range l.length).map (fun i => l.getD i d) = l := by
  apply List.ext_getElem
  · simp
  · intro i h1 h2
    simp only [List.getElem_map, List.getElem_range, List.getD_eq_getElem?_getD, List.getElem?_eq_getElem h2,
      Option.getD_some]

theorem subperm_map {γ : Type} (f : β → γ) {l₁ l₂ : List β} (h : l₁.Subperm l₂) : (l₁.map f).Subperm (l₂.map f) := by
  obtain ⟨l, hp, hs⟩ := h
  exact ⟨l.map f, hp.map f, hs.map f⟩

theorem subperm_nodup {l₁ l₂ : List β} (h : l₁.Subperm l₂) (hd : l₂.Nodup) : l₁.Nodup := by
  obtain ⟨l, hp, hs⟩ := h
  exact hp.nodup_iff.mp (hs.nodup hd)

/-- reading a list at DISTINCT valid indices gives a sub-multiset of the list -/
theorem map_getD_subperm (l : List β) (d : β) (tape : List Nat) (hnd : tape.Nodup) (hv : ∀ i ∈ tape, i < l.length) :
    (tape.map (fun i => l.getD i d)).Subperm l := by
  have h1 : tape.Subperm (List.range l.length) :=
    List.subperm_of_subset hnd (fun i hi => List.mem_range.mpr (hv i hi))
  have h2 := subperm_map (fun i => l.getD i d) h1
  rwa [map_getD_range] at h2

end Lists

/-! ## 1. The sample the model tests -/
section Sample
variable {α : Type} [Num α]

/-- the older part of a window `w` once the newest `r` values are set aside — literally the model's
`older := w.take (w.length - r)` -/
def olderOf (r : Nat) (w : List α) : List α := w.take (w.length - r)

/-- the newest `r` values of the window — literally the model's `newest := w.drop (w.length - r)` -/
def newestOf (r : Nat) (w : List α) : List α := w.drop (w.length - r)

/-- **sample_of_tape.**  The sample `KSWIN.step` hands to the KS routine, from the (post-append) window `w`,
`r = num_test_instances` and the index tape: literally the model's `tape.map (fun i => older.getD i Num.zero)`. -/
def sample_of_tape (r : Nat) (w : List α) (tape : List Nat) : List α :=
  tape.map (fun i => (olderOf r w).getD i Num.zero)

omit [Num α] in
theorem older_append_newest (r : Nat) (w : List α) : olderOf r w ++ newestOf r w = w :=
  List.take_append_drop _ _

omit [Num α] in
/-- `n_old + r = W` — stated additively, under `r ≤ W`, so that no truncated subtraction is involved -/
theorem olderOf_length (r : Nat) (w : List α) (hr : r ≤ w.length) : (olderOf r w).length + r = w.length := by
  unfold olderOf; rw [List.length_take]; omega

omit [Num α] in
theorem newestOf_length (r : Nat) (w : List α) (hr : r ≤ w.length) : (newestOf r w).length = r := by
  unfold newestOf; rw [List.length_drop]; omega

/-- **sample_length** (harness clause (i)).  A tape with `r` entries gives a sample with `r` values.  (The range condition
`< n_old` is NOT needed for the length — an out-of-range index still contributes one value, the `getD` default, see
`out_of_range_default`; it is needed, and assumed, for the sample to consist of genuine window values: `sample_genuine`,
`sample_submultiset`.) -/
theorem sample_length (r : Nat) (w : List α) (tape : List Nat) (hlen : tape.length = r) :
    (sample_of_tape r w tape).length = r := by
  unfold sample_of_tape; rw [List.length_map, hlen]

/-- with indices `< n_old` every sample entry is the genuine element `older[tape[j]]` (no `getD` default) -/
theorem sample_genuine (r : Nat) (w : List α) (tape : List Nat) (hvalid : ∀ i ∈ tape, i < (olderOf r w).length) :
    (sample_of_tape r w tape).map some = tape.map (fun i => (olderOf r w)[i]?) :=
  C06.kswin_sample_genuine _ _ hvalid

/-- what the MODEL does with an index `≥ n_old`: it does not read the newest part of the window, it returns the
`getD` default `Num.zero` (NumPy's `choice(n_old, …)` never produces such an index; the hypothesis `i < n_old` of
`sample_submultiset` excludes this junk value). -/
theorem out_of_range_default (r : Nat) (w : List α) (i : Nat) (hi : (olderOf r w).length ≤ i) :
    sample_of_tape r w [i] = [Num.zero] := by
  unfold sample_of_tape
  simp [List.getD_eq_getElem?_getD, List.getElem?_eq_none hi]

/-! ## 2. Drawn without replacement from the older values -/

/-- **sample_submultiset** (harness clause (ii), every carrier).  If the tape is duplicate-free with all entries `< n_old`
(`n_old = (olderOf r w).length`, `= W − r` by `olderOf_length`), the sample is a sub-multiset of the older part of the
window.  No hypothesis on the values (repeated window values are fine). -/
theorem sample_submultiset (r : Nat) (w : List α) (tape : List Nat) (hnd : tape.Nodup)
    (hvalid : ∀ i ∈ tape, i < (olderOf r w).length) :
    (sample_of_tape r w tape).Subperm (olderOf r w) :=
  map_getD_subperm _ _ _ hnd hvalid

/-- the same with the bound written on the window itself: `r ≤ W` and every index `i` satisfies `i + r < W`
(no subtraction) -/
theorem sample_submultiset' (r : Nat) (w : List α) (tape : List Nat) (hr : r ≤ w.length) (hnd : tape.Nodup)
    (hvalid : ∀ i ∈ tape, i + r < w.length) :
    (sample_of_tape r w tape).Subperm (olderOf r w) :=
  sample_submultiset r w tape hnd (fun i hi => by have := olderOf_length r w hr; have := hvalid i hi; omega)

/-- `Multiset` form of the clause -/
theorem sample_submultiset_multiset (r : Nat) (w : List α) (tape : List Nat) (hnd : tape.Nodup)
    (hvalid : ∀ i ∈ tape, i < (olderOf r w).length) :
    (↑(sample_of_tape r w tape) : Multiset α) ≤ ↑(olderOf r w) :=
  Multiset.coe_le.mpr (sample_submultiset r w tape hnd hvalid)

/-- the clause exactly as the harness words it: no value occurs more often in the sample than among the older values
(for ANY `BEq` on the carrier used to count — e.g. the doubles' `==`; a consequence of `sample_submultiset`) -/
theorem sample_submultiset_count [BEq α] (r : Nat) (w : List α) (tape : List Nat) (hnd : tape.Nodup)
    (hvalid : ∀ i ∈ tape, i < (olderOf r w).length) (a : α) :
    (sample_of_tape r w tape).count a ≤ (olderOf r w).count a :=
  (sample_submultiset r w tape hnd hvalid).count_le a

/-- sample entries are members of the older part as soon as the indices are in range (even with repetitions) -/
theorem sample_mem_older (r : Nat) (w : List α) (tape : List Nat) (hvalid : ∀ i ∈ tape, i < (olderOf r w).length) :
    ∀ x ∈ sample_of_tape r w tape, x ∈ olderOf r w := by
  intro x hx
  unfold sample_of_tape at hx
  obtain ⟨i, hi, rfl⟩ := List.mem_map.mp hx
  have := hvalid i hi
  simp only [List.getD_eq_getElem?_getD, List.getElem?_eq_getElem this, Option.getD_some]
  exact List.getElem_mem _

/-- **with_replacement_not_submultiset** (every carrier).  Converse of `sample_submultiset`: on older values that are
pairwise DISTINCT, a tape with a repeated index gives a sample that is NOT a sub-multiset of the older part — so the
harness clause (ii) really detects sampling with replacement. -/
theorem with_replacement_not_submultiset (r : Nat) (w : List α) (tape : List Nat) (hdist : (olderOf r w).Nodup)
    (hdup : ¬ tape.Nodup) : ¬ (sample_of_tape r w tape).Subperm (olderOf r w) := by
  intro h
  exact hdup (List.Nodup.of_map _ (subperm_nodup h hdist))

/-- on distinct older values and in-range indices the clause (ii) is EQUIVALENT to "the tape has no repeated index" -/
theorem sample_submultiset_iff (r : Nat) (w : List α) (tape : List Nat) (hdist : (olderOf r w).Nodup)
    (hvalid : ∀ i ∈ tape, i < (olderOf r w).length) :
    (sample_of_tape r w tape).Subperm (olderOf r w) ↔ tape.Nodup :=
  ⟨fun h => by_contra fun hd => with_replacement_not_submultiset r w tape hdist hd h,
   fun h => sample_submultiset r w tape h hvalid⟩

/-- the sample a (mutated) implementation drawing from the WHOLE window would hand to the KS test -/
def sample_whole_window (w : List α) (tape : List Nat) : List α := tape.map (fun i => w.getD i Num.zero)

omit [Num α] in
/-- position `n_old + j` of the window is position `j` of the newest part -/
theorem window_index_newest (r : Nat) (w : List α) (j : Nat) :
    w[(olderOf r w).length + j]? = (newestOf r w)[j]? := by
  have h : (olderOf r w ++ newestOf r w)[(olderOf r w).length + j]? = (newestOf r w)[j]? := by
    rw [List.getElem?_append_right (Nat.le_add_right _ _), Nat.add_sub_cancel_left]
  rwa [older_append_newest] at h

/-- **whole_window_value** (every carrier).  Reading the WHOLE window at an index `n_old ≤ i < W` gives a value of the
NEWEST part. -/
theorem whole_window_value (r : Nat) (w : List α) (i : Nat) (h1 : (olderOf r w).length ≤ i) (h2 : i < w.length) :
    w.getD i Num.zero ∈ newestOf r w := by
  obtain ⟨j, rfl⟩ := Nat.exists_eq_add_of_le h1
  have h := window_index_newest r w j
  rw [List.getElem?_eq_getElem h2] at h
  rw [List.getD_eq_getElem?_getD, List.getElem?_eq_getElem h2, Option.getD_some]
  exact List.mem_of_getElem? h.symm

/-- **whole_window_not_submultiset** (every carrier).  On a window of pairwise DISTINCT values, a sample read from the
whole window at some index `n_old ≤ i < W` is NOT a sub-multiset of the older part: the harness clause (ii) detects a
generator that samples the whole window instead of the older values. -/
theorem whole_window_not_submultiset (r : Nat) (w : List α) (tape : List Nat) (hdist : w.Nodup) (i : Nat)
    (hi : i ∈ tape) (h1 : (olderOf r w).length ≤ i) (h2 : i < w.length) :
    ¬ (sample_whole_window w tape).Subperm (olderOf r w) := by
  intro h
  have hmem : w.getD i Num.zero ∈ sample_whole_window w tape := List.mem_map.mpr ⟨i, hi, rfl⟩
  have hold : w.getD i Num.zero ∈ olderOf r w := h.subset hmem
  have hnew := whole_window_value r w i h1 h2
  exact List.disjoint_take_drop hdist (Nat.le_refl _) hold hnew

end Sample

/-! ## 4. The verdict, in terms of `sample_of_tape` -/
section Verdict
variable {α : Type} [Num α]

/-- **step_verdict** (every carrier, ANY state `s` — hence every reachable state after any history with resets).  After one
update the drift flag is `p ≤ alpha` (the carrier's `Num.le`) with `p = ksP (sample_of_tape …) (newest r values)` when the
(post-append) window holds at least `min_num_instances` values, `False` otherwise. -/
theorem step_verdict (ksP : List α → List α → α) (c : KSWIN.Cfg α) (s : KSWIN.State α) (v : α) (tape : List Nat) :
    (KSWIN.step ksP c s v tape).drift =
      if c.minN ≤ (KSWIN.step ksP c s v tape).window.length then
        Num.le (ksP (sample_of_tape c.numTest (KSWIN.step ksP c s v tape).window tape)
                    (newestOf c.numTest (KSWIN.step ksP c s v tape).window)) c.alpha
      else false := by
  rw [kstep_drift, kstep_window]
  rfl

/-- **verdict_iff** (harness clause (iii), every carrier).  At a full window: `drift = true ↔ pval(sample, newest) ≤ alpha`. -/
theorem verdict_iff (ksP : List α → List α → α) (c : KSWIN.Cfg α) (s : KSWIN.State α) (v : α) (tape : List Nat)
    (hfull : c.minN ≤ (KSWIN.step ksP c s v tape).window.length) :
    (KSWIN.step ksP c s v tape).drift = true ↔
      Num.le (ksP (sample_of_tape c.numTest (KSWIN.step ksP c s v tape).window tape)
                  (newestOf c.numTest (KSWIN.step ksP c s v tape).window)) c.alpha = true := by
  rw [step_verdict ksP c s v tape, if_pos hfull]

/-- **verdict_warmup** (every carrier).  No drift while the window is not full. -/
theorem verdict_warmup (ksP : List α → List α → α) (c : KSWIN.Cfg α) (s : KSWIN.State α) (v : α) (tape : List Nat)
    (hshort : (KSWIN.step ksP c s v tape).window.length < c.minN) :
    (KSWIN.step ksP c s v tape).drift = false := by
  rw [step_verdict ksP c s v tape, if_neg (by omega)]

/-- **harness_clauses** (every carrier, one update from ANY state).  With `W` the window after the update, `r =
num_test_instances ≤ min_num_instances ≤ |W|` and a valid draw (`C06.ValidTape`: `r` pairwise distinct indices `< n_old`),
the three clauses the harness judges on the observed sample hold of the model's sample, together with the split of the
window they refer to:
  (i) `|sample| = r`;  (ii) `sample ⊆ older` as multisets;  (iii) `drift ⇔ ksP sample newest ≤ alpha`;
  `older ++ newest = W`, `|newest| = r`, `|older| + r = |W|`. -/
theorem harness_clauses (ksP : List α → List α → α) (c : KSWIN.Cfg α) (s : KSWIN.State α) (v : α) (tape : List Nat)
    (hk : c.numTest ≤ c.minN)
    (hfull : c.minN ≤ (KSWIN.step ksP c s v tape).window.length)
    (htape : ValidTape c.numTest (olderOf c.numTest (KSWIN.step ksP c s v tape).window).length tape) :
    (sample_of_tape c.numTest (KSWIN.step ksP c s v tape).window tape).length = c.numTest ∧
    (sample_of_tape c.numTest (KSWIN.step ksP c s v tape).window tape).Subperm
      (olderOf c.numTest (KSWIN.step ksP c s v tape).window) ∧
    ((KSWIN.step ksP c s v tape).drift = true ↔
      Num.le (ksP (sample_of_tape c.numTest (KSWIN.step ksP c s v tape).window tape)
                  (newestOf c.numTest (KSWIN.step ksP c s v tape).window)) c.alpha = true) ∧
    olderOf c.numTest (KSWIN.step ksP c s v tape).window ++ newestOf c.numTest (KSWIN.step ksP c s v tape).window
      = (KSWIN.step ksP c s v tape).window ∧
    (newestOf c.numTest (KSWIN.step ksP c s v tape).window).length = c.numTest ∧
    (olderOf c.numTest (KSWIN.step ksP c s v tape).window).length + c.numTest
      = (KSWIN.step ksP c s v tape).window.length :=
  ⟨sample_length _ _ _ htape.1, sample_submultiset _ _ _ htape.2.1 htape.2.2, verdict_iff ksP c s v tape hfull,
   older_append_newest _ _, newestOf_length _ _ (by omega), olderOf_length _ _ (by omega)⟩

/-- the state after a history ending with an update is one `KSWIN.step` from the state before it -/
theorem run_snoc_update (ksP : List α → List α → α) (c : KSWIN.Cfg α) (ops : List (Op (α × List Nat))) (v : α)
    (tape : List Nat) :
    (KSWIN.machine ksP c).run (ops ++ [.update (v, tape)]) = KSWIN.step ksP c ((KSWIN.machine ksP c).run ops) v tape := by
  simp [Machine.run, Machine.runFrom, List.foldl_append, Machine.apply, KSWIN.machine]

/-- **harness_clauses_history** (every carrier, ANY history of updates and resets ending with an update).  With `vs` the
values fed since the last reset (the current one included), `t = |vs| ≥ min_num_instances ≥ r`, the window is the last
`min_num_instances` values of `vs` and the three clauses hold on it. -/
theorem harness_clauses_history (ksP : List α → List α → α) (c : KSWIN.Cfg α) (ops : List (Op (α × List Nat))) (v : α)
    (tape : List Nat) (hk : c.numTest ≤ c.minN)
    (hfull : c.minN ≤ (sinceReset ops).length + 1)
    (htape : ValidTape c.numTest
      (olderOf c.numTest (lastN c.minN ((sinceReset ops).map Prod.fst ++ [v]))).length tape) :
    ((KSWIN.machine ksP c).run (ops ++ [.update (v, tape)])).window
        = lastN c.minN ((sinceReset ops).map Prod.fst ++ [v]) ∧
    (lastN c.minN ((sinceReset ops).map Prod.fst ++ [v])).length = c.minN ∧
    (sample_of_tape c.numTest (lastN c.minN ((sinceReset ops).map Prod.fst ++ [v])) tape).length = c.numTest ∧
    (sample_of_tape c.numTest (lastN c.minN ((sinceReset ops).map Prod.fst ++ [v])) tape).Subperm
      (olderOf c.numTest (lastN c.minN ((sinceReset ops).map Prod.fst ++ [v]))) ∧
    (((KSWIN.machine ksP c).run (ops ++ [.update (v, tape)])).drift = true ↔
      Num.le (ksP (sample_of_tape c.numTest (lastN c.minN ((sinceReset ops).map Prod.fst ++ [v])) tape)
                  (newestOf c.numTest (lastN c.minN ((sinceReset ops).map Prod.fst ++ [v])))) c.alpha = true) := by
  have hw : ((KSWIN.machine ksP c).run (ops ++ [.update (v, tape)])).window
      = lastN c.minN ((sinceReset ops).map Prod.fst ++ [v]) := by
    rw [(kswin_window_history ksP c _).1, sinceReset_append_update, List.map_append, List.map_singleton]
  have hlen : (lastN c.minN ((sinceReset ops).map Prod.fst ++ [v])).length = c.minN := by
    rw [lastN_length]; simp; omega
  rw [run_snoc_update] at hw ⊢
  have hfull' : c.minN ≤ (KSWIN.step ksP c ((KSWIN.machine ksP c).run ops) v tape).window.length := by
    rw [hw, hlen]
  have h := harness_clauses ksP c ((KSWIN.machine ksP c).run ops) v tape hk hfull' (by rw [hw]; exact htape)
  rw [hw] at h
  exact ⟨hw, hlen, h.1, h.2.1, h.2.2.1⟩

/-- **harness_warmup_history** (every carrier).  After any history, while fewer than `min_num_instances` values have been
fed since the last reset, no drift is reported (whatever the tape). -/
theorem harness_warmup_history (ksP : List α → List α → α) (c : KSWIN.Cfg α) (ops : List (Op (α × List Nat)))
    (hshort : (sinceReset ops).length < c.minN) : ((KSWIN.machine ksP c).run ops).drift = false := by
  rw [kswin_history]; exact kswin_warmup ksP c _ hshort

end Verdict

/-! ## 3. The verdict depends on the sample only through its multiset -/
section PermInvariance
variable {α : Type} [Num α]

/-- the window after an update does not depend on the tape -/
theorem window_tape_irrelevant (ksP : List α → List α → α) (c : KSWIN.Cfg α) (s : KSWIN.State α) (v : α)
    (tape₁ tape₂ : List Nat) :
    (KSWIN.step ksP c s v tape₁).window = (KSWIN.step ksP c s v tape₂).window := by
  rw [kstep_window, kstep_window]

/-- **verdict_perm_invariant** (every carrier; `hp`: the p-value routine is invariant under reordering each of its two
samples — PROVED for the model's routines below: `C11.pTwoSided_perm` at IEEE doubles, `C06b.pReal_perm` over ℝ, both via
`C11.hTwoSided_perm`, the lattice KS statistic, which is permutation-invariant for every carrier).  Two tapes whose samples
are permutations of each other (same multiset of VALUES, whatever the indices) give the same p-value and the same drift
flag, from any state. -/
theorem verdict_perm_invariant (ksP : List α → List α → α)
    (hp : ∀ a b a' b', a.Perm a' → b.Perm b' → ksP a b = ksP a' b')
    (c : KSWIN.Cfg α) (s : KSWIN.State α) (v : α) (tape₁ tape₂ : List Nat)
    (hperm : (sample_of_tape c.numTest (KSWIN.push c.minN s.window v) tape₁).Perm
             (sample_of_tape c.numTest (KSWIN.push c.minN s.window v) tape₂)) :
    ksP (sample_of_tape c.numTest (KSWIN.push c.minN s.window v) tape₁) (newestOf c.numTest (KSWIN.push c.minN s.window v))
      = ksP (sample_of_tape c.numTest (KSWIN.push c.minN s.window v) tape₂)
          (newestOf c.numTest (KSWIN.push c.minN s.window v)) ∧
    (KSWIN.step ksP c s v tape₁).drift = (KSWIN.step ksP c s v tape₂).drift := by
  have h := hp _ (newestOf c.numTest (KSWIN.push c.minN s.window v)) _ _ hperm (List.Perm.refl _)
  refine ⟨h, ?_⟩
  rw [step_verdict ksP c s v tape₁, step_verdict ksP c s v tape₂]
  simp only [kstep_window]
  rw [h]

/-- **ks_statistic_perm_invariant** (every carrier, no assumption on `Num.le`): the model's lattice KS statistic
`h = round(D·lcm)` depends only on the two multisets (restating `C11.hTwoSided_perm`). -/
theorem ks_statistic_perm_invariant {a a' b b' : List α} (ha : a.Perm a') (hb : b.Perm b') :
    hTwoSided a b = hTwoSided a' b' := C11.hTwoSided_perm ha hb

/-- **verdict_perm_invariant_float** (IEEE doubles, the p-value routine the driver plugs in): hypothesis `hp` discharged. -/
theorem verdict_perm_invariant_float (c : KSWIN.Cfg Float) (s : KSWIN.State Float) (v : Float) (tape₁ tape₂ : List Nat)
    (hperm : (sample_of_tape c.numTest (KSWIN.push c.minN s.window v) tape₁).Perm
             (sample_of_tape c.numTest (KSWIN.push c.minN s.window v) tape₂)) :
    (KSWIN.step pTwoSided c s v tape₁).drift = (KSWIN.step pTwoSided c s v tape₂).drift :=
  (verdict_perm_invariant pTwoSided (fun _ _ _ _ ha hb => C11.pTwoSided_perm ha hb) c s v tape₁ tape₂ hperm).2

/-- **verdict_perm_invariant_real** (ℝ, the exact p-value fraction): hypothesis `hp` discharged. -/
theorem verdict_perm_invariant_real (c : KSWIN.Cfg ℝ) (s : KSWIN.State ℝ) (v : ℝ) (tape₁ tape₂ : List Nat)
    (hperm : (sample_of_tape c.numTest (KSWIN.push c.minN s.window v) tape₁).Perm
             (sample_of_tape c.numTest (KSWIN.push c.minN s.window v) tape₂)) :
    (KSWIN.step C06b.pReal c s v tape₁).drift = (KSWIN.step C06b.pReal c s v tape₂).drift :=
  (verdict_perm_invariant C06b.pReal (fun _ _ _ _ ha hb => C06b.pReal_perm ha hb) c s v tape₁ tape₂ hperm).2

/-- in particular two orderings of the same index set, or two different index sets pointing at equal values -/
theorem verdict_tape_perm (ksP : List α → List α → α)
    (hp : ∀ a b a' b', a.Perm a' → b.Perm b' → ksP a b = ksP a' b')
    (c : KSWIN.Cfg α) (s : KSWIN.State α) (v : α) (tape₁ tape₂ : List Nat) (ht : tape₁.Perm tape₂) :
    (KSWIN.step ksP c s v tape₁).drift = (KSWIN.step ksP c s v tape₂).drift :=
  (verdict_perm_invariant ksP hp c s v tape₁ tape₂ (ht.map _)).2

end PermInvariance

/-! ## 5. Non-vacuity: a concrete window of 6 values, `r = 2` -/
section Examples

/-- the window `10,20,30,40,50,60` over ℝ; `r = 2`: older `10,20,30,40`, newest `50,60` -/
def w6 : List ℝ := [10, 20, 30, 40, 50, 60]

example : olderOf 2 w6 = [10, 20, 30, 40] ∧ newestOf 2 w6 = [50, 60] := by simp [olderOf, newestOf, w6]

/-- `sample_of_tape` on the tape `[3, 0]` -/
example : sample_of_tape 2 w6 [3, 0] = [40, 10] := by simp [sample_of_tape, olderOf, w6]

/-- `sample_length`, `sample_submultiset`: tape `[3, 0]` is duplicate-free with entries `< 4` -/
example : (sample_of_tape 2 w6 [3, 0]).length = 2 := sample_length 2 w6 [3, 0] rfl
example : (sample_of_tape 2 w6 [3, 0]).Subperm (olderOf 2 w6) :=
  sample_submultiset 2 w6 [3, 0] (by decide) (by simp [olderOf, w6])

theorem w6_nodup : w6.Nodup := by
  simp only [w6, List.nodup_cons, List.mem_cons, List.not_mem_nil, List.nodup_nil]
  norm_num

theorem older_w6_nodup : (olderOf 2 w6).Nodup := by
  simp only [olderOf, w6, List.length_cons, List.length_nil, List.take_succ_cons, List.take_zero,
    List.nodup_cons, List.mem_cons, List.not_mem_nil, List.nodup_nil]
  norm_num

/-- **with_replacement_witness.**  Window `10,…,60` (distinct values), `r = 2`, tape `[1, 1]` (index 1 drawn twice): the
sample `[20, 20]` is NOT a sub-multiset of the older values `10,20,30,40`. -/
theorem with_replacement_witness :
    sample_of_tape 2 w6 [1, 1] = [20, 20] ∧ ¬ (sample_of_tape 2 w6 [1, 1]).Subperm (olderOf 2 w6) :=
  ⟨by simp [sample_of_tape, olderOf, w6], with_replacement_not_submultiset 2 w6 [1, 1] older_w6_nodup (by decide)⟩

/-- **whole_window_witness.**  Same window, a generator indexing the WHOLE window with tape `[0, 4]` (`4 ≥ n_old = 4`):
it reads `50`, a value of the newest part, and the sample `[10, 50]` is NOT a sub-multiset of the older values; the MODEL
on the same tape returns the `getD` default instead (`[10, 0]`). -/
theorem whole_window_witness :
    sample_whole_window w6 [0, 4] = [10, 50] ∧ (50 : ℝ) ∈ newestOf 2 w6 ∧
    ¬ (sample_whole_window w6 [0, 4]).Subperm (olderOf 2 w6) ∧
    sample_of_tape 2 w6 [0, 4] = [10, 0] :=
  ⟨by simp [sample_whole_window, w6], by simp [newestOf, w6],
   whole_window_not_submultiset 2 w6 [0, 4] w6_nodup 4 (by simp) (by simp [olderOf, w6]) (by simp [w6]),
   by simp [sample_of_tape, olderOf, w6]⟩

/-- the six updates that fill the window `w6` (`min_num_instances = 6`, `num_test_instances = 2`), last tape `[3, 0]` -/
example (ksP : List ℝ → List ℝ → ℝ) :
    (KSWIN.step ksP ⟨0.05, 6, 2⟩ (kfeed ksP ⟨0.05, 6, 2⟩ [(10, []), (20, []), (30, []), (40, []), (50, [])]) 60 [3, 0]).window
      = w6 := by
  rw [kstep_window, (kswin_window ksP _ _).1]
  simp [KSWIN.push, lastN, w6]

/-- `harness_clauses` / `verdict_iff`: hypotheses satisfied on that run (valid tape `[3, 0]`, full window) -/
example (ksP : List ℝ → List ℝ → ℝ) :
    ((KSWIN.machine ksP ⟨0.05, 6, 2⟩).run
        ([.update (10, []), .update (20, []), .update (30, []), .update (40, []), .update (50, [])] ++ [.update (60, [3, 0])])).drift
      = true ↔ Num.le (ksP [40, 10] [50, 60]) (0.05 : ℝ) = true := by
  have h := harness_clauses_history ksP (⟨0.05, 6, 2⟩ : KSWIN.Cfg ℝ)
    [.update (10, []), .update (20, []), .update (30, []), .update (40, []), .update (50, [])] 60 [3, 0]
    (by simp) (by simp [sinceReset]) (by simp [ValidTape, sinceReset, olderOf, lastN])
  have e1 : sample_of_tape 2 (lastN 6 ((sinceReset [Op.update ((10 : ℝ), ([] : List Nat)), .update (20, []),
      .update (30, []), .update (40, []), .update (50, [])]).map Prod.fst ++ [60])) [3, 0] = [40, 10] := by
    simp [sample_of_tape, sinceReset, olderOf, lastN]
  have e2 : newestOf 2 (lastN 6 ((sinceReset [Op.update ((10 : ℝ), ([] : List Nat)), .update (20, []),
      .update (30, []), .update (40, []), .update (50, [])]).map Prod.fst ++ [60])) = [50, 60] := by
    simp [newestOf, sinceReset, lastN]
  have h5 := h.2.2.2.2
  simp only [e1, e2] at h5
  exact h5

/-- `verdict_warmup` / `harness_warmup_history`: five values, window not full -/
example (ksP : List ℝ → List ℝ → ℝ) :
    ((KSWIN.machine ksP ⟨0.05, 6, 2⟩).run
        [.update (10, []), .update (20, []), .update (30, []), .update (40, []), .update (50, [7])]).drift = false :=
  harness_warmup_history ksP _ _ (by simp [sinceReset])

/-- `verdict_perm_invariant_real`: tapes `[3, 0]` and `[0, 3]` (samples `[40,10]` and `[10,40]`) from the state holding
`10,…,50`, appending `60` -/
example : (KSWIN.step C06b.pReal ⟨0.05, 6, 2⟩ ⟨5, false, [10, 20, 30, 40, 50]⟩ 60 [3, 0]).drift
        = (KSWIN.step C06b.pReal ⟨0.05, 6, 2⟩ ⟨5, false, [10, 20, 30, 40, 50]⟩ 60 [0, 3]).drift :=
  verdict_perm_invariant_real _ _ _ _ _ ((List.Perm.swap 0 3 []).map _)

/-- `verdict_perm_invariant`: DIFFERENT index sets pointing at equal values — window `7,7,8,8,1,2`, tapes `[0, 2]` and
`[1, 3]` both give the sample `[7, 8]` -/
example (ksP : List ℝ → List ℝ → ℝ) (hp : ∀ a b a' b', a.Perm a' → b.Perm b' → ksP a b = ksP a' b') :
    (KSWIN.step ksP ⟨0.05, 6, 2⟩ ⟨5, false, [7, 7, 8, 8, 1]⟩ 2 [0, 2]).drift
      = (KSWIN.step ksP ⟨0.05, 6, 2⟩ ⟨5, false, [7, 7, 8, 8, 1]⟩ 2 [1, 3]).drift :=
  (verdict_perm_invariant ksP hp _ _ _ _ _ (by simp [sample_of_tape, olderOf, KSWIN.push])).2

end Examples

/-! ## Axioms -/
#print axioms sample_length
#print axioms sample_genuine
#print axioms out_of_range_default
#print axioms sample_submultiset
#print axioms sample_submultiset'
#print axioms sample_submultiset_multiset
#print axioms sample_submultiset_count
#print axioms sample_mem_older
#print axioms with_replacement_not_submultiset
#print axioms sample_submultiset_iff
#print axioms whole_window_value
#print axioms whole_window_not_submultiset
#print axioms with_replacement_witness
#print axioms whole_window_witness
#print axioms step_verdict
#print axioms verdict_iff
#print axioms verdict_warmup
#print axioms harness_clauses
#print axioms harness_clauses_history
#print axioms harness_warmup_history
#print axioms verdict_perm_invariant
#print axioms ks_statistic_perm_invariant
#print axioms verdict_perm_invariant_float
#print axioms verdict_perm_invariant_real
#print axioms verdict_tape_perm

end Frouros.C06c
