/-
  C19 — validation tables of the configuration classes (`FrourosModel/Config.lean`).

  * `firstErr` is characterised for arbitrary lists (control flow, no carrier involved).
  * For every validation function the accepted domain is given as an explicit proposition over ℝ
    (`α = ℝ`, instance of `FrourosProofs/RealNum.lean`) and `f … = none ↔ Domain` is proved.
  * The error KIND: every rejection is `.value`, except `ecdd` (`.invalidARL` exactly when `1 ≤ n` and
    `arl ∉ {100, 400, 1000}`) and `gaussian` (`.zeroDivision` exactly when `priorVar = 0`).
    `…_some_iff` give the complete table `f … = some e ↔ …`.
-/
import FrourosModel.Config
import FrourosProofs.RealNum
namespace Frouros.C19
open Frouros Frouros.Config

/-! ### `firstErr` -/

@[simp] theorem firstErr_nil : firstErr [] = none := rfl
theorem firstErr_cons (b : Bool) (k : Err) (rest : List (Bool × Err)) :
    firstErr ((b, k) :: rest) = if b then some k else firstErr rest := rfl

/-- accepted iff no test fails -/
theorem firstErr_none_iff (l : List (Bool × Err)) : firstErr l = none ↔ ∀ p ∈ l, p.1 = false := by
  induction l with
  | nil => simp
  | cons p l ih =>
    obtain ⟨b, k⟩ := p
    rw [firstErr_cons]
    cases b <;> simp [ih]

/-- **firstErr characterisation**: the error returned is that of the FIRST failing test:
`l = pre ++ (true, e) :: post` with no failing test in `pre`. -/
theorem firstErr_some_iff (l : List (Bool × Err)) (e : Err) :
    firstErr l = some e ↔ ∃ pre post, l = pre ++ (true, e) :: post ∧ ∀ q ∈ pre, q.1 = false := by
  induction l with
  | nil => simp
  | cons p l ih =>
    obtain ⟨b, k⟩ := p
    rw [firstErr_cons]
    cases b
    · simp only [Bool.false_eq_true, if_false, ih]
      constructor
      · rintro ⟨pre, post, rfl, h⟩
        exact ⟨(false, k) :: pre, post, rfl, by simpa using h⟩
      · rintro ⟨pre, post, h, hp⟩
        cases pre with
        | nil => simp at h
        | cons q pre =>
          simp only [List.cons_append, List.cons.injEq] at h
          exact ⟨pre, post, h.2, fun q hq => hp q (List.mem_cons_of_mem _ hq)⟩
    · simp only [if_true, Option.some.injEq]
      constructor
      · rintro rfl; exact ⟨[], l, rfl, by simp⟩
      · rintro ⟨pre, post, h, hp⟩
        cases pre with
        | nil => simp only [List.nil_append, List.cons.injEq, Prod.mk.injEq] at h; exact h.1.2
        | cons q pre =>
          simp only [List.cons_append, List.cons.injEq] at h
          have := hp q List.mem_cons_self
          rw [← h.1] at this
          cases this

/-- recursive form, convenient for computing tables -/
theorem firstErr_cons_eq_some (b : Bool) (k e : Err) (rest : List (Bool × Err)) :
    firstErr ((b, k) :: rest) = some e ↔ (b = true ∧ k = e) ∨ (b = false ∧ firstErr rest = some e) := by
  rw [firstErr_cons]; cases b <;> simp

/-- the error returned is the error attached to some failing test of the list -/
theorem firstErr_mem (l : List (Bool × Err)) (e : Err) (h : firstErr l = some e) : (true, e) ∈ l := by
  obtain ⟨pre, post, rfl, _⟩ := (firstErr_some_iff l e).mp h
  simp

/-- a list whose tests all carry the kind `k` can only reject with `k` -/
theorem firstErr_kind (l : List (Bool × Err)) (k : Err) (hk : ∀ p ∈ l, p.2 = k) (e : Err)
    (h : firstErr l = some e) : e = k :=
  hk _ (firstErr_mem l e h)

/-- complete table from the accepted domain and the uniform kind -/
theorem some_iff_of {r : Option Err} {P : Prop} {k : Err} (hnone : r = none ↔ P) (hkind : ∀ e, r = some e → e = k)
    (e : Err) : r = some e ↔ e = k ∧ ¬ P := by
  cases r with
  | none => simp at hnone; simp [hnone]
  | some e' =>
    have := hkind e' rfl
    subst this
    simp at hnone
    simp [hnone, eq_comm]

/-! ### The interval test -/

theorem notIn_oc (lo hi v : ℝ) : notIn true false lo hi v = false ↔ lo < v ∧ v ≤ hi := by simp [notIn]
theorem notIn_cc (lo hi v : ℝ) : notIn false false lo hi v = false ↔ lo ≤ v ∧ v ≤ hi := by simp [notIn]
theorem notIn_oo (lo hi v : ℝ) : notIn true true lo hi v = false ↔ lo < v ∧ v < hi := by simp [notIn]

theorem beq_false_iff (a b : ℝ) : Num.beq a b = false ↔ a ≠ b := by simp [Num.beq]

/-- `not value > 0` / `not value >= 0` over ℝ (over doubles they also reject NaN) -/
@[simp] theorem notPos_false_iff (v : ℝ) : notPos v = false ↔ 0 < v := by simp [notPos, Num.gt, z]
@[simp] theorem notPos_true_iff (v : ℝ) : notPos v = true ↔ v ≤ 0 := by simp [notPos, Num.gt, z]
@[simp] theorem notNonneg_false_iff (v : ℝ) : notNonneg v = false ↔ 0 ≤ v := by simp [notNonneg, Num.ge, z]
@[simp] theorem notNonneg_true_iff (v : ℝ) : notNonneg v = true ↔ v < 0 := by simp [notNonneg, Num.ge, z]

/-! ### Accepted domains (`= none ↔ …`), over ℝ -/

theorem ddm_none_iff (warn drift : ℝ) (n : Int) :
    ddm warn drift n = none ↔ 1 ≤ n ∧ 0 < warn ∧ 0 < drift ∧ warn < drift := by
  simp [ddm, spc, minN, firstErr_none_iff, z]

/-- `max_concept_size` and `max_num_instances_warning` are NOT validated (they do not occur) -/
theorem rddm_none_iff (warn drift : ℝ) (n maxConcept minConcept maxWarn : Int) :
    rddm warn drift n maxConcept minConcept maxWarn = none ↔
      1 ≤ n ∧ 0 < warn ∧ 0 < drift ∧ warn < drift ∧ 1 ≤ minConcept := by
  simp [rddm, spc, minN, firstErr_none_iff, z]

theorem eddm_none_iff (alpha beta level : ℝ) (minMis : Int) :
    eddm alpha beta level minMis = none ↔ 0 < beta ∧ beta < alpha ∧ 0 < level ∧ 0 ≤ minMis := by
  simp [eddm, firstErr_none_iff, z]

theorem hddma_none_iff (alphaD alphaW : ℝ) (n : Int) :
    hddma alphaD alphaW n = none ↔
      1 ≤ n ∧ (0 < alphaD ∧ alphaD ≤ 1) ∧ (0 < alphaW ∧ alphaW ≤ 1) ∧ alphaD < alphaW := by
  simp [hddma, hddmBase, minN, firstErr_none_iff, z, o, notIn]

theorem hddmw_none_iff (alphaD alphaW lam : ℝ) (n : Int) :
    hddmw alphaD alphaW lam n = none ↔
      1 ≤ n ∧ (0 < alphaD ∧ alphaD ≤ 1) ∧ (0 < alphaW ∧ alphaW ≤ 1) ∧ alphaD < alphaW ∧ (0 < lam ∧ lam ≤ 1) := by
  simp [hddmw, hddmBase, minN, firstErr_none_iff, z, o, notIn, and_assoc]

theorem ecdd_none_iff (lam warn : ℝ) (arl n : Int) :
    ecdd lam warn arl n = none ↔
      1 ≤ n ∧ (arl = 100 ∨ arl = 400 ∨ arl = 1000) ∧ (0 ≤ lam ∧ lam ≤ 1) ∧ (0 < warn ∧ warn < 1) := by
  simp [ecdd, minN, firstErr_none_iff, z, o, notIn]
  intro _ _ _ _ _; omega

theorem adwin_none_iff (delta : ℝ) (clock m minWindow n : Int) :
    adwin delta clock m minWindow n = none ↔
      1 ≤ n ∧ 1 ≤ clock ∧ 0 < delta ∧ delta < 1 ∧ 1 ≤ m ∧ 1 ≤ minWindow := by
  simp [adwin, minN, firstErr_none_iff, z, o, notIn, and_assoc]

/-- `num_test_instances > min_num_instances // 2` is rejected: with `n ≥ 1` (floor division of a
positive integer) `numTest ≤ n / 2 ↔ 2 * numTest ≤ n`. -/
theorem kswin_none_iff (alpha : ℝ) (n numTest : Int) :
    kswin alpha n numTest = none ↔ 1 ≤ n ∧ 0 < alpha ∧ 1 ≤ numTest ∧ 2 * numTest ≤ n := by
  simp only [kswin, minN, firstErr_none_iff, List.forall_mem_cons, List.not_mem_nil, decide_eq_false_iff_not,
    notPos_false_iff, not_le]
  constructor
  · rintro ⟨h1, h2, h3, h4, -⟩; exact ⟨by omega, h2, by omega, by omega⟩
  · rintro ⟨h1, h2, h3, h4⟩; exact ⟨by omega, h2, by omega, by omega, by simp⟩

theorem stepd_none_iff (alphaD alphaW : ℝ) (n : Int) :
    stepd alphaD alphaW n = none ↔ 1 ≤ n ∧ 0 < alphaD ∧ 0 < alphaW ∧ alphaD < alphaW := by
  simp [stepd, minN, firstErr_none_iff, z]

theorem cusum_none_iff (lam delta : ℝ) (n : Int) :
    cusum lam delta n = none ↔ 1 ≤ n ∧ 0 ≤ lam ∧ 0 ≤ delta ∧ delta ≤ 1 := by
  simp [cusum, minN, firstErr_none_iff, z, o, notIn]

theorem pageHinkley_none_iff (lam delta alpha : ℝ) (n : Int) :
    pageHinkley lam delta alpha n = none ↔
      1 ≤ n ∧ 0 ≤ lam ∧ (0 ≤ delta ∧ delta ≤ 1) ∧ (0 ≤ alpha ∧ alpha ≤ 1) := by
  simp [pageHinkley, minN, firstErr_none_iff, z, o, notIn]

theorem gma_none_iff (lam alpha : ℝ) (n : Int) :
    gma lam alpha n = none ↔ 1 ≤ n ∧ 0 ≤ lam ∧ 0 ≤ alpha ∧ alpha ≤ 1 := by
  simp [gma, minN, firstErr_none_iff, z, o, notIn]

theorem gaussian_none_iff (priorVar dataVar : ℝ) :
    gaussian priorVar dataVar = none ↔ priorVar ≠ 0 ∧ 0 < dataVar := by
  simp [gaussian, firstErr_none_iff, z, beq_false_iff]

/-- (no carrier involved) -/
theorem permutation_none_iff (numPerm : Int) (total : Option Int) (numJobs : Int) (methodOk : Bool) :
    permutation numPerm total numJobs methodOk = none ↔
      1 ≤ numPerm ∧ numPerm ≤ 1000000 ∧ (∀ t, total = some t → 1 ≤ t ∧ t ≤ 1000000) ∧
        (numJobs = -1 ∨ 1 ≤ numJobs) ∧ methodOk = true := by
  cases total with
  | none =>
    simp only [permutation, firstErr_none_iff, List.forall_mem_cons, List.not_mem_nil, decide_eq_false_iff_not,
      Bool.or_eq_false_iff, beq_eq_false_iff_ne, Bool.not_eq_false']
    constructor
    · rintro ⟨h1, h2, -, -, ⟨h3, h4⟩, h5, -⟩
      exact ⟨by omega, by omega, by simp, by omega, h5⟩
    · rintro ⟨h1, h2, -, h3, h5⟩
      exact ⟨by omega, by omega, trivial, trivial, ⟨by omega, by omega⟩, h5, by simp⟩
  | some t =>
    simp only [permutation, firstErr_none_iff, List.forall_mem_cons, List.not_mem_nil, decide_eq_false_iff_not,
      Bool.or_eq_false_iff, beq_eq_false_iff_ne, Bool.not_eq_false']
    constructor
    · rintro ⟨h1, h2, h6, h7, ⟨h3, h4⟩, h5, -⟩
      refine ⟨by omega, by omega, ?_, by omega, h5⟩
      intro t' ht; cases ht; omega
    · rintro ⟨h1, h2, h6, h3, h5⟩
      have := h6 t rfl
      exact ⟨by omega, by omega, by omega, by omega, ⟨by omega, by omega⟩, h5, by simp⟩

theorem resetCallback_none_iff (alpha : ℝ) : resetCallback alpha = none ↔ 0 < alpha := by
  simp [resetCallback, firstErr_none_iff, z]

/-- (no carrier involved) `chunk_size`: `None` or a positive integer -/
theorem chunkSize_none_iff (cs : Option Int) : chunkSize cs = none ↔ ∀ c, cs = some c → 0 < c := by
  cases cs <;> simp [chunkSize, firstErr_none_iff]

/-- (no carrier involved) `num_bins`, `window_size` -/
theorem positiveInt_none_iff (v : Int) : positiveInt v = none ↔ 1 ≤ v := by
  simp [positiveInt, firstErr_none_iff]

theorem prequential_none_iff (alpha : ℝ) : prequential alpha = none ↔ 0 < alpha ∧ alpha ≤ 1 := by
  simp [prequential, firstErr_none_iff, z, o, notIn]

/-! ### The error kind (control flow: ANY carrier) -/
section Kind
variable {α : Type} [Num α]

theorem ddm_kind (warn drift : α) (n : Int) (e : Err) (h : ddm warn drift n = some e) : e = .value :=
  firstErr_kind _ .value (by simp [spc, minN]) e h
theorem rddm_kind (warn drift : α) (n a b c : Int) (e : Err) (h : rddm warn drift n a b c = some e) : e = .value :=
  firstErr_kind _ .value (by simp [spc, minN]) e h
theorem eddm_kind (alpha beta level : α) (m : Int) (e : Err) (h : eddm alpha beta level m = some e) : e = .value :=
  firstErr_kind _ .value (by simp) e h
theorem hddma_kind (aD aW : α) (n : Int) (e : Err) (h : hddma aD aW n = some e) : e = .value :=
  firstErr_kind _ .value (by simp [hddmBase, minN]) e h
theorem hddmw_kind (aD aW lam : α) (n : Int) (e : Err) (h : hddmw aD aW lam n = some e) : e = .value :=
  firstErr_kind _ .value (by simp [hddmBase, minN]) e h
theorem adwin_kind (delta : α) (clock m w n : Int) (e : Err) (h : adwin delta clock m w n = some e) : e = .value :=
  firstErr_kind _ .value (by simp [minN]) e h
theorem kswin_kind (alpha : α) (n t : Int) (e : Err) (h : kswin alpha n t = some e) : e = .value :=
  firstErr_kind _ .value (by simp [minN]) e h
theorem stepd_kind (aD aW : α) (n : Int) (e : Err) (h : stepd aD aW n = some e) : e = .value :=
  firstErr_kind _ .value (by simp [minN]) e h
theorem cusum_kind (lam delta : α) (n : Int) (e : Err) (h : cusum lam delta n = some e) : e = .value :=
  firstErr_kind _ .value (by simp [minN]) e h
theorem pageHinkley_kind (lam delta alpha : α) (n : Int) (e : Err) (h : pageHinkley lam delta alpha n = some e) :
    e = .value :=
  firstErr_kind _ .value (by simp [minN]) e h
theorem gma_kind (lam alpha : α) (n : Int) (e : Err) (h : gma lam alpha n = some e) : e = .value :=
  firstErr_kind _ .value (by simp [minN]) e h
theorem permutation_kind (p : Int) (t : Option Int) (j : Int) (m : Bool) (e : Err)
    (h : permutation p t j m = some e) : e = .value :=
  firstErr_kind _ .value (by simp) e h
theorem resetCallback_kind (alpha : α) (e : Err) (h : resetCallback alpha = some e) : e = .value :=
  firstErr_kind _ .value (by simp) e h
theorem chunkSize_kind (cs : Option Int) (e : Err) (h : chunkSize cs = some e) : e = .value :=
  firstErr_kind _ .value (by simp) e h
theorem positiveInt_kind (v : Int) (e : Err) (h : positiveInt v = some e) : e = .value :=
  firstErr_kind _ .value (by simp) e h
theorem prequential_kind (alpha : α) (e : Err) (h : prequential alpha = some e) : e = .value :=
  firstErr_kind _ .value (by simp) e h

/-- **ecdd, InvalidAverageRunLengthError**: exactly when `min_num_instances` passed (`1 ≤ n`) and
`arl ∉ {100, 400, 1000}` — whatever `lam`, `warn` are, for any carrier. -/
theorem ecdd_invalidARL_iff (lam warn : α) (arl n : Int) :
    ecdd lam warn arl n = some .invalidARL ↔ 1 ≤ n ∧ ¬ (arl = 100 ∨ arl = 400 ∨ arl = 1000) := by
  simp only [ecdd, minN, firstErr_cons_eq_some, firstErr_nil]
  simp
  omega

/-- `ecdd` can only reject with `.value` or `.invalidARL` -/
theorem ecdd_kind (lam warn : α) (arl n : Int) (e : Err) (h : ecdd lam warn arl n = some e) :
    e = .value ∨ e = .invalidARL := by
  have := firstErr_mem _ e h
  simp [minN] at this
  rcases this with h | h | h | h <;> simp [h.2]

/-- **gaussian, ZeroDivisionError** (any carrier): exactly when the `==` test `prior_var == 0` is true -/
theorem gaussian_zeroDivision_iff' (priorVar dataVar : α) :
    gaussian priorVar dataVar = some .zeroDivision ↔ Num.beq priorVar Num.zero = true := by
  simp only [gaussian, firstErr_cons_eq_some, firstErr_nil, z]
  simp

theorem gaussian_kind (priorVar dataVar : α) (e : Err) (h : gaussian priorVar dataVar = some e) :
    e = .zeroDivision ∨ e = .value := by
  have := firstErr_mem _ e h
  simp at this
  rcases this with h | h <;> simp [h.2]
end Kind

/-! ### Complete tables (`= some e ↔ …`), over ℝ -/

theorem ddm_some_iff (warn drift : ℝ) (n : Int) (e : Err) :
    ddm warn drift n = some e ↔ e = .value ∧ ¬ (1 ≤ n ∧ 0 < warn ∧ 0 < drift ∧ warn < drift) :=
  some_iff_of (ddm_none_iff warn drift n) (ddm_kind warn drift n) e

theorem rddm_some_iff (warn drift : ℝ) (n a minConcept c : Int) (e : Err) :
    rddm warn drift n a minConcept c = some e ↔
      e = .value ∧ ¬ (1 ≤ n ∧ 0 < warn ∧ 0 < drift ∧ warn < drift ∧ 1 ≤ minConcept) :=
  some_iff_of (rddm_none_iff warn drift n a minConcept c) (rddm_kind warn drift n a minConcept c) e

theorem eddm_some_iff (alpha beta level : ℝ) (minMis : Int) (e : Err) :
    eddm alpha beta level minMis = some e ↔ e = .value ∧ ¬ (0 < beta ∧ beta < alpha ∧ 0 < level ∧ 0 ≤ minMis) :=
  some_iff_of (eddm_none_iff alpha beta level minMis) (eddm_kind alpha beta level minMis) e

theorem hddma_some_iff (alphaD alphaW : ℝ) (n : Int) (e : Err) :
    hddma alphaD alphaW n = some e ↔
      e = .value ∧ ¬ (1 ≤ n ∧ (0 < alphaD ∧ alphaD ≤ 1) ∧ (0 < alphaW ∧ alphaW ≤ 1) ∧ alphaD < alphaW) :=
  some_iff_of (hddma_none_iff alphaD alphaW n) (hddma_kind alphaD alphaW n) e

theorem hddmw_some_iff (alphaD alphaW lam : ℝ) (n : Int) (e : Err) :
    hddmw alphaD alphaW lam n = some e ↔
      e = .value ∧ ¬ (1 ≤ n ∧ (0 < alphaD ∧ alphaD ≤ 1) ∧ (0 < alphaW ∧ alphaW ≤ 1) ∧ alphaD < alphaW ∧
        (0 < lam ∧ lam ≤ 1)) :=
  some_iff_of (hddmw_none_iff alphaD alphaW lam n) (hddmw_kind alphaD alphaW lam n) e

theorem adwin_some_iff (delta : ℝ) (clock m minWindow n : Int) (e : Err) :
    adwin delta clock m minWindow n = some e ↔
      e = .value ∧ ¬ (1 ≤ n ∧ 1 ≤ clock ∧ 0 < delta ∧ delta < 1 ∧ 1 ≤ m ∧ 1 ≤ minWindow) :=
  some_iff_of (adwin_none_iff delta clock m minWindow n) (adwin_kind delta clock m minWindow n) e

theorem kswin_some_iff (alpha : ℝ) (n numTest : Int) (e : Err) :
    kswin alpha n numTest = some e ↔ e = .value ∧ ¬ (1 ≤ n ∧ 0 < alpha ∧ 1 ≤ numTest ∧ 2 * numTest ≤ n) :=
  some_iff_of (kswin_none_iff alpha n numTest) (kswin_kind alpha n numTest) e

theorem stepd_some_iff (alphaD alphaW : ℝ) (n : Int) (e : Err) :
    stepd alphaD alphaW n = some e ↔ e = .value ∧ ¬ (1 ≤ n ∧ 0 < alphaD ∧ 0 < alphaW ∧ alphaD < alphaW) :=
  some_iff_of (stepd_none_iff alphaD alphaW n) (stepd_kind alphaD alphaW n) e

theorem cusum_some_iff (lam delta : ℝ) (n : Int) (e : Err) :
    cusum lam delta n = some e ↔ e = .value ∧ ¬ (1 ≤ n ∧ 0 ≤ lam ∧ 0 ≤ delta ∧ delta ≤ 1) :=
  some_iff_of (cusum_none_iff lam delta n) (cusum_kind lam delta n) e

theorem pageHinkley_some_iff (lam delta alpha : ℝ) (n : Int) (e : Err) :
    pageHinkley lam delta alpha n = some e ↔
      e = .value ∧ ¬ (1 ≤ n ∧ 0 ≤ lam ∧ (0 ≤ delta ∧ delta ≤ 1) ∧ (0 ≤ alpha ∧ alpha ≤ 1)) :=
  some_iff_of (pageHinkley_none_iff lam delta alpha n) (pageHinkley_kind lam delta alpha n) e

theorem gma_some_iff (lam alpha : ℝ) (n : Int) (e : Err) :
    gma lam alpha n = some e ↔ e = .value ∧ ¬ (1 ≤ n ∧ 0 ≤ lam ∧ 0 ≤ alpha ∧ alpha ≤ 1) :=
  some_iff_of (gma_none_iff lam alpha n) (gma_kind lam alpha n) e

theorem permutation_some_iff (numPerm : Int) (total : Option Int) (numJobs : Int) (methodOk : Bool) (e : Err) :
    permutation numPerm total numJobs methodOk = some e ↔
      e = .value ∧ ¬ (1 ≤ numPerm ∧ numPerm ≤ 1000000 ∧ (∀ t, total = some t → 1 ≤ t ∧ t ≤ 1000000) ∧
        (numJobs = -1 ∨ 1 ≤ numJobs) ∧ methodOk = true) :=
  some_iff_of (permutation_none_iff numPerm total numJobs methodOk) (permutation_kind numPerm total numJobs methodOk) e

theorem resetCallback_some_iff (alpha : ℝ) (e : Err) : resetCallback alpha = some e ↔ e = .value ∧ ¬ 0 < alpha :=
  some_iff_of (resetCallback_none_iff alpha) (resetCallback_kind alpha) e

theorem chunkSize_some_iff (cs : Option Int) (e : Err) :
    chunkSize cs = some e ↔ e = .value ∧ ¬ ∀ c, cs = some c → 0 < c :=
  some_iff_of (chunkSize_none_iff cs) (chunkSize_kind cs) e

theorem positiveInt_some_iff (v : Int) (e : Err) : positiveInt v = some e ↔ e = .value ∧ ¬ 1 ≤ v :=
  some_iff_of (positiveInt_none_iff v) (positiveInt_kind v) e

theorem prequential_some_iff (alpha : ℝ) (e : Err) :
    prequential alpha = some e ↔ e = .value ∧ ¬ (0 < alpha ∧ alpha ≤ 1) :=
  some_iff_of (prequential_none_iff alpha) (prequential_kind alpha) e

/-- **ecdd, ValueError**: `n < 1`, or `arl` is admissible and `lam ∉ [0,1]` or `warn ∉ (0,1)`.
(With `ecdd_invalidARL_iff`, `ecdd_none_iff`, `ecdd_kind` this is the complete table.) -/
theorem ecdd_value_iff (lam warn : ℝ) (arl n : Int) :
    ecdd lam warn arl n = some .value ↔
      n < 1 ∨ ((arl = 100 ∨ arl = 400 ∨ arl = 1000) ∧ ¬ ((0 ≤ lam ∧ lam ≤ 1) ∧ (0 < warn ∧ warn < 1))) := by
  rcases h : ecdd lam warn arl n with _ | e
  · rw [ecdd_none_iff] at h
    simp only [reduceCtorEq, false_iff]
    rintro (h' | ⟨_, h'⟩)
    · omega
    · exact h' h.2.2
  · have hk := ecdd_kind lam warn arl n e h
    have hn : ¬ _ := fun h' => by rw [(ecdd_none_iff lam warn arl n).mpr h'] at h; cases h
    rcases hk with rfl | rfl
    · simp only [true_iff]
      have hi := (ecdd_invalidARL_iff lam warn arl n).not.mp (by rw [h]; simp)
      by_cases h1 : n < 1
      · exact Or.inl h1
      · right
        have harl : arl = 100 ∨ arl = 400 ∨ arl = 1000 := by
          by_contra hc; exact hi ⟨by omega, hc⟩
        exact ⟨harl, fun hd => hn ⟨by omega, harl, hd.1, hd.2⟩⟩
    · simp only [Option.some.injEq, reduceCtorEq, false_iff]
      have hi := (ecdd_invalidARL_iff lam warn arl n).mp h
      rintro (h' | ⟨h', _⟩)
      · omega
      · exact hi.2 h'

/-- **gaussian, ZeroDivisionError** over ℝ: exactly when `priorVar = 0` (whatever `dataVar` is: the
division test comes first) -/
theorem gaussian_zeroDivision_iff (priorVar dataVar : ℝ) :
    gaussian priorVar dataVar = some .zeroDivision ↔ priorVar = 0 := by
  rw [gaussian_zeroDivision_iff']; simp

theorem gaussian_value_iff (priorVar dataVar : ℝ) :
    gaussian priorVar dataVar = some .value ↔ priorVar ≠ 0 ∧ dataVar ≤ 0 := by
  simp only [gaussian, firstErr_cons_eq_some, firstErr_nil, z]
  simp [beq_false_iff]

/-! ### Non-vacuity: every domain is inhabited (the library defaults), and each rejection kind occurs -/

example : ddm (2 : ℝ) 3 30 = none := by rw [ddm_none_iff]; norm_num
example : rddm (1.773 : ℝ) 2.258 129 40000 7000 1400 = none := by rw [rddm_none_iff]; norm_num
example : eddm (0.95 : ℝ) 0.9 2 30 = none := by rw [eddm_none_iff]; norm_num
example : hddma (0.001 : ℝ) 0.005 30 = none := by rw [hddma_none_iff]; norm_num
example : hddmw (0.001 : ℝ) 0.005 0.05 30 = none := by rw [hddmw_none_iff]; norm_num
example : ecdd (0.2 : ℝ) 0.5 400 30 = none := by rw [ecdd_none_iff]; norm_num
example : ecdd (0.2 : ℝ) 0.5 500 30 = some .invalidARL := by rw [ecdd_invalidARL_iff]; norm_num
example : ecdd (0.2 : ℝ) 0.5 500 0 = some .value := by rw [ecdd_value_iff]; norm_num
example : adwin (0.002 : ℝ) 32 5 5 10 = none := by rw [adwin_none_iff]; norm_num
example : kswin (0.0001 : ℝ) 100 30 = none := by rw [kswin_none_iff]; norm_num
example : kswin (0.0001 : ℝ) 100 51 = some .value := by rw [kswin_some_iff]; norm_num
example : stepd (0.003 : ℝ) 0.05 30 = none := by rw [stepd_none_iff]; norm_num
example : cusum (50 : ℝ) 0.005 30 = none := by rw [cusum_none_iff]; norm_num
example : pageHinkley (50 : ℝ) 0.005 0.9999 30 = none := by rw [pageHinkley_none_iff]; norm_num
example : gma (1 : ℝ) 0.99 30 = none := by rw [gma_none_iff]; norm_num
example : gaussian (1 : ℝ) 1 = none := by rw [gaussian_none_iff]; norm_num
example : gaussian (0 : ℝ) (-1) = some .zeroDivision := by rw [gaussian_zeroDivision_iff]
example : gaussian (1 : ℝ) 0 = some .value := by rw [gaussian_value_iff]; norm_num
example : permutation 1000 none (-1) true = none := by rw [permutation_none_iff]; simp
example : permutation 1000 (some 5) 4 true = none := by rw [permutation_none_iff]; simp
example : permutation 1000 (some 0) 4 true = some .value := by decide
example : resetCallback (0.05 : ℝ) = none := by rw [resetCallback_none_iff]; norm_num
example : chunkSize none = none := by decide
example : chunkSize (some 0) = some .value := by decide
example : positiveInt 10 = none := by decide
example : prequential (1 : ℝ) = none := by rw [prequential_none_iff]; norm_num

/-! ### Unordered values (NaN) — every carrier, hence IEEE doubles

Every "greater than 0" / "at least 0" test is written `not value > 0` / `not value >= 0`, so a value
for which the comparison with 0 is false — NaN over doubles — is rejected: an accepted configuration
satisfies the positive comparison itself. -/
section Unordered
variable {α : Type} [Num α]

theorem notPos_false_any (v : α) : notPos v = false ↔ Num.lt (z : α) v = true := by simp [notPos, Num.gt]
theorem notNonneg_false_any (v : α) : notNonneg v = false ↔ Num.le (z : α) v = true := by simp [notNonneg, Num.ge]

theorem ddm_accept_any (warn drift : α) (n : Int) (h : ddm warn drift n = none) :
    Num.lt (z : α) warn = true ∧ Num.lt (z : α) drift = true := by
  simp [ddm, spc, firstErr_none_iff, notPos_false_any] at h; exact ⟨h.2.1, h.2.2.1⟩
theorem rddm_accept_any (warn drift : α) (n a b c : Int) (h : rddm warn drift n a b c = none) :
    Num.lt (z : α) warn = true ∧ Num.lt (z : α) drift = true := by
  simp [rddm, spc, firstErr_none_iff, notPos_false_any] at h; exact ⟨h.2.1, h.2.2.1⟩
theorem eddm_accept_any (alpha beta level : α) (k : Int) (h : eddm alpha beta level k = none) :
    Num.lt (z : α) beta = true ∧ Num.lt (z : α) level = true := by
  simp [eddm, firstErr_none_iff, notPos_false_any] at h; exact ⟨h.1, h.2.2.1⟩
theorem kswin_accept_any (alpha : α) (n k : Int) (h : kswin alpha n k = none) : Num.lt (z : α) alpha = true := by
  simp [kswin, firstErr_none_iff, notPos_false_any] at h; exact h.2.1
theorem stepd_accept_any (alphaD alphaW : α) (n : Int) (h : stepd alphaD alphaW n = none) :
    Num.lt (z : α) alphaD = true ∧ Num.lt (z : α) alphaW = true := by
  simp [stepd, firstErr_none_iff, notPos_false_any] at h; exact ⟨h.2.1, h.2.2.1⟩
theorem cusum_accept_any (lam delta : α) (n : Int) (h : cusum lam delta n = none) : Num.le (z : α) lam = true := by
  simp [cusum, firstErr_none_iff, notNonneg_false_any] at h; exact h.2.1
theorem pageHinkley_accept_any (lam delta alpha : α) (n : Int) (h : pageHinkley lam delta alpha n = none) :
    Num.le (z : α) lam = true := by
  simp [pageHinkley, firstErr_none_iff, notNonneg_false_any] at h; exact h.2.1
theorem gma_accept_any (lam alpha : α) (n : Int) (h : gma lam alpha n = none) : Num.le (z : α) lam = true := by
  simp [gma, firstErr_none_iff, notNonneg_false_any] at h; exact h.2.1
theorem gaussian_accept_any (priorVar dataVar : α) (h : gaussian priorVar dataVar = none) : Num.lt (z : α) dataVar = true := by
  simp [gaussian, firstErr_none_iff, notPos_false_any] at h; exact h.2
theorem resetCallback_accept_any (alpha : α) (h : resetCallback alpha = none) : Num.lt (z : α) alpha = true := by
  simp [resetCallback, firstErr_none_iff, notPos_false_any] at h; exact h
/-- the interval tests were already of this form: `not lo < v <= hi` rejects an unordered `v` -/
theorem notIn_false_any (lo hi v : α) (a b : Bool) (h : notIn a b lo hi v = false) :
    (if a then Num.lt lo v else Num.le lo v) = true ∧ (if b then Num.lt v hi else Num.le v hi) = true := by
  simpa [notIn] using h
end Unordered

end Frouros.C19

#print axioms Frouros.C19.firstErr_none_iff
#print axioms Frouros.C19.firstErr_some_iff
#print axioms Frouros.C19.ddm_none_iff
#print axioms Frouros.C19.rddm_none_iff
#print axioms Frouros.C19.eddm_none_iff
#print axioms Frouros.C19.hddma_none_iff
#print axioms Frouros.C19.hddmw_none_iff
#print axioms Frouros.C19.ecdd_none_iff
#print axioms Frouros.C19.adwin_none_iff
#print axioms Frouros.C19.kswin_none_iff
#print axioms Frouros.C19.stepd_none_iff
#print axioms Frouros.C19.cusum_none_iff
#print axioms Frouros.C19.pageHinkley_none_iff
#print axioms Frouros.C19.gma_none_iff
#print axioms Frouros.C19.gaussian_none_iff
#print axioms Frouros.C19.permutation_none_iff
#print axioms Frouros.C19.resetCallback_none_iff
#print axioms Frouros.C19.chunkSize_none_iff
#print axioms Frouros.C19.positiveInt_none_iff
#print axioms Frouros.C19.prequential_none_iff
#print axioms Frouros.C19.ddm_some_iff
#print axioms Frouros.C19.rddm_some_iff
#print axioms Frouros.C19.eddm_some_iff
#print axioms Frouros.C19.hddma_some_iff
#print axioms Frouros.C19.hddmw_some_iff
#print axioms Frouros.C19.adwin_some_iff
#print axioms Frouros.C19.kswin_some_iff
#print axioms Frouros.C19.stepd_some_iff
#print axioms Frouros.C19.cusum_some_iff
#print axioms Frouros.C19.pageHinkley_some_iff
#print axioms Frouros.C19.gma_some_iff
#print axioms Frouros.C19.permutation_some_iff
#print axioms Frouros.C19.resetCallback_some_iff
#print axioms Frouros.C19.chunkSize_some_iff
#print axioms Frouros.C19.positiveInt_some_iff
#print axioms Frouros.C19.prequential_some_iff
#print axioms Frouros.C19.ecdd_invalidARL_iff
#print axioms Frouros.C19.ecdd_value_iff
#print axioms Frouros.C19.ecdd_kind
#print axioms Frouros.C19.gaussian_zeroDivision_iff
#print axioms Frouros.C19.gaussian_value_iff
#print axioms Frouros.C19.gaussian_kind
#print axioms Frouros.C19.ddm_accept_any
#print axioms Frouros.C19.rddm_accept_any
#print axioms Frouros.C19.eddm_accept_any
#print axioms Frouros.C19.kswin_accept_any
#print axioms Frouros.C19.stepd_accept_any
#print axioms Frouros.C19.cusum_accept_any
#print axioms Frouros.C19.pageHinkley_accept_any
#print axioms Frouros.C19.gma_accept_any
#print axioms Frouros.C19.gaussian_accept_any
#print axioms Frouros.C19.resetCallback_accept_any
#print axioms Frouros.C19.notIn_false_any
