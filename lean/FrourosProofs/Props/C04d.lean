/-
  C04d — HDDM-W: the rise at the LIBRARY DEFAULTS, the positive DROP theorem, the asymmetry, histories with `reset`.

  Model: `HDDMW` in `FrourosModel/SPC.lean` (unchanged).  Builds on `Props/C04c.lean` (`hddmw_rise_delay`, `CutStays`,
  `IsFirstW`, `WTest`, closed forms `wmean`, `wibc`, `wibc_closed`, `quiet_drift_iff`).  Over `ℝ` except the control
  flow of §5 (`hddmw_run_eq_wRun`, `hddma_run_eq_aRun`, `hddmw_flags_ops`: every carrier).  `ρ = 1-λ`.
    1. generic arithmetic  `wTest_mono`, `isFirstW_of`, `thr_ge_gap` (threshold ≥ `ρ^i - ρ^j` for `ln(1/α) ≥ 2`),
                           `eps_le_of_le` (cut-stays criterion with a slack factor)
    2. drop stream `1^n 0^m`  `wmean_drop`, `DropCutStays`, `DTest`, `IsFirstD`, `drop_argmax`, `mcdDec_drop`,
                           `mcdInc_drop_silent`
    3. run level           `hddmw_drop_delay` (exact first drift, two-sided), `hddmw_drop_one_sided_never`,
       3b                  `exists_isFirstD_iff`, `drop_conditions_eventually`, `hddmw_drop_exists`,
                           `wTest_dTest`, `hddmw_drop_vs_rise` (the asymmetry as a theorem)
       3c                  `one_sided_weak_level_witness` (the level hypothesis of "never" is needed)
    4. library defaults    `log_1000_bounds`, `dropCutStays_default`, `cutStays_default`, `isFirstW_default` (js = 27),
                           `isFirstD_default` (jd = 25), `hddmw_default_rise` (57, both modes), `hddmw_default_drop`
                           (55 two-sided / never one-sided), `hddmw_default_asymmetry`
    5. histories with `reset`  `valsSince(_spec)`, `hddmw_run_eq_wRun`, `hddmw_flags_ops`,
                           `hddmw_flags_declarative_ops`, `hddma_flags_declarative_ops`, `hddmw_default_rise_after_reset`
-/
import Mathlib.Tactic
import Mathlib.Analysis.Complex.ExponentialBounds
import FrourosProofs.Machines
import FrourosProofs.Props.C04c

namespace Frouros.C04d
open Frouros Frouros.C04 Frouros.C04c
open Frouros.C04b (riseStream dropStream take_riseStream take_dropStream riseStream_succ)

/-! ## 1. generic arithmetic: monotone tests, the McDiarmid threshold dominates `ρ^i - ρ^j` for `ln(1/α) ≥ 2` -/
section Generic

/-- the threshold `√((ibc(n) + ibc(m))·L/2)` is antitone in `m` (`0 < λ < 1`, `L ≥ 0`) -/
theorem thr_antitone (lam L : ℝ) (h0 : 0 < lam) (h1 : lam < 1) (hL : 0 ≤ L) (n : ℕ) {m m' : ℕ} (hm : m ≤ m') :
    Real.sqrt ((wibc lam n + wibc lam m') * L / 2) ≤ Real.sqrt ((wibc lam n + wibc lam m) * L / 2) := by
  apply Real.sqrt_le_sqrt
  have := (wibc_strictAnti lam h0 h1).antitone hm
  have : (wibc lam n + wibc lam m') * L ≤ (wibc lam n + wibc lam m) * L :=
    mul_le_mul_of_nonneg_right (by linarith) hL
  linarith

/-- once the rise test fires it keeps firing (`0 < λ < 1`, `ln(1/α) ≥ 0`, i.e. `0 < α ≤ 1`) -/
theorem wTest_mono (lam al : ℝ) (h0 : 0 < lam) (h1 : lam < 1) (hL : 0 ≤ Real.log (1 / al)) (n : ℕ) {m m' : ℕ}
    (hm : m ≤ m') (h : WTest lam n m al) : WTest lam n m' al := by
  unfold WTest at *
  have h1' := thr_antitone lam _ h0 h1 hL n hm
  have h2' : (1 - lam) ^ m' ≤ (1 - lam) ^ m := pow_le_pow_of_le_one (by linarith) (by linarith) hm
  linarith

/-- hence the first firing step is determined by two checks: the test fires at `j + 1` and not at `j` -/
theorem isFirstW_of (lam al : ℝ) (h0 : 0 < lam) (h1 : lam < 1) (hL : 0 ≤ Real.log (1 / al)) (n j : ℕ)
    (hW : WTest lam n (j + 1) al) (hN : ¬ WTest lam n j al) : IsFirstW lam n al (j + 1) :=
  ⟨by omega, hW, fun _ _ hm h => hN (wTest_mono lam al h0 h1 hL n (by omega) h)⟩

theorem sq_pow_eq (lam : ℝ) (k : ℕ) : ((1 - lam) ^ 2) ^ k = ((1 - lam) ^ k) ^ 2 := by
  rw [← pow_mul, ← pow_mul, mul_comm]

/-- **the McDiarmid threshold dominates every difference `ρ^i - ρ^j`** (`ρ = 1-λ`) when `ln(1/α) ≥ 2`
(`α ≤ e⁻² ≈ 0.135`).  This is what keeps the INCREASE test of HDDM-W silent on an all-ones stream and on a drop
`1^n 0^m`, wherever the increase cut is: the EWMA of a block of ones that starts at position `k` is `1 - ρ^(len)`,
so the "increase" the zero-initialised statistics see is at most `ρ^k - ρ^(N-k)`. -/
theorem thr_ge_gap (lam L : ℝ) (h0 : 0 < lam) (h1 : lam < 1) (hL : 2 ≤ L) (i j : ℕ) :
    (1 - lam) ^ i - (1 - lam) ^ j ≤ Real.sqrt ((wibc lam i + wibc lam j) * L / 2) := by
  obtain ⟨hw0, hw1⟩ := wstar_bounds lam h0 h1
  have hr0 : 0 < 1 - lam := by linarith
  set a := (1 - lam) ^ i with ha
  set b := (1 - lam) ^ j with hb
  have ha0 : 0 < a := by positivity
  have hb0 : 0 < b := by positivity
  have ha1 : a ≤ 1 := pow_le_one₀ hr0.le (by linarith)
  have hb1 : b ≤ 1 := pow_le_one₀ hr0.le (by linarith)
  rcases le_or_gt (a - b) 0 with h | h
  · exact h.trans (Real.sqrt_nonneg _)
  · rw [Real.le_sqrt' h, wibc_closed lam (by linarith) i, wibc_closed lam (by linarith) j, sq_pow_eq, sq_pow_eq,
      ← ha, ← hb]
    have hX : 0 ≤ wstar lam + (1 - wstar lam) * a ^ 2 + (wstar lam + (1 - wstar lam) * b ^ 2) := by
      have : 0 < 1 - wstar lam := by linarith
      positivity
    have h2 : wstar lam + (1 - wstar lam) * a ^ 2 + (wstar lam + (1 - wstar lam) * b ^ 2) ≤
        (wstar lam + (1 - wstar lam) * a ^ 2 + (wstar lam + (1 - wstar lam) * b ^ 2)) * L / 2 := by nlinarith
    have ha2 : a ^ 2 ≤ 1 := by nlinarith
    have hb2 : b ^ 2 ≤ 1 := by nlinarith
    have hab : 0 < a * b := mul_pos ha0 hb0
    nlinarith

/-- general form of `C04c.cutStays_of_le` with a slack factor `κ ≥ 0`: if
`ln(1/λ)/2·(1-w*)·(1-λ)^(2n) ≤ κ·√(w*·ln(1/λ)/2)` then `ε_λ(n) ≤ κ·(1-(1-λ)^m) + ε_λ(n+m)` for every `m`. -/
theorem eps_le_of_le (lam κ : ℝ) (h0 : 0 < lam) (h1 : lam < 1) (hκ : 0 ≤ κ) (n : ℕ)
    (h : Real.log (1 / lam) / 2 * (1 - wstar lam) * ((1 - lam) ^ 2) ^ n ≤
      κ * Real.sqrt (wstar lam * Real.log (1 / lam) / 2)) (m : ℕ) :
    Real.sqrt (wibc lam n * Real.log (1 / lam) / 2) ≤
      κ * (1 - (1 - lam) ^ m) + Real.sqrt (wibc lam (n + m) * Real.log (1 / lam) / 2) := by
  have hL := log_inv_pos lam h0 h1
  obtain ⟨hw0, hw1⟩ := wstar_bounds lam h0 h1
  set L := Real.log (1 / lam) with hLdef
  set A := Real.sqrt (wibc lam n * L / 2) with hA
  set B := Real.sqrt (wibc lam (n + m) * L / 2) with hB
  set C := Real.sqrt (wstar lam * L / 2) with hC
  have hA2 : A ^ 2 = wibc lam n * L / 2 := Real.sq_sqrt (by have := wibc_nonneg lam n; positivity)
  have hB2 : B ^ 2 = wibc lam (n + m) * L / 2 := Real.sq_sqrt (by have := wibc_nonneg lam (n + m); positivity)
  have hC0 : 0 < C := Real.sqrt_pos.mpr (by positivity)
  have hCA : C ≤ A := Real.sqrt_le_sqrt (by
    have := wibc_gt_wstar lam h0 h1 n
    have : wstar lam * L ≤ wibc lam n * L := mul_le_mul_of_nonneg_right this.le hL.le
    linarith)
  have hCB : C ≤ B := Real.sqrt_le_sqrt (by
    have := wibc_gt_wstar lam h0 h1 (n + m)
    have : wstar lam * L ≤ wibc lam (n + m) * L := mul_le_mul_of_nonneg_right this.le hL.le
    linarith)
  have hr0 : 0 < 1 - lam := by linarith
  set ρ := (1 - lam) ^ m with hρ
  have hρ0 : 0 < ρ := by positivity
  have hρ1 : ρ ≤ 1 := pow_le_one₀ hr0.le (by linarith)
  set Q := ((1 - lam) ^ 2) ^ n with hQ
  have hQ0 : 0 < Q := by positivity
  have hdiff : A ^ 2 - B ^ 2 = L / 2 * (1 - wstar lam) * Q * (1 - ρ ^ 2) := by
    rw [hA2, hB2, wibc_closed lam (by linarith) n, wibc_closed lam (by linarith) (n + m), pow_add]
    have : ((1 - lam) ^ 2) ^ m = ρ ^ 2 := by rw [hρ, ← pow_mul, ← pow_mul, mul_comm]
    rw [this]; ring
  have hD0 : 0 ≤ L / 2 * (1 - wstar lam) * Q := by
    have : 0 < 1 - wstar lam := by linarith
    positivity
  have h1ρ : 0 ≤ 1 - ρ := by linarith
  set δ := κ * (1 - ρ) with hδ
  have hδ0 : 0 ≤ δ := mul_nonneg hκ h1ρ
  have hbound : A ^ 2 - B ^ 2 ≤ 2 * C * δ := by
    rw [hdiff]
    have e : (1 - ρ ^ 2) = (1 - ρ) * (1 + ρ) := by ring
    rw [e]
    have : L / 2 * (1 - wstar lam) * Q * ((1 - ρ) * (1 + ρ)) ≤ L / 2 * (1 - wstar lam) * Q * ((1 - ρ) * 2) := by
      apply mul_le_mul_of_nonneg_left _ hD0
      apply mul_le_mul_of_nonneg_left _ h1ρ
      linarith
    have : L / 2 * (1 - wstar lam) * Q * ((1 - ρ) * 2) ≤ κ * C * ((1 - ρ) * 2) :=
      mul_le_mul_of_nonneg_right h (by positivity)
    have e2 : κ * C * ((1 - ρ) * 2) = 2 * C * δ := by rw [hδ]; ring
    linarith
  by_contra hcon
  rw [not_le] at hcon
  have hpos : 0 < A - B - δ := by linarith
  have hAB : 0 ≤ A - B := by linarith
  have hsum : 0 ≤ A + B - 2 * C := by linarith
  nlinarith [mul_pos hpos hC0, mul_nonneg hAB hsum]

end Generic

/-! ## 2. HDDM-W on the drop stream `1^n 0^m` (ℝ): closed forms, cut positions, the two tests -/
section Drop

theorem wmean_append_zeros (lam : ℝ) (l : List ℝ) (m : ℕ) :
    wmean lam (l ++ List.replicate m 0) = (1 - lam) ^ m * wmean lam l := by
  induction m with
  | zero => simp
  | succ m ih => rw [List.replicate_succ', ← List.append_assoc, wmean_append, ih]; ring

/-- zero-initialised EWMA of `1^a 0^b`: the level reached after the ones is `1 - ρ^a` (NOT `1`), then it decays -/
theorem wmean_drop (lam : ℝ) (a b : ℕ) : wmean lam (dropStream a b) = (1 - lam) ^ b * (1 - (1 - lam) ^ a) := by
  rw [dropStream, wmean_append_zeros, wmean_ones]

theorem dropStream_length (n m : ℕ) : (dropStream n m).length = n + m := by simp [dropStream]

theorem dropStream_succ (n m : ℕ) : dropStream n (m + 1) = dropStream n m ++ [0] := by
  simp only [dropStream, List.replicate_succ', List.append_assoc]

theorem dropStream_succ_ones (t : ℕ) : dropStream (t + 1) 0 = dropStream t 0 ++ [1] := by
  simp only [dropStream, List.replicate_succ', List.replicate_zero, List.append_nil]

theorem drop_dropStream (n m k : ℕ) : (dropStream n m).drop k = dropStream (n - k) (m - (k - n)) := by
  simp [dropStream, List.drop_append, List.drop_replicate]

theorem dnW_drop (lam : ℝ) (n m j : ℕ) :
    dnW lam (dropStream n m) j =
      (1 - lam) ^ (min (j - n) m) * (1 - (1 - lam) ^ (min j n)) -
        Real.sqrt (wibc lam j * Real.log (1 / lam) / 2) := by
  rw [dnW, take_dropStream, wmean_drop]

/-- **hypothesis of the drop theorems**: the decrease cut stays at the end of the ones at every zeros-step `m`:
`ε_λ(n) ≤ (1 - ρ^n)·(1 - ρ^m) + ε_λ(n+m)`, `ρ = 1-λ`, `ε_λ(t) = √(ibc(t)·ln(1/λ)/2)`.  Compared with `C04c.CutStays` the
EWMA term carries the factor `1 - ρ^n`: the zero-initialised EWMA has only reached `1 - ρ^n` when the drop starts.
`dropCutStays_of_le` gives a closed sufficient condition (true for all large `n`). -/
def DropCutStays (lam : ℝ) (n : ℕ) : Prop :=
  ∀ m, 1 ≤ m → Real.sqrt (wibc lam n * Real.log (1 / lam) / 2) ≤
    (1 - (1 - lam) ^ n) * (1 - (1 - lam) ^ m) + Real.sqrt (wibc lam (n + m) * Real.log (1 / lam) / 2)

/-- closed sufficient condition for `DropCutStays` (defaults `λ = 0.05`, `n = 30`: `0.067 ≤ 0.785·0.196`) -/
theorem dropCutStays_of_le (lam : ℝ) (h0 : 0 < lam) (h1 : lam < 1) (n : ℕ)
    (h : Real.log (1 / lam) / 2 * (1 - wstar lam) * ((1 - lam) ^ 2) ^ n ≤
      (1 - (1 - lam) ^ n) * Real.sqrt (wstar lam * Real.log (1 / lam) / 2)) : DropCutStays lam n := by
  intro m _
  have hr0 : 0 < 1 - lam := by linarith
  exact eps_le_of_le lam _ h0 h1 (sub_nonneg.mpr (pow_le_one₀ hr0.le (by linarith))) n h m

/-- `C04c.cutStays_of_le` is the case `κ = 1`; and `DropCutStays` is the stronger requirement -/
theorem cutStays_of_dropCutStays (lam : ℝ) (h0 : 0 < lam) (h1 : lam < 1) (n : ℕ) (h : DropCutStays lam n) :
    CutStays lam n := by
  intro m hm
  have hr0 : 0 < 1 - lam := by linarith
  have h1' := h m hm
  have hn1 : (1 - lam) ^ n ≤ 1 := pow_le_one₀ hr0.le (by linarith)
  have hm1 : (1 - lam) ^ m ≤ 1 := pow_le_one₀ hr0.le (by linarith)
  have hn0 : 0 < (1 - lam) ^ n := by positivity
  nlinarith

/-- the McDiarmid decrease test at zeros-step `m` of `1^n 0^m` with the cut at the end of the ones:
`1 - ρ^n > √((ibc(n) + ibc(m))·ln(1/α)/2)`.  Compare `C04c.WTest`: same threshold, but the gap is the CONSTANT
`1 - ρ^n` (reference level reached by the zero-initialised EWMA; the restarted sample `dec2` sits at the new level
`0` at once) instead of `1 - ρ^m`. -/
def DTest (lam : ℝ) (n m : ℕ) (al : ℝ) : Prop :=
  Real.sqrt ((wibc lam n + wibc lam m) * Real.log (1 / al) / 2) < 1 - (1 - lam) ^ n

/-- `jd` is the first zeros-step at which the decrease test fires -/
def IsFirstD (lam : ℝ) (n : ℕ) (al : ℝ) (jd : ℕ) : Prop :=
  1 ≤ jd ∧ DTest lam n jd al ∧ ∀ m, 1 ≤ m → m < jd → ¬ DTest lam n m al

theorem dTest_mono (lam al : ℝ) (h0 : 0 < lam) (h1 : lam < 1) (hL : 0 ≤ Real.log (1 / al)) (n : ℕ) {m m' : ℕ}
    (hm : m ≤ m') (h : DTest lam n m al) : DTest lam n m' al := by
  unfold DTest at *
  exact lt_of_le_of_lt (thr_antitone lam _ h0 h1 hL n hm) h

theorem isFirstD_of (lam al : ℝ) (h0 : 0 < lam) (h1 : lam < 1) (hL : 0 ≤ Real.log (1 / al)) (n j : ℕ)
    (hD : DTest lam n (j + 1) al) (hN : ¬ DTest lam n j al) : IsFirstD lam n al (j + 1) :=
  ⟨by omega, hD, fun _ _ hm h => hN (dTest_mono lam al h0 h1 hL n (by omega) h)⟩

/-- with a fresh second sample (`m = 0`: EWMA `0`, ibc `1`) the decrease test is silent for `ln(1/α) ≥ 2` -/
theorem dTest_zero (lam al : ℝ) (h0 : 0 < lam) (h1 : lam < 1) (hL : 2 ≤ Real.log (1 / al)) (n : ℕ) :
    ¬ DTest lam n 0 al := by
  have hr0 : 0 < 1 - lam := by linarith
  have hρ : 0 < (1 - lam) ^ n := by positivity
  unfold DTest
  rw [not_lt, wibc_zero]
  have : (1 : ℝ) ≤ Real.sqrt ((wibc lam n + 1) * Real.log (1 / al) / 2) := by
    rw [Real.le_sqrt' (by norm_num)]
    have := wibc_nonneg lam n
    nlinarith
  linarith

/-- first maximiser of `dnW = ewma - ε_λ` along `1^n 0^m`: the end of the ones (`dnW` increases strictly during the
ones; afterwards it stays below its value at `n` by the cut hypothesis, needed only for the `m` zeros present) -/
theorem drop_argmax (lam : ℝ) (h0 : 0 < lam) (h1 : lam < 1) (n m : ℕ) (hn : 1 ≤ n)
    (hcut : ∀ i, 1 ≤ i → i ≤ m → Real.sqrt (wibc lam n * Real.log (1 / lam) / 2) ≤
      (1 - (1 - lam) ^ n) * (1 - (1 - lam) ^ i) + Real.sqrt (wibc lam (n + i) * Real.log (1 / lam) / 2)) :
    IsFirstArgmax (dnW lam (dropStream n m)) (n + m) n := by
  have hL := log_inv_pos lam h0 h1
  have hanti := wibc_strictAnti lam h0 h1
  have hr : 0 ≤ 1 - lam := by linarith
  have hr1 : 1 - lam ≤ 1 := by linarith
  have hz : ∀ j, j ≤ n → dnW lam (dropStream n m) j =
      (1 - (1 - lam) ^ j) - Real.sqrt (wibc lam j * Real.log (1 / lam) / 2) := by
    intro j hj
    rw [dnW_drop, show j - n = 0 by omega, Nat.zero_min, Nat.min_eq_left hj]; simp
  have key : ∀ j, j < n → dnW lam (dropStream n m) j < dnW lam (dropStream n m) n := by
    intro j hj
    rw [hz j hj.le, hz n (le_refl _)]
    have h1' : (1 - lam) ^ n ≤ (1 - lam) ^ j := pow_le_pow_of_le_one hr hr1 hj.le
    have h2' : Real.sqrt (wibc lam n * Real.log (1 / lam) / 2) <
        Real.sqrt (wibc lam j * Real.log (1 / lam) / 2) := by
      apply Real.sqrt_lt_sqrt
      · have := wibc_nonneg lam n; positivity
      · have := hanti hj
        have : wibc lam n * Real.log (1 / lam) < wibc lam j * Real.log (1 / lam) :=
          mul_lt_mul_of_pos_right this hL
        linarith
    linarith
  refine ⟨hn, by omega, fun j _ hj2 => ?_, fun j _ hj2 => key j hj2⟩
  rcases Nat.lt_trichotomy j n with h | h | h
  · exact (key j h).le
  · rw [h]
  · rw [hz n (le_refl _), dnW_drop, Nat.min_eq_left (show j - n ≤ m by omega), Nat.min_eq_right h.le]
    have hc := hcut (j - n) (by omega) (by omega)
    rw [show n + (j - n) = j by omega] at hc
    nlinarith

/-- the decrease test across the cut `n` of `1^n 0^m` is `DTest` -/
theorem mcdDec_drop (lam : ℝ) (n m : ℕ) (al : ℝ) :
    mcdDec lam (dropStream n m) n al ↔ DTest lam n m al := by
  have hd : (dropStream n m).drop n = List.replicate m 0 := by
    rw [dropStream]; exact List.drop_left' (by simp)
  have ht : (dropStream n m).take n = List.replicate n 1 := by
    rw [take_dropStream]; simp [dropStream]
  rw [mcdDec, mcdThr, dropStream_length, hd, ht, wmean_ones, wmean_zeros, Nat.add_sub_cancel_left, sub_zero, DTest]

/-- **the increase test is silent on `1^n 0^m` wherever the increase cut `k` is**, for `ln(1/α) ≥ 2`:
the apparent "increase" seen by the zero-initialised statistics is at most `ρ^k - ρ^(n+m-k)` (`thr_ge_gap`). -/
theorem mcdInc_drop_silent (lam : ℝ) (h0 : 0 < lam) (h1 : lam < 1) (n m k : ℕ) (hk : k ≤ n + m) (al : ℝ)
    (hL : 2 ≤ Real.log (1 / al)) : ¬ mcdInc lam (dropStream n m) k al := by
  have hr0 : 0 < 1 - lam := by linarith
  have hgap := thr_ge_gap lam _ h0 h1 hL k (n + m - k)
  rw [mcdInc, mcdThr, dropStream_length, take_dropStream, drop_dropStream, wmean_drop, wmean_drop, not_lt]
  rcases Nat.le_total k n with h | h
  · refine le_trans ?_ hgap
    rw [show k - n = 0 by omega, Nat.zero_min, Nat.min_eq_left h, Nat.sub_zero, pow_zero, one_mul,
      show n + m - k = m + (n - k) by omega, pow_add]
    have hm1 : (1 - lam) ^ m ≤ 1 := pow_le_one₀ hr0.le (by linarith)
    have : 0 < (1 - lam) ^ (n - k) := by positivity
    nlinarith
  · refine le_trans ?_ (Real.sqrt_nonneg _)
    rw [show n - k = 0 by omega, pow_zero, sub_self, mul_zero, Nat.min_eq_right h]
    have hkn : 0 < (1 - lam) ^ (min (k - n) m) := by positivity
    have hn1 : (1 - lam) ^ n ≤ 1 := pow_le_one₀ hr0.le (by linarith)
    nlinarith

end Drop

/-! ## 3. run-level drop theorems (ℝ) -/
section DropRun

/-- one more `1` on a so-far quiet all-ones stream is silent in BOTH modes when `ln(1/alpha_d) ≥ 2`: the increase test
by `mcdInc_drop_silent`, the decrease test because its cut is the current point (fresh `dec2`: EWMA `0`, ibc `1`) -/
theorem ones_step_quiet (c : HDDMW.Cfg ℝ) (hL : 2 ≤ Real.log (1 / c.alphaD)) (hd0 : 0 < c.alphaD)
    (hd1 : c.alphaD ≤ 1) (hw0 : 0 < c.alphaW) (hw1 : c.alphaW ≤ 1) (hl0 : 0 < c.lam) (hl1 : c.lam < 1) (t : ℕ)
    (hq : Quiet c (dropStream t 0)) : (wRun c (HDDMW.init c) (dropStream (t + 1) 0)).drift = false := by
  obtain ⟨ki, hki⟩ := exists_isFirstArgmin (upW c.lam (dropStream (t + 1) 0)) (t + 1 + 0) (by omega)
  have hargd := drop_argmax c.lam hl0 hl1 (t + 1) 0 (by omega) (fun i h1 h2 => by omega)
  have h := quiet_drift_iff c hd0 hd1 hw0 hw1 (dropStream t 0) 1 hq ki (t + 1)
    (by rw [← dropStream_succ_ones, dropStream_length]; exact hki)
    (fun _ => by rw [← dropStream_succ_ones, dropStream_length]; exact hargd)
  rw [← dropStream_succ_ones] at h
  rw [← Bool.not_eq_true, h]
  rintro ⟨-, h' | ⟨-, h'⟩⟩
  · exact mcdInc_drop_silent c.lam hl0 hl1 (t + 1) 0 ki hki.2.1 _ hL h'
  · exact dTest_zero c.lam _ hl0 hl1 hL (t + 1) ((mcdDec_drop c.lam (t + 1) 0 _).mp h')

/-- ones phase: no drift while only ones have been seen (both modes, `ln(1/alpha_d) ≥ 2`) -/
theorem quiet_ones (c : HDDMW.Cfg ℝ) (hL : 2 ≤ Real.log (1 / c.alphaD)) (hd0 : 0 < c.alphaD)
    (hd1 : c.alphaD ≤ 1) (hw0 : 0 < c.alphaW) (hw1 : c.alphaW ≤ 1) (hl0 : 0 < c.lam) (hl1 : c.lam < 1) (t : ℕ) :
    Quiet c (dropStream t 0) := by
  induction t with
  | zero => simpa [dropStream] using quiet_nil c
  | succ t ih =>
    rw [dropStream_succ_ones]
    refine quiet_append c _ 1 ih ?_
    rw [← dropStream_succ_ones]
    exact ones_step_quiet c hL hd0 hd1 hw0 hw1 hl0 hl1 t ih

/-- zeros phase, any mode: on a so-far quiet `1^n 0^m` the next `0` reports drift iff the warm-up is over, the
detector is TWO-SIDED and the decrease test `DTest` fires at zeros-step `m + 1` -/
theorem drop_step_iff (c : HDDMW.Cfg ℝ) (hL : 2 ≤ Real.log (1 / c.alphaD)) (hd0 : 0 < c.alphaD)
    (hd1 : c.alphaD ≤ 1) (hw0 : 0 < c.alphaW) (hw1 : c.alphaW ≤ 1) (hl0 : 0 < c.lam) (hl1 : c.lam < 1) (n m : ℕ)
    (hn : 1 ≤ n) (hcut : DropCutStays c.lam n) (hq : Quiet c (dropStream n m)) :
    (wRun c (HDDMW.init c) (dropStream n (m + 1))).drift = true ↔
      c.minN ≤ n + m + 1 ∧ c.twoSided = true ∧ DTest c.lam n (m + 1) c.alphaD := by
  obtain ⟨ki, hki⟩ := exists_isFirstArgmin (upW c.lam (dropStream n (m + 1))) (n + (m + 1)) (by omega)
  have hargd := drop_argmax c.lam hl0 hl1 n (m + 1) hn (fun i h1 _ => hcut i h1)
  have h := quiet_drift_iff c hd0 hd1 hw0 hw1 (dropStream n m) 0 hq ki n
    (by rw [← dropStream_succ, dropStream_length]; exact hki)
    (fun _ => by rw [← dropStream_succ, dropStream_length]; exact hargd)
  rw [← dropStream_succ, dropStream_length, mcdDec_drop] at h
  rw [h]
  refine and_congr_right (fun _ => ⟨?_, Or.inr⟩)
  rintro (h' | h')
  · exact absurd h' (mcdInc_drop_silent c.lam hl0 hl1 n (m + 1) ki hki.2.1 _ hL)
  · exact h'

/-- **C04d.D1 (ℝ) `hddmw_drop_delay`: exact first drift of the TWO-SIDED HDDM-W on the drop `1^n 0^k`.**
Hypotheses: two-sided; strict drift level `ln(1/alpha_d) ≥ 2` (`alpha_d ≤ e⁻² ≈ 0.135`, e.g. the default `0.001`; it keeps the
detector silent during the ones and the increase test silent throughout — for weaker levels the drift comes EARLIER,
inside the ones, `C04c.hddmw_drop_not_mirror_witness`); accepted ranges `0 < alpha_d ≤ 1`, `0 < alpha_w ≤ 1`, `0 < λ < 1`;
`n ≥ 1` ones; the decrease cut stays at the end of the ones (`DropCutStays`, explicit; `dropCutStays_of_le`); `jd` is
the first zeros-step with `1 - ρ^n > √((ibc(n) + ibc(m))·ln(1/alpha_d)/2)`; warm-up over by then
(`min_num_instances ≤ n + jd`).  Then on `1^n 0^k` (`k ≥ jd`) no drift is reported after any of the first `n + jd - 1`
values and drift is reported after value number `n + jd`. -/
theorem hddmw_drop_delay (c : HDDMW.Cfg ℝ) (hts : c.twoSided = true) (hL : 2 ≤ Real.log (1 / c.alphaD))
    (hd0 : 0 < c.alphaD) (hd1 : c.alphaD ≤ 1) (hw0 : 0 < c.alphaW) (hw1 : c.alphaW ≤ 1) (hl0 : 0 < c.lam)
    (hl1 : c.lam < 1) (n : ℕ) (hn : 1 ≤ n) (hcut : DropCutStays c.lam n) (jd : ℕ)
    (hjd : IsFirstD c.lam n c.alphaD jd) (hmin : c.minN ≤ n + jd) (k : ℕ) (hk : jd ≤ k) :
    (∀ t, t < n + jd → (wRun c (HDDMW.init c) ((dropStream n k).take t)).drift = false) ∧
    (wRun c (HDDMW.init c) ((dropStream n k).take (n + jd))).drift = true := by
  obtain ⟨hj1, hfire, hfirst⟩ := hjd
  have hq : ∀ m, m < jd → Quiet c (dropStream n m) := by
    intro m
    induction m with
    | zero => intro _; exact quiet_ones c hL hd0 hd1 hw0 hw1 hl0 hl1 n
    | succ m ih =>
      intro hm
      have hqm := ih (by omega)
      rw [dropStream_succ]
      refine quiet_append c _ 0 hqm ?_
      rw [← dropStream_succ, ← Bool.not_eq_true,
        drop_step_iff c hL hd0 hd1 hw0 hw1 hl0 hl1 n m hn hcut hqm]
      rintro ⟨-, -, h⟩
      exact hfirst (m + 1) (by omega) hm h
  refine ⟨fun t ht => ?_, ?_⟩
  · rw [take_dropStream]
    rcases Nat.lt_or_ge t n with h | h
    · rw [Nat.min_eq_left h.le, show t - n = 0 by omega, Nat.zero_min]
      exact quiet_ones c hL hd0 hd1 hw0 hw1 hl0 hl1 t _ (List.prefix_refl _)
    · rw [Nat.min_eq_right h, Nat.min_eq_left (by omega)]
      exact hq (t - n) (by omega) _ (List.prefix_refl _)
  · rw [take_dropStream, Nat.min_eq_right (by omega), Nat.add_sub_cancel_left, Nat.min_eq_left hk]
    obtain ⟨j, rfl⟩ : ∃ j, jd = j + 1 := ⟨jd - 1, by omega⟩
    rw [drop_step_iff c hL hd0 hd1 hw0 hw1 hl0 hl1 n j hn hcut (hq j (by omega))]
    exact ⟨by omega, hts, hfire⟩

/-- one update of the ONE-SIDED detector inside a drop stream is silent -/
theorem one_sided_step_quiet (c : HDDMW.Cfg ℝ) (hts : c.twoSided = false) (hL : 2 ≤ Real.log (1 / c.alphaD))
    (hd0 : 0 < c.alphaD) (hd1 : c.alphaD ≤ 1) (hw0 : 0 < c.alphaW) (hw1 : c.alphaW ≤ 1) (hl0 : 0 < c.lam)
    (hl1 : c.lam < 1) (n m : ℕ) (xs : List ℝ) (v : ℝ) (hx : xs ++ [v] = dropStream n m) (hq : Quiet c xs) :
    (wRun c (HDDMW.init c) (xs ++ [v])).drift = false := by
  obtain ⟨ki, hki⟩ := exists_isFirstArgmin (upW c.lam (xs ++ [v])) (xs ++ [v]).length (by simp)
  have h := quiet_drift_iff c hd0 hd1 hw0 hw1 xs v hq ki 0 hki (fun h => by rw [hts] at h; cases h)
  rw [← Bool.not_eq_true, h]
  rintro ⟨-, h' | ⟨h', -⟩⟩
  · rw [hx] at h' hki
    rw [dropStream_length] at hki
    exact mcdInc_drop_silent c.lam hl0 hl1 n m ki hki.2.1 _ hL h'
  · rw [hts] at h'; cases h'

/-- **C04d.D2 (ℝ) `hddmw_drop_one_sided_never`: the ONE-SIDED HDDM-W never flags a drop `1^n 0^k`** — no drift after
any prefix, for every `n`, `k` — provided `ln(1/alpha_d) ≥ 2` (`alpha_d ≤ e⁻²`; accepted ranges otherwise).  So in the model
the answer to "is a drop never flagged by the one-sided detector?" is YES for strict levels.  The level hypothesis
cannot be dropped: `one_sided_weak_level_witness` below is an accepted configuration whose one-sided detector
reports a drift after the third value of every `1^n 0^k`, `n ≥ 3` — an artefact of the zero-initialised EWMAs
(a run of ones looks like a rise from `0`), not a detection of the drop. -/
theorem hddmw_drop_one_sided_never (c : HDDMW.Cfg ℝ) (hts : c.twoSided = false)
    (hL : 2 ≤ Real.log (1 / c.alphaD)) (hd0 : 0 < c.alphaD) (hd1 : c.alphaD ≤ 1) (hw0 : 0 < c.alphaW)
    (hw1 : c.alphaW ≤ 1) (hl0 : 0 < c.lam) (hl1 : c.lam < 1) (n k t : ℕ) :
    (wRun c (HDDMW.init c) ((dropStream n k).take t)).drift = false := by
  have hq : ∀ m, Quiet c (dropStream n m) := by
    intro m
    induction m with
    | zero => exact quiet_ones c hL hd0 hd1 hw0 hw1 hl0 hl1 n
    | succ m ih =>
      rw [dropStream_succ]
      exact quiet_append c _ 0 ih
        (one_sided_step_quiet c hts hL hd0 hd1 hw0 hw1 hl0 hl1 n (m + 1) _ 0 (dropStream_succ n m).symm ih)
  exact hq k _ (List.take_prefix t _)

end DropRun

/-! ## 3b. when the drop is flagged, "n large enough", and the asymmetry with the rise as a theorem -/
section Asym

/-- **C04d.D4** the first firing zeros-step exists iff `(ibc(n) + λ/(2-λ))·ln(1/alpha)/2 < (1 - (1-λ)^n)²`
(compare `C04c.exists_isFirstW_iff`, whose right-hand side is `1`: the zero-initialised reference EWMA has only
reached `1 - (1-λ)^n`).  `n ≥ 1`: with no ones there is no drop. -/
theorem exists_isFirstD_iff (lam al : ℝ) (h0 : 0 < lam) (h1 : lam < 1) (ha0 : 0 < al) (ha1 : al ≤ 1) (n : ℕ)
    (hn : 1 ≤ n) :
    (∃ jd, IsFirstD lam n al jd) ↔
      (wibc lam n + wstar lam) * Real.log (1 / al) / 2 < (1 - (1 - lam) ^ n) ^ 2 := by
  have hL : 0 ≤ Real.log (1 / al) := Real.log_nonneg (by rw [le_div_iff₀ ha0]; linarith)
  have hr0 : 0 < 1 - lam := by linarith
  have hg : 0 < 1 - (1 - lam) ^ n := sub_pos.mpr (pow_lt_one₀ hr0.le (by linarith) (by omega))
  obtain ⟨hw0, hw1⟩ := wstar_bounds lam h0 h1
  constructor
  · rintro ⟨jd, -, hD, -⟩
    unfold DTest at hD
    rw [Real.sqrt_lt' hg] at hD
    have := wibc_gt_wstar lam h0 h1 jd
    have : (wibc lam n + wstar lam) * Real.log (1 / al) ≤ (wibc lam n + wibc lam jd) * Real.log (1 / al) :=
      mul_le_mul_of_nonneg_right (by linarith) hL
    linarith
  · intro hc
    set L := Real.log (1 / al) with hLdef
    set gap := (1 - (1 - lam) ^ n) ^ 2 - (wibc lam n + wstar lam) * L / 2 with hgap
    have hgap0 : 0 < gap := by rw [hgap]; linarith
    have hq0 : 0 ≤ (1 - lam) ^ 2 := by positivity
    have hq1 : (1 - lam) ^ 2 < 1 := by nlinarith
    obtain ⟨m0, hm0⟩ := exists_pow_lt_of_lt_one (show 0 < gap / (L / 2 + 1) by positivity) hq1
    have hex : ∃ m, 1 ≤ m ∧ DTest lam n m al := by
      refine ⟨m0 + 1, by omega, ?_⟩
      unfold DTest
      rw [Real.sqrt_lt' hg, wibc_closed lam (by linarith) (m0 + 1)]
      set Q := ((1 - lam) ^ 2) ^ (m0 + 1) with hQ
      have hQ0 : 0 ≤ Q := by positivity
      have hQle : Q ≤ ((1 - lam) ^ 2) ^ m0 := by
        rw [hQ, pow_succ]
        have : 0 ≤ ((1 - lam) ^ 2) ^ m0 := by positivity
        nlinarith
      have hQlt : Q * (L / 2 + 1) < gap := by
        have := lt_of_le_of_lt hQle hm0
        rwa [lt_div_iff₀ (by positivity)] at this
      have h2 : (1 - wstar lam) * Q * (L / 2) ≤ Q * (L / 2 + 1) := by
        have : 0 ≤ Q * (L / 2) := by positivity
        nlinarith
      rw [← hLdef]
      have e : (wibc lam n + (wstar lam + (1 - wstar lam) * Q)) * L / 2 =
          (wibc lam n + wstar lam) * L / 2 + (1 - wstar lam) * Q * (L / 2) := by ring
      rw [e]; linarith
    classical
    exact ⟨Nat.find hex, (Nat.find_spec hex).1, (Nat.find_spec hex).2,
      fun m hm1 hm hD => Nat.find_min hex hm ⟨hm1, hD⟩⟩

/-- **C04d.D5 "n large enough"**: if `λ/(2-λ)·ln(1/alpha) < 1` (defaults: `0.0256·6.91 ≈ 0.18`), then for ALL sufficiently
long ones-blocks the hypotheses of `hddmw_drop_delay` other than the ranges hold: the cut stays and the first firing
step exists.  (The condition is also necessary for the existence of `jd` for any `n`, by `exists_isFirstD_iff` and
`ibc(n) > λ/(2-λ)`.) -/
theorem drop_conditions_eventually (lam al : ℝ) (h0 : 0 < lam) (h1 : lam < 1) (ha0 : 0 < al) (ha1 : al ≤ 1)
    (hlim : wstar lam * Real.log (1 / al) < 1) :
    ∃ N, ∀ n, N ≤ n → 1 ≤ n ∧ DropCutStays lam n ∧ ∃ jd, IsFirstD lam n al jd := by
  have hLl := log_inv_pos lam h0 h1
  obtain ⟨hw0, hw1⟩ := wstar_bounds lam h0 h1
  have hρ : Filter.Tendsto (fun n : ℕ => (1 - lam) ^ n) Filter.atTop (nhds 0) :=
    tendsto_pow_atTop_nhds_zero_of_lt_one (by linarith) (by linarith)
  have hq : Filter.Tendsto (fun n : ℕ => ((1 - lam) ^ 2) ^ n) Filter.atTop (nhds 0) :=
    tendsto_pow_atTop_nhds_zero_of_lt_one (by positivity) (by nlinarith)
  have hC0 : 0 < Real.sqrt (wstar lam * Real.log (1 / lam) / 2) := Real.sqrt_pos.mpr (by positivity)
  have e1 : ∀ᶠ n : ℕ in Filter.atTop, Real.log (1 / lam) / 2 * (1 - wstar lam) * ((1 - lam) ^ 2) ^ n <
      (1 - (1 - lam) ^ n) * Real.sqrt (wstar lam * Real.log (1 / lam) / 2) := by
    have hf := hq.const_mul (Real.log (1 / lam) / 2 * (1 - wstar lam))
    have hg := (hρ.const_sub 1).mul_const (Real.sqrt (wstar lam * Real.log (1 / lam) / 2))
    exact hf.eventually_lt hg (by simpa using hC0)
  have e2 : ∀ᶠ n : ℕ in Filter.atTop, (wibc lam n + wstar lam) * Real.log (1 / al) / 2 <
      (1 - (1 - lam) ^ n) ^ 2 := by
    have hf := ((((hq.const_mul (1 - wstar lam)).const_add (wstar lam)).add_const (wstar lam)).mul_const
      (Real.log (1 / al))).div_const 2
    have hg := (hρ.const_sub 1).pow 2
    have := hf.eventually_lt hg (by
      rw [show (wstar lam + (1 - wstar lam) * 0 + wstar lam) * Real.log (1 / al) / 2 =
        wstar lam * Real.log (1 / al) by ring, show ((1 : ℝ) - 0) ^ 2 = 1 by norm_num]
      exact hlim)
    filter_upwards [this] with n hn
    rwa [wibc_closed lam (by linarith) n]
  obtain ⟨N, hN⟩ := Filter.eventually_atTop.mp (e1.and (e2.and (Filter.eventually_ge_atTop 1)))
  refine ⟨N, fun n hn => ?_⟩
  obtain ⟨a1, a2, a3⟩ := hN n hn
  exact ⟨a3, dropCutStays_of_le lam h0 h1 n a1.le, (exists_isFirstD_iff lam al h0 h1 ha0 ha1 n a3).mpr a2⟩

/-- **C04d.D6 (ℝ) `hddmw_drop_exists`: a sustained drop IS flagged by the two-sided detector** (positive drop theorem,
existence form analogous to `C04c.hddmw_rise_exists`, but with the exact position): strict level `ln(1/alpha_d) ≥ 2`,
accepted ranges, `λ/(2-λ)·ln(1/alpha_d) < 1`.  Then there is `N` such that for every `n ≥ max N min_num_instances` ones there
is a zeros-step `jd ≥ 1` with: no drift after any of the first `n + jd - 1` values of `1^n 0^k` (`k ≥ jd`), drift
after value `n + jd`. -/
theorem hddmw_drop_exists (c : HDDMW.Cfg ℝ) (hts : c.twoSided = true) (hL : 2 ≤ Real.log (1 / c.alphaD))
    (hd0 : 0 < c.alphaD) (hd1 : c.alphaD ≤ 1) (hw0 : 0 < c.alphaW) (hw1 : c.alphaW ≤ 1) (hl0 : 0 < c.lam)
    (hl1 : c.lam < 1) (hlim : wstar c.lam * Real.log (1 / c.alphaD) < 1) :
    ∃ N, ∀ n, N ≤ n → c.minN ≤ n → ∃ jd, 1 ≤ jd ∧ ∀ k, jd ≤ k →
      (∀ t, t < n + jd → (wRun c (HDDMW.init c) ((dropStream n k).take t)).drift = false) ∧
      (wRun c (HDDMW.init c) ((dropStream n k).take (n + jd))).drift = true := by
  obtain ⟨N, hN⟩ := drop_conditions_eventually c.lam c.alphaD hl0 hl1 hd0 hd1 hlim
  refine ⟨N, fun n hn hmin => ?_⟩
  obtain ⟨hn1, hcut, jd, hjd⟩ := hN n hn
  exact ⟨jd, hjd.1, fun k hk =>
    hddmw_drop_delay c hts hL hd0 hd1 hw0 hw1 hl0 hl1 n hn1 hcut jd hjd (by omega) k hk⟩

/-- the two tests differ only in the gap: `1 - ρ^m` (rise: the restarted sample has to climb from `0`) against the
constant `1 - ρ^n` (drop: the reference EWMA climbed from `0` for `n` steps, the restarted sample is at `0` at once) -/
theorem wTest_dTest (lam al : ℝ) (h0 : 0 < lam) (h1 : lam < 1) (n m : ℕ) :
    (m ≤ n → WTest lam n m al → DTest lam n m al) ∧ (n ≤ m → DTest lam n m al → WTest lam n m al) := by
  have hr : 0 ≤ 1 - lam := by linarith
  have hr1 : 1 - lam ≤ 1 := by linarith
  unfold WTest DTest
  constructor
  · intro hm h
    have : (1 - lam) ^ n ≤ (1 - lam) ^ m := pow_le_pow_of_le_one hr hr1 hm
    linarith
  · intro hm h
    have : (1 - lam) ^ m ≤ (1 - lam) ^ n := pow_le_pow_of_le_one hr hr1 hm
    linarith

/-- **C04d.A2 — the asymmetry KF-C04-1 as a theorem about the zero-initialised statistics.**  For the same `λ`, `alpha`,
block length `n ≥ 1`, let `js` be the rise delay on `0^n 1^k` (`IsFirstW`) and `jd` the drop delay on `1^n 0^k`
(`IsFirstD`).  Then: if either delay is at most `n`, the DROP is flagged no later than the rise (`jd ≤ js`); if the
rise delay exceeds `n` or the drop delay is at least `n`, the RISE is flagged no later (`js ≤ jd`).  With the defaults `js = 27 ≤ 30`, so `jd ≤ 27`
(`jd = 25`, `hddmw_default_asymmetry`). -/
theorem hddmw_drop_vs_rise (lam al : ℝ) (h0 : 0 < lam) (h1 : lam < 1) (hL : 0 ≤ Real.log (1 / al)) (n js jd : ℕ)
    (hn : 1 ≤ n) (hjs : IsFirstW lam n al js) (hjd : IsFirstD lam n al jd) :
    ((js ≤ n ∨ jd ≤ n) → jd ≤ js) ∧ ((n < js ∨ n ≤ jd) → js ≤ jd) := by
  obtain ⟨hs1, hsW, hsF⟩ := hjs
  obtain ⟨hd1, hdD, hdF⟩ := hjd
  have hWD := fun m => wTest_dTest lam al h0 h1 n m
  constructor
  · intro h
    by_contra hc
    rw [not_le] at hc
    have hle : js ≤ n := by rcases h with h | h <;> omega
    exact hdF js hs1 hc ((hWD js).1 hle hsW)
  · intro h
    by_contra hc
    rw [not_le] at hc
    rcases Nat.lt_or_ge jd n with hlt | hge
    · have hnjs : n < js := by rcases h with h | h <;> omega
      have hDn : DTest lam n n al := dTest_mono lam al h0 h1 hL n hlt.le hdD
      exact hsF n hn hnjs ((hWD n).2 (le_refl _) hDn)
    · exact hsF jd hd1 hc ((hWD jd).2 hge hdD)

end Asym

/-! ## 3c. the level hypothesis of the one-sided "never" theorem cannot be dropped (witness) -/
section Weak

theorem upW_ones (lam : ℝ) (t j : ℕ) :
    upW lam (List.replicate t 1) j =
      (1 - (1 - lam) ^ (min j t)) + Real.sqrt (wibc lam j * Real.log (1 / lam) / 2) := by
  rw [upW, List.take_replicate, wmean_ones]

theorem mcdInc_ones (lam al : ℝ) (t k : ℕ) (hk : k ≤ t) :
    mcdInc lam (List.replicate t 1) k al ↔ mcdThr lam t k al < (1 - lam) ^ k - (1 - lam) ^ (t - k) := by
  rw [mcdInc, List.length_replicate, List.take_replicate, List.drop_replicate, wmean_ones, wmean_ones,
    Nat.min_eq_left hk]
  constructor <;> intro h <;> linarith

/-- on an all-ones stream the increase cut stays on the FIRST value when
`ln(1/λ)/2·(1-w*)·(1-λ)² ≤ (1-λ)·√(w*·ln(1/λ)/2)` -/
theorem ones_argmin_one (lam : ℝ) (h0 : 0 < lam) (h1 : lam < 1) (t : ℕ) (ht : 1 ≤ t)
    (hcond : Real.log (1 / lam) / 2 * (1 - wstar lam) * ((1 - lam) ^ 2) ^ 1 ≤
      (1 - lam) * Real.sqrt (wstar lam * Real.log (1 / lam) / 2)) :
    IsFirstArgmin (upW lam (List.replicate t 1)) t 1 := by
  refine ⟨le_refl _, ht, fun j hj1 hj2 => ?_, fun j hj1 hj2 => by omega⟩
  obtain ⟨i, rfl⟩ : ∃ i, j = i + 1 := ⟨j - 1, by omega⟩
  rw [upW_ones, upW_ones, Nat.min_eq_left ht, Nat.min_eq_left hj2]
  have h := eps_le_of_le lam (1 - lam) h0 h1 (by linarith) 1 hcond i
  rw [Nat.add_comm 1 i] at h
  have e : (1 - lam) * (1 - (1 - lam) ^ i) = (1 - lam) ^ 1 - (1 - lam) ^ (i + 1) := by ring
  rw [e] at h
  linarith

/-- accepted configuration (`0 < alpha_d = e^{-1/8} < alpha_w = 1`, `λ = 1/2`, `min_num_instances = 1`), ONE-sided -/
noncomputable def cWeak : HDDMW.Cfg ℝ := ⟨Real.exp (-(1 / 8)), 1, false, 1 / 2, 1⟩

theorem cWeak_ok : 0 < cWeak.alphaD ∧ cWeak.alphaD ≤ 1 ∧ cWeak.alphaD < cWeak.alphaW ∧ 0 < cWeak.alphaW ∧
    cWeak.alphaW ≤ 1 ∧ 0 < cWeak.lam ∧ cWeak.lam ≤ 1 ∧ 1 ≤ cWeak.minN ∧ cWeak.twoSided = false := by
  refine ⟨Real.exp_pos _, ?_, ?_, one_pos, le_refl _, by norm_num [cWeak], by norm_num [cWeak], le_refl _, rfl⟩
  · show Real.exp (-(1 / 8)) ≤ 1
    rw [Real.exp_le_one_iff]; norm_num
  · show Real.exp (-(1 / 8)) < 1
    rw [Real.exp_lt_one_iff]; norm_num

/-- **C04d.D2w `one_sided_weak_level_witness`**: for the accepted one-sided configuration `cWeak` (weak drift level
`ln(1/alpha_d) = 1/8 < 2`) a drift IS reported after the third value of every `1^n 0^k`, `n ≥ 3`: the increase cut stays on
the first `1`, and the restarted sample (EWMA `0 → 1/2 → 3/4`) "rises" against the first one (EWMA `1/2`):
`3/4 - 1/2 > √((ibc(1)+ibc(2))·(1/8)/2) = √(7/128)`.  So `hddmw_drop_one_sided_never` needs its level hypothesis;
the flag is an artefact of the zero initialisation inside the ones, not a detection of the drop. -/
theorem one_sided_weak_level_witness (n k : ℕ) (hn : 3 ≤ n) :
    (wRun cWeak (HDDMW.init cWeak) ((dropStream n k).take 3)).drift = true := by
  obtain ⟨hd0, hd1, -, hw0, hw1, -, -, -, hts⟩ := cWeak_ok
  have hl : Real.log (1 / cWeak.alphaD) = 1 / 8 := by simp [cWeak, Real.exp_neg]
  have hlam : cWeak.lam = 1 / 2 := rfl
  have e : (dropStream n k).take 3 = List.replicate 2 1 ++ [1] := by
    rw [take_dropStream, Nat.min_eq_left hn, show 3 - n = 0 by omega, Nat.zero_min]
    simp [dropStream, List.replicate]
  have step : ∀ t, t ≤ 1 → Quiet cWeak (List.replicate t 1) →
      (wRun cWeak (HDDMW.init cWeak) (List.replicate t 1 ++ [1])).drift = false := by
    intro t ht hq
    obtain ⟨ki, hki⟩ := exists_isFirstArgmin (upW cWeak.lam (List.replicate t 1 ++ [1]))
      (List.replicate t (1 : ℝ) ++ [1]).length (by simp)
    have h := quiet_drift_iff cWeak hd0 hd1 hw0 hw1 _ 1 hq ki 0 hki (fun h => by rw [hts] at h; cases h)
    rw [← Bool.not_eq_true, h]
    rintro ⟨-, h' | ⟨h', -⟩⟩
    · rw [← List.replicate_succ'] at h' hki
      rw [List.length_replicate] at hki
      rw [mcdInc_ones _ _ _ _ hki.2.1] at h'
      have h3 := mcdThr_nonneg cWeak.lam (t + 1) ki cWeak.alphaD
      have h4 : (1 - cWeak.lam) ^ ki ≤ (1 - cWeak.lam) ^ (t + 1 - ki) :=
        pow_le_pow_of_le_one (by norm_num [hlam]) (by norm_num [hlam]) (by have := hki.1; omega)
      linarith
    · rw [hts] at h'; cases h'
  have q : ∀ t, t ≤ 2 → Quiet cWeak (List.replicate t 1) := by
    intro t
    induction t with
    | zero => intro _; simpa using quiet_nil cWeak
    | succ t ih =>
      intro ht
      rw [List.replicate_succ']
      exact quiet_append _ _ 1 (ih (by omega)) (step t (by omega) (ih (by omega)))
  have hlog2 : Real.log (1 / (1 / 2 : ℝ)) = Real.log 2 := by norm_num
  have hw : wstar (1 / 2) = 1 / 3 := by norm_num [wstar]
  have hcond : IsFirstArgmin (upW cWeak.lam (List.replicate 2 1 ++ [1])) (List.replicate 2 (1 : ℝ) ++ [1]).length 1 := by
    rw [← List.replicate_succ', List.length_replicate, hlam]
    apply ones_argmin_one _ (by norm_num) (by norm_num) 3 (by norm_num)
    rw [hlog2, hw]
    have h1 := Real.log_two_gt_d9
    have h2 := Real.log_two_lt_d9
    have hS : (0.33 : ℝ) ≤ Real.sqrt (1 / 3 * Real.log 2 / 2) := by
      rw [Real.le_sqrt' (by norm_num)]; norm_num at h1 ⊢; linarith
    generalize Real.sqrt (1 / 3 * Real.log 2 / 2) = S at hS ⊢
    norm_num at h2 hS ⊢
    linarith
  rw [e, quiet_drift_iff cWeak hd0 hd1 hw0 hw1 _ 1 (q 2 (le_refl _)) 1 0 hcond (fun h => by rw [hts] at h; cases h)]
  refine ⟨by simp [cWeak], Or.inl ?_⟩
  have h1 : wibc (1 / 2) 1 = 1 / 2 := by norm_num [wibc]
  have h2 : wibc (1 / 2) 2 = 3 / 8 := by norm_num [wibc, Finset.sum_range_succ]
  rw [← List.replicate_succ', mcdInc_ones _ _ 3 1 (by omega), mcdThr, hl, hlam, show 3 - 1 = 2 from rfl, h1, h2,
    Real.sqrt_lt' (by norm_num)]
  norm_num

end Weak

/-! ## 4. the LIBRARY DEFAULTS `HDDM_W()`: `alpha_d = 0.001`, `alpha_w = 0.005`, `lambda_ = 0.05`, `min_num_instances = 30` -/
section Defaults

/-- the default configuration of `frouros` `HDDM_W` (`two_sided_test` left as a parameter; the library default is
`False`) -/
noncomputable def cDef (ts : Bool) : HDDMW.Cfg ℝ := ⟨1 / 1000, 1 / 200, ts, 1 / 20, 30⟩

/-- certified enclosure of `ln 1000 = 10·ln 2 + ln(125/128)` (true value `6.90775…`), from Mathlib's 9-digit
enclosure of `ln 2` and `1 - 1/x ≤ ln x ≤ x - 1` at `x = 125/128` -/
theorem log_1000_bounds : 6.9 < Real.log 1000 ∧ Real.log 1000 < 6.91 := by
  have e : (1000 : ℝ) = 2 ^ 10 * (125 / 128) := by norm_num
  have h : Real.log 1000 = 10 * Real.log 2 + Real.log (125 / 128) := by
    rw [e, Real.log_mul (by norm_num) (by norm_num), Real.log_pow]; norm_num
  have h1 := Real.log_two_gt_d9
  have h2 := Real.log_two_lt_d9
  have h3 : Real.log (125 / 128) ≤ 125 / 128 - 1 := Real.log_le_sub_one_of_pos (by norm_num)
  have h4 : 1 - (125 / 128 : ℝ)⁻¹ ≤ Real.log (125 / 128) := Real.one_sub_inv_le_log_of_pos (by norm_num)
  norm_num at h1 h2 h3 h4
  constructor <;> linarith

/-- certified enclosure of `ln 20` between `ln 16 = 4·ln 2` and `ln 32 = 5·ln 2` (true value `2.9957…`) -/
theorem log_20_bounds : 2.77 < Real.log 20 ∧ Real.log 20 < 3.47 := by
  have h16 : Real.log 16 = 4 * Real.log 2 := by
    rw [show (16 : ℝ) = 2 ^ 4 by norm_num, Real.log_pow]; norm_num
  have h32 : Real.log 32 = 5 * Real.log 2 := by
    rw [show (32 : ℝ) = 2 ^ 5 by norm_num, Real.log_pow]; norm_num
  have ha : Real.log 16 < Real.log 20 := Real.log_lt_log (by norm_num) (by norm_num)
  have hb : Real.log 20 < Real.log 32 := Real.log_lt_log (by norm_num) (by norm_num)
  have h1 := Real.log_two_gt_d9
  have h2 := Real.log_two_lt_d9
  norm_num at h1 h2
  constructor <;> linarith

theorem log_inv_alphaD : Real.log (1 / (1 / 1000 : ℝ)) = Real.log 1000 := by norm_num
theorem log_inv_lam : Real.log (1 / (1 / 20 : ℝ)) = Real.log 20 := by norm_num

/-- `ibc(k)` at `λ = 1/20`: `1/39 + 38/39·0.9025^k` -/
theorem wibc_def (k : ℕ) : wibc (1 / 20) k = 1 / 39 + 38 / 39 * (361 / 400 : ℝ) ^ k := by
  rw [wibc_closed _ (by norm_num)]; norm_num [wstar]

/-- the strict-level hypothesis of the rise / drop theorems holds at the default `alpha_d` -/
theorem default_level : 2 ≤ Real.log (1 / (1 / 1000 : ℝ)) := by
  rw [log_inv_alphaD]; linarith [log_1000_bounds.1]

/-- **`DropCutStays` (hence `CutStays`) discharged at the defaults** `λ = 0.05`, `n = 30` -/
theorem dropCutStays_default : DropCutStays (1 / 20) 30 := by
  apply dropCutStays_of_le _ (by norm_num) (by norm_num)
  obtain ⟨hl1, hl2⟩ := log_20_bounds
  have hw : wstar (1 / 20) = 1 / 39 := by norm_num [wstar]
  rw [log_inv_lam, hw]
  have hQ : ((1 - 1 / 20 : ℝ) ^ 2) ^ 30 ≤ 0.0461 := by norm_num
  have hQ0 : (0 : ℝ) ≤ ((1 - 1 / 20 : ℝ) ^ 2) ^ 30 := by positivity
  have hR : (1 - 1 / 20 : ℝ) ^ 30 ≤ 0.2147 := by norm_num
  have hS : (0.188 : ℝ) ≤ Real.sqrt (1 / 39 * Real.log 20 / 2) := by
    rw [Real.le_sqrt' (by norm_num)]; norm_num; linarith
  generalize ((1 - 1 / 20 : ℝ) ^ 2) ^ 30 = Q at hQ hQ0 ⊢
  generalize (1 - 1 / 20 : ℝ) ^ 30 = R at hR ⊢
  generalize Real.sqrt (1 / 39 * Real.log 20 / 2) = S at hS ⊢
  have h1 : Real.log 20 / 2 * (1 - 1 / 39) * Q ≤ 3.47 / 2 * (1 - 1 / 39) * 0.0461 :=
    mul_le_mul (by linarith) hQ hQ0 (by norm_num)
  have h2 : (1 - 0.2147) * 0.188 ≤ (1 - R) * S :=
    mul_le_mul (by linarith) hS (by norm_num) (by linarith)
  have h3 : (3.47 / 2 * (1 - 1 / 39) * 0.0461 : ℝ) ≤ (1 - 0.2147) * 0.188 := by norm_num
  linarith

theorem cutStays_default : CutStays (1 / 20) 30 :=
  cutStays_of_dropCutStays _ (by norm_num) (by norm_num) 30 dropCutStays_default

/-- **`js = 27` computed**: at the defaults the rise test first fires at ones-step 27
(`26`: `(1-0.95^26)² ≤ (ibc(30)+ibc(26))·6.9/2`; `27`: `(ibc(30)+ibc(27))·6.91/2 < (1-0.95^27)²`, exact rational
arithmetic on both sides of the certified enclosure of `ln 1000`; monotonicity `wTest_mono` covers steps `1 … 25`) -/
theorem isFirstW_default : IsFirstW (1 / 20) 30 (1 / 1000) 27 := by
  obtain ⟨hlo, hhi⟩ := log_1000_bounds
  apply isFirstW_of _ _ (by norm_num) (by norm_num) (by rw [log_inv_alphaD]; linarith) 30 26
  · unfold WTest
    rw [Real.sqrt_lt' (by norm_num), wibc_def, wibc_def, log_inv_alphaD]
    have hX : (1 / 39 + 38 / 39 * (361 / 400 : ℝ) ^ 30 + (1 / 39 + 38 / 39 * (361 / 400 : ℝ) ^ (26 + 1))) * 6.91 / 2 <
        (1 - (1 - 1 / 20 : ℝ) ^ (26 + 1)) ^ 2 := by norm_num
    have hX0 : (0 : ℝ) ≤ 1 / 39 + 38 / 39 * (361 / 400 : ℝ) ^ 30 + (1 / 39 + 38 / 39 * (361 / 400 : ℝ) ^ (26 + 1)) := by
      positivity
    generalize (1 / 39 + 38 / 39 * (361 / 400 : ℝ) ^ 30 + (1 / 39 + 38 / 39 * (361 / 400 : ℝ) ^ (26 + 1))) = X at hX hX0 ⊢
    have : X * Real.log 1000 ≤ X * 6.91 := mul_le_mul_of_nonneg_left hhi.le hX0
    linarith
  · unfold WTest
    rw [not_lt, Real.le_sqrt' (by norm_num), wibc_def, wibc_def, log_inv_alphaD]
    have hX : (1 - (1 - 1 / 20 : ℝ) ^ 26) ^ 2 ≤
        (1 / 39 + 38 / 39 * (361 / 400 : ℝ) ^ 30 + (1 / 39 + 38 / 39 * (361 / 400 : ℝ) ^ 26)) * 6.9 / 2 := by norm_num
    have hX0 : (0 : ℝ) ≤ 1 / 39 + 38 / 39 * (361 / 400 : ℝ) ^ 30 + (1 / 39 + 38 / 39 * (361 / 400 : ℝ) ^ 26) := by
      positivity
    generalize (1 / 39 + 38 / 39 * (361 / 400 : ℝ) ^ 30 + (1 / 39 + 38 / 39 * (361 / 400 : ℝ) ^ 26)) = X at hX hX0 ⊢
    have : X * 6.9 ≤ X * Real.log 1000 := mul_le_mul_of_nonneg_left hlo.le hX0
    linarith

/-- **`jd = 25` computed**: at the defaults the decrease test on `1^30 0^m` first fires at zeros-step 25 -/
theorem isFirstD_default : IsFirstD (1 / 20) 30 (1 / 1000) 25 := by
  obtain ⟨hlo, hhi⟩ := log_1000_bounds
  apply isFirstD_of _ _ (by norm_num) (by norm_num) (by rw [log_inv_alphaD]; linarith) 30 24
  · unfold DTest
    rw [Real.sqrt_lt' (by norm_num), wibc_def, wibc_def, log_inv_alphaD]
    have hX : (1 / 39 + 38 / 39 * (361 / 400 : ℝ) ^ 30 + (1 / 39 + 38 / 39 * (361 / 400 : ℝ) ^ (24 + 1))) * 6.91 / 2 <
        (1 - (1 - 1 / 20 : ℝ) ^ 30) ^ 2 := by norm_num
    have hX0 : (0 : ℝ) ≤ 1 / 39 + 38 / 39 * (361 / 400 : ℝ) ^ 30 + (1 / 39 + 38 / 39 * (361 / 400 : ℝ) ^ (24 + 1)) := by
      positivity
    generalize (1 / 39 + 38 / 39 * (361 / 400 : ℝ) ^ 30 + (1 / 39 + 38 / 39 * (361 / 400 : ℝ) ^ (24 + 1))) = X at hX hX0 ⊢
    have : X * Real.log 1000 ≤ X * 6.91 := mul_le_mul_of_nonneg_left hhi.le hX0
    linarith
  · unfold DTest
    rw [not_lt, Real.le_sqrt' (by norm_num), wibc_def, wibc_def, log_inv_alphaD]
    have hX : (1 - (1 - 1 / 20 : ℝ) ^ 30) ^ 2 ≤
        (1 / 39 + 38 / 39 * (361 / 400 : ℝ) ^ 30 + (1 / 39 + 38 / 39 * (361 / 400 : ℝ) ^ 24)) * 6.9 / 2 := by norm_num
    have hX0 : (0 : ℝ) ≤ 1 / 39 + 38 / 39 * (361 / 400 : ℝ) ^ 30 + (1 / 39 + 38 / 39 * (361 / 400 : ℝ) ^ 24) := by
      positivity
    generalize (1 / 39 + 38 / 39 * (361 / 400 : ℝ) ^ 30 + (1 / 39 + 38 / 39 * (361 / 400 : ℝ) ^ 24)) = X at hX hX0 ⊢
    have : X * 6.9 ≤ X * Real.log 1000 := mul_le_mul_of_nonneg_left hlo.le hX0
    linarith

/-- **C04d.R1 (ℝ) `hddmw_default_rise`: `HDDM_W()` with the library defaults, one-sided AND two-sided, on `0^30 1^k`
(`k ≥ 27`): no drift is reported after any of the first 56 values and drift is reported after value 57 = 30 + 27.**
No hypothesis is left: `CutStays 0.05 30`, `IsFirstW … 27` and `ln(1/alpha_d) ≥ 2` are discharged above with certified
bounds.  (Agrees with the real library: first drift at value 57 in both modes.) -/
theorem hddmw_default_rise (ts : Bool) (k : ℕ) (hk : 27 ≤ k) :
    (∀ t, t < 57 → (wRun (cDef ts) (HDDMW.init (cDef ts)) ((riseStream 30 k).take t)).drift = false) ∧
    (wRun (cDef ts) (HDDMW.init (cDef ts)) ((riseStream 30 k).take 57)).drift = true :=
  hddmw_rise_delay (cDef ts) (fun _ => default_level) (by norm_num [cDef]) (by norm_num [cDef])
    (by norm_num [cDef]) (by norm_num [cDef]) (by norm_num [cDef]) (by norm_num [cDef]) 30 (by norm_num)
    (le_refl _) cutStays_default 27 isFirstW_default k hk

/-- **C04d.D3 (ℝ) `hddmw_default_drop`: the two-sided `HDDM_W(two_sided_test=True)` with the library defaults on
`1^30 0^k` (`k ≥ 25`): no drift after any of the first 54 values, drift after value 55 = 30 + 25**; the one-sided
default detector reports no drift after any prefix of any `1^n 0^k`. -/
theorem hddmw_default_drop :
    (∀ k, 25 ≤ k →
      (∀ t, t < 55 → (wRun (cDef true) (HDDMW.init (cDef true)) ((dropStream 30 k).take t)).drift = false) ∧
      (wRun (cDef true) (HDDMW.init (cDef true)) ((dropStream 30 k).take 55)).drift = true) ∧
    (∀ n k t, (wRun (cDef false) (HDDMW.init (cDef false)) ((dropStream n k).take t)).drift = false) :=
  ⟨fun k hk => hddmw_drop_delay (cDef true) rfl default_level (by norm_num [cDef]) (by norm_num [cDef])
      (by norm_num [cDef]) (by norm_num [cDef]) (by norm_num [cDef]) (by norm_num [cDef]) 30 (by norm_num)
      dropCutStays_default 25 isFirstD_default (by norm_num [cDef]) k hk,
   fun n k t => hddmw_drop_one_sided_never (cDef false) rfl default_level (by norm_num [cDef]) (by norm_num [cDef])
      (by norm_num [cDef]) (by norm_num [cDef]) (by norm_num [cDef]) (by norm_num [cDef]) n k t⟩

/-- **C04d.A1 (ℝ) KF-C04-1 at the library defaults, as one statement**: the two-sided default detector flags the rise
`0^30 1^30` first at value 57 and the mirrored drop `1^30 0^30` first at value 55. -/
theorem hddmw_default_asymmetry :
    ((∀ t, t < 57 → (wRun (cDef true) (HDDMW.init (cDef true)) ((riseStream 30 30).take t)).drift = false) ∧
      (wRun (cDef true) (HDDMW.init (cDef true)) ((riseStream 30 30).take 57)).drift = true) ∧
    ((∀ t, t < 55 → (wRun (cDef true) (HDDMW.init (cDef true)) ((dropStream 30 30).take t)).drift = false) ∧
      (wRun (cDef true) (HDDMW.init (cDef true)) ((dropStream 30 30).take 55)).drift = true) :=
  ⟨hddmw_default_rise true 30 (by norm_num), hddmw_default_drop.1 30 (by norm_num)⟩

/-! ### non-vacuity of the general theorems: the library defaults satisfy every hypothesis -/

/-- `hddmw_drop_delay`: all hypotheses at once (two-sided defaults, `n = 30`, `jd = 25`) -/
example : ∃ (c : HDDMW.Cfg ℝ) (n jd : ℕ), c.twoSided = true ∧ 2 ≤ Real.log (1 / c.alphaD) ∧ 0 < c.alphaD ∧
    c.alphaD ≤ 1 ∧ c.alphaD < c.alphaW ∧ 0 < c.alphaW ∧ c.alphaW ≤ 1 ∧ 0 < c.lam ∧ c.lam < 1 ∧ 1 ≤ n ∧
    DropCutStays c.lam n ∧ IsFirstD c.lam n c.alphaD jd ∧ c.minN ≤ n + jd :=
  ⟨cDef true, 30, 25, rfl, default_level, by norm_num [cDef], by norm_num [cDef], by norm_num [cDef],
    by norm_num [cDef], by norm_num [cDef], by norm_num [cDef], by norm_num [cDef], by norm_num,
    dropCutStays_default, isFirstD_default, by norm_num [cDef]⟩

/-- `hddmw_rise_delay` (C04c) at the defaults: all hypotheses at once, both modes -/
example (ts : Bool) : ∃ (c : HDDMW.Cfg ℝ) (n js : ℕ), c.twoSided = ts ∧
    (c.twoSided = true → 2 ≤ Real.log (1 / c.alphaD)) ∧ 0 < c.alphaD ∧ c.alphaD ≤ 1 ∧ c.alphaD < c.alphaW ∧
    0 < c.alphaW ∧ c.alphaW ≤ 1 ∧ 0 < c.lam ∧ c.lam < 1 ∧ 1 ≤ n ∧ c.minN ≤ n ∧ CutStays c.lam n ∧
    IsFirstW c.lam n c.alphaD js :=
  ⟨cDef ts, 30, 27, rfl, fun _ => default_level, by norm_num [cDef], by norm_num [cDef], by norm_num [cDef],
    by norm_num [cDef], by norm_num [cDef], by norm_num [cDef], by norm_num [cDef], by norm_num, le_refl _,
    cutStays_default, isFirstW_default⟩

/-- `hddmw_drop_vs_rise` at the defaults: `js = 27 ≤ n = 30`, hence `jd = 25 ≤ 27` -/
example : (25 : ℕ) ≤ 27 :=
  (hddmw_drop_vs_rise (1 / 20) (1 / 1000) (by norm_num) (by norm_num)
    (by rw [log_inv_alphaD]; linarith [log_1000_bounds.1]) 30 27 25 (by norm_num) isFirstW_default
    isFirstD_default).1 (Or.inl (by norm_num))

/-- `hddmw_drop_exists` / `drop_conditions_eventually`: `λ/(2-λ)·ln(1/alpha_d) < 1` at the defaults (`6.91/39`) -/
example : wstar (cDef true).lam * Real.log (1 / (cDef true).alphaD) < 1 := by
  have hw : wstar (cDef true).lam = 1 / 39 := by norm_num [wstar, cDef]
  have ha : (cDef true).alphaD = 1 / 1000 := rfl
  rw [hw, ha, log_inv_alphaD]
  linarith [log_1000_bounds.2]

/-- `hddmw_drop_one_sided_never`: the one-sided default configuration satisfies its hypotheses -/
example : (cDef false).twoSided = false ∧ 2 ≤ Real.log (1 / (cDef false).alphaD) ∧ 0 < (cDef false).lam ∧
    (cDef false).lam < 1 := ⟨rfl, default_level, by norm_num [cDef], by norm_num [cDef]⟩

end Defaults

/-! ## 5. histories with `reset` (ops level) -/
section Ops

/-- the values fed since construction / the last `reset` of a history -/
def valsSince {V : Type} (ops : List (Op V)) : List V :=
  ops.foldl (fun acc op => match op with | .update v => acc ++ [v] | .reset => []) []

@[simp] theorem valsSince_nil {V : Type} : valsSince ([] : List (Op V)) = [] := rfl
@[simp] theorem valsSince_update {V : Type} (ops : List (Op V)) (v : V) :
    valsSince (ops ++ [.update v]) = valsSince ops ++ [v] := by
  simp [valsSince, List.foldl_append]
@[simp] theorem valsSince_reset {V : Type} (ops : List (Op V)) : valsSince (ops ++ [.reset]) = [] := by
  simp [valsSince, List.foldl_append]

/-- `valsSince` is what its name says: the history is `pre` followed by exactly these updates, and `pre` is empty
or ends with a `reset` -/
theorem valsSince_spec {V : Type} (ops : List (Op V)) :
    ∃ pre, ops = pre ++ (valsSince ops).map Op.update ∧ (pre = [] ∨ ∃ p, pre = p ++ [Op.reset]) := by
  induction ops using List.reverseRecOn with
  | nil => exact ⟨[], rfl, Or.inl rfl⟩
  | append_singleton ops op ih =>
    obtain ⟨pre, h1, h2⟩ := ih
    cases op with
    | update v =>
      refine ⟨pre, ?_, h2⟩
      rw [valsSince_update, List.map_append, ← List.append_assoc, ← h1]; rfl
    | reset => exact ⟨ops ++ [Op.reset], by simp, Or.inr ⟨ops, rfl⟩⟩

variable {α : Type} [Num α]

theorem run_snoc {S V : Type} (M : Machine S V) (ops : List (Op V)) (op : Op V) :
    M.run (ops ++ [op]) = M.apply (M.run ops) op := by
  simp [Machine.run, Machine.runFrom, List.foldl_append]

/-- **C04d.O1 (every carrier)**: the state of HDDM-W after ANY history of `update`/`reset` operations is the state of
a fresh detector fed the values since the last `reset` (`reset` restores `init` literally, all fields) -/
theorem hddmw_run_eq_wRun (c : HDDMW.Cfg α) (ops : List (Op α)) :
    (HDDMW.machine c).run ops = wRun c (HDDMW.init c) (valsSince ops) := by
  induction ops using List.reverseRecOn with
  | nil => rfl
  | append_singleton ops op ih =>
    rw [run_snoc, ih]
    cases op with
    | update v => rw [valsSince_update, wRun_append]; rfl
    | reset => rw [valsSince_reset]; rfl

/-- the same for HDDM-A -/
theorem hddma_run_eq_aRun (c : HDDMA.Cfg α) (ops : List (Op α)) :
    (HDDMA.machine c).run ops = aRun c HDDMA.init (valsSince ops) := by
  induction ops using List.reverseRecOn with
  | nil => rfl
  | append_singleton ops op ih =>
    rw [run_snoc, ih]
    cases op with
    | update v => rw [valsSince_update, aRun_append]; rfl
    | reset => rw [valsSince_reset]; rfl

/-- **C04d.O2 (every carrier) — flag table of HDDM-W at ops level**: `C04c.hddmw_flags` for the state after any
history; the warm-up counter is the number of values since the last `reset`. -/
theorem hddmw_flags_ops (c : HDDMW.Cfg α) (ops : List (Op α)) (v : α) :
    let s := (HDDMW.machine c).run ops
    let s' := (HDDMW.machine c).run (ops ++ [.update v])
    let t := HDDMW.updateStats c s.t v
    let di := HDDMW.thr t.inc1 t.inc2 c.alphaD
    let dd := c.twoSided && HDDMW.thr t.dec2 t.dec1 c.alphaD
    let wi := HDDMW.thr t.inc1 t.inc2 c.alphaW
    let wd := c.twoSided && HDDMW.thr t.dec2 t.dec1 c.alphaW
    s.n = (valsSince ops).length ∧
    s'.drift = (decide (c.minN ≤ (valsSince ops).length + 1) && (di || dd)) ∧
    s'.warning = (decide (c.minN ≤ (valsSince ops).length + 1) && !(di || dd) && (wi || wd)) ∧
    ¬ (s'.drift = true ∧ s'.warning = true) ∧
    ((valsSince ops).length + 1 < c.minN → s'.drift = false ∧ s'.warning = false) := by
  intro s s' t di dd wi wd
  have hn : s.n = (valsSince ops).length := by
    show ((HDDMW.machine c).run ops).n = _
    rw [hddmw_run_eq_wRun, wRun_n]; exact Nat.zero_add _
  have hs' : s' = HDDMW.step c s v := run_snoc _ ops _
  obtain ⟨f1, f2, f3, f4, -, -⟩ := hddmw_flags c s v
  rw [hs', ← hn]
  exact ⟨rfl, f1, f2, f3, f4⟩

/-- **C04d.O3 (ℝ) — `hddmw_flags_declarative` for histories with `reset`.**  After any history `ops` followed by
`update v`: with `xs` the values since the last `reset` (`valsSince_spec`), `seg` = the values since the last reported
drift OR reset including `v` (`wsegment c xs ++ [v]`, `C04.hddmw_segment_spec`), `ki` THE first minimiser of `upW λ seg`,
`kd` THE first maximiser of `dnW λ seg` (two-sided only): drift / warning ⇔ the closed-form McDiarmid tests, with the
warm-up counted since the last reset.  Nothing on the right is read from the model state. -/
theorem hddmw_flags_declarative_ops (c : HDDMW.Cfg ℝ) (hd0 : 0 < c.alphaD) (hd1 : c.alphaD ≤ 1)
    (hw0 : 0 < c.alphaW) (hw1 : c.alphaW ≤ 1) (ops : List (Op ℝ)) (v : ℝ) (ki kd : ℕ) :
    let xs := valsSince ops
    let seg := wsegment c xs ++ [v]
    let s := (HDDMW.machine c).run (ops ++ [.update v])
    IsFirstArgmin (upW c.lam seg) seg.length ki →
    (c.twoSided = true → IsFirstArgmax (dnW c.lam seg) seg.length kd) →
    (s.drift = true ↔ c.minN ≤ xs.length + 1 ∧
        (mcdInc c.lam seg ki c.alphaD ∨ (c.twoSided = true ∧ mcdDec c.lam seg kd c.alphaD))) ∧
    (s.warning = true ↔ c.minN ≤ xs.length + 1 ∧
        ¬ (mcdInc c.lam seg ki c.alphaD ∨ (c.twoSided = true ∧ mcdDec c.lam seg kd c.alphaD)) ∧
        (mcdInc c.lam seg ki c.alphaW ∨ (c.twoSided = true ∧ mcdDec c.lam seg kd c.alphaW))) ∧
    ¬ (s.drift = true ∧ s.warning = true) := by
  intro xs seg s hki hkd
  have hs : s = wRun c (HDDMW.init c) (xs ++ [v]) := by
    show (HDDMW.machine c).run (ops ++ [.update v]) = _
    rw [hddmw_run_eq_wRun, valsSince_update]
  rw [hs]
  exact (hddmw_flags_declarative c hd0 hd1 hw0 hw1 xs v ki kd hki hkd).2

/-- **C04d.O4 (ℝ) — `hddma_flags_declarative` for histories with `reset`** (same reading, HDDM-A) -/
theorem hddma_flags_declarative_ops (c : HDDMA.Cfg ℝ) (hd0 : 0 < c.alphaD) (hd1 : c.alphaD ≤ 1)
    (hw0 : 0 < c.alphaW) (hw1 : c.alphaW ≤ 1) (ops : List (Op ℝ)) (v : ℝ) (kx ky : ℕ) :
    let xs := valsSince ops
    let seg := segment c xs ++ [v]
    let s := (HDDMA.machine c).run (ops ++ [.update v])
    IsLastArgmin (fun k => (seg.take k).sum / (k : ℝ) + Real.sqrt (Real.log (1 / c.alphaD) / (2 * (k : ℝ))))
        seg.length kx →
    (c.twoSided = true →
      IsLastArgmax (fun k => (seg.take k).sum / (k : ℝ) - Real.sqrt (Real.log (1 / c.alphaD) / (2 * (k : ℝ))))
        seg.length ky) →
    (s.drift = true ↔ c.minN ≤ xs.length + 1 ∧
        (incT seg kx c.alphaD ∨ (c.twoSided = true ∧ decT seg ky c.alphaD))) ∧
    (s.warning = true ↔ c.minN ≤ xs.length + 1 ∧
        ¬ (incT seg kx c.alphaD ∨ (c.twoSided = true ∧ decT seg ky c.alphaD)) ∧
        (incT seg kx c.alphaW ∨ (c.twoSided = true ∧ decT seg ky c.alphaW))) := by
  intro xs seg s hkx hky
  have hs : s = aRun c HDDMA.init (xs ++ [v]) := by
    show (HDDMA.machine c).run (ops ++ [.update v]) = _
    rw [hddma_run_eq_aRun, valsSince_update]
  rw [hs]
  exact hddma_flags_declarative c hd0 hd1 hw0 hw1 xs v kx ky hkx hky

/-- non-vacuity: a history with a `reset` in the middle; only the values behind it count, and the two cut indices
exist for every history -/
example : valsSince ([.update 1, .update 0, .reset, .update 0, .update 1] : List (Op ℝ)) = [0, 1] := by
  simp [valsSince]
example (c : HDDMW.Cfg ℝ) (ops : List (Op ℝ)) (v : ℝ) :
    ∃ ki kd, IsFirstArgmin (upW c.lam (wsegment c (valsSince ops) ++ [v])) (wsegment c (valsSince ops) ++ [v]).length ki ∧
      IsFirstArgmax (dnW c.lam (wsegment c (valsSince ops) ++ [v])) (wsegment c (valsSince ops) ++ [v]).length kd := by
  obtain ⟨ki, hi⟩ := exists_isFirstArgmin (upW c.lam (wsegment c (valsSince ops) ++ [v]))
    (wsegment c (valsSince ops) ++ [v]).length (by simp)
  obtain ⟨kd, hd⟩ := exists_isFirstArgmax (dnW c.lam (wsegment c (valsSince ops) ++ [v]))
    (wsegment c (valsSince ops) ++ [v]).length (by simp)
  exact ⟨ki, kd, hi, hd⟩

/-- **C04d.O5 (ℝ)** the default-configuration results hold after ANY earlier history that ends with `reset`:
e.g. the rise `0^30 1^k` fed after `pre ++ [reset]` is flagged first at its 57th value, in both modes. -/
theorem hddmw_default_rise_after_reset (ts : Bool) (pre : List (Op ℝ)) (k : ℕ) (hk : 27 ≤ k) :
    (∀ t, t < 57 → ((HDDMW.machine (cDef ts)).run
        (pre ++ [.reset] ++ ((riseStream 30 k).take t).map Op.update)).drift = false) ∧
    ((HDDMW.machine (cDef ts)).run
        (pre ++ [.reset] ++ ((riseStream 30 k).take 57).map Op.update)).drift = true := by
  have hv : ∀ l : List ℝ, valsSince (pre ++ [Op.reset] ++ l.map Op.update) = l := by
    intro l
    induction l using List.reverseRecOn with
    | nil => simp
    | append_singleton l v ih =>
      rw [List.map_append, ← List.append_assoc, List.map_singleton, valsSince_update, ih]
  obtain ⟨h1, h2⟩ := hddmw_default_rise ts k hk
  refine ⟨fun t ht => ?_, ?_⟩
  · rw [hddmw_run_eq_wRun, hv]; exact h1 t ht
  · rw [hddmw_run_eq_wRun, hv]; exact h2

end Ops

/- UNPROVED (full statement): exact rise/drop positions of the WARNING flag at the defaults (numerically: rise
   warnings at values 54–56, drop warnings at values 50–54; `alpha_w = 0.005`, `ln 200`), and the drop delay in
   two-sided mode for WEAK levels `ln(1/alpha_d) < 2`, where the first drift falls inside the ones
   (`C04c.hddmw_drop_not_mirror_witness` is a witness, not a formula).
   theorem hddmw_default_rise_warning : ∀ t, warning after (riseStream 30 k).take t = true ↔ 54 ≤ t ∧ t ≤ 56 -/

/-! ## axioms used -/
#print axioms thr_ge_gap
#print axioms eps_le_of_le
#print axioms dropCutStays_of_le
#print axioms hddmw_drop_delay
#print axioms hddmw_drop_one_sided_never
#print axioms one_sided_weak_level_witness
#print axioms exists_isFirstD_iff
#print axioms drop_conditions_eventually
#print axioms hddmw_drop_exists
#print axioms hddmw_drop_vs_rise
#print axioms log_1000_bounds
#print axioms dropCutStays_default
#print axioms cutStays_default
#print axioms isFirstW_default
#print axioms isFirstD_default
#print axioms hddmw_default_rise
#print axioms hddmw_default_drop
#print axioms hddmw_default_asymmetry
#print axioms valsSince_spec
#print axioms hddmw_run_eq_wRun
#print axioms hddma_run_eq_aRun
#print axioms hddmw_flags_ops
#print axioms hddmw_flags_declarative_ops
#print axioms hddma_flags_declarative_ops
#print axioms hddmw_default_rise_after_reset

end Frouros.C04d
