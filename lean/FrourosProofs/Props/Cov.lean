/-
  Cov — soundness of the branch tags of `FrourosModel/Branch.lean` with respect to `step`.

  A branch tag is computed from the state before an update, the state after it and the value, by
  evaluating the model's guard functions again.  The theorems below say that, when the state after
  IS `step c s v`, the tag names the path `step` took: per detector `D`

  * `tag_eq_D`      : the tag equals the string built from the outcomes of the guards of `step`
                      (with the very arguments `step` evaluates them on);
  * `tag_warm_iff_D`: the tag is the warm-up tag iff `step`'s warm-up guard failed;
  * `tag_flags_D`   : outside the warm-up the tag is the string built from the guard outcomes and
                      from the flags of `step c s v`;
  * `tag_verdict_D` : membership in the "D"/"W"/"N" tags iff the flags of `step c s v` say so;
  * further component lemmas (`tag_min_iff_DDM`, …) relating a component to the field `step` wrote;
  * `tag_mem_D`     : the tag lies in an explicit finite list (the universe of the detector);
  * `branch_D`      : what the driver prints (`Det.branch o (o.update v tape) v`) is the class
                      prefix followed by that tag.

  Covered: DDM, ECDD-WT, CUSUM family, KSWIN, STEPD, BOCD, EDDM, HDDM-A, HDDM-W.
  NOT covered: RDDM and ADWIN (only `branch_rddm` / `branch_adwin`, the driver wrapper).

  All theorems are control-flow facts for an ARBITRARY carrier (`[Carrier α]`; nothing is assumed
  about the arithmetic or the comparisons) and an ARBITRARY configuration and state.
  Only imports the (import-free) model.
-/
import FrourosModel.Branch
namespace Frouros.Cov
open Frouros Det
variable {α : Type} [Carrier α]

/-! ## DDM -/

theorem ddm_step_n (c : DDM.Cfg α) (s : DDM.State α) (v : α) : (DDM.step c s v).n = s.n + 1 := by
  grind [DDM.step]

theorem ddm_step_er (c : DDM.Cfg α) (s : DDM.State α) (v : α) :
    (DDM.step c s v).er = s.er.update v := by
  grind [DDM.step]

/-- the `eps` (`error_rate + std`) `DDM.step c s v` computes -/
def ddmEps (s : DDM.State α) (v : α) : α := (DDM.epsStd (s.er.update v) (s.n + 1)).1
/-- the `std` `DDM.step c s v` computes -/
def ddmStd (s : DDM.State α) (v : α) : α := (DDM.epsStd (s.er.update v) (s.n + 1)).2

/-- what `DDM.step` writes outside the warm-up, guard by guard: the stored minimum `m` chosen by the
`belowMin` guard, the flags by the two `exceeds` guards on `m` -/
theorem ddm_step_hot (c : DDM.Cfg α) (s : DDM.State α) (v : α) (h : c.minN ≤ s.n + 1) :
    let s' := DDM.step c s v
    let m := if DDM.belowMin (ddmEps s v) s.minPS then some ((s.er.update v).mean, ddmStd s v) else s.minPS
    s'.minPS = m ∧
    s'.drift = DDM.exceeds (ddmEps s v) m c.drift ∧
    s'.warning = (!DDM.exceeds (ddmEps s v) m c.drift && DDM.exceeds (ddmEps s v) m c.warn) := by
  simp only [DDM.step, ddmEps, ddmStd, h, if_true]
  repeat' split
  all_goals simp_all

/-- DDM: the tag is the string built from the outcomes of `step`'s own guards -/
theorem tag_eq_DDM (c : DDM.Cfg α) (s : DDM.State α) (v : α) :
    branchDDM c s (DDM.step c s v) =
      if c.minN ≤ s.n + 1 then
        (if DDM.belowMin (ddmEps s v) s.minPS then "min" else "keep") ++ "." ++
          (if (DDM.step c s v).drift then "D" else if (DDM.step c s v).warning then "W" else "N")
      else "warm" := by
  unfold branchDDM ddmEps
  rw [ddm_step_n, ddm_step_er]
  generalize (DDM.step c s v).drift = d
  generalize (DDM.step c s v).warning = w
  split
  · cases d <;> cases w <;> rfl
  · rfl

/-- DDM: tag `"warm"` iff `step` took the warm-up branch -/
theorem tag_warm_iff_DDM (c : DDM.Cfg α) (s : DDM.State α) (v : α) :
    branchDDM c s (DDM.step c s v) = "warm" ↔ ¬ (c.minN ≤ s.n + 1) := by
  rw [tag_eq_DDM]
  by_cases h : c.minN ≤ s.n + 1
  · cases DDM.belowMin (ddmEps s v) s.minPS <;> cases (DDM.step c s v).drift <;>
      cases (DDM.step c s v).warning <;> simp [h]
  · simp [h]

/-- DDM outside the warm-up: the tag is `min`/`keep` by `step`'s `belowMin` guard, then the verdict
by the flags of `step c s v` -/
theorem tag_flags_DDM (c : DDM.Cfg α) (s : DDM.State α) (v : α) (h : c.minN ≤ s.n + 1) :
    branchDDM c s (DDM.step c s v) =
      (if DDM.belowMin (ddmEps s v) s.minPS then "min" else "keep") ++ "." ++
        (if (DDM.step c s v).drift then "D" else if (DDM.step c s v).warning then "W" else "N") := by
  rw [tag_eq_DDM, if_pos h]

/-- DDM outside the warm-up: a `min.*` tag iff `step`'s `belowMin` guard held, and then `step`
replaced the stored minimum by `(er.mean, std)`; a `keep.*` tag iff it kept the stored minimum -/
theorem tag_min_iff_DDM (c : DDM.Cfg α) (s : DDM.State α) (v : α) (h : c.minN ≤ s.n + 1) :
    let t := branchDDM c s (DDM.step c s v)
    (t ∈ ["min.D", "min.W", "min.N"] ↔ DDM.belowMin (ddmEps s v) s.minPS = true) ∧
    (t ∈ ["keep.D", "keep.W", "keep.N"] ↔ DDM.belowMin (ddmEps s v) s.minPS = false) ∧
    (t ∈ ["min.D", "min.W", "min.N"] → (DDM.step c s v).minPS = some ((s.er.update v).mean, ddmStd s v)) ∧
    (t ∈ ["keep.D", "keep.W", "keep.N"] → (DDM.step c s v).minPS = s.minPS) := by
  intro t
  have hm := (ddm_step_hot c s v h).1
  simp only [t]
  rw [tag_flags_DDM c s v h, hm]
  cases DDM.belowMin (ddmEps s v) s.minPS <;> cases (DDM.step c s v).drift <;>
    cases (DDM.step c s v).warning <;> simp

/-- DDM outside the warm-up: a `*.D` tag iff `step` set `drift`, a `*.W` tag iff it set `warning`
only, a `*.N` tag iff neither -/
theorem tag_verdict_DDM (c : DDM.Cfg α) (s : DDM.State α) (v : α) (h : c.minN ≤ s.n + 1) :
    let s' := DDM.step c s v
    let t := branchDDM c s s'
    (t ∈ ["min.D", "keep.D"] ↔ s'.drift = true) ∧
    (t ∈ ["min.W", "keep.W"] ↔ s'.drift = false ∧ s'.warning = true) ∧
    (t ∈ ["min.N", "keep.N"] ↔ s'.drift = false ∧ s'.warning = false) := by
  intro s' t
  simp only [t, s']
  rw [tag_flags_DDM c s v h]
  cases DDM.belowMin (ddmEps s v) s.minPS <;> cases (DDM.step c s v).drift <;>
    cases (DDM.step c s v).warning <;> simp

/-- DDM: the universe of tags -/
theorem tag_mem_DDM (c : DDM.Cfg α) (s : DDM.State α) (v : α) :
    branchDDM c s (DDM.step c s v) ∈ ["warm", "min.D", "min.W", "min.N", "keep.D", "keep.W", "keep.N"] := by
  rw [tag_eq_DDM]
  by_cases h : c.minN ≤ s.n + 1
  · cases DDM.belowMin (ddmEps s v) s.minPS <;> cases (DDM.step c s v).drift <;>
      cases (DDM.step c s v).warning <;> simp [h]
  · simp [h]

/-- what the driver prints for a DDM instance -/
theorem branch_ddm (c : DDM.Cfg α) (s : DDM.State α) (v : Float) (tape : List Nat) :
    Det.branch (.ddm c s) (Det.update (.ddm c s) v tape) v =
      "DDM:" ++ branchDDM c s (DDM.step c s (Carrier.ofFloat v)) := rfl


/-! ## ECDD-WT -/

theorem ecdd_step_n (c : ECDD.Cfg α) (s : ECDD.State α) (v : α) : (ECDD.step c s v).n = s.n + 1 := by
  grind [ECDD.step]

/-- the comparison `Z_t > p_t + level * L_t * sigma_Z` exactly as `ECDD.step c s v` evaluates it -/
def ecddExceeds (c : ECDD.Cfg α) (s : ECDD.State α) (v : α) (level : α) : Bool :=
  let n := s.n + 1
  let p := s.p.update v
  let z := s.z.update v
  let erv := p.mean * (Num.one - p.mean)
  let zvar := Num.sqrt (ECDD.lamDiv c * (Num.one - Num.npow z.oneMinus (2 * n)) * erv)
  let L := ECDD.controlLimit c.arl p.mean
  Num.gt z.mean (p.mean + level * L * zvar)

/-- what `ECDD.step` writes outside the warm-up: the flags by its two threshold guards -/
theorem ecdd_step_hot (c : ECDD.Cfg α) (s : ECDD.State α) (v : α) (h : c.minN ≤ s.n + 1) :
    let s' := ECDD.step c s v
    s'.drift = ecddExceeds c s v Num.one ∧
    s'.warning = (!ecddExceeds c s v Num.one && ecddExceeds c s v c.warn) := by
  simp only [ECDD.step, ecddExceeds, h, if_true]
  split <;> simp_all

/-- ECDD-WT: the tag is the string built from `step`'s warm-up guard and the flags it set -/
theorem tag_eq_ECDD (c : ECDD.Cfg α) (s : ECDD.State α) (v : α) :
    branchECDD c (ECDD.step c s v) =
      if c.minN ≤ s.n + 1 then
        (if (ECDD.step c s v).drift then "D" else if (ECDD.step c s v).warning then "W" else "N")
      else "warm" := by
  unfold branchECDD
  rw [ecdd_step_n]
  generalize (ECDD.step c s v).drift = d
  generalize (ECDD.step c s v).warning = w
  split
  · cases d <;> cases w <;> rfl
  · rfl

/-- ECDD-WT: tag `"warm"` iff `step` took the warm-up branch -/
theorem tag_warm_iff_ECDD (c : ECDD.Cfg α) (s : ECDD.State α) (v : α) :
    branchECDD c (ECDD.step c s v) = "warm" ↔ ¬ (c.minN ≤ s.n + 1) := by
  rw [tag_eq_ECDD]
  by_cases h : c.minN ≤ s.n + 1
  · cases (ECDD.step c s v).drift <;> cases (ECDD.step c s v).warning <;> simp [h]
  · simp [h]

/-- ECDD-WT outside the warm-up: the tag is the verdict by the flags of `step c s v`, which are the
outcomes of its two threshold guards -/
theorem tag_flags_ECDD (c : ECDD.Cfg α) (s : ECDD.State α) (v : α) (h : c.minN ≤ s.n + 1) :
    branchECDD c (ECDD.step c s v) =
      (if (ECDD.step c s v).drift then "D" else if (ECDD.step c s v).warning then "W" else "N") ∧
    branchECDD c (ECDD.step c s v) =
      (if ecddExceeds c s v Num.one then "D" else if ecddExceeds c s v c.warn then "W" else "N") := by
  have hh := ecdd_step_hot c s v h
  simp only at hh
  rw [tag_eq_ECDD, if_pos h, hh.1, hh.2]
  cases ecddExceeds c s v Num.one <;> cases ecddExceeds c s v c.warn <;> simp

/-- ECDD-WT outside the warm-up: `"D"` iff `step` set `drift`, `"W"` iff `warning` only, `"N"` iff
neither -/
theorem tag_verdict_ECDD (c : ECDD.Cfg α) (s : ECDD.State α) (v : α) (h : c.minN ≤ s.n + 1) :
    let s' := ECDD.step c s v
    let t := branchECDD c s'
    (t = "D" ↔ s'.drift = true) ∧
    (t = "W" ↔ s'.drift = false ∧ s'.warning = true) ∧
    (t = "N" ↔ s'.drift = false ∧ s'.warning = false) := by
  intro s' t
  simp only [t, s']
  rw [(tag_flags_ECDD c s v h).1]
  cases (ECDD.step c s v).drift <;> cases (ECDD.step c s v).warning <;> simp

/-- ECDD-WT: the universe of tags -/
theorem tag_mem_ECDD (c : ECDD.Cfg α) (s : ECDD.State α) (v : α) :
    branchECDD c (ECDD.step c s v) ∈ ["warm", "D", "W", "N"] := by
  rw [tag_eq_ECDD]
  by_cases h : c.minN ≤ s.n + 1
  · cases (ECDD.step c s v).drift <;> cases (ECDD.step c s v).warning <;> simp [h]
  · simp [h]

/-- what the driver prints for an ECDD-WT instance -/
theorem branch_ecdd (c : ECDD.Cfg α) (s : ECDD.State α) (v : Float) (tape : List Nat) :
    Det.branch (.ecdd c s) (Det.update (.ecdd c s) v tape) v =
      "ECDDWT:" ++ branchECDD c (ECDD.step c s (Carrier.ofFloat v)) := rfl

/-! ## CUSUM family (CUSUM, PageHinkley, GeometricMovingAverage) -/

/-- the sum `CUSUMFam.step c s v` computes -/
def cusumSum (c : CUSUMFam.Cfg α) (s : CUSUMFam.State α) (v : α) : α :=
  CUSUMFam.updateSum c s.sum (s.mean.update v).mean v

/-- `CUSUMFam.step`, field by field -/
theorem cusum_step (c : CUSUMFam.Cfg α) (s : CUSUMFam.State α) (v : α) :
    let s' := CUSUMFam.step c s v
    s'.n = s.n + 1 ∧ s'.sum = cusumSum c s v ∧
    s'.drift = (decide (c.minN ≤ s.n + 1) && Num.gt (cusumSum c s v) c.lambda) := ⟨rfl, rfl, rfl⟩

/-- name of the subclass in the tag -/
def kindTag : CUSUMFam.Kind → String
  | .cusum => "cusum" | .pageHinkley => "ph" | .gma => "gma"

/-- CUSUM family: the tag is the string built from the subclass, `step`'s warm-up guard, the flag it
set and (CUSUM only) whether the sum it stored is zero -/
theorem tag_eq_CUSUM (c : CUSUMFam.Cfg α) (s : CUSUMFam.State α) (v : α) :
    branchCUSUM c (CUSUMFam.step c s v) =
      kindTag c.kind ++ "." ++
        (if c.minN ≤ s.n + 1 then (if (CUSUMFam.step c s v).drift then "D" else "N") else "warm") ++
        (if c.kind = .cusum ∧ Num.beq (cusumSum c s v) (Num.zero : α) = true then ".clipped" else "") := by
  unfold branchCUSUM
  simp only [(cusum_step c s v).1, (cusum_step c s v).2.1]
  cases c.kind <;> simp [kindTag]

/-- CUSUM family: a `*.warm*` tag iff `step`'s warm-up guard failed (then `drift` is not set) -/
theorem tag_warm_iff_CUSUM (c : CUSUMFam.Cfg α) (s : CUSUMFam.State α) (v : α) :
    branchCUSUM c (CUSUMFam.step c s v) ∈
        ["cusum.warm", "cusum.warm.clipped", "ph.warm", "gma.warm"] ↔ ¬ (c.minN ≤ s.n + 1) := by
  rw [tag_eq_CUSUM]
  by_cases h : c.minN ≤ s.n + 1 <;> cases c.kind <;> cases (CUSUMFam.step c s v).drift <;>
    cases Num.beq (cusumSum c s v) (Num.zero : α) <;> simp [h, kindTag]

/-- CUSUM family outside the warm-up: the tag is built from `step`'s threshold guard
`sum > lambda` (which is the flag it set) -/
theorem tag_flags_CUSUM (c : CUSUMFam.Cfg α) (s : CUSUMFam.State α) (v : α) (h : c.minN ≤ s.n + 1) :
    (CUSUMFam.step c s v).drift = Num.gt (cusumSum c s v) c.lambda ∧
    branchCUSUM c (CUSUMFam.step c s v) =
      kindTag c.kind ++ "." ++ (if Num.gt (cusumSum c s v) c.lambda then "D" else "N") ++
        (if c.kind = .cusum ∧ Num.beq (cusumSum c s v) (Num.zero : α) = true then ".clipped" else "") := by
  have hd : (CUSUMFam.step c s v).drift = Num.gt (cusumSum c s v) c.lambda := by
    rw [(cusum_step c s v).2.2]; simp [h]
  refine ⟨hd, ?_⟩
  rw [tag_eq_CUSUM, if_pos h, hd]

/-- CUSUM family outside the warm-up: a `*.D*` tag iff `step` set `drift`, a `*.N*` tag iff not -/
theorem tag_verdict_CUSUM (c : CUSUMFam.Cfg α) (s : CUSUMFam.State α) (v : α) (h : c.minN ≤ s.n + 1) :
    let s' := CUSUMFam.step c s v
    let t := branchCUSUM c s'
    (t ∈ ["cusum.D", "cusum.D.clipped", "ph.D", "gma.D"] ↔ s'.drift = true) ∧
    (t ∈ ["cusum.N", "cusum.N.clipped", "ph.N", "gma.N"] ↔ s'.drift = false) := by
  intro s' t
  simp only [t, s']
  rw [tag_eq_CUSUM, if_pos h]
  cases c.kind <;> cases (CUSUMFam.step c s v).drift <;>
    cases Num.beq (cusumSum c s v) (Num.zero : α) <;> simp [kindTag]

/-- CUSUM family: a `*.clipped` tag iff the detector is CUSUM and the sum `step` stored is zero -/
theorem tag_clipped_iff_CUSUM (c : CUSUMFam.Cfg α) (s : CUSUMFam.State α) (v : α) :
    branchCUSUM c (CUSUMFam.step c s v) ∈ ["cusum.D.clipped", "cusum.N.clipped", "cusum.warm.clipped"] ↔
      (c.kind = .cusum ∧ Num.beq (CUSUMFam.step c s v).sum (Num.zero : α) = true) := by
  rw [tag_eq_CUSUM, (cusum_step c s v).2.1]
  by_cases h : c.minN ≤ s.n + 1 <;> cases c.kind <;> cases (CUSUMFam.step c s v).drift <;>
    cases Num.beq (cusumSum c s v) (Num.zero : α) <;> simp [h, kindTag]

/-- CUSUM family: the subclass named by the tag is the configured one -/
theorem tag_kind_CUSUM (c : CUSUMFam.Cfg α) (s : CUSUMFam.State α) (v : α) :
    let t := branchCUSUM c (CUSUMFam.step c s v)
    (t ∈ ["cusum.D", "cusum.N", "cusum.warm", "cusum.D.clipped", "cusum.N.clipped", "cusum.warm.clipped"]
      ↔ c.kind = .cusum) ∧
    (t ∈ ["ph.D", "ph.N", "ph.warm"] ↔ c.kind = .pageHinkley) ∧
    (t ∈ ["gma.D", "gma.N", "gma.warm"] ↔ c.kind = .gma) := by
  intro t
  simp only [t]
  rw [tag_eq_CUSUM]
  by_cases h : c.minN ≤ s.n + 1 <;> cases c.kind <;> cases (CUSUMFam.step c s v).drift <;>
    cases Num.beq (cusumSum c s v) (Num.zero : α) <;> simp [h, kindTag]

/-- CUSUM family: the universe of tags -/
theorem tag_mem_CUSUM (c : CUSUMFam.Cfg α) (s : CUSUMFam.State α) (v : α) :
    branchCUSUM c (CUSUMFam.step c s v) ∈
      ["cusum.D", "cusum.N", "cusum.warm", "cusum.D.clipped", "cusum.N.clipped", "cusum.warm.clipped",
       "ph.D", "ph.N", "ph.warm", "gma.D", "gma.N", "gma.warm"] := by
  rw [tag_eq_CUSUM]
  by_cases h : c.minN ≤ s.n + 1 <;> cases c.kind <;> cases (CUSUMFam.step c s v).drift <;>
    cases Num.beq (cusumSum c s v) (Num.zero : α) <;> simp [h, kindTag]

/-- what the driver prints for a CUSUM / PageHinkley / GeometricMovingAverage instance -/
theorem branch_cusum (c : CUSUMFam.Cfg α) (s : CUSUMFam.State α) (v : Float) (tape : List Nat) :
    Det.branch (.cusum c s) (Det.update (.cusum c s) v tape) v =
      "CUSUMFAM:" ++ branchCUSUM c (CUSUMFam.step c s (Carrier.ofFloat v)) := rfl


/-! ## KSWIN -/

/-- the window `KSWIN.step` stores: the old one with `v` pushed -/
def kswinWindow (c : KSWIN.Cfg α) (s : KSWIN.State α) (v : α) : List α := KSWIN.push c.minN s.window v

/-- the p-value `KSWIN.step` compares with `alpha` once the window is full -/
def kswinP (ksP : List α → List α → α) (c : KSWIN.Cfg α) (s : KSWIN.State α) (v : α) (tape : List Nat) : α :=
  let w := kswinWindow c s v
  let k := w.length - c.numTest
  ksP (tape.map (fun i => (w.take k).getD i Num.zero)) (w.drop k)

/-- `KSWIN.step`, field by field -/
theorem kswin_step (ksP : List α → List α → α) (c : KSWIN.Cfg α) (s : KSWIN.State α) (v : α) (tape : List Nat) :
    let s' := KSWIN.step ksP c s v tape
    s'.n = s.n + 1 ∧ s'.window = kswinWindow c s v ∧
    s'.drift = (decide (c.minN ≤ (kswinWindow c s v).length) && Num.le (kswinP ksP c s v tape) c.alpha) := by
  by_cases h : c.minN ≤ (KSWIN.push c.minN s.window v).length <;>
    simp [KSWIN.step, kswinWindow, kswinP, h]

/-- KSWIN: the tag is the string built from `step`'s window-full guard and the flag it set -/
theorem tag_eq_KSWIN (ksP : List α → List α → α) (c : KSWIN.Cfg α) (s : KSWIN.State α) (v : α) (tape : List Nat) :
    branchKSWIN c (KSWIN.step ksP c s v tape) =
      if c.minN ≤ (kswinWindow c s v).length then
        (if (KSWIN.step ksP c s v tape).drift then "D" else "N")
      else "fill" := by
  unfold branchKSWIN
  rw [(kswin_step ksP c s v tape).2.1]

/-- KSWIN: tag `"fill"` iff `step`'s window-full guard failed (its warm-up) -/
theorem tag_warm_iff_KSWIN (ksP : List α → List α → α) (c : KSWIN.Cfg α) (s : KSWIN.State α) (v : α) (tape : List Nat) :
    branchKSWIN c (KSWIN.step ksP c s v tape) = "fill" ↔ ¬ (c.minN ≤ (kswinWindow c s v).length) := by
  rw [tag_eq_KSWIN]
  by_cases h : c.minN ≤ (kswinWindow c s v).length <;> cases (KSWIN.step ksP c s v tape).drift <;> simp [h]

/-- KSWIN with a full window: the flag `step` set is the outcome of its guard `p ≤ alpha`, and the
tag is built from it -/
theorem tag_flags_KSWIN (ksP : List α → List α → α) (c : KSWIN.Cfg α) (s : KSWIN.State α) (v : α) (tape : List Nat)
    (h : c.minN ≤ (kswinWindow c s v).length) :
    (KSWIN.step ksP c s v tape).drift = Num.le (kswinP ksP c s v tape) c.alpha ∧
    branchKSWIN c (KSWIN.step ksP c s v tape) = (if Num.le (kswinP ksP c s v tape) c.alpha then "D" else "N") := by
  have hd : (KSWIN.step ksP c s v tape).drift = Num.le (kswinP ksP c s v tape) c.alpha := by
    rw [(kswin_step ksP c s v tape).2.2]; simp [h]
  refine ⟨hd, ?_⟩
  rw [tag_eq_KSWIN, if_pos h, hd]

/-- KSWIN with a full window: `"D"` iff `step` set `drift`, `"N"` iff not -/
theorem tag_verdict_KSWIN (ksP : List α → List α → α) (c : KSWIN.Cfg α) (s : KSWIN.State α) (v : α) (tape : List Nat)
    (h : c.minN ≤ (kswinWindow c s v).length) :
    let s' := KSWIN.step ksP c s v tape
    (branchKSWIN c s' = "D" ↔ s'.drift = true) ∧ (branchKSWIN c s' = "N" ↔ s'.drift = false) := by
  intro s'
  simp only [s']
  rw [tag_eq_KSWIN, if_pos h]
  cases (KSWIN.step ksP c s v tape).drift <;> simp

/-- KSWIN: the universe of tags -/
theorem tag_mem_KSWIN (ksP : List α → List α → α) (c : KSWIN.Cfg α) (s : KSWIN.State α) (v : α) (tape : List Nat) :
    branchKSWIN c (KSWIN.step ksP c s v tape) ∈ ["fill", "D", "N"] := by
  rw [tag_eq_KSWIN]
  by_cases h : c.minN ≤ (kswinWindow c s v).length <;> cases (KSWIN.step ksP c s v tape).drift <;> simp [h]

/-- what the driver prints for a KSWIN instance -/
theorem branch_kswin (c : KSWIN.Cfg α) (s : KSWIN.State α) (v : Float) (tape : List Nat) :
    Det.branch (.kswin c s) (Det.update (.kswin c s) v tape) v =
      "KSWIN:" ++ branchKSWIN c (KSWIN.step Det.ksP c s (Carrier.ofFloat v) tape) := rfl

/-! ## STEPD -/

/-- the statistic `STEPD.step` evaluates once the queue `win` accepted the value -/
def stepdStat (s : STEPD.State) (v : Bool) (win : AccQ) : Option α :=
  STEPD.statistic (α := α) (s.n + 1) (s.correctTotal + (if v then 1 else 0)) win.q.count win.numTrue

/-- the p-value `STEPD.step` compares with `alpha_d` / `alpha_w` -/
def stepdP (sf : α → α) (s : STEPD.State) (v : Bool) (win : AccQ) : α :=
  match stepdStat (α := α) s v win with
  | none => Num.one
  | some t => sf t

/-- `STEPD.step` when the queue raised: only `n` and `err` are written -/
theorem stepd_step_error (sf : α → α) (c : STEPD.Cfg α) (s : STEPD.State) (v : Bool) (e : Err)
    (he : s.win.enqueue v = .error e) :
    STEPD.step sf c s v = { s with n := s.n + 1, err := some e } := by
  simp only [STEPD.step, he]

/-- `STEPD.step` when the queue accepted the value, field by field -/
theorem stepd_step_ok (sf : α → α) (c : STEPD.Cfg α) (s : STEPD.State) (v : Bool) (win : AccQ)
    (he : s.win.enqueue v = .ok win) :
    let s' := STEPD.step sf c s v
    s'.n = s.n + 1 ∧ s'.err = s.err ∧ s'.win = win ∧ s'.correctTotal = s.correctTotal + (if v then 1 else 0) ∧
    s'.drift = (decide (2 * c.minN ≤ s.n + 1) && Num.lt (stepdP sf s v win) c.alphaD) ∧
    s'.warning = (decide (2 * c.minN ≤ s.n + 1) && !Num.lt (stepdP sf s v win) c.alphaD &&
                    Num.lt (stepdP sf s v win) c.alphaW) := by
  by_cases h : 2 * c.minN ≤ s.n + 1
  · simp only [STEPD.step, he, stepdP, stepdStat, h, if_true]
    split <;> split <;> simp_all
  · simp [STEPD.step, he, h]

/-- STEPD: the tag is the string built from the outcomes of `step`'s guards: the queue operation,
the error already stored, the warm-up guard `2 * minN ≤ n`, whether the statistic is defined, and
the flags `step` set -/
theorem tag_eq_STEPD (sf : α → α) (c : STEPD.Cfg α) (s : STEPD.State) (v : Bool) :
    branchSTEPD c (STEPD.step sf c s v) =
      match s.win.enqueue v with
      | .error _ => "err"
      | .ok win =>
        match s.err with
        | some _ => "err"
        | none =>
          if 2 * c.minN ≤ s.n + 1 then
            (match stepdStat (α := α) s v win with | none => "novar." | some _ => "") ++
              (if (STEPD.step sf c s v).drift then "D" else if (STEPD.step sf c s v).warning then "W" else "N")
          else "warm" := by
  cases he : s.win.enqueue v with
  | error e => simp only [stepd_step_error sf c s v e he, branchSTEPD]
  | ok win =>
    obtain ⟨hn, herr, hw, hc, -, -⟩ := stepd_step_ok sf c s v win he
    unfold branchSTEPD
    simp only [herr, hn, hw, hc, stepdStat]
    generalize (STEPD.step sf c s v).drift = d
    generalize (STEPD.step sf c s v).warning = w
    cases s.err with
    | some e => rfl
    | none =>
      simp only []
      split
      · cases d <;> cases w <;> rfl
      · rfl


/-- STEPD: tag `"err"` iff the state `step` returned carries an error, i.e. iff the queue operation of
this update raised or an error was already stored -/
theorem tag_err_iff_STEPD (sf : α → α) (c : STEPD.Cfg α) (s : STEPD.State) (v : Bool) :
    (branchSTEPD c (STEPD.step sf c s v) = "err" ↔ (STEPD.step sf c s v).err ≠ none) ∧
    ((STEPD.step sf c s v).err ≠ none ↔ ((∃ e, s.win.enqueue v = .error e) ∨ s.err ≠ none)) := by
  rw [tag_eq_STEPD]
  cases he : s.win.enqueue v with
  | error e => simp [stepd_step_error sf c s v e he]
  | ok win =>
    obtain ⟨-, herr, -, -, -, -⟩ := stepd_step_ok sf c s v win he
    rw [herr]
    cases s.err with
    | some e => simp
    | none =>
      simp only []
      by_cases h : 2 * c.minN ≤ s.n + 1 <;> cases stepdStat (α := α) s v win <;>
        cases (STEPD.step sf c s v).drift <;> cases (STEPD.step sf c s v).warning <;> simp [h]

/-- STEPD without an error (the queue accepted the value, none stored): tag `"warm"` iff `step`'s
warm-up guard `2 * minN ≤ n` failed -/
theorem tag_warm_iff_STEPD (sf : α → α) (c : STEPD.Cfg α) (s : STEPD.State) (v : Bool) (win : AccQ)
    (he : s.win.enqueue v = .ok win) (hs : s.err = none) :
    branchSTEPD c (STEPD.step sf c s v) = "warm" ↔ ¬ (2 * c.minN ≤ s.n + 1) := by
  rw [tag_eq_STEPD, he, hs]
  simp only []
  by_cases h : 2 * c.minN ≤ s.n + 1 <;> cases stepdStat (α := α) s v win <;>
    cases (STEPD.step sf c s v).drift <;> cases (STEPD.step sf c s v).warning <;> simp [h]

/-- STEPD without an error and outside the warm-up: the tag is `novar.` iff the statistic `step`
evaluated is undefined (then `step` used `p = 1`), followed by the verdict by the flags `step` set,
which are the outcomes of its guards `p < alpha_d`, `p < alpha_w` -/
theorem tag_flags_STEPD (sf : α → α) (c : STEPD.Cfg α) (s : STEPD.State) (v : Bool) (win : AccQ)
    (he : s.win.enqueue v = .ok win) (hs : s.err = none) (h : 2 * c.minN ≤ s.n + 1) :
    let s' := STEPD.step sf c s v
    branchSTEPD c s' =
      (match stepdStat (α := α) s v win with | none => "novar." | some _ => "") ++
        (if s'.drift then "D" else if s'.warning then "W" else "N") ∧
    s'.drift = Num.lt (stepdP sf s v win) c.alphaD ∧
    s'.warning = (!Num.lt (stepdP sf s v win) c.alphaD && Num.lt (stepdP sf s v win) c.alphaW) := by
  obtain ⟨-, -, -, -, hd, hw⟩ := stepd_step_ok sf c s v win he
  refine ⟨?_, ?_, ?_⟩
  · rw [tag_eq_STEPD, he, hs]; simp only [h, if_true]
  · rw [hd]; simp [h]
  · rw [hw]; simp [h]

/-- STEPD without an error and outside the warm-up: a `*D` tag iff `step` set `drift`, a `*W` tag iff
`warning` only, a `*N` tag iff neither; a `novar.*` tag iff the statistic is undefined -/
theorem tag_verdict_STEPD (sf : α → α) (c : STEPD.Cfg α) (s : STEPD.State) (v : Bool) (win : AccQ)
    (he : s.win.enqueue v = .ok win) (hs : s.err = none) (h : 2 * c.minN ≤ s.n + 1) :
    let s' := STEPD.step sf c s v
    let t := branchSTEPD c s'
    (t ∈ ["D", "novar.D"] ↔ s'.drift = true) ∧
    (t ∈ ["W", "novar.W"] ↔ s'.drift = false ∧ s'.warning = true) ∧
    (t ∈ ["N", "novar.N"] ↔ s'.drift = false ∧ s'.warning = false) ∧
    (t ∈ ["novar.D", "novar.W", "novar.N"] ↔ stepdStat (α := α) s v win = none) := by
  intro s' t
  simp only [t, s']
  rw [(tag_flags_STEPD sf c s v win he hs h).1]
  cases stepdStat (α := α) s v win <;>
    cases (STEPD.step sf c s v).drift <;> cases (STEPD.step sf c s v).warning <;> simp

/-- STEPD: the universe of tags -/
theorem tag_mem_STEPD (sf : α → α) (c : STEPD.Cfg α) (s : STEPD.State) (v : Bool) :
    branchSTEPD c (STEPD.step sf c s v) ∈ ["err", "warm", "D", "W", "N", "novar.D", "novar.W", "novar.N"] := by
  rw [tag_eq_STEPD]
  cases s.win.enqueue v with
  | error e => simp
  | ok win =>
    cases s.err with
    | some e => simp
    | none =>
      simp only []
      by_cases h : 2 * c.minN ≤ s.n + 1 <;> cases stepdStat (α := α) s v win <;>
        cases (STEPD.step sf c s v).drift <;> cases (STEPD.step sf c s v).warning <;> simp [h]

/-- what the driver prints for a STEPD instance -/
theorem branch_stepd (c : STEPD.Cfg α) (s : STEPD.State) (v : Float) (tape : List Nat) :
    Det.branch (.stepd c s) (Det.update (.stepd c s) v tape) v =
      "STEPD:" ++ branchSTEPD c (STEPD.step (α := α) Det.normSf c s (v != 0.0)) := rfl

/-! ## BOCD -/

/-- `BOCD.step`: the counter and the flag (`argmax row ≠ n` outside the warm-up, unchanged inside) -/
theorem bocd_step (f : BOCD.Fns α) (c : BOCD.Cfg α) (s : BOCD.State α) (v : α) :
    let s' := BOCD.step f c s v
    s'.n = s.n + 1 ∧
    s'.drift = (if c.minN ≤ s.n + 1 then BOCD.argmax s'.row != s.n + 1 else s.drift) := ⟨rfl, rfl⟩

/-- BOCD: the tag is the string built from `step`'s warm-up guard, its guard `argmax row ≠ n` and
the position of the maximum of the row it stored -/
theorem tag_eq_BOCD (f : BOCD.Fns α) (c : BOCD.Cfg α) (s : BOCD.State α) (v : α) :
    branchBOCD c (BOCD.step f c s v) =
      if c.minN ≤ s.n + 1 then
        (if BOCD.argmax (BOCD.step f c s v).row != s.n + 1 then
           (if BOCD.argmax (BOCD.step f c s v).row == 0 then "D.changepoint" else "D.shortrun")
         else "N")
      else "warm" := by
  unfold branchBOCD
  rw [(bocd_step f c s v).1, (bocd_step f c s v).2]
  by_cases h : c.minN ≤ s.n + 1 <;> simp [h]

/-- BOCD: tag `"warm"` iff `step`'s warm-up guard failed (the flag is then the previous one) -/
theorem tag_warm_iff_BOCD (f : BOCD.Fns α) (c : BOCD.Cfg α) (s : BOCD.State α) (v : α) :
    (branchBOCD c (BOCD.step f c s v) = "warm" ↔ ¬ (c.minN ≤ s.n + 1)) ∧
    (¬ (c.minN ≤ s.n + 1) → (BOCD.step f c s v).drift = s.drift) := by
  rw [tag_eq_BOCD]
  refine ⟨?_, fun h => by rw [(bocd_step f c s v).2, if_neg h]⟩
  by_cases h : c.minN ≤ s.n + 1 <;>
    cases (BOCD.argmax (BOCD.step f c s v).row != s.n + 1) <;>
    cases (BOCD.argmax (BOCD.step f c s v).row == 0) <;> simp [h]

/-- BOCD outside the warm-up: the tag by the flag `step` set (`D.*` iff `drift`), and the
`changepoint`/`shortrun` component by the argmax of the row `step` stored -/
theorem tag_flags_BOCD (f : BOCD.Fns α) (c : BOCD.Cfg α) (s : BOCD.State α) (v : α) (h : c.minN ≤ s.n + 1) :
    let s' := BOCD.step f c s v
    s'.drift = (BOCD.argmax s'.row != s.n + 1) ∧
    branchBOCD c s' =
      (if s'.drift then (if BOCD.argmax s'.row == 0 then "D.changepoint" else "D.shortrun") else "N") := by
  have hd : (BOCD.step f c s v).drift = (BOCD.argmax (BOCD.step f c s v).row != s.n + 1) := by
    rw [(bocd_step f c s v).2, if_pos h]
  refine ⟨hd, ?_⟩
  rw [tag_eq_BOCD, if_pos h, ← hd]

/-- BOCD outside the warm-up: a `D.*` tag iff `step` set `drift`, `"N"` iff not; `D.changepoint` iff
moreover the maximum of the stored row is at run length 0 -/
theorem tag_verdict_BOCD (f : BOCD.Fns α) (c : BOCD.Cfg α) (s : BOCD.State α) (v : α) (h : c.minN ≤ s.n + 1) :
    let s' := BOCD.step f c s v
    let t := branchBOCD c s'
    (t ∈ ["D.changepoint", "D.shortrun"] ↔ s'.drift = true) ∧
    (t = "N" ↔ s'.drift = false) ∧
    (t = "D.changepoint" ↔ s'.drift = true ∧ BOCD.argmax s'.row = 0) ∧
    (t = "D.shortrun" ↔ s'.drift = true ∧ BOCD.argmax s'.row ≠ 0) := by
  intro s' t
  simp only [t, s']
  rw [(tag_flags_BOCD f c s v h).2]
  cases (BOCD.step f c s v).drift <;>
    by_cases h0 : BOCD.argmax (BOCD.step f c s v).row = 0 <;> simp [h0]

/-- BOCD: the universe of tags -/
theorem tag_mem_BOCD (f : BOCD.Fns α) (c : BOCD.Cfg α) (s : BOCD.State α) (v : α) :
    branchBOCD c (BOCD.step f c s v) ∈ ["warm", "D.changepoint", "D.shortrun", "N"] := by
  rw [tag_eq_BOCD]
  by_cases h : c.minN ≤ s.n + 1 <;>
    cases (BOCD.argmax (BOCD.step f c s v).row != s.n + 1) <;>
    cases (BOCD.argmax (BOCD.step f c s v).row == 0) <;> simp [h]

/-- what the driver prints for a BOCD instance -/
theorem branch_bocd (c : BOCD.Cfg α) (s : BOCD.State α) (v : Float) (tape : List Nat) :
    Det.branch (.bocd c s) (Det.update (.bocd c s) v tape) v =
      "BOCD:" ++ branchBOCD c (BOCD.step Det.bocdFns c s (Carrier.ofFloat v)) := rfl


/-! ## EDDM -/

/-- the running mean of the distances between errors `EDDM.step c s v` computes on an error -/
def eddmMean (s : EDDM.State α) : α :=
  s.mean + ((Num.ofNat (s.n + 1 - s.lastErr) : α) - s.mean) / Num.ofNat (s.numMis + 1)

/-- the standard deviation `EDDM.step c s v` computes on an error -/
def eddmStd (s : EDDM.State α) : α :=
  let distance : α := Num.ofNat (s.n + 1 - s.lastErr)
  Num.sqrt ((s.var + (distance - eddmMean s) * (distance - s.mean)) / Num.ofNat (s.numMis + 1))

/-- the threshold `mean + level * std` `EDDM.step c s v` computes on an error -/
def eddmThr (c : EDDM.Cfg α) (s : EDDM.State α) : α := eddmMean s + c.level * eddmStd s

/-- `step`'s guard "the threshold is a new maximum" -/
def eddmNewMax (c : EDDM.Cfg α) (s : EDDM.State α) : Bool :=
  match s.maxThr with | none => true | some mx => Num.gt (eddmThr c s) mx

/-- the ratio `thr / max` `step` compares with `beta` and `alpha` -/
def eddmRatio (c : EDDM.Cfg α) (s : EDDM.State α) : α :=
  eddmThr c s / (match s.maxThr with | none => Num.one | some mx => mx)

theorem eddm_step_n (c : EDDM.Cfg α) (s : EDDM.State α) (v : α) : (EDDM.step c s v).n = s.n + 1 := by
  unfold EDDM.step
  simp only []
  repeat' split
  all_goals first | rfl | simp_all

/-- what `EDDM.step` writes on an error (`v == 1`): the statistics, and the flags path by path -/
theorem eddm_step_err (c : EDDM.Cfg α) (s : EDDM.State α) (v : α) (hv : Num.beq v (Num.one : α) = true) :
    let s' := EDDM.step c s v
    s'.mean = eddmMean s ∧ s'.std = eddmStd s ∧ s'.numMis = s.numMis + 1 ∧
    (¬ (c.minMis ≤ s.n + 1) → s'.drift = s.drift ∧ s'.warning = s.warning ∧ s'.maxThr = s.maxThr) ∧
    (c.minMis ≤ s.n + 1 → eddmNewMax c s = true →
        s'.drift = false ∧ s'.warning = false ∧ s'.maxThr = some (eddmThr c s)) ∧
    (c.minMis ≤ s.n + 1 → eddmNewMax c s = false → ¬ (c.minMis ≤ s.numMis + 1) →
        s'.drift = s.drift ∧ s'.warning = s.warning ∧ s'.maxThr = s.maxThr) ∧
    (c.minMis ≤ s.n + 1 → eddmNewMax c s = false → c.minMis ≤ s.numMis + 1 →
        s'.drift = Num.lt (eddmRatio c s) c.beta ∧
        s'.warning = (!Num.lt (eddmRatio c s) c.beta && Num.lt (eddmRatio c s) c.alpha) ∧
        s'.maxThr = s.maxThr) := by
  simp only [EDDM.step, hv, if_true, eddmNewMax, eddmRatio, eddmThr, eddmStd, eddmMean]
  repeat' split
  all_goals first | (simp_all; done) | (simp_all; intro; omega) | grind

/-- what `EDDM.step` writes on a correct prediction (`v != 1`) -/
theorem eddm_step_ok (c : EDDM.Cfg α) (s : EDDM.State α) (v : α) (hv : Num.beq v (Num.one : α) = false) :
    EDDM.step c s v = { s with n := s.n + 1, drift := false, warning := false } := by
  simp [EDDM.step, hv]

/-- EDDM: the tag is the string built from the outcomes of `step`'s own guards -/
theorem tag_eq_EDDM (c : EDDM.Cfg α) (s : EDDM.State α) (v : α) :
    branchEDDM c s (EDDM.step c s v) v =
      if Num.beq v (Num.one : α) then
        if c.minMis ≤ s.n + 1 then
          if eddmNewMax c s then "err.newmax"
          else if c.minMis ≤ s.numMis + 1 then
            "err." ++ (if (EDDM.step c s v).drift then "D" else if (EDDM.step c s v).warning then "W" else "N")
          else "err.few"
        else "err.warm"
      else "ok" := by
  unfold branchEDDM
  cases hv : Num.beq v (Num.one : α) with
  | false => rfl
  | true =>
    obtain ⟨hm, hs, hk, -⟩ := eddm_step_err c s v hv
    simp only [eddm_step_n, hm, hs, hk, if_true, eddmNewMax, eddmThr]
    generalize (EDDM.step c s v).drift = d
    generalize (EDDM.step c s v).warning = w
    cases d <;> cases w <;> rfl

/-- EDDM: tag `"ok"` iff `step` took the no-error branch; tag `"err.warm"` iff it saw an error during
its warm-up (`n < min_num_misclassified_instances`, the guard `step` itself uses) -/
theorem tag_warm_iff_EDDM (c : EDDM.Cfg α) (s : EDDM.State α) (v : α) :
    (branchEDDM c s (EDDM.step c s v) v = "ok" ↔ Num.beq v (Num.one : α) = false) ∧
    (branchEDDM c s (EDDM.step c s v) v = "err.warm" ↔
      Num.beq v (Num.one : α) = true ∧ ¬ (c.minMis ≤ s.n + 1)) := by
  rw [tag_eq_EDDM]
  cases Num.beq v (Num.one : α) <;> by_cases h1 : c.minMis ≤ s.n + 1 <;>
    by_cases h2 : c.minMis ≤ s.numMis + 1 <;> cases eddmNewMax c s <;>
    cases (EDDM.step c s v).drift <;> cases (EDDM.step c s v).warning <;> simp [h1, h2]

/-- EDDM on an error outside the warm-up: `err.newmax` iff `step`'s new-maximum guard held (then it
stored the threshold as the maximum and cleared the flags); otherwise `err.few` iff its guard on the
number of errors failed (flags left as they were); otherwise `err.` followed by the verdict by the
flags `step` set, which are the outcomes of its guards `ratio < beta`, `ratio < alpha` -/
theorem tag_flags_EDDM (c : EDDM.Cfg α) (s : EDDM.State α) (v : α)
    (hv : Num.beq v (Num.one : α) = true) (h : c.minMis ≤ s.n + 1) :
    let s' := EDDM.step c s v
    let t := branchEDDM c s s' v
    t = (if eddmNewMax c s then "err.newmax"
         else if c.minMis ≤ s.numMis + 1 then
           "err." ++ (if s'.drift then "D" else if s'.warning then "W" else "N")
         else "err.few") ∧
    (t = "err.newmax" ↔ eddmNewMax c s = true) ∧
    (t = "err.newmax" → s'.maxThr = some (eddmThr c s) ∧ s'.drift = false ∧ s'.warning = false) ∧
    (t = "err.few" ↔ eddmNewMax c s = false ∧ ¬ (c.minMis ≤ s.numMis + 1)) ∧
    (t = "err.few" → s'.maxThr = s.maxThr ∧ s'.drift = s.drift ∧ s'.warning = s.warning) ∧
    (t ∈ ["err.D", "err.W", "err.N"] ↔ eddmNewMax c s = false ∧ c.minMis ≤ s.numMis + 1) ∧
    (t ∈ ["err.D", "err.W", "err.N"] →
      s'.maxThr = s.maxThr ∧ s'.drift = Num.lt (eddmRatio c s) c.beta ∧
      s'.warning = (!Num.lt (eddmRatio c s) c.beta && Num.lt (eddmRatio c s) c.alpha)) := by
  intro s' t
  obtain ⟨-, -, -, -, hA, hB, hC⟩ := eddm_step_err c s v hv
  have ht : t = (if eddmNewMax c s then "err.newmax"
         else if c.minMis ≤ s.numMis + 1 then
           "err." ++ (if s'.drift then "D" else if s'.warning then "W" else "N")
         else "err.few") := by
    simp only [t, s']; rw [tag_eq_EDDM]; simp only [hv, h, if_true]
  refine ⟨ht, ?_⟩
  rw [ht]
  have hs' : s' = EDDM.step c s v := rfl
  rw [← hs'] at hA hB hC
  cases hn : eddmNewMax c s
  · by_cases h2 : c.minMis ≤ s.numMis + 1
    · obtain ⟨c1, c2, c3⟩ := hC h hn h2
      clear hA hB hC ht
      cases hd : s'.drift <;> cases hw : s'.warning <;> rw [hd] at c1 <;> rw [hw] at c2 <;>
        rw [← c1] at c2 <;> simp [h2, c1.symm, c3] <;> simp at c2 <;> simp [c2]
    · simp [h2, hB h hn h2]
  · simp [hA h hn]

/-- EDDM on an error, outside the warm-up, with enough errors and no new maximum: `err.D` iff `step`
set `drift`, `err.W` iff `warning` only, `err.N` iff neither -/
theorem tag_verdict_EDDM (c : EDDM.Cfg α) (s : EDDM.State α) (v : α)
    (hv : Num.beq v (Num.one : α) = true) (h : c.minMis ≤ s.n + 1)
    (hn : eddmNewMax c s = false) (h2 : c.minMis ≤ s.numMis + 1) :
    let s' := EDDM.step c s v
    let t := branchEDDM c s s' v
    (t = "err.D" ↔ s'.drift = true) ∧
    (t = "err.W" ↔ s'.drift = false ∧ s'.warning = true) ∧
    (t = "err.N" ↔ s'.drift = false ∧ s'.warning = false) := by
  intro s' t
  simp only [t, s']
  rw [tag_eq_EDDM]
  simp only [hv, h, hn, h2, if_true]
  cases (EDDM.step c s v).drift <;> cases (EDDM.step c s v).warning <;> simp

/-- EDDM: the universe of tags -/
theorem tag_mem_EDDM (c : EDDM.Cfg α) (s : EDDM.State α) (v : α) :
    branchEDDM c s (EDDM.step c s v) v ∈
      ["ok", "err.warm", "err.newmax", "err.few", "err.D", "err.W", "err.N"] := by
  rw [tag_eq_EDDM]
  cases Num.beq v (Num.one : α) <;> by_cases h1 : c.minMis ≤ s.n + 1 <;>
    by_cases h2 : c.minMis ≤ s.numMis + 1 <;> cases eddmNewMax c s <;>
    cases (EDDM.step c s v).drift <;> cases (EDDM.step c s v).warning <;> simp [h1, h2]

/-- what the driver prints for an EDDM instance -/
theorem branch_eddm (c : EDDM.Cfg α) (s : EDDM.State α) (v : Float) (tape : List Nat) :
    Det.branch (.eddm c s) (Det.update (.eddm c s) v tape) v =
      "EDDM:" ++ branchEDDM c s (EDDM.step c s (Carrier.ofFloat v)) (Carrier.ofFloat v) := rfl

/-! ## HDDM-A -/

/-- `step`'s guard "move the increase cut point `x` to `z`" (`update_cut_point`, after
`set_initial_cut_mean`) -/
def hddmaCutX (c : HDDMA.Cfg α) (s : HDDMA.State α) (v : α) : Bool :=
  let z := s.t.z.update v
  let x := if s.t.x.n == 0 then z else s.t.x
  Num.le (z.mean + HDDMA.bound c z.n) (x.mean + HDDMA.bound c x.n)

/-- `step`'s guard "move the decrease cut point `y` to `z`" (two-sided test only) -/
def hddmaCutY (c : HDDMA.Cfg α) (s : HDDMA.State α) (v : α) : Bool :=
  let z := s.t.z.update v
  let y := if c.twoSided && s.t.y.n == 0 then z else s.t.y
  c.twoSided && Num.le (y.mean - HDDMA.bound c y.n) (z.mean - HDDMA.bound c z.n)

/-- the test statistics `step` evaluates `check_cases` on -/
def hddmaTest (c : HDDMA.Cfg α) (s : HDDMA.State α) (v : α) : HDDMA.Test α :=
  let z := s.t.z.update v
  ⟨if hddmaCutX c s v then z else (if s.t.x.n == 0 then z else s.t.x), z,
   if hddmaCutY c s v then z else (if c.twoSided && s.t.y.n == 0 then z else s.t.y)⟩

/-- `HDDMA.step` in terms of its guards -/
theorem hddma_step (c : HDDMA.Cfg α) (s : HDDMA.State α) (v : α) :
    HDDMA.step c s v =
      if c.minN ≤ s.n + 1 then
        if (HDDMA.checkCases c (hddmaTest c s v)).1 then
          { n := s.n + 1, drift := true, warning := false, t := HDDMA.Test.init }
        else { n := s.n + 1, drift := false, warning := (HDDMA.checkCases c (hddmaTest c s v)).2,
               t := hddmaTest c s v }
      else { n := s.n + 1, drift := false, warning := false, t := hddmaTest c s v } := rfl

theorem hddma_step_n (c : HDDMA.Cfg α) (s : HDDMA.State α) (v : α) : (HDDMA.step c s v).n = s.n + 1 := by
  rw [hddma_step]; repeat' split
  all_goals rfl

/-- verdict of the increase side `(drift, warning)` -/
def sideTagI (r : Bool × Bool) : String := if r.1 then "Di" else if r.2 then "Wi" else "Ni"
/-- verdict of the decrease side `(drift, warning)` -/
def sideTagD (r : Bool × Bool) : String := if r.1 then "Dd" else if r.2 then "Wd" else "Nd"

/-- the cut-point component of the HDDM-A tag from `step`'s two cut-point guards -/
def hddmaCutTag (c : HDDMA.Cfg α) (s : HDDMA.State α) (v : α) : String :=
  (if hddmaCutX c s v then "cutx" else "keepx") ++
    (if c.twoSided then (if hddmaCutY c s v then "+cuty" else "+keepy") else "")

/-- HDDM-A: the tag is the string built from the outcomes of `step`'s cut-point guards, its warm-up
guard and the two sides of `check_cases` on the statistics `step` evaluates them on -/
theorem tag_eq_HDDMA (c : HDDMA.Cfg α) (s : HDDMA.State α) (v : α) :
    branchHDDMA c s (HDDMA.step c s v) v =
      if c.minN ≤ s.n + 1 then
        hddmaCutTag c s v ++ "." ++
          (sideTagI (HDDMA.side c (hddmaTest c s v).x (hddmaTest c s v).z true) ++
           (if c.twoSided then sideTagD (HDDMA.side c (hddmaTest c s v).y (hddmaTest c s v).z false) else ""))
      else hddmaCutTag c s v ++ ".warm" := by
  unfold branchHDDMA
  rw [hddma_step_n]
  obtain ⟨aD, aW, ts, mn⟩ := c
  cases ts <;> rfl

/-- the flags `HDDMA.step` sets outside the warm-up, from the two sides of `check_cases` -/
theorem hddma_step_hot (c : HDDMA.Cfg α) (s : HDDMA.State α) (v : α) (h : c.minN ≤ s.n + 1) :
    let s' := HDDMA.step c s v
    let t := hddmaTest c s v
    let i := HDDMA.side c t.x t.z true
    let d := HDDMA.side c t.y t.z false
    s'.drift = (i.1 || (c.twoSided && d.1)) ∧
    s'.warning = (!s'.drift && (i.2 || (c.twoSided && d.2))) := by
  intro s' t i d
  simp only [s', hddma_step, h, if_true, HDDMA.checkCases]
  cases ht : c.twoSided <;> simp only [i, d, t] <;>
    cases HDDMA.side c (hddmaTest c s v).x (hddmaTest c s v).z true with | mk i1 i2 =>
    cases HDDMA.side c (hddmaTest c s v).y (hddmaTest c s v).z false with | mk d1 d2 =>
    cases i1 <;> cases i2 <;> cases d1 <;> cases d2 <;> simp

/-- the warm-up tags of HDDM-A -/
def hddmaWarmTags : List String := [
    "cutx.warm", "keepx.warm", "cutx+cuty.warm", "cutx+keepy.warm", "keepx+cuty.warm",
    "keepx+keepy.warm"]
/-- the HDDM-A tags whose verdict has a drift side (`Di` or `Dd`) -/
def hddmaDriftTags : List String := [
    "cutx.Di", "keepx.Di", "cutx+cuty.DiDd", "cutx+cuty.DiWd", "cutx+cuty.DiNd", "cutx+cuty.WiDd",
    "cutx+cuty.NiDd", "cutx+keepy.DiDd", "cutx+keepy.DiWd", "cutx+keepy.DiNd", "cutx+keepy.WiDd",
    "cutx+keepy.NiDd", "keepx+cuty.DiDd", "keepx+cuty.DiWd", "keepx+cuty.DiNd", "keepx+cuty.WiDd",
    "keepx+cuty.NiDd", "keepx+keepy.DiDd", "keepx+keepy.DiWd", "keepx+keepy.DiNd",
    "keepx+keepy.WiDd", "keepx+keepy.NiDd"]
/-- the HDDM-A tags whose verdict has no drift side but a warning side (`Wi` or `Wd`) -/
def hddmaWarnTags : List String := [
    "cutx.Wi", "keepx.Wi", "cutx+cuty.WiWd", "cutx+cuty.WiNd", "cutx+cuty.NiWd", "cutx+keepy.WiWd",
    "cutx+keepy.WiNd", "cutx+keepy.NiWd", "keepx+cuty.WiWd", "keepx+cuty.WiNd", "keepx+cuty.NiWd",
    "keepx+keepy.WiWd", "keepx+keepy.WiNd", "keepx+keepy.NiWd"]
/-- the HDDM-A tags whose verdict has neither -/
def hddmaNormalTags : List String := [
    "cutx.Ni", "keepx.Ni", "cutx+cuty.NiNd", "cutx+keepy.NiNd", "keepx+cuty.NiNd",
    "keepx+keepy.NiNd"]

/-- HDDM-A: a `*.warm` tag iff `step` took the warm-up branch -/
theorem tag_warm_iff_HDDMA (c : HDDMA.Cfg α) (s : HDDMA.State α) (v : α) :
    branchHDDMA c s (HDDMA.step c s v) v ∈ hddmaWarmTags ↔ ¬ (c.minN ≤ s.n + 1) := by
  rw [tag_eq_HDDMA]
  unfold hddmaCutTag sideTagI sideTagD hddmaWarmTags
  by_cases h : c.minN ≤ s.n + 1 <;> cases c.twoSided <;> cases hddmaCutX c s v <;>
    cases hddmaCutY c s v <;>
    cases HDDMA.side c (hddmaTest c s v).x (hddmaTest c s v).z true with | mk i1 i2 =>
    cases HDDMA.side c (hddmaTest c s v).y (hddmaTest c s v).z false with | mk d1 d2 =>
    cases i1 <;> cases i2 <;> cases d1 <;> cases d2 <;> simp [h]

/-- HDDM-A outside the warm-up: the tag is the cut-point component (by `step`'s two cut-point
guards), then the verdicts of the two sides of `check_cases`; the flags `step` set are the
disjunctions of the two sides -/
theorem tag_flags_HDDMA (c : HDDMA.Cfg α) (s : HDDMA.State α) (v : α) (h : c.minN ≤ s.n + 1) :
    let s' := HDDMA.step c s v
    let t := hddmaTest c s v
    let i := HDDMA.side c t.x t.z true
    let d := HDDMA.side c t.y t.z false
    branchHDDMA c s s' v =
      hddmaCutTag c s v ++ "." ++ (sideTagI i ++ (if c.twoSided then sideTagD d else "")) ∧
    s'.drift = (i.1 || (c.twoSided && d.1)) ∧
    s'.warning = (!s'.drift && (i.2 || (c.twoSided && d.2))) := by
  intro s' t i d
  refine ⟨?_, hddma_step_hot c s v h⟩
  simp only [s']
  rw [tag_eq_HDDMA, if_pos h]

/-- HDDM-A outside the warm-up: a tag with a drift side iff `step` set `drift`; a tag with a warning
side and no drift side iff it set `warning` only; a tag with neither iff neither -/
theorem tag_verdict_HDDMA (c : HDDMA.Cfg α) (s : HDDMA.State α) (v : α) (h : c.minN ≤ s.n + 1) :
    let s' := HDDMA.step c s v
    let t := branchHDDMA c s s' v
    (t ∈ hddmaDriftTags ↔ s'.drift = true) ∧
    (t ∈ hddmaWarnTags ↔ s'.drift = false ∧ s'.warning = true) ∧
    (t ∈ hddmaNormalTags ↔ s'.drift = false ∧ s'.warning = false) := by
  intro s' t
  obtain ⟨h1, h2, h3⟩ := tag_flags_HDDMA c s v h
  simp only [t, s']
  rw [h3, h2, h1]
  unfold hddmaCutTag sideTagI sideTagD hddmaDriftTags hddmaWarnTags hddmaNormalTags
  cases c.twoSided <;> cases hddmaCutX c s v <;> cases hddmaCutY c s v <;>
    cases HDDMA.side c (hddmaTest c s v).x (hddmaTest c s v).z true with | mk i1 i2 =>
    cases HDDMA.side c (hddmaTest c s v).y (hddmaTest c s v).z false with | mk d1 d2 =>
    cases i1 <;> cases i2 <;> cases d1 <;> cases d2 <;> simp

/-- HDDM-A: the universe of tags (one-sided: 2 cut-point components × 4, two-sided: 4 × 10) -/
theorem tag_mem_HDDMA (c : HDDMA.Cfg α) (s : HDDMA.State α) (v : α) :
    branchHDDMA c s (HDDMA.step c s v) v ∈ hddmaWarmTags ++ hddmaDriftTags ++ hddmaWarnTags ++ hddmaNormalTags := by
  rw [tag_eq_HDDMA]
  unfold hddmaCutTag sideTagI sideTagD hddmaWarmTags hddmaDriftTags hddmaWarnTags hddmaNormalTags
  by_cases h : c.minN ≤ s.n + 1 <;> cases c.twoSided <;> cases hddmaCutX c s v <;>
    cases hddmaCutY c s v <;>
    cases HDDMA.side c (hddmaTest c s v).x (hddmaTest c s v).z true with | mk i1 i2 =>
    cases HDDMA.side c (hddmaTest c s v).y (hddmaTest c s v).z false with | mk d1 d2 =>
    cases i1 <;> cases i2 <;> cases d1 <;> cases d2 <;> simp [h]

/-- what the driver prints for an HDDM-A instance -/
theorem branch_hddma (c : HDDMA.Cfg α) (s : HDDMA.State α) (v : Float) (tape : List Nat) :
    Det.branch (.hddma c s) (Det.update (.hddma c s) v tape) v =
      (if c.twoSided then "HDDMA2:" else "HDDMA1:") ++
        branchHDDMA c s (HDDMA.step c s (Carrier.ofFloat v)) (Carrier.ofFloat v) := rfl


/-! ## HDDM-W -/

/-- the upper / lower cut candidates `update_stats` computes: `total.mean ± eps` -/
def hddmwUp (c : HDDMW.Cfg α) (s : HDDMW.State α) (v : α) : α :=
  let total := HDDMW.Sample.update c.lam s.t.total v
  total.ewma.mean + HDDMW.mcBound total.ibc c.lam
def hddmwDn (c : HDDMW.Cfg α) (s : HDDMW.State α) (v : α) : α :=
  let total := HDDMW.Sample.update c.lam s.t.total v
  total.ewma.mean - HDDMW.mcBound total.ibc c.lam

/-- `update_stats`' guard "new increase cut point" -/
def hddmwNewInc (c : HDDMW.Cfg α) (s : HDDMW.State α) (v : α) : Bool :=
  match s.t.incCut with | none => true | some cp => Num.lt (hddmwUp c s v) cp

/-- `update_stats`' guard "new decrease cut point" (two-sided test only) -/
def hddmwNewDec (c : HDDMW.Cfg α) (s : HDDMW.State α) (v : α) : Bool :=
  c.twoSided && (match s.t.decCut with | none => true | some cp => Num.gt (hddmwDn c s v) cp)

/-- the cut points `update_stats` stores: replaced exactly when the guards above hold -/
theorem hddmw_updateStats_cuts (c : HDDMW.Cfg α) (s : HDDMW.State α) (v : α) :
    (HDDMW.updateStats c s.t v).incCut = (if hddmwNewInc c s v then some (hddmwUp c s v) else s.t.incCut) ∧
    (HDDMW.updateStats c s.t v).decCut = (if hddmwNewDec c s v then some (hddmwDn c s v) else s.t.decCut) := by
  obtain ⟨aD, aW, ts, lam, mn⟩ := c
  obtain ⟨n, d, w, ⟨total, i1, i2, ic, d1, d2, dc⟩⟩ := s
  simp only [HDDMW.updateStats, hddmwNewInc, hddmwNewDec, hddmwUp, hddmwDn]
  cases ts <;> cases ic <;> cases dc <;> simp <;> (repeat' split) <;> simp_all

/-- the four verdict components, from the threshold guards on the statistics `step` stored -/
def hddmwDi (c : HDDMW.Cfg α) (s : HDDMW.State α) (v : α) : Bool :=
  let t := HDDMW.updateStats c s.t v
  HDDMW.thr t.inc1 t.inc2 c.alphaD
def hddmwWi (c : HDDMW.Cfg α) (s : HDDMW.State α) (v : α) : Bool :=
  let t := HDDMW.updateStats c s.t v
  !hddmwDi c s v && HDDMW.thr t.inc1 t.inc2 c.alphaW
def hddmwDd (c : HDDMW.Cfg α) (s : HDDMW.State α) (v : α) : Bool :=
  let t := HDDMW.updateStats c s.t v
  c.twoSided && !hddmwDi c s v && HDDMW.thr t.dec2 t.dec1 c.alphaD
def hddmwWd (c : HDDMW.Cfg α) (s : HDDMW.State α) (v : α) : Bool :=
  let t := HDDMW.updateStats c s.t v
  c.twoSided && !(hddmwWi c s v || hddmwDd c s v) && !hddmwDi c s v && HDDMW.thr t.dec2 t.dec1 c.alphaW

theorem hddmw_step_n (c : HDDMW.Cfg α) (s : HDDMW.State α) (v : α) : (HDDMW.step c s v).n = s.n + 1 := by
  unfold HDDMW.step
  simp only []
  repeat' split
  all_goals rfl

/-- the flags `HDDMW.step` sets outside the warm-up are the disjunctions of the verdict components -/
theorem hddmw_step_hot (c : HDDMW.Cfg α) (s : HDDMW.State α) (v : α) (h : c.minN ≤ s.n + 1) :
    let s' := HDDMW.step c s v
    s'.drift = (hddmwDi c s v || hddmwDd c s v) ∧
    s'.warning = (!s'.drift && (hddmwWi c s v || hddmwWd c s v)) := by
  simp only [HDDMW.step, h, if_true, HDDMW.checkChanges, hddmwDi, hddmwWi, hddmwDd, hddmwWd]
  cases c.twoSided <;>
    cases HDDMW.thr (HDDMW.updateStats c s.t v).inc1 (HDDMW.updateStats c s.t v).inc2 c.alphaD <;>
    cases HDDMW.thr (HDDMW.updateStats c s.t v).inc1 (HDDMW.updateStats c s.t v).inc2 c.alphaW <;>
    cases HDDMW.thr (HDDMW.updateStats c s.t v).dec2 (HDDMW.updateStats c s.t v).dec1 c.alphaD <;>
    cases HDDMW.thr (HDDMW.updateStats c s.t v).dec2 (HDDMW.updateStats c s.t v).dec1 c.alphaW <;> simp

/-- the cut-point component of the HDDM-W tag from `update_stats`' two guards -/
def hddmwCutTag (c : HDDMW.Cfg α) (s : HDDMW.State α) (v : α) : String :=
  (if hddmwNewInc c s v then "cuti" else "keepi") ++
    (if c.twoSided then (if hddmwNewDec c s v then "+cutd" else "+keepd") else "")

/-- the verdict component of the HDDM-W tag -/
def hddmwVerdictTag (c : HDDMW.Cfg α) (s : HDDMW.State α) (v : α) : String :=
  (if hddmwDi c s v then "Di" else if hddmwWi c s v then "Wi" else "Ni") ++
    (if c.twoSided then (if hddmwDd c s v then "Dd" else if hddmwWd c s v then "Wd" else "Nd") else "")

/-- HDDM-W: the tag is the string built from the outcomes of `update_stats`' cut-point guards,
`step`'s warm-up guard and the threshold guards of `check_changes` -/
theorem tag_eq_HDDMW (c : HDDMW.Cfg α) (s : HDDMW.State α) (v : α) :
    branchHDDMW c s (HDDMW.step c s v) v =
      if c.minN ≤ s.n + 1 then hddmwCutTag c s v ++ "." ++ hddmwVerdictTag c s v
      else hddmwCutTag c s v ++ ".warm" := by
  unfold branchHDDMW
  rw [hddmw_step_n]
  rfl

def hddmwWarmTags : List String := [
    "cuti.warm", "keepi.warm", "cuti+cutd.warm", "cuti+keepd.warm", "keepi+cutd.warm",
    "keepi+keepd.warm"]
/-- the HDDM-W tags whose verdict has a drift side (`Di` or `Dd`) -/
def hddmwDriftTags : List String := [
    "cuti.Di", "keepi.Di", "cuti+cutd.DiNd", "cuti+cutd.WiDd", "cuti+cutd.NiDd", "cuti+keepd.DiNd",
    "cuti+keepd.WiDd", "cuti+keepd.NiDd", "keepi+cutd.DiNd", "keepi+cutd.WiDd", "keepi+cutd.NiDd",
    "keepi+keepd.DiNd", "keepi+keepd.WiDd", "keepi+keepd.NiDd"]
/-- the HDDM-W tags whose verdict has no drift side but a warning side (`Wi` or `Wd`) -/
def hddmwWarnTags : List String := [
    "cuti.Wi", "keepi.Wi", "cuti+cutd.WiNd", "cuti+cutd.NiWd", "cuti+keepd.WiNd",
    "cuti+keepd.NiWd", "keepi+cutd.WiNd", "keepi+cutd.NiWd", "keepi+keepd.WiNd", "keepi+keepd.NiWd"]
/-- the HDDM-W tags whose verdict has neither -/
def hddmwNormalTags : List String := [
    "cuti.Ni", "keepi.Ni", "cuti+cutd.NiNd", "cuti+keepd.NiNd", "keepi+cutd.NiNd",
    "keepi+keepd.NiNd"]

/-- the HDDM-W tag as a function of the eight guard outcomes: warm-up guard, `two_sided_test`, the two
cut-point guards and the four threshold guards (increase/decrease × drift/warning level) -/
def hddmwTagOf (hot ts ni nd a b c' e : Bool) : String :=
  let cut := (if ni then "cuti" else "keepi") ++ (if ts then (if nd then "+cutd" else "+keepd") else "")
  let di := a
  let wi := !a && b
  let dd := ts && !a && c'
  let wd := ts && !(wi || dd) && !a && e
  if hot then
    cut ++ "." ++ ((if di then "Di" else if wi then "Wi" else "Ni") ++
      (if ts then (if dd then "Dd" else if wd then "Wd" else "Nd") else ""))
  else cut ++ ".warm"

/-- HDDM-W: the tag is `hddmwTagOf` of the outcomes of the guards `step` evaluated -/
theorem tag_eq_HDDMW' (c : HDDMW.Cfg α) (s : HDDMW.State α) (v : α) :
    branchHDDMW c s (HDDMW.step c s v) v =
      hddmwTagOf (decide (c.minN ≤ s.n + 1)) c.twoSided (hddmwNewInc c s v) (hddmwNewDec c s v)
        (HDDMW.thr (HDDMW.updateStats c s.t v).inc1 (HDDMW.updateStats c s.t v).inc2 c.alphaD)
        (HDDMW.thr (HDDMW.updateStats c s.t v).inc1 (HDDMW.updateStats c s.t v).inc2 c.alphaW)
        (HDDMW.thr (HDDMW.updateStats c s.t v).dec2 (HDDMW.updateStats c s.t v).dec1 c.alphaD)
        (HDDMW.thr (HDDMW.updateStats c s.t v).dec2 (HDDMW.updateStats c s.t v).dec1 c.alphaW) := by
  rw [tag_eq_HDDMW]
  by_cases h : c.minN ≤ s.n + 1
  · rw [if_pos h, decide_eq_true h]; rfl
  · rw [if_neg h, decide_eq_false h]; rfl

theorem hddmwTagOf_warm (hot ts ni nd a b c' e : Bool) :
    hddmwTagOf hot ts ni nd a b c' e ∈ hddmwWarmTags ↔ hot = false := by
  cases hot <;> cases ts <;> cases ni <;> cases nd <;> cases a <;> cases b <;> cases c' <;> cases e <;> decide

theorem hddmwTagOf_mem (hot ts ni nd a b c' e : Bool) :
    hddmwTagOf hot ts ni nd a b c' e ∈ hddmwWarmTags ++ hddmwDriftTags ++ hddmwWarnTags ++ hddmwNormalTags := by
  cases hot <;> cases ts <;> cases ni <;> cases nd <;> cases a <;> cases b <;> cases c' <;> cases e <;> decide

theorem hddmwTagOf_verdict (ts ni nd a b c' e : Bool) :
    let t := hddmwTagOf true ts ni nd a b c' e
    let dr := a || (ts && !a && c')
    let wr := !dr && ((!a && b) || (ts && !((!a && b) || (ts && !a && c')) && !a && e))
    (t ∈ hddmwDriftTags ↔ dr = true) ∧
    (t ∈ hddmwWarnTags ↔ dr = false ∧ wr = true) ∧
    (t ∈ hddmwNormalTags ↔ dr = false ∧ wr = false) := by
  cases ts <;> cases ni <;> cases nd <;> cases a <;> cases b <;> cases c' <;> cases e <;> decide

/-- HDDM-W: a `*.warm` tag iff `step` took the warm-up branch -/
theorem tag_warm_iff_HDDMW (c : HDDMW.Cfg α) (s : HDDMW.State α) (v : α) :
    branchHDDMW c s (HDDMW.step c s v) v ∈ hddmwWarmTags ↔ ¬ (c.minN ≤ s.n + 1) := by
  rw [tag_eq_HDDMW', hddmwTagOf_warm]
  simp

/-- HDDM-W outside the warm-up: the tag is the cut-point component, then the verdict component; the
flags `step` set are the disjunctions of the verdict components -/
theorem tag_flags_HDDMW (c : HDDMW.Cfg α) (s : HDDMW.State α) (v : α) (h : c.minN ≤ s.n + 1) :
    let s' := HDDMW.step c s v
    branchHDDMW c s s' v = hddmwCutTag c s v ++ "." ++ hddmwVerdictTag c s v ∧
    s'.drift = (hddmwDi c s v || hddmwDd c s v) ∧
    s'.warning = (!s'.drift && (hddmwWi c s v || hddmwWd c s v)) := by
  intro s'
  refine ⟨?_, hddmw_step_hot c s v h⟩
  simp only [s']
  rw [tag_eq_HDDMW, if_pos h]

/-- HDDM-W outside the warm-up: a tag with a drift side iff `step` set `drift`; a tag with a warning
side and no drift side iff it set `warning` only; a tag with neither iff neither -/
theorem tag_verdict_HDDMW (c : HDDMW.Cfg α) (s : HDDMW.State α) (v : α) (h : c.minN ≤ s.n + 1) :
    let s' := HDDMW.step c s v
    let t := branchHDDMW c s s' v
    (t ∈ hddmwDriftTags ↔ s'.drift = true) ∧
    (t ∈ hddmwWarnTags ↔ s'.drift = false ∧ s'.warning = true) ∧
    (t ∈ hddmwNormalTags ↔ s'.drift = false ∧ s'.warning = false) := by
  intro s' t
  obtain ⟨h2, h3⟩ := hddmw_step_hot c s v h
  simp only [t, s']
  rw [h3, h2, tag_eq_HDDMW', decide_eq_true h]
  exact hddmwTagOf_verdict _ _ _ _ _ _ _

/-- HDDM-W: the universe of tags (one-sided: 2 cut-point components × 4, two-sided: 4 × 7) -/
theorem tag_mem_HDDMW (c : HDDMW.Cfg α) (s : HDDMW.State α) (v : α) :
    branchHDDMW c s (HDDMW.step c s v) v ∈ hddmwWarmTags ++ hddmwDriftTags ++ hddmwWarnTags ++ hddmwNormalTags := by
  rw [tag_eq_HDDMW']
  exact hddmwTagOf_mem _ _ _ _ _ _ _ _

/-- what the driver prints for an HDDM-W instance -/
theorem branch_hddmw (c : HDDMW.Cfg α) (s : HDDMW.State α) (v : Float) (tape : List Nat) :
    Det.branch (.hddmw c s) (Det.update (.hddmw c s) v tape) v =
      (if c.twoSided then "HDDMW2:" else "HDDMW1:") ++
        branchHDDMW c s (HDDMW.step c s (Carrier.ofFloat v)) (Carrier.ofFloat v) := rfl

/-! ## RDDM, ADWIN — driver wrapper only

NOT PROVED for these two detectors: `tag_eq`, `tag_warm_iff`, `tag_flags`, `tag_mem` (the tags of RDDM
and ADWIN remain unproved with respect to `RDDM.step` / `ADWIN.step`).  Only the shape of what the
driver prints is recorded. -/

/-- what the driver prints for an RDDM instance -/
theorem branch_rddm (c : RDDM.Cfg α) (s : RDDM.State α) (v : Float) (tape : List Nat) :
    Det.branch (.rddm c s) (Det.update (.rddm c s) v tape) v =
      "RDDM:" ++ branchRDDM c s (RDDM.step c s (Carrier.ofFloat v)) := rfl

/-- what the driver prints for an ADWIN instance -/
theorem branch_adwin (c : ADWIN.Cfg α) (s : ADWIN.State α) (v : Float) (tape : List Nat) :
    Det.branch (.adwin c s) (Det.update (.adwin c s) v tape) v =
      "ADWIN:" ++ branchADWIN c s (ADWIN.step c s (Carrier.ofFloat v)) (Carrier.ofFloat v) := rfl

/-! ## axioms -/
#print axioms ddm_step_n
#print axioms ddm_step_er
#print axioms ddm_step_hot
#print axioms tag_eq_DDM
#print axioms tag_warm_iff_DDM
#print axioms tag_flags_DDM
#print axioms tag_min_iff_DDM
#print axioms tag_verdict_DDM
#print axioms tag_mem_DDM
#print axioms branch_ddm
#print axioms ecdd_step_n
#print axioms ecdd_step_hot
#print axioms tag_eq_ECDD
#print axioms tag_warm_iff_ECDD
#print axioms tag_flags_ECDD
#print axioms tag_verdict_ECDD
#print axioms tag_mem_ECDD
#print axioms branch_ecdd
#print axioms cusum_step
#print axioms tag_eq_CUSUM
#print axioms tag_warm_iff_CUSUM
#print axioms tag_flags_CUSUM
#print axioms tag_verdict_CUSUM
#print axioms tag_clipped_iff_CUSUM
#print axioms tag_kind_CUSUM
#print axioms tag_mem_CUSUM
#print axioms branch_cusum
#print axioms kswin_step
#print axioms tag_eq_KSWIN
#print axioms tag_warm_iff_KSWIN
#print axioms tag_flags_KSWIN
#print axioms tag_verdict_KSWIN
#print axioms tag_mem_KSWIN
#print axioms branch_kswin
#print axioms stepd_step_error
#print axioms stepd_step_ok
#print axioms tag_eq_STEPD
#print axioms tag_err_iff_STEPD
#print axioms tag_warm_iff_STEPD
#print axioms tag_flags_STEPD
#print axioms tag_verdict_STEPD
#print axioms tag_mem_STEPD
#print axioms branch_stepd
#print axioms bocd_step
#print axioms tag_eq_BOCD
#print axioms tag_warm_iff_BOCD
#print axioms tag_flags_BOCD
#print axioms tag_verdict_BOCD
#print axioms tag_mem_BOCD
#print axioms branch_bocd
#print axioms eddm_step_n
#print axioms eddm_step_err
#print axioms eddm_step_ok
#print axioms tag_eq_EDDM
#print axioms tag_warm_iff_EDDM
#print axioms tag_flags_EDDM
#print axioms tag_verdict_EDDM
#print axioms tag_mem_EDDM
#print axioms branch_eddm
#print axioms hddma_step
#print axioms hddma_step_n
#print axioms tag_eq_HDDMA
#print axioms hddma_step_hot
#print axioms tag_warm_iff_HDDMA
#print axioms tag_flags_HDDMA
#print axioms tag_verdict_HDDMA
#print axioms tag_mem_HDDMA
#print axioms branch_hddma
#print axioms hddmw_updateStats_cuts
#print axioms hddmw_step_n
#print axioms hddmw_step_hot
#print axioms tag_eq_HDDMW
#print axioms tag_eq_HDDMW
#print axioms hddmwTagOf_warm
#print axioms hddmwTagOf_mem
#print axioms hddmwTagOf_verdict
#print axioms tag_warm_iff_HDDMW
#print axioms tag_flags_HDDMW
#print axioms tag_verdict_HDDMW
#print axioms tag_mem_HDDMW
#print axioms branch_hddmw
#print axioms branch_rddm
#print axioms branch_adwin

end Frouros.Cov
