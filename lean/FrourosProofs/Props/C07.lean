/-
  C07 — CUSUM, Page-Hinkley and the geometric moving average follow their textbook recurrences.

  Model: `CUSUMFam` (`FrourosModel/Change.lean`), `Mean` (`FrourosModel/Stats.lean`).
  Arithmetic statements are at the carrier `ℝ`; the statements that are pure control flow
  (`n`, `mean.n`, independence of `lambda`, histories with resets) are proved for every carrier.

  Specification (non-incremental).  For a stream `xs`, with `m_t = (x_1+…+x_t)/t` the *arithmetic* mean
  of the first `t` values, `g_0 = 0` and
    cusum        `g_t = max 0 (g_{t-1} + x_t - m_t - delta)`
    pageHinkley  `g_t = alpha * g_{t-1} + x_t - m_t - delta`
    gma          `g_t = alpha * g_{t-1} + (1 - alpha) * (x_t - m_t)`
  and `drift_t ⇔ minN ≤ t ∧ lambda < g_t`  (for `t ≥ 1`; see `model_eq_spec` for `t = 0`).
-/
import Mathlib.Tactic.Ring
import Mathlib.Tactic.FieldSimp
import Mathlib.Tactic.Linarith
import Mathlib.Tactic.NormNum
import Mathlib.Algebra.BigOperators.Group.List.Basic
import FrourosProofs.RealNum
import FrourosProofs.Machines

namespace Frouros.C07
open Frouros CUSUMFam

/-! ## The specification -/

/-- arithmetic mean `(x_1 + … + x_t) / t`.  Only ever used on non-empty lists below
(`amean [] = 0 / 0` is never relied upon: every statement that mentions `amean xs` has `xs ≠ []`
or applies it to a list of the form `pre ++ [x]`). -/
noncomputable def amean (xs : List ℝ) : ℝ := xs.sum / (xs.length : ℝ)

/-- one step of the recurrence: `g_t` from `g = g_{t-1}`, `m = m_t`, `x = x_t` -/
noncomputable def specStep (c : Cfg ℝ) (g m x : ℝ) : ℝ :=
  match c.kind with
  | .cusum => max 0 (g + x - m - c.delta)
  | .pageHinkley => c.alpha * g + x - m - c.delta
  | .gma => c.alpha * g + (1 - c.alpha) * (x - m)

/-- `specFrom c pre g rest`: continue the recurrence over `rest`, having already consumed `pre`
(with statistic `g`).  The mean used at each step is the arithmetic mean of the whole prefix consumed so
far — nothing incremental. -/
noncomputable def specFrom (c : Cfg ℝ) (pre : List ℝ) (g : ℝ) : List ℝ → ℝ
  | [] => g
  | x :: rest => specFrom c (pre ++ [x]) (specStep c g (amean (pre ++ [x])) x) rest

/-- `specG c xs = g_t` for the stream prefix `xs` of length `t` -/
noncomputable def specG (c : Cfg ℝ) (xs : List ℝ) : ℝ := specFrom c [] 0 xs

theorem specFrom_append (c : Cfg ℝ) (pre : List ℝ) (g : ℝ) (xs ys : List ℝ) :
    specFrom c pre g (xs ++ ys) = specFrom c (pre ++ xs) (specFrom c pre g xs) ys := by
  induction xs generalizing pre g with
  | nil => simp [specFrom]
  | cons x xs ih => simp [specFrom, ih]

/-- `g_0 = 0` -/
@[simp] theorem specG_nil (c : Cfg ℝ) : specG c [] = 0 := rfl

/-- `g_t = specStep g_{t-1} m_t x_t`; together with `specG_nil` this characterises `specG` uniquely -/
theorem specG_snoc (c : Cfg ℝ) (xs : List ℝ) (x : ℝ) :
    specG c (xs ++ [x]) = specStep c (specG c xs) (amean (xs ++ [x])) x := by
  unfold specG
  rw [specFrom_append]
  simp [specFrom]

/-- The indexed reading of the specification, exactly as in the task statement:
`g_{t+1} = specStep g_t m_{t+1} x_{t+1}` with `m_{t+1} = (xs.take (t+1)).sum / (t+1)`. -/
theorem specG_take_succ (c : Cfg ℝ) (xs : List ℝ) (t : Nat) (ht : t < xs.length) :
    specG c (xs.take (t + 1)) =
      specStep c (specG c (xs.take t)) ((xs.take (t + 1)).sum / ((t + 1 : Nat) : ℝ)) xs[t] := by
  have e := List.take_succ_eq_append_getElem ht
  have hl : (xs.take (t + 1)).length = t + 1 := by rw [List.length_take]; omega
  have hm : amean (xs.take (t + 1)) = (xs.take (t + 1)).sum / ((t + 1 : Nat) : ℝ) := by
    unfold amean; rw [hl]
  rw [← hm]
  conv_lhs => rw [e]
  rw [specG_snoc, ← e]

/-! ## The model run -/

/-- state of the detector after the updates `xs` (no reset) -/
def runL {α : Type} [Num α] (c : Cfg α) (xs : List α) : State α := xs.foldl (step c) init

/-- the running mean after the updates `xs` -/
def meanL {α : Type} [Num α] (xs : List α) : Mean α := xs.foldl Mean.update Mean.init

section AnyCarrier
variable {α : Type} [Num α]

@[simp] theorem runL_nil (c : Cfg α) : runL c [] = init := rfl
theorem runL_snoc (c : Cfg α) (xs : List α) (x : α) : runL c (xs ++ [x]) = step c (runL c xs) x := by
  simp [runL, List.foldl_append]
@[simp] theorem meanL_nil : meanL ([] : List α) = Mean.init := rfl
theorem meanL_snoc (xs : List α) (x : α) : meanL (xs ++ [x]) = (meanL xs).update x := by
  simp [meanL, List.foldl_append]

/-- the counter of the incremental mean is the number of values (every carrier) -/
theorem mean_run_n (xs : List α) : (meanL xs).n = xs.length := by
  induction xs using List.reverseRecOn with
  | nil => rfl
  | append_singleton xs x ih => rw [meanL_snoc]; simp [Mean.update, ih]

/-- the `mean` field of the detector is the running `Mean` of the values (every carrier) -/
theorem run_mean (c : Cfg α) (xs : List α) : (runL c xs).mean = meanL xs := by
  induction xs using List.reverseRecOn with
  | nil => rfl
  | append_singleton xs x ih => rw [runL_snoc, meanL_snoc, ← ih]; rfl

/-- `num_instances` counts the updates (every carrier) -/
theorem run_n (c : Cfg α) (xs : List α) : (runL c xs).n = xs.length := by
  induction xs using List.reverseRecOn with
  | nil => rfl
  | append_singleton xs x ih => rw [runL_snoc]; simp [step, ih]

/-- warm-up (every carrier): no drift before `minN` updates -/
theorem run_warmup (c : Cfg α) (xs : List α) (h : xs.length < c.minN) : (runL c xs).drift = false := by
  induction xs using List.reverseRecOn with
  | nil => rfl
  | append_singleton xs x _ =>
    rw [runL_snoc]
    have : ¬ c.minN ≤ (runL c xs).n + 1 := by
      rw [run_n]; simp only [List.length_append, List.length_singleton] at h; omega
    simp [step, this]
end AnyCarrier

/-! ## 1. incremental mean = arithmetic mean -/

/-- **mean_run.**  After a non-empty prefix the incremental mean `mean += (v - mean)/n` equals the arithmetic
mean `xs.sum / xs.length`.  Hypothesis `xs ≠ []`: for the empty prefix the model has `mean = 0` by
initialisation while `xs.sum / xs.length` is `0/0`; the two agree in Lean only through the junk value of
division by zero, so that case is excluded on purpose. -/
theorem mean_run (xs : List ℝ) (hne : xs ≠ []) : (meanL xs).mean = xs.sum / (xs.length : ℝ) := by
  induction xs using List.reverseRecOn with
  | nil => exact absurd rfl hne
  | append_singleton xs x ih =>
    rw [meanL_snoc]
    have hn := mean_run_n xs
    by_cases hx : xs = []
    · subst hx
      simp [Mean.update, Mean.init]
    · have ih' := ih hx
      have hlen : (0 : ℝ) < (xs.length : ℝ) := by
        have : 0 < xs.length := List.length_pos_iff.mpr hx
        exact_mod_cast this
      simp only [Mean.update, hn, ih', RealNum.ofNat_eq, List.sum_append, List.sum_nil,
        List.length_append, List.length_singleton, Nat.cast_add, Nat.cast_one, List.sum_cons, add_zero]
      field_simp
      ring

example : (meanL ([1, 2, 6] : List ℝ)).mean = 3 := by
  rw [mean_run _ (by simp)]; norm_num

/-- `mean_run` in terms of `amean` -/
theorem mean_run_amean (xs : List ℝ) (hne : xs ≠ []) : (meanL xs).mean = amean xs := mean_run xs hne

/-! ## 2. model = specification -/

/-- the model's `_update_sum` is the specified recurrence step (at `ℝ`) -/
theorem updateSum_eq_specStep (c : Cfg ℝ) (g m v : ℝ) : updateSum c g m v = specStep c g m v := by
  unfold updateSum specStep
  cases c.kind with
  | cusum => simp only [RealNum.max0_eq]
  | pageHinkley => simp only []; ring
  | gma => simp only [RealNum.one_eq]

/-- one model step in specification terms -/
theorem step_sum (c : Cfg ℝ) (s : State ℝ) (v : ℝ) :
    (step c s v).sum = specStep c s.sum (s.mean.update v).mean v := by
  simp [step, updateSum_eq_specStep]

theorem step_drift (c : Cfg ℝ) (s : State ℝ) (v : ℝ) :
    (step c s v).drift = decide (c.minN ≤ s.n + 1 ∧ c.lambda < (step c s v).sum) := by
  have h1 : (step c s v).drift = (decide (c.minN ≤ s.n + 1) && Num.gt (step c s v).sum c.lambda) := rfl
  rw [h1, Bool.eq_iff_iff]
  simp

/-- `sum = g_t` for the whole prefix -/
theorem run_sum (c : Cfg ℝ) (xs : List ℝ) : (runL c xs).sum = specG c xs := by
  induction xs using List.reverseRecOn with
  | nil => simp [init]
  | append_singleton xs x ih =>
    rw [runL_snoc, step_sum, specG_snoc, ih, run_mean, ← meanL_snoc, mean_run_amean _ (by simp)]

/-- `drift_t` for the whole prefix.  For `xs = []` the model's flag is `false` (initialisation). -/
theorem run_drift (c : Cfg ℝ) (xs : List ℝ) :
    (runL c xs).drift = decide (xs ≠ [] ∧ c.minN ≤ xs.length ∧ c.lambda < specG c xs) := by
  induction xs using List.reverseRecOn with
  | nil => simp [init]
  | append_singleton xs x _ =>
    have h := step_drift c (runL c xs) x
    rw [← runL_snoc, run_sum, run_n] at h
    rw [h, Bool.eq_iff_iff]
    simp

/-- **model_eq_spec.**  For every configuration (all three kinds), stream `xs` and `t ≤ xs.length`, the state
after the first `t` updates has `n = t`, `sum = g_t`, running mean `= m_t` (for `t ≥ 1`) and
`drift = (1 ≤ t ∧ minN ≤ t ∧ lambda < g_t)`.

The conjunct `1 ≤ t` is necessary: at `t = 0` the model's flag is `false` by initialisation, whereas the
bare formula `minN ≤ 0 ∧ lambda < g_0 = 0` is true when `minN = 0` and `lambda < 0` (see
`drift_zero_witness`).  `model_eq_spec_drift` removes it under either of the side conditions the
library's own constructor validation guarantees (`minN ≥ 1`, `lambda ≥ 0`). -/
theorem model_eq_spec (c : Cfg ℝ) (xs : List ℝ) (t : Nat) (ht : t ≤ xs.length) :
    let s := runL c (xs.take t)
    s.n = t ∧ s.sum = specG c (xs.take t) ∧ s.mean.n = t ∧
    (1 ≤ t → s.mean.mean = (xs.take t).sum / (t : ℝ)) ∧
    s.drift = decide (1 ≤ t ∧ c.minN ≤ t ∧ c.lambda < specG c (xs.take t)) := by
  have hlen : (xs.take t).length = t := by simp [List.length_take, Nat.min_eq_left ht]
  refine ⟨?_, run_sum _ _, ?_, ?_, ?_⟩
  · rw [run_n, hlen]
  · rw [run_mean, mean_run_n, hlen]
  · intro h1
    have hne : xs.take t ≠ [] := by
      intro h; rw [h] at hlen; simp at hlen; omega
    rw [run_mean, mean_run _ hne, hlen]
  · rw [run_drift]
    have : (xs.take t ≠ []) ↔ 1 ≤ t := by
      rw [← List.length_pos_iff, hlen]; omega
    rw [Bool.eq_iff_iff]
    simp [hlen, this]

/-- the drift flag is *exactly* the specified `minN ≤ t ∧ lambda < g_t` as soon as `t ≥ 1`, or for every
`t` when `minN ≥ 1` or `lambda ≥ 0` (both enforced by the constructor validation of the library) -/
theorem model_eq_spec_drift (c : Cfg ℝ) (xs : List ℝ) (t : Nat) (ht : t ≤ xs.length)
    (hside : 1 ≤ t ∨ 1 ≤ c.minN ∨ 0 ≤ c.lambda) :
    (runL c (xs.take t)).drift = decide (c.minN ≤ t ∧ c.lambda < specG c (xs.take t)) := by
  rw [(model_eq_spec c xs t ht).2.2.2.2]
  by_cases h1 : 1 ≤ t
  · simp [h1]
  · have h0 : t = 0 := by omega
    subst h0
    rcases hside with h | h | h
    · omega
    · have : ¬ c.minN ≤ 0 := by omega
      simp [this]
    · have : ¬ c.lambda < 0 := not_lt.mpr h
      simp [this]

/-- without a side condition the bare formula is wrong at `t = 0`: with `minN = 0`, `lambda = -1` it
says "drift" before any sample, whereas the detector's flag is `false` -/
theorem drift_zero_witness :
    let c : Cfg ℝ := ⟨.cusum, -1, 0, 0, 0⟩
    (runL c []).drift = false ∧ (c.minN ≤ 0 ∧ c.lambda < specG c []) := by
  simp [init]

/-- per-kind readings of the recurrence satisfied by the model's `sum` -/
theorem spec_cusum (c : Cfg ℝ) (hk : c.kind = .cusum) (xs : List ℝ) (x : ℝ) :
    (runL c (xs ++ [x])).sum = max 0 ((runL c xs).sum + x - (xs ++ [x]).sum / ((xs.length + 1 : Nat) : ℝ) - c.delta) := by
  rw [run_sum, run_sum, specG_snoc]; simp [specStep, hk, amean]

theorem spec_pageHinkley (c : Cfg ℝ) (hk : c.kind = .pageHinkley) (xs : List ℝ) (x : ℝ) :
    (runL c (xs ++ [x])).sum = c.alpha * (runL c xs).sum + x - (xs ++ [x]).sum / ((xs.length + 1 : Nat) : ℝ) - c.delta := by
  rw [run_sum, run_sum, specG_snoc]; simp [specStep, hk, amean]

theorem spec_gma (c : Cfg ℝ) (hk : c.kind = .gma) (xs : List ℝ) (x : ℝ) :
    (runL c (xs ++ [x])).sum =
      c.alpha * (runL c xs).sum + (1 - c.alpha) * (x - (xs ++ [x]).sum / ((xs.length + 1 : Nat) : ℝ)) := by
  rw [run_sum, run_sum, specG_snoc]; simp [specStep, hk, amean]

/-! ### non-vacuity: concrete streams -/

/-- cusum, `delta = 0`, stream 0, 0, 3: means 0, 0, 1, so `g = 0, 0, 2` -/
example : specG ⟨.cusum, 1, 0, 0, 2⟩ [0, 0, 3] = 2 := by
  norm_num [specG, specFrom, specStep, amean]

/-- … and the model raises drift exactly at `t = 3` (`minN = 2`, `lambda = 1 < 2`) -/
example :
    let c : Cfg ℝ := ⟨.cusum, 1, 0, 0, 2⟩
    (runL c ([0, 0, 3].take 2)).drift = false ∧ (runL c ([0, 0, 3].take 3)).drift = true ∧
    (runL c ([0, 0, 3].take 3)).sum = 2 := by
  intro c
  refine ⟨?_, ?_, ?_⟩
  · rw [model_eq_spec_drift c _ 2 (by simp) (by simp)]
    norm_num [c, specG, specFrom, specStep, amean]
  · rw [model_eq_spec_drift c _ 3 (by simp) (by simp)]
    norm_num [c, specG, specFrom, specStep, amean]
  · rw [(model_eq_spec c _ 3 (by simp)).2.1]
    norm_num [c, specG, specFrom, specStep, amean]

/-- Page-Hinkley, `alpha = 1/2`, `delta = 1`, stream 2, 4: `g_1 = 2-2-1 = -1`, `g_2 = -1/2 + 4 - 3 - 1 = -1/2` -/
example : specG ⟨.pageHinkley, 1, 1, 1/2, 1⟩ [2, 4] = -1/2 := by
  norm_num [specG, specFrom, specStep, amean]

/-- gma, `alpha = 1/2`, stream 0, 4: `g_1 = 0`, `g_2 = 0 + (1/2)(4 - 2) = 1` -/
example : specG ⟨.gma, 1, 0, 1/2, 1⟩ [0, 4] = 1 := by
  norm_num [specG, specFrom, specStep, amean]

/-- the same two streams through the *model* (Page-Hinkley and gma) -/
example : (runL (⟨.pageHinkley, 1, 1, 1/2, 1⟩ : Cfg ℝ) [2, 4]).sum = -1/2 := by
  rw [run_sum]; norm_num [specG, specFrom, specStep, amean]
example : (runL (⟨.gma, 1, 0, 1/2, 1⟩ : Cfg ℝ) [0, 4]).sum = 1 := by
  rw [run_sum]; norm_num [specG, specFrom, specStep, amean]

/-! ## 3. shift invariance -/

theorem amean_shift (k : ℝ) (xs : List ℝ) (hne : xs ≠ []) : amean (xs.map (· + k)) = amean xs + k := by
  have hsum : ∀ l : List ℝ, (l.map (· + k)).sum = l.sum + (l.length : ℝ) * k := by
    intro l
    induction l with
    | nil => simp
    | cons a l ih => simp only [List.map_cons, List.sum_cons, ih, List.length_cons, Nat.cast_add, Nat.cast_one]; ring
  have hlen : (xs.length : ℝ) ≠ 0 := by
    have : 0 < xs.length := List.length_pos_iff.mpr hne
    exact_mod_cast this.ne'
  unfold amean
  rw [hsum, List.length_map]
  field_simp

theorem specStep_shift (c : Cfg ℝ) (g m x k : ℝ) : specStep c g (m + k) (x + k) = specStep c g m x := by
  unfold specStep
  cases c.kind with
  | cusum => simp only []; congr 1; ring
  | pageHinkley => simp only []; ring
  | gma => simp only []; ring

/-- the specified statistic is invariant under translation of the stream -/
theorem specG_shift (c : Cfg ℝ) (k : ℝ) (xs : List ℝ) : specG c (xs.map (· + k)) = specG c xs := by
  induction xs using List.reverseRecOn with
  | nil => rfl
  | append_singleton xs x ih =>
    have h := amean_shift k (xs ++ [x]) (by simp)
    simp only [List.map_append, List.map_cons, List.map_nil] at h ⊢
    rw [specG_snoc, specG_snoc, ih, h, specStep_shift]

/-- **shift_invariance** (whole-prefix form).  Adding a constant `k` to every sample leaves `n`, `sum`
and `drift` unchanged; the `mean` field is translated by `k` once there is at least one sample. -/
theorem shift_invariance_run (c : Cfg ℝ) (k : ℝ) (xs : List ℝ) :
    (runL c (xs.map (· + k))).n = (runL c xs).n ∧
    (runL c (xs.map (· + k))).sum = (runL c xs).sum ∧
    (runL c (xs.map (· + k))).drift = (runL c xs).drift ∧
    (runL c (xs.map (· + k))).mean.n = (runL c xs).mean.n ∧
    (xs ≠ [] → (runL c (xs.map (· + k))).mean.mean = (runL c xs).mean.mean + k) := by
  refine ⟨?_, ?_, ?_, ?_, ?_⟩
  · simp [run_n]
  · rw [run_sum, run_sum, specG_shift]
  · rw [run_drift, run_drift, Bool.eq_iff_iff]
    simp [specG_shift]
  · simp [run_mean, mean_run_n]
  · intro hne
    rw [run_mean, run_mean, mean_run_amean _ hne, mean_run_amean _ (by simpa using hne), amean_shift k xs hne]

/-- **shift_invariance** (at every step `t` of the stream). -/
theorem shift_invariance (c : Cfg ℝ) (k : ℝ) (xs : List ℝ) (t : Nat) :
    (runL c ((xs.map (· + k)).take t)).sum = (runL c (xs.take t)).sum ∧
    (runL c ((xs.map (· + k)).take t)).drift = (runL c (xs.take t)).drift ∧
    (runL c ((xs.map (· + k)).take t)).n = (runL c (xs.take t)).n ∧
    (1 ≤ t → 1 ≤ xs.length →
      (runL c ((xs.map (· + k)).take t)).mean.mean = (runL c (xs.take t)).mean.mean + k) := by
  rw [← List.map_take]
  obtain ⟨h1, h2, h3, _, h5⟩ := shift_invariance_run c k (xs.take t)
  refine ⟨h2, h3, h1, ?_⟩
  intro ht hx
  apply h5
  intro h
  have := congrArg List.length h
  rw [List.length_take, List.length_nil] at this
  omega

/-- the hypothesis `xs ≠ []` / `1 ≤ t` on the `mean` component is necessary: before the first sample both runs
have `mean = 0`, which is not translated -/
theorem shift_mean_zero_witness :
    ¬ ((runL (⟨.cusum, 1, 0, 0, 2⟩ : Cfg ℝ) (([] : List ℝ).map (· + 1))).mean.mean
        = (runL (⟨.cusum, 1, 0, 0, 2⟩ : Cfg ℝ) []).mean.mean + 1) := by
  simp [init, Mean.init]

/-- non-vacuity: the cusum example stream translated by 10 gives the same statistic -/
example : (runL (⟨.cusum, 1, 0, 0, 2⟩ : Cfg ℝ) [10, 10, 13]).sum = 2 := by
  have h := (shift_invariance_run (⟨.cusum, 1, 0, 0, 2⟩ : Cfg ℝ) 10 [0, 0, 3]).2.1
  norm_num at h
  rw [h, run_sum]
  norm_num [specG, specFrom, specStep, amean]

/-! ## 4. monotonicity in `lambda` -/

section AnyCarrier
variable {α : Type} [Num α]

/-- (every carrier) the threshold `lambda` only enters the `drift` flag: two configurations that agree on
everything except `lambda` produce the same `n`, `mean` and `sum` on every stream -/
theorem lambda_irrelevant (c c' : Cfg α) (hk : c'.kind = c.kind) (hd : c'.delta = c.delta) (ha : c'.alpha = c.alpha)
    (xs : List α) :
    (runL c' xs).n = (runL c xs).n ∧ (runL c' xs).mean = (runL c xs).mean ∧ (runL c' xs).sum = (runL c xs).sum := by
  induction xs using List.reverseRecOn with
  | nil => exact ⟨rfl, rfl, rfl⟩
  | append_singleton xs x ih =>
    obtain ⟨h1, h2, h3⟩ := ih
    rw [runL_snoc, runL_snoc]
    refine ⟨?_, ?_, ?_⟩
    · simp [step, h1]
    · simp [step, h2]
    · simp [step, updateSum, h2, h3, hk, hd, ha]
end AnyCarrier

/-- **lambda_monotone.**  If `c` and `c'` differ only in the threshold and `c.lambda ≤ c'.lambda`, then on every
stream the statistic is the same and every drift signalled with the larger threshold is signalled with the
smaller one. -/
theorem lambda_monotone_run (c c' : Cfg ℝ) (hk : c'.kind = c.kind) (hd : c'.delta = c.delta) (ha : c'.alpha = c.alpha)
    (hm : c'.minN = c.minN) (hl : c.lambda ≤ c'.lambda) (xs : List ℝ) :
    (runL c' xs).sum = (runL c xs).sum ∧ ((runL c' xs).drift = true → (runL c xs).drift = true) := by
  have hsum := (lambda_irrelevant c c' hk hd ha xs).2.2
  refine ⟨hsum, ?_⟩
  rw [run_drift, run_drift]
  rw [run_sum, run_sum] at hsum
  simp only [hsum, hm, decide_eq_true_eq]
  rintro ⟨h0, h1, h2⟩
  exact ⟨h0, h1, lt_of_le_of_lt hl h2⟩

/-- **lambda_monotone** (at every step `t` of the stream) -/
theorem lambda_monotone (c c' : Cfg ℝ) (hk : c'.kind = c.kind) (hd : c'.delta = c.delta) (ha : c'.alpha = c.alpha)
    (hm : c'.minN = c.minN) (hl : c.lambda ≤ c'.lambda) (xs : List ℝ) (t : Nat) :
    (runL c' (xs.take t)).sum = (runL c (xs.take t)).sum ∧
    ((runL c' (xs.take t)).drift = true → (runL c (xs.take t)).drift = true) :=
  lambda_monotone_run c c' hk hd ha hm hl (xs.take t)

/-- non-vacuity: thresholds 1 ≤ 3 on the example stream (statistic 2): drift with 1, none with 3, so the
implication is not an equivalence -/
example :
    let c : Cfg ℝ := ⟨.cusum, 1, 0, 0, 2⟩
    let c' : Cfg ℝ := ⟨.cusum, 3, 0, 0, 2⟩
    c.lambda ≤ c'.lambda ∧ (runL c [0, 0, 3]).drift = true ∧ (runL c' [0, 0, 3]).drift = false := by
  intro c c'
  refine ⟨by norm_num [c, c'], ?_, ?_⟩
  · rw [run_drift]; norm_num [c, specG, specFrom, specStep, amean]
    exact List.cons_ne_nil _ _
  · rw [run_drift]; norm_num [c', specG, specFrom, specStep, amean]

/-! ## 5. histories with resets -/

/-- the values fed since the last `reset` of a history (all values if there was none) -/
def sinceReset {V : Type} (ops : List (Op V)) : List V :=
  ops.foldl (fun acc op => match op with | .update v => acc ++ [v] | .reset => []) []

theorem sinceReset_snoc_update {V : Type} (ops : List (Op V)) (v : V) :
    sinceReset (ops ++ [.update v]) = sinceReset ops ++ [v] := by
  simp [sinceReset, List.foldl_append]

theorem sinceReset_snoc_reset {V : Type} (ops : List (Op V)) : sinceReset (ops ++ [.reset]) = [] := by
  simp [sinceReset, List.foldl_append]

/-- `sinceReset` really is "the updates after the last reset" -/
theorem sinceReset_after_reset {V : Type} (pre : List (Op V)) (post : List V) :
    sinceReset (pre ++ [.reset] ++ post.map .update) = post := by
  induction post using List.reverseRecOn with
  | nil => simpa using sinceReset_snoc_reset pre
  | append_singleton post v ih =>
    rw [List.map_append, List.map_singleton, ← List.append_assoc, sinceReset_snoc_update, ih]

theorem sinceReset_no_reset {V : Type} (post : List V) : sinceReset (post.map .update) = post := by
  induction post using List.reverseRecOn with
  | nil => rfl
  | append_singleton post v ih => rw [List.map_append, List.map_singleton, sinceReset_snoc_update, ih]

/-- (every carrier) the state after an arbitrary history of updates and resets is the state after feeding,
from a fresh detector, just the values since the last reset -/
theorem run_history {α : Type} [Num α] (c : Cfg α) (ops : List (Op α)) :
    (CUSUMFam.machine c).run ops = runL c (sinceReset ops) := by
  induction ops using List.reverseRecOn with
  | nil => rfl
  | append_singleton ops op ih =>
    have hrun : (CUSUMFam.machine c).run (ops ++ [op]) = (CUSUMFam.machine c).apply ((CUSUMFam.machine c).run ops) op := by
      simp [Machine.run, Machine.runFrom, List.foldl_append]
    rw [hrun, ih]
    cases op with
    | update v => rw [sinceReset_snoc_update, runL_snoc]; rfl
    | reset => rw [sinceReset_snoc_reset]; rfl

/-- **model_eq_spec_history.**  After any history (updates and resets interleaved arbitrarily), with `ys` the
values since the last reset: `n = |ys|`, `sum = g` of the specification restarted on `ys`, the mean is the
arithmetic mean of `ys` (if non-empty) and `drift = (ys ≠ [] ∧ minN ≤ |ys| ∧ lambda < g)`. -/
theorem model_eq_spec_history (c : Cfg ℝ) (ops : List (Op ℝ)) :
    let s := (CUSUMFam.machine c).run ops
    let ys := sinceReset ops
    s.n = ys.length ∧ s.sum = specG c ys ∧ s.mean.n = ys.length ∧
    (ys ≠ [] → s.mean.mean = ys.sum / (ys.length : ℝ)) ∧
    s.drift = decide (ys ≠ [] ∧ c.minN ≤ ys.length ∧ c.lambda < specG c ys) := by
  simp only [run_history]
  refine ⟨run_n _ _, run_sum _ _, ?_, ?_, ?_⟩
  · rw [run_mean, mean_run_n]
  · intro hne; rw [run_mean, mean_run _ hne]
  · rw [run_drift]

/-- non-vacuity: garbage, reset, then the example stream -/
example :
    ((CUSUMFam.machine (⟨.cusum, 1, 0, 0, 2⟩ : Cfg ℝ)).run
      [.update 100, .update (-7), .reset, .update 0, .update 0, .update 3]).sum = 2 := by
  rw [(model_eq_spec_history _ _).2.1]
  norm_num [sinceReset, specG, specFrom, specStep, amean]

end Frouros.C07

#print axioms Frouros.C07.mean_run_n
#print axioms Frouros.C07.mean_run
#print axioms Frouros.C07.run_n
#print axioms Frouros.C07.run_warmup
#print axioms Frouros.C07.specG_snoc
#print axioms Frouros.C07.specG_take_succ
#print axioms Frouros.C07.model_eq_spec
#print axioms Frouros.C07.model_eq_spec_drift
#print axioms Frouros.C07.drift_zero_witness
#print axioms Frouros.C07.spec_cusum
#print axioms Frouros.C07.spec_pageHinkley
#print axioms Frouros.C07.spec_gma
#print axioms Frouros.C07.specG_shift
#print axioms Frouros.C07.shift_mean_zero_witness
#print axioms Frouros.C07.shift_invariance_run
#print axioms Frouros.C07.shift_invariance
#print axioms Frouros.C07.lambda_irrelevant
#print axioms Frouros.C07.lambda_monotone_run
#print axioms Frouros.C07.lambda_monotone
#print axioms Frouros.C07.run_history
#print axioms Frouros.C07.model_eq_spec_history
