/-
  C03 (part c) — closing the gaps found by the review of C03 (rows 2, 6, 10, 11, 13b of /tmp/proofs/review/C03.md).

  RDDM, any carrier `α` (control flow; literally true for IEEE doubles):
  * `rddm_step_event_iff`, `rddm_event_iff_step`, `rddm_event_iff` — the hidden flag `rddmDrift` is exactly
    "drift-level event ∨ warning-limit event ∨ max-concept-size event", `drift` = the first two; complete decision
    table of every update in terms of the new state's statistics and the observable trace of warning verdicts;
  * `trailingWarnings_spec`, `rddm_numWarnings`, `rddm_numWarnings_after_drift` — the hidden counter `numWarnings`
    versus the length of the maximal trailing block of warning steps;
  * `rddm_noEvent_iff`, `rddm_eq_ddm_until_named_event` — `rddm_eq_ddm_until_event` restated with hypotheses and
    guards phrased through the named events only;
  * `rddm_preds_le_ern`, `rddm_cut_iff_event` — a rebuild is a cut BACK and happens exactly after an event.
  RDDM, `α = ℝ`: `rddm_mean_real` (error-rate estimate = arithmetic mean of the summarised suffix),
    `rddm_numWarnings_stale_witness` (concrete run through the warning-limit event).
  EDDM, `α = ℝ`: `eddm_spec`, `eddm_spec_at`, `eddm_spec_nodiv` — one declarative equivalence per flag.
  DDM, `α = ℝ`: `ddm_drift_imp_warnThreshold`.
-/
import Mathlib.Tactic
import FrourosProofs.RealNum
import FrourosProofs.Machines
import FrourosProofs.Lemmas.PrefixMean
import FrourosProofs.Lemmas.RDDM
import FrourosProofs.Props.C03
import FrourosProofs.Props.C03b
namespace Frouros.C03c
open Frouros Frouros.C03 Frouros.C03b

section RDDMGeneric
variable {α : Type} [Num α]

/-- the counter of consecutive warnings that a step actually reads: a pending rebuild zeroes it first -/
def effWarnings (s : RDDM.State α) : ℕ := if s.rddmDrift then 0 else s.numWarnings

/-- decision table of the second half of `RDDM.step` (`RDDM.post`) from a state without pending rebuild, queue
operations succeeding; all right-hand sides are read off the NEW state -/
theorem post_table (c : RDDM.Cfg α) (p : RDDM.State α) (v : α) (e : Option α) (q1 q2 : CQ α)
    (hr : p.rddmDrift = false) (h1 : p.preds.enqueue v = .ok (e, q1)) (h2 : q1.keepLast = .ok q2) :
    let s' := RDDM.post c p v
    let eps := (DDM.epsStd s'.er s'.n).1
    let past := decide (c.minN ≤ s'.n)
    let xd := DDM.exceeds eps s'.minPS c.drift
    let xw := DDM.exceeds eps s'.minPS c.warn
    let lim := decide (c.maxWarn ≤ p.numWarnings)
    s'.n = p.n ∧
    s'.drift = (past && (xd || (xw && lim))) ∧
    s'.warning = (past && !xd && xw && !lim) ∧
    s'.rddmDrift = (s'.drift || (past && decide (c.maxConcept ≤ s'.n) && !s'.warning)) ∧
    s'.numWarnings = (if (past && !xd) = true then (if xw = true then (if lim = true then p.numWarnings else p.numWarnings + 1) else 0)
                      else p.numWarnings) := by
  unfold RDDM.post
  simp only [h1]
  split_ifs <;> simp_all [keepLast_ok] <;> omega


/-- the first half of `RDDM.step` (`RDDM.pre`): consumes `rddmDrift`, leaves the queue alone, and hands
`effWarnings` to the second half -/
theorem pre_eff (c : RDDM.Cfg α) (s0 : RDDM.State α) :
    (RDDM.pre c s0).numWarnings = effWarnings s0 ∧ (RDDM.pre c s0).rddmDrift = false ∧
    (RDDM.pre c s0).preds = s0.preds ∧ (s0.rddmDrift = false → (RDDM.pre c s0).n = s0.n + 1) := by
  unfold RDDM.pre effWarnings
  cases h : s0.rddmDrift <;> simp [RDDM.rebuild_fields]

/-- the three named events of an RDDM step, as Booleans of the state after the step -/
def driftLevelEvent (c : RDDM.Cfg α) (s' : RDDM.State α) : Bool :=
  decide (c.minN ≤ s'.n) && DDM.exceeds (DDM.epsStd s'.er s'.n).1 s'.minPS c.drift

def maxConceptEvent (c : RDDM.Cfg α) (s' : RDDM.State α) : Bool :=
  decide (c.minN ≤ s'.n) && decide (c.maxConcept ≤ s'.n) && !s'.warning

/-- **C03c / `rddm_step_event_iff`** (any carrier) — one step from ANY state whose queue operations succeed.
`k = effWarnings s0` is the warning counter the step reads.  `drift` = drift-level event ∨ warning-limit event;
`warning` = warning level exceeded, drift level not, `k < maxWarn`; `rddmDrift` = `drift` ∨ max-concept-size event;
the effective counter becomes `k + 1` on a warning, `0` on a tested non-warning step, and is unchanged in the
warm-up; the stored counter is exact when no drift is reported and is left at `k` when drift is reported. -/
theorem rddm_step_event_iff (c : RDDM.Cfg α) (s0 : RDDM.State α) (v : α) (e : Option α) (q1 q2 : CQ α)
    (h1 : s0.preds.enqueue v = .ok (e, q1)) (h2 : q1.keepLast = .ok q2) :
    let s' := RDDM.step c s0 v
    let k := effWarnings s0
    let wl := warnLimitEvent c s'.n s'.er s'.minPS k
    (s0.rddmDrift = false → s'.n = s0.n + 1) ∧
    s'.drift = (driftLevelEvent c s' || wl) ∧
    s'.warning = (decide (c.minN ≤ s'.n) && !DDM.exceeds (DDM.epsStd s'.er s'.n).1 s'.minPS c.drift &&
      DDM.exceeds (DDM.epsStd s'.er s'.n).1 s'.minPS c.warn && !decide (c.maxWarn ≤ k)) ∧
    s'.rddmDrift = (s'.drift || maxConceptEvent c s') ∧
    s'.rddmDrift = (driftLevelEvent c s' || wl || maxConceptEvent c s') ∧
    effWarnings s' = (if s'.warning = true then k + 1 else if c.minN ≤ s'.n then 0 else k) ∧
    (s'.drift = false → s'.numWarnings = effWarnings s') ∧
    (s'.n < c.minN → k = 0 → s'.numWarnings = 0) ∧
    (s'.drift = true → s'.numWarnings = k) := by
  intro s' k wl
  obtain ⟨p1, p2, p3, p4⟩ := pre_eff c s0
  have h1' : (RDDM.pre c s0).preds.enqueue v = .ok (e, q1) := by rw [p3]; exact h1
  obtain ⟨t1, t2, t3, t4, t5⟩ := post_table c (RDDM.pre c s0) v e q1 q2 p2 h1' h2
  rw [← RDDM.step_eq] at t1 t2 t3 t4 t5
  rw [p1] at t2 t3 t5
  refine ⟨fun h => by rw [← p4 h]; exact t1, ?_⟩
  simp only [s', k, wl, driftLevelEvent, maxConceptEvent, warnLimitEvent]
  have hE : effWarnings (RDDM.step c s0 v) =
      if (RDDM.step c s0 v).rddmDrift then 0 else (RDDM.step c s0 v).numWarnings := rfl
  rw [hE, t4, t5, t2, t3]
  generalize DDM.exceeds _ _ c.drift = xd
  generalize DDM.exceeds _ _ c.warn = xw
  generalize decide (c.maxWarn ≤ effWarnings s0) = lim
  generalize decide (c.maxConcept ≤ _) = mc
  by_cases hp : c.minN ≤ (RDDM.step c s0 v).n
  · have hp' : ¬ (RDDM.step c s0 v).n < c.minN := by omega
    simp only [hp, hp', decide_true]
    cases xd <;> cases xw <;> cases lim <;> cases mc <;> simp
  · have hp' : (RDDM.step c s0 v).n < c.minN := by omega
    simp only [hp, hp', decide_false]
    simp

omit [Num α] in
/-- in every state satisfying the queue invariant (capacity `minConcept > 0`, no recorded error) both queue
operations of a step succeed -/
theorem queue_ok_of_qInv (c : RDDM.Cfg α) (s : RDDM.State α) (hq : QInv c s) (v : α) :
    ∃ e q1 q2, s.preds.enqueue v = .ok (e, q1) ∧ q1.keepLast = .ok q2 := by
  obtain ⟨w, ml, -⟩ := hq
  obtain ⟨e, q1, h1, w1, ml1, l1, c1, c2⟩ := enqueue_spec _ v w
  have hc1 : 1 ≤ q1.count := by
    rcases Nat.lt_or_ge s.preds.count s.preds.maxLen with h | h
    · have := (c1 h).1; omega
    · have := (c2 (le_antisymm w.cnt h)).1; have := w.pos; omega
  obtain ⟨q2, h2, -⟩ := keepLast_spec q1 w1 hc1 l1
  exact ⟨e, q1, q2, h1, h2⟩

theorem queue_ok (c : RDDM.Cfg α) (hmc : 0 < c.minConcept) (vs : List α) (v : α) :
    ∃ e q1 q2, (rrun c vs).preds.enqueue v = .ok (e, q1) ∧ q1.keepLast = .ok q2 :=
  queue_ok_of_qInv c _ (qInv_rrun c hmc vs) v

/-! ### the trace of warning verdicts and its trailing block -/

/-- the warning verdicts reported after the 1st, 2nd, …, last update of the stream `vs` -/
def warnTrace (c : RDDM.Cfg α) (vs : List α) : List Bool :=
  vs.inits.tail.map (fun p => (rrun c p).warning)

/-- length of the maximal block of `true` at the END of a list of Booleans -/
def trailingTrue (l : List Bool) : ℕ := (l.reverse.takeWhile id).length

/-- number of consecutive warning verdicts at the end of the run on `vs` -/
def trailingWarnings (c : RDDM.Cfg α) (vs : List α) : ℕ := trailingTrue (warnTrace c vs)

theorem warnTrace_snoc (c : RDDM.Cfg α) (vs : List α) (v : α) :
    warnTrace c (vs ++ [v]) = warnTrace c vs ++ [(rrun c (vs ++ [v])).warning] := by
  unfold warnTrace
  rw [List.inits_append]
  have : vs.inits ≠ [] := by cases vs <;> simp
  rw [List.tail_append_of_ne_nil this]
  simp

theorem trailingTrue_snoc (l : List Bool) (b : Bool) :
    trailingTrue (l ++ [b]) = if b = true then trailingTrue l + 1 else 0 := by
  unfold trailingTrue
  cases b <;> simp

theorem trailingWarnings_snoc (c : RDDM.Cfg α) (vs : List α) (v : α) :
    trailingWarnings c (vs ++ [v]) =
      if (rrun c (vs ++ [v])).warning = true then trailingWarnings c vs + 1 else 0 := by
  unfold trailingWarnings
  rw [warnTrace_snoc, trailingTrue_snoc]

theorem trailingWarnings_nil (c : RDDM.Cfg α) : trailingWarnings c ([] : List α) = 0 := by
  simp [trailingWarnings, warnTrace, trailingTrue]

/-- `trailingWarnings c vs = k` in plain terms: the last `k` updates all reported a warning, and the update
before them (if there is one) did not. -/
theorem trailingWarnings_spec (c : RDDM.Cfg α) (vs : List α) :
    let k := trailingWarnings c vs
    k ≤ vs.length ∧
    (∀ j, vs.length - k < j → j ≤ vs.length → (rrun c (vs.take j)).warning = true) ∧
    (k < vs.length → (rrun c (vs.take (vs.length - k))).warning = false) := by
  induction vs using List.reverseRecOn with
  | nil => simp only [trailingWarnings_nil, List.length_nil]; exact ⟨le_refl _, fun j h1 h2 => by omega, fun h => by omega⟩
  | append_singleton vs v ih =>
    obtain ⟨i1, i2, i3⟩ := ih
    have htk : (vs ++ [v]).take (vs.length + 1) = vs ++ [v] := by simp
    simp only [trailingWarnings_snoc, List.length_append, List.length_singleton]
    by_cases hw : (rrun c (vs ++ [v])).warning = true
    · simp only [hw, if_true]
      refine ⟨by omega, fun j hj hj' => ?_, fun hk => ?_⟩
      · by_cases hjl : j = vs.length + 1
        · subst hjl; rw [htk]; exact hw
        · rw [List.take_append_of_le_length (by omega)]
          exact i2 j (by omega) (by omega)
      · have : vs.length + 1 - (trailingWarnings c vs + 1) = vs.length - trailingWarnings c vs := by omega
        rw [this, List.take_append_of_le_length (by omega)]
        exact i3 (by omega)
    · simp only [hw]
      refine ⟨by simp, fun j hj hj' => by simp at hj; omega, fun _ => ?_⟩
      simp only [Bool.false_eq_true, if_false, Nat.sub_zero]
      rw [htk]; simpa using hw

/-- invariant tying the hidden counter to the trace of warning verdicts -/
theorem numWarnings_inv (c : RDDM.Cfg α) (hmc : 0 < c.minConcept) (vs : List α) :
    effWarnings (rrun c vs) = trailingWarnings c vs ∧
    ((rrun c vs).n < c.minN → effWarnings (rrun c vs) = 0) ∧
    ((rrun c vs).drift = false → (rrun c vs).numWarnings = trailingWarnings c vs) := by
  induction vs using List.reverseRecOn with
  | nil => simp [trailingWarnings_nil, effWarnings, rrun, RDDM.init]
  | append_singleton vs v ih =>
    obtain ⟨i1, i2, i3⟩ := ih
    obtain ⟨e, q1, q2, h1, h2⟩ := queue_ok c hmc vs v
    obtain ⟨a1, a2, a3, a4, a5, a6, a7, a8, -⟩ := rddm_step_event_iff c (rrun c vs) v e q1 q2 h1 h2
    rw [← rrun_snoc] at a1 a2 a3 a4 a5 a6 a7 a8
    have hk0 : (rrun c (vs ++ [v])).n < c.minN → effWarnings (rrun c vs) = 0 := by
      intro hlt
      cases hr : (rrun c vs).rddmDrift
      · exact i2 (by have := a1 hr; omega)
      · simp [effWarnings, hr]
    have hw0 : (rrun c (vs ++ [v])).n < c.minN → (rrun c (vs ++ [v])).warning = false := by
      intro hlt
      have : ¬ c.minN ≤ (rrun c (vs ++ [v])).n := by omega
      rw [a3]; simp [this]
    have hE : effWarnings (rrun c (vs ++ [v])) = trailingWarnings c (vs ++ [v]) := by
      rw [a6, trailingWarnings_snoc, i1]
      by_cases hw : (rrun c (vs ++ [v])).warning = true
      · simp [hw]
      · simp only [hw]
        by_cases hp : c.minN ≤ (rrun c (vs ++ [v])).n
        · simp [hp]
        · simp only [hp, if_false]; rw [← i1]; exact hk0 (by omega)
    refine ⟨hE, fun hlt => ?_, fun hd => by rw [a7 hd, hE]⟩
    rw [a6, hw0 hlt]
    have : ¬ c.minN ≤ (rrun c (vs ++ [v])).n := by omega
    simp [this, hk0 hlt]

/-- flags of one DDM step read off the NEW state (any carrier) -/
theorem ddm_step_flags (c : DDM.Cfg α) (s : DDM.State α) (v : α) :
    let s' := DDM.step c s v
    s'.drift = (decide (c.minN ≤ s'.n) && DDM.exceeds (DDM.epsStd s'.er s'.n).1 s'.minPS c.drift) ∧
    s'.warning = (decide (c.minN ≤ s'.n) && !DDM.exceeds (DDM.epsStd s'.er s'.n).1 s'.minPS c.drift &&
      DDM.exceeds (DDM.epsStd s'.er s'.n).1 s'.minPS c.warn) := by
  obtain ⟨fn, fer, fmin, fd, fw⟩ := ddm_step_fields c s v
  intro s'
  simp only [s']
  rw [fd, fw, fn, fer, fmin]
  by_cases h : c.minN ≤ s.n + 1
  · simp only [h, if_true, decide_true, Bool.true_and]; exact ⟨rfl, rfl⟩
  · simp [h]

/-! ### Property theorems (RDDM) -/

/-- **C03c / `rddm_event_iff_step`** (any carrier) — the reviewer's row-10 bridge, literally.  From a state with
the queue invariant and no pending rebuild, the hidden flag `rddmDrift` after one step is raised exactly when the
step reports **drift** (this covers the drift-level event and the warning-limit event, which RDDM both reports as
`drift = true`) or the **max-concept-size** event happens (past the warm-up, `maxConcept ≤ n`, and the step does
not report a warning). -/
theorem rddm_event_iff_step (c : RDDM.Cfg α) (s : RDDM.State α) (v : α) (hq : QInv c s)
    (hr : s.rddmDrift = false) :
    (RDDM.step c s v).rddmDrift =
      ((RDDM.step c s v).drift ||
        (decide (c.minN ≤ s.n + 1) && decide (c.maxConcept ≤ s.n + 1) && !(RDDM.step c s v).warning)) := by
  obtain ⟨e, q1, q2, h1, h2⟩ := queue_ok_of_qInv c s hq v
  obtain ⟨a1, -, -, a4, -⟩ := rddm_step_event_iff c s v e q1 q2 h1 h2
  rw [a4, maxConceptEvent, a1 hr]

/-- **C03c / `rddm_event_iff`** (any carrier, hence literally for IEEE doubles).  Complete decision table of the
update `vs ++ [v]` of a fresh RDDM (`0 < minConcept` = accepted configuration), at EVERY step (no assumption about
earlier events), in terms of the new state's own statistics `n`, `er`, `minPS` and of the *observable* history of
warning verdicts.  With `eps = er.mean + std` (`DDM.epsStd`), `T = trailingWarnings c vs` the number of consecutive
warning verdicts immediately before this update (`trailingWarnings_spec`):
* `E_d` **drift-level event**: past the warm-up and `eps > p_min + drift * s_min`;
* `E_w` **warning-limit event**: past the warm-up, drift level not exceeded, warning level exceeded, `maxWarn ≤ T`;
* `E_m` **max-concept-size event**: past the warm-up, `maxConcept ≤ n`, and no warning reported by this update.
Then `drift = E_d ∨ E_w`; `warning` = warning level exceeded, drift level not, and `T < maxWarn`;
`rddmDrift = drift ∨ E_m = E_d ∨ E_w ∨ E_m`; a warning verdict excludes all three events; and without a pending
event the instance counter advanced by one. -/
theorem rddm_event_iff (c : RDDM.Cfg α) (hmc : 0 < c.minConcept) (vs : List α) (v : α) :
    let r := rrun c vs
    let r' := rrun c (vs ++ [v])
    let T := trailingWarnings c vs
    let E_d := driftLevelEvent c r'
    let E_w := warnLimitEvent c r'.n r'.er r'.minPS T
    let E_m := maxConceptEvent c r'
    r'.drift = (E_d || E_w) ∧
    r'.warning = (decide (c.minN ≤ r'.n) && !DDM.exceeds (DDM.epsStd r'.er r'.n).1 r'.minPS c.drift &&
      DDM.exceeds (DDM.epsStd r'.er r'.n).1 r'.minPS c.warn && !decide (c.maxWarn ≤ T)) ∧
    r'.rddmDrift = (r'.drift || E_m) ∧
    r'.rddmDrift = (E_d || E_w || E_m) ∧
    (r'.warning = true → r'.drift = false ∧ r'.rddmDrift = false) ∧
    (r.rddmDrift = false → r'.n = r.n + 1) := by
  intro r r' T E_d E_w E_m
  obtain ⟨e, q1, q2, h1, h2⟩ := queue_ok c hmc vs v
  obtain ⟨a1, a2, a3, a4, a5, -⟩ := rddm_step_event_iff c (rrun c vs) v e q1 q2 h1 h2
  rw [← rrun_snoc] at a1 a2 a3 a4 a5
  rw [(numWarnings_inv c hmc vs).1] at a2 a3 a5
  refine ⟨a2, a3, a4, a5, fun hw => ?_, a1⟩
  have hd : r'.drift = false := by
    rw [a2]; rw [a3] at hw
    simp only [driftLevelEvent, warnLimitEvent]
    generalize DDM.exceeds _ _ c.drift = xd at *
    generalize DDM.exceeds _ _ c.warn = xw at *
    generalize decide (c.maxWarn ≤ _) = lim at *
    generalize decide (c.minN ≤ _) = past at *
    cases xd <;> cases xw <;> cases lim <;> cases past <;> simp_all
  refine ⟨hd, ?_⟩
  rw [a4, hd, maxConceptEvent, hw]; simp

/-- **C03c / `rddm_numWarnings`** (any carrier).  The hidden counter `numWarnings` against the observable trace of
warning verdicts.  `T = trailingWarnings c vs` is the length of the maximal trailing block of warning steps: the
last `T` updates all reported a warning and the update before them (if any) did not.
* The counter that the NEXT update reads (`effWarnings`: a pending rebuild zeroes `numWarnings` before it is
  read) is always exactly `T`.
* The stored field itself equals `T` whenever the last update did not report drift — in particular whenever
  `rddmDrift = false`.
* Strongest true statement: right after an update that reported drift the stored field is *stale* (it keeps
  the count from before the drift step although that step reported no warning, `T = 0`); it is never read in
  that state.  See `rddm_numWarnings_stale_witness`. -/
theorem rddm_numWarnings (c : RDDM.Cfg α) (hmc : 0 < c.minConcept) (vs : List α) :
    let r := rrun c vs
    let T := trailingWarnings c vs
    effWarnings r = T ∧ (r.drift = false → r.numWarnings = T) ∧ (r.rddmDrift = false → r.numWarnings = T) ∧
    (r.rddmDrift = true → T = 0) ∧
    T ≤ vs.length ∧
    (∀ j, vs.length - T < j → j ≤ vs.length → (rrun c (vs.take j)).warning = true) ∧
    (T < vs.length → (rrun c (vs.take (vs.length - T))).warning = false) := by
  intro r T
  obtain ⟨h1, -, h3⟩ := numWarnings_inv c hmc vs
  obtain ⟨s1, s2, s3⟩ := trailingWarnings_spec c vs
  refine ⟨h1, h3, fun hr => ?_, fun hr => ?_, s1, s2, s3⟩
  · show r.numWarnings = trailingWarnings c vs
    rw [← h1]; simp [effWarnings, r, hr]
  · show trailingWarnings c vs = 0
    rw [← h1]; simp [effWarnings, r, hr]

/-- **C03c / `rddm_numWarnings_after_drift`** (any carrier).  The one situation in which the stored field differs
from the trailing block: an update that reports drift leaves `numWarnings` untouched, i.e. equal to the number `T`
of consecutive warnings BEFORE that update, although the trailing block of warning steps is now empty.  (The next
update starts with a rebuild that zeroes the field before reading it — `effWarnings`.) -/
theorem rddm_numWarnings_after_drift (c : RDDM.Cfg α) (hmc : 0 < c.minConcept) (vs : List α) (v : α)
    (hd : (rrun c (vs ++ [v])).drift = true) :
    (rrun c (vs ++ [v])).numWarnings = trailingWarnings c vs ∧ trailingWarnings c (vs ++ [v]) = 0 := by
  obtain ⟨e, q1, q2, h1, h2⟩ := queue_ok c hmc vs v
  have a9 := (rddm_step_event_iff c (rrun c vs) v e q1 q2 h1 h2).2.2.2.2.2.2.2.2
  rw [← rrun_snoc, (numWarnings_inv c hmc vs).1] at a9
  refine ⟨a9 hd, ?_⟩
  have hw : (rrun c (vs ++ [v])).warning = false := by
    cases hw : (rrun c (vs ++ [v])).warning
    · rfl
    · have := ((rddm_event_iff c hmc vs v).2.2.2.2.1 hw).1
      rw [hd] at this; exact absurd this (by simp)
  rw [trailingWarnings_snoc, hw]; simp

/-- "no event at the update completing the non-empty prefix `p`", in terms of RDDM's *outputs* and the stream
position only: the update did not report drift (neither the drift-level nor the warning-limit event) and the
max-concept-size event did not happen (`minN ≤ |p|`, `maxConcept ≤ |p|`, no warning reported). -/
def NoEvent (c : RDDM.Cfg α) (p : List α) : Prop :=
  (rrun c p).drift = false ∧ ¬ (c.minN ≤ p.length ∧ c.maxConcept ≤ p.length ∧ (rrun c p).warning = false)

/-- **C03c / `rddm_noEvent_iff`** (any carrier).  The hidden-state hypothesis of `rddm_eq_ddm_until_event`
("`rddmDrift = false` after every prefix") is equivalent to "none of the three named events happened at any update
so far" (`NoEvent` at every non-empty prefix). -/
theorem rddm_noEvent_iff (c : RDDM.Cfg α) (hmc : 0 < c.minConcept) (vs : List α) :
    (∀ p, p <+: vs → (rrun c p).rddmDrift = false) ↔ (∀ p, p <+: vs → p ≠ [] → NoEvent c p) := by
  induction vs using List.reverseRecOn with
  | nil =>
    refine ⟨fun _ p hp hne => absurd (List.prefix_nil.mp hp) hne, fun _ p hp => ?_⟩
    rw [List.prefix_nil.mp hp]; rfl
  | append_singleton ws w ih =>
    have key : (∀ p, p <+: ws → (rrun c p).rddmDrift = false) →
        ((rrun c (ws ++ [w])).rddmDrift = false ↔ NoEvent c (ws ++ [w])) := by
      intro hws
      obtain ⟨-, -, -, -, hn, -⟩ := rddm_eq_ddm_until_event c hmc ws w hws
      obtain ⟨-, -, a3, -⟩ := rddm_event_iff c hmc ws w
      rw [a3, maxConceptEvent, hn]
      simp only [NoEvent, List.length_append, List.length_singleton]
      cases (rrun c (ws ++ [w])).drift <;> cases (rrun c (ws ++ [w])).warning <;> simp
    have hsub : ∀ p, p <+: ws → p <+: ws ++ [w] := fun p hp => hp.trans (List.prefix_append ws [w])
    constructor
    · intro h p hp hne
      rcases List.prefix_concat_iff.mp hp with rfl | hp'
      · exact (key (fun q hq => h q (hsub q hq))).mp (h _ (List.prefix_refl _))
      · exact (ih.mp (fun q hq => h q (hsub q hq))) p hp' hne
    · intro h p hp
      have hws : ∀ q, q <+: ws → (rrun c q).rddmDrift = false :=
        ih.mpr (fun q hq hne => h q (hsub q hq) hne)
      rcases List.prefix_concat_iff.mp hp with rfl | hp'
      · exact (key hws).mpr (h _ (List.prefix_refl _) (by simp))
      · exact hws p hp'

/-- **C03c / `rddm_eq_ddm_until_named_event`** (any carrier) — `rddm_eq_ddm_until_event` with every hypothesis and
guard phrased through the named events.  Run RDDM and DDM (same `warn`, `drift`, `minN`) on `vs ++ [v]` from
their initial states.  If none of the three events (drift verdict — drift-level or warning-limit —, or
max-concept-size) happened at any of the updates of `vs` (`NoEvent`), then after the next update:
* RDDM raised no queue error, both counters are `|vs| + 1`, and the detectors agree on `er` and `minPS`;
* they agree on `drift` and `warning`, except when DDM reports a warning and the `maxWarn ≤ T` updates
  immediately before all reported a warning (`T = trailingWarnings c vs`, the warning-limit event): then RDDM
  reports drift and no warning (while DDM reports warning and no drift).
This update may itself be the first event; hypothesis `0 < minConcept` = accepted configuration. -/
theorem rddm_eq_ddm_until_named_event (c : RDDM.Cfg α) (hmc : 0 < c.minConcept) (vs : List α) (v : α)
    (hne : ∀ p, p <+: vs → p ≠ [] → NoEvent c p) :
    let r' := rrun c (vs ++ [v])
    let d' := drun (toDDM c) (vs ++ [v])
    r'.err = none ∧ r'.n = vs.length + 1 ∧ d'.n = vs.length + 1 ∧ r'.er = d'.er ∧ r'.minPS = d'.minPS ∧
    (if d'.warning = true ∧ c.maxWarn ≤ trailingWarnings c vs then
      r'.drift = true ∧ r'.warning = false ∧ d'.drift = false
     else r'.drift = d'.drift ∧ r'.warning = d'.warning) := by
  intro r' d'
  have hne' := (rddm_noEvent_iff c hmc vs).mpr hne
  obtain ⟨b1, b2, b3, b4, b5, b6⟩ := rddm_eq_ddm_until_event c hmc vs v hne'
  have hT : (rrun c vs).numWarnings = trailingWarnings c vs :=
    (rddm_numWarnings c hmc vs).2.2.1 (hne' vs (List.prefix_refl _))
  have hflag := (ddm_step_flags (toDDM c) (drun (toDDM c) vs) v).2
  rw [← drun_snoc] at hflag
  have hwl : warnLimitEvent c r'.n r'.er r'.minPS (rrun c vs).numWarnings =
      (d'.warning && decide (c.maxWarn ≤ trailingWarnings c vs)) := by
    rw [hT, hflag, ← b2, ← b3, ← b4]; rfl
  refine ⟨b1, b5, by rw [← b2]; exact b5, b3, b4, ?_⟩
  rw [hwl] at b6
  by_cases hg : d'.warning = true ∧ c.maxWarn ≤ trailingWarnings c vs
  · rw [if_pos hg]
    rw [if_pos (by simp [hg.1, hg.2])] at b6
    exact ⟨b6.1, b6.2.1, b6.2.2.1⟩
  · rw [if_neg hg]
    rw [if_neg (by simpa using hg)] at b6
    exact b6

/-- **C03c / `rddm_preds_le_ern`** (any carrier).  The prediction queue never holds more values than the
error-rate estimator summarises, so the rebuild after an event (which re-reads the queue and adds the new value,
`rddm_suffix_step`) can only cut the summarised suffix BACK: `er.n` never grows by more than one per update, i.e.
the start `|vs| - er.n` of the summarised suffix never moves to the left. -/
theorem rddm_preds_le_ern (c : RDDM.Cfg α) (hmc : 0 < c.minConcept) (vs : List α) :
    (rrun c vs).preds.count ≤ (rrun c vs).er.n ∧
    ∀ v, (rrun c (vs ++ [v])).er.n ≤ (rrun c vs).er.n + 1 ∧
      vs.length - (rrun c vs).er.n ≤ (vs ++ [v]).length - (rrun c (vs ++ [v])).er.n ∧
      1 ≤ (rrun c (vs ++ [v])).er.n := by
  have main : ∀ vs : List α, (rrun c vs).preds.count ≤ (rrun c vs).er.n := by
    intro vs
    induction vs using List.reverseRecOn with
    | nil => simp [rrun, RDDM.init, CQ.init]
    | append_singleton vs v ih =>
      obtain ⟨h1, h2⟩ := rddm_suffix_step c hmc vs v
      have hcnt : (rrun c (vs ++ [v])).preds.count ≤ (rrun c vs).preds.count + 1 := by
        rw [rrun_snoc, RDDM.step_eq]
        have := (RDDM.post_spec c (RDDM.pre c (rrun c vs)) v).2.2.2.2.1
        rw [(RDDM.pre_spec c (rrun c vs)).1] at this
        exact this
      cases hr : (rrun c vs).rddmDrift
      · have := (h1 hr).1; omega
      · have := (h2 hr).1; omega
  refine ⟨main vs, fun v => ?_⟩
  obtain ⟨h1, h2⟩ := rddm_suffix_step c hmc vs v
  have hle := (rddm_suffix c hmc vs).2.2.2.2.1
  have := main vs
  simp only [List.length_append, List.length_singleton]
  cases hr : (rrun c vs).rddmDrift
  · have := (h1 hr).1; omega
  · have := (h2 hr).1; omega

/-- **C03c / `rddm_cut_iff_event`** (any carrier) — row 13b with the named events.  Consider the update `v` that
follows the update `w`.  Let `ev` say that one of the three named events happened at the update `w` (drift-level,
warning-limit with `T = trailingWarnings c vs`, or max-concept-size).  If not, `er` (and `n`) simply absorb one more
value.  If so, `er` is rebuilt from the stored predictions plus `v`: the summarised suffix then has
`preds.count + 1 ≤ minConcept + 1` values, which is also `≤ er.n + 1`, i.e. the suffix was cut back (never
extended to the left), and the instance counter is `preds.count`. -/
theorem rddm_cut_iff_event (c : RDDM.Cfg α) (hmc : 0 < c.minConcept) (vs : List α) (w v : α) :
    let r := rrun c (vs ++ [w])
    let r' := rrun c (vs ++ [w] ++ [v])
    let ev := driftLevelEvent c r || warnLimitEvent c r.n r.er r.minPS (trailingWarnings c vs) || maxConceptEvent c r
    (ev = false → r'.er.n = r.er.n + 1 ∧ r'.n = r.n + 1) ∧
    (ev = true → r'.er.n = r.preds.count + 1 ∧ r'.er.n ≤ c.minConcept + 1 ∧ r'.er.n ≤ r.er.n + 1 ∧
      r'.n = r.preds.count) := by
  intro r r' ev
  have hev : r.rddmDrift = ev := (rddm_event_iff c hmc vs w).2.2.2.1
  obtain ⟨h1, h2⟩ := rddm_suffix_step c hmc (vs ++ [w]) v
  have hp := (rddm_preds_le_ern c hmc (vs ++ [w])).1
  refine ⟨fun h => h1 (by rw [hev]; exact h), fun h => ?_⟩
  obtain ⟨a, b, d⟩ := h2 (by rw [hev]; exact h)
  have a' : (rrun c (vs ++ [w] ++ [v])).er.n = (rrun c (vs ++ [w])).preds.count + 1 := a
  exact ⟨a, b, by show (rrun c (vs ++ [w] ++ [v])).er.n ≤ (rrun c (vs ++ [w])).er.n + 1; omega, d⟩

end RDDMGeneric

/-! ## RDDM at `α = ℝ`: the error-rate estimate is the arithmetic mean of the summarised suffix -/
section RDDMReal

/-- the incremental `Mean.update` recursion over a whole list is its arithmetic mean (division-free form) -/
theorem foldl_mean_take (L : List ℝ) : ∀ t, t ≤ L.length →
    ((L.take t).foldl Mean.update Mean.init).n = t ∧
    ((L.take t).foldl Mean.update Mean.init).mean * t = (L.take t).sum := by
  intro t
  induction t with
  | zero => intro _; simp [Mean.init]
  | succ t ih =>
    intro ht
    have ht' : t < L.length := by omega
    obtain ⟨a, b⟩ := ih (by omega)
    obtain ⟨x, -, z⟩ := mean_update_prefix L t ht' _ a b
    rw [List.take_succ_eq_append_getElem ht', List.foldl_append]
    simp only [List.foldl_cons, List.foldl_nil]
    refine ⟨x, ?_⟩
    rw [z, List.take_succ_eq_append_getElem ht']

/-- **C03c / `rddm_mean_real`** (`α = ℝ`).  After any stream `vs` fed to a fresh RDDM (`0 < minConcept`), with
`k = er.n` the number of summarised values: `k ≤ |vs|`, the summarised values are the last `k` values of the
stream (`rddm_suffix`), `k ≥ 1` as soon as one value has been fed, the prediction queue holds at most `k` values
(so a rebuild is a cut BACK, see `rddm_preds_le_ern`), and the error-rate estimate is their arithmetic mean
`(Σ of the last k values) / k`.  The hypothesis `1 ≤ k` excludes the junk value `0 / 0`; it holds iff `vs ≠ []`. -/
theorem rddm_mean_real (c : RDDM.Cfg ℝ) (hmc : 0 < c.minConcept) (vs : List ℝ) :
    let s := rrun c vs
    s.er.n ≤ vs.length ∧ (vs.drop (vs.length - s.er.n)).length = s.er.n ∧
    (vs ≠ [] ↔ 1 ≤ s.er.n) ∧ s.preds.count ≤ s.er.n ∧
    (1 ≤ s.er.n → s.er.mean = (vs.drop (vs.length - s.er.n)).sum / s.er.n) := by
  intro s
  obtain ⟨-, -, -, -, hn, he⟩ := rddm_suffix c hmc vs
  have hpc := (rddm_preds_le_ern c hmc vs).1
  have hs : s = rrun c vs := rfl
  clear_value s
  subst hs
  have hlen : (vs.drop (vs.length - (rrun c vs).er.n)).length = (rrun c vs).er.n := by
    simp only [List.length_drop]; omega
  refine ⟨hn, hlen, ?_, hpc, fun h1 => ?_⟩
  · constructor
    · intro hne
      obtain ⟨ws, w, rfl⟩ : ∃ ws w, vs = ws ++ [w] := by
        rcases List.eq_nil_or_concat vs with h | ⟨ws, w, h⟩
        · exact absurd h hne
        · exact ⟨ws, w, by rw [h]; simp⟩
      exact ((rddm_preds_le_ern c hmc ws).2 w).2.2
    · intro h1 hnil
      subst hnil
      simp at hn
      omega
  · set L := vs.drop (vs.length - (rrun c vs).er.n) with hL
    have := foldl_mean_take L L.length (le_refl _)
    rw [List.take_length] at this
    rw [← he] at this
    have hpos : ((rrun c vs).er.n : ℝ) ≠ 0 := by positivity
    rw [eq_div_iff hpos, ← hlen]; exact this.2

end RDDMReal

/-! ## EDDM: one declarative statement of the verdicts -/
section EDDMSpec

/-- `M` is the running maximum of the thresholds `T_j = mean_j + level * std_j` over the eligible error steps `j`
of the stream `vs` (error steps with `minMis ≤ j`, see `eligThr`): it is one of them and dominates all. -/
def IsRunningMax (c : EDDM.Cfg ℝ) (vs : List ℝ) (M : ℝ) : Prop :=
  M ∈ eligThr c vs ∧ ∀ T ∈ eligThr c vs, T ≤ M

theorem isRunningMax_unique (c : EDDM.Cfg ℝ) (vs : List ℝ) (M M' : ℝ)
    (h : IsRunningMax c vs M) (h' : IsRunningMax c vs M') : M = M' :=
  le_antisymm (h'.2 M h.1) (h.2 M' h'.1)

theorem isRunningMax_iff (c : EDDM.Cfg ℝ) (vs : List ℝ) (M : ℝ) :
    IsRunningMax c vs M ↔ (erun c vs).maxThr = some M := by
  obtain ⟨h1, h2⟩ := eddm_maxThr_running_max c vs
  constructor
  · intro hM
    cases hm : (erun c vs).maxThr with
    | none => have := hM.1; rw [h1.mp hm] at this; exact absurd this (by simp)
    | some mx => rw [isRunningMax_unique c vs M mx hM (h2 mx hm)]
  · intro hm; exact h2 M hm

/-- the number of errors (= of inter-error distances) never exceeds the number of instances -/
theorem dists_length_le (vs : List ℝ) : (dists vs).length ≤ vs.length := by
  have c : EDDM.Cfg ℝ := ⟨0, 0, 0, 0⟩
  obtain ⟨h1, -, -⟩ := flagInv_erun c vs
  obtain ⟨h2, h3, -⟩ := eddm_welford c vs
  omega

/-- **C03c / `eddm_spec`** (`α = ℝ`) — the published EDDM rule as ONE declarative equivalence per flag, with no
reference to any field of the model state.  Feed `vs ++ [v]` to a fresh EDDM.  Let `D'` be the list of distances
between consecutive errors of `vs ++ [v]` (`dists`: `d_1 = t_1`, `d_i = t_i - t_{i-1}`), `T = mean D' + level * std D'`
(`thrSpec`, population std), and let the running maximum `M` range over the same statistic at the earlier
*eligible* error steps (`IsRunningMax c vs M`: error steps `j ≤ |vs|` with `minMis ≤ j`).  Then

* `drift   ⇔ v = 1 ∧ minMis ≤ |D'| ∧ ∃ M, IsRunningMax c vs M ∧ T ≤ M ∧ T / M < beta`
* `warning ⇔ v = 1 ∧ minMis ≤ |D'| ∧ ∃ M, IsRunningMax c vs M ∧ T ≤ M ∧ ¬ T / M < beta ∧ T / M < alpha`.

`minMis ≤ |D'|` (at least `minMis` errors) implies `minMis ≤ |vs| + 1` (`dists_length_le`), the gate of the
running maximum.  When `T` exceeds every earlier eligible threshold (or there is none) it becomes the new maximum
and no flag is raised — this is the `T ≤ M` conjunct (the code does not evaluate the ratio `T / T = 1` then).
`M` is unique (`isRunningMax_unique`) and, for `0 ≤ level`, `M ≥ 1` (`eddm_maxThr_ge_one`), so `T / M` is a
genuine division; `eddm_spec_nodiv` clears it.  No hypothesis on the stream or the configuration is needed. -/
theorem eddm_spec (c : EDDM.Cfg ℝ) (vs : List ℝ) (v : ℝ) :
    let D' := dists (vs ++ [v])
    let T := thrSpec c.level D'
    ((erun c (vs ++ [v])).drift = true ↔
      v = 1 ∧ c.minMis ≤ D'.length ∧ ∃ M, IsRunningMax c vs M ∧ T ≤ M ∧ T / M < c.beta) ∧
    ((erun c (vs ++ [v])).warning = true ↔
      v = 1 ∧ c.minMis ≤ D'.length ∧ ∃ M, IsRunningMax c vs M ∧ T ≤ M ∧ ¬ T / M < c.beta ∧ T / M < c.alpha) := by
  intro D' T
  obtain ⟨r1, r2⟩ := eddm_rule c vs v
  have hlen : D'.length ≤ vs.length + 1 := by
    have := dists_length_le (vs ++ [v]); simpa using this
  by_cases hv : v = 1
  · obtain ⟨r3, r4⟩ := r2 hv
    by_cases hn : c.minMis ≤ vs.length + 1
    · obtain ⟨a, b, d⟩ := r4 hn
      cases hm : (erun c vs).maxThr with
      | none =>
        obtain ⟨-, f1, f2⟩ := a hm
        have hno : ¬ ∃ M, IsRunningMax c vs M := by
          rintro ⟨M, hM⟩; rw [(isRunningMax_iff c vs M).mp hM] at hm; exact absurd hm (by simp)
        refine ⟨⟨fun h => by rw [f1] at h; exact absurd h (by simp), fun ⟨_, _, M, hM, _⟩ => absurd ⟨M, hM⟩ hno⟩,
          ⟨fun h => by rw [f2] at h; exact absurd h (by simp), fun ⟨_, _, M, hM, _⟩ => absurd ⟨M, hM⟩ hno⟩⟩
      | some mx =>
        have hmx : IsRunningMax c vs mx := (isRunningMax_iff c vs mx).mpr hm
        have huniq : ∀ M, IsRunningMax c vs M → M = mx := fun M hM => isRunningMax_unique c vs M mx hM hmx
        rcases lt_or_ge mx T with hlt | hge
        · obtain ⟨-, f1, f2⟩ := b mx hm hlt
          refine ⟨⟨fun h => by rw [f1] at h; exact absurd h (by simp), ?_⟩,
            ⟨fun h => by rw [f2] at h; exact absurd h (by simp), ?_⟩⟩
          · rintro ⟨_, _, M, hM, hTM, _⟩; rw [huniq M hM] at hTM; exact absurd hTM (not_le.mpr hlt)
          · rintro ⟨_, _, M, hM, hTM, _⟩; rw [huniq M hM] at hTM; exact absurd hTM (not_le.mpr hlt)
        · obtain ⟨-, g1, g2⟩ := d mx hm hge
          by_cases hk : c.minMis ≤ D'.length
          · obtain ⟨x, y⟩ := g1 hk
            refine ⟨⟨fun h => ⟨hv, hk, mx, hmx, hge, x.mp h⟩, ?_⟩, ⟨fun h => ⟨hv, hk, mx, hmx, hge, y.mp h⟩, ?_⟩⟩
            · rintro ⟨_, _, M, hM, _, hb⟩; rw [huniq M hM] at hb; exact x.mpr hb
            · rintro ⟨_, _, M, hM, _, hb⟩; rw [huniq M hM] at hb; exact y.mpr hb
          · obtain ⟨f1, f2⟩ := g2 (not_le.mp hk)
            exact ⟨⟨fun h => by rw [f1] at h; exact absurd h (by simp), fun ⟨_, hk', _⟩ => absurd hk' hk⟩,
              ⟨fun h => by rw [f2] at h; exact absurd h (by simp), fun ⟨_, hk', _⟩ => absurd hk' hk⟩⟩
    · obtain ⟨f1, f2, -⟩ := r3 (by omega)
      exact ⟨⟨fun h => by rw [f1] at h; exact absurd h (by simp), fun ⟨_, hk', _⟩ => absurd (le_trans hk' hlen) hn⟩,
        ⟨fun h => by rw [f2] at h; exact absurd h (by simp), fun ⟨_, hk', _⟩ => absurd (le_trans hk' hlen) hn⟩⟩
  · obtain ⟨f1, f2, -⟩ := r1 hv
    exact ⟨⟨fun h => by rw [f1] at h; exact absurd h (by simp), fun ⟨hv', _⟩ => absurd hv' hv⟩,
      ⟨fun h => by rw [f2] at h; exact absurd h (by simp), fun ⟨hv', _⟩ => absurd hv' hv⟩⟩

/-- **C03c / `eddm_spec_at`** — `eddm_spec` indexed by the step `t` of a stream `xs` (`1 ≤ t ≤ |xs|`): the verdicts
after the first `t` values, with the running maximum taken over the eligible error steps among the first `t - 1`. -/
theorem eddm_spec_at (c : EDDM.Cfg ℝ) (xs : List ℝ) (t : ℕ) (ht1 : 1 ≤ t) (ht : t ≤ xs.length) :
    let D := dists (xs.take t)
    let T := thrSpec c.level D
    ((erun c (xs.take t)).drift = true ↔
      xs[t - 1]'(by omega) = 1 ∧ c.minMis ≤ D.length ∧
        ∃ M, IsRunningMax c (xs.take (t - 1)) M ∧ T ≤ M ∧ T / M < c.beta) ∧
    ((erun c (xs.take t)).warning = true ↔
      xs[t - 1]'(by omega) = 1 ∧ c.minMis ≤ D.length ∧
        ∃ M, IsRunningMax c (xs.take (t - 1)) M ∧ T ≤ M ∧ ¬ T / M < c.beta ∧ T / M < c.alpha) := by
  obtain ⟨k, rfl⟩ : ∃ k, t = k + 1 := ⟨t - 1, by omega⟩
  have hk : k < xs.length := by omega
  have htake : xs.take (k + 1) = xs.take k ++ [xs[k]] := List.take_succ_eq_append_getElem hk
  simp only [Nat.add_sub_cancel, htake]
  exact eddm_spec c (xs.take k) xs[k]

/-- **C03c / `eddm_spec_nodiv`** — `eddm_spec` with the division cleared, for `0 ≤ level` (accepted
configurations have `level > 0`): then the running maximum is `≥ 1`, and
`drift ⇔ … T < beta * M`, `warning ⇔ … beta * M ≤ T < alpha * M`. -/
theorem eddm_spec_nodiv (c : EDDM.Cfg ℝ) (hl : 0 ≤ c.level) (vs : List ℝ) (v : ℝ) :
    let D' := dists (vs ++ [v])
    let T := thrSpec c.level D'
    (∀ M, IsRunningMax c vs M → 1 ≤ M) ∧
    ((erun c (vs ++ [v])).drift = true ↔
      v = 1 ∧ c.minMis ≤ D'.length ∧ ∃ M, IsRunningMax c vs M ∧ T ≤ M ∧ T < c.beta * M) ∧
    ((erun c (vs ++ [v])).warning = true ↔
      v = 1 ∧ c.minMis ≤ D'.length ∧ ∃ M, IsRunningMax c vs M ∧ T ≤ M ∧ c.beta * M ≤ T ∧ T < c.alpha * M) := by
  intro D' T
  have hge : ∀ M, IsRunningMax c vs M → 1 ≤ M :=
    fun M hM => eddm_maxThr_ge_one c hl vs M ((isRunningMax_iff c vs M).mp hM)
  obtain ⟨h1, h2⟩ := eddm_spec c vs v
  refine ⟨hge, ?_, ?_⟩
  · rw [h1]
    refine and_congr_right fun _ => and_congr_right fun _ => exists_congr fun M => and_congr_right fun hM => ?_
    have hpos : 0 < M := by linarith [hge M hM]
    rw [div_lt_iff₀ hpos]
  · rw [h2]
    refine and_congr_right fun _ => and_congr_right fun _ => exists_congr fun M => and_congr_right fun hM => ?_
    have hpos : 0 < M := by linarith [hge M hM]
    rw [div_lt_iff₀ hpos, div_lt_iff₀ hpos, not_lt]

/-- non-vacuity of `eddm_spec`: `level = 0`, `minMis = 1`, `beta = 0.9`; stream `0,1` (one error at distance 2, so
the running maximum is `M = 2`) followed by an error at distance 1: `T = 1.5 ≤ 2`, `T / M = 0.75 < 0.9`.  The right
hand side of the drift equivalence holds, hence the model reports drift. -/
example : let c : EDDM.Cfg ℝ := ⟨0.95, 0.9, 0, 1⟩
    IsRunningMax c [0, 1] 2 ∧ thrSpec c.level (dists ([0, 1] ++ [1])) = 3 / 2 ∧
    (erun c ([0, 1] ++ [1])).drift = true := by
  intro c
  have e : errTimes [0, 1, 1] = [2, 3] := by simp [errTimes, List.zipIdx]
  have d : dists ([0, 1] ++ [1]) = [2, 1] := by
    simp only [List.cons_append, List.nil_append, dists, e, gapsFrom]; norm_num
  have hM : IsRunningMax c [0, 1] 2 := by
    rw [isRunningMax_iff]; simp [c, erun, EDDM.step, EDDM.init]
  have hT : thrSpec c.level (dists ([0, 1] ++ [1])) = 3 / 2 := by
    rw [d]; norm_num [c, thrSpec, meanOf]
  refine ⟨hM, hT, ?_⟩
  rw [(eddm_spec c [0, 1] 1).1]
  refine ⟨rfl, by rw [d]; simp [c], 2, hM, by rw [hT]; norm_num, ?_⟩
  rw [hT]; norm_num [c]

end EDDMSpec

/-! ## DDM: the drift condition implies the warning threshold -/
section DDMWarn

/-- on one comparison: a recorded minimum with `s_min ≥ 0` and levels `warn ≤ drift` -/
theorem exceeds_drift_imp_warn (e : ℝ) (m : Option (ℝ × ℝ)) (w d : ℝ) (hwd : w ≤ d)
    (hs : ∀ p s, m = some (p, s) → 0 ≤ s) (h : DDM.exceeds e m d = true) : DDM.exceeds e m w = true := by
  rcases m with _ | ⟨p, s⟩
  · exact absurd h (by simp [DDM.exceeds])
  · rw [ddm_exceeds_some] at h ⊢
    have hs' := hs p s rfl
    have := mul_le_mul_of_nonneg_right hwd hs'
    simp only [decide_eq_true_eq] at h ⊢
    linarith

/-- **C03c / `ddm_drift_imp_warnThreshold`** (`α = ℝ`).  For a configuration with `warn ≤ drift` (every accepted
configuration: `0 < warn < drift`), `1 ≤ minN`, any real stream and any step `minN ≤ t ≤ |xs|`, with
`j* = jStar xs minN t` the index of the recorded minimum:
* `s_min = sHat xs j* ≥ 0` (a square root — PROVED here, not assumed);
* the drift condition `p_t + s_t > p_min + drift * s_min` implies the warning threshold is exceeded,
  `p_t + s_t > p_min + warn * s_min`;
* hence the model's `warning` flag (`¬drift ∧ warning threshold exceeded`, `ddm_spec`) satisfies
  `warning ∨ drift ⇔ p_t + s_t > p_min + warn * s_min`: the property's wording "warning exactly when the warning
  threshold is exceeded" and the theorem's extra conjunct `¬drift` describe the same three-zone rule.
Without `warn ≤ drift` the implication fails whenever `s_min > 0` (see the `example` below). -/
theorem ddm_drift_imp_warnThreshold (c : DDM.Cfg ℝ) (hm : 1 ≤ c.minN) (hw : c.warn ≤ c.drift)
    (xs : List ℝ) (t : ℕ) (ht : t ≤ xs.length) (hmt : c.minN ≤ t) :
    let j := jStar xs c.minN t
    0 ≤ sHat xs j ∧
    (pHat xs j + c.drift * sHat xs j < pHat xs t + sHat xs t →
      pHat xs j + c.warn * sHat xs j < pHat xs t + sHat xs t) ∧
    ((ddmAfter c (xs.take t)).drift = true → pHat xs j + c.warn * sHat xs j < pHat xs t + sHat xs t) ∧
    (((ddmAfter c (xs.take t)).warning = true ∨ (ddmAfter c (xs.take t)).drift = true) ↔
      pHat xs j + c.warn * sHat xs j < pHat xs t + sHat xs t) := by
  intro j
  have hs : 0 ≤ sHat xs j := Real.sqrt_nonneg _
  have himp : pHat xs j + c.drift * sHat xs j < pHat xs t + sHat xs t →
      pHat xs j + c.warn * sHat xs j < pHat xs t + sHat xs t := by
    intro h
    have := mul_le_mul_of_nonneg_right hw hs
    linarith
  obtain ⟨-, -, -, -, h5, h6⟩ := ddm_spec_core c hm xs t ht
  refine ⟨hs, himp, fun hd => himp (h5.mp hd).2, ?_⟩
  rw [h5, h6]
  constructor
  · rintro (⟨-, -, h⟩ | ⟨-, h⟩)
    · exact h
    · exact himp h
  · intro h
    by_cases hd : pHat xs j + c.drift * sHat xs j < pHat xs t + sHat xs t
    · exact Or.inr ⟨hmt, hd⟩
    · exact Or.inl ⟨hmt, hd, h⟩

/-- non-vacuity of `ddm_drift_imp_warnThreshold`: the default configuration (`warn = 2 < drift = 3`), past the warm-up -/
example : ∃ (c : DDM.Cfg ℝ) (xs : List ℝ) (t : ℕ),
    1 ≤ c.minN ∧ 0 < c.warn ∧ c.warn < c.drift ∧ c.warn ≤ c.drift ∧ t ≤ xs.length ∧ c.minN ≤ t :=
  ⟨⟨2, 3, 1⟩, [0, 0, 1], 3, by norm_num, by norm_num, by norm_num, by norm_num, by simp, by norm_num⟩

/-- the hypothesis `warn ≤ drift` cannot be dropped: with `s_min > 0` and `drift < warn` the drift condition can
hold while the warning threshold is not exceeded -/
example : ∃ p s e w d : ℝ, 0 < s ∧ d < w ∧ p + d * s < e ∧ ¬ p + w * s < e :=
  ⟨0, 1, 5 / 2, 3, 2, by norm_num, by norm_num, by norm_num, by norm_num⟩

end DDMWarn

/-! ## Non-vacuity (RDDM) -/

/-- `rddm_eq_ddm_until_named_event` / `rddm_noEvent_iff`: hypotheses satisfied BEYOND the warm-up (`minN = 1`, so
every update is tested): `α = ℝ`, stream `0, 0`, no event at either update. -/
example : let c : RDDM.Cfg ℝ := ⟨2, 3, 1, 10, 3, 2⟩
    0 < c.minConcept ∧ c.minN ≤ 1 ∧ ∀ p, p <+: [0, 0] → p ≠ [] → NoEvent c p := by
  intro c
  refine ⟨by simp [c], by simp [c], fun p hp hne => ?_⟩
  have : p ∈ ([0, 0] : List ℝ).inits := (List.mem_inits _ _).mpr hp
  simp [List.inits] at this
  rcases this with rfl | rfl | rfl
  · exact absurd rfl hne
  · simp [NoEvent, c, rrun, RDDM.step, RDDM.init, CQ.init, CQ.enqueue, CQ.isFull, CQ.nextLast, DDM.epsStd,
      DDM.belowMin, DDM.exceeds, Mean.update, Mean.init]
  · simp [NoEvent, c, rrun, RDDM.step, RDDM.init, CQ.init, CQ.enqueue, CQ.isFull, CQ.nextLast, DDM.epsStd,
      DDM.belowMin, DDM.exceeds, Mean.update, Mean.init]

/-- `rddm_mean_real`: hypotheses `0 < minConcept`, `1 ≤ er.n` on a run that has already gone through an event and a
rebuild (`maxConcept = 1`, stream `0, 0`: `er.n = 2`, see `rddm_n_ne_ern_witness`) -/
example : let c : RDDM.Cfg ℝ := ⟨2, 3, 1, 1, 3, 2⟩
    0 < c.minConcept ∧ 1 ≤ (rrun c [0, 0]).er.n := by
  intro c
  have := rddm_n_ne_ern_witness
  simp only [] at this
  exact ⟨by simp [c], by rw [this.2]; norm_num⟩

/-- DDM (`warn = 1/2`, `drift = 100`, `minN = 1`) on the stream `1, 0, 1`, computed through `ddm_spec_core`:
no flag, then warning, then warning again (the recorded minimum is `(1/2, √(1/8))` from step 2 on). -/
theorem ddm_run_101 : let dc : DDM.Cfg ℝ := ⟨1/2, 100, 1⟩
    (ddmAfter dc [1]).drift = false ∧ (ddmAfter dc [1]).warning = false ∧
    (ddmAfter dc [1, 0]).drift = false ∧ (ddmAfter dc [1, 0]).warning = true ∧
    (ddmAfter dc [1, 0, 1]).drift = false ∧ (ddmAfter dc [1, 0, 1]).warning = true := by
  intro dc
  set xs : List ℝ := [1, 0, 1] with hxs
  have hp1 : pHat xs 1 = 1 := by simp [pHat, xs]
  have hp2 : pHat xs 2 = 1 / 2 := by simp [pHat, xs]
  have hp3 : pHat xs 3 = 2 / 3 := by simp [pHat, xs]; norm_num
  have hs1 : sHat xs 1 = 0 := by simp [sHat, hp1]
  have hs2 : sHat xs 2 = √(1 / 8) := by rw [sHat, hp2]; norm_num
  have hs3 : sHat xs 3 = √(2 / 27) := by rw [sHat, hp3]; norm_num
  have ha1 : (1 : ℝ) / 3 ≤ √(1 / 8) := by rw [Real.le_sqrt' (by norm_num)]; norm_num
  have ha2 : √(1 / 8 : ℝ) ≤ 9 / 25 := by rw [Real.sqrt_le_iff]; norm_num
  have hb1 : (1 : ℝ) / 4 ≤ √(2 / 27) := by rw [Real.le_sqrt' (by norm_num)]; norm_num
  have hb2 : √(2 / 27 : ℝ) ≤ 1 := by rw [Real.sqrt_le_iff]; norm_num
  have hsc1 : score xs 1 = 1 := by rw [score, hp1, hs1]; norm_num
  have hsc2 : score xs 2 = 1 / 2 + √(1 / 8) := by rw [score, hp2, hs2]
  have hsc3 : score xs 3 = 2 / 3 + √(2 / 27) := by rw [score, hp3, hs3]
  have hJ1 : jStar xs 1 1 = 1 := argminFirst_of_le _ (le_refl 1)
  have hJ2 : jStar xs 1 2 = 2 := by
    unfold jStar at hJ1 ⊢
    rw [argminFirst_succ _ (le_refl 1), hJ1, hsc1, hsc2, if_pos (by linarith)]
  have hJ3 : jStar xs 1 3 = 2 := by
    unfold jStar at hJ2 ⊢
    rw [argminFirst_succ _ (by norm_num : 1 ≤ 2), hJ2, hsc2, hsc3, if_neg (by linarith)]
  have t1 : xs.take 1 = [1] := rfl
  have t2 : xs.take 2 = [1, 0] := rfl
  have t3 : xs.take 3 = [1, 0, 1] := rfl
  obtain ⟨-, -, -, -, d1, w1⟩ := ddm_spec_core dc (by norm_num [dc]) xs 1 (by simp [xs])
  obtain ⟨-, -, -, -, d2, w2⟩ := ddm_spec_core dc (by norm_num [dc]) xs 2 (by simp [xs])
  obtain ⟨-, -, -, -, d3, w3⟩ := ddm_spec_core dc (by norm_num [dc]) xs 3 (by simp [xs])
  rw [t1] at d1 w1; rw [t2] at d2 w2; rw [t3] at d3 w3
  have hm : dc.minN = 1 := rfl
  have hd : dc.drift = 100 := rfl
  have hw : dc.warn = 1 / 2 := rfl
  rw [hm, hJ1, hp1, hs1, hd] at d1
  rw [hm, hJ1, hp1, hs1, hd, hw] at w1
  rw [hm, hJ2, hp2, hs2, hd] at d2
  rw [hm, hJ2, hp2, hs2, hd, hw] at w2
  rw [hm, hJ3, hp2, hs2, hp3, hs3, hd] at d3
  rw [hm, hJ3, hp2, hs2, hp3, hs3, hd, hw] at w3
  refine ⟨?_, ?_, ?_, ?_, ?_, ?_⟩
  · rw [← Bool.not_eq_true, d1]; intro h; linarith [h.2]
  · rw [← Bool.not_eq_true, w1]; intro h; linarith [h.2.2]
  · rw [← Bool.not_eq_true, d2]; intro h; linarith [h.2]
  · rw [w2]; exact ⟨by norm_num, by intro h; linarith, by linarith⟩
  · rw [← Bool.not_eq_true, d3]; intro h; linarith [h.2]
  · rw [w3]; exact ⟨by norm_num, by intro h; linarith, by linarith⟩

/-- **C03c / `rddm_numWarnings_stale_witness`** (`α = ℝ`) — one concrete run serving three purposes.
Configuration `warn = 1/2 < drift = 100`, `minN = 1`, `maxConcept = 1000`, `minConcept = 3`, `maxWarn = 1`; stream `1, 0, 1`.
* Non-vacuity of `rddm_eq_ddm_until_named_event` beyond the warm-up AND in its warning-limit branch: no event at the
  first two updates, the second update reports a warning (`trailingWarnings = 1 ≥ maxWarn`), and at the third update
  DDM reports a warning while RDDM reports drift — the warning-limit event.
* Witness that the unconditional reading "`numWarnings` = length of the trailing block of warning steps" is FALSE
  for the model: after the third update the stored field is `1` although the last update reported no warning
  (`trailingWarnings = 0`).  `rddm_numWarnings` is therefore the strongest true statement.
The verdicts are derived from the theorems of this file and `ddm_spec_core`, not by unfolding the model. -/
theorem rddm_numWarnings_stale_witness : let c : RDDM.Cfg ℝ := ⟨1/2, 100, 1, 1000, 3, 1⟩
    0 < c.minConcept ∧ (∀ p, p <+: [1, 0] → p ≠ [] → NoEvent c p) ∧
    (rrun c [1, 0]).warning = true ∧ trailingWarnings c [1, 0] = 1 ∧ c.maxWarn ≤ trailingWarnings c [1, 0] ∧
    (drun (toDDM c) [1, 0, 1]).warning = true ∧ (drun (toDDM c) [1, 0, 1]).drift = false ∧
    (rrun c [1, 0, 1]).drift = true ∧ (rrun c [1, 0, 1]).warning = false ∧
    (rrun c [1, 0, 1]).numWarnings = 1 ∧ trailingWarnings c [1, 0, 1] = 0 := by
  intro c
  have hmc : 0 < c.minConcept := by simp [c]
  obtain ⟨dd1, dw1, dd2, dw2, dd3, dw3⟩ := ddm_run_101
  have hdc : toDDM c = (⟨1/2, 100, 1⟩ : DDM.Cfg ℝ) := rfl
  have hrun : ∀ l, drun (toDDM c) l = ddmAfter ⟨1/2, 100, 1⟩ l := fun l => by rw [hdc]; rfl
  -- update 1
  have e1 := rddm_eq_ddm_until_named_event c hmc [] 1
    (fun p hp hne => absurd (List.prefix_nil.mp hp) hne)
  simp only [List.nil_append, hrun] at e1
  obtain ⟨-, -, -, -, -, e1⟩ := e1
  rw [if_neg (by rw [dw1]; simp)] at e1
  have r1d : (rrun c [1]).drift = false := by rw [e1.1, dd1]
  have r1w : (rrun c [1]).warning = false := by rw [e1.2, dw1]
  have T1 : trailingWarnings c [1] = 0 := by
    have := trailingWarnings_snoc c [] (1 : ℝ)
    simp only [List.nil_append] at this
    rw [this]; simp [r1w]
  have N1 : NoEvent c [1] := ⟨r1d, by simp [c]⟩
  have hne1 : ∀ p, p <+: ([1] : List ℝ) → p ≠ [] → NoEvent c p := by
    intro p hp hne
    rcases (List.prefix_concat_iff (l₂ := []) (a := (1 : ℝ))).mp (by simpa using hp) with h | h
    · rw [h]; exact N1
    · exact absurd (List.prefix_nil.mp h) hne
  -- update 2
  have e2 := rddm_eq_ddm_until_named_event c hmc [1] 0 hne1
  simp only [List.cons_append, List.nil_append, hrun] at e2
  obtain ⟨-, -, -, -, -, e2⟩ := e2
  rw [if_neg (by rw [T1]; simp [c])] at e2
  have r2d : (rrun c [1, 0]).drift = false := by rw [e2.1, dd2]
  have r2w : (rrun c [1, 0]).warning = true := by rw [e2.2, dw2]
  have T2 : trailingWarnings c [1, 0] = 1 := by
    have := trailingWarnings_snoc c [1] (0 : ℝ)
    simp only [List.cons_append, List.nil_append] at this
    rw [this]; simp [r2w, T1]
  have N2 : NoEvent c [1, 0] := ⟨r2d, by simp [c]⟩
  have hne2 : ∀ p, p <+: ([1, 0] : List ℝ) → p ≠ [] → NoEvent c p := by
    intro p hp hne
    rcases (List.prefix_concat_iff (l₂ := [1]) (a := (0 : ℝ))).mp (by simpa using hp) with h | h
    · rw [h]; exact N2
    · exact hne1 p h hne
  -- update 3: the warning-limit event
  have e3 := rddm_eq_ddm_until_named_event c hmc [1, 0] 1 hne2
  simp only [List.cons_append, List.nil_append, hrun] at e3
  obtain ⟨-, -, -, -, -, e3⟩ := e3
  rw [if_pos ⟨dw3, by rw [T2]⟩] at e3
  have hst := rddm_numWarnings_after_drift c hmc [1, 0] 1 (by simpa using e3.1)
  simp only [List.cons_append, List.nil_append] at hst
  refine ⟨hmc, hne2, r2w, T2, by rw [T2], by rw [hrun]; exact dw3, by rw [hrun]; exact dd3, e3.1, e3.2.1, ?_, hst.2⟩
  rw [hst.1, T2]

/-! ### axioms used by the property theorems -/
#print axioms rddm_step_event_iff
#print axioms rddm_event_iff_step
#print axioms rddm_event_iff
#print axioms trailingWarnings_spec
#print axioms rddm_numWarnings
#print axioms rddm_numWarnings_after_drift
#print axioms rddm_numWarnings_stale_witness
#print axioms rddm_noEvent_iff
#print axioms rddm_eq_ddm_until_named_event
#print axioms rddm_preds_le_ern
#print axioms rddm_cut_iff_event
#print axioms rddm_mean_real
#print axioms eddm_spec
#print axioms eddm_spec_at
#print axioms eddm_spec_nodiv
#print axioms ddm_drift_imp_warnThreshold

end Frouros.C03c
