/-
  C11 (state-machine tie) — `IncrementalKSTest` (`FrourosModel/StreamKS.lean`) as fit / update / reset:

  * an `update` on an unfitted detector raises MissingFitError and changes NOTHING (it is neither
    counted nor stored), so rejected updates leave no trace in later results;
  * after `fit ref`, update number `t` returns nothing while `t < w` and for `t ≥ w` the test of the
    sorted reference against the raw ring buffer, which is a permutation of the last `w` values;
  * hence (with `C11.incr_eq_batch`) the lattice statistic `h` and the p-value equal the batch values
    for (reference, last `w` values) at every step — every carrier, hence IEEE doubles;
  * the p-value is the exact fraction iff `max(n, w) ≤ 10000`, else the asymptotic branch.

  The circular-queue invariant `QInv` and its lemmas are those of `Props/C09.lean`.
-/
import FrourosModel.StreamKS
import FrourosProofs.Props.C09
import FrourosProofs.Props.C11
namespace Frouros.C11b
open Frouros Frouros.KS Frouros.C09 Frouros.C11

variable {α : Type} [Num α]

/-- the detector state after the updates `vs` (outputs discarded) -/
def runK (s : IncKS.State α) (vs : List α) : IncKS.State α :=
  vs.foldl (fun s v => (IncKS.update s v).2) s

@[simp] theorem runK_nil (s : IncKS.State α) : runK s [] = s := rfl
theorem runK_snoc (s : IncKS.State α) (vs : List α) (v : α) :
    runK s (vs ++ [v]) = (IncKS.update (runK s vs) v).2 := by
  simp [runK, List.foldl_append]

/-! ### unfitted detector -/

/-- `update` before `fit` (or after `reset`) raises MissingFitError and leaves the state untouched -/
theorem update_unfitted (s : IncKS.State α) (h : s.ref = none) (v : α) :
    IncKS.updateErr s = some .missingFit ∧ IncKS.update s v = (none, s) := by
  simp [IncKS.updateErr, IncKS.update, h]

/-- a fitted detector never raises MissingFitError -/
theorem updateErr_fitted (s : IncKS.State α) (xs : List α) : IncKS.updateErr (IncKS.fit s xs) = none := by
  simp [IncKS.updateErr, IncKS.fit]

/-- `reset()` unfits: the next update is rejected -/
theorem reset_unfits (s : IncKS.State α) : IncKS.updateErr (IncKS.reset s) = some .missingFit := by
  simp [IncKS.updateErr, IncKS.reset]

/-- rejected updates leave no trace: any number of updates on an unfitted detector is the identity,
so a following `fit` starts from the same state -/
theorem rejected_no_trace (s : IncKS.State α) (h : s.ref = none) (junk : List α) : runK s junk = s := by
  induction junk using List.reverseRecOn with
  | nil => rfl
  | append_singleton vs v ih => rw [runK_snoc, ih, (update_unfitted s h v).2]

/-! ### fitted detector -/

/-- state invariant after `fit ref` and the updates `vs` -/
structure KInv (w : Nat) (ref vs : List α) (s : IncKS.State α) : Prop where
  n_eq : s.n = vs.length
  window_eq : s.window = w
  ref_eq : s.ref = some (Hist.sort ref)
  q_inv : QInv w vs s.q

theorem kinv_fit (w : Nat) (ref : List α) : KInv w ref [] (IncKS.fit (IncKS.init w) ref) :=
  ⟨rfl, rfl, rfl, qinv_init w⟩

/-- one `update` of a fitted detector: never an error, `none` during warm-up, afterwards the test of
the sorted reference against the raw buffer -/
theorem update_spec (w : Nat) (hw : 0 < w) (ref vs : List α) (s : IncKS.State α) (h : KInv w ref vs s) (v : α) :
    ∃ s', IncKS.update s v =
        (if vs.length + 1 < w then none
          else
            let W := s'.q.raw.filterMap id
            let r := Hist.sort ref
            some ⟨KS.statistic r W, KS.hTwoSided r W, IncKS.pOf r.length W.length (KS.hTwoSided r W)⟩, s') ∧
      KInv w ref (vs ++ [v]) s' := by
  obtain ⟨q', he, hq, _⟩ := enqueue_spec w hw vs s.q h.q_inv v
  refine ⟨{ s with n := s.n + 1, q := q' }, ?_, ⟨?_, h.window_eq, h.ref_eq, hq⟩⟩
  · simp only [IncKS.update, he, h.n_eq, h.window_eq, h.ref_eq]
    split <;> rfl
  · simp [h.n_eq]

theorem kinv_runK (w : Nat) (hw : 0 < w) (ref vs : List α) :
    KInv w ref vs (runK (IncKS.fit (IncKS.init w) ref) vs) := by
  induction vs using List.reverseRecOn with
  | nil => exact kinv_fit w ref
  | append_singleton vs v ih =>
    obtain ⟨s', he, hs⟩ := update_spec w hw ref vs _ ih v
    rw [runK_snoc, he]
    exact hs

/-- **incks_window (every carrier).**  After `fit ref` and the updates `vs`, update number
`t = vs.length + 1` returns `none` while `t < w`; for `t ≥ w` it returns the statistic, the lattice
statistic and the p-value of the sorted reference against the raw ring buffer `W`, and `W` is a
permutation of the last `w` values (so `W.length = w`). -/
theorem incks_window (w : Nat) (hw : 0 < w) (ref vs : List α) (v : α) :
    let s0 : IncKS.State α := IncKS.fit (IncKS.init w) ref
    let W := (runK s0 (vs ++ [v])).q.raw.filterMap id
    let r := Hist.sort ref
    (IncKS.update (runK s0 vs) v).1 =
        (if vs.length + 1 < w then none
          else some ⟨KS.statistic r W, KS.hTwoSided r W, IncKS.pOf r.length W.length (KS.hTwoSided r W)⟩) ∧
      (w ≤ vs.length + 1 → W.Perm ((vs ++ [v]).drop (vs.length + 1 - w))) := by
  intro s0 W r
  obtain ⟨s', he, hs⟩ := update_spec w hw ref vs _ (kinv_runK w hw ref vs) v
  have hW : W = s'.q.raw.filterMap id := by
    simp only [W, runK_snoc]; rw [he]
  refine ⟨by rw [he, hW], fun hge => ?_⟩
  have := qinv_raw_perm w (vs ++ [v]) s'.q hs.q_inv (by simpa using hge)
  rw [hW]
  simpa using this

/-- warm-up: the first `w - 1` updates return nothing -/
theorem incks_warmup (w : Nat) (hw : 0 < w) (ref vs : List α) (v : α) (ht : vs.length + 1 < w) :
    (IncKS.update (runK (IncKS.fit (IncKS.init w) ref) vs) v).1 = none := by
  have h := (incks_window w hw ref vs v).1
  rw [h, if_pos ht]

/-- **incremental = batch at every step (every carrier).**  From update `w` on, the lattice statistic
`h` is the batch `hTwoSided ref (last w values)` and the p-value is `pOf |ref| w h` of that `h`:
exact fraction iff `max |ref| w ≤ 10000`. -/
theorem incks_eq_batch (w : Nat) (hw : 0 < w) (ref vs : List α) (v : α) (ht : w ≤ vs.length + 1) :
    ∃ r : IncKS.Result α,
      (IncKS.update (runK (IncKS.fit (IncKS.init w) ref) vs) v).1 = some r ∧
      r.h = KS.hTwoSided ref ((vs ++ [v]).drop (vs.length + 1 - w)) ∧
      r.p = IncKS.pOf ref.length w r.h := by
  obtain ⟨h, hp⟩ := incks_window w hw ref vs v
  have hperm := hp ht
  refine ⟨_, by rw [h, if_neg (by omega)], incr_eq_batch ref _ _ hperm, ?_⟩
  have h1 : (Hist.sort ref).length = ref.length := (sort_perm ref).length_eq
  have h2 := hperm.length_eq
  simp only [List.length_drop, List.length_append, List.length_cons, List.length_nil] at h2
  simp only [h1, h2]
  congr 1; omega

/-- the exact branch is taken iff both sizes are at most 10 000 -/
theorem pOf_exact_iff (n w h : Nat) : (IncKS.pOf n w h).isSome ↔ max n w ≤ 10000 := by
  unfold IncKS.pOf IncKS.maxAutoN
  split <;> simp_all

theorem pOf_exact (n w h : Nat) (hn : max n w ≤ 10000) : IncKS.pOf n w h = some (KS.pExactFrac n w h) := by
  simp [IncKS.pOf, IncKS.maxAutoN, hn]

/-- a second `fit` without `reset` keeps counter and window (documented behaviour of the code) -/
theorem refit_keeps_window (s : IncKS.State α) (xs : List α) :
    (IncKS.fit s xs).n = s.n ∧ (IncKS.fit s xs).q = s.q := ⟨rfl, rfl⟩

/-- non-vacuity (the hypotheses of `incks_eq_batch` are met by a concrete run over ℝ) -/
example : ∃ r : IncKS.Result ℝ, (IncKS.update (runK (IncKS.fit (IncKS.init 2) [3, 1, 2]) [(5 : ℝ)]) 0).1 = some r ∧
    r.h = KS.hTwoSided [3, 1, 2] [(5 : ℝ), 0] ∧ r.p = some (KS.pExactFrac 3 2 r.h) := by
  obtain ⟨r, h1, h2, h3⟩ := incks_eq_batch 2 (by omega) [3, 1, 2] [(5 : ℝ)] 0 (by simp)
  exact ⟨r, h1, by simpa using h2, by rw [h3]; exact pOf_exact _ _ _ (by simp)⟩
example : IncKS.updateErr (IncKS.init (α := ℝ) 2) = some .missingFit := rfl

end Frouros.C11b

#print axioms Frouros.C11b.update_unfitted
#print axioms Frouros.C11b.updateErr_fitted
#print axioms Frouros.C11b.reset_unfits
#print axioms Frouros.C11b.rejected_no_trace
#print axioms Frouros.C11b.incks_window
#print axioms Frouros.C11b.incks_warmup
#print axioms Frouros.C11b.incks_eq_batch
#print axioms Frouros.C11b.pOf_exact_iff
#print axioms Frouros.C11b.pOf_exact
#print axioms Frouros.C11b.refit_keeps_window
